(* C01, instantiated: the concrete integer-core machine of Model/SemCore.v satisfies the
   hypotheses of [nf_equiv_renamed] (Proofs/Sem.v), for EVERY parse / emit context. *)
From Coq Require Import List NArith ZArith Bool Lia. Import ListNotations.
From WV Require Import Gen.Ops Model.Common Model.IR Model.ParseFn Model.ParseSpec Model.EmitFn
  Model.BodySpec Model.Sem Model.SemCore.
From WV Require Import Proofs.ParseFn Proofs.Sem Proofs.Fixpoint Proofs.ModFix10.

(* ================================================================== 1. return / unreachable never fall through *)
Theorem core_never_falls : forall l g o s,
  marks_unreachable o = true -> exists h s', core_sem l g (WOp o) s = Halt h s'.
Proof.
  intros l g o s H. destruct o; try discriminate H.
  - exists Return, s. reflexivity.
  - exists Trap, s. reflexivity.
Qed.

(* outside the core everything traps, leaving the state alone *)
Lemma noncore_traps : forall l g o s, is_core o = false -> core_sem l g (WOp o) s = Halt Trap s.
Proof. intros l g o s H. destruct o; try discriminate H; reflexivity. Qed.

(* ================================================================== 2. the renaming *)
(* what decode-then-encode does to a core operator: the five local / global operators get their
   index renumbered, everything else is literally unchanged *)
Definition ren_core (rl rg : N -> N) (o : wop) : wop :=
  match o with
  | W_LocalGet i => W_LocalGet (rl i)
  | W_LocalSet i => W_LocalSet (rl i)
  | W_LocalTee i => W_LocalTee (rl i)
  | W_GlobalGet i => W_GlobalGet (rg i)
  | W_GlobalSet i => W_GlobalSet (rg i)
  | o => o
  end.

(* the generated codec keeps coreness (same sweep as [mu_codec] of Proofs/ModFix10.v) *)
Lemma core_codec : forall i2id id2i o p w, decode_plain i2id o = Some p -> encode_plain id2i p = Some w ->
  is_core w = is_core o.
Proof.
  intros i2id id2i o p w H H0.
  destruct o; cbn [decode_plain] in H;
  repeat match type of H with match ?x with _ => _ end = _ => destruct x end;
  try discriminate H; injection H as <-; cbn [encode_plain] in H0;
  repeat match type of H0 with match ?x with _ => _ end = _ => destruct x end;
  try discriminate H0; injection H0 as <-; reflexivity.
Qed.

Section Ren.
  Variable cx : pctx.
  Variable ecx : ectx.
  (* the renumbering of locals / globals induced by decode-then-encode *)
  Definition rl (i : N) : N := ex_id2i ecx S_local (px_i2id cx S_local i).
  Definition rg (i : N) : N := ex_id2i ecx S_global (px_i2id cx S_global i).

  (* per constructor, from the generated tables *)
  Lemma nf_op_core : forall o, is_core o = true -> nf_op cx ecx o = WOp (ren_core rl rg o).
  Proof. intros o H. destruct o; try discriminate H; reflexivity. Qed.

  Lemma nf_op_local_get i : nf_op cx ecx (W_LocalGet i) = WOp (W_LocalGet (rl i)). Proof. reflexivity. Qed.
  Lemma nf_op_local_set i : nf_op cx ecx (W_LocalSet i) = WOp (W_LocalSet (rl i)). Proof. reflexivity. Qed.
  Lemma nf_op_local_tee i : nf_op cx ecx (W_LocalTee i) = WOp (W_LocalTee (rl i)). Proof. reflexivity. Qed.
  Lemma nf_op_global_get i : nf_op cx ecx (W_GlobalGet i) = WOp (W_GlobalGet (rg i)). Proof. reflexivity. Qed.
  Lemma nf_op_global_set i : nf_op cx ecx (W_GlobalSet i) = WOp (W_GlobalSet (rg i)). Proof. reflexivity. Qed.
  Lemma nf_op_const32 z : nf_op cx ecx (W_I32Const z) = WOp (W_I32Const z). Proof. reflexivity. Qed.
  Lemma nf_op_const64 z : nf_op cx ecx (W_I64Const z) = WOp (W_I64Const z). Proof. reflexivity. Qed.

  (* a non-core operator is re-encoded as a non-core operator, or (undecodable) as `unreachable`,
     or (unencodable) not at all: in each case the core machine traps on it *)
  Lemma nf_op_noncore : forall l g o s, is_core o = false -> core_sem l g (nf_op cx ecx o) s = Halt Trap s.
  Proof.
    intros l g o s H. unfold nf_op, dec.
    destruct (decode_plain (px_i2id cx) o) as [p|] eqn:Hd; [|reflexivity].
    destruct (encode_plain (ex_id2i ecx) p) as [w|] eqn:He; [|reflexivity].
    apply noncore_traps. rewrite (core_codec _ _ _ _ _ Hd He). exact H.
  Qed.

  Section Slots.
    Variable lslot gslot lslot' gslot' : N -> N.
    Hypothesis H_lslot : forall i, lslot' (rl i) = lslot i.
    Hypothesis H_gslot : forall i, gslot' (rg i) = gslot i.

    Lemma core_sem_ren_core : forall o s, is_core o = true ->
      core_sem lslot' gslot' (WOp (ren_core rl rg o)) s = core_sem lslot gslot (WOp o) s.
    Proof.
      intros o s H. destruct o; try discriminate H; try reflexivity;
        cbn [ren_core core_sem core_op]; rewrite ?H_lslot, ?H_gslot; reflexivity.
    Qed.

    (* THE RENAMING LEMMA: the re-encoded operator on the renumbered slots does what the
       original operator does on the original slots - for every operator, core or not *)
    Theorem core_sem_renamed : forall o s,
      core_sem lslot' gslot' (nf_op cx ecx o) s = core_sem lslot gslot (WOp o) s.
    Proof.
      intros o s. destruct (is_core o) eqn:H.
      - rewrite (nf_op_core o H). apply core_sem_ren_core, H.
      - rewrite (nf_op_noncore _ _ o s H), (noncore_traps _ _ o s H). reflexivity.
    Qed.
  End Slots.
End Ren.

(* ================================================================== 3. block types *)
Lemma existing_simple_none cx ps rs : existing cx ps rs = Some (ST_Simple None) -> ps = [] /\ rs = [].
Proof.
  unfold existing. destruct ps as [|p ps]; [destruct rs as [|r [|r' rs]]|]; intros H;
    try (split; reflexivity); try discriminate H;
    match type of H with option_map _ ?x = _ => destruct x; discriminate H end.
Qed.
Lemma existing_simple_some cx ps rs t : existing cx ps rs = Some (ST_Simple (Some t)) -> ps = [] /\ rs = [t].
Proof.
  unfold existing. destruct ps as [|p ps]; [destruct rs as [|r [|r' rs]]|]; intros H;
    try discriminate H; try (injection H as ->; split; reflexivity);
    match type of H with option_map _ ?x = _ => destruct x; discriminate H end.
Qed.

Lemma nparams_loop_arity tys bt : nparams tys bt = loop_arity tys bt.
Proof. destruct bt; reflexivity. Qed.
(* block types with the same number of parameters push the same label record *)
Lemma enter_nparams tys tys' bt bt' s : nparams tys' bt' = nparams tys bt -> enter tys' bt' s = enter tys bt s.
Proof. intros H. unfold enter. now rewrite H. Qed.

Section Arity.
  Variable cx : pctx.
  Variable ecx : ectx.
  Variable tys tys' : N -> option (list valty * list valty).
  (* the input table is the one the parser resolves block types with *)
  Hypothesis H_tys : forall i, tys i = bt_tys cx (BT_Func i).
  (* every function type used as a block type has a sequence type (ParseSpec.bt_ok) *)
  Hypothesis H_ok : forall i ps rs, tys i = Some (ps, rs) -> existing cx ps rs <> None.
  (* the output table holds, at the emitted index, the type the parser found *)
  Hypothesis H_tys' : forall ps rs ty, find_type cx ps rs = Some ty -> tys' (ex_id2i ecx S_type ty) = Some (ps, rs).

  Lemma arities_nf_bt : forall bt,
    arity tys' (nf_bt cx ecx bt) = arity tys bt /\ loop_arity tys' (nf_bt cx ecx bt) = loop_arity tys bt.
  Proof.
    intros [|t|i]; [split; reflexivity|split; reflexivity|].
    unfold nf_bt, bt_seqty. cbn [arity loop_arity]. rewrite <- (H_tys i).
    pose proof (H_ok i) as Hk.
    destruct (tys i) as [[ps rs]|]; [|split; reflexivity].
    specialize (Hk ps rs eq_refl).
    destruct (existing cx ps rs) as [[[t|]|ty]|] eqn:Ee; [| | |elim Hk; reflexivity]; cbn [block_type arity loop_arity].
    - apply existing_simple_some in Ee. destruct Ee as [-> ->]. split; reflexivity.
    - apply existing_simple_none in Ee. destruct Ee as [-> ->]. split; reflexivity.
    - apply existing_multi in Ee. destruct Ee as [Hf _]. rewrite (H_tys' _ _ _ Hf). split; reflexivity.
  Qed.
  (* the number of parameters of a block type IS the arity of a loop label *)
  Lemma nparams_nf_bt : forall bt, nparams tys' (nf_bt cx ecx bt) = nparams tys bt.
  Proof. intros bt. rewrite !nparams_loop_arity. apply arities_nf_bt. Qed.
End Arity.

(* ================================================================== 3b. exact labels *)
(* what [unwind] does, stated on the shape of the stack: with [vs] (the label's arity) on top, any
   surplus [extra] below it, and [base] = what was there when the label was entered (the recorded
   height), exactly [vs ++ base] remains and the record is popped *)
Lemma bottom_app extra base : bottom (N.of_nat (length base)) (extra ++ base) = base.
Proof.
  unfold bottom. rewrite Nnat.Nat2N.id, app_length.
  replace (length extra + length base - length base)%nat with (length extra) by lia.
  rewrite skipn_app, skipn_all, Nat.sub_diag. reflexivity.
Qed.
Theorem unwind_exact : forall vs extra base ls lo gl,
  unwind (N.of_nat (length vs))
    {| stk := vs ++ extra ++ base; locs := lo; globs := gl; labs := N.of_nat (length base) :: ls |}
  = {| stk := vs ++ base; locs := lo; globs := gl; labs := ls |}.
Proof.
  intros vs extra base ls lo gl. unfold unwind. cbn [labs stk locs globs]. f_equal.
  rewrite Nnat.Nat2N.id, firstn_app, firstn_all, Nat.sub_diag. cbn [firstn]. rewrite app_nil_r.
  f_equal. rewrite app_assoc. apply bottom_app.
Qed.
(* entering records the height below the parameters; leaving pops the record, stack untouched *)
Lemma leave_enter tys bt s : leave (enter tys bt s) = s.
Proof. destruct s. reflexivity. Qed.
Lemma enter_records tys bt s :
  labs (enter tys bt s) = (N.of_nat (length (stk s)) - nparams tys bt)%N :: labs s /\ stk (enter tys bt s) = stk s.
Proof. split; reflexivity. Qed.

(* ================================================================== 4. the end-to-end statement *)
(* Running the NORMAL FORM (nop / dead code dropped, `else` synthesised) with every operator and
   block type re-encoded ([sem_ren] applies [nf_op], the arities go through [nf_bt]) on the
   RENUMBERED slot maps and the OUTPUT type table gives exactly the same result - final stack,
   locals, globals; fall-through / branch / return / trap / stuck / out of fuel - as running the
   input body.  Instance of [nf_equiv_renamed] (Proofs/Sem.v). *)
Theorem core_roundtrip_equiv : forall cx ecx lslot gslot lslot' gslot' tys tys',
  (forall i, lslot' (rl cx ecx i) = lslot i) ->
  (forall i, gslot' (rg cx ecx i) = gslot i) ->
  (forall bt, arity tys' (nf_bt cx ecx bt) = arity tys bt) ->
  (forall bt, loop_arity tys' (nf_bt cx ecx bt) = loop_arity tys bt) ->
  (forall bt, nparams tys' (nf_bt cx ecx bt) = nparams tys bt) ->
  forall fuel l s,
    eval st halt pop_cond pop_index unwind (fun bt => enter tys' (nf_bt cx ecx bt)) leave
      (sem_ren st halt cx ecx (core_sem lslot' gslot'))
      (fun bt => arity tys' (nf_bt cx ecx bt)) (fun bt => loop_arity tys' (nf_bt cx ecx bt))
      fuel (fst (nf_rt_list false l)) s
    = run_core lslot gslot tys fuel l s.
Proof.
  intros cx ecx lslot gslot lslot' gslot' tys tys' Hl Hg Ha Hla Hnp fuel l s. unfold run_core.
  apply (nf_equiv_renamed st halt pop_cond pop_index unwind leave cx ecx
           (core_sem lslot gslot) (core_sem lslot' gslot') (enter tys) (enter tys')
           (arity tys) (arity tys') (loop_arity tys) (loop_arity tys')).
  - intros o s0. apply core_sem_renamed; assumption.
  - intros bt s0. apply enter_nparams, Hnp.
  - exact Ha.
  - exact Hla.
  - intros o s0. apply core_never_falls.
Qed.

(* ---- the output as a TREE: [ren_t] (Proofs/ModFix10.v) puts [nf_op o] / [nf_bt bt] into the tree;
   its flattening is the emitted operator stream ([flat_ren], c01_emitted_bytes). *)
(* the generated encoder is total (no plain instruction lacks an encoding) *)
Lemma encode_total : forall id2i p, encode_plain id2i p <> None.
Proof.
  intros id2i p. destruct p; cbn [encode_plain];
  repeat match goal with |- match ?x with _ => _ end <> None => destruct x end; discriminate.
Qed.
Lemma nf_op_is_op cx ecx o : exists w, nf_op cx ecx o = WOp w.
Proof.
  unfold nf_op. pose proof (encode_total (ex_id2i ecx) (dec cx o)) as H.
  destruct (encode_plain (ex_id2i ecx) (dec cx o)) as [w|]; [exists w; reflexivity|now elim H].
Qed.

Section RenTree.
  Variable S : Type.
  Variable halt : Type.
  Variable pop_cond : S -> option (bool * S).
  Variable pop_index : S -> option (N * S).
  Variable unwind : N -> S -> S.
  Variable enter' : blockty -> S -> S.
  Variable leave : S -> S.
  Variable cx : pctx.
  Variable ecx : ectx.
  Variable sem' : wins -> S -> step S halt.
  Variable ar' lar' : blockty -> N.

  Notation evt_o := (evt S halt pop_cond pop_index unwind enter' leave sem' ar' lar').
  Notation evl_o := (evl S halt pop_cond pop_index unwind enter' leave sem' ar' lar').
  Notation evt_r := (evt S halt pop_cond pop_index unwind (fun bt => enter' (nf_bt cx ecx bt)) leave (sem_ren S halt cx ecx sem')
                       (fun bt => ar' (nf_bt cx ecx bt)) (fun bt => lar' (nf_bt cx ecx bt))).
  Notation evl_r := (evl S halt pop_cond pop_index unwind (fun bt => enter' (nf_bt cx ecx bt)) leave (sem_ren S halt cx ecx sem')
                       (fun bt => ar' (nf_bt cx ecx bt)) (fun bt => lar' (nf_bt cx ecx bt))).

  Section Rerun.
    Variable rr' rr : rt -> S -> res S halt.
    Hypothesis H_rr : forall bt b l e s,
      rr' (RLoop (nf_bt cx ecx bt) (map (ren_t cx ecx) b) l e) s = rr (RLoop bt b l e) s.

    Definition Rt (t : rt) : Prop := forall s, evt_o rr' (ren_t cx ecx t) s = evt_r rr t s.
    Definition Rl (l : list rt) : Prop := forall s, evl_o rr' (map (ren_t cx ecx) l) s = evl_r rr l s.

    Lemma Rl_of_Forall l : Forall Rt l -> Rl l.
    Proof.
      induction 1 as [|t l Ht Hl IH]; intros s; [reflexivity|].
      cbn [map]. rewrite !evl_cons, (Ht s). destruct (evt_r rr t s); try reflexivity. apply IH.
    Qed.

    Lemma Rt_all : forall t, Rt t.
    Proof.
      induction t as [o l|l|d l|d l|ds d l|bt body l e HF|bt body l e HF|bt th el l e HFt HFe] using rt_ind';
        intros s.
      - cbn [ren_t]. unfold ren_leaf. destruct (nf_op_is_op cx ecx o) as [w Hw]. rewrite Hw.
        cbn [Sem.evt sem_ren]. rewrite Hw. reflexivity.
      - reflexivity.
      - reflexivity.
      - reflexivity.
      - reflexivity.
      - cbn [ren_t]. rewrite !evt_block, (Rl_of_Forall _ HF _). reflexivity.
      - cbn [ren_t]. rewrite !evt_loop, (Rl_of_Forall _ HF _). apply close_ext. intros s'. apply H_rr.
      - destruct el as [[le eb]|]; cbn [ren_t]; rewrite !evt_if;
          destruct (pop_cond s) as [[[|] s1]|]; try reflexivity.
        + rewrite (Rl_of_Forall _ HFt _). reflexivity.
        + cbn [optP snd] in HFe. rewrite (Rl_of_Forall _ HFe _). reflexivity.
        + rewrite (Rl_of_Forall _ HFt _). reflexivity.
    Qed.
    Lemma Rl_all l : Rl l.
    Proof. apply Rl_of_Forall, Forall_forall. intros t _. apply Rt_all. Qed.
  End Rerun.

  Lemma rerun_ren fuel : forall bt b l e s,
    rerun_of S halt pop_cond pop_index unwind enter' leave sem' ar' lar' fuel
      (RLoop (nf_bt cx ecx bt) (map (ren_t cx ecx) b) l e) s
    = rerun_of S halt pop_cond pop_index unwind (fun bt => enter' (nf_bt cx ecx bt)) leave (sem_ren S halt cx ecx sem')
        (fun bt => ar' (nf_bt cx ecx bt)) (fun bt => lar' (nf_bt cx ecx bt)) fuel (RLoop bt b l e) s.
  Proof.
    induction fuel as [|f IH]; intros bt b l e s; [reflexivity|].
    cbn [rerun_of]. rewrite !eval_t_evt_in.
    exact (Rt_all _ _ IH (RLoop bt b l e) s).
  Qed.

  (* evaluating the renamed tree = evaluating the original tree through the renaming *)
  Theorem eval_ren_t : forall fuel l s,
    eval S halt pop_cond pop_index unwind enter' leave sem' ar' lar' fuel (map (ren_t cx ecx) l) s
    = eval S halt pop_cond pop_index unwind (fun bt => enter' (nf_bt cx ecx bt)) leave (sem_ren S halt cx ecx sem')
        (fun bt => ar' (nf_bt cx ecx bt)) (fun bt => lar' (nf_bt cx ecx bt)) fuel l s.
  Proof. intros fuel l s. unfold eval. apply Rl_all, rerun_ren. Qed.
End RenTree.

(* THE END-TO-END STATEMENT ON TREES: the output body - the tree whose flattening is the emitted
   operator stream - run by the same machine on the renumbered slots and the output type table,
   gives exactly the result of the input body. *)
Theorem core_roundtrip_equiv_tree : forall cx ecx lslot gslot lslot' gslot' tys tys',
  (forall i, lslot' (rl cx ecx i) = lslot i) ->
  (forall i, gslot' (rg cx ecx i) = gslot i) ->
  (forall bt, arity tys' (nf_bt cx ecx bt) = arity tys bt) ->
  (forall bt, loop_arity tys' (nf_bt cx ecx bt) = loop_arity tys bt) ->
  (forall bt, nparams tys' (nf_bt cx ecx bt) = nparams tys bt) ->
  forall fuel l s,
    run_core lslot' gslot' tys' fuel (map (ren_t cx ecx) (fst (nf_rt_list false l))) s
    = run_core lslot gslot tys fuel l s.
Proof.
  intros cx ecx lslot gslot lslot' gslot' tys tys' Hl Hg Ha Hla Hnp fuel l s.
  unfold run_core at 1. rewrite eval_ren_t. apply core_roundtrip_equiv; assumption.
Qed.

(* ... with the arity and parameter-count hypotheses derived from the type tables *)
Theorem core_roundtrip_equiv_tys : forall cx ecx lslot gslot lslot' gslot' tys tys',
  (forall i, lslot' (rl cx ecx i) = lslot i) ->
  (forall i, gslot' (rg cx ecx i) = gslot i) ->
  (forall i, tys i = bt_tys cx (BT_Func i)) ->
  (forall i ps rs, tys i = Some (ps, rs) -> existing cx ps rs <> None) ->
  (forall ps rs ty, find_type cx ps rs = Some ty -> tys' (ex_id2i ecx S_type ty) = Some (ps, rs)) ->
  forall fuel l s,
    run_core lslot' gslot' tys' fuel (map (ren_t cx ecx) (fst (nf_rt_list false l))) s
    = run_core lslot gslot tys fuel l s.
Proof.
  intros cx ecx lslot gslot lslot' gslot' tys tys' Hl Hg H1 H2 H3 fuel l s.
  apply core_roundtrip_equiv_tree; try assumption; intros bt;
    first [ apply (nparams_nf_bt cx ecx tys tys' H1 H2 H3 bt) | apply (arities_nf_bt cx ecx tys tys' H1 H2 H3 bt) ].
Qed.

(* the emitted operator stream is the flattening of that output tree *)
Theorem core_output_tree_is_emitted : forall cx ecx l,
  flat_list (map (ren_t cx ecx) (fst (nf_rt_list false l))) = flat_list' cx ecx (fst (nf_rt_list false l)).
Proof. intros. apply flat_ren. Qed.

(* ================================================================== 5. examples (by computation) *)
Module Ex.
  Local Open Scope N_scope.
  Definition swap01 (i : N) : N := if i =? 0 then 1 else if i =? 1 then 0 else i.
  (* a parse context with identity ids, and an emit context that swaps locals 0 and 1 and
     shifts every global up by one (a global was added in front) *)
  Definition cx0 : pctx := {| px_i2id := fun _ i => i; px_types := [] |}.
  Definition ecx0 : ectx :=
    {| ex_id2i := fun sp i => match sp with S_local => swap01 i | S_global => i + 1 | _ => i end;
       ex_ilen := fun _ => 1 |}.
  Definition idN (i : N) : N := i.
  Definition lslot' : N -> N := swap01.          (* output index -> slot *)
  Definition gslot' (i : N) : N := i - 1.
  Definition no_tys (i : N) : option (list valty * list valty) := None.

  Lemma lslot'_ok : forall i, lslot' (rl cx0 ecx0 i) = idN i.
  Proof.
    intros i. unfold lslot', rl, idN. cbn [cx0 ecx0 px_i2id ex_id2i]. unfold swap01.
    destruct (N.eqb_spec i 0) as [->|H0]; [reflexivity|].
    destruct (N.eqb_spec i 1) as [->|H1]; [reflexivity|].
    destruct (N.eqb_spec i 0) as [E|_]; [contradiction|].
    destruct (N.eqb_spec i 1) as [E|_]; [contradiction|]. reflexivity.
  Qed.
  Lemma gslot'_ok : forall i, gslot' (rg cx0 ecx0 i) = idN i.
  Proof. intros i. unfold gslot', rg, idN. cbn [cx0 ecx0 px_i2id ex_id2i]. apply N.add_sub. Qed.
  Lemma arity0_ok : forall bt, arity no_tys (nf_bt cx0 ecx0 bt) = arity no_tys bt.
  Proof.
    intros [|t|i]; try reflexivity. unfold nf_bt, bt_seqty, bt_tys, nth_N. cbn [cx0 px_types px_i2id].
    destruct (N.to_nat i); reflexivity.
  Qed.
  Lemma loop_arity0_ok : forall bt, loop_arity no_tys (nf_bt cx0 ecx0 bt) = loop_arity no_tys bt.
  Proof.
    intros [|t|i]; try reflexivity. unfold nf_bt, bt_seqty, bt_tys, nth_N. cbn [cx0 px_types px_i2id].
    destruct (N.to_nat i); reflexivity.
  Qed.

  Lemma nparams0_ok : forall bt, nparams no_tys (nf_bt cx0 ecx0 bt) = nparams no_tys bt.
  Proof. intros bt. rewrite !nparams_loop_arity. apply loop_arity0_ok. Qed.

  (* the hypotheses of the end-to-end statement are satisfiable, with a NON-trivial renumbering *)
  Theorem ex_equiv : forall fuel l s,
    run_core lslot' gslot' no_tys fuel (map (ren_t cx0 ecx0) (fst (nf_rt_list false l))) s
    = run_core idN idN no_tys fuel l s.
  Proof.
    intros. apply core_roundtrip_equiv_tree.
    - exact lslot'_ok. - exact gslot'_ok. - exact arity0_ok. - exact loop_arity0_ok. - exact nparams0_ok.
  Qed.

  Definition P (o : wop) : rt := RPlain o 0.
  (* local 0 = n, local 1 = acc:
       acc := 1; block { loop { if n == 0 break; acc := acc * n; n := n - 1; continue } }; acc *)
  Definition fact : list rt :=
    [ P (W_I32Const 1); P (W_LocalSet 1);
      RBlock BT_Empty
        [ RLoop BT_Empty
            [ P (W_LocalGet 0); P W_I32Eqz; RBrIf 1 0;
              P (W_LocalGet 1); P (W_LocalGet 0); P W_I32Mul; P (W_LocalSet 1);
              P (W_LocalGet 0); P (W_I32Const 1); P W_I32Sub; P (W_LocalSet 0);
              RBr 0 0 ] 0 0 ] 0 0;
      P (W_LocalGet 1) ].
  Definition s_n (n : N) : st := {| stk := []; locs := [(0, VI32 n); (1, VI32 0)]; globs := [(0, VI32 7)]; labs := [] |}.

  Example fact5 : run_core idN idN no_tys 5 fact (s_n 5)
    = Fall {| stk := [VI32 120]; locs := [(0, VI32 0); (1, VI32 120)]; globs := [(0, VI32 7)]; labs := [] |}.
  Proof. vm_compute. reflexivity. Qed.
  Example fact5_fuel : run_core idN idN no_tys 4 fact (s_n 5) = Fuel.
  Proof. vm_compute. reflexivity. Qed.
  (* wrapping: 13! = 6227020800 = 1932053504 mod 2^32 *)
  Example fact13 : match run_core idN idN no_tys 20 fact (s_n 13) with Fall s => stk s | _ => [] end = [VI32 1932053504].
  Proof. vm_compute. reflexivity. Qed.

  (* the same with nops, dead code after `br`, a `return` followed by a dead division by zero,
     an else-less `if`, and a global update *)
  Definition fact_dirty : list rt :=
    [ RNop 0; P (W_I32Const 1); P (W_LocalSet 1);
      RBlock BT_Empty
        [ RLoop BT_Empty
            [ P (W_LocalGet 0); RNop 0; P W_I32Eqz; RBrIf 1 0;
              P (W_LocalGet 1); P (W_LocalGet 0); P W_I32Mul; P (W_LocalSet 1);
              P (W_LocalGet 0); P (W_I32Const 1); P W_I32Sub; P (W_LocalSet 0);
              RBr 0 0; P (W_I32Const 7); P W_Drop ] 0 0;
          P W_Unreachable ] 0 0;
      P (W_LocalGet 1); P (W_I32Const 100); P W_I32LtU;
      RIf BT_Empty [ P (W_GlobalGet 0); P (W_I32Const 1); P W_I32Add; P (W_GlobalSet 0) ] None 0 0;
      P (W_LocalGet 1); P W_Return;
      P (W_I32Const 1); P (W_I32Const 0); P W_I32DivU ].

  (* its output tree: locals 0 / 1 swapped, global 0 -> 1, nops and dead code gone, `else` added *)
  Example fact_dirty_out : map (ren_t cx0 ecx0) (fst (nf_rt_list false fact_dirty)) =
    [ P (W_I32Const 1); P (W_LocalSet 0);
      RBlock BT_Empty
        [ RLoop BT_Empty
            [ P (W_LocalGet 1); P W_I32Eqz; RBrIf 1 0;
              P (W_LocalGet 0); P (W_LocalGet 1); P W_I32Mul; P (W_LocalSet 0);
              P (W_LocalGet 1); P (W_I32Const 1); P W_I32Sub; P (W_LocalSet 1);
              RBr 0 0 ] 0 0;
          P W_Unreachable ] 0 0;
      P (W_LocalGet 0); P (W_I32Const 100); P W_I32LtU;
      RIf BT_Empty [ P (W_GlobalGet 1); P (W_I32Const 1); P W_I32Add; P (W_GlobalSet 1) ] (Some (default_loc, [])) 0 0;
      P (W_LocalGet 0); P W_Return ].
  Proof. vm_compute. reflexivity. Qed.

  Definition r4 : res st halt :=
    Stop Return {| stk := [VI32 24]; locs := [(0, VI32 0); (1, VI32 24)]; globs := [(0, VI32 8)]; labs := [] |}.
  Example dirty_in : run_core idN idN no_tys 9 fact_dirty (s_n 4) = r4.
  Proof. vm_compute. reflexivity. Qed.
  (* the output tree on the renumbered slots: same result, same state *)
  Example dirty_out : run_core lslot' gslot' no_tys 9 (map (ren_t cx0 ecx0) (fst (nf_rt_list false fact_dirty))) (s_n 4) = r4.
  Proof. vm_compute. reflexivity. Qed.
  (* the renumbering matters: the output tree on the ORIGINAL slot maps does something else *)
  Example dirty_out_unrenumbered :
    run_core idN idN no_tys 9 (map (ren_t cx0 ecx0) (fst (nf_rt_list false fact_dirty))) (s_n 4) <> r4.
  Proof. vm_compute. discriminate. Qed.
  (* 5! = 120 >= 100: the `if` is not taken, the global stays *)
  Example dirty_in5 : run_core idN idN no_tys 9 fact_dirty (s_n 5)
    = Stop Return {| stk := [VI32 120]; locs := [(0, VI32 0); (1, VI32 120)]; globs := [(0, VI32 7)]; labs := [] |}.
  Proof. vm_compute. reflexivity. Qed.

  (* traps *)
  Example div_zero : run_core idN idN no_tys 0 [P (W_I32Const 1); P (W_I32Const 0); P W_I32DivU; P W_Drop] (s_n 0)
    = Stop Trap {| stk := [VI32 0; VI32 1]; locs := locs (s_n 0); globs := globs (s_n 0); labs := [] |}.
  Proof. vm_compute. reflexivity. Qed.
  Example div_ok : match run_core idN idN no_tys 0 [P (W_I32Const 17); P (W_I32Const 5); P W_I32DivU;
                                                    P (W_I32Const 17); P (W_I32Const 5); P W_I32RemU] (s_n 0)
                   with Fall s => stk s | _ => [] end = [VI32 2; VI32 3].
  Proof. vm_compute. reflexivity. Qed.
  Example underflow : run_core idN idN no_tys 0 [P (W_I32Const 1); P W_I32Add] (s_n 0)
    = Stop Trap {| stk := [VI32 1]; locs := locs (s_n 0); globs := globs (s_n 0); labs := [] |}.
  Proof. vm_compute. reflexivity. Qed.
  Example type_mismatch : match run_core idN idN no_tys 0 [P (W_I64Const 1); P (W_I32Const 1); P W_I32Add] (s_n 0)
                          with Stop Trap _ => true | _ => false end = true.
  Proof. vm_compute. reflexivity. Qed.
  Example outside_core : match run_core idN idN no_tys 0 [P W_F32Abs] (s_n 0) with Stop Trap _ => true | _ => false end = true.
  Proof. vm_compute. reflexivity. Qed.
  (* a condition that is not there: stuck, not a trap (the abstract evaluator's verdict) *)
  Example stuck : run_core idN idN no_tys 0 [RBrIf 0 0] (s_n 0) = Stuck.
  Proof. vm_compute. reflexivity. Qed.

  (* ---- exact labels: a branch taken with SURPLUS values above the label's height.
     block (result i32) i32.const 1 i32.const 2 i32.const 3 br 0 end   leaves exactly [3] above what was there *)
  Definition s_base : st := {| stk := [VI32 9]; locs := []; globs := []; labs := [] |}.
  Definition surplus : list rt :=
    [ RBlock (BT_Val VT_I32) [ P (W_I32Const 1); P (W_I32Const 2); P (W_I32Const 3); RBr 0 0 ] 0 0 ].
  Example surplus_exact : run_core idN idN no_tys 0 surplus s_base
    = Fall {| stk := [VI32 3; VI32 9]; locs := []; globs := []; labs := [] |}.
  Proof. vm_compute. reflexivity. Qed.
  (* the lax [unwind k s := s] (the machine before label records) keeps the surplus: a different stack *)
  Example surplus_lax : run_core_lax idN idN no_tys 0 surplus s_base
    = Fall {| stk := [VI32 3; VI32 2; VI32 1; VI32 9]; locs := []; globs := []; labs := [] |}.
  Proof. vm_compute. reflexivity. Qed.
  Example surplus_differs : run_core_lax idN idN no_tys 0 surplus s_base <> run_core idN idN no_tys 0 surplus s_base.
  Proof. vm_compute. discriminate. Qed.
  (* a branch to an OUTER label passes through the inner one: both records are popped, the outer height counts *)
  Example surplus_outer : run_core idN idN no_tys 0
      [ RBlock (BT_Val VT_I32) [ P (W_I32Const 1); RBlock BT_Empty [ P (W_I32Const 2); P (W_I32Const 3); RBr 1 0 ] 0 0 ] 0 0 ] s_base
    = Fall {| stk := [VI32 3; VI32 9]; locs := []; globs := []; labs := [] |}.
  Proof. vm_compute. reflexivity. Qed.
  (* a loop re-entered with junk on the stack: every `br 0` drops it (a loop label of an empty block type keeps 0),
     re-entering records the same height again; the lax machine accumulates the junk *)
  Definition junk_loop : list rt :=
    [ RBlock BT_Empty
        [ RLoop BT_Empty
            [ P (W_LocalGet 0); P W_I32Eqz; RBrIf 1 0;
              P (W_I32Const 7);
              P (W_LocalGet 0); P (W_I32Const 1); P W_I32Sub; P (W_LocalSet 0);
              RBr 0 0 ] 0 0 ] 0 0 ].
  Example junk_exact : run_core idN idN no_tys 5 junk_loop (s_n 3)
    = Fall {| stk := []; locs := [(0, VI32 0); (1, VI32 0)]; globs := [(0, VI32 7)]; labs := [] |}.
  Proof. vm_compute. reflexivity. Qed.
  Example junk_lax : match run_core_lax idN idN no_tys 5 junk_loop (s_n 3) with Fall s => stk s | _ => [] end
    = [VI32 7; VI32 7; VI32 7].
  Proof. vm_compute. reflexivity. Qed.
  (* a block type with a PARAMETER: type 0 = [i32] -> [i32]; the recorded height is below the parameter *)
  Definition tys1 (i : N) : option (list valty * list valty) := if i =? 0 then Some ([VT_I32], [VT_I32]) else None.
  Example param_block : run_core idN idN tys1 0
      [ P (W_I32Const 5); RBlock (BT_Func 0) [ P (W_I32Const 6); P (W_I32Const 7); RBr 0 0 ] 0 0 ] s_base
    = Fall {| stk := [VI32 7; VI32 9]; locs := []; globs := []; labs := [] |}.
  Proof. vm_compute. reflexivity. Qed.
  Example param_block_fall : run_core idN idN tys1 0
      [ P (W_I32Const 5); RBlock (BT_Func 0) [ P (W_I32Const 1); P W_I32Add ] 0 0 ] s_base
    = Fall {| stk := [VI32 6; VI32 9]; locs := []; globs := []; labs := [] |}.
  Proof. vm_compute. reflexivity. Qed.
  (* a halt inside nested constructs carries no cleanup: the records are still there *)
  Example halt_keeps_records : run_core idN idN no_tys 0
      [ RBlock BT_Empty [ P (W_I32Const 1); RBlock BT_Empty [ P W_Return ] 0 0 ] 0 0 ] s_base
    = Stop Return {| stk := [VI32 1; VI32 9]; locs := []; globs := []; labs := [2; 1] |}.
  Proof. vm_compute. reflexivity. Qed.

  (* two's complement: -1 <s 1 but not <u; 0 - 1 wraps; shifts count modulo 32; wrap / extend *)
  Definition top (l : list rt) : list val :=
    match run_core idN idN no_tys 0 l (s_n 0) with Fall s => stk s | _ => [] end.
  Example signed_lt : top [P (W_I32Const (-1)); P (W_I32Const 1); P W_I32LtS;
                           P (W_I32Const (-1)); P (W_I32Const 1); P W_I32LtU] = [VI32 0; VI32 1].
  Proof. vm_compute. reflexivity. Qed.
  Example sub_wraps : top [P (W_I32Const 0); P (W_I32Const 1); P W_I32Sub] = [VI32 4294967295].
  Proof. vm_compute. reflexivity. Qed.
  Example shifts : top [P (W_I32Const 1); P (W_I32Const 33); P W_I32Shl;
                        P (W_I32Const (-1)); P (W_I32Const 31); P W_I32ShrU;
                        P (W_I32Const (-1)); P (W_I32Const 1); P W_I32Shl] = [VI32 4294967294; VI32 1; VI32 2].
  Proof. vm_compute. reflexivity. Qed.
  Example wrap_extend : top [P (W_I64Const (-1)); P W_I32WrapI64; P W_I64ExtendI32U;
                             P (W_I64Const 1); P W_I64Add;
                             P (W_I64Const (-1)); P (W_I64Const 2); P W_I64Mul] = [VI64 18446744073709551614; VI64 4294967296].
  Proof. vm_compute. reflexivity. Qed.
  Example select_tee : top [P (W_I32Const 10); P (W_I32Const 20); P (W_I32Const 0); P W_Select; P (W_LocalTee 1);
                            P (W_LocalGet 1); P W_I32Xor] = [VI32 0].
  Proof. vm_compute. reflexivity. Qed.
End Ex.

Print Assumptions core_never_falls.
Print Assumptions core_sem_renamed.
Print Assumptions core_roundtrip_equiv.
Print Assumptions core_roundtrip_equiv_tree.
Print Assumptions core_roundtrip_equiv_tys.
Print Assumptions encode_total.
Print Assumptions unwind_exact.
Print Assumptions Ex.ex_equiv.
