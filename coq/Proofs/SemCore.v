(* C01, instantiated: the concrete machine of Model/SemCore.v (integer core with one linear memory) satisfies
   the hypotheses of [nf_equiv_renamed_on] (Proofs/Sem.v), for EVERY parse / emit context and every body whose
   load / store immediates survive the round trip ([memarg_ok]: 32-bit offset, alignment exponent < 32);
   for a larger offset the renaming lemma is refuted ([core_sem_renamed_big_offset_refuted]). *)
From Coq Require Import List NArith ZArith Bool Lia. Import ListNotations.
From WV Require Import Gen.Ops Model.Common Model.IR Model.ParseFn Model.ParseSpec Model.EmitFn
  Model.BodySpec Model.Sem Model.SemCore.
From WV Require Import Proofs.ParseFn Proofs.Sem Proofs.Fixpoint Proofs.ModFix10.

(* ================================================================== 1. return / unreachable never fall through *)
Theorem core_never_falls : forall l g m o s,
  marks_unreachable o = true -> exists h s', core_sem l g m (WOp o) s = Halt h s'.
Proof.
  intros l g m o s H. destruct o; try discriminate H.
  - exists Return, s. reflexivity.
  - exists Trap, s. reflexivity.
Qed.

(* outside the core (by constructor) everything GOES WRONG, leaving the state alone *)
Lemma noncore_wrong : forall l g m o s, is_core_shape o = false -> core_sem l g m (WOp o) s = Halt Wrong s.
Proof. intros l g m o s H. destruct o; try discriminate H; reflexivity. Qed.

Lemma is_core_shape_of o : is_core o = true -> is_core_shape o = true.
Proof. unfold is_core. intros H. apply andb_prop in H. apply H. Qed.
Lemma memarg_ok_of o : is_core o = true -> memarg_ok o = true.
Proof. unfold is_core. intros H. apply andb_prop in H. apply H. Qed.
Lemma offset_ok_of o : memarg_ok o = true -> offset_ok o = true.
Proof. unfold memarg_ok. intros H. apply andb_prop in H. apply H. Qed.
Lemma align_ok_of o : memarg_ok o = true -> align_ok o = true.
Proof. unfold memarg_ok. intros H. apply andb_prop in H. apply H. Qed.
(* only the 19 loads / stores of the core can fail [memarg_ok] *)
Lemma memarg_ok_nonmem o : memarg_of o = None -> memarg_ok o = true.
Proof. intros H. unfold memarg_ok, offset_ok, align_ok. rewrite H. reflexivity. Qed.

(* ================================================================== 2. the renaming *)
(* ---- what decode-then-encode does to a memory immediate (Gen/Ops.v: decode_plain keeps
   [1 << align mod 2^32] and [offset mod 2^32]; enc_memarg takes the logarithm back) *)
Definition ren_memarg (rm : N -> N) (m : w_memarg) : w_memarg :=
  {| wa_align := log2_loop 64 (N.shiftl 1 (wa_align m) mod 2^32) 0;
     wa_offset := wa_offset m mod 2^32;
     wa_memory := rm (wa_memory m) |}.

(* THE ALIGNMENT EXPONENT: the round trip is the identity exactly for the exponents below 32; every exponent
   from 32 on comes back as 0 (2^a mod 2^32 = 0, and the logarithm of 0 is taken to be 0) *)
Lemma align_small a : a < 32 -> log2_loop 64 (N.shiftl 1 a mod 2^32) 0 = a.
Proof.
  intros H. destruct a as [|p]; [reflexivity|].
  do 6 (try destruct p as [p|p|]); try reflexivity; exfalso; clear -H; lia.
Qed.
Lemma align_big a : 32 <= a -> log2_loop 64 (N.shiftl 1 a mod 2^32) 0 = 0.
Proof.
  intros H. replace a with (32 + (a - 32)) by lia.
  rewrite N.shiftl_1_l, N.pow_add_r, N.mul_comm, N.mod_mul by discriminate. reflexivity.
Qed.
Theorem align_roundtrip a : log2_loop 64 (N.shiftl 1 a mod 2^32) 0 = if a <? 32 then a else 0.
Proof.
  destruct (N.ltb_spec a 32) as [H|H]; [apply align_small, H|apply align_big, H].
Qed.
Corollary align_roundtrip_id a : log2_loop 64 (N.shiftl 1 a mod 2^32) 0 = a <-> a < 32.
Proof.
  rewrite align_roundtrip. destruct (N.ltb_spec a 32) as [H|H]; split; intros H'; try reflexivity; try assumption; lia.
Qed.
(* with a 32-bit offset and an exponent below 32 only the memory index changes *)
Lemma ren_memarg_id rm m : wa_offset m <? 2^32 = true -> wa_align m <? 32 = true ->
  ren_memarg rm m = map_memarg (fun _ => rm) m.
Proof.
  intros Ho Ha. unfold ren_memarg, map_memarg. apply N.ltb_lt in Ho. apply N.ltb_lt in Ha.
  rewrite (align_small _ Ha), (N.mod_small _ _ Ho). reflexivity.
Qed.

(* what decode-then-encode does to a core operator: the five local / global operators and the memory
   operators get their index renumbered (and the memory immediate goes through [ren_memarg]),
   everything else is literally unchanged *)
Definition ren_core (rl rg rm : N -> N) (o : wop) : wop :=
  match o with
  | W_LocalGet i => W_LocalGet (rl i)
  | W_LocalSet i => W_LocalSet (rl i)
  | W_LocalTee i => W_LocalTee (rl i)
  | W_GlobalGet i => W_GlobalGet (rg i)
  | W_GlobalSet i => W_GlobalSet (rg i)
  | W_I32Load m => W_I32Load (ren_memarg rm m)
  | W_I64Load m => W_I64Load (ren_memarg rm m)
  | W_I32Load8S m => W_I32Load8S (ren_memarg rm m)
  | W_I32Load8U m => W_I32Load8U (ren_memarg rm m)
  | W_I32Load16S m => W_I32Load16S (ren_memarg rm m)
  | W_I32Load16U m => W_I32Load16U (ren_memarg rm m)
  | W_I64Load8S m => W_I64Load8S (ren_memarg rm m)
  | W_I64Load8U m => W_I64Load8U (ren_memarg rm m)
  | W_I64Load16S m => W_I64Load16S (ren_memarg rm m)
  | W_I64Load16U m => W_I64Load16U (ren_memarg rm m)
  | W_I64Load32S m => W_I64Load32S (ren_memarg rm m)
  | W_I64Load32U m => W_I64Load32U (ren_memarg rm m)
  | W_I32Store m => W_I32Store (ren_memarg rm m)
  | W_I64Store m => W_I64Store (ren_memarg rm m)
  | W_I32Store8 m => W_I32Store8 (ren_memarg rm m)
  | W_I32Store16 m => W_I32Store16 (ren_memarg rm m)
  | W_I64Store8 m => W_I64Store8 (ren_memarg rm m)
  | W_I64Store16 m => W_I64Store16 (ren_memarg rm m)
  | W_I64Store32 m => W_I64Store32 (ren_memarg rm m)
  | W_MemorySize i => W_MemorySize (rm i)
  | W_MemoryGrow i => W_MemoryGrow (rm i)
  | o => o
  end.

(* the generated codec keeps coreness (same sweep as [mu_codec] of Proofs/ModFix10.v) *)
Lemma core_codec : forall i2id id2i o p w, decode_plain i2id o = Some p -> encode_plain id2i p = Some w ->
  is_core_shape w = is_core_shape o.
Proof.
  intros i2id id2i o p w H H0.
  destruct o; cbn [decode_plain] in H;
  repeat match type of H with match ?x with _ => _ end = _ => destruct x end;
  try discriminate H; injection H as <-; cbn [encode_plain] in H0;
  repeat match type of H0 with match ?x with _ => _ end = _ => destruct x end;
  try discriminate H0; injection H0 as <-; reflexivity.
Qed.

Section Ren.
  Variable cx : pctx.
  Variable ecx : ectx.
  (* the renumbering of locals / globals / memories induced by decode-then-encode *)
  Definition rl (i : N) : N := ex_id2i ecx S_local (px_i2id cx S_local i).
  Definition rg (i : N) : N := ex_id2i ecx S_global (px_i2id cx S_global i).
  Definition rm (i : N) : N := ex_id2i ecx S_memory (px_i2id cx S_memory i).

  (* per constructor, from the generated tables *)
  Lemma nf_op_core : forall o, is_core_shape o = true -> nf_op cx ecx o = WOp (ren_core rl rg rm o).
  Proof. intros o H. destruct o; try discriminate H; reflexivity. Qed.

  (* ... and when the memory immediate survives, the output operator is the input operator with its
     indices renumbered ([map_idx] of Gen/Ops.v), nothing else *)
  Lemma ren_core_map_idx : forall o, is_core o = true ->
    ren_core rl rg rm o = map_idx (fun sp i => ex_id2i ecx sp (px_i2id cx sp i)) o.
  Proof.
    intros o H. pose proof (is_core_shape_of o H) as Hs. pose proof (memarg_ok_of o H) as Hm.
    pose proof (offset_ok_of o Hm) as Ho. pose proof (align_ok_of o Hm) as Ha. clear H Hm.
    destruct o; try discriminate Hs; try reflexivity;
      cbn [ren_core map_idx]; f_equal; (apply ren_memarg_id; [exact Ho|exact Ha]).
  Qed.
  Theorem nf_op_core_map_idx : forall o, is_core o = true ->
    nf_op cx ecx o = WOp (map_idx (fun sp i => ex_id2i ecx sp (px_i2id cx sp i)) o).
  Proof. intros o H. rewrite (nf_op_core o (is_core_shape_of o H)), (ren_core_map_idx o H). reflexivity. Qed.

  Lemma nf_op_local_get i : nf_op cx ecx (W_LocalGet i) = WOp (W_LocalGet (rl i)). Proof. reflexivity. Qed.
  Lemma nf_op_local_set i : nf_op cx ecx (W_LocalSet i) = WOp (W_LocalSet (rl i)). Proof. reflexivity. Qed.
  Lemma nf_op_local_tee i : nf_op cx ecx (W_LocalTee i) = WOp (W_LocalTee (rl i)). Proof. reflexivity. Qed.
  Lemma nf_op_global_get i : nf_op cx ecx (W_GlobalGet i) = WOp (W_GlobalGet (rg i)). Proof. reflexivity. Qed.
  Lemma nf_op_global_set i : nf_op cx ecx (W_GlobalSet i) = WOp (W_GlobalSet (rg i)). Proof. reflexivity. Qed.
  Lemma nf_op_const32 z : nf_op cx ecx (W_I32Const z) = WOp (W_I32Const z). Proof. reflexivity. Qed.
  Lemma nf_op_const64 z : nf_op cx ecx (W_I64Const z) = WOp (W_I64Const z). Proof. reflexivity. Qed.
  Lemma nf_op_i32_load m : nf_op cx ecx (W_I32Load m) = WOp (W_I32Load (ren_memarg rm m)). Proof. reflexivity. Qed.
  Lemma nf_op_i64_store m : nf_op cx ecx (W_I64Store m) = WOp (W_I64Store (ren_memarg rm m)). Proof. reflexivity. Qed.
  Lemma nf_op_memory_size i : nf_op cx ecx (W_MemorySize i) = WOp (W_MemorySize (rm i)). Proof. reflexivity. Qed.
  Lemma nf_op_memory_grow i : nf_op cx ecx (W_MemoryGrow i) = WOp (W_MemoryGrow (rm i)). Proof. reflexivity. Qed.

  (* a DECODABLE non-core operator is re-encoded as a non-core operator, or (unencodable) not at all: in each case
     the core machine goes wrong on it.  An UNDECODABLE operator (`ref.null` of a concrete heap type is the only one) is
     totalised by [dec] into `unreachable`, a genuine trap: since going wrong is separated from trapping, the machine
     no longer does the same on it ([core_sem_renamed_undecodable_refuted] below) - the real parser panics there *)
  Lemma nf_op_noncore : forall l g m o s, is_core_shape o = false -> decode_plain (px_i2id cx) o <> None ->
    core_sem l g m (nf_op cx ecx o) s = Halt Wrong s.
  Proof.
    intros l g m o s H Hdec. unfold nf_op, dec.
    destruct (decode_plain (px_i2id cx) o) as [p|] eqn:Hd; [|contradiction].
    destruct (encode_plain (ex_id2i ecx) p) as [w|] eqn:He; [|reflexivity].
    apply noncore_wrong. rewrite (core_codec _ _ _ _ _ Hd He). exact H.
  Qed.
  (* without decodability: halts, state unchanged, going wrong or trapping *)
  Lemma nf_op_noncore_halts : forall l g m o s, is_core_shape o = false ->
    core_sem l g m (nf_op cx ecx o) s = Halt Wrong s \/ core_sem l g m (nf_op cx ecx o) s = Halt Trap s.
  Proof.
    intros l g m o s H. destruct (decode_plain (px_i2id cx) o) as [p|] eqn:Hd.
    - left. apply nf_op_noncore; [exact H|]. rewrite Hd. discriminate.
    - right. unfold nf_op, dec. rewrite Hd. reflexivity.
  Qed.

  Section Slots.
    Variable lslot gslot mslot lslot' gslot' mslot' : N -> N.
    Hypothesis H_lslot : forall i, lslot' (rl i) = lslot i.
    Hypothesis H_gslot : forall i, gslot' (rg i) = gslot i.
    Hypothesis H_mslot : forall i, mslot' (rm i) = mslot i.

    Lemma core_sem_ren_core : forall o s, is_core_shape o = true -> offset_ok o = true ->
      core_sem lslot' gslot' mslot' (WOp (ren_core rl rg rm o)) s = core_sem lslot gslot mslot (WOp o) s.
    Proof.
      intros o s H Ho. destruct o; try discriminate H; try reflexivity;
        cbn [ren_core core_sem core_op ren_memarg wa_memory wa_offset];
        rewrite ?H_lslot, ?H_gslot, ?H_mslot; try reflexivity;
        (rewrite N.mod_small; [reflexivity|apply N.ltb_lt; exact Ho]).
    Qed.

    (* THE RENAMING LEMMA: the re-encoded operator on the renumbered slots does what the
       original operator does on the original slots - for every operator, core or not, whose offset
       immediate (if it is a load / store of the core) fits in 32 bits.  The alignment immediate may
       change (an exponent >= 32 becomes 0): it has no meaning. *)
    Theorem core_sem_renamed : forall o s, offset_ok o = true -> decode_plain (px_i2id cx) o <> None ->
      core_sem lslot' gslot' mslot' (nf_op cx ecx o) s = core_sem lslot gslot mslot (WOp o) s.
    Proof.
      intros o s Ho Hdec. destruct (is_core_shape o) eqn:H.
      - rewrite (nf_op_core o H). apply core_sem_ren_core; assumption.
      - rewrite (nf_op_noncore _ _ _ o s H Hdec), (noncore_wrong _ _ _ o s H). reflexivity.
    Qed.
    (* a core operator is decodable: the premise is only about the operators outside the core *)
    Lemma core_shape_decodable : forall o, is_core_shape o = true -> decode_plain (px_i2id cx) o <> None.
    Proof. intros o H. destruct o; try discriminate H; discriminate. Qed.
  End Slots.
End Ren.

(* WITHOUT the bound on the offset the renaming lemma is FALSE: walrus keeps [offset mod 2^32].
   Identity contexts and slot maps; one page of memory; `i32.load offset=2^32` at address 0 is out of
   bounds in the input and, re-encoded with offset 0, in bounds in the output. *)
Definition cx_id : pctx := {| px_i2id := fun _ i => i; px_types := [] |}.
Definition ecx_id : ectx := {| ex_id2i := fun _ i => i; ex_ilen := fun _ => 1 |}.
Definition big_load : wop := W_I32Load {| wa_align := 2; wa_offset := 4294967296; wa_memory := 0 |}.
Definition big_store : wop := W_I32Store {| wa_align := 2; wa_offset := 4294967296 + 8; wa_memory := 0 |}.
Definition s_big : st :=
  {| stk := [VI32 7; VI32 0]; locs := []; globs := []; labs := []; mem := [(0, 42)]; pages := 1; max_pages := 1 |}.
Theorem core_sem_renamed_big_offset_refuted :
  exists cx ecx (lslot gslot mslot lslot' gslot' mslot' : N -> N) o s,
    (forall i, lslot' (rl cx ecx i) = lslot i) /\
    (forall i, gslot' (rg cx ecx i) = gslot i) /\
    (forall i, mslot' (rm cx ecx i) = mslot i) /\
    is_core_shape o = true /\ align_ok o = true /\
    core_sem lslot gslot mslot (WOp o) s = Halt Trap s /\
    core_sem lslot' gslot' mslot' (nf_op cx ecx o) s
      = Next {| stk := [VI32 42; VI32 0]; locs := []; globs := []; labs := []; mem := [(0, 42)]; pages := 1; max_pages := 1 |}.
Proof.
  exists cx_id, ecx_id, (fun i => i), (fun i => i), (fun i => i), (fun i => i), (fun i => i), (fun i => i),
    big_load, {| stk := [VI32 0; VI32 0]; locs := []; globs := []; labs := []; mem := [(0, 42)]; pages := 1; max_pages := 1 |}.
  repeat split; vm_compute; reflexivity.
Qed.
(* the same for a store: the input traps, the output WRITES memory (at 8) *)
Example big_store_in : core_sem (fun i => i) (fun i => i) (fun i => i) (WOp big_store) s_big = Halt Trap s_big.
Proof. vm_compute. reflexivity. Qed.
Example big_store_out : core_sem (fun i => i) (fun i => i) (fun i => i) (nf_op cx_id ecx_id big_store) s_big
  = Next {| stk := []; locs := []; globs := []; labs := [];
            mem := [(0, 42); (8, 7); (9, 0); (10, 0); (11, 0)]; pages := 1; max_pages := 1 |}.
Proof. vm_compute. reflexivity. Qed.
(* the alignment exponent, by contrast, may change without any effect: 40 comes back as 0 *)
Example big_align_out : nf_op cx_id ecx_id (W_I32Load {| wa_align := 40; wa_offset := 4; wa_memory := 0 |})
  = WOp (W_I32Load {| wa_align := 0; wa_offset := 4; wa_memory := 0 |}).
Proof. vm_compute. reflexivity. Qed.

(* ================================================================== 3. block types *)
Lemma existing_simple_none cx ps rs : existing cx ps rs = Some (ST_Simple None) -> ps = [] /\ rs = [].
Proof.
  unfold existing. destruct ps as [|p ps]; [destruct rs as [|r [|r' rs]]|]; intros H;
    try (split; reflexivity); try discriminate H;
    match type of H with option_map _ ?x = _ => destruct x; discriminate H end.
Qed.
Lemma existing_simple_some cx ps rs t : existing cx ps rs = Some (ST_Simple (Some t)) -> ps = [] /\ rs = [t].
Proof.
  unfold existing. destruct ps as [|p ps]; [destruct rs as [|r [|r' rs]]|]; intros H;
    try discriminate H; try (injection H as ->; split; reflexivity);
    match type of H with option_map _ ?x = _ => destruct x; discriminate H end.
Qed.

Lemma nparams_loop_arity tys bt : nparams tys bt = loop_arity tys bt.
Proof. destruct bt; reflexivity. Qed.
(* block types with the same number of parameters push the same label record *)
Lemma enter_nparams tys tys' bt bt' s : nparams tys' bt' = nparams tys bt -> enter tys' bt' s = enter tys bt s.
Proof. intros H. unfold enter. now rewrite H. Qed.

Section Arity.
  Variable cx : pctx.
  Variable ecx : ectx.
  Variable tys tys' : N -> option (list valty * list valty).
  (* the input table is the one the parser resolves block types with *)
  Hypothesis H_tys : forall i, tys i = bt_tys cx (BT_Func i).
  (* every function type used as a block type has a sequence type (ParseSpec.bt_ok) *)
  Hypothesis H_ok : forall i ps rs, tys i = Some (ps, rs) -> existing cx ps rs <> None.
  (* the output table holds, at the emitted index, the type the parser found *)
  Hypothesis H_tys' : forall ps rs ty, find_type cx ps rs = Some ty -> tys' (ex_id2i ecx S_type ty) = Some (ps, rs).

  Lemma arities_nf_bt : forall bt,
    arity tys' (nf_bt cx ecx bt) = arity tys bt /\ loop_arity tys' (nf_bt cx ecx bt) = loop_arity tys bt.
  Proof.
    intros [|t|i]; [split; reflexivity|split; reflexivity|].
    unfold nf_bt, bt_seqty. cbn [arity loop_arity]. rewrite <- (H_tys i).
    pose proof (H_ok i) as Hk.
    destruct (tys i) as [[ps rs]|]; [|split; reflexivity].
    specialize (Hk ps rs eq_refl).
    destruct (existing cx ps rs) as [[[t|]|ty]|] eqn:Ee; [| | |elim Hk; reflexivity]; cbn [block_type arity loop_arity].
    - apply existing_simple_some in Ee. destruct Ee as [-> ->]. split; reflexivity.
    - apply existing_simple_none in Ee. destruct Ee as [-> ->]. split; reflexivity.
    - apply existing_multi in Ee. destruct Ee as [Hf _]. rewrite (H_tys' _ _ _ Hf). split; reflexivity.
  Qed.
  (* the number of parameters of a block type IS the arity of a loop label *)
  Lemma nparams_nf_bt : forall bt, nparams tys' (nf_bt cx ecx bt) = nparams tys bt.
  Proof. intros bt. rewrite !nparams_loop_arity. apply arities_nf_bt. Qed.
End Arity.

(* ================================================================== 3b. exact labels *)
(* what [unwind] does, stated on the shape of the stack: with [vs] (the label's arity) on top, any
   surplus [extra] below it, and [base] = what was there when the label was entered (the recorded
   height), exactly [vs ++ base] remains and the record is popped *)
Lemma bottom_app extra base : bottom (N.of_nat (length base)) (extra ++ base) = base.
Proof.
  unfold bottom. rewrite Nnat.Nat2N.id, app_length.
  replace (length extra + length base - length base)%nat with (length extra) by lia.
  rewrite skipn_app, skipn_all, Nat.sub_diag. reflexivity.
Qed.
Theorem unwind_exact : forall vs extra base ls lo gl me pg mx,
  unwind (N.of_nat (length vs))
    {| stk := vs ++ extra ++ base; locs := lo; globs := gl; labs := N.of_nat (length base) :: ls;
       mem := me; pages := pg; max_pages := mx |}
  = {| stk := vs ++ base; locs := lo; globs := gl; labs := ls; mem := me; pages := pg; max_pages := mx |}.
Proof.
  intros vs extra base ls lo gl me pg mx. unfold unwind. cbn [labs stk locs globs mem pages max_pages]. f_equal.
  rewrite Nnat.Nat2N.id, firstn_app, firstn_all, Nat.sub_diag. cbn [firstn]. rewrite app_nil_r.
  f_equal. rewrite app_assoc. apply bottom_app.
Qed.
(* entering records the height below the parameters; leaving pops the record, stack untouched *)
Lemma leave_enter tys bt s : leave (enter tys bt s) = s.
Proof. destruct s. reflexivity. Qed.
Lemma enter_records tys bt s :
  labs (enter tys bt s) = (N.of_nat (length (stk s)) - nparams tys bt)%N :: labs s /\ stk (enter tys bt s) = stk s.
Proof. split; reflexivity. Qed.

(* ================================================================== 4. the end-to-end statement *)
(* Running the NORMAL FORM (nop / dead code dropped, `else` synthesised) with every operator and
   block type re-encoded ([sem_ren] applies [nf_op], the arities go through [nf_bt]) on the
   RENUMBERED slot maps and the OUTPUT type table gives exactly the same result - final stack,
   locals, globals, MEMORY and its size; fall-through / branch / return / trap / stuck / out of fuel -
   as running the input body, PROVIDED every load / store of the body (dead code included) has a memory
   immediate that survives the round trip.  Instance of [nf_equiv_renamed_on] (Proofs/Sem.v): the
   per-operator hypothesis is only needed - and only true - for the operators that occur. *)
Theorem core_roundtrip_equiv : forall cx ecx lslot gslot mslot lslot' gslot' mslot' tys tys',
  (forall i, lslot' (rl cx ecx i) = lslot i) ->
  (forall i, gslot' (rg cx ecx i) = gslot i) ->
  (forall i, mslot' (rm cx ecx i) = mslot i) ->
  (forall bt, arity tys' (nf_bt cx ecx bt) = arity tys bt) ->
  (forall bt, loop_arity tys' (nf_bt cx ecx bt) = loop_arity tys bt) ->
  (forall bt, nparams tys' (nf_bt cx ecx bt) = nparams tys bt) ->
  forall l, (forall o, In o (ops_of l) -> memarg_ok o = true) ->
  (forall o, In o (ops_of l) -> decode_plain (px_i2id cx) o <> None) ->
  forall fuel s,
    eval st halt pop_cond pop_index unwind (fun bt => enter tys' (nf_bt cx ecx bt)) leave
      (sem_ren st halt cx ecx (core_sem lslot' gslot' mslot'))
      (fun bt => arity tys' (nf_bt cx ecx bt)) (fun bt => loop_arity tys' (nf_bt cx ecx bt))
      fuel (fst (nf_rt_list false l)) s
    = run_core lslot gslot mslot tys fuel l s.
Proof.
  intros cx ecx lslot gslot mslot lslot' gslot' mslot' tys tys' Hl Hg Hm Ha Hla Hnp l Hok Hdec fuel s. unfold run_core.
  apply (nf_equiv_renamed_on st halt pop_cond pop_index unwind leave cx ecx
           (core_sem lslot gslot mslot) (core_sem lslot' gslot' mslot') (enter tys) (enter tys')
           (arity tys) (arity tys') (loop_arity tys) (loop_arity tys')).
  - intros o Ho s0. apply core_sem_renamed; try assumption; [apply offset_ok_of, Hok, Ho|apply Hdec, Ho].
  - intros bt s0. apply enter_nparams, Hnp.
  - exact Ha.
  - exact Hla.
  - intros o _ Hu s0. apply core_never_falls, Hu.
Qed.

(* ---- the output as a TREE: [ren_t] (Proofs/ModFix10.v) puts [nf_op o] / [nf_bt bt] into the tree;
   its flattening is the emitted operator stream ([flat_ren], c01_emitted_bytes). *)
(* the generated encoder is total (no plain instruction lacks an encoding) *)
Lemma encode_total : forall id2i p, encode_plain id2i p <> None.
Proof.
  intros id2i p. destruct p; cbn [encode_plain];
  repeat match goal with |- match ?x with _ => _ end <> None => destruct x end; discriminate.
Qed.
Lemma nf_op_is_op cx ecx o : exists w, nf_op cx ecx o = WOp w.
Proof.
  unfold nf_op. pose proof (encode_total (ex_id2i ecx) (dec cx o)) as H.
  destruct (encode_plain (ex_id2i ecx) (dec cx o)) as [w|]; [exists w; reflexivity|now elim H].
Qed.

Section RenTree.
  Variable S : Type.
  Variable halt : Type.
  Variable pop_cond : S -> option (bool * S).
  Variable pop_index : S -> option (N * S).
  Variable unwind : N -> S -> S.
  Variable enter' : blockty -> S -> S.
  Variable leave : S -> S.
  Variable cx : pctx.
  Variable ecx : ectx.
  Variable sem' : wins -> S -> step S halt.
  Variable ar' lar' : blockty -> N.

  Notation evt_o := (evt S halt pop_cond pop_index unwind enter' leave sem' ar' lar').
  Notation evl_o := (evl S halt pop_cond pop_index unwind enter' leave sem' ar' lar').
  Notation evt_r := (evt S halt pop_cond pop_index unwind (fun bt => enter' (nf_bt cx ecx bt)) leave (sem_ren S halt cx ecx sem')
                       (fun bt => ar' (nf_bt cx ecx bt)) (fun bt => lar' (nf_bt cx ecx bt))).
  Notation evl_r := (evl S halt pop_cond pop_index unwind (fun bt => enter' (nf_bt cx ecx bt)) leave (sem_ren S halt cx ecx sem')
                       (fun bt => ar' (nf_bt cx ecx bt)) (fun bt => lar' (nf_bt cx ecx bt))).

  Section Rerun.
    Variable rr' rr : rt -> S -> res S halt.
    Hypothesis H_rr : forall bt b l e s,
      rr' (RLoop (nf_bt cx ecx bt) (map (ren_t cx ecx) b) l e) s = rr (RLoop bt b l e) s.

    Definition Rt (t : rt) : Prop := forall s, evt_o rr' (ren_t cx ecx t) s = evt_r rr t s.
    Definition Rl (l : list rt) : Prop := forall s, evl_o rr' (map (ren_t cx ecx) l) s = evl_r rr l s.

    Lemma Rl_of_Forall l : Forall Rt l -> Rl l.
    Proof.
      induction 1 as [|t l Ht Hl IH]; intros s; [reflexivity|].
      cbn [map]. rewrite !evl_cons, (Ht s). destruct (evt_r rr t s); try reflexivity. apply IH.
    Qed.

    Lemma Rt_all : forall t, Rt t.
    Proof.
      induction t as [o l|l|d l|d l|ds d l|bt body l e HF|bt body l e HF|bt th el l e HFt HFe] using rt_ind';
        intros s.
      - cbn [ren_t]. unfold ren_leaf. destruct (nf_op_is_op cx ecx o) as [w Hw]. rewrite Hw.
        cbn [Sem.evt sem_ren]. rewrite Hw. reflexivity.
      - reflexivity.
      - reflexivity.
      - reflexivity.
      - reflexivity.
      - cbn [ren_t]. rewrite !evt_block, (Rl_of_Forall _ HF _). reflexivity.
      - cbn [ren_t]. rewrite !evt_loop, (Rl_of_Forall _ HF _). apply close_ext. intros s'. apply H_rr.
      - destruct el as [[le eb]|]; cbn [ren_t]; rewrite !evt_if;
          destruct (pop_cond s) as [[[|] s1]|]; try reflexivity.
        + rewrite (Rl_of_Forall _ HFt _). reflexivity.
        + cbn [optP snd] in HFe. rewrite (Rl_of_Forall _ HFe _). reflexivity.
        + rewrite (Rl_of_Forall _ HFt _). reflexivity.
    Qed.
    Lemma Rl_all l : Rl l.
    Proof. apply Rl_of_Forall, Forall_forall. intros t _. apply Rt_all. Qed.
  End Rerun.

  Lemma rerun_ren fuel : forall bt b l e s,
    rerun_of S halt pop_cond pop_index unwind enter' leave sem' ar' lar' fuel
      (RLoop (nf_bt cx ecx bt) (map (ren_t cx ecx) b) l e) s
    = rerun_of S halt pop_cond pop_index unwind (fun bt => enter' (nf_bt cx ecx bt)) leave (sem_ren S halt cx ecx sem')
        (fun bt => ar' (nf_bt cx ecx bt)) (fun bt => lar' (nf_bt cx ecx bt)) fuel (RLoop bt b l e) s.
  Proof.
    induction fuel as [|f IH]; intros bt b l e s; [reflexivity|].
    cbn [rerun_of]. rewrite !eval_t_evt_in.
    exact (Rt_all _ _ IH (RLoop bt b l e) s).
  Qed.

  (* evaluating the renamed tree = evaluating the original tree through the renaming *)
  Theorem eval_ren_t : forall fuel l s,
    eval S halt pop_cond pop_index unwind enter' leave sem' ar' lar' fuel (map (ren_t cx ecx) l) s
    = eval S halt pop_cond pop_index unwind (fun bt => enter' (nf_bt cx ecx bt)) leave (sem_ren S halt cx ecx sem')
        (fun bt => ar' (nf_bt cx ecx bt)) (fun bt => lar' (nf_bt cx ecx bt)) fuel l s.
  Proof. intros fuel l s. unfold eval. apply Rl_all, rerun_ren. Qed.
End RenTree.

(* THE END-TO-END STATEMENT ON TREES: the output body - the tree whose flattening is the emitted
   operator stream - run by the same machine on the renumbered slots and the output type table,
   gives exactly the result of the input body. *)
Theorem core_roundtrip_equiv_tree : forall cx ecx lslot gslot mslot lslot' gslot' mslot' tys tys',
  (forall i, lslot' (rl cx ecx i) = lslot i) ->
  (forall i, gslot' (rg cx ecx i) = gslot i) ->
  (forall i, mslot' (rm cx ecx i) = mslot i) ->
  (forall bt, arity tys' (nf_bt cx ecx bt) = arity tys bt) ->
  (forall bt, loop_arity tys' (nf_bt cx ecx bt) = loop_arity tys bt) ->
  (forall bt, nparams tys' (nf_bt cx ecx bt) = nparams tys bt) ->
  forall l, (forall o, In o (ops_of l) -> memarg_ok o = true) ->
  (forall o, In o (ops_of l) -> decode_plain (px_i2id cx) o <> None) ->
  forall fuel s,
    run_core lslot' gslot' mslot' tys' fuel (map (ren_t cx ecx) (fst (nf_rt_list false l))) s
    = run_core lslot gslot mslot tys fuel l s.
Proof.
  intros cx ecx lslot gslot mslot lslot' gslot' mslot' tys tys' Hl Hg Hm Ha Hla Hnp l Hok Hdec fuel s.
  unfold run_core at 1. rewrite eval_ren_t. apply core_roundtrip_equiv; assumption.
Qed.

(* ... with the arity and parameter-count hypotheses derived from the type tables *)
Theorem core_roundtrip_equiv_tys : forall cx ecx lslot gslot mslot lslot' gslot' mslot' tys tys',
  (forall i, lslot' (rl cx ecx i) = lslot i) ->
  (forall i, gslot' (rg cx ecx i) = gslot i) ->
  (forall i, mslot' (rm cx ecx i) = mslot i) ->
  (forall i, tys i = bt_tys cx (BT_Func i)) ->
  (forall i ps rs, tys i = Some (ps, rs) -> existing cx ps rs <> None) ->
  (forall ps rs ty, find_type cx ps rs = Some ty -> tys' (ex_id2i ecx S_type ty) = Some (ps, rs)) ->
  forall l, (forall o, In o (ops_of l) -> memarg_ok o = true) ->
  (forall o, In o (ops_of l) -> decode_plain (px_i2id cx) o <> None) ->
  forall fuel s,
    run_core lslot' gslot' mslot' tys' fuel (map (ren_t cx ecx) (fst (nf_rt_list false l))) s
    = run_core lslot gslot mslot tys fuel l s.
Proof.
  intros cx ecx lslot gslot mslot lslot' gslot' mslot' tys tys' Hl Hg Hm H1 H2 H3 l Hok Hdec fuel s.
  apply core_roundtrip_equiv_tree; try assumption; intros bt;
    first [ apply (nparams_nf_bt cx ecx tys tys' H1 H2 H3 bt) | apply (arities_nf_bt cx ecx tys tys' H1 H2 H3 bt) ].
Qed.

(* a body without loads / stores needs no premise: the earlier statement, for the larger core *)
Fixpoint no_mem_ops (l : list wop) : bool :=
  match l with [] => true | o :: r => match memarg_of o with None => no_mem_ops r | Some _ => false end end.
Lemma no_mem_ops_ok l : no_mem_ops l = true -> forall o, In o l -> memarg_ok o = true.
Proof.
  induction l as [|x r IH]; intros H o Ho; [contradiction|].
  cbn [no_mem_ops] in H. destruct (memarg_of x) eqn:E; [discriminate H|].
  destruct Ho as [<-|Ho]; [apply memarg_ok_nonmem, E|apply IH; assumption].
Qed.
(* ... and the premise is decidable by running [forallb memarg_ok] over the operators of the body *)
Lemma memarg_ok_forallb l : forallb memarg_ok (ops_of l) = true -> forall o, In o (ops_of l) -> memarg_ok o = true.
Proof. intros H. apply forallb_forall, H. Qed.

(* ... and so is decodability (true of every core operator: [core_shape_decodable]; the real parser panics otherwise) *)
Definition decodable (cx : pctx) (o : wop) : bool := match decode_plain (px_i2id cx) o with Some _ => true | None => false end.
Lemma decodable_forallb cx l : forallb (decodable cx) (ops_of l) = true ->
  forall o, In o (ops_of l) -> decode_plain (px_i2id cx) o <> None.
Proof.
  intros H o Ho. pose proof (proj1 (forallb_forall _ _) H o Ho) as E. unfold decodable in E.
  destruct (decode_plain (px_i2id cx) o); [discriminate|discriminate E].
Qed.
(* WITHOUT decodability the renaming lemma is FALSE since going wrong is told apart from trapping: `ref.null` of a
   concrete heap type is outside the core (the input goes wrong) and undecodable, [dec] totalises it into `unreachable`
   (the output traps).  Identity contexts and slot maps. *)
Theorem core_sem_renamed_undecodable_refuted :
  exists cx ecx (lslot gslot mslot lslot' gslot' mslot' : N -> N) o s,
    (forall i, lslot' (rl cx ecx i) = lslot i) /\
    (forall i, gslot' (rg cx ecx i) = gslot i) /\
    (forall i, mslot' (rm cx ecx i) = mslot i) /\
    offset_ok o = true /\
    core_sem lslot gslot mslot (WOp o) s = Halt Wrong s /\
    core_sem lslot' gslot' mslot' (nf_op cx ecx o) s = Halt Trap s.
Proof.
  exists cx_id, ecx_id, (fun i => i), (fun i => i), (fun i => i), (fun i => i), (fun i => i), (fun i => i),
    (W_RefNull (HT_Other 0)), s_big.
  repeat split.
Qed.

(* the emitted operator stream is the flattening of that output tree *)
Theorem core_output_tree_is_emitted : forall cx ecx l,
  flat_list (map (ren_t cx ecx) (fst (nf_rt_list false l))) = flat_list' cx ecx (fst (nf_rt_list false l)).
Proof. intros. apply flat_ren. Qed.

(* ================================================================== 5. examples (by computation) *)
Module Ex.
  Local Open Scope N_scope.
  Definition swap01 (i : N) : N := if i =? 0 then 1 else if i =? 1 then 0 else i.
  (* a parse context with identity ids, and an emit context that swaps locals 0 and 1 and
     shifts every global up by one (a global was added in front) and every memory up by two *)
  Definition cx0 : pctx := {| px_i2id := fun _ i => i; px_types := [] |}.
  Definition ecx0 : ectx :=
    {| ex_id2i := fun sp i => match sp with S_local => swap01 i | S_global => i + 1 | S_memory => i + 2 | _ => i end;
       ex_ilen := fun _ => 1 |}.
  Definition idN (i : N) : N := i.
  Definition lslot' : N -> N := swap01.          (* output index -> slot *)
  Definition gslot' (i : N) : N := i - 1.
  Definition mslot' (i : N) : N := if i <? 2 then 1 else i - 2.   (* output memories 0 and 1 are NOT the memory *)
  Definition no_tys (i : N) : option (list valty * list valty) := None.

  Lemma lslot'_ok : forall i, lslot' (rl cx0 ecx0 i) = idN i.
  Proof.
    intros i. unfold lslot', rl, idN. cbn [cx0 ecx0 px_i2id ex_id2i]. unfold swap01.
    destruct (N.eqb_spec i 0) as [->|H0]; [reflexivity|].
    destruct (N.eqb_spec i 1) as [->|H1]; [reflexivity|].
    destruct (N.eqb_spec i 0) as [E|_]; [contradiction|].
    destruct (N.eqb_spec i 1) as [E|_]; [contradiction|]. reflexivity.
  Qed.
  Lemma gslot'_ok : forall i, gslot' (rg cx0 ecx0 i) = idN i.
  Proof. intros i. unfold gslot', rg, idN. cbn [cx0 ecx0 px_i2id ex_id2i]. apply N.add_sub. Qed.
  Lemma mslot'_ok : forall i, mslot' (rm cx0 ecx0 i) = idN i.
  Proof.
    intros i. unfold mslot', rm, idN. cbn [cx0 ecx0 px_i2id ex_id2i].
    destruct (N.ltb_spec (i + 2) 2) as [H|H]; [lia|]. apply N.add_sub.
  Qed.
  Lemma arity0_ok : forall bt, arity no_tys (nf_bt cx0 ecx0 bt) = arity no_tys bt.
  Proof.
    intros [|t|i]; try reflexivity. unfold nf_bt, bt_seqty, bt_tys, nth_N. cbn [cx0 px_types px_i2id].
    destruct (N.to_nat i); reflexivity.
  Qed.
  Lemma loop_arity0_ok : forall bt, loop_arity no_tys (nf_bt cx0 ecx0 bt) = loop_arity no_tys bt.
  Proof.
    intros [|t|i]; try reflexivity. unfold nf_bt, bt_seqty, bt_tys, nth_N. cbn [cx0 px_types px_i2id].
    destruct (N.to_nat i); reflexivity.
  Qed.

  Lemma nparams0_ok : forall bt, nparams no_tys (nf_bt cx0 ecx0 bt) = nparams no_tys bt.
  Proof. intros bt. rewrite !nparams_loop_arity. apply loop_arity0_ok. Qed.

  (* the hypotheses of the end-to-end statement are satisfiable, with a NON-trivial renumbering *)
  Theorem ex_equiv : forall l, (forall o, In o (ops_of l) -> memarg_ok o = true) ->
    (forall o, In o (ops_of l) -> decode_plain (px_i2id cx0) o <> None) -> forall fuel s,
    run_core lslot' gslot' mslot' no_tys fuel (map (ren_t cx0 ecx0) (fst (nf_rt_list false l))) s
    = run_core idN idN idN no_tys fuel l s.
  Proof.
    intros l Hok Hdec fuel s. apply core_roundtrip_equiv_tree.
    - exact lslot'_ok. - exact gslot'_ok. - exact mslot'_ok. - exact arity0_ok. - exact loop_arity0_ok. - exact nparams0_ok.
    - exact Hok. - exact Hdec.
  Qed.

  Definition P (o : wop) : rt := RPlain o 0.
  (* local 0 = n, local 1 = acc:
       acc := 1; block { loop { if n == 0 break; acc := acc * n; n := n - 1; continue } }; acc *)
  Definition fact : list rt :=
    [ P (W_I32Const 1); P (W_LocalSet 1);
      RBlock BT_Empty
        [ RLoop BT_Empty
            [ P (W_LocalGet 0); P W_I32Eqz; RBrIf 1 0;
              P (W_LocalGet 1); P (W_LocalGet 0); P W_I32Mul; P (W_LocalSet 1);
              P (W_LocalGet 0); P (W_I32Const 1); P W_I32Sub; P (W_LocalSet 0);
              RBr 0 0 ] 0 0 ] 0 0;
      P (W_LocalGet 1) ].
  Definition s_n (n : N) : st := {| stk := []; locs := [(0, VI32 n); (1, VI32 0)]; globs := [(0, VI32 7)]; labs := []; mem := []; pages := 0; max_pages := 0 |}.

  Example fact5 : run_core idN idN idN no_tys 5 fact (s_n 5)
    = Fall {| stk := [VI32 120]; locs := [(0, VI32 0); (1, VI32 120)]; globs := [(0, VI32 7)]; labs := []; mem := []; pages := 0; max_pages := 0 |}.
  Proof. vm_compute. reflexivity. Qed.
  Example fact5_fuel : run_core idN idN idN no_tys 4 fact (s_n 5) = Fuel.
  Proof. vm_compute. reflexivity. Qed.
  (* wrapping: 13! = 6227020800 = 1932053504 mod 2^32 *)
  Example fact13 : match run_core idN idN idN no_tys 20 fact (s_n 13) with Fall s => stk s | _ => [] end = [VI32 1932053504].
  Proof. vm_compute. reflexivity. Qed.

  (* the same with nops, dead code after `br`, a `return` followed by a dead division by zero,
     an else-less `if`, and a global update *)
  Definition fact_dirty : list rt :=
    [ RNop 0; P (W_I32Const 1); P (W_LocalSet 1);
      RBlock BT_Empty
        [ RLoop BT_Empty
            [ P (W_LocalGet 0); RNop 0; P W_I32Eqz; RBrIf 1 0;
              P (W_LocalGet 1); P (W_LocalGet 0); P W_I32Mul; P (W_LocalSet 1);
              P (W_LocalGet 0); P (W_I32Const 1); P W_I32Sub; P (W_LocalSet 0);
              RBr 0 0; P (W_I32Const 7); P W_Drop ] 0 0;
          P W_Unreachable ] 0 0;
      P (W_LocalGet 1); P (W_I32Const 100); P W_I32LtU;
      RIf BT_Empty [ P (W_GlobalGet 0); P (W_I32Const 1); P W_I32Add; P (W_GlobalSet 0) ] None 0 0;
      P (W_LocalGet 1); P W_Return;
      P (W_I32Const 1); P (W_I32Const 0); P W_I32DivU ].

  (* its output tree: locals 0 / 1 swapped, global 0 -> 1, nops and dead code gone, `else` added *)
  Example fact_dirty_out : map (ren_t cx0 ecx0) (fst (nf_rt_list false fact_dirty)) =
    [ P (W_I32Const 1); P (W_LocalSet 0);
      RBlock BT_Empty
        [ RLoop BT_Empty
            [ P (W_LocalGet 1); P W_I32Eqz; RBrIf 1 0;
              P (W_LocalGet 0); P (W_LocalGet 1); P W_I32Mul; P (W_LocalSet 0);
              P (W_LocalGet 1); P (W_I32Const 1); P W_I32Sub; P (W_LocalSet 1);
              RBr 0 0 ] 0 0;
          P W_Unreachable ] 0 0;
      P (W_LocalGet 0); P (W_I32Const 100); P W_I32LtU;
      RIf BT_Empty [ P (W_GlobalGet 1); P (W_I32Const 1); P W_I32Add; P (W_GlobalSet 1) ] (Some (default_loc, [])) 0 0;
      P (W_LocalGet 0); P W_Return ].
  Proof. vm_compute. reflexivity. Qed.

  Definition r4 : res st halt :=
    Stop Return {| stk := [VI32 24]; locs := [(0, VI32 0); (1, VI32 24)]; globs := [(0, VI32 8)]; labs := []; mem := []; pages := 0; max_pages := 0 |}.
  Example dirty_in : run_core idN idN idN no_tys 9 fact_dirty (s_n 4) = r4.
  Proof. vm_compute. reflexivity. Qed.
  (* the output tree on the renumbered slots: same result, same state *)
  Example dirty_out : run_core lslot' gslot' mslot' no_tys 9 (map (ren_t cx0 ecx0) (fst (nf_rt_list false fact_dirty))) (s_n 4) = r4.
  Proof. vm_compute. reflexivity. Qed.
  (* the renumbering matters: the output tree on the ORIGINAL slot maps does something else *)
  Example dirty_out_unrenumbered :
    run_core idN idN idN no_tys 9 (map (ren_t cx0 ecx0) (fst (nf_rt_list false fact_dirty))) (s_n 4) <> r4.
  Proof. vm_compute. discriminate. Qed.
  (* 5! = 120 >= 100: the `if` is not taken, the global stays *)
  Example dirty_in5 : run_core idN idN idN no_tys 9 fact_dirty (s_n 5)
    = Stop Return {| stk := [VI32 120]; locs := [(0, VI32 0); (1, VI32 120)]; globs := [(0, VI32 7)]; labs := []; mem := []; pages := 0; max_pages := 0 |}.
  Proof. vm_compute. reflexivity. Qed.

  (* a trap ... *)
  Example div_zero : run_core idN idN idN no_tys 0 [P (W_I32Const 1); P (W_I32Const 0); P W_I32DivU; P W_Drop] (s_n 0)
    = Stop Trap {| stk := [VI32 0; VI32 1]; locs := locs (s_n 0); globs := globs (s_n 0); labs := []; mem := []; pages := 0; max_pages := 0 |}.
  Proof. vm_compute. reflexivity. Qed.
  Example div_ok : match run_core idN idN idN no_tys 0 [P (W_I32Const 17); P (W_I32Const 5); P W_I32DivU;
                                                    P (W_I32Const 17); P (W_I32Const 5); P W_I32RemU] (s_n 0)
                   with Fall s => stk s | _ => [] end = [VI32 2; VI32 3].
  Proof. vm_compute. reflexivity. Qed.
  (* ... and going wrong: stack underflow, operand of the wrong type, operator outside the core *)
  Example underflow : run_core idN idN idN no_tys 0 [P (W_I32Const 1); P W_I32Add] (s_n 0)
    = Stop Wrong {| stk := [VI32 1]; locs := locs (s_n 0); globs := globs (s_n 0); labs := []; mem := []; pages := 0; max_pages := 0 |}.
  Proof. vm_compute. reflexivity. Qed.
  Example type_mismatch : match run_core idN idN idN no_tys 0 [P (W_I64Const 1); P (W_I32Const 1); P W_I32Add] (s_n 0)
                          with Stop Wrong _ => true | _ => false end = true.
  Proof. vm_compute. reflexivity. Qed.
  Example outside_core : match run_core idN idN idN no_tys 0 [P W_F32Abs] (s_n 0) with Stop Wrong _ => true | _ => false end = true.
  Proof. vm_compute. reflexivity. Qed.
  (* a condition that is not there: stuck, not a trap (the abstract evaluator's verdict) *)
  Example stuck : run_core idN idN idN no_tys 0 [RBrIf 0 0] (s_n 0) = Stuck.
  Proof. vm_compute. reflexivity. Qed.

  (* ---- exact labels: a branch taken with SURPLUS values above the label's height.
     block (result i32) i32.const 1 i32.const 2 i32.const 3 br 0 end   leaves exactly [3] above what was there *)
  Definition s_base : st := {| stk := [VI32 9]; locs := []; globs := []; labs := []; mem := []; pages := 0; max_pages := 0 |}.
  Definition surplus : list rt :=
    [ RBlock (BT_Val VT_I32) [ P (W_I32Const 1); P (W_I32Const 2); P (W_I32Const 3); RBr 0 0 ] 0 0 ].
  Example surplus_exact : run_core idN idN idN no_tys 0 surplus s_base
    = Fall {| stk := [VI32 3; VI32 9]; locs := []; globs := []; labs := []; mem := []; pages := 0; max_pages := 0 |}.
  Proof. vm_compute. reflexivity. Qed.
  (* the lax [unwind k s := s] (the machine before label records) keeps the surplus: a different stack *)
  Example surplus_lax : run_core_lax idN idN idN no_tys 0 surplus s_base
    = Fall {| stk := [VI32 3; VI32 2; VI32 1; VI32 9]; locs := []; globs := []; labs := []; mem := []; pages := 0; max_pages := 0 |}.
  Proof. vm_compute. reflexivity. Qed.
  Example surplus_differs : run_core_lax idN idN idN no_tys 0 surplus s_base <> run_core idN idN idN no_tys 0 surplus s_base.
  Proof. vm_compute. discriminate. Qed.
  (* a branch to an OUTER label passes through the inner one: both records are popped, the outer height counts *)
  Example surplus_outer : run_core idN idN idN no_tys 0
      [ RBlock (BT_Val VT_I32) [ P (W_I32Const 1); RBlock BT_Empty [ P (W_I32Const 2); P (W_I32Const 3); RBr 1 0 ] 0 0 ] 0 0 ] s_base
    = Fall {| stk := [VI32 3; VI32 9]; locs := []; globs := []; labs := []; mem := []; pages := 0; max_pages := 0 |}.
  Proof. vm_compute. reflexivity. Qed.
  (* a loop re-entered with junk on the stack: every `br 0` drops it (a loop label of an empty block type keeps 0),
     re-entering records the same height again; the lax machine accumulates the junk *)
  Definition junk_loop : list rt :=
    [ RBlock BT_Empty
        [ RLoop BT_Empty
            [ P (W_LocalGet 0); P W_I32Eqz; RBrIf 1 0;
              P (W_I32Const 7);
              P (W_LocalGet 0); P (W_I32Const 1); P W_I32Sub; P (W_LocalSet 0);
              RBr 0 0 ] 0 0 ] 0 0 ].
  Example junk_exact : run_core idN idN idN no_tys 5 junk_loop (s_n 3)
    = Fall {| stk := []; locs := [(0, VI32 0); (1, VI32 0)]; globs := [(0, VI32 7)]; labs := []; mem := []; pages := 0; max_pages := 0 |}.
  Proof. vm_compute. reflexivity. Qed.
  Example junk_lax : match run_core_lax idN idN idN no_tys 5 junk_loop (s_n 3) with Fall s => stk s | _ => [] end
    = [VI32 7; VI32 7; VI32 7].
  Proof. vm_compute. reflexivity. Qed.
  (* a block type with a PARAMETER: type 0 = [i32] -> [i32]; the recorded height is below the parameter *)
  Definition tys1 (i : N) : option (list valty * list valty) := if i =? 0 then Some ([VT_I32], [VT_I32]) else None.
  Example param_block : run_core idN idN idN tys1 0
      [ P (W_I32Const 5); RBlock (BT_Func 0) [ P (W_I32Const 6); P (W_I32Const 7); RBr 0 0 ] 0 0 ] s_base
    = Fall {| stk := [VI32 7; VI32 9]; locs := []; globs := []; labs := []; mem := []; pages := 0; max_pages := 0 |}.
  Proof. vm_compute. reflexivity. Qed.
  Example param_block_fall : run_core idN idN idN tys1 0
      [ P (W_I32Const 5); RBlock (BT_Func 0) [ P (W_I32Const 1); P W_I32Add ] 0 0 ] s_base
    = Fall {| stk := [VI32 6; VI32 9]; locs := []; globs := []; labs := []; mem := []; pages := 0; max_pages := 0 |}.
  Proof. vm_compute. reflexivity. Qed.
  (* a halt inside nested constructs carries no cleanup: the records are still there *)
  Example halt_keeps_records : run_core idN idN idN no_tys 0
      [ RBlock BT_Empty [ P (W_I32Const 1); RBlock BT_Empty [ P W_Return ] 0 0 ] 0 0 ] s_base
    = Stop Return {| stk := [VI32 1; VI32 9]; locs := []; globs := []; labs := [2; 1]; mem := []; pages := 0; max_pages := 0 |}.
  Proof. vm_compute. reflexivity. Qed.

  (* two's complement: -1 <s 1 but not <u; 0 - 1 wraps; shifts count modulo 32; wrap / extend *)
  Definition top (l : list rt) : list val :=
    match run_core idN idN idN no_tys 0 l (s_n 0) with Fall s => stk s | _ => [] end.
  Example signed_lt : top [P (W_I32Const (-1)); P (W_I32Const 1); P W_I32LtS;
                           P (W_I32Const (-1)); P (W_I32Const 1); P W_I32LtU] = [VI32 0; VI32 1].
  Proof. vm_compute. reflexivity. Qed.
  Example sub_wraps : top [P (W_I32Const 0); P (W_I32Const 1); P W_I32Sub] = [VI32 4294967295].
  Proof. vm_compute. reflexivity. Qed.
  Example shifts : top [P (W_I32Const 1); P (W_I32Const 33); P W_I32Shl;
                        P (W_I32Const (-1)); P (W_I32Const 31); P W_I32ShrU;
                        P (W_I32Const (-1)); P (W_I32Const 1); P W_I32Shl] = [VI32 4294967294; VI32 1; VI32 2].
  Proof. vm_compute. reflexivity. Qed.
  Example wrap_extend : top [P (W_I64Const (-1)); P W_I32WrapI64; P W_I64ExtendI32U;
                             P (W_I64Const 1); P W_I64Add;
                             P (W_I64Const (-1)); P (W_I64Const 2); P W_I64Mul] = [VI64 18446744073709551614; VI64 4294967296].
  Proof. vm_compute. reflexivity. Qed.
  Example select_tee : top [P (W_I32Const 10); P (W_I32Const 20); P (W_I32Const 0); P W_Select; P (W_LocalTee 1);
                            P (W_LocalGet 1); P W_I32Xor] = [VI32 0].
  Proof. vm_compute. reflexivity. Qed.

  (* ================================================================ the second batch of operators and linear memory *)
  (* one page of memory, at most two *)
  Definition s_m : st :=
    {| stk := []; locs := [(0, VI32 0); (1, VI64 0)]; globs := []; labs := []; mem := []; pages := 1; max_pages := 2 |}.
  Definition with_s_m (k : list val) (m : list (N * N)) (p : N) : st :=
    {| stk := k; locs := locs s_m; globs := []; labs := []; mem := m; pages := p; max_pages := 2 |}.
  Definition ma (off : N) : w_memarg := {| wa_align := 0; wa_offset := off; wa_memory := 0 |}.
  Definition runm (l : list rt) : res st halt := run_core idN idN idN no_tys 0 l s_m.
  Definition topm (l : list rt) : list val := match runm l with Fall s => stk s | _ => [] end.
  Definition I (z : Z) : rt := P (W_I32Const z).
  Definition L (z : Z) : rt := P (W_I64Const z).

  (* ---- store then load, every width.  i32.store 0x80FF7F01 at 16; little-endian: bytes 01 7F FF 80 *)
  Example store_little_endian :
    match runm [I 0; I 67305985 (* 0x04030201 *); P (W_I32Store (ma 0))] with Fall s => mem s | _ => [] end
    = [(0, 1); (1, 2); (2, 3); (3, 4)].
  Proof. vm_compute. reflexivity. Qed.
  Example store_load_i32 : topm [I 16; I 2164227841; P (W_I32Store (ma 0));
      I 16; P (W_I32Load (ma 0));            (* 0x80FF7F01 *)
      I 16; P (W_I32Load8U (ma 0));          (* 0x01 *)
      I 16; P (W_I32Load8S (ma 3));          (* 0x80 -> 0xFFFFFF80: the OFFSET is added *)
      I 0; P (W_I32Load8U (ma 19));          (* 0x80, all of the address in the offset *)
      I 16; P (W_I32Load16U (ma 0));         (* 0x7F01 *)
      I 16; P (W_I32Load16S (ma 2));         (* 0x80FF -> 0xFFFF80FF *)
      I 16; P (W_I32Load16S (ma 0));         (* 0x7F01, positive *)
      I 17; P (W_I32Load8S (ma 0))]          (* 0x7F, positive *)
    = [VI32 127; VI32 32513; VI32 4294934783; VI32 32513; VI32 128; VI32 4294967168; VI32 1; VI32 2164227841].
  Proof. vm_compute. reflexivity. Qed.
  (* i64.store 0x8877665544332211 at 8+8 *)
  Example store_load_i64 : topm [I 8; L 9833440827789222417; P (W_I64Store (ma 8));
      I 16; P (W_I64Load (ma 0));
      I 16; P (W_I64Load32U (ma 0));         (* 0x44332211 *)
      I 16; P (W_I64Load32S (ma 4));         (* 0x88776655 -> 0xFFFFFFFF88776655 *)
      I 16; P (W_I64Load32S (ma 0));         (* positive *)
      I 16; P (W_I64Load16U (ma 6));         (* 0x8877 *)
      I 16; P (W_I64Load16S (ma 6));         (* -> 0xFFFFFFFFFFFF8877 *)
      I 16; P (W_I64Load8U (ma 7));          (* 0x88 *)
      I 16; P (W_I64Load8S (ma 7));          (* -> 0xFFFFFFFFFFFFFF88 *)
      I 16; P (W_I64Load8S (ma 0));          (* 0x11 *)
      I 20; P (W_I32Load (ma 0))]            (* the upper half read as an i32: 0x88776655 *)
    = [VI32 2289526357; VI64 17; VI64 18446744073709551496; VI64 136; VI64 18446744073709521015; VI64 34935;
       VI64 1144201745; VI64 18446744071704110677; VI64 1144201745; VI64 9833440827789222417].
  Proof. vm_compute. reflexivity. Qed.
  (* narrow stores write only the low bytes of the operand and leave the neighbours alone *)
  Example narrow_stores_i32 : topm [I 0; I (-1); P (W_I32Store (ma 0)); I 4; I (-1); P (W_I32Store (ma 0));
      I 0; I 4660 (* 0x1234 *); P (W_I32Store8 (ma 0)); I 4; I 305419896 (* 0x12345678 *); P (W_I32Store16 (ma 0));
      I 0; P (W_I32Load (ma 0)); I 4; P (W_I32Load (ma 0))]
    = [VI32 4294923896 (* 0xFFFF5678 *); VI32 4294967092 (* 0xFFFFFF34 *)].
  Proof. vm_compute. reflexivity. Qed.
  Example narrow_stores_i64 : topm [I 0; L (-1); P (W_I64Store (ma 0)); I 8; L (-1); P (W_I64Store (ma 0)); I 16; L (-1); P (W_I64Store (ma 0));
      I 0; L 1311768467463790320 (* 0x123456789ABCDEF0 *); P (W_I64Store8 (ma 0));
      I 8; L 1311768467463790320; P (W_I64Store16 (ma 0)); I 16; L 1311768467463790320; P (W_I64Store32 (ma 0));
      I 0; P (W_I64Load (ma 0)); I 8; P (W_I64Load (ma 0)); I 16; P (W_I64Load (ma 0))]
    = [VI64 18446744072010653424 (* 0xFFFFFFFF9ABCDEF0 *); VI64 18446744073709543152 (* ..DEF0 *); VI64 18446744073709551600 (* ..F0 *)].
  Proof. vm_compute. reflexivity. Qed.

  (* ---- bounds: one page = 65536 bytes; the LAST byte of the access must be inside *)
  Example load_last_word : runm [I 65532; P (W_I32Load (ma 0))] = Fall (with_s_m [VI32 0] [] 1).
  Proof. vm_compute. reflexivity. Qed.
  Example load_oob_by_one : runm [I 65533; P (W_I32Load (ma 0))] = Stop Trap (with_s_m [VI32 65533] [] 1).
  Proof. vm_compute. reflexivity. Qed.
  Example load_last_byte : runm [I 65535; P (W_I32Load8U (ma 0))] = Fall (with_s_m [VI32 0] [] 1).
  Proof. vm_compute. reflexivity. Qed.
  Example load_oob_offset : runm [I 65535; P (W_I32Load8U (ma 1))] = Stop Trap (with_s_m [VI32 65535] [] 1).
  Proof. vm_compute. reflexivity. Qed.
  (* NO wrap-around: 0xFFFFFFFF + 1 is 2^32, not 0 (a 33-bit effective address) *)
  Example ea_does_not_wrap : runm [I (-1); P (W_I32Load8U (ma 1))] = Stop Trap (with_s_m [VI32 4294967295] [] 1).
  Proof. vm_compute. reflexivity. Qed.
  Example ea_does_not_wrap_max : runm [I (-1); P (W_I32Load8U (ma 4294967295))] = Stop Trap (with_s_m [VI32 4294967295] [] 1).
  Proof. vm_compute. reflexivity. Qed.
  Example store_last_dword : runm [I 65528; L 1; P (W_I64Store (ma 0))]
    = Fall (with_s_m [] [(65528, 1); (65529, 0); (65530, 0); (65531, 0); (65532, 0); (65533, 0); (65534, 0); (65535, 0)] 1).
  Proof. vm_compute. reflexivity. Qed.
  (* a store that is partly out of bounds writes NOTHING *)
  Example store_oob_by_one : runm [I 65529; L 1; P (W_I64Store (ma 0))] = Stop Trap (with_s_m [VI64 1; VI32 65529] [] 1).
  Proof. vm_compute. reflexivity. Qed.
  Example store16_oob : runm [I 65535; I 1; P (W_I32Store16 (ma 0))] = Stop Trap (with_s_m [VI32 1; VI32 65535] [] 1).
  Proof. vm_compute. reflexivity. Qed.
  (* operand types are checked: an i64 value for i32.store, an i64 address: going wrong *)
  Example store_wrong_type : runm [I 0; L 1; P (W_I32Store (ma 0))] = Stop Wrong (with_s_m [VI64 1; VI32 0] [] 1).
  Proof. vm_compute. reflexivity. Qed.
  Example load_wrong_type : runm [L 0; P (W_I32Load (ma 0))] = Stop Wrong (with_s_m [VI64 0] [] 1).
  Proof. vm_compute. reflexivity. Qed.
  (* an operator on another memory index (slot <> 0) goes wrong *)
  Example other_memory : runm [I 0; P (W_I32Load {| wa_align := 0; wa_offset := 0; wa_memory := 1 |})] = Stop Wrong (with_s_m [VI32 0] [] 1).
  Proof. vm_compute. reflexivity. Qed.
  Example other_memory_size : runm [P (W_MemorySize 1)] = Stop Wrong s_m.
  Proof. vm_compute. reflexivity. Qed.

  (* ---- memory.size / memory.grow: 1 page, max 2.  size = 1; grow 1 -> 1 (old size); size = 2; grow 1 -> -1; size = 2;
     grow 0 -> 2; the new page is addressable and zero *)
  Example grow_ok_then_fail : runm [P (W_MemorySize 0); I 1; P (W_MemoryGrow 0); P (W_MemorySize 0); I 1; P (W_MemoryGrow 0);
                                    P (W_MemorySize 0); I 0; P (W_MemoryGrow 0); I 65536; P (W_I32Load8U (ma 0))]
    = Fall (with_s_m [VI32 0; VI32 2; VI32 2; VI32 4294967295; VI32 2; VI32 1; VI32 1] [] 2).
  Proof. vm_compute. reflexivity. Qed.
  Example grow_too_much : runm [I 2; P (W_MemoryGrow 0); P (W_MemorySize 0)] = Fall (with_s_m [VI32 1; VI32 4294967295] [] 1).
  Proof. vm_compute. reflexivity. Qed.
  Example grow_minus_one : runm [I (-1); P (W_MemoryGrow 0)] = Fall (with_s_m [VI32 4294967295] [] 1).
  Proof. vm_compute. reflexivity. Qed.
  Example before_grow_oob : runm [I 65536; P (W_I32Load8U (ma 0))] = Stop Trap (with_s_m [VI32 65536] [] 1).
  Proof. vm_compute. reflexivity. Qed.

  (* ---- signed division: INT_MIN / -1 traps, INT_MIN rem -1 = 0, truncation towards zero, the remainder has the sign of the dividend *)
  Example div_s_overflow : runm [I (-2147483648); I (-1); P W_I32DivS] = Stop Trap (with_s_m [VI32 4294967295; VI32 2147483648] [] 1).
  Proof. vm_compute. reflexivity. Qed.
  Example rem_s_int_min : runm [I (-2147483648); I (-1); P W_I32RemS] = Fall (with_s_m [VI32 0] [] 1).
  Proof. vm_compute. reflexivity. Qed.
  Example div_s_zero : runm [I 1; I 0; P W_I32DivS] = Stop Trap (with_s_m [VI32 0; VI32 1] [] 1).
  Proof. vm_compute. reflexivity. Qed.
  Example rem_s_zero : runm [I 1; I 0; P W_I32RemS] = Stop Trap (with_s_m [VI32 0; VI32 1] [] 1).
  Proof. vm_compute. reflexivity. Qed.
  (* -7/2 = -3, -7 rem 2 = -1, 7/-2 = -3, 7 rem -2 = 1, -7/-2 = 3, -7 rem -2 = -1, INT_MIN/2 = -2^30 *)
  Example div_rem_s : topm [I (-7); I 2; P W_I32DivS; I (-7); I 2; P W_I32RemS; I 7; I (-2); P W_I32DivS; I 7; I (-2); P W_I32RemS;
                            I (-7); I (-2); P W_I32DivS; I (-7); I (-2); P W_I32RemS; I (-2147483648); I 2; P W_I32DivS]
    = [VI32 3221225472; VI32 4294967295; VI32 3; VI32 1; VI32 4294967293; VI32 4294967295; VI32 4294967293].
  Proof. vm_compute. reflexivity. Qed.
  Example div_s_overflow64 : runm [L (-9223372036854775808); L (-1); P W_I64DivS]
    = Stop Trap (with_s_m [VI64 18446744073709551615; VI64 9223372036854775808] [] 1).
  Proof. vm_compute. reflexivity. Qed.
  Example rem_s_int_min64 : runm [L (-9223372036854775808); L (-1); P W_I64RemS] = Fall (with_s_m [VI64 0] [] 1).
  Proof. vm_compute. reflexivity. Qed.
  Example div_zero64 : (runm [L 1; L 0; P W_I64DivU], runm [L 1; L 0; P W_I64RemU], runm [L 1; L 0; P W_I64RemS], runm [L 1; L 0; P W_I64DivS])
    = (Stop Trap (with_s_m [VI64 0; VI64 1] [] 1), Stop Trap (with_s_m [VI64 0; VI64 1] [] 1),
       Stop Trap (with_s_m [VI64 0; VI64 1] [] 1), Stop Trap (with_s_m [VI64 0; VI64 1] [] 1)).
  Proof. vm_compute. reflexivity. Qed.
  (* signed: -7/2 = -3, -7 rem 2 = -1, 7/-2 = -3, 7 rem -2 = 1; unsigned: (2^64-7)/2, (2^64-7) mod 2 *)
  Example div_rem64 : topm [L (-7); L 2; P W_I64DivS; L (-7); L 2; P W_I64RemS; L 7; L (-2); P W_I64DivS; L 7; L (-2); P W_I64RemS;
                            L (-7); L 2; P W_I64DivU; L (-7); L 2; P W_I64RemU]
    = [VI64 1; VI64 9223372036854775804; VI64 1; VI64 18446744073709551613; VI64 18446744073709551615; VI64 18446744073709551613].
  Proof. vm_compute. reflexivity. Qed.

  (* ---- clz / ctz / popcnt on 0, 1, -1, INT_MIN, 2^16 (2^32) *)
  Example bits32 : topm [I 0; P W_I32Clz; I 1; P W_I32Clz; I (-1); P W_I32Clz; I (-2147483648); P W_I32Clz; I 65536; P W_I32Clz;
      I 0; P W_I32Ctz; I 1; P W_I32Ctz; I (-2147483648); P W_I32Ctz; I 65536; P W_I32Ctz;
      I 0; P W_I32Popcnt; I (-1); P W_I32Popcnt; I (-2147483648); P W_I32Popcnt; I 2863311530 (* 0xAAAAAAAA *); P W_I32Popcnt]
    = [VI32 16; VI32 1; VI32 32; VI32 0;   VI32 16; VI32 31; VI32 0; VI32 32;   VI32 15; VI32 0; VI32 0; VI32 31; VI32 32].
  Proof. vm_compute. reflexivity. Qed.
  Example bits64 : topm [L 0; P W_I64Clz; L 1; P W_I64Clz; L (-1); P W_I64Clz; L (-9223372036854775808); P W_I64Clz;
      L 0; P W_I64Ctz; L 1; P W_I64Ctz; L (-9223372036854775808); P W_I64Ctz; L 4294967296; P W_I64Ctz;
      L 0; P W_I64Popcnt; L (-1); P W_I64Popcnt; L 4294967296; P W_I64Popcnt]
    = [VI64 1; VI64 64; VI64 0;   VI64 32; VI64 63; VI64 0; VI64 64;   VI64 0; VI64 0; VI64 63; VI64 64].
  Proof. vm_compute. reflexivity. Qed.
  (* ---- rotations: by 1 across the word boundary, by 0 and by the width (identity), count modulo the width *)
  Example rot32 : topm [I 2147483649 (* 0x80000001 *); I 1; P W_I32Rotl; I 1; I 1; P W_I32Rotr;
      I 305419896; I 0; P W_I32Rotl; I 305419896; I 32; P W_I32Rotr;
      I 305419896 (* 0x12345678 *); I 4; P W_I32Rotl (* 0x23456781 *); I 305419896; I 36; P W_I32Rotr (* = rotr 4: 0x81234567 *);
      I 305419896; I 31; P W_I32Rotl (* = rotr 1 *); I (-1); I 7; P W_I32Rotr]
    = [VI32 4294967295; VI32 152709948; VI32 2166572391; VI32 591751041; VI32 305419896; VI32 305419896; VI32 2147483648; VI32 3].
  Proof. vm_compute. reflexivity. Qed.
  Example rot64 : topm [L (-9223372036854775807) (* 0x8000000000000001 *); L 1; P W_I64Rotl; L 1; L 1; P W_I64Rotr;
      L 1311768467463790320; L 64; P W_I64Rotl; L 1311768467463790320 (* 0x123456789ABCDEF0 *); L 4; P W_I64Rotl;
      L 1311768467463790320; L 68; P W_I64Rotr; L 1311768467463790320; L 63; P W_I64Rotl]
    = [VI64 655884233731895160; VI64 81985529216486895; VI64 2541551405711093505; VI64 1311768467463790320; VI64 9223372036854775808; VI64 3].
  Proof. vm_compute. reflexivity. Qed.
  (* ---- shr_s keeps the sign, count modulo the width: -8 >> 1 = -4, -8 >> 33 = -4, -1 >> 31 = -1, INT_MAX >> 30 = 1, INT_MIN >> 31 = -1; shr_u does not *)
  Example shr32 : topm [I (-8); I 1; P W_I32ShrS; I (-8); I 33; P W_I32ShrS; I (-1); I 31; P W_I32ShrS; I 2147483647; I 30; P W_I32ShrS;
                        I (-2147483648); I 31; P W_I32ShrS; I (-8); I 1; P W_I32ShrU]
    = [VI32 2147483644; VI32 4294967295; VI32 1; VI32 4294967295; VI32 4294967292; VI32 4294967292].
  Proof. vm_compute. reflexivity. Qed.
  Example shifts64 : topm [L (-8); L 1; P W_I64ShrS; L (-8); L 65; P W_I64ShrS; L (-1); L 63; P W_I64ShrS; L (-8); L 1; P W_I64ShrU;
                           L 1; L 63; P W_I64Shl; L 1; L 64; P W_I64Shl (* count 64 = 0 *); L (-1); L 63; P W_I64ShrU]
    = [VI64 1; VI64 1; VI64 9223372036854775808; VI64 9223372036854775804; VI64 18446744073709551615;
       VI64 18446744073709551612; VI64 18446744073709551612].
  Proof. vm_compute. reflexivity. Qed.

  (* ---- comparisons, signed vs unsigned, on (-1, 1) and on equal operands *)
  Example cmp32 : topm [I (-1); I 1; P W_I32LeS; I (-1); I 1; P W_I32LeU; I (-1); I 1; P W_I32GtS; I (-1); I 1; P W_I32GtU;
                        I (-1); I 1; P W_I32GeS; I (-1); I 1; P W_I32GeU;
                        I 5; I 5; P W_I32LeS; I 5; I 5; P W_I32LeU; I 5; I 5; P W_I32GtS; I 5; I 5; P W_I32GtU; I 5; I 5; P W_I32GeS; I 5; I 5; P W_I32GeU]
    = [VI32 1; VI32 1; VI32 0; VI32 0; VI32 1; VI32 1;   VI32 1; VI32 0; VI32 1; VI32 0; VI32 0; VI32 1].
  Proof. vm_compute. reflexivity. Qed.
  (* the result of an i64 comparison is an i32 *)
  Example cmp64 : topm [L (-1); L 1; P W_I64LtS; L (-1); L 1; P W_I64LtU; L (-1); L 1; P W_I64LeS; L (-1); L 1; P W_I64LeU;
                        L (-1); L 1; P W_I64GtS; L (-1); L 1; P W_I64GtU; L (-1); L 1; P W_I64GeS; L (-1); L 1; P W_I64GeU;
                        L 5; L 5; P W_I64LtS; L 5; L 5; P W_I64LeS; L 5; L 5; P W_I64GeU; L 5; L 5; P W_I64GtU;
                        L 5; L 5; P W_I64Eq; L 5; L 5; P W_I64Ne; L 0; P W_I64Eqz; L 4294967296; P W_I64Eqz (* not zero: the upper half counts *);
                        L (-9223372036854775808); L 9223372036854775807; P W_I64LtS; L (-9223372036854775808); L 9223372036854775807; P W_I64LtU]
    = [VI32 0; VI32 1;   VI32 0; VI32 1; VI32 0; VI32 1;   VI32 0; VI32 1; VI32 1; VI32 0;   VI32 1; VI32 0; VI32 1; VI32 0; VI32 0; VI32 1; VI32 0; VI32 1].
  Proof. vm_compute. reflexivity. Qed.

  (* ---- sign extension inside a register: only the low part counts *)
  Example ext32 : topm [I 128; P W_I32Extend8S; I 127; P W_I32Extend8S; I 4660 (* 0x1234 -> 0x34 *); P W_I32Extend8S; I 33023 (* 0x80FF -> -1 *); P W_I32Extend8S;
                        I 32768; P W_I32Extend16S; I 32767; P W_I32Extend16S; I 305430528 (* 0x12348000 *); P W_I32Extend16S]
    = [VI32 4294934528; VI32 32767; VI32 4294934528; VI32 4294967295; VI32 52; VI32 127; VI32 4294967168].
  Proof. vm_compute. reflexivity. Qed.
  Example ext64 : topm [I (-2147483648); P W_I64ExtendI32S; I 2147483647; P W_I64ExtendI32S; I (-1); P W_I64ExtendI32S;
                        L 128; P W_I64Extend8S; L 32768; P W_I64Extend16S; L 2147483648; P W_I64Extend32S; L 4294967295; P W_I64Extend32S;
                        L 6442450943 (* 0x17FFFFFFF *); P W_I64Extend32S; L 383 (* 0x17F *); P W_I64Extend8S]
    = [VI64 127; VI64 2147483647; VI64 18446744073709551615; VI64 18446744071562067968; VI64 18446744073709518848;
       VI64 18446744073709551488; VI64 18446744073709551615; VI64 2147483647; VI64 18446744071562067968].
  Proof. vm_compute. reflexivity. Qed.

  (* ---- a body with memory through the round trip: memory 0 becomes memory 2 in the output, locals swapped; a loop fills
     16 bytes with i*3, then sums them as four little-endian words *)
  Definition fill_sum : list rt :=
    [ RBlock BT_Empty
        [ RLoop BT_Empty
            [ P (W_LocalGet 0); P (W_I32Const 16); P W_I32GeU; RBrIf 1 0;
              P (W_LocalGet 0); P (W_LocalGet 0); P (W_I32Const 3); P W_I32Mul; P (W_I32Store8 (ma 100));
              P (W_LocalGet 0); P (W_I32Const 1); P W_I32Add; P (W_LocalSet 0); RNop 0;
              RBr 0 0; P (W_I32Const 0); P (W_I32Load {| wa_align := 2; wa_offset := 8; wa_memory := 7 |}) ] 0 0 ] 0 0;
      P (W_I32Const 100); P (W_I32Load (ma 0)); P (W_I32Const 100); P (W_I32Load (ma 4)); P W_I32Add;
      P (W_I32Const 100); P (W_I32Load (ma 8)); P W_I32Add; P (W_I32Const 100); P (W_I32Load (ma 12)); P W_I32Add;
      P (W_I32Const 0); P (W_I64Load32U (ma 112)); P W_I32WrapI64; P W_I32Add ].
  Example fill_sum_ok : forallb memarg_ok (ops_of fill_sum) = true.
  Proof. vm_compute. reflexivity. Qed.
  Definition s_f : st := {| stk := []; locs := [(0, VI32 0); (1, VI32 0)]; globs := []; labs := []; mem := []; pages := 1; max_pages := 1 |}.
  Example fill_sum_in : match run_core idN idN idN no_tys 20 fill_sum s_f with Fall s => (stk s, length (mem s)) | _ => ([], O) end
    = ([VI32 2575989612], 16%nat).
  Proof. vm_compute. reflexivity. Qed.
  Example fill_sum_out :
    run_core lslot' gslot' mslot' no_tys 20 (map (ren_t cx0 ecx0) (fst (nf_rt_list false fill_sum))) s_f
    = run_core idN idN idN no_tys 20 fill_sum s_f.
  Proof. apply ex_equiv; [apply memarg_ok_forallb, fill_sum_ok|apply decodable_forallb; vm_compute; reflexivity]. Qed.
  (* the output operators address memory 2 *)
  Example fill_sum_out_mem : existsb (fun o => match o with W_I32Store8 m => wa_memory m =? 2 | _ => false end)
      (ops_of (map (ren_t cx0 ecx0) (fst (nf_rt_list false fill_sum)))) = true.
  Proof. vm_compute. reflexivity. Qed.
  (* ... so that on the ORIGINAL slot map the output goes wrong at the first store *)
  Example fill_sum_out_unrenumbered :
    match run_core lslot' gslot' idN no_tys 20 (map (ren_t cx0 ecx0) (fst (nf_rt_list false fill_sum))) s_f with
    | Stop Wrong s => length (mem s) | _ => 99%nat end = 0%nat.
  Proof. vm_compute. reflexivity. Qed.
End Ex.

Print Assumptions core_never_falls.
Print Assumptions core_sem_renamed.
Print Assumptions core_sem_renamed_big_offset_refuted.
Print Assumptions core_sem_renamed_undecodable_refuted.
Print Assumptions align_roundtrip.
Print Assumptions nf_op_core_map_idx.
Print Assumptions core_roundtrip_equiv.
Print Assumptions core_roundtrip_equiv_tree.
Print Assumptions core_roundtrip_equiv_tys.
Print Assumptions encode_total.
Print Assumptions unwind_exact.
Print Assumptions Ex.ex_equiv.
