(* C01, END TO END: the whole-module semantic theorem of Proofs/SemMod.v composed with the module-level models of parse and emit
   (Model/ParseM.v, Model/EmitM.v), for section streams in the fragment of Model/SemModOf.v. *)
From Coq Require Import List NArith ZArith Bool Arith Lia Permutation.
Import ListNotations.
From WV Require Import Gen.Ops Model.Common Model.IR Model.Arena Model.Traversal Model.EmitFn Model.Locals
                       Model.ParseFn Model.ParseSpec Model.BodySpec Model.ModuleM Model.ParseM Model.EmitM Gen.Attrs
                       Model.Sem Model.SemCore Model.SemMod Model.SemModOf.
From WV Require Import Proofs.Arena Proofs.IndexMaps Proofs.Structure Proofs.Structure2 Proofs.Renumbering
                       Proofs.ParseTotal Proofs.TotalityBodies Proofs.ModFix Proofs.ModFix12 Proofs.ModFix15.
From WV Require Proofs.Codec Proofs.Names Proofs.Totality Proofs.ParsedWf Proofs.ModFix5 Proofs.ModFix10 Proofs.ModFix13 Proofs.ModFix41
                Proofs.Sigs2 Proofs.Sem Proofs.SemCore.
From WV Require Import Proofs.Sem Proofs.SemCore Proofs.SemMod.
Local Open Scope nat_scope.

(* ================================================================== 0. the payload functions of Model/SemModOf.v are the ones of the proofs *)
Lemma p_types_eq w : flat_map p_types w = flat_map types_of w. Proof. reflexivity. Qed.
Lemma p_imports_eq w : flat_map p_imports w = flat_map imports_of w. Proof. reflexivity. Qed.
Lemma p_funcs_eq w : flat_map p_funcs w = flat_map funcs_of w. Proof. reflexivity. Qed.
Lemma p_code_eq w : flat_map p_code w = flat_map code_of w. Proof. reflexivity. Qed.
Lemma p_elems_eq w : flat_map p_elems w = flat_map elems_of w. Proof. reflexivity. Qed.

Lemma no_imports_Forall : forall w, flat_map imports_of w = [] -> Forall (fun sec => imports_of sec = []) w.
Proof.
  induction w as [|sec r IH]; intros H; [constructor|]. cbn [flat_map] in H. apply app_eq_nil in H. destruct H as [H1 H2].
  constructor; [exact H1|apply IH, H2].
Qed.
Lemma no_imports_sec_ftys w : flat_map imports_of w = [] -> flat_map sec_ftys w = flat_map funcs_of w.
Proof. intros H. apply WV.Proofs.ModFix41.no_imports_ftys, no_imports_Forall, H. Qed.

Lemma dw_nil : dw_custom []. Proof. intros s []. Qed.

(* a stream without imports parses to a module without imports *)
Lemma parsed_no_imports cf ver w s ilen e : parseM cf ver w = POk s -> emitM (ps_m s) ilen [] = Ok e ->
  flat_map imports_of w = [] -> live_imports (ps_m s) = [].
Proof.
  intros HP HE H0. pose proof (structure_counts _ _ _ _ _ _ _ HP HE) as C.
  destruct C as (_ & _ & _ & _ & _ & _ & _ & _ & C & _). rewrite H0 in C. cbn [length] in C.
  unfold live_imports, aiter, iter. destruct (items (m_imports (ps_m s))); [reflexivity|discriminate C].
Qed.
Lemma emitted_no_imports cf ver w s ilen e : parseM cf ver w = POk s -> emitM (ps_m s) ilen [] = Ok e ->
  flat_map imports_of w = [] -> flat_map imports_of (em_secs e) = [].
Proof.
  intros HP HE H0. pose proof (WV.Proofs.ModFix13.k13_imports_rt _ _ _ _ _ _ HP HE) as F. rewrite H0 in F.
  inversion F. reflexivity.
Qed.

(* the emit-time function map of a module without imports: the local functions in emission order *)
Lemma funcs_map_no_imports m ilen e : emitM m ilen [] = Ok e -> live_imports m = [] ->
  exists fs, used_local_functions m = Ok fs /\ xi_funcs (em_x2i e) = number (map fst fs).
Proof.
  intros HE H0. destruct (emitM_x2i _ _ _ _ HE) as (fs & Hfs & _ & Xf & _). exists fs. split; [exact Hfs|].
  rewrite Xf, H0. reflexivity.
Qed.

(* ================================================================== 1. (i) THE BODIES *)
(* the encoder is total: every parse / emit context pair is [enc_ok] *)
Lemma enc_ok_all cx ecx : WV.Proofs.ModFix10.enc_ok cx ecx.
Proof. intros o _. apply WV.Proofs.SemCore.encode_total. Qed.

(* in a module without imports the arena id of the k-th local function is k *)
Section Bodies.
  Variables (cf : config) (ver : str) (w : wmod) (s : pst) (ilen : wins -> N) (e : emitted).
  Hypothesis V : valid_stream w.
  Hypothesis HP : parseM cf ver w = POk s.
  Hypothesis HE : emitM (ps_m s) ilen [] = Ok e.
  Hypothesis NI : flat_map imports_of w = [].
  Hypothesis LEN : length (flat_map funcs_of w) = length (flat_map code_of w).

  Lemma n_funcs : length (ii_funcs (ps_ids s)) = length (flat_map funcs_of w).
  Proof.
    pose proof (WV.Proofs.Sigs2.n_in_func_stream _ _ _ _ HP) as H. unfold n_in in H. cbn [ids_space] in H.
    rewrite H. f_equal. apply no_imports_sec_ftys, NI.
  Qed.

  (* THE PER-FUNCTION STATEMENT.  The k-th code entry [b] of the input is a flattening [flat_list l ++ [end]] with [l] well formed
     in the parse context of function k; function k has an emitted index j; entry j of the output code section is the flattening
     of [reloc (out_body cx ecx l) pos] - the output body of Proofs/SemMod.v, re-tagged with the output positions - followed by `end`;
     its operators are the operators of [flat_list (out_body cx ecx l)]; its declared locals are those computed by emit_locals *)
  Theorem end_function_body : forall k b, nth_error (flat_map code_of w) k = Some b ->
    exists l eloc j ef f lf,
      wb_ops b = flat_list l ++ [(WEnd, eloc)] /\
      wfl (cx_of s (N.of_nat k)) 1 l /\
      aget (m_funcs (ps_m s)) (N.of_nat k) = Some f /\ fn_kind f = FK_Local lf /\
      get_idx (em_x2i e) S_func (N.of_nat k) = Ok j /\ N.to_nat j < length (flat_map code_of w) /\
      nth_error (em_fns e) (N.to_nat j) = Some ef /\
      nth_error (flat_map code_of (em_secs e)) (N.to_nat j) = Some (ef_body ef) /\
      emit_function (ps_m s) (em_x2i e) ilen (N.of_nat k) lf = Ok ef /\
      let cx := cx_of s (N.of_nat k) in
      let ecx := ecx_of e (ef_lmap ef) ilen in
      (exists pos eloc', wb_ops (ef_body ef) = flat_list (WV.Proofs.ModFix10.reloc (out_body cx ecx l) pos) ++ [(WEnd, eloc')]) /\
      map fst (wb_ops (ef_body ef)) = map fst (flat_list (out_body cx ecx l)) ++ [WEnd].
  Proof.
    intros k b Hb.
    destruct (parsed_function_body _ _ _ _ _ _ HP Hb) as (fid & f & lf & t & ety & Hfid & Hg & Hk & Ht & Hety & Hen & Hpb & _).
    assert (Hkl : k < length (flat_map code_of w)) by (apply nth_error_Some; congruence).
    assert (Efid : fid = N.of_nat k).
    { apply N2Nat.inj. rewrite Hfid, n_funcs, LEN, Nat2N.id. lia. }
    subst fid.
    destruct (valid_bodies_structured _ _ _ _ b (N.of_nat k) V HP (nth_error_In _ _ Hb)) as (l & eloc & Eops & _ & Hw).
    destruct (WV.Proofs.Sigs2.parsed_funcs_all_emitted _ _ _ _ _ _ _ HP HE k) as (j & Hj & Hjn).
    { rewrite (no_imports_sec_ftys _ NI), LEN. exact Hkl. }
    rewrite (no_imports_sec_ftys _ NI), LEN in Hjn.
    pose proof (parsed_no_imports _ _ _ _ _ _ HP HE NI) as LI.
    destruct (funcs_map_no_imports _ _ _ HE LI) as (fs & Hfs & Xf).
    destruct (emit_code_payload _ _ _ _ HE Hfs) as (Hco & F & Hids & Hlen).
    pose proof Hj as Hj'. unfold get_idx in Hj'. cbn [space_map] in Hj'. rewrite Xf in Hj'. apply lookup_number in Hj'.
    rewrite nth_error_map in Hj'. destruct (nth_error fs (N.to_nat j)) as [[pid plf]|] eqn:Hp; [|discriminate Hj'].
    cbn [option_map fst] in Hj'. injection Hj' as ->.
    assert (Hlf : plf = lf).
    { destruct (ulf_in _ _ _ _ Hfs (nth_error_In _ _ Hp)) as (f0 & Hin & Hkf). apply WV.Proofs.Totality.aiter_aget in Hin. congruence. }
    subst plf.
    destruct (Forall2_nth_l _ _ _ _ _ F Hp) as (ef & Hef & Hemit). cbn [fst snd] in Hemit.
    destruct (emit_function_inv _ _ _ _ _ _ Hemit) as (evs & decls & lmap & st & A1 & A2 & A3 & A4 & A5 & _ & A7 & _).
    rewrite Hen in A4. rewrite Eops in Hpb.
    exists l, eloc, j, ef, f, lf.
    split; [exact Eops|]. split; [exact Hw|]. split; [exact Hg|]. split; [exact Hk|]. split; [exact Hj|]. split; [exact Hjn|].
    split; [exact Hef|]. split; [rewrite Hco, nth_error_map, Hef; reflexivity|]. split; [exact Hemit|].
    cbv zeta. rewrite A7.
    destruct (WV.Proofs.ModFix10.emitted_ops_structured (cx_of s (N.of_nat k)) (ecx_of e lmap ilen) ety (ty_results t) l eloc 0%N
                (lf_arena lf) st (lf_fuel lf) Hw (enc_ok_all _ _) Hpb A4) as (eloc1 & Hops & _ & Hm & _ & Hfst & _ & Hout).
    rewrite A5. cbn [wb_ops]. split.
    - eexists. exists eloc1. unfold out_body. exact Hops.
    - rewrite Hfst, Hout, Hm. unfold out_body. rewrite WV.Proofs.ModFix10.flat_ren. reflexivity.
  Qed.
End Bodies.

(* ================================================================== 2. (ii) THE FUNCTION RENUMBERING *)
(* input function index -> output function index (no imports: arena id = input index); an index that has no
   emitted index (out of range) is left alone *)
Definition rf_of (x : x2i) (i : N) : N := match get_idx x S_func i with Ok j => j | _ => i end.
(* output function index -> identity (= input index): the emit-time function map read backwards *)
Definition fslot_of (x : x2i) : N -> N := slot_of (xi_funcs x).

Lemma slot_of_hit l j id : nth_error (map fst l) (N.to_nat j) = Some id -> slot_of l j = id.
Proof. intros H. unfold slot_of. apply nth_error_nth. exact H. Qed.
Lemma slot_of_miss l j : length l <= N.to_nat j -> slot_of l j = j.
Proof. intros H. unfold slot_of. apply nth_overflow. rewrite map_length. exact H. Qed.

Section Renumbering.
  Variables (cf : config) (ver : str) (w : wmod) (s : pst) (ilen : wins -> N) (e : emitted).
  Hypothesis HP : parseM cf ver w = POk s.
  Hypothesis HE : emitM (ps_m s) ilen [] = Ok e.
  Hypothesis NI : flat_map imports_of w = [].
  Let n := length (flat_map funcs_of w).
  Let x := em_x2i e.

  Lemma funcs_wf : wf_map (xi_funcs x).
  Proof. apply (parsed_wf_space _ _ _ _ _ _ _ S_func HP HE). discriminate. Qed.

  Lemma bij : length (out_ftys e) = n /\
         (forall i, i < n -> exists j, get_idx x S_func (N.of_nat i) = Ok j /\ N.to_nat j < n) /\
         (forall i i' j, get_idx x S_func (N.of_nat i) = Ok j -> get_idx x S_func (N.of_nat i') = Ok j -> i = i') /\
         (forall j, N.to_nat j < n -> exists i, i < n /\ get_idx x S_func (N.of_nat i) = Ok j) /\
         (forall i j, get_idx x S_func (N.of_nat i) = Ok j -> i < n).
  Proof.
    pose proof (WV.Proofs.Sigs2.func_renumbering_bijective _ _ _ _ _ _ _ HP HE dw_nil) as B. cbv zeta in B.
    rewrite (no_imports_sec_ftys _ NI) in B. exact B.
  Qed.

  Lemma funcs_len : length (xi_funcs x) = n.
  Proof.
    destruct bij as (B0 & _). rewrite (WV.Proofs.ModFix6.fn_out_ftys_length _ _ _ HE) in B0.
    unfold emitted_ids in B0. cbn [space_map] in B0. rewrite map_length in B0. exact B0.
  Qed.

  (* (ii): [rf_of x] maps [0, n) into [0, n), injectively and onto; it is the emitted index; outside [0, n) it is the identity;
     the slot map induced by the emit-time function map undoes it EVERYWHERE *)
  Theorem end_rf_in_range i : N.to_nat i < n -> get_idx x S_func i = Ok (rf_of x i) /\ N.to_nat (rf_of x i) < n.
  Proof.
    intros Hi. destruct bij as (_ & B1 & _). destruct (B1 _ Hi) as (j & Hj & Hjn). rewrite N2Nat.id in Hj.
    unfold rf_of. rewrite Hj. split; [reflexivity|exact Hjn].
  Qed.
  Theorem end_rf_out_of_range i : n <= N.to_nat i -> rf_of x i = i.
  Proof.
    intros Hi. unfold rf_of. destruct (get_idx x S_func i) as [j| |] eqn:Ej; try reflexivity.
    destruct bij as (_ & _ & _ & _ & B4). specialize (B4 (N.to_nat i) j). rewrite N2Nat.id in B4. specialize (B4 Ej). lia.
  Qed.
  Theorem end_rf_injective i i' : N.to_nat i < n -> N.to_nat i' < n -> rf_of x i = rf_of x i' -> i = i'.
  Proof.
    intros Hi Hi' E. destruct (end_rf_in_range i Hi) as [H1 _]. destruct (end_rf_in_range i' Hi') as [H2 _].
    rewrite <- E in H2. destruct bij as (_ & _ & B2 & _).
    apply N2Nat.inj. apply (B2 (N.to_nat i) (N.to_nat i') (rf_of x i)); rewrite N2Nat.id; assumption.
  Qed.
  Theorem end_rf_onto j : N.to_nat j < n -> exists i, N.to_nat i < n /\ rf_of x i = j.
  Proof.
    intros Hj. destruct bij as (_ & _ & _ & B3 & _). destruct (B3 j Hj) as (i & Hi & Ei).
    exists (N.of_nat i). rewrite Nat2N.id. split; [exact Hi|]. unfold rf_of. rewrite Ei. reflexivity.
  Qed.
  Theorem end_fslot_rf i : fslot_of x (rf_of x i) = i.
  Proof.
    destruct (Nat.lt_ge_cases (N.to_nat i) n) as [Hi|Hi].
    - destruct (end_rf_in_range i Hi) as [H1 _]. unfold fslot_of. apply slot_of_hit.
      apply (x2i_positions x S_func _ _ funcs_wf). exact H1.
    - rewrite (end_rf_out_of_range i Hi). unfold fslot_of. apply slot_of_miss. rewrite funcs_len. exact Hi.
  Qed.
End Renumbering.

(* ================================================================== 3. (iii) THE TABLE *)
Lemma Forall2_get_idx_rf x : forall fs fs', Forall2 (fun f f' => get_idx x S_func f = Ok f') fs fs' -> fs' = map (rf_of x) fs.
Proof.
  induction 1 as [|f f' fs fs' H _ IH]; [reflexivity|]. cbn [map]. rewrite IH. f_equal. unfold rf_of. rewrite H. reflexivity.
Qed.

Theorem end_table cf ver w s ilen e tbl : valid_stream w -> parseM cf ver w = POk s -> emitM (ps_m s) ilen [] = Ok e ->
  table_of_elems (flat_map elems_of w) = Some tbl ->
  table_of_elems (flat_map elems_of (em_secs e)) = Some (map (option_map (rf_of (em_x2i e))) tbl).
Proof.
  intros V HP HE HT. destruct (flat_map elems_of w) as [|el [|el2 r]] eqn:Ew; cbn [table_of_elems] in HT.
  - injection HT as <-. rewrite (WV.Proofs.ModFix5.sg_elems_empty _ _ _ _ _ _ HP HE Ew). reflexivity.
  - destruct (structure_elems_gen _ _ _ _ _ _ _ HP HE) as (es & Hin & F); [rewrite Ew; discriminate|].
    rewrite Ew in F. inversion F as [|a b la lb Hab Hr]; subst. inversion Hr; subst. clear F Hr.
    rewrite (WV.Proofs.ModFix5.sg_once_payload elems_of 8 _ (S_Elems [b]));
      [|exact (WV.Proofs.ModFix5.sg_stream_wf _ _ _ HE)|lia| |exact Hin|reflexivity].
    2:{ intros [] Hs; try reflexivity. discriminate. }
    cbn [elems_of table_of_elems]. unfold elem_rt in Hab. destruct Hab as [Hk Hi].
    destruct (wel_kind el) as [| |t off]; try discriminate HT. destruct off as [z| | | | | | | |]; try discriminate HT.
    destruct z; try discriminate HT. destruct (wel_items el) as [fs|rt0 es0]; [|discriminate HT].
    destruct (table0 t) eqn:Et; [|discriminate HT]. injection HT as <-.
    destruct (wel_kind b) as [| |t' off']; try contradiction. destruct Hk as [(ti & Hti & Et') Ho].
    cbn [ren_const] in Ho. subst off'.
    destruct (wel_items b) as [fs'|rt1 es1]; [|contradiction].
    assert (Ht0 : (match t with Some t0 => t0 | None => 0 end = 0)%N).
    { destruct t as [t0|]; [|reflexivity]. cbn [table0] in Et. apply N.eqb_eq, Et. }
    rewrite Ht0 in Hti.
    assert (Hti0 : ti = 0%N).
    { assert (Hin0 : In 0%N (emitted_ids e S_table)).
      { unfold get_idx in Hti. apply WV.Proofs.SortKeys.lookup_i_in in Hti. unfold emitted_ids. apply in_map_iff.
        exists (0%N, ti). split; [reflexivity|exact Hti]. }
      apply (emitted_full _ _ _ _ _ _ _ HP HE S_table) in Hin0; try discriminate.
      pose proof (rho_tmg_identity_valid _ _ _ _ _ _ _ S_table HP HE (or_introl eq_refl) V 0%N Hin0) as R.
      unfold WV.Proofs.Structure.rho in R. rewrite (ids_space_n _ _ _ _ HP S_table) in R by discriminate.
      rewrite iota_nth in R by exact Hin0. cbn [N.to_nat N.of_nat] in R. congruence. }
    subst ti. cbn [N.eqb] in Et'. subst t'. cbn [table0].
    rewrite (Forall2_get_idx_rf _ _ _ Hi), !map_map. reflexivity.
  - discriminate HT.
Qed.

(* ================================================================== 4. THE TYPES *)
Lemma id2i_fun_get x lmap S id j : S <> S_local -> get_idx x S id = Ok j -> id2i_fun x lmap S id = j.
Proof.
  intros HS H. unfold get_idx, lookup_i in H. unfold id2i_fun.
  destruct S; try congruence; destruct (find _ _) as [p|]; try discriminate H; injection H as <-; reflexivity.
Qed.

Section EndTypes.
  Variables (cf : config) (ver : str) (w : wmod) (s : pst) (ilen : wins -> N) (e : emitted).
  Hypothesis HP : parseM cf ver w = POk s.
  Hypothesis HE : emitM (ps_m s) ilen [] = Ok e.
  (* fewer than 2^32 - 1 types in the arena: the "no such index" marker 0xFFFF_FFFF of the index maps is not an id *)
  Hypothesis SMALL : (N.of_nat (length (types_list (ps_m s))) <= 4294967295)%N.
  Let T := flat_map types_of w.
  Let T' := out_types e.
  Variables (fid : N) (lmap : list (N * N)).
  Let cx := cx_of s fid.
  Let ecx := ecx_of e lmap ilen.

  Lemma type_at i t : nth_error T (N.to_nat i) = Some t ->
    exists id ty, px_i2id cx S_type i = id /\ types_get (ps_m s) id = Some ty /\ ty_sig ty t /\
                  nth_N (px_types cx) id = Some (fst t, snd t, false).
  Proof.
    intros Hi. destruct (type_denotes _ _ _ _ HP i t Hi) as (id & ty & H1 & H2 & H3 & H4).
    exists id, ty. split; [cbn; apply nth_error_nth; exact H1|]. split; [exact H4|]. split; [exact H3|].
    cbn [cx cx_of px_types]. unfold nth_N, types_list. rewrite nth_error_map, H2. cbn [option_map].
    destruct H3 as (-> & -> & ->). reflexivity.
  Qed.

  (* a live non-entry type has an emitted index, where the output type section has its signature *)
  Lemma type_emitted id ty : types_get (ps_m s) id = Some ty -> ty_entry ty = false ->
    exists j, get_idx (em_x2i e) S_type id = Ok j /\ nth_error T' (N.to_nat j) = Some (ty_params ty, ty_results ty).
  Proof.
    intros Hg He. pose proof (WV.Proofs.Totality.emitted_types_In _ _ _ Hg He) as Hin.
    destruct (emit_order_types _ _ _ _ HE) as [Eo Wt]. rewrite <- Eo in Hin.
    apply In_nth_error in Hin. destruct Hin as [k Hk].
    assert (Hj : get_idx (em_x2i e) S_type id = Ok (N.of_nat k)).
    { apply (x2i_positions _ S_type _ _ Wt). rewrite Nat2N.id. exact Hk. }
    exists (N.of_nat k). split; [exact Hj|].
    destruct (emit_type_decl _ _ _ _ HE dw_nil _ _ Hj) as (ty' & H2 & HO).
    unfold types_get in Hg. rewrite aset_index_nodead in Hg by (apply (proj1 (WV.Proofs.ParsedWf.parseM_types_wf _ _ _ _ HP))).
    rewrite Hg in H2. injection H2 as <-. exact HO.
  Qed.

  (* type index i of the input and its renumbering name the same signature *)
  Theorem end_type_renumbered i t : nth_error T (N.to_nat i) = Some t -> nth_error T' (N.to_nat (rty cx ecx i)) = Some t.
  Proof.
    intros Hi. destruct (type_at i t Hi) as (id & ty & Eid & Hg & (S1 & S2 & S3) & _).
    destruct (type_emitted id ty Hg S3) as (j & Hj & Ho).
    unfold rty. rewrite Eid. cbn [ecx ecx_of ex_id2i]. rewrite (id2i_fun_get (em_x2i e) lmap S_type id j ltac:(discriminate) Hj), Ho, S1, S2.
    destruct t; reflexivity.
  Qed.

  (* the three block-type hypotheses of [fn_ok] *)
  Theorem end_ok_tys i : nth_optN i T = bt_tys cx (BT_Func i).
  Proof.
    rewrite nth_optN_nth_error. cbn [bt_tys]. destruct (nth_error T (N.to_nat i)) as [t|] eqn:Et.
    - destruct (type_at i t Et) as (id & ty & Eid & _ & _ & Hn). rewrite Eid, Hn. destruct t; reflexivity.
    - assert (Eid : px_i2id cx S_type i = 4294967295%N).
      { cbn. apply nth_overflow. destruct (parseM_sigs _ _ _ _ HP) as [[HL _] _]. rewrite HL. apply nth_error_None. exact Et. }
      rewrite Eid. assert (Hn : nth_N (px_types cx) 4294967295%N = None).
      { unfold nth_N. apply nth_error_None. cbn [cx cx_of px_types]. lia. }
      rewrite Hn. reflexivity.
  Qed.
  Theorem end_ok_existing i ps rs : nth_optN i T = Some (ps, rs) -> existing cx ps rs <> None.
  Proof.
    rewrite nth_optN_nth_error. intros Hi. destruct (type_at i _ Hi) as (id & ty & _ & _ & _ & Hn). cbn [fst snd] in Hn.
    assert (Hft : find_type cx ps rs <> None).
    { unfold find_type. apply (find_type_from_found _ 0%N (N.to_nat id)). exact Hn. }
    unfold existing. destruct ps as [|p ps]; [destruct rs as [|r [|r' rs]]|]; try discriminate;
      destruct (find_type cx _ _); try discriminate; now elim Hft.
  Qed.
  Theorem end_ok_tys' ps rs ty : find_type cx ps rs = Some ty -> nth_optN (ex_id2i ecx S_type ty) T' = Some (ps, rs).
  Proof.
    intros H. unfold find_type in H. destruct (WV.Proofs.Fixpoint.find_type_from_hit _ _ _ _ _ H) as (p & r & Hn & _ & Hp & Hr).
    rewrite N.sub_0_r in Hn. apply vlist_eqb_true in Hp, Hr. subst p r.
    cbn [cx cx_of px_types] in Hn. unfold types_list in Hn. rewrite nth_error_map in Hn.
    destruct (nth_error (items (Arena.arena (m_types (ps_m s)))) (N.to_nat ty)) as [mt|] eqn:Emt; [|discriminate Hn].
    cbn [option_map] in Hn. injection Hn as E1 E2 E3.
    assert (Hg : types_get (ps_m s) ty = Some mt).
    { unfold types_get. rewrite aset_index_nodead by (apply (proj1 (WV.Proofs.ParsedWf.parseM_types_wf _ _ _ _ HP))). exact Emt. }
    destruct (type_emitted ty mt Hg E3) as (j & Hj & Ho).
    cbn [ecx ecx_of ex_id2i]. rewrite (id2i_fun_get (em_x2i e) lmap S_type ty j ltac:(discriminate) Hj), nth_optN_nth_error, Ho, E1, E2. reflexivity.
  Qed.
End EndTypes.

(* the signature of every function is preserved: the type index the output declares for function (rf i) names the signature
   the input's type index names *)
Theorem end_function_signature cf ver w s ilen e : parseM cf ver w = POk s -> emitM (ps_m s) ilen [] = Ok e ->
  flat_map imports_of w = [] ->
  forall i ti, nth_error (flat_map funcs_of w) i = Some ti ->
    exists tj, nth_error (out_ftys e) (N.to_nat (rf_of (em_x2i e) (N.of_nat i))) = Some tj /\
               nth_optN tj (out_types e) = nth_optN ti (flat_map types_of w) /\ nth_optN ti (flat_map types_of w) <> None.
Proof.
  intros HP HE NI i ti Hi. rewrite <- (no_imports_sec_ftys _ NI) in Hi.
  destruct (WV.Proofs.Sigs2.structure_func_sigs_unconditional _ _ _ _ _ _ _ HP HE dw_nil i ti Hi) as (t & j & tj & H1 & H2 & H3 & H4).
  exists tj. unfold rf_of. rewrite H2. split; [exact H3|]. rewrite !nth_optN_nth_error, H1, H4. split; [reflexivity|discriminate].
Qed.

(* ================================================================== 5. the per-function statement for a GIVEN structured body *)
Section BodiesGiven.
  Variables (cf : config) (ver : str) (w : wmod) (s : pst) (ilen : wins -> N) (e : emitted).
  Hypothesis HP : parseM cf ver w = POk s.
  Hypothesis HE : emitM (ps_m s) ilen [] = Ok e.
  Hypothesis NI : flat_map imports_of w = [].
  Hypothesis LEN : length (flat_map funcs_of w) = length (flat_map code_of w).

  Theorem end_function_body_given : forall k b l eloc, nth_error (flat_map code_of w) k = Some b ->
    wb_ops b = flat_list l ++ [(WEnd, eloc)] -> wfl (cx_of s (N.of_nat k)) 1 l ->
    exists j ef,
      get_idx (em_x2i e) S_func (N.of_nat k) = Ok j /\ N.to_nat j < length (flat_map code_of w) /\
      nth_error (em_fns e) (N.to_nat j) = Some ef /\ ef_id ef = N.of_nat k /\
      nth_error (flat_map code_of (em_secs e)) (N.to_nat j) = Some (ef_body ef) /\
      map fst (wb_ops (ef_body ef)) =
        map fst (flat_list (out_body (cx_of s (N.of_nat k)) (ecx_of e (ef_lmap ef) ilen) l)) ++ [WEnd].
  Proof.
    intros k b l eloc Hb Eops Hw.
    destruct (parsed_function_body _ _ _ _ _ _ HP Hb) as (fid & f & lf & t & ety & Hfid & Hg & Hk & Ht & Hety & Hen & Hpb & _).
    assert (Hkl : k < length (flat_map code_of w)) by (apply nth_error_Some; congruence).
    assert (Efid : fid = N.of_nat k).
    { apply N2Nat.inj. rewrite Hfid, (n_funcs _ _ _ _ HP NI), LEN, Nat2N.id. lia. }
    subst fid.
    destruct (WV.Proofs.Sigs2.parsed_funcs_all_emitted _ _ _ _ _ _ _ HP HE k) as (j & Hj & Hjn).
    { rewrite (no_imports_sec_ftys _ NI), LEN. exact Hkl. }
    rewrite (no_imports_sec_ftys _ NI), LEN in Hjn.
    pose proof (parsed_no_imports _ _ _ _ _ _ HP HE NI) as LI.
    destruct (funcs_map_no_imports _ _ _ HE LI) as (fs & Hfs & Xf).
    destruct (emit_code_payload _ _ _ _ HE Hfs) as (Hco & F & Hids & Hlen).
    pose proof Hj as Hj'. unfold get_idx in Hj'. cbn [space_map] in Hj'. rewrite Xf in Hj'. apply lookup_number in Hj'.
    rewrite nth_error_map in Hj'. destruct (nth_error fs (N.to_nat j)) as [[pid plf]|] eqn:Hp; [|discriminate Hj'].
    cbn [option_map fst] in Hj'. injection Hj' as ->.
    assert (Hlf : plf = lf).
    { destruct (ulf_in _ _ _ _ Hfs (nth_error_In _ _ Hp)) as (f0 & Hin & Hkf). apply WV.Proofs.Totality.aiter_aget in Hin. congruence. }
    subst plf.
    destruct (Forall2_nth_l _ _ _ _ _ F Hp) as (ef & Hef & Hemit). cbn [fst snd] in Hemit.
    destruct (emit_function_inv _ _ _ _ _ _ Hemit) as (evs & decls & lmap & st & A1 & A2 & A3 & A4 & A5 & A6 & A7 & _).
    rewrite Hen in A4. rewrite Eops in Hpb.
    exists j, ef.
    split; [exact Hj|]. split; [exact Hjn|]. split; [exact Hef|]. split; [exact A6|].
    split; [rewrite Hco, nth_error_map, Hef; reflexivity|].
    rewrite A7.
    destruct (WV.Proofs.ModFix10.emitted_ops_structured (cx_of s (N.of_nat k)) (ecx_of e lmap ilen) ety (ty_results t) l eloc 0%N
                (lf_arena lf) st (lf_fuel lf) Hw (enc_ok_all _ _) Hpb A4) as (eloc1 & Hops & _ & Hm & _ & Hfst & _ & Hout).
    rewrite A5. cbn [wb_ops]. rewrite Hfst, Hout, Hm. unfold out_body. rewrite WV.Proofs.ModFix10.flat_ren. reflexivity.
  Qed.
End BodiesGiven.

(* ================================================================== 6. THE OUTPUT MODULE *)
Definition body_at (m : cmod) (i : N) : list rt := match nth_optN i (cm_funcs m) with Some d => fd_body d | None => [] end.
(* the emit-time local map of input function i: the one recorded for the function emitted at index rf i *)
Definition lmap_at (e : emitted) (i : N) : list (N * N) :=
  match nth_error (em_fns e) (N.to_nat (rf_of (em_x2i e) i)) with Some ef => ef_lmap ef | None => [] end.
Definition ecxo_of (e : emitted) (ilen : wins -> N) (i : N) : ectx := ecx_of e (lmap_at e i) ilen.
Definition out_fn (s : pst) (e : emitted) (ilen : wins -> N) (m : cmod) (p : N * emitted_fn) : fdef :=
  (fst p, expand_locals (wb_locals (ef_body (snd p))),
   out_body (cx_of s (ef_id (snd p))) (ecx_of e (ef_lmap (snd p)) ilen) (body_at m (ef_id (snd p)))).
Definition out_cmod (s : pst) (e : emitted) (ilen : wins -> N) (m : cmod) : cmod :=
  {| cm_tys := out_types e;
     cm_funcs := map (out_fn s e ilen m) (combine (out_ftys e) (em_fns e));
     cm_table := map (option_map (rf_of (em_x2i e))) (cm_table m) |}.

(* what is asked of the operators of the LIVE part of a body, beyond [valid_stream]: the index immediates are in range (the
   real validator guarantees it, the model's [valid_stream] does not), memory offsets below 2^32 (finding: walrus keeps the
   offset mod 2^32), decodable in every context (the model's [valid_stream] states it of every operator: [swf]) *)
Definition op_ok_end (s : pst) (o : wop) : Prop :=
  offset_ok o = true /\ (forall f, decode_plain f o <> None) /\
  (forall i, global_index_of o = Some i -> N.to_nat i < n_in s S_global) /\
  (forall i, memory_index_of o = Some i -> N.to_nat i < n_in s S_memory) /\
  (forall f, o = W_Call f -> N.to_nat f < n_in s S_func) /\
  (forall ti tb, o = W_CallIndirect ti tb -> N.to_nat ti < n_in s S_type /\ N.to_nat tb < n_in s S_table).

Lemma Forall2_by_nth {A B} (R : A -> B -> Prop) : forall l1 l2, length l1 = length l2 ->
  (forall k a b, nth_error l1 k = Some a -> nth_error l2 k = Some b -> R a b) -> Forall2 R l1 l2.
Proof.
  induction l1 as [|a l1 IH]; intros [|b l2] HL H; cbn [length] in HL; try discriminate; constructor.
  - apply (H 0); reflexivity.
  - apply IH; [lia|]. intros k a' b' Ha Hb. apply (H (S k)); assumption.
Qed.
Lemma nth_error_combine {A B} : forall (l1 : list A) (l2 : list B) k a b,
  nth_error l1 k = Some a -> nth_error l2 k = Some b -> nth_error (combine l1 l2) k = Some (a, b).
Proof.
  induction l1 as [|x l1 IH]; intros [|y l2] [|k] a b H1 H2; cbn in *; try discriminate.
  - congruence.
  - apply IH; assumption.
Qed.

Section Compose.
  Variables (cf : config) (ver : str) (w : wmod) (s : pst) (ilen : wins -> N) (e : emitted) (m : cmod).
  Hypothesis V : valid_stream w.
  Hypothesis HP : parseM cf ver w = POk s.
  Hypothesis HE : emitM (ps_m s) ilen [] = Ok e.
  Hypothesis HM : stream_has_cmod w m.
  Hypothesis SMALL : (N.of_nat (length (types_list (ps_m s))) <= 4294967295)%N.
  (* the bodies of m are well formed in their parse contexts: what Proofs/ModFix12.v [valid_bodies_structured] derives from [valid_stream]
     for SOME structured reading l of each code entry; transferring it to the body of m needs the injectivity of [flat_list] (not proved here) *)
  Hypothesis WF : forall i d, nth_error (cm_funcs m) i = Some d -> wfl (cx_of s (N.of_nat i)) 1 (fd_body d).
  Hypothesis OPS : forall i d o, nth_error (cm_funcs m) i = Some d -> In o (ops_of (live (fd_body d))) -> op_ok_end s o.

  Let x := em_x2i e.
  Let n := length (cm_funcs m).
  Let m' := out_cmod s e ilen m.

  Lemma hm_parts : flat_map imports_of w = [] /\ cm_tys m = flat_map types_of w /\
    map fd_ty (cm_funcs m) = flat_map funcs_of w /\ Forall2 body_is (cm_funcs m) (flat_map code_of w) /\
    table_of_elems (flat_map elems_of w) = Some (cm_table m).
  Proof. exact HM. Qed.
  Lemma n_is : n = length (flat_map funcs_of w) /\ n = length (flat_map code_of w).
  Proof.
    destruct hm_parts as (_ & _ & F & F2 & _). split.
    - rewrite <- F, map_length. reflexivity.
    - eapply Forall2_length. exact F2.
  Qed.
  Lemma NI : flat_map imports_of w = []. Proof. apply hm_parts. Qed.
  Lemma LEN : length (flat_map funcs_of w) = length (flat_map code_of w).
  Proof. destruct n_is as [A B]. congruence. Qed.

  (* function i of the input, emitted *)
  Lemma fn_emitted i d : nth_error (cm_funcs m) i = Some d ->
    exists ef, N.to_nat (rf_of x (N.of_nat i)) < n /\
      nth_error (em_fns e) (N.to_nat (rf_of x (N.of_nat i))) = Some ef /\ ef_id ef = N.of_nat i /\
      nth_error (flat_map code_of (em_secs e)) (N.to_nat (rf_of x (N.of_nat i))) = Some (ef_body ef) /\
      map fst (wb_ops (ef_body ef)) =
        map fst (flat_list (out_body (cx_of s (N.of_nat i)) (ecx_of e (ef_lmap ef) ilen) (fd_body d))) ++ [WEnd].
  Proof.
    intros Hd. destruct hm_parts as (_ & _ & _ & F2 & _).
    destruct (Forall2_nth_l _ _ _ _ _ F2 Hd) as (b & Hb & (_ & eloc & Eops)).
    destruct (end_function_body_given _ _ _ _ _ _ HP HE NI LEN i b (fd_body d) eloc Hb Eops (WF _ _ Hd))
      as (j & ef & Hj & Hjn & Hef & Hid & Hco & Hops).
    assert (Erf : rf_of x (N.of_nat i) = j) by (unfold rf_of, x; rewrite Hj; reflexivity).
    rewrite Erf. exists ef. destruct n_is as [_ <-] in Hjn. repeat (split; [assumption|]). exact Hops.
  Qed.

  Lemma fns_len : length (em_fns e) = n /\ length (out_ftys e) = n /\ flat_map code_of (em_secs e) = map ef_body (em_fns e).
  Proof.
    pose proof (parsed_no_imports _ _ _ _ _ _ HP HE NI) as LI.
    destruct (funcs_map_no_imports _ _ _ HE LI) as (fs & Hfs & Xf).
    destruct (emit_code_payload _ _ _ _ HE Hfs) as (Hco & F & Hids & Hlen).
    pose proof (funcs_len _ _ _ _ _ _ HP HE NI) as FL. rewrite Xf in FL. unfold number in FL.
    rewrite combine_length, iota_length, Nat.min_id, map_length in FL.
    destruct (bij _ _ _ _ _ _ HP HE NI) as (B0 & _). destruct n_is as [N1 _].
    split; [pose proof F as FL2; apply Forall2_length in FL2; congruence|]. split; [congruence|exact Hco].
  Qed.

  (* the function at output index j *)
  Lemma out_fn_at i d : nth_error (cm_funcs m) i = Some d ->
    exists tj ef, nth_error (em_fns e) (N.to_nat (rf_of x (N.of_nat i))) = Some ef /\
      nth_error (out_ftys e) (N.to_nat (rf_of x (N.of_nat i))) = Some tj /\
      nth_optN tj (out_types e) = nth_optN (fd_ty d) (cm_tys m) /\
      lmap_at e (N.of_nat i) = ef_lmap ef /\
      nth_optN (rf_of x (N.of_nat i)) (cm_funcs m') =
        Some (tj, expand_locals (wb_locals (ef_body ef)),
              out_body (cx_of s (N.of_nat i)) (ecxo_of e ilen (N.of_nat i)) (fd_body d)).
  Proof.
    intros Hd. destruct (fn_emitted i d Hd) as (ef & Hjn & Hef & Hid & _).
    destruct hm_parts as (_ & TY & FT & _).
    assert (Hti : nth_error (flat_map funcs_of w) i = Some (fd_ty d)) by (rewrite <- FT, nth_error_map, Hd; reflexivity).
    destruct (end_function_signature _ _ _ _ _ _ HP HE NI i _ Hti) as (tj & Htj & Hsig & _).
    exists tj, ef. split; [exact Hef|]. split; [exact Htj|]. split; [rewrite TY; exact Hsig|].
    assert (HL : lmap_at e (N.of_nat i) = ef_lmap ef) by (unfold lmap_at; fold x; rewrite Hef; reflexivity).
    split; [exact HL|].
    rewrite nth_optN_nth_error. unfold m'; cbn [out_cmod cm_funcs]. rewrite nth_error_map. unfold x in *. rewrite (nth_error_combine _ _ _ _ _ Htj Hef).
    cbn [option_map]. unfold out_fn, ecxo_of. cbn [fst snd]. rewrite Hid, HL. unfold body_at.
    rewrite nth_optN_nth_error, Nat2N.id, Hd. reflexivity.
  Qed.

  (* ---- the output stream has the output module *)
  Theorem end_out_stream_has_cmod : stream_has_cmod_ops (em_secs e) m'.
  Proof.
    destruct fns_len as (L1 & L2 & Hco).
    pose proof (emitted_no_imports _ _ _ _ _ _ HP HE NI) as NI'.
    split; [exact NI'|]. split; [reflexivity|]. split; [|split].
    - unfold m'; cbn [out_cmod cm_funcs]. rewrite map_map. change (flat_map p_funcs (em_secs e)) with (flat_map funcs_of (em_secs e)).
      rewrite <- (no_imports_sec_ftys _ NI'). fold (out_ftys e).
      erewrite map_ext; [apply WV.Proofs.ModFix10.mfc; congruence|]. intros [a b]. reflexivity.
    - change (flat_map p_code (em_secs e)) with (flat_map code_of (em_secs e)). rewrite Hco.
      apply Forall2_by_nth.
      { unfold m'; cbn [out_cmod cm_funcs]. rewrite !map_length, combine_length. lia. }
      intros j a b Ha Hb. unfold m' in Ha; cbn [out_cmod cm_funcs] in Ha. rewrite nth_error_map in Ha, Hb.
      destruct (nth_error (em_fns e) j) as [ef|] eqn:Hef; [|discriminate Hb]. cbn [option_map] in Hb. injection Hb as <-.
      destruct (nth_error (combine (out_ftys e) (em_fns e)) j) as [[tj ef']|] eqn:Hc; [|discriminate Ha].
      cbn [option_map] in Ha. injection Ha as <-.
      assert (ef' = ef).
      { assert (Hj : j < length (out_ftys e)) by (rewrite L2, <- L1; apply nth_error_Some; congruence).
        destruct (nth_error (out_ftys e) j) as [tj'|] eqn:Htj; [|apply nth_error_None in Htj; lia].
        rewrite (nth_error_combine _ _ _ _ _ Htj Hef) in Hc. congruence. }
      subst ef'. split; [reflexivity|]. unfold fd_body, out_fn. cbn [fst snd].
      (* index j is the image of an input index i *)
      assert (Hjn : N.to_nat (N.of_nat j) < length (flat_map funcs_of w)).
      { rewrite Nat2N.id. destruct n_is as [<- _]. rewrite <- L1. apply nth_error_Some. congruence. }
      destruct (end_rf_onto _ _ _ _ _ _ HP HE NI _ Hjn) as (i & Hi & Erf).
      destruct n_is as [N1 _]. rewrite <- N1 in Hi.
      destruct (nth_error (cm_funcs m) (N.to_nat i)) as [d|] eqn:Hd; [|apply nth_error_None in Hd; unfold n in Hi; lia].
      destruct (fn_emitted _ _ Hd) as (ef2 & _ & Hef2 & Hid & _ & Hops). rewrite N2Nat.id in *. fold x in Erf.
      rewrite Erf, Nat2N.id, Hef in Hef2. injection Hef2 as <-.
      rewrite Hid. unfold body_at. rewrite nth_optN_nth_error, Hd. exact Hops.
    - change (flat_map p_elems (em_secs e)) with (flat_map elems_of (em_secs e)).
      apply (end_table _ _ _ _ _ _ _ V HP HE). apply hm_parts.
  Qed.

  (* ---- the renumberings of the emit context, on indices in range *)
  Lemma i2id_space fid S i : S <> S_local -> i2id_fun (ps_ids s) fid S i = nth (N.to_nat i) (ids_space (ps_ids s) S) 4294967295%N.
  Proof. intros HS. destruct S; try reflexivity. congruence. Qed.
  Lemma i2id_in_range fid S i : S <> S_type -> S <> S_local -> N.to_nat i < n_in s S -> i2id_fun (ps_ids s) fid S i = i.
  Proof.
    intros HT HL Hi. rewrite (i2id_space fid S i HL), (ids_space_n _ _ _ _ HP S HT HL). apply nth_error_nth.
    rewrite iota_nth by exact Hi. rewrite N2Nat.id. reflexivity.
  Qed.
  Lemma tmg_ident S i fid lmap : tmg S -> N.to_nat i < n_in s S -> id2i_fun x lmap S (i2id_fun (ps_ids s) fid S i) = i.
  Proof.
    intros HS Hi. assert (HT : S <> S_type) by (destruct HS as [->|[->| ->]]; discriminate).
    assert (HL : S <> S_local) by (destruct HS as [->|[->| ->]]; discriminate).
    rewrite (i2id_in_range fid S i HT HL Hi).
    pose proof (rho_tmg_identity_valid _ _ _ _ _ _ _ S HP HE HS V i Hi) as R.
    unfold WV.Proofs.Structure.rho in R. rewrite (ids_space_n _ _ _ _ HP S HT HL), iota_nth in R by exact Hi.
    rewrite N2Nat.id in R. apply (id2i_fun_get _ _ _ _ _ HL R).
  Qed.
  Lemma n_in_funcs : n_in s S_func = n.
  Proof. unfold n_in. cbn [ids_space]. rewrite (n_funcs _ _ _ _ HP NI). destruct n_is as [-> _]. reflexivity. Qed.
  Lemma func_ident f fid lmap : N.to_nat f < n -> id2i_fun x lmap S_func (i2id_fun (ps_ids s) fid S_func f) = rf_of x f.
  Proof.
    intros Hf. rewrite i2id_in_range; try discriminate; [|rewrite n_in_funcs; exact Hf].
    destruct n_is as [N1 _]. rewrite N1 in Hf. destruct (end_rf_in_range _ _ _ _ _ _ HP HE NI f Hf) as [H _].
    apply (id2i_fun_get x lmap S_func f (rf_of x f) ltac:(discriminate) H).
  Qed.

  (* ---- THE COMPOSITION.  Input side: identity slot maps.  Output side: the function slot map is the emit-time function map read
     backwards ([fslot_of]); globals / memories / tables: identity (streams in section order); the local slot maps [lslot'] are a
     parameter constrained by [H_locals] *)
  Variable lslot' : N -> N -> N.
  Let E := env_of m (fun _ => idN) idN idN idN idN.
  Let E' := env_of m' lslot' (fslot_of x) idN idN idN.
  (* THE REMAINING HYPOTHESIS (locals): on the locals the live part of body i mentions, lslot' undoes the local renumbering of
     function i, and the frames agree *)
  Hypothesis H_locals : forall i ti ls body ti' ls' b', nth_error (cm_funcs m) i = Some (ti, ls, body) ->
    nth_optN (rf_of x (N.of_nat i)) (cm_funcs m') = Some (ti', ls', b') ->
    (forall j, In j (locals_used (live body)) ->
       lslot' (N.of_nat i) (rl (cx_of s (N.of_nat i)) (ecxo_of e ilen (N.of_nat i)) j) = j) /\
    frames_agree E E' (N.of_nat i) ti ls ls' body.

  Lemma used_op {A} (f : wop -> option A) l i :
    In i (flat_map (fun o => match f o with Some i => [i] | None => [] end) (ops_of l)) -> exists o, In o (ops_of l) /\ f o = Some i.
  Proof.
    intros H. apply in_flat_map in H. destruct H as (o & Ho & Hi). exists o. split; [exact Ho|].
    destruct (f o) as [i'|]; [destruct Hi as [->|[]]; reflexivity|destruct Hi].
  Qed.

  Lemma end_fn_ok i ti ls body ti' ls' b' : nth_error (cm_funcs m) i = Some (ti, ls, body) ->
    nth_optN (rf_of x (N.of_nat i)) (cm_funcs m') = Some (ti', ls', b') ->
    fn_ok E E' (cx_of s) (ecxo_of e ilen) (idN (N.of_nat i)) body.
  Proof.
    intros Hd Hd'. destruct (H_locals _ _ _ _ _ _ _ Hd Hd') as [HL _].
    pose proof (fun o Ho => OPS i _ o Hd Ho) as HO. cbn [fd_body snd] in HO.
    destruct hm_parts as (_ & TY & _).
    unfold idN. constructor; unfold E, E'; cbn [env_of me_lslot me_gslot me_mslot me_fslot me_tslot me_tys].
    - exact HL.
    - intros g Hg. apply used_op in Hg. destruct Hg as (o & Ho & Hg). destruct (HO o Ho) as (_ & _ & R & _).
      unfold idN, rg. cbn [cx_of ecxo_of ecx_of px_i2id ex_id2i]. apply tmg_ident; [right; right; reflexivity|apply R, Hg].
    - intros g Hg. apply used_op in Hg. destruct Hg as (o & Ho & Hg). destruct (HO o Ho) as (_ & _ & _ & R & _).
      unfold idN, rm. cbn [cx_of ecxo_of ecx_of px_i2id ex_id2i]. apply tmg_ident; [right; left; reflexivity|apply R, Hg].
    - intros f Hf. destruct (HO _ Hf) as (_ & _ & _ & _ & R & _). specialize (R f eq_refl). rewrite n_in_funcs in R.
      unfold idN, rfn. cbn [cx_of ecxo_of ecx_of px_i2id ex_id2i]. rewrite (func_ident f _ _ R).
      apply (end_fslot_rf _ _ _ _ _ _ HP HE NI).
    - intros t tb Hc. destruct (HO _ Hc) as (_ & _ & _ & _ & _ & R). destruct (R t tb eq_refl) as [_ R2].
      unfold idN, rtb. cbn [cx_of ecxo_of ecx_of px_i2id ex_id2i]. apply tmg_ident; [left; reflexivity|exact R2].
    - intros t tb Hc. destruct (HO _ Hc) as (_ & _ & _ & _ & _ & R). destruct (R t tb eq_refl) as [R1 _].
      unfold m'. cbn [out_cmod cm_tys]. rewrite TY, !nth_optN_nth_error.
      destruct (n_in_stream _ _ _ _ HP) as (_ & _ & _ & NT). rewrite NT in R1.
      destruct (nth_error (flat_map types_of w) (N.to_nat t)) as [sg|] eqn:Et; [|apply nth_error_None in Et; lia].
      apply (end_type_renumbered _ _ _ _ _ _ HP HE). exact Et.
    - intros t. rewrite TY. apply (end_ok_tys _ _ _ _ HP SMALL).
    - intros t ps rs. rewrite TY. apply (end_ok_existing _ _ _ _ HP).
    - intros ps rs t Ht. unfold m'. cbn [out_cmod cm_tys]. apply (end_ok_tys' _ _ _ _ _ _ HP HE _ _ _ _ _ Ht).
    - intros o Ho. apply (HO o Ho).
    - intros o Ho. apply (HO o Ho).
  Qed.

  Theorem end_to_end_run_mod : forall k fuel f args s0, run_mod E' k fuel f args s0 = run_mod E k fuel f args s0.
  Proof.
    unfold E, E'.
    apply (mod_roundtrip_equiv_cmod m m' (fun _ => idN) lslot' idN idN idN idN (fslot_of x) idN idN idN
             (cx_of s) (ecxo_of e ilen) (rf_of x)).
    - intros i. apply (end_fslot_rf _ _ _ _ _ _ HP HE NI).
    - intros i i2 d d2 _ _ H. exact H.
    - intros j d' Hj. rewrite nth_optN_nth_error in Hj.
      assert (Hjn : N.to_nat j < length (flat_map funcs_of w)).
      { destruct n_is as [<- _]. destruct fns_len as (L1 & L2 & _).
        assert (Hl : N.to_nat j < length (cm_funcs m')) by (apply nth_error_Some; congruence).
        unfold m' in Hl. cbn [out_cmod cm_funcs] in Hl. rewrite map_length, combine_length in Hl. lia. }
      destruct (end_rf_onto _ _ _ _ _ _ HP HE NI _ Hjn) as (i & Hi & Erf). destruct n_is as [N1 _]. rewrite <- N1 in Hi.
      destruct (nth_error (cm_funcs m) (N.to_nat i)) as [d|] eqn:Hd; [|apply nth_error_None in Hd; unfold n in Hi; lia].
      exists i, d. rewrite nth_optN_nth_error. split; [exact Hd|exact Erf].
    - intros i ti ls body Hi. rewrite nth_optN_nth_error in Hi.
      destruct (out_fn_at _ _ Hi) as (tj & ef & Hef & Htj & Hsig & HLm & Hout).
      rewrite <- (N2Nat.id i).
      split; [apply (end_fn_ok _ _ _ _ _ _ _ Hi Hout)|].
      exists tj, (expand_locals (wb_locals (ef_body ef))). split; [exact Hout|]. split; [exact Hsig|].
      apply (H_locals _ _ _ _ _ _ _ Hi Hout).
    - reflexivity.
  Qed.
End Compose.

(* ================================================================== 7. THE THEOREM, in one statement *)
Theorem sem_roundtrip_end_to_end :
  forall (cf : config) (ver : str) (w : wmod) (s : pst) (ilen : wins -> N) (e : emitted) (m : cmod),
    valid_stream w -> parseM cf ver w = POk s -> emitM (ps_m s) ilen [] = Ok e -> stream_has_cmod w m ->
    (N.of_nat (length (types_list (ps_m s))) <= 4294967295)%N ->
    (forall i d, nth_error (cm_funcs m) i = Some d -> wfl (cx_of s (N.of_nat i)) 1 (fd_body d)) ->
    (forall i d o, nth_error (cm_funcs m) i = Some d -> In o (ops_of (live (fd_body d))) -> op_ok_end s o) ->
    exists (m' : cmod) (rf : N -> N),
      m' = out_cmod s e ilen m /\ rf = rf_of (em_x2i e) /\
      stream_has_cmod_ops (em_secs e) m' /\
      (* rf: a bijection of the function indices, undone by the induced slot map; the table is renamed by it *)
      (forall i, N.to_nat i < length (cm_funcs m) -> N.to_nat (rf i) < length (cm_funcs m)) /\
      (forall i i', N.to_nat i < length (cm_funcs m) -> N.to_nat i' < length (cm_funcs m) -> rf i = rf i' -> i = i') /\
      (forall j, N.to_nat j < length (cm_funcs m) -> exists i, N.to_nat i < length (cm_funcs m) /\ rf i = j) /\
      (forall i, fslot_of (em_x2i e) (rf i) = i) /\
      cm_table m' = map (option_map rf) (cm_table m) /\
      (* every function: the body of function (rf i) of the output is the output body of body i; same signature *)
      (forall i ti ls body, nth_error (cm_funcs m) i = Some (ti, ls, body) ->
         exists ti' ls', nth_optN (rf (N.of_nat i)) (cm_funcs m') =
                           Some (ti', ls', out_body (cx_of s (N.of_nat i)) (ecxo_of e ilen (N.of_nat i)) body) /\
                         nth_optN ti' (cm_tys m') = nth_optN ti (cm_tys m)) /\
      (* and the behaviour, for every local slot map of the output that undoes the local renumberings with agreeing frames *)
      forall lslot' : N -> N -> N,
        let E := env_of m (fun _ => idN) idN idN idN idN in
        let E' := env_of m' lslot' (fslot_of (em_x2i e)) idN idN idN in
        (forall i ti ls body ti' ls' b', nth_error (cm_funcs m) i = Some (ti, ls, body) ->
           nth_optN (rf (N.of_nat i)) (cm_funcs m') = Some (ti', ls', b') ->
           (forall j, In j (locals_used (live body)) ->
              lslot' (N.of_nat i) (rl (cx_of s (N.of_nat i)) (ecxo_of e ilen (N.of_nat i)) j) = j) /\
           frames_agree E E' (N.of_nat i) ti ls ls' body) ->
        forall k fuel f args s0, run_mod E' k fuel f args s0 = run_mod E k fuel f args s0.
Proof.
  intros cf ver w s ilen e m V HP HE HM SMALL WF OPS.
  exists (out_cmod s e ilen m), (rf_of (em_x2i e)).
  pose proof (NI _ _ HM) as HNI. destruct (n_is _ _ HM) as [N1 _].
  split; [reflexivity|]. split; [reflexivity|].
  split; [apply (end_out_stream_has_cmod cf ver w s ilen e m V HP HE HM SMALL WF)|].
  split; [intros i Hi; rewrite N1 in *; apply (end_rf_in_range _ _ _ _ _ _ HP HE HNI i Hi)|].
  split; [intros i i' Hi Hi'; rewrite N1 in *; apply (end_rf_injective _ _ _ _ _ _ HP HE HNI i i' Hi Hi')|].
  split; [intros j Hj; rewrite N1 in *; apply (end_rf_onto _ _ _ _ _ _ HP HE HNI j Hj)|].
  split; [intros i; apply (end_fslot_rf _ _ _ _ _ _ HP HE HNI)|].
  split; [reflexivity|].
  split.
  - intros i ti ls body Hi. destruct (out_fn_at cf ver w s ilen e m HP HE HM WF _ _ Hi) as (tj & ef & _ & _ & Hsig & _ & Hout).
    exists tj, (expand_locals (wb_locals (ef_body ef))). split; [exact Hout|exact Hsig].
  - intros lslot' E E' HL. apply (end_to_end_run_mod cf ver w s ilen e m V HP HE HM SMALL WF OPS lslot' HL).
Qed.

(* ================================================================== 8. A WORKED EXAMPLE (by computation) *)
Module ExEnd.
  Local Open Scope N_scope.
  Definition P (o : wop) (l : N) : rt := RPlain o l.
  (* 0 = inc (3 operators); 1 = apply (x, slot) = inc (x + call_indirect (type 0) slot on x), with a nop, an UNUSED i64 local, a local that
     survives, a block typed by a function type, and DEAD code after `return` (the unused local, a call of a function that does not exist);
     2 = twice x = inc (inc x), then an `if` without `else`.  Emission order (size, descending): 1, 2, 0. *)
  Definition inc_b : list rt := [ P (W_LocalGet 0) 10; P (W_I32Const 1) 11; P W_I32Add 12 ].
  Definition apply_b : list rt :=
    [ RNop 20; P (W_LocalGet 0) 21; P (W_LocalGet 1) 22; P (W_CallIndirect 0 0) 23; P (W_LocalSet 3) 24; P (W_LocalGet 0) 35;
      RBlock (BT_Func 0) [ P (W_LocalGet 3) 26; P W_I32Add 27 ] 25 28;
      P (W_Call 0) 29; P W_Return 30; P (W_LocalGet 2) 31; P W_Drop 32; P (W_Call 7) 33 ].
  Definition twice_b : list rt :=
    [ P (W_LocalGet 0) 40; P (W_Call 0) 41; P (W_Call 0) 42; P (W_LocalGet 0) 47;
      RIf BT_Empty [ P (W_I32Const 5) 44; P W_Drop 48 ] None 43 45 ].
  Definition tab : wtable := {| wt_elem := RT_Funcref; wt_64 := false; wt_init := 2; wt_max := None |}.
  Definition w0 : wmod :=
    [ S_Types [([VT_I32], [VT_I32]); ([VT_I32; VT_I32], [VT_I32])];
      S_Funcs [0; 1; 0];
      S_Tables [tab];
      S_Elems [{| wel_kind := WEK_Active None (WC_I32 0); wel_items := WEI_Funcs [0; 2] |}];
      S_Code [ {| wb_locals := []; wb_ops := flat_list inc_b ++ [(WEnd, 13)] |};
               {| wb_locals := [(1, VT_I64); (1, VT_I32)]; wb_ops := flat_list apply_b ++ [(WEnd, 34)] |};
               {| wb_locals := []; wb_ops := flat_list twice_b ++ [(WEnd, 46)] |} ] ].
  Definition il (w : wins) : N := 1.
  Definition trip : option (pst * emitted) :=
    match parseM default_config [49] w0 with
    | POk s => match emitM (ps_m s) il [] with Ok e => Some (s, e) | _ => None end
    | _ => None end.
  Definition w1 : wmod := match trip with Some (_, e) => em_secs e | None => [] end.
  Definition x1 : x2i := match trip with Some (_, e) => em_x2i e | None => empty_x2i end.
  (* the two modules, read off the two streams *)
  Definition m0 : cmod := {| cm_tys := [([VT_I32], [VT_I32]); ([VT_I32; VT_I32], [VT_I32])];
                             cm_funcs := [(0, [], inc_b); (1, [VT_I64; VT_I32], apply_b); (0, [], twice_b)];
                             cm_table := [Some 0; Some 2] |}.
  Example in_cmod : cmod_of_stream w0 = Some m0.
  Proof. vm_compute. reflexivity. Qed.
  Definition m1 : cmod := match cmod_of_stream w1 with Some m => m | None => m0 end.
  (* the output: functions reordered (1, 2, 0), call sites and table renamed, the unused local dropped, nop and dead code gone, `else` added *)
  Example out_cmod_is : cmod_of_stream w1 =
    Some {| cm_tys := [([VT_I32], [VT_I32]); ([VT_I32; VT_I32], [VT_I32])];
            cm_funcs :=
              [(1, [VT_I32],
                [P (W_LocalGet 0) 0; P (W_LocalGet 1) 1; P (W_CallIndirect 0 0) 2; P (W_LocalSet 2) 3; P (W_LocalGet 0) 4;
                 RBlock (BT_Func 0) [P (W_LocalGet 2) 6; P W_I32Add 7] 5 8; P (W_Call 2) 9; P W_Return 10]);
               (0, [], [P (W_LocalGet 0) 0; P (W_Call 2) 1; P (W_Call 2) 2; P (W_LocalGet 0) 3;
                        RIf BT_Empty [P (W_I32Const 5) 5; P W_Drop 6] (Some (7, [])) 4 8]);
               (0, [], [P (W_LocalGet 0) 0; P (W_I32Const 1) 1; P W_I32Add 2])];
            cm_table := [Some 2; Some 1] |}.
  Proof. vm_compute. reflexivity. Qed.
  Example maps : xi_funcs x1 = [(1, 0); (2, 1); (0, 2)] /\ xi_locals x1 = [(1, [(1, 0); (2, 1); (4, 2)]); (2, [(5, 0)]); (0, [(0, 0)])].
  Proof. vm_compute. split; reflexivity. Qed.
  Example in_relation : stream_has_cmod w0 m0.
  Proof.
    split; [reflexivity|]. split; [reflexivity|]. split; [reflexivity|]. split; [|reflexivity].
    cbn [w0 flat_map p_code app m0 cm_funcs].
    repeat (constructor; [split; [reflexivity|eexists; reflexivity]|]). constructor.
  Qed.

  (* the environments: identity slot maps on the input; on the output the function slot map read off the emit-time map and the local slot
     map of function 1 (output local 2 is input local 3) *)
  Definition E0 : menv := env_of m0 (fun _ => idN) idN idN idN idN.
  Definition lslot1 (id j : N) : N := if id =? 1 then (if j =? 2 then 3 else j) else j.
  Definition E1 : menv := env_of m1 lslot1 (fslot_of x1) idN idN idN.
  Definition st0 : st := {| stk := []; locs := []; globs := []; labs := []; mem := []; pages := 0; max_pages := 0 |}.
  Definition obs (r : option (res st halt)) : option (list val + bool) :=
    match r with Some (Fall c) => Some (inl (stk c)) | Some (Stop Trap _) => Some (inr true) | Some _ => Some (inr false) | None => None end.
  (* function identities are INPUT indices on both sides.  apply (10, slot 0) = inc (10 + inc 10) = 22; apply (10, slot 1) = inc (10 + twice 10) = 23;
     slot 2 is past the table: trap; twice 7 = 9; inc 1 = 2; depth 1 is not enough for apply: exhausted *)
  Example run_in : map (fun a => obs (run_mod E0 4 0 (fst a) (snd a) st0))
                     [(1, [VI32 10; VI32 0]); (1, [VI32 10; VI32 1]); (1, [VI32 10; VI32 2]); (2, [VI32 7]); (0, [VI32 1])] =
                   [Some (inl [VI32 22]); Some (inl [VI32 23]); Some (inr true); Some (inl [VI32 9]); Some (inl [VI32 2])].
  Proof. vm_compute. reflexivity. Qed.
  Example run_out : map (fun a => obs (run_mod E1 4 0 (fst a) (snd a) st0))
                     [(1, [VI32 10; VI32 0]); (1, [VI32 10; VI32 1]); (1, [VI32 10; VI32 2]); (2, [VI32 7]); (0, [VI32 1])] =
                   [Some (inl [VI32 22]); Some (inl [VI32 23]); Some (inr true); Some (inl [VI32 9]); Some (inl [VI32 2])].
  Proof. vm_compute. reflexivity. Qed.
  Example run_same : forallb (fun a => match run_mod E1 (fst (fst a)) 0 (snd (fst a)) (snd a) st0, run_mod E0 (fst (fst a)) 0 (snd (fst a)) (snd a) st0 with
                                        | Some (Fall c1), Some (Fall c0) => match stk c1, stk c0 with [VI32 a1], [VI32 a0] => a1 =? a0 | _, _ => false end
                                        | Some (Stop Trap _), Some (Stop Trap _) => true
                                        | None, None => true
                                        | _, _ => false end)
                       [((4%nat, 1), [VI32 10; VI32 0]); ((4%nat, 1), [VI32 3; VI32 1]); ((4%nat, 1), [VI32 10; VI32 2]); ((4%nat, 1), [VI32 10; VI32 4294967295]);
                        ((1%nat, 1), [VI32 10; VI32 0]); ((2%nat, 2), [VI32 7]); ((3%nat, 2), [VI32 0]); ((1%nat, 0), [VI32 1]); ((0%nat, 0), [VI32 1])] = true.
  Proof. vm_compute. reflexivity. Qed.
  (* the renaming matters: the output module on identity slot maps does something else *)
  Example run_unrenamed : obs (run_mod (env_of m1 (fun _ => idN) idN idN idN idN) 4 0 2 [VI32 7] st0) <> obs (run_mod E0 4 0 2 [VI32 7] st0).
  Proof. vm_compute. discriminate. Qed.
End ExEnd.

Print Assumptions end_function_body.
Print Assumptions end_rf_injective.
Print Assumptions end_rf_onto.
Print Assumptions end_fslot_rf.
Print Assumptions end_table.
Print Assumptions end_type_renumbered.
Print Assumptions end_function_signature.
Print Assumptions end_out_stream_has_cmod.
Print Assumptions end_to_end_run_mod.
Print Assumptions sem_roundtrip_end_to_end.
