(* C02 + C01: TYPE SAFETY of the concrete machine of Model/SemCore.v with respect to the validator of Model/TypeCore.v.
   A body the validator accepts never GOES WRONG ([Halt Wrong]: stack underflow, operand of the wrong type, unbound or
   ill-typed slot, wrong memory slot, operator outside the core) and is never [Stuck] (a missing condition / index):
   run from a well-typed state it falls through with exactly the results of the function on the stack, branches to the
   function label / returns with the results on top, traps (a genuine WebAssembly trap), or runs out of fuel.
     [val_ty] / [has_types]   typing of values and of a piece of the operand stack (top first) by a list of types
                              (bottom-to-top, as in Model/Typing.v);
     [st_ok]                  typing of the locals and globals of a state (identity slot maps);
     [op_safe]                the per-operator lemma, for ALL operators of the core;
     [safe_both]              the generalised lemma: arbitrary label context, arbitrary frame below the typed part;
     [type_safety]            the theorem, for EVERY body accepted by [check_body] (no restriction: blocks, loops, ifs,
                              br / br_if / br_table with exact unwinding, dead code);
     [emitted_body_is_safe]   the same for the emitted body (normal form), via [check_body_nf]. *)
From Coq Require Import List NArith ZArith Bool Lia. Import ListNotations.
From WV Require Import Gen.Ops Model.Common Model.IR Model.ParseFn Model.ParseSpec Model.EmitFn
  Model.BodySpec Model.Sem Model.Typing Model.SemCore Model.TypeCore.
From WV Require Import Proofs.ParseFn Proofs.Sem Proofs.TypingNf Proofs.TypeCore Proofs.ModFix10 Proofs.SemCore.
Local Open Scope nat_scope.

(* ================================================================== 1. typing of values, stacks, states *)
Inductive val_ty : val -> valty -> Prop :=
  | VT_32 : forall n, val_ty (VI32 n) VT_I32
  | VT_64 : forall n, val_ty (VI64 n) VT_I64.
(* [vs]: a piece of the operand stack, top FIRST; [ts]: its types, bottom-to-top *)
Definition has_types (vs : list val) (ts : list valty) : Prop := Forall2 val_ty vs (rev ts).

(* every local / global the environment declares is bound, at the slot that is its index, to a value of its type.
   No condition on the memory (the machine always has one; [te_has_mem e = false] only makes the validator reject
   the memory operators) and none on the range of the bit patterns (no operator goes wrong on a large pattern). *)
Definition locs_ok (e : tenv) (l : list (N * val)) : Prop :=
  forall i t, nthN_opt (te_locals e) i = Some t -> exists v, alookup i l = Some v /\ val_ty v t.
Definition globs_ok (e : tenv) (g : list (N * val)) : Prop :=
  forall i t m, nthN_opt (te_globals e) i = Some (t, m) -> exists v, alookup i g = Some v /\ val_ty v t.
Definition st_ok (e : tenv) (s : st) : Prop := locs_ok e (locs s) /\ globs_ok e (globs s).

(* the type table the machine reads its arities from *)
Definition tys_of (e : tenv) (i : N) : option (list valty * list valty) := nthN_opt (te_tys e) i.

Lemma tys_of_nth e i : tys_of e i = nth_error (te_tys e) (N.to_nat i).
Proof. apply nthN_opt_nth. Qed.

Lemma has_types_nil : has_types [] [].
Proof. constructor. Qed.
Lemma has_types_app v1 t1 v2 t2 : has_types v1 t1 -> has_types v2 t2 -> has_types (v2 ++ v1) (t1 ++ t2).
Proof. unfold has_types. intros H1 H2. rewrite rev_app_distr. apply Forall2_app; assumption. Qed.
Lemma has_types_split vs f i : has_types vs (f ++ i) -> exists vi vf, vs = vi ++ vf /\ has_types vi i /\ has_types vf f.
Proof.
  unfold has_types. rewrite rev_app_distr. intros H. apply Forall2_app_inv_r in H.
  destruct H as (vi & vf & Hi & Hf & ->). exists vi, vf. auto.
Qed.
Lemma Forall2_len {A B} (R : A -> B -> Prop) l1 l2 : Forall2 R l1 l2 -> length l1 = length l2.
Proof. induction 1; cbn [length]; congruence. Qed.
Lemma has_types_length vs ts : has_types vs ts -> length vs = length ts.
Proof. unfold has_types. intros H. apply Forall2_len in H. rewrite rev_length in H. exact H. Qed.
Lemma has_types_one v t : val_ty v t -> has_types [v] [t].
Proof. intros H. repeat constructor. exact H. Qed.
Lemma has_types_i32_inv vs : has_types vs [VT_I32] -> exists c, vs = [VI32 c].
Proof.
  unfold has_types. cbn [rev app]. intros H. inversion H as [|v t l l' Hv Hl]; subst. inversion Hl; subst.
  inversion Hv; subst. eexists. reflexivity.
Qed.

Lemma same_ty_of v v0 t : val_ty v t -> val_ty v0 t -> same_ty v v0 = true.
Proof. intros H1 H2. destruct H1; inversion H2; reflexivity. Qed.

(* ---- association lists *)
Lemma aset_ok k v : forall l v0, alookup k l = Some v0 -> same_ty v v0 = true ->
  exists l', aset k v l = Some l' /\ alookup k l' = Some v /\ (forall k', k' <> k -> alookup k' l' = alookup k' l).
Proof.
  induction l as [|[k1 v1] l IH]; intros v0 H Hs; [discriminate H|].
  cbn [alookup aset] in *. destruct (N.eqb_spec k k1) as [->|Hne].
  - injection H as ->. rewrite Hs. eexists. split; [reflexivity|]. split.
    + cbn [alookup]. rewrite N.eqb_refl. reflexivity.
    + intros k' Hk. cbn [alookup]. destruct (N.eqb_spec k' k1); [contradiction|reflexivity].
  - destruct (IH _ H Hs) as (l' & -> & H1 & H2). eexists. split; [reflexivity|]. split.
    + cbn [alookup]. destruct (N.eqb_spec k k1); [contradiction|exact H1].
    + intros k' Hk. cbn [alookup]. destruct (k' =? k1)%N; [reflexivity|apply H2, Hk].
Qed.

Lemma locs_ok_set e l i t v : locs_ok e l -> nthN_opt (te_locals e) i = Some t -> val_ty v t ->
  exists l', aset i v l = Some l' /\ locs_ok e l'.
Proof.
  intros Hl Hi Hv. destruct (Hl _ _ Hi) as (v0 & Hv0 & Ht0).
  destruct (aset_ok i v l v0 Hv0 (same_ty_of _ _ _ Hv Ht0)) as (l' & Hs & H1 & H2).
  exists l'. split; [exact Hs|]. intros j tj Hj. destruct (N.eq_dec j i) as [->|Hne].
  - rewrite Hi in Hj. injection Hj as <-. exists v. auto.
  - rewrite (H2 _ Hne). apply Hl, Hj.
Qed.
Lemma globs_ok_set e g i t m v : globs_ok e g -> nthN_opt (te_globals e) i = Some (t, m) -> val_ty v t ->
  exists g', aset i v g = Some g' /\ globs_ok e g'.
Proof.
  intros Hg Hi Hv. destruct (Hg _ _ _ Hi) as (v0 & Hv0 & Ht0).
  destruct (aset_ok i v g v0 Hv0 (same_ty_of _ _ _ Hv Ht0)) as (g' & Hs & H1 & H2).
  exists g'. split; [exact Hs|]. intros j tj mj Hj. destruct (N.eq_dec j i) as [->|Hne].
  - rewrite Hi in Hj. injection Hj as <- <-. exists v. auto.
  - rewrite (H2 _ Hne). eapply Hg, Hj.
Qed.

(* ================================================================== 2. the per-operator lemma *)
(* what a step may be: the outputs [r] on the SAME rest of the stack, labels untouched, or a genuine trap *)
Definition step_ok (e : tenv) (r : list valty) (rest : list val) (ls : list N) (x : step st halt) : Prop :=
  match x with
  | Next s' => st_ok e s' /\ labs s' = ls /\ exists vr, stk s' = vr ++ rest /\ has_types vr r
  | Halt Trap s' => st_ok e s'
  | Halt _ _ => False
  end.

(* inversion of [has_types] on a concrete list of types *)
Ltac inv_types :=
  unfold has_types in *; cbn [rev app] in *;
  repeat match goal with
  | H : Forall2 val_ty _ (_ :: _) |- _ => inversion H; subst; clear H
  | H : Forall2 val_ty _ [] |- _ => inversion H; subst; clear H
  | H : val_ty _ VT_I32 |- _ => inversion H; subst; clear H
  | H : val_ty _ VT_I64 |- _ => inversion H; subst; clear H
  end.
(* a goal [step_ok] on a computed step *)
Ltac fin_step Hok :=
  cbn [app]; repeat match goal with |- context [if ?c then _ else _] => destruct c end;
  unfold trap, SemCore.push; cbn [step_ok with_stk with_mem with_pages stk labs locs globs];
  first [ exact Hok
        | split; [exact Hok|]; split; [reflexivity|];
          match goal with
          | |- exists vr, ?x :: ?r = vr ++ ?r /\ _ => exists [x]
          | |- exists vr, ?r = vr ++ ?r /\ _ => exists []
          end; split; [reflexivity|]; unfold has_types; cbn [rev app]; repeat constructor ].

Section Shapes.
  Variable e : tenv.
  Variable s : st.
  Variable vi rest : list val.
  Hypothesis Hok : st_ok e s.
  Hypothesis Hstk : stk s = vi ++ rest.

  Lemma bin32_ok f : has_types vi [VT_I32; VT_I32] -> step_ok e [VT_I32] rest (labs s) (bin32 f s).
  Proof. intros H. inv_types. unfold bin32. rewrite Hstk. fin_step Hok. Qed.
  Lemma bin64_ok f : has_types vi [VT_I64; VT_I64] -> step_ok e [VT_I64] rest (labs s) (bin64 f s).
  Proof. intros H. inv_types. unfold bin64. rewrite Hstk. fin_step Hok. Qed.
  Lemma div32_ok f : has_types vi [VT_I32; VT_I32] -> step_ok e [VT_I32] rest (labs s) (div32 f s).
  Proof. intros H. inv_types. unfold div32. rewrite Hstk. fin_step Hok. Qed.
  Lemma div64_ok f : has_types vi [VT_I64; VT_I64] -> step_ok e [VT_I64] rest (labs s) (div64 f s).
  Proof. intros H. inv_types. unfold div64. rewrite Hstk. fin_step Hok. Qed.
  Lemma divs32_ok : has_types vi [VT_I32; VT_I32] -> step_ok e [VT_I32] rest (labs s) (divs32_op s).
  Proof. intros H. inv_types. unfold divs32_op. rewrite Hstk. fin_step Hok. Qed.
  Lemma divs64_ok : has_types vi [VT_I64; VT_I64] -> step_ok e [VT_I64] rest (labs s) (divs64_op s).
  Proof. intros H. inv_types. unfold divs64_op. rewrite Hstk. fin_step Hok. Qed.
  Lemma un32_ok f : has_types vi [VT_I32] -> step_ok e [VT_I32] rest (labs s) (un32 f s).
  Proof. intros H. inv_types. unfold un32. rewrite Hstk. fin_step Hok. Qed.
  Lemma un64_ok f : has_types vi [VT_I64] -> step_ok e [VT_I64] rest (labs s) (un64 f s).
  Proof. intros H. inv_types. unfold un64. rewrite Hstk. fin_step Hok. Qed.
  Lemma cmp64_ok f : has_types vi [VT_I64; VT_I64] -> step_ok e [VT_I32] rest (labs s) (cmp64 f s).
  Proof. intros H. inv_types. unfold cmp64. rewrite Hstk. fin_step Hok. Qed.
  Lemma push32_ok n : vi = [] -> step_ok e [VT_I32] rest (labs s) (SemCore.push (VI32 n) s).
  Proof. intros ->. unfold SemCore.push. rewrite Hstk. fin_step Hok. Qed.
  Lemma push64_ok n : vi = [] -> step_ok e [VT_I64] rest (labs s) (SemCore.push (VI64 n) s).
  Proof. intros ->. unfold SemCore.push. rewrite Hstk. fin_step Hok. Qed.

  (* memory: the validator has checked that the memory index is 0 *)
  Lemma mem_load_ok mi off w post t : (forall n, val_ty (post n) t) -> (mi =? 0)%N = true -> has_types vi [VT_I32] ->
    step_ok e [t] rest (labs s) (mem_load mi off w post s).
  Proof.
    intros Hp Hm H. inv_types. unfold mem_load. rewrite Hm, Hstk. cbn [app].
    destruct (in_bounds s _ w); unfold trap; cbn [step_ok with_stk stk labs locs globs]; [|exact Hok].
    split; [exact Hok|]. split; [reflexivity|]. eexists [_]. split; [reflexivity|apply has_types_one, Hp].
  Qed.
  Lemma mem_store32_ok mi off w : (mi =? 0)%N = true -> has_types vi [VT_I32; VT_I32] ->
    step_ok e [] rest (labs s) (mem_store mi off w false s).
  Proof. intros Hm H. inv_types. unfold mem_store. rewrite Hm, Hstk. fin_step Hok. Qed.
  Lemma mem_store64_ok mi off w : (mi =? 0)%N = true -> has_types vi [VT_I32; VT_I64] ->
    step_ok e [] rest (labs s) (mem_store mi off w true s).
  Proof. intros Hm H. inv_types. unfold mem_store. rewrite Hm, Hstk. fin_step Hok. Qed.
  Lemma mem_size_ok mi : (mi =? 0)%N = true -> vi = [] -> step_ok e [VT_I32] rest (labs s) (mem_size mi s).
  Proof. intros Hm ->. unfold mem_size. rewrite Hm. unfold SemCore.push. rewrite Hstk. fin_step Hok. Qed.
  Lemma mem_grow_ok mi : (mi =? 0)%N = true -> has_types vi [VT_I32] -> step_ok e [VT_I32] rest (labs s) (mem_grow mi s).
  Proof. intros Hm H. inv_types. unfold mem_grow. rewrite Hm, Hstk. fin_step Hok. Qed.

  (* variables *)
  Lemma local_get_ok i t : nthN_opt (te_locals e) i = Some t -> vi = [] -> step_ok e [t] rest (labs s) (local_get i s).
  Proof.
    intros Hi ->. destruct Hok as [Hl Hg]. destruct (Hl _ _ Hi) as (v & Hv & Ht).
    unfold local_get, SemCore.push. rewrite Hv, Hstk. cbn [step_ok with_stk stk labs locs globs app].
    split; [split; assumption|]. split; [reflexivity|]. exists [v]. split; [reflexivity|apply has_types_one, Ht].
  Qed.
  Lemma global_get_ok i t m : nthN_opt (te_globals e) i = Some (t, m) -> vi = [] -> step_ok e [t] rest (labs s) (global_get i s).
  Proof.
    intros Hi ->. destruct Hok as [Hl Hg]. destruct (Hg _ _ _ Hi) as (v & Hv & Ht).
    unfold global_get, SemCore.push. rewrite Hv, Hstk. cbn [step_ok with_stk stk labs locs globs app].
    split; [split; assumption|]. split; [reflexivity|]. exists [v]. split; [reflexivity|apply has_types_one, Ht].
  Qed.
  Lemma has_types_one_inv t : has_types vi [t] -> exists v, vi = [v] /\ val_ty v t.
  Proof.
    unfold has_types. cbn [rev app]. intros H. inversion H as [|v t' l l' Hv Hl]; subst. inversion Hl; subst.
    exists v. auto.
  Qed.
  Lemma local_set_ok i t : nthN_opt (te_locals e) i = Some t -> has_types vi [t] -> step_ok e [] rest (labs s) (local_set i s).
  Proof.
    intros Hi H. destruct (has_types_one_inv _ H) as (v & -> & Hv). destruct Hok as [Hl Hg].
    destruct (locs_ok_set e _ i t v Hl Hi Hv) as (l' & Hs & Hl').
    unfold local_set. rewrite Hstk. cbn [app]. rewrite Hs. cbn [step_ok with_locs stk labs locs globs].
    split; [split; assumption|]. split; [reflexivity|]. exists []. split; [reflexivity|apply has_types_nil].
  Qed.
  Lemma local_tee_ok i t : nthN_opt (te_locals e) i = Some t -> has_types vi [t] -> step_ok e [t] rest (labs s) (local_tee i s).
  Proof.
    intros Hi H. destruct (has_types_one_inv _ H) as (v & -> & Hv). destruct Hok as [Hl Hg].
    destruct (locs_ok_set e _ i t v Hl Hi Hv) as (l' & Hs & Hl').
    unfold local_tee. rewrite Hstk. cbn [app]. rewrite Hs. cbn [step_ok with_locs stk labs locs globs].
    split; [split; assumption|]. split; [reflexivity|]. exists [v]. split; [reflexivity|apply has_types_one, Hv].
  Qed.
  Lemma global_set_ok i t m : nthN_opt (te_globals e) i = Some (t, m) -> has_types vi [t] -> step_ok e [] rest (labs s) (global_set i s).
  Proof.
    intros Hi H. destruct (has_types_one_inv _ H) as (v & -> & Hv). destruct Hok as [Hl Hg].
    destruct (globs_ok_set e _ i t m v Hg Hi Hv) as (g' & Hs & Hg').
    unfold global_set. rewrite Hstk. cbn [app]. rewrite Hs. cbn [step_ok with_globs stk labs locs globs].
    split; [split; assumption|]. split; [reflexivity|]. exists []. split; [reflexivity|apply has_types_nil].
  Qed.

  (* conversions and tests written inline in [core_op] *)
  Lemma conv_64_32_ok f : has_types vi [VT_I64] ->
    step_ok e [VT_I32] rest (labs s) (match stk s with VI64 a :: k => Next (with_stk s (VI32 (f a) :: k)) | _ => wrong s end).
  Proof. intros H. inv_types. rewrite Hstk. fin_step Hok. Qed.
  Lemma conv_32_64_ok f : has_types vi [VT_I32] ->
    step_ok e [VT_I64] rest (labs s) (match stk s with VI32 a :: k => Next (with_stk s (VI64 (f a) :: k)) | _ => wrong s end).
  Proof. intros H. inv_types. rewrite Hstk. fin_step Hok. Qed.

  (* the polymorphic operators *)
  Lemma drop_ok t : has_types vi [t] ->
    step_ok e [] rest (labs s) (core_op (fun i => i) (fun i => i) (fun i => i) W_Drop s).
  Proof.
    intros H. destruct (has_types_one_inv _ H) as (v & -> & Hv). cbn [core_op]. rewrite Hstk. cbn [app step_ok with_stk stk labs locs globs].
    split; [exact Hok|]. split; [reflexivity|]. exists []. split; [reflexivity|apply has_types_nil].
  Qed.
  Lemma select_ok t : is_int t = true -> has_types vi [t; t; VT_I32] ->
    step_ok e [t] rest (labs s) (core_op (fun i => i) (fun i => i) (fun i => i) W_Select s).
  Proof.
    intros Ht H. cbn [core_op]. destruct t; try discriminate Ht; inv_types; rewrite Hstk; cbn [app same_ty]; fin_step Hok.
  Qed.
End Shapes.

Lemma mem_ok_idx e m lg : mem_ok e m lg = true -> (wa_memory m =? 0)%N = true.
Proof. unfold mem_ok. intros H. apply andb_prop in H. destruct H as [H _]. apply andb_prop in H. apply H. Qed.
Lemma has_mem_idx e i : te_has_mem e && (i =? 0)%N = true -> (i =? 0)%N = true.
Proof. intros H. apply andb_prop in H. apply H. Qed.

Ltac prep_sig H :=
  cbn [core_sig] in H; unfold load_sig, store_sig in H;
  repeat match type of H with
  | context [match ?x with _ => _ end] => destruct x eqn:?; try discriminate H
  end; injection H as <- <-.

(* THE PER-OPERATOR LEMMA, monomorphic operators: the 96 operators [core_sig] gives a signature to *)
Lemma sig_safe e o i r s vi rest :
  core_sig e o = Some (i, r) -> st_ok e s -> stk s = vi ++ rest -> has_types vi i ->
  step_ok e r rest (labs s) (core_op (fun i => i) (fun i => i) (fun i => i) o s).
Proof.
  intros H Hok Hstk Hvi.
  destruct o; try discriminate H; prep_sig H; cbn [core_op];
    try (apply has_types_length in Hvi as Hlen; destruct vi; [clear Hlen|discriminate Hlen]);
    first [ eapply bin32_ok; eassumption | eapply bin64_ok; eassumption
          | eapply div32_ok; eassumption | eapply div64_ok; eassumption
          | eapply divs32_ok; eassumption | eapply divs64_ok; eassumption
          | eapply un32_ok; eassumption | eapply un64_ok; eassumption | eapply cmp64_ok; eassumption
          | eapply push32_ok; eauto | eapply push64_ok; eauto
          | eapply conv_64_32_ok; eassumption | eapply conv_32_64_ok; eassumption
          | eapply local_get_ok; eauto | eapply local_set_ok; eauto | eapply local_tee_ok; eauto
          | eapply global_get_ok; eauto | eapply global_set_ok; eauto
          | eapply mem_load_ok; first [eassumption | intros; constructor | eapply mem_ok_idx; eassumption]
          | eapply mem_store32_ok; first [eassumption | eapply mem_ok_idx; eassumption]
          | eapply mem_store64_ok; first [eassumption | eapply mem_ok_idx; eassumption]
          | eapply mem_size_ok; eauto using has_mem_idx
          | eapply mem_grow_ok; eauto using has_mem_idx ].
Qed.

Notation I := (fun i : N => i).

(* THE PER-OPERATOR LEMMA: an operator typed [ins -> outs] by the validator's operator typing, run on a stack whose top
   has the types [ins], yields [outs] on the same rest of the stack, or a genuine trap; it never goes wrong *)
Theorem op_safe e o i r s vi rest :
  core_optype e (WOp o) i r -> st_ok e s -> stk s = vi ++ rest -> has_types vi i ->
  step_ok e r rest (labs s) (core_sem I I I (WOp o) s).
Proof.
  intros [(o' & Eo & Hs)|[(Eo & t & -> & ->)|(Eo & t & Ht & -> & ->)]] Hok Hstk Hvi; injection Eo as ->; cbn [core_sem].
  - eapply sig_safe; eassumption.
  - eapply drop_ok; eassumption.
  - eapply select_ok; eassumption.
Qed.

(* return / unreachable: a return with the results on top, or the trap of `unreachable` *)
Lemma dead_safe e o i s vi rest :
  core_opdead e (WOp o) i -> st_ok e s -> stk s = vi ++ rest -> has_types vi i ->
  (core_sem I I I (WOp o) s = Halt Trap s) \/ (core_sem I I I (WOp o) s = Halt Return s /\ i = te_results e).
Proof.
  intros [(Eo & ->)|(Eo & ->)] _ _ _; injection Eo as ->; [left|right]; auto.
Qed.

(* ================================================================== 3. arities *)
Lemma arity_eq e bt : arity (tys_of e) bt = N.of_nat (length (bt_results e bt)).
Proof.
  destruct bt as [|t|i]; try reflexivity. unfold arity, tys_of, bt_results, bt_sig.
  destruct (nthN_opt (te_tys e) i) as [[ps rs]|]; reflexivity.
Qed.
Lemma loop_arity_eq e bt : loop_arity (tys_of e) bt = N.of_nat (length (bt_params e bt)).
Proof.
  destruct bt as [|t|i]; try reflexivity. unfold loop_arity, tys_of, bt_params, bt_sig.
  destruct (nthN_opt (te_tys e) i) as [[ps rs]|]; reflexivity.
Qed.
Lemma nparams_eq e bt : nparams (tys_of e) bt = N.of_nat (length (bt_params e bt)).
Proof. rewrite nparams_loop_arity. apply loop_arity_eq. Qed.

Lemma nthN_in i : forall ds d, nthN i ds d = d \/ In (nthN i ds d) ds.
Proof.
  intros ds. revert i. induction ds as [|x ds IH]; intros i d; [left; reflexivity|].
  cbn [nthN]. destruct (i =? 0)%N; [right; left; reflexivity|].
  destruct (IH (i - 1)%N d) as [H|H]; [left; exact H|right; right; exact H].
Qed.

(* ================================================================== 4. the generalised lemma *)
(* the result of running a sequence typed [.. -> b] in the label context [L], started with the typed part of the
   stack on [base] and the label records [ls]:
     Fall    the types [b] on the SAME base, the records untouched;
     Br d    the types of label d on top, then whatever the constructs passed had accumulated ([extra]), then the
             SAME base; the records of the constructs passed are popped ([close]): the records are [ls] again;
     return  the results of the function on top;   trap   a well-typed store;   never Wrong / Stuck *)
Definition res_ok (e : tenv) (L : list (list valty)) (b : list valty) (base : list val) (ls : list N)
    (r : res st halt) : Prop :=
  match r with
  | Fall s' => st_ok e s' /\ labs s' = ls /\ exists vs', stk s' = vs' ++ base /\ has_types vs' b
  | Br d s' => st_ok e s' /\ labs s' = ls /\
               exists ts vs' extra, nth_error L d = Some ts /\ stk s' = vs' ++ extra ++ base /\ has_types vs' ts
  | Stop Return s' => st_ok e s' /\ exists vs' rest, stk s' = vs' ++ rest /\ has_types vs' (te_results e)
  | Stop Trap s' => st_ok e s'
  | Stop Wrong _ => False
  | Stuck => False
  | Fuel => True
  end.

(* a result that is not a fall-through does not depend on the type after the sequence *)
Lemma res_ok_nofall e L b c base ls r : (forall s', r <> Fall s') -> res_ok e L b base ls r -> res_ok e L c base ls r.
Proof. destruct r as [s'|d s'|h s'| |]; intros Hn H; [exfalso; exact (Hn s' eq_refl)|exact H..]. Qed.

Lemma height_enter (vp rest : list val) n : length vp = n ->
  (N.of_nat (length (vp ++ rest)) - N.of_nat n)%N = N.of_nat (length rest).
Proof. intros <-. rewrite app_length. lia. Qed.

(* a branch TO a construct: exact unwinding *)
Lemma unwind_ok e s' ls lab vs' extra base :
  st_ok e s' -> labs s' = N.of_nat (length base) :: ls -> stk s' = vs' ++ extra ++ base -> has_types vs' lab ->
  let s'' := unwind (N.of_nat (length lab)) s' in
  st_ok e s'' /\ labs s'' = ls /\ stk s'' = vs' ++ base.
Proof.
  intros Hok Hl Hs Hv. apply has_types_length in Hv. rewrite <- Hv.
  destruct s' as [sk lo gl la me pg mx]. cbn [labs stk] in Hl, Hs. subst la sk.
  rewrite unwind_exact. cbn zeta. cbn [labs stk]. split; [exact Hok|]. split; reflexivity.
Qed.

Lemma labs_leave s : labs (leave s) = tl (labs s). Proof. reflexivity. Qed.
Lemma stk_leave s : stk (leave s) = stk s. Proof. reflexivity. Qed.
Lemma st_ok_leave e s : st_ok e s -> st_ok e (leave s). Proof. intros H. exact H. Qed.
Lemma labs_enter tys bt s : labs (enter tys bt s) = (height s - nparams tys bt)%N :: labs s. Proof. reflexivity. Qed.
Lemma stk_enter tys bt s : stk (enter tys bt s) = stk s. Proof. reflexivity. Qed.
Lemma st_ok_enter e tys bt s : st_ok e s -> st_ok e (enter tys bt s). Proof. intros H. exact H. Qed.

Section Close.
  Variable e : tenv.
  (* leaving a construct whose body was run on the base [vf ++ base] with the record of that height *)
  Lemma close_ok L lab rs f vf base ls r (on_br0 : st -> res st halt) :
    res_ok e (lab :: L) rs (vf ++ base) (N.of_nat (length (vf ++ base)) :: ls) r ->
    has_types vf f ->
    (forall s' vs' extra, st_ok e s' -> labs s' = N.of_nat (length (vf ++ base)) :: ls ->
       stk s' = vs' ++ extra ++ vf ++ base -> has_types vs' lab -> res_ok e L (f ++ rs) base ls (on_br0 s')) ->
    res_ok e L (f ++ rs) base ls (close st halt leave r on_br0).
  Proof.
    intros Hr Hf Hbr. destruct r as [s'|[|k] s'|[| |] s'| |]; cbn [close res_ok] in *; try exact Hr.
    - destruct Hr as (Hok & Hl & vs' & Hs & Hv). split; [apply st_ok_leave, Hok|]. split; [rewrite labs_leave, Hl; reflexivity|].
      exists (vs' ++ vf). split; [rewrite stk_leave, Hs, app_assoc; reflexivity|apply has_types_app; assumption].
    - destruct Hr as (Hok & Hl & ts & vs' & extra & Hn & Hs & Hv). cbn [nth_error] in Hn. injection Hn as <-.
      eapply Hbr; eassumption.
    - destruct Hr as (Hok & Hl & ts & vs' & extra & Hn & Hs & Hv). cbn [nth_error] in Hn.
      split; [apply st_ok_leave, Hok|]. split; [rewrite labs_leave, Hl; reflexivity|].
      exists ts, vs', (extra ++ vf). split; [exact Hn|]. split; [rewrite stk_leave, Hs, <- !app_assoc; reflexivity|exact Hv].
  Qed.
End Close.

Lemma pop_cond_ok s c k : stk s = VI32 c :: k -> pop_cond s = Some (negb (c =? 0)%N, with_stk s k).
Proof. intros H. unfold pop_cond. rewrite H. reflexivity. Qed.
Lemma pop_index_ok s c k : stk s = VI32 c :: k -> pop_index s = Some (c, with_stk s k).
Proof. intros H. unfold pop_index. rewrite H. reflexivity. Qed.

Section Safe.
  Variable e : tenv.
  Variable rr : rt -> st -> res st halt.

  Notation evt' := (evt st halt pop_cond pop_index unwind (enter (tys_of e)) leave (core_sem I I I)
                      (arity (tys_of e)) (loop_arity (tys_of e)) rr).
  Notation evl' := (evl st halt pop_cond pop_index unwind (enter (tys_of e)) leave (core_sem I I I)
                      (arity (tys_of e)) (loop_arity (tys_of e)) rr).

  Definition safe_l (run : list rt -> st -> res st halt) (L : list (list valty)) (l : list rt) (a b : list valty) : Prop :=
    forall s vs base, st_ok e s -> stk s = vs ++ base -> has_types vs a -> res_ok e L b base (labs s) (run l s).
  Definition safe_t (run : rt -> st -> res st halt) (L : list (list valty)) (t : rt) (a b : list valty) : Prop :=
    forall s vs base, st_ok e s -> stk s = vs ++ base -> has_types vs a -> res_ok e L b base (labs s) (run t s).

  (* re-entering a loop is safe (by induction on the fuel, below) *)
  Hypothesis Hrr : forall L t a b, cht1 e L t a b -> safe_t rr L t a b.

  (* entering a construct with the parameters [vp] on [vf ++ base]: the record is the height of [vf ++ base] *)
  Lemma enter_ok bt s vp vf base : stk s = (vp ++ vf) ++ base -> has_types vp (bt_params e bt) ->
    labs (enter (tys_of e) bt s) = N.of_nat (length (vf ++ base)) :: labs s /\
    stk (enter (tys_of e) bt s) = vp ++ (vf ++ base).
  Proof.
    intros Hs Hp. rewrite labs_enter, stk_enter, Hs, <- app_assoc. split; [|reflexivity].
    unfold height. rewrite Hs, <- app_assoc, nparams_eq. f_equal. apply height_enter, has_types_length, Hp.
  Qed.

  (* a block-like construct (block, if-arm): a branch to it falls through after the unwinding *)
  Lemma block_ok L bt body s vp vf f base :
    safe_l evl' (bt_results e bt :: L) body (bt_params e bt) (bt_results e bt) ->
    st_ok e s -> stk s = (vp ++ vf) ++ base -> has_types vp (bt_params e bt) -> has_types vf f ->
    res_ok e L (f ++ bt_results e bt) base (labs s)
      (close st halt leave (evl' body (enter (tys_of e) bt s)) (fun s' => Fall (unwind (arity (tys_of e) bt) s'))).
  Proof.
    intros IH Hok Hs Hp Hf. destruct (enter_ok bt s vp vf base Hs Hp) as [Hl Hk].
    eapply close_ok; [|exact Hf|].
    - rewrite <- Hl. eapply IH; [apply st_ok_enter, Hok|exact Hk|exact Hp].
    - intros s' vs' extra Hok' Hl' Hs' Hv'. rewrite arity_eq.
      destruct (unwind_ok e s' (labs s) _ vs' extra (vf ++ base) Hok' Hl' Hs' Hv') as (H1 & H2 & H3).
      cbn [res_ok]. split; [exact H1|]. split; [exact H2|]. exists (vs' ++ vf).
      split; [rewrite H3, app_assoc; reflexivity|apply has_types_app; assumption].
  Qed.

  Lemma safe_both :
    (forall L l a b, cht e L l a b -> safe_l evl' L l a b) /\
    (forall L t a b, cht1 e L t a b -> safe_t evt' L t a b).
  Proof.
    apply ht_ht1_ind.
    - (* nil *) intros L a s vs base Hok Hs Hv. cbn [evl res_ok]. split; [exact Hok|]. split; [reflexivity|]. exists vs. auto.
    - (* cons *) intros L t l a b c _ IH1 _ IH2 s vs base Hok Hs Hv. rewrite evl_cons.
      pose proof (IH1 s vs base Hok Hs Hv) as H1. destruct (evt' t s) as [s'|d s'|h s'| |] eqn:Et.
      + cbn [res_ok] in H1. destruct H1 as (Hok' & Hl' & vs' & Hs' & Hv'). rewrite <- Hl'. eapply IH2; eassumption.
      + eapply res_ok_nofall; [discriminate|exact H1].
      + eapply res_ok_nofall; [discriminate|exact H1].
      + exact H1.
      + exact H1.
    - (* plain *) intros L o loc f i r Hm Ho s vs base Hok Hs Hv.
      destruct (has_types_split _ _ _ Hv) as (vi & vf & -> & Hi & Hf). rewrite <- app_assoc in Hs.
      pose proof (op_safe e o i r s vi (vf ++ base) Ho Hok Hs Hi) as H. cbn [evt].
      destruct (core_sem I I I (WOp o) s) as [s'|[| |] s']; cbn [step_ok res_ok] in *; try exact H; try contradiction.
      destruct H as (Hok' & Hl' & vr & Hs' & Hr). split; [exact Hok'|]. split; [exact Hl'|].
      exists (vr ++ vf). split; [rewrite Hs', app_assoc; reflexivity|apply has_types_app; assumption].
    - (* dead *) intros L o loc f i b Hm Ho s vs base Hok Hs Hv.
      destruct (has_types_split _ _ _ Hv) as (vi & vf & -> & Hi & Hf). rewrite <- app_assoc in Hs.
      cbn [evt]. destruct (dead_safe e o i s vi (vf ++ base) Ho Hok Hs Hi) as [->|[-> ->]]; cbn [res_ok].
      + exact Hok.
      + split; [exact Hok|]. exists vi, (vf ++ base). auto.
    - (* nop *) intros L loc a s vs base Hok Hs Hv. cbn [evt res_ok]. split; [exact Hok|]. split; [reflexivity|]. exists vs. auto.
    - (* br *) intros L d loc f ts b Hn s vs base Hok Hs Hv.
      destruct (has_types_split _ _ _ Hv) as (vi & vf & -> & Hi & Hf). rewrite <- app_assoc in Hs.
      cbn [evt res_ok]. split; [exact Hok|]. split; [reflexivity|]. exists ts, vi, vf. auto.
    - (* br_if *) intros L d loc f ts Hn s vs base Hok Hs Hv.
      destruct (has_types_split _ _ _ Hv) as (vc & vf & -> & Hc & Hf).
      destruct (has_types_split _ _ _ Hc) as (vc' & vi & -> & Hc' & Hi).
      destruct (has_types_i32_inv _ Hc') as (c & ->). rewrite <- !app_assoc in Hs. cbn [app] in Hs.
      cbn [evt]. rewrite (pop_cond_ok _ _ _ Hs). destruct (negb (c =? 0)%N); cbn [res_ok with_stk stk labs].
      + split; [exact Hok|]. split; [reflexivity|]. exists ts, vi, vf. auto.
      + split; [exact Hok|]. split; [reflexivity|]. exists (vi ++ vf).
        split; [rewrite app_assoc; reflexivity|apply has_types_app; assumption].
    - (* br_table *) intros L ds d loc f ts b Hn Hds s vs base Hok Hs Hv.
      destruct (has_types_split _ _ _ Hv) as (vc & vf & -> & Hc & Hf).
      destruct (has_types_split _ _ _ Hc) as (vc' & vi & -> & Hc' & Hi).
      destruct (has_types_i32_inv _ Hc') as (c & ->). rewrite <- !app_assoc in Hs. cbn [app] in Hs.
      cbn [evt]. rewrite (pop_index_ok _ _ _ Hs). cbn [res_ok with_stk stk labs].
      split; [exact Hok|]. split; [reflexivity|]. exists ts, vi, vf. split; [|auto].
      destruct (nthN_in c ds d) as [->|Hin]; [exact Hn|]. rewrite Forall_forall in Hds. apply Hds, Hin.
    - (* block *) intros L bt body loc lend f _ IH s vs base Hok Hs Hv.
      destruct (has_types_split _ _ _ Hv) as (vp & vf & -> & Hp & Hf).
      rewrite evt_block. eapply block_ok; eassumption.
    - (* loop *) intros L bt body loc lend f Hb IH s vs base Hok Hs Hv.
      destruct (has_types_split _ _ _ Hv) as (vp & vf & -> & Hp & Hf).
      rewrite evt_loop. destruct (enter_ok bt s vp vf base Hs Hp) as [Hl Hk].
      eapply close_ok; [|exact Hf|].
      + rewrite <- Hl. eapply IH; [apply st_ok_enter, Hok|exact Hk|exact Hp].
      + intros s' vs' extra Hok' Hl' Hs' Hv'. rewrite loop_arity_eq.
        destruct (unwind_ok e s' (labs s) _ vs' extra (vf ++ base) Hok' Hl' Hs' Hv') as (H1 & H2 & H3).
        rewrite <- H2. eapply (Hrr L _ (f ++ bt_params e bt) (f ++ bt_results e bt)).
        * apply HT_loop, Hb.
        * exact H1.
        * rewrite H3, app_assoc. reflexivity.
        * apply has_types_app; assumption.
    - (* if / else *) intros L bt th le el loc lend f _ IHt _ IHe s vs base Hok Hs Hv.
      destruct (has_types_split _ _ _ Hv) as (vc & vf & -> & Hc & Hf).
      destruct (has_types_split _ _ _ Hc) as (vc' & vp & -> & Hc' & Hp).
      destruct (has_types_i32_inv _ Hc') as (c & ->). rewrite <- !app_assoc in Hs. cbn [app] in Hs.
      rewrite evt_if, (pop_cond_ok _ _ _ Hs).
      assert (Hs1 : stk (with_stk s (vp ++ vf ++ base)) = (vp ++ vf) ++ base) by (rewrite <- app_assoc; reflexivity).
      change (labs s) with (labs (with_stk s (vp ++ vf ++ base))).
      destruct (negb (c =? 0)%N); eapply block_ok; eassumption.
    - (* if without else *) intros L bt th loc lend f _ IHt Heq s vs base Hok Hs Hv.
      destruct (has_types_split _ _ _ Hv) as (vc & vf & -> & Hc & Hf).
      destruct (has_types_split _ _ _ Hc) as (vc' & vp & -> & Hc' & Hp).
      destruct (has_types_i32_inv _ Hc') as (c & ->). rewrite <- !app_assoc in Hs. cbn [app] in Hs.
      rewrite evt_if, (pop_cond_ok _ _ _ Hs).
      assert (Hs1 : stk (with_stk s (vp ++ vf ++ base)) = (vp ++ vf) ++ base) by (rewrite <- app_assoc; reflexivity).
      destruct (negb (c =? 0)%N).
      + change (labs s) with (labs (with_stk s (vp ++ vf ++ base))). eapply block_ok; eassumption.
      + cbn [close]. rewrite leave_enter. cbn [res_ok with_stk stk labs]. split; [exact Hok|]. split; [reflexivity|].
        exists (vp ++ vf). split; [rewrite app_assoc; reflexivity|]. rewrite <- Heq. apply has_types_app; assumption.
  Qed.
End Safe.

(* ================================================================== 5. induction on the fuel *)
Lemma safe_rerun e : forall fuel L t a b, cht1 e L t a b ->
  safe_t e (rerun_of st halt pop_cond pop_index unwind (enter (tys_of e)) leave (core_sem I I I)
              (arity (tys_of e)) (loop_arity (tys_of e)) fuel) L t a b.
Proof.
  induction fuel as [|fuel IH]; intros L t a b H.
  - intros s vs base _ _ _. exact Logic.I.
  - intros s vs base Hok Hs Hv. cbn [rerun_of].
    replace (eval_t st halt pop_cond pop_index unwind (enter (tys_of e)) leave (core_sem I I I)
               (arity (tys_of e)) (loop_arity (tys_of e)) fuel t s)
      with (evt st halt pop_cond pop_index unwind (enter (tys_of e)) leave (core_sem I I I)
              (arity (tys_of e)) (loop_arity (tys_of e))
              (rerun_of st halt pop_cond pop_index unwind (enter (tys_of e)) leave (core_sem I I I)
                 (arity (tys_of e)) (loop_arity (tys_of e)) fuel) t s)
      by (destruct fuel; reflexivity).
    exact (proj2 (safe_both e _ IH) L t a b H s vs base Hok Hs Hv).
Qed.

(* the generalised statement for [run_core]: any label context, any typed sequence, any frame below *)
Theorem run_core_safe e fuel L l a b s vs base :
  cht e L l a b -> st_ok e s -> stk s = vs ++ base -> has_types vs a ->
  res_ok e L b base (labs s) (run_core id id id (tys_of e) fuel l s).
Proof.
  intros H Hok Hs Hv. unfold run_core, eval.
  exact (proj1 (safe_both e _ (safe_rerun e fuel)) L l a b H s vs base Hok Hs Hv).
Qed.

(* ================================================================== 6. THE THEOREM *)
(* what running a function body from the empty stack may give *)
Definition final_ok (e : tenv) (r : res st halt) : Prop :=
  match r with
  | Fall s => st_ok e s /\ labs s = [] /\ has_types (stk s) (te_results e)            (* the results, exactly *)
  | Br d s => st_ok e s /\ d = 0 /\ labs s = [] /\                                     (* a branch to the function label *)
              exists vs rest, stk s = vs ++ rest /\ has_types vs (te_results e)
  | Stop Return s => st_ok e s /\ exists vs rest, stk s = vs ++ rest /\ has_types vs (te_results e)
  | Stop Trap s => st_ok e s
  | Stop Wrong _ => False
  | Stuck => False
  | Fuel => True
  end.

Theorem type_safety e body s0 :
  check_body e body = true -> st_ok e s0 -> stk s0 = [] -> labs s0 = [] ->
  forall fuel, final_ok e (run_core id id id (tys_of e) fuel body s0).
Proof.
  intros Hc Hok Hs Hl fuel. apply check_body_sound in Hc.
  pose proof (run_core_safe e fuel _ _ _ _ s0 [] [] Hc Hok Hs has_types_nil) as H. rewrite Hl in H.
  destruct (run_core id id id (tys_of e) fuel body s0) as [s|d s|[| |] s| |]; cbn [res_ok final_ok] in *; try exact H.
  - destruct H as (H1 & H2 & vs' & H3 & H4). rewrite app_nil_r in H3. subst vs'. auto.
  - destruct H as (H1 & H2 & ts & vs' & extra & Hn & H3 & H4). split; [exact H1|].
    destruct d as [|d]; [|destruct d; discriminate Hn]. injection Hn as <-. split; [reflexivity|]. split; [exact H2|].
    exists vs', (extra ++ []). auto.
Qed.

(* the emitted body (normal form of the round trip) of an accepted body is as safe *)
Corollary emitted_body_is_safe e body s0 :
  check_body e body = true -> st_ok e s0 -> stk s0 = [] -> labs s0 = [] ->
  forall fuel, final_ok e (run_core id id id (tys_of e) fuel (fst (nf_rt_list false body)) s0).
Proof. intros Hc. apply type_safety, check_body_nf, Hc. Qed.

(* the negative reading: an accepted body, and its emitted form, never go wrong and are never stuck *)
Corollary accepted_body_never_wrong e body s0 :
  check_body e body = true -> st_ok e s0 -> stk s0 = [] -> labs s0 = [] ->
  forall fuel, (forall s, run_core id id id (tys_of e) fuel body s0 <> Stop Wrong s) /\
               run_core id id id (tys_of e) fuel body s0 <> Stuck.
Proof.
  intros Hc Hok Hs Hl fuel. pose proof (type_safety e body s0 Hc Hok Hs Hl fuel) as H.
  split; [intros s E|intros E]; rewrite E in H; exact H.
Qed.

(* ================================================================== 7. the premise [st_ok] is satisfiable *)
(* ANY assignment of values of the declared types to the locals and the globals, bound at consecutive slots from 0 *)
Fixpoint bind_from (k : N) (vs : list val) : list (N * val) :=
  match vs with [] => [] | v :: r => (k, v) :: bind_from (k + 1)%N r end.
Lemma bind_from_ok vs ts : Forall2 val_ty vs ts ->
  forall k i t, nthN_opt ts i = Some t -> exists v, alookup (k + i)%N (bind_from k vs) = Some v /\ val_ty v t.
Proof.
  induction 1 as [|v t0 vs ts Hv Hr IH]; intros k i t Hi; [discriminate Hi|].
  cbn [nthN_opt] in Hi. cbn [bind_from alookup]. destruct (N.eqb_spec i 0%N) as [->|Hne].
  - injection Hi as <-. rewrite N.add_0_r, N.eqb_refl. exists v. auto.
  - destruct (N.eqb_spec (k + i)%N k) as [E|_]; [lia|].
    replace (k + i)%N with ((k + 1) + (i - 1))%N by lia. apply IH, Hi.
Qed.
Lemma nthN_opt_map {A B} (f : A -> B) l i x : nthN_opt l i = Some x -> nthN_opt (map f l) i = Some (f x).
Proof. rewrite !nthN_opt_nth. apply map_nth_error. Qed.
Theorem st_ok_bind e lv gv k lb m p mx :
  Forall2 val_ty lv (te_locals e) -> Forall2 val_ty gv (map fst (te_globals e)) ->
  st_ok e {| stk := k; locs := bind_from 0 lv; globs := bind_from 0 gv; labs := lb; mem := m; pages := p; max_pages := mx |}.
Proof.
  intros Hl Hg. split; cbn [locs globs].
  - intros i t Hi. exact (bind_from_ok _ _ Hl 0%N i t Hi).
  - intros i t mu Hi. apply (bind_from_ok _ _ Hg 0%N i t). apply (nthN_opt_map fst _ _ _ Hi).
Qed.

(* a concrete instance, by computation: factorial of local 0 with a loop, a branch out of the block, a global *)
Module Ex.
  Local Open Scope N_scope.
  Definition e0 : tenv :=
    {| te_locals := [VT_I32; VT_I32]; te_globals := [(VT_I32, true)]; te_tys := []; te_results := [VT_I32]; te_has_mem := true |}.
  Definition P (o : wop) : rt := RPlain o 0.
  Definition fact : list rt :=
    [ P (W_I32Const 1); P (W_LocalSet 1);
      RBlock BT_Empty
        [ RLoop BT_Empty
            [ P (W_LocalGet 0); P W_I32Eqz; RBrIf 1 0;
              P (W_LocalGet 1); P (W_LocalGet 0); P W_I32Mul; P (W_LocalSet 1);
              P (W_LocalGet 0); P (W_I32Const 1); P W_I32Sub; P (W_LocalSet 0);
              RBr 0 0 ] 0 0 ] 0 0;
      P (W_LocalGet 1); P (W_GlobalSet 0); P (W_GlobalGet 0) ].
  Definition s_n (n : N) : st :=
    {| stk := []; locs := bind_from 0 [VI32 n; VI32 0]; globs := bind_from 0 [VI32 7]; labs := []; mem := []; pages := 1; max_pages := 1 |}.
  Example fact_accepted : check_body e0 fact = true.
  Proof. vm_compute. reflexivity. Qed.
  Example s_n_ok n : st_ok e0 (s_n n).
  Proof. apply st_ok_bind; repeat constructor. Qed.
  Example fact_safe n fuel : final_ok e0 (run_core id id id (tys_of e0) fuel fact (s_n n)).
  Proof. apply type_safety; [exact fact_accepted|apply s_n_ok|reflexivity|reflexivity]. Qed.
  Example fact_5 : match run_core id id id (tys_of e0) 9 fact (s_n 5) with Fall s => stk s | _ => [] end = [VI32 120].
  Proof. vm_compute. reflexivity. Qed.
  (* a rejected body that does go wrong: i64 operand for i32.add *)
  Example rejected_goes_wrong :
    check_body e0 [P (W_I64Const 1); P (W_I32Const 1); P W_I32Add] = false /\
    match run_core id id id (tys_of e0) 0 [P (W_I64Const 1); P (W_I32Const 1); P W_I32Add] (s_n 0) with Stop Wrong _ => true | _ => false end = true.
  Proof. split; vm_compute; reflexivity. Qed.
End Ex.

(* ================================================================== 8. C01 + C02: the emitted, RENUMBERED body is safe *)
(* every operator of a typed body (dead code included) is an operator of the core, with an alignment exponent that
   survives the round trip: the validator bounds it by the access width *)
Lemma sig_core_shape e o i r : core_sig e o = Some (i, r) -> is_core_shape o = true /\ align_ok o = true.
Proof.
  intros H. destruct o; try discriminate H; split; try reflexivity;
    unfold align_ok; cbn [memarg_of]; cbn [core_sig] in H; unfold load_sig, store_sig in H;
    match type of H with context [mem_ok ?e ?m ?lg] => destruct (mem_ok e m lg) eqn:Em; [|discriminate H] end;
    unfold mem_ok in Em; apply andb_prop in Em; destruct Em as [_ Em]; apply N.leb_le in Em; apply N.ltb_lt; lia.
Qed.
Lemma typed_ops_core e :
  (forall L l a b, cht e L l a b -> forall o, In o (ops_of l) -> is_core_shape o = true /\ align_ok o = true) /\
  (forall L t a b, cht1 e L t a b -> forall o, In o (ops_of_t t) -> is_core_shape o = true /\ align_ok o = true).
Proof.
  apply ht_ht1_ind.
  - intros L a o [].
  - intros L t l a b c _ IH1 _ IH2 o Ho. cbn [ops_of] in Ho. apply in_app_or in Ho. destruct Ho; auto.
  - intros L o loc f i r _ Ho o' [<-|[]].
    destruct Ho as [(o1 & Eo & Hs)|[(Eo & _)|(Eo & _)]]; injection Eo as ->; [eapply sig_core_shape, Hs|split; reflexivity..].
  - intros L o loc f i b _ Ho o' [<-|[]]. destruct Ho as [(Eo & _)|(Eo & _)]; injection Eo as ->; split; reflexivity.
  - intros L loc a o [].
  - intros L d loc f ts b _ o [].
  - intros L d loc f ts _ o [].
  - intros L ds d loc f ts b _ _ o [].
  - intros L bt body loc lend f _ IH o Ho. rewrite ops_of_block in Ho. auto.
  - intros L bt body loc lend f _ IH o Ho. rewrite ops_of_loop in Ho. auto.
  - intros L bt th le el loc lend f _ IH1 _ IH2 o Ho. rewrite ops_of_if_some in Ho. apply in_app_or in Ho. destruct Ho; auto.
  - intros L bt th loc lend f _ IH _ o Ho. rewrite ops_of_if_none in Ho. auto.
Qed.

(* THE EMITTED BODY AS WALRUS WRITES IT - normal form, every operator and block type re-encoded ([ren_t]: its flattening is
   the emitted operator stream, [core_output_tree_is_emitted]) - run on the RENUMBERED slots and the OUTPUT type table,
   is as safe as the input body on the identity slots: it behaves exactly as the input ([core_roundtrip_equiv_tys]),
   which never goes wrong.  The only premise on the body beyond acceptance: 32-bit offsets (walrus truncates larger ones:
   [core_sem_renamed_big_offset_refuted]; the validator of the model does not bound the offset). *)
Theorem emitted_renamed_body_is_safe cx ecx lslot' gslot' mslot' tys' e body s0 :
  (forall i, lslot' (rl cx ecx i) = i) ->
  (forall i, gslot' (rg cx ecx i) = i) ->
  (forall i, mslot' (rm cx ecx i) = i) ->
  (forall i, tys_of e i = bt_tys cx (BT_Func i)) ->
  (forall i ps rs, tys_of e i = Some (ps, rs) -> existing cx ps rs <> None) ->
  (forall ps rs ty, find_type cx ps rs = Some ty -> tys' (ex_id2i ecx S_type ty) = Some (ps, rs)) ->
  check_body e body = true -> (forall o, In o (ops_of body) -> offset_ok o = true) ->
  st_ok e s0 -> stk s0 = [] -> labs s0 = [] ->
  forall fuel, final_ok e (run_core lslot' gslot' mslot' tys' fuel (map (ren_t cx ecx) (fst (nf_rt_list false body))) s0).
Proof.
  intros Hl Hg Hm H1 H2 H3 Hc Hoff Hok Hs Hlb fuel.
  pose proof (proj1 (typed_ops_core e) _ _ _ _ (check_body_sound e body Hc)) as Hcore.
  rewrite (core_roundtrip_equiv_tys cx ecx id id id lslot' gslot' mslot' (tys_of e) tys' Hl Hg Hm H1 H2 H3 body).
  - apply type_safety; assumption.
  - intros o Ho. unfold memarg_ok. rewrite (Hoff o Ho), (proj2 (Hcore o Ho)). reflexivity.
  - intros o Ho. apply core_shape_decodable, (proj1 (Hcore o Ho)).
Qed.

Print Assumptions op_safe.
Print Assumptions run_core_safe.
Print Assumptions type_safety.
Print Assumptions emitted_body_is_safe.
Print Assumptions accepted_body_never_wrong.
Print Assumptions st_ok_bind.
Print Assumptions emitted_renamed_body_is_safe.
