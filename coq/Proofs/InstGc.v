(* C01, instantiation when UNUSED GLOBALS ARE DROPPED (walrus's GC pass): Proofs/Inst.v asks that the two modules have the same
   list of globals.  Here the output module may have lost globals that nothing mentions.
   1. THE FRAME LEMMA FOR GLOBALS of the module machine: [run_body_globals] / [run_mod_globals] - two states that differ only in
      their global stores, which agree on the slots [U] of the globals the functions of the environment mention, give results
      related in the same way (same stack, memory, verdict, exhaustion flag; global stores agreeing on [U]);
   2. [inst_globals_dropped]: evaluating the remaining initialisers gives a store that agrees on [U];
   3. [inst_roundtrip_gc] and [inst_then_call_roundtrip_gc]: the theorems of Proofs/Inst.v up to the dropped globals. *)
From Coq Require Import List NArith ZArith Bool Lia. Import ListNotations.
From WV Require Import Gen.Ops Model.Common Model.IR Model.ParseFn Model.ParseSpec Model.EmitFn
  Model.BodySpec Model.Sem Model.SemCore Model.SemMod Model.Inst.
From WV Require Import Proofs.SemMod Proofs.Inst.

(* ================================================================== 1. the globals a module does not mention are irrelevant *)
Definition reglobs (G : list (N * val)) (c : st) : st := with_globs c (stk c) G.
Lemma reglobs_self c : reglobs (globs c) c = c.
Proof. destruct c; reflexivity. Qed.

(* an operator other than global.get / set neither looks at the globals nor changes them *)
Lemma core_op_reglobs : forall l g m o G c, global_index_of o = None ->
  core_op l g m o (reglobs G c) = step_map (reglobs G) (core_op l g m o c).
Proof.
  intros l g m o G c H. destruct c as [k lo gl la me pg mx].
  destruct o; try discriminate H; try reflexivity;
    cbn [core_op];
    unfold bin32, bin64, div32, div64, divs32_op, divs64_op, un32, un64, cmp64, mem_load, mem_store, mem_size, mem_grow,
      local_get, local_set, local_tee, push, trap, wrong, in_bounds, reglobs;
    cbn [stk locs globs labs mem pages max_pages with_stk with_locs with_globs with_mem with_pages step_map];
    repeat match goal with |- context [match ?x with _ => _ end] => destruct x end; reflexivity.
Qed.

Section GlobRel.
  Variable U : list N.     (* the slots on which the two global stores agree *)
  Definition Gst (c1 c2 : st) : Prop := exists G, c2 = reglobs G c1 /\ agree U (globs c1) G.
  Definition Gm (s t : mst) : Prop := snd s = snd t /\ Gst (fst s) (fst t).

  Lemma Gst_refl c : Gst c c.
  Proof. exists (globs c). split; [symmetry; apply reglobs_self|intros k _; reflexivity]. Qed.

  Lemma core_op_relg : forall l g m o c1 c2, (forall i, global_index_of o = Some i -> In (g i) U) -> Gst c1 c2 ->
    step_rel st halt Gst (core_op l g m o c1) (core_op l g m o c2).
  Proof.
    intros l g m o c1 c2 HU (G & -> & Ha). destruct (global_index_of o) as [i|] eqn:Ei.
    - specialize (HU i eq_refl).
      destruct o; try discriminate Ei; injection Ei as ->; cbn [core_op]; destruct c1 as [k lo gl la me pg mx];
        unfold global_get, global_set, reglobs, push, wrong; cbn [stk globs with_globs with_stk] in *.
      + rewrite <- (Ha _ HU). destruct (alookup (g i) gl) as [v|]; cbn [step_rel].
        * eexists. split; [reflexivity|exact Ha].
        * split; [reflexivity|]. eexists. split; [reflexivity|exact Ha].
      + destruct k as [|v k]; cbn [step_rel]; [split; [reflexivity|]; eexists; split; [reflexivity|exact Ha]|].
        pose proof (aset_agree U (g i) v gl G Ha HU) as Hs.
        destruct (aset (g i) v gl) as [A1|], (aset (g i) v G) as [A2|]; try contradiction; cbn [step_rel].
        * exists A2. split; [reflexivity|exact Hs].
        * split; [reflexivity|]. eexists. split; [reflexivity|exact Ha].
    - rewrite (core_op_reglobs l g m o G c1 Ei).
      pose proof (core_op_reglobs l g m o (globs c1) c1 Ei) as Hself. rewrite reglobs_self in Hself.
      destruct (core_op l g m o c1) as [c'|h c']; cbn [step_map step_rel] in *.
      + exists G. split; [reflexivity|]. injection Hself as Hself. rewrite Hself. exact Ha.
      + split; [reflexivity|]. exists G. split; [reflexivity|]. injection Hself as Hself. rewrite Hself. exact Ha.
  Qed.

  (* ---- the hooks *)
  Lemma Gm_intro c G b : agree U (globs c) G -> Gm (c, b) (reglobs G c, b).
  Proof. intros Ha. split; [reflexivity|]. exists G. split; [reflexivity|exact Ha]. Qed.

  Lemma lift_pop_relg {A} (f : st -> option (A * st)) :
    (forall G c, f (reglobs G c) = match f c with Some (a, c') => Some (a, reglobs G c') | None => None end) ->
    (forall c a c', f c = Some (a, c') -> globs c' = globs c) ->
    forall s t, Gm s t -> pop_rel mst Gm (lift_pop f s) (lift_pop f t).
  Proof.
    intros Hf Hl [c b] [c2 b2] [Hb (G & HG & Ha)]. cbn [fst snd] in *. subst b2 c2. unfold lift_pop. cbn [fst snd].
    rewrite Hf. destruct (f c) as [[a c']|] eqn:Ef; cbn [pop_rel]; [|exact I].
    split; [reflexivity|]. apply Gm_intro. rewrite (Hl _ _ _ Ef). exact Ha.
  Qed.
  Lemma lift_relg (f : st -> st) :
    (forall G c, f (reglobs G c) = reglobs G (f c) /\ globs (f c) = globs c) ->
    forall s t, Gm s t -> Gm (lift f s) (lift f t).
  Proof.
    intros Hf [c b] [c2 b2] [Hb (G & HG & Ha)]. cbn [fst snd] in *. subst b2 c2. unfold lift. cbn [fst snd].
    destruct (Hf G c) as [H1 H2]. rewrite H1. apply Gm_intro. rewrite H2. exact Ha.
  Qed.
  Lemma pop_cond_reglobs G c : pop_cond (reglobs G c) = match pop_cond c with Some (b, c') => Some (b, reglobs G c') | None => None end.
  Proof. destruct c as [k lo gl la me pg mx]. unfold pop_cond, reglobs. cbn [stk with_globs]. destruct k as [|[n|n] k]; reflexivity. Qed.
  Lemma pop_index_reglobs G c : pop_index (reglobs G c) = match pop_index c with Some (b, c') => Some (b, reglobs G c') | None => None end.
  Proof. destruct c as [k lo gl la me pg mx]. unfold pop_index, reglobs. cbn [stk with_globs]. destruct k as [|[n|n] k]; reflexivity. Qed.
  Lemma unwind_reglobs G n c : unwind n (reglobs G c) = reglobs G (unwind n c) /\ globs (unwind n c) = globs c.
  Proof. destruct c as [k lo gl la me pg mx]. unfold unwind, reglobs. cbn [stk labs globs with_globs with_stk]. destruct la; split; reflexivity. Qed.
  Lemma enter_reglobs G tys bt c : enter tys bt (reglobs G c) = reglobs G (enter tys bt c) /\ globs (enter tys bt c) = globs c.
  Proof. destruct c; split; reflexivity. Qed.
  Lemma leave_reglobs G c : leave (reglobs G c) = reglobs G (leave c) /\ globs (leave c) = globs c.
  Proof. destruct c; split; reflexivity. Qed.

  (* ---- calls: the callee sees the globals of the caller, the caller the globals the callee leaves *)
  Section Calls.
    Variable E : menv.
    Variable rb : N -> list rt -> mst -> res mst halt.
    (* one level further down, the bodies of the functions of [E] respect the relation *)
    Hypothesis H_rb : forall id ti ls body s t, me_funcs E id = Some (ti, ls, body) -> Gm s t ->
      res_rel mst halt Gm (rb id body s) (rb id body t).

    Lemma after_call_relg s t n rs r1 r2 : Gm s t -> res_rel mst halt Gm r1 r2 ->
      step_rel mst halt Gm (after_call s n rs r1) (after_call t n rs r2).
    Proof.
      intros Hst Hr. destruct s as [c b], t as [c2 b2]. pose proof Hst as Hst0. destruct Hst as [Hb (G & HG & Ha)]. cbn [fst snd] in *. subst b2 c2.
      assert (Hfin : forall c1 b1 c3 b3, Gm (c1, b1) (c3, b3) ->
                step_rel mst halt Gm (finish (c, b) n rs c1 b1) (finish (reglobs G c, b) n rs c3 b3) /\
                Gm (back c (stk c) c1, b1) (back (reglobs G c) (stk (reglobs G c)) c3, b3)).
      { intros c1 b1 c3 b3 [Hb1 (G1 & HG1 & Ha1)]. cbn [fst snd] in *. subst b3 c3.
        assert (Hbk : forall k, back (reglobs G c) k (reglobs G1 c1) = reglobs G1 (back c k c1)) by (intros k; destruct c, c1; reflexivity).
        assert (Hgb : forall k, globs (back c k c1) = globs c1) by (intros k; destruct c, c1; reflexivity).
        assert (Hs1 : stk (reglobs G1 c1) = stk c1) by (destruct c1; reflexivity).
        assert (Hs : stk (reglobs G c) = stk c) by (destruct c; reflexivity).
        split.
        - unfold finish. cbn [fst snd]. rewrite Hs1, Hs. destruct (all_ty rs _); cbn [step_rel].
          + rewrite Hbk. apply Gm_intro. rewrite Hgb. exact Ha1.
          + split; [reflexivity|exact Hst0].
        - rewrite Hs, Hbk. apply Gm_intro. rewrite Hgb. exact Ha1. }
      destruct r1 as [[c1 b1]|d1 [c1 b1]|h1 [c1 b1]| |], r2 as [[c3 b3]|d3 [c3 b3]|h3 [c3 b3]| |]; cbn [res_rel] in Hr; try contradiction.
      - cbn [after_call]. apply Hfin, Hr.
      - destruct Hr as [<- Hr]. destruct d1; cbn [after_call]; [apply Hfin, Hr|]. cbn [step_rel]. split; [reflexivity|exact Hst0].
      - destruct Hr as [<- Hr]. destruct h1; cbn [after_call].
        + cbn [step_rel fst]. split; [reflexivity|]. apply Hfin, Hr.
        + apply Hfin, Hr.
        + cbn [step_rel]. split; [reflexivity|exact Hst0].
      - cbn [after_call step_rel]. split; [reflexivity|exact Hst0].
      - cbn [after_call step_rel fst]. split; [reflexivity|]. destruct Hst0 as [_ H]. split; [reflexivity|exact H].
    Qed.

    Lemma call_fn_relg id s t : Gm s t -> step_rel mst halt Gm (call_fn E rb id s) (call_fn E rb id t).
    Proof.
      intros Hst. rewrite !call_fn_eq. pose proof Hst as Hst0.
      destruct s as [c b], t as [c2 b2]. destruct Hst as [Hb (G & HG & Ha)]. cbn [fst snd] in *. subst b2 c2.
      assert (Hs : stk (reglobs G c) = stk c) by (destruct c; reflexivity).
      assert (Hc : forall fr, callee_st (reglobs G c) fr = reglobs G (callee_st c fr)) by (intros fr; destruct c; reflexivity).
      assert (Hg : forall fr, globs (callee_st c fr) = globs c) by (intros fr; destruct c; reflexivity).
      destruct (me_funcs E id) as [[[ti ls] body]|] eqn:Ef; [|cbn [step_rel]; split; [reflexivity|exact Hst0]].
      destruct (me_tys E ti) as [[ps rs]|]; [|cbn [step_rel]; split; [reflexivity|exact Hst0]].
      cbv zeta. rewrite Hs. destruct (all_ty ps _); [|cbn [step_rel]; split; [reflexivity|exact Hst0]].
      apply after_call_relg; [exact Hst0|]. rewrite Hc. apply (H_rb id ti ls body _ _ Ef). apply Gm_intro. rewrite Hg. exact Ha.
    Qed.

    Lemma call_ind_relg ti tb s t : Gm s t -> step_rel mst halt Gm (call_ind E rb ti tb s) (call_ind E rb ti tb t).
    Proof.
      intros Hst. unfold call_ind. pose proof Hst as Hst0.
      destruct s as [c b], t as [c2 b2]. destruct Hst as [Hb (G & HG & Ha)]. cbn [fst snd] in *. subst b2 c2.
      assert (Hs : stk (reglobs G c) = stk c) by (destruct c; reflexivity).
      assert (Hw : forall k, with_stk (reglobs G c) k = reglobs G (with_stk c k)) by (intros k; destruct c; reflexivity).
      assert (Hgw : forall k, globs (with_stk c k) = globs c) by (intros k; destruct c; reflexivity).
      assert (Hwrong : step_rel mst halt Gm (Halt Wrong (c, b)) (Halt Wrong (reglobs G c, b))) by (split; [reflexivity|exact Hst0]).
      assert (Htrap : step_rel mst halt Gm (Halt Trap (c, b)) (Halt Trap (reglobs G c, b))) by (split; [reflexivity|exact Hst0]).
      rewrite Hs. destruct (me_tslot E tb =? 0)%N; [|exact Hwrong].
      destruct (stk c) as [|[i|i] k]; try exact Hwrong.
      destruct (nth_optN i (me_tbl E)) as [[id|]|]; try exact Htrap.
      destruct (me_funcs E id) as [[[tj ls] body]|]; [|exact Hwrong].
      destruct (me_tys E ti) as [[ps rs]|]; [|exact Hwrong].
      destruct (me_tys E tj) as [[ps' rs']|]; [|exact Hwrong].
      destruct (vlist_eqb ps ps' && vlist_eqb rs rs'); [|exact Htrap].
      rewrite Hw. apply call_fn_relg. apply Gm_intro. rewrite Hgw. exact Ha.
    Qed.

    Lemma op_sem_relg : forall cur o s t, (forall i, global_index_of o = Some i -> In (me_gslot E i) U) -> Gm s t ->
      step_rel mst halt Gm (op_sem E rb cur (WOp o) s) (op_sem E rb cur (WOp o) t).
    Proof.
      intros cur o s t HU HR. destruct (is_call o) eqn:Hc.
      - destruct o; try discriminate Hc; cbn [op_sem]; [apply call_fn_relg|apply call_ind_relg]; exact HR.
      - rewrite !(op_sem_noncall E rb cur (WOp o)) by exact Hc.
        destruct HR as [Hb HR]. rewrite Hb. cbn [core_sem].
        pose proof (core_op_relg (me_lslot E cur) (me_gslot E) (me_mslot E) o (fst s) (fst t) HU HR) as Hs.
        destruct (core_op _ _ _ o (fst s)), (core_op _ _ _ o (fst t)); cbn [step_rel lift_step] in *; try contradiction.
        + split; [reflexivity|exact Hs].
        + destruct Hs as [-> Hs]. split; [reflexivity|]. split; [reflexivity|exact Hs].
    Qed.
  End Calls.

  (* THE FRAME LEMMA FOR GLOBALS: every function of the environment mentions only globals whose slots are in [U] *)
  Definition globals_in (E : menv) : Prop :=
    forall id ti ls body, me_funcs E id = Some (ti, ls, body) -> forall i, In i (globals_used body) -> In (me_gslot E i) U.

  Theorem run_body_globals : forall E fuel, globals_in E -> forall k id ti ls body s t, me_funcs E id = Some (ti, ls, body) -> Gm s t ->
    res_rel mst halt Gm (run_body E fuel k id body s) (run_body E fuel k id body t).
  Proof.
    intros E fuel HE. induction k as [|k IH]; intros id ti ls body s t Ef HR; [exact I|].
    cbn [run_body].
    apply (eval_rel mst halt pop_cond_m pop_index_m unwind_m (enter_m (me_tys E)) leave_m
             (op_sem E (run_body E fuel k) id) (arity (me_tys E)) (loop_arity (me_tys E)) Gm
             (fun o => forall i, global_index_of o = Some i -> In (me_gslot E i) U)).
    - apply lift_pop_relg; [apply pop_cond_reglobs|].
      intros c0 a c' H. unfold pop_cond in H. destruct (stk c0) as [|[n|n] k0]; try discriminate H. injection H as _ <-. destruct c0; reflexivity.
    - apply lift_pop_relg; [apply pop_index_reglobs|].
      intros c0 a c' H. unfold pop_index in H. destruct (stk c0) as [|[n|n] k0]; try discriminate H. injection H as _ <-. destruct c0; reflexivity.
    - intros n. apply lift_relg. intros G c0. apply unwind_reglobs.
    - intros bt. apply lift_relg. intros G c0. apply enter_reglobs.
    - apply lift_relg. intros G c0. apply leave_reglobs.
    - intros o Ho s1 t1 HR1. apply op_sem_relg; [|exact Ho|exact HR1]. intros id2 ti2 ls2 body2 s2 t2 Ef2 HR2. exact (IH id2 ti2 ls2 body2 s2 t2 Ef2 HR2).
    - intros o Ho i Hi. apply (HE id ti ls body Ef). exact (globals_used_in body o i Ho Hi).
    - exact HR.
  Qed.

  (* the entry point: results related up to the global stores (which agree on [U]) *)
  Definition ores_rel (a b : option (res st halt)) : Prop :=
    match a, b with Some r1, Some r2 => res_rel st halt Gst r1 r2 | None, None => True | _, _ => False end.
  Theorem run_mod_globals : forall E k fuel f args s0 s0', globals_in E -> Gst s0 s0' ->
    ores_rel (run_mod E k fuel f args s0) (run_mod E k fuel f args s0').
  Proof.
    intros E k fuel f args s0 s0' HE (G & -> & Ha). unfold run_mod.
    assert (He : Gm (entry_st s0 args, false) (entry_st (reglobs G s0) args, false)).
    { assert (H : entry_st (reglobs G s0) args = reglobs G (entry_st s0 args)) by (destruct s0; reflexivity).
      rewrite H. apply Gm_intro. destruct s0; exact Ha. }
    pose proof (call_fn_relg E (run_body E fuel k) (fun id ti ls body s t Ef HR => run_body_globals E fuel HE k id ti ls body s t Ef HR) f _ _ He) as Hs.
    destruct (call_fn E (run_body E fuel k) f (entry_st s0 args, false)) as [[c b]|h [c b]],
             (call_fn E (run_body E fuel k) f (entry_st (reglobs G s0) args, false)) as [[c2 b2]|h2 [c2 b2]]; cbn [step_rel] in Hs; try contradiction.
    - destruct Hs as [Hb Hs]. cbn [fst snd] in Hb, Hs. subst b2. destruct b; [exact I|exact Hs].
    - destruct Hs as [<- [Hb Hs]]. cbn [fst snd] in Hb, Hs. subst b2. destruct b; [exact I|]. split; [reflexivity|exact Hs].
  Qed.
End GlobRel.

(* ================================================================== 2. instantiation when globals are dropped *)
Lemma alookup_app_last k s v : forall L, alookup k (L ++ [(s, v)]) = match alookup k L with Some x => Some x | None => if (k =? s)%N then Some v else None end.
Proof. induction L as [|[k1 v1] L IH]; [reflexivity|]. cbn [app alookup]. destruct (k =? k1)%N; [reflexivity|exact IH]. Qed.

Section DropGlobals.
  Variable rf rg rtb rm : N -> N.
  Variable gslot mslot tslot gslot' mslot' tslot' : N -> N.
  Variable U : list N.       (* the slots of the globals that are KEPT (all the globals anything mentions) *)
  Hypothesis H_gslot : forall g, In (gslot g) U -> gslot' (rg g) = gslot g.
  Hypothesis H_tslot : forall tb, tslot' (rtb tb) = tslot tb.
  Hypothesis H_mslot : forall mi, mslot' (rm mi) = mslot mi.

  (* a constant expression mentions a kept global only *)
  Definition cexpr_in (e : cexpr) : Prop := match e with CGlobalGet g => In (gslot g) U | _ => True end.
  Lemma eval_cexpr_ren_g gl gl' e : agree U gl gl' -> cexpr_in e -> eval_cexpr gslot' gl' (ren_cexpr rg e) = eval_cexpr gslot gl e.
  Proof.
    intros Ha He. destruct e as [z|z|g]; cbn [ren_cexpr eval_cexpr]; [reflexivity|reflexivity|].
    cbn [cexpr_in] in He. rewrite (H_gslot g He). symmetry. apply Ha, He.
  Qed.

  (* [l'] is [l] (whose first global has index [i]) without some globals, the others renamed; the first one of [l'] has index [j].
     A kept global: its slot is in [U], its new index is [rg] of the old one, its initialiser mentions kept globals only;
     a dropped global: its slot is not in [U] *)
  Inductive gdrop : N -> N -> list (valty * bool * cexpr) -> list (valty * bool * cexpr) -> Prop :=
  | gd_nil i j : gdrop i j [] []
  | gd_keep i j t mu e l l' : rg i = j -> In (gslot i) U -> cexpr_in e -> gdrop (i + 1) (j + 1) l l' ->
      gdrop i j ((t, mu, e) :: l) ((t, mu, ren_cexpr rg e) :: l')
  | gd_drop i j d l l' : ~ In (gslot i) U -> gdrop (i + 1) j l l' -> gdrop i j (d :: l) l'.

  Lemma inst_globals_dropped : forall i j l l', gdrop i j l l' -> forall gl gl' gl1, agree U gl gl' ->
    inst_globals gslot i l gl = Some gl1 -> exists gl1', inst_globals gslot' j l' gl' = Some gl1' /\ agree U gl1 gl1'.
  Proof.
    induction 1 as [i j|i j t mu e l l' Hij Hin He _ IH|i j d l l' Hnin _ IH]; intros gl gl' gl1 Ha Hs.
    - cbn [inst_globals] in *. injection Hs as <-. exists gl'. split; [reflexivity|exact Ha].
    - cbn [inst_globals] in *. rewrite (eval_cexpr_ren_g gl gl' e Ha He).
      destruct (eval_cexpr gslot gl e) as [v|]; [|discriminate Hs]. destruct (has_ty t v); [|discriminate Hs].
      assert (Hj : gslot' j = gslot i) by (rewrite <- Hij; apply H_gslot, Hin). rewrite Hj. apply (IH (gl ++ [(gslot i, v)]) (gl' ++ [(gslot i, v)]) gl1); [|exact Hs].
      intros k Hk. rewrite !alookup_app_last, (Ha k Hk). reflexivity.
    - destruct d as [[t mu] e]. cbn [inst_globals] in Hs.
      destruct (eval_cexpr gslot gl e) as [v|]; [|discriminate Hs]. destruct (has_ty t v); [|discriminate Hs].
      apply (IH (gl ++ [(gslot i, v)]) gl' gl1); [|exact Hs].
      intros k Hk. rewrite alookup_app_last, <- (Ha k Hk).
      destruct (alookup k gl); [reflexivity|]. destruct (N.eqb_spec k (gslot i)) as [->|_]; [contradiction|reflexivity].
  Qed.

  Definition eseg_in (s : eseg) : Prop := match s with EActive _ off _ => cexpr_in off | _ => True end.
  Definition dseg_in (s : dseg) : Prop := match s with DActive _ off _ => cexpr_in off | _ => True end.

  Lemma inst_elems_ren_g gl gl' : agree U gl gl' -> forall es, Forall eseg_in es -> forall t,
    inst_elems gslot' tslot' gl' (map (ren_eseg rf rg rtb) es) (map (option_map rf) t) =
    pres_map (map (option_map rf)) (inst_elems gslot tslot gl es t).
  Proof.
    intros Ha. induction es as [|[tb off fs|fs|fs] es IH]; intros HF t; cbn [map ren_eseg inst_elems]; [reflexivity| | |];
      inversion HF as [|x y Hx Hy]; subst; [|apply IH, Hy|apply IH, Hy].
    rewrite H_tslot, (eval_cexpr_ren_g gl gl' off Ha Hx). destruct (tslot tb =? 0)%N; [|reflexivity].
    destruct (eval_cexpr gslot gl off) as [[o|o]|]; try reflexivity.
    unfold tbl_size. rewrite !map_length. destruct (o + N.of_nat (length fs) <=? N.of_nat (length t))%N; [|reflexivity].
    rewrite write_tbl_map. apply IH, Hy.
  Qed.
  Lemma inst_datas_ren_g gl gl' pgs : agree U gl gl' -> forall ds, Forall dseg_in ds -> forall m,
    inst_datas gslot' mslot' gl' pgs (map (ren_dseg rg rm) ds) m = inst_datas gslot mslot gl pgs ds m.
  Proof.
    intros Ha. induction ds as [|[mi off bs|bs] ds IH]; intros HF m; cbn [map ren_dseg inst_datas]; [reflexivity| |];
      inversion HF as [|x y Hx Hy]; subst; [|apply IH, Hy].
    rewrite H_mslot, (eval_cexpr_ren_g gl gl' off Ha Hx). destruct (mslot mi =? 0)%N; [|reflexivity].
    destruct (eval_cexpr gslot gl off) as [[o|o]|]; try reflexivity.
    destruct (o + N.of_nat (length bs) <=? pgs * page_size)%N; [|reflexivity]. apply IH, Hy.
  Qed.

  (* [im'] is [im] renamed, WITHOUT some globals *)
  Record renamed_gc (im im' : imod) : Prop := {
    rc_globals : gdrop 0 0 (im_globals im) (im_globals im');
    rc_mem : im_mem im' = im_mem im;
    rc_table : im_table im' = im_table im;
    rc_elems : im_elems im' = map (ren_eseg rf rg rtb) (im_elems im);
    rc_elems_in : Forall eseg_in (im_elems im);
    rc_datas : im_datas im' = map (ren_dseg rg rm) (im_datas im);
    rc_datas_in : Forall dseg_in (im_datas im);
    rc_start : im_start im' = option_map rf (im_start im)
  }.

  Definition pre_rel (r r' : pres (list (option N) * st)) : Prop :=
    match r, r' with
    | POk p, POk p' => fst p' = map (option_map rf) (fst p) /\ Gst U (snd p) (snd p')
    | PTrap, PTrap | PWrong, PWrong => True
    | _, _ => False
    end.
  Lemma inst_pre_gc im im' gl : renamed_gc im im' -> inst_globals gslot 0 (im_globals im) [] = Some gl ->
    pre_rel (inst_pre im gslot mslot tslot) (inst_pre im' gslot' mslot' tslot').
  Proof.
    intros Hr Hg. unfold inst_pre. rewrite Hg.
    destruct (inst_globals_dropped 0 0 _ _ (rc_globals _ _ Hr) [] [] gl (fun k _ => eq_refl) Hg) as (gl' & Hg' & Ha).
    rewrite Hg'.
    assert (Ht : tbl0 im' = map (option_map rf) (tbl0 im)).
    { unfold tbl0. rewrite (rc_table _ _ Hr). destruct (im_table im) as [[n mx]|]; [|reflexivity]. symmetry. apply map_repeat_none. }
    rewrite (rc_elems _ _ Hr), Ht, (inst_elems_ren_g gl gl' Ha _ (rc_elems_in _ _ Hr)).
    destruct (inst_elems gslot tslot gl (im_elems im) (tbl0 im)) as [tbl| |]; cbn [pres_map pre_rel]; try exact I.
    assert (Hp : pages0 im' = pages0 im) by (unfold pages0; rewrite (rc_mem _ _ Hr); reflexivity).
    assert (Hm : maxp0 im' = maxp0 im) by (unfold maxp0; rewrite (rc_mem _ _ Hr); reflexivity).
    rewrite (rc_datas _ _ Hr), Hp, Hm, (inst_datas_ren_g gl gl' _ Ha _ (rc_datas_in _ _ Hr)).
    destruct (inst_datas gslot mslot gl (pages0 im) (im_datas im) []) as [m| |]; cbn [pre_rel fst snd]; try exact I.
    split; [reflexivity|]. exists gl'. split; [reflexivity|exact Ha].
  Qed.
End DropGlobals.

(* ================================================================== 3. the round trip, up to the dropped globals *)
Definition inst_equiv_gc (U : list N) (cxo : N -> pctx) (ecxo : N -> ectx) (r r' : inst_result) : Prop :=
  match r, r' with
  | IOk E s0, IOk E' s0' => Gst U s0 s0' /\ me_tbl E' = me_tbl E /\ funcs_ok E E' cxo ecxo /\ globals_in U E
  | ITrap, ITrap | IWrong, IWrong | IExhausted, IExhausted => True
  | _, _ => False
  end.
Definition call_rel (U : list N) (a b : call_result) : Prop :=
  match a, b with
  | CRan r1, CRan r2 => ores_rel U r1 r2
  | CInstTrap, CInstTrap | CInstWrong, CInstWrong | CInstExhausted, CInstExhausted => True
  | _, _ => False
  end.

Section InstRoundtripGc.
  Variable im im' : imod.
  Variable lslot lslot' : N -> N -> N.
  Variable fslot gslot mslot tslot fslot' gslot' mslot' tslot' : N -> N.
  Variable cxo : N -> pctx.
  Variable ecxo : N -> ectx.
  Variable rf rg rtb rm : N -> N.
  Variable U : list N.
  Variable gl : list (N * val).
  Notation Eof tbl := (env_of (cmod_of im tbl) lslot fslot gslot mslot tslot).
  Notation Eof' tbl := (env_of (cmod_of im' (map (option_map rf) tbl)) lslot' fslot' gslot' mslot' tslot').

  Hypothesis H_ren : renamed_gc rf rg rtb rm gslot U im im'.
  Hypothesis H_gslot : forall g, In (gslot g) U -> gslot' (rg g) = gslot g.
  Hypothesis H_tslot : forall tb, tslot' (rtb tb) = tslot tb.
  Hypothesis H_mslot : forall mi, mslot' (rm mi) = mslot mi.
  (* the initialisers of the input module evaluate (also those of the globals that are dropped) *)
  Hypothesis H_globals : inst_globals gslot 0 (im_globals im) [] = Some gl.
  (* the functions of the input module mention kept globals only *)
  Hypothesis H_used : forall i ti ls body, nth_optN i (im_funcs im) = Some (ti, ls, body) ->
    forall g, In g (globals_used body) -> In (gslot g) U.
  (* the premises of [mod_roundtrip_equiv_cmod] *)
  Hypothesis H_fslot : forall i, fslot' (rf i) = fslot i.
  Hypothesis H_inj : forall i i2 d d2, nth_optN i (im_funcs im) = Some d -> nth_optN i2 (im_funcs im) = Some d2 ->
    fslot i = fslot i2 -> i = i2.
  Hypothesis H_surj : forall j d', nth_optN j (im_funcs im') = Some d' -> exists i d, nth_optN i (im_funcs im) = Some d /\ rf i = j.
  Hypothesis H_fn : forall tbl i ti ls body, nth_optN i (im_funcs im) = Some (ti, ls, body) ->
    fn_ok (Eof tbl) (Eof' tbl) cxo ecxo (fslot i) body /\
    exists ti' ls', nth_optN (rf i) (im_funcs im') = Some (ti', ls', out_body (cxo (fslot i)) (ecxo (fslot i)) body) /\
                    nth_optN ti' (im_tys im') = nth_optN ti (im_tys im) /\
                    frames_agree (Eof tbl) (Eof' tbl) (fslot i) ti ls ls' body.

  Lemma gc_globals_in tbl : globals_in U (Eof tbl).
  Proof.
    intros id ti ls body Ef g Hg. cbn [me_funcs env_of] in Ef.
    destruct (find_func_some _ _ _ _ Ef) as (i & Hi & _). cbn [me_gslot env_of]. exact (H_used i ti ls body Hi g Hg).
  Qed.
  Lemma Hfo tbl : funcs_ok (Eof tbl) (Eof' tbl) cxo ecxo.
  Proof. exact (inst_funcs_ok im im' lslot lslot' fslot gslot mslot tslot fslot' gslot' mslot' tslot' cxo ecxo rf H_fslot H_inj H_surj H_fn tbl). Qed.
  Lemma Htb tbl : me_tbl (Eof' tbl) = me_tbl (Eof tbl).
  Proof. exact (inst_tbl_eq im im' lslot lslot' fslot gslot mslot tslot fslot' gslot' mslot' tslot' rf H_fslot tbl). Qed.

  Theorem inst_roundtrip_gc : forall fuel k,
    inst_equiv_gc U cxo ecxo (instantiate fuel k im lslot fslot gslot mslot tslot)
                             (instantiate fuel k im' lslot' fslot' gslot' mslot' tslot').
  Proof.
    intros fuel k. unfold instantiate.
    pose proof (inst_pre_gc rf rg rtb rm gslot mslot tslot gslot' mslot' tslot' U H_gslot H_tslot H_mslot im im' gl H_ren H_globals) as Hp.
    destruct (inst_pre im gslot mslot tslot) as [[tbl s0]| |], (inst_pre im' gslot' mslot' tslot') as [[tbl' s0']| |];
      cbn [pre_rel fst snd] in Hp; try contradiction; cbn [inst_equiv_gc]; try exact I.
    destruct Hp as [-> Hs]. rewrite (rc_start _ _ _ _ _ _ _ _ H_ren).
    destruct (im_start im) as [f|]; cbn [option_map].
    - rewrite H_fslot, (mod_roundtrip_equiv (Eof tbl) (Eof' tbl) cxo ecxo (Hfo tbl) (Htb tbl)).
      pose proof (run_mod_globals U (Eof tbl) k fuel (fslot f) [] s0 s0' (gc_globals_in tbl) Hs) as Hr.
      destruct (run_mod (Eof tbl) k fuel (fslot f) [] s0) as [r1|], (run_mod (Eof tbl) k fuel (fslot f) [] s0') as [r2|];
        cbn [ores_rel] in Hr; try contradiction; [|exact I].
      destruct r1 as [c1|d1 c1|h1 c1| |], r2 as [c2|d2 c2|h2 c2| |]; cbn [res_rel] in Hr; try contradiction; cbn [after_start inst_equiv_gc]; try exact I.
      + destruct Hr as (G & -> & Ha).
        assert (Hk : stk (reglobs G c1) = stk c1) by (destruct c1; reflexivity). rewrite Hk.
        destruct (stk c1); cbn [inst_equiv_gc]; [|exact I].
        split; [|split; [apply Htb|split; [apply Hfo|apply gc_globals_in]]].
        exists G. split; [destruct c1; reflexivity|exact Ha].
      + destruct Hr as [<- _]. destruct h1; exact I.
    - cbn [inst_equiv_gc]. split; [exact Hs|]. split; [apply Htb|split; [apply Hfo|apply gc_globals_in]].
  Qed.

  Theorem inst_then_call_roundtrip_gc : forall fuel k k2 fuel2 f args,
    call_rel U (call_after (instantiate fuel k im lslot fslot gslot mslot tslot) k2 fuel2 f args)
               (call_after (instantiate fuel k im' lslot' fslot' gslot' mslot' tslot') k2 fuel2 f args).
  Proof.
    intros fuel k k2 fuel2 f args. pose proof (inst_roundtrip_gc fuel k) as H.
    destruct (instantiate fuel k im lslot fslot gslot mslot tslot) as [E s0| | |],
             (instantiate fuel k im' lslot' fslot' gslot' mslot' tslot') as [E' s0'| | |];
      cbn [inst_equiv_gc] in H; try contradiction; cbn [call_after call_rel]; try exact I.
    destruct H as (Hs & Htbl & Hf & Hg).
    rewrite (mod_roundtrip_equiv E E' cxo ecxo Hf Htbl k2 fuel2 f args s0').
    exact (run_mod_globals U E k2 fuel2 f args s0 s0' Hg Hs).
  Qed.
End InstRoundtripGc.

(* ================================================================== 4. the theorems on a concrete module that loses a global *)
Module RTG.
  Import Ex.
  Local Open Scope N_scope.
  (* the module of [Ex] with an UNUSED i64 global between the two others: global 2 = global.get 0 is the mutable one *)
  Definition apply_b2 : list rt := [ P (W_LocalGet 0); I 1; P (W_CallIndirect 0 0); P (W_GlobalGet 2); P W_I32Add ].
  Definition start_b2 : list rt := [ I 77; P (W_GlobalSet 2); I 8; I 258; P (W_I32Store16 (ma 0)); RNop 0 ].
  Definition im2 : imod :=
    {| im_tys := tys; im_funcs := [ (0, [], inc_b); (0, [], apply_b2); (1, [], start_b2) ];
       im_globals := [ (VT_I32, false, CI32 5); (VT_I64, false, CI64 99); (VT_I32, true, CGlobalGet 0) ];
       im_mem := Some (1, Some 2); im_table := Some (3, None);
       im_elems := [ EActive 0 (CI32 1) [Some 0; None]; EDeclared [Some 1] ];
       im_datas := [ DActive 0 (CI32 65530) [1; 2; 3; 4]; DPassive [9; 9]; DActive 0 (CGlobalGet 0) [200] ];
       im_start := Some 2 |}.
  (* the output: functions rotated, types swapped (as in [RTI]), global 1 DROPPED: global 2 becomes global 1 *)
  Definition rg (i : N) : N := if i =? 2 then 1 else if i =? 1 then 7 else i.
  Definition gslot2' (j : N) : N := if j =? 1 then 2 else j.
  Definition ecx2 : ectx :=
    {| ex_id2i := fun sp i => match sp with S_func => RTI.rf i | S_type => RTI.rt1 i | S_global => rg i | _ => i end; ex_ilen := fun _ => 1 |}.
  Definition cx2 : pctx := RTI.cx1.
  Definition im2' : imod :=
    {| im_tys := [([], []); ([VT_I32], [VT_I32])];
       im_funcs := [ (1, [], out_body cx2 ecx2 apply_b2); (0, [], out_body cx2 ecx2 start_b2); (1, [], out_body cx2 ecx2 inc_b) ];
       im_globals := [ (VT_I32, false, CI32 5); (VT_I32, true, CGlobalGet 0) ];
       im_mem := Some (1, Some 2); im_table := Some (3, None);
       im_elems := [ EActive 0 (CI32 1) [Some 2; None]; EDeclared [Some 0] ];
       im_datas := [ DActive 0 (CI32 65530) [1; 2; 3; 4]; DPassive [9; 9]; DActive 0 (CGlobalGet 0) [200] ];
       im_start := Some 1 |}.
  Example out_bodies2 : (out_body cx2 ecx2 apply_b2, out_body cx2 ecx2 start_b2) =
    ([ P (W_LocalGet 0); I 1; P (W_CallIndirect 1 0); P (W_GlobalGet 1); P W_I32Add ],
     [ I 77; P (W_GlobalSet 1); I 8; I 258; P (W_I32Store16 (ma 0)) ]).
  Proof. vm_compute. reflexivity. Qed.
  Definition U2 : list N := [0; 2].

  Lemma renamed2 : renamed_gc RTI.rf rg idN idN idN U2 im2 im2'.
  Proof.
    constructor; try reflexivity.
    - cbn [im2 im2' im_globals].
      apply (gd_keep rg idN U2 0 0 VT_I32 false (CI32 5)); [reflexivity|cbn; auto|exact Logic.I|].
      apply gd_drop; [cbn; intros [H|[H|[]]]; discriminate H|].
      apply (gd_keep rg idN U2 (0 + 1 + 1) (0 + 1) VT_I32 true (CGlobalGet 0)); [reflexivity|cbn; auto|cbn; auto|].
      apply gd_nil.
    - repeat constructor.
    - repeat constructor.
  Qed.
  Lemma rt1_tys2 i : nth_optN (RTI.rt1 i) (im_tys im2') = nth_optN i (im_tys im2).
  Proof. exact (RTI.rt1_tys i). Qed.

  Notation E2 tbl := (env_of (cmod_of im2 tbl) (fun _ => idN) idN idN idN idN).
  Notation E2' tbl := (env_of (cmod_of im2' (map (option_map RTI.rf) tbl)) (fun _ => idN) RTI.rfi gslot2' idN idN).
  Lemma fn_ok2 tbl : forall id body, In (id, body) [(0, inc_b); (1, apply_b2); (2, start_b2)] ->
    fn_ok (E2 tbl) (E2' tbl) (fun _ => cx2) (fun _ => ecx2) id body.
  Proof.
    intros id body H. apply fn_ok_std; try reflexivity.
    - intros i Hi. cbn [In] in H.
      destruct H as [H|[H|[H|[]]]]; injection H as <- <-; vm_compute in Hi;
        repeat (destruct Hi as [<-|Hi]; [reflexivity|]); destruct Hi.
    - intros f _. apply RTI.rfi_rf.
    - intros i. apply rt1_tys2.
    - cbn [In] in H. destruct H as [H|[H|[H|[]]]]; injection H as <- <-; vm_compute; reflexivity.
    - cbn [In] in H. destruct H as [H|[H|[H|[]]]]; injection H as <- <-; vm_compute; reflexivity.
  Qed.
  Lemma cases2 : forall i ti ls body, nth_optN i (im_funcs im2) = Some (ti, ls, body) ->
    (i, ti, ls, body) = (0, 0, [], inc_b) \/ (i, ti, ls, body) = (1, 0, [], apply_b2) \/ (i, ti, ls, body) = (2, 1, [], start_b2).
  Proof.
    intros i ti ls body Hi. cbn [im2 im_funcs nth_optN] in Hi.
    destruct (N.eqb_spec i 0) as [->|H0]; [injection Hi as <- <- <-; auto|].
    destruct (N.eqb_spec (i - 1) 0) as [E|H1]; [replace i with 1 by lia; injection Hi as <- <- <-; auto|].
    destruct (N.eqb_spec (i - 1 - 1) 0) as [E|H2]; [|discriminate Hi].
    replace i with 2 by lia. injection Hi as <- <- <-. auto.
  Qed.
  Lemma fn2 tbl : forall i ti ls body, nth_optN i (im_funcs im2) = Some (ti, ls, body) ->
    fn_ok (E2 tbl) (E2' tbl) (fun _ => cx2) (fun _ => ecx2) (idN i) body /\
    exists ti' ls', nth_optN (RTI.rf i) (im_funcs im2') = Some (ti', ls', out_body cx2 ecx2 body) /\
                    nth_optN ti' (im_tys im2') = nth_optN ti (im_tys im2) /\
                    frames_agree (E2 tbl) (E2' tbl) (idN i) ti ls ls' body.
  Proof.
    intros i ti ls body Hi. destruct (cases2 i ti ls body Hi) as [H|[H|H]]; injection H as -> -> -> ->.
    - split; [apply fn_ok2; cbn; auto|]. exists 1, []. split; [reflexivity|]. split; [reflexivity|]. apply same_frames_agree. reflexivity.
    - split; [apply fn_ok2; cbn; auto|]. exists 1, []. split; [reflexivity|]. split; [reflexivity|]. apply same_frames_agree. reflexivity.
    - split; [apply fn_ok2; cbn; auto|]. exists 0, []. split; [reflexivity|]. split; [reflexivity|]. apply same_frames_agree. reflexivity.
  Qed.
  Lemma surj2 : forall j d', nth_optN j (im_funcs im2') = Some d' -> exists i d, nth_optN i (im_funcs im2) = Some d /\ RTI.rf i = j.
  Proof.
    intros j d' Hj. cbn [im2' im_funcs nth_optN] in Hj.
    destruct (N.eqb_spec j 0) as [->|H0]; [exists 1; eexists; split; reflexivity|].
    destruct (N.eqb_spec (j - 1) 0) as [E|H1]; [exists 2; eexists; split; [reflexivity|]; unfold RTI.rf; cbn; lia|].
    destruct (N.eqb_spec (j - 1 - 1) 0) as [E|H2]; [exists 0; eexists; split; [reflexivity|]; unfold RTI.rf; cbn; lia|].
    discriminate Hj.
  Qed.
  Lemma used2 : forall i ti ls body, nth_optN i (im_funcs im2) = Some (ti, ls, body) -> forall g, In g (globals_used body) -> In (idN g) U2.
  Proof.
    intros i ti ls body Hi g Hg. destruct (cases2 i ti ls body Hi) as [H|[H|H]]; injection H as -> -> -> ->; vm_compute in Hg;
      repeat (destruct Hg as [<-|Hg]; [cbn; auto|]); destruct Hg.
  Qed.
  Lemma gslot2_ok : forall g, In (idN g) U2 -> gslot2' (rg g) = idN g.
  Proof. intros g H. unfold idN, U2 in *. cbn [In] in H. destruct H as [<-|[<-|[]]]; reflexivity. Qed.

  Theorem rtg_inst : forall fuel k,
    inst_equiv_gc U2 (fun _ => cx2) (fun _ => ecx2) (instantiate fuel k im2 (fun _ => idN) idN idN idN idN)
                                                     (instantiate fuel k im2' (fun _ => idN) RTI.rfi gslot2' idN idN).
  Proof.
    apply (inst_roundtrip_gc im2 im2' (fun _ => idN) (fun _ => idN) idN idN idN idN RTI.rfi gslot2' idN idN (fun _ => cx2) (fun _ => ecx2)
             RTI.rf rg idN idN U2 [(0, VI32 5); (1, VI64 99); (2, VI32 5)]).
    - exact renamed2.
    - exact gslot2_ok.
    - reflexivity.
    - reflexivity.
    - reflexivity.
    - exact used2.
    - intros i. apply RTI.rfi_rf.
    - intros i i2 d d2 _ _ H. exact H.
    - exact surj2.
    - exact fn2.
  Qed.
  Theorem rtg_call : forall fuel k k2 fuel2 f args,
    call_rel U2 (call_after (instantiate fuel k im2 (fun _ => idN) idN idN idN idN) k2 fuel2 f args)
                (call_after (instantiate fuel k im2' (fun _ => idN) RTI.rfi gslot2' idN idN) k2 fuel2 f args).
  Proof.
    apply (inst_then_call_roundtrip_gc im2 im2' (fun _ => idN) (fun _ => idN) idN idN idN idN RTI.rfi gslot2' idN idN (fun _ => cx2) (fun _ => ecx2)
             RTI.rf rg idN idN U2 [(0, VI32 5); (1, VI64 99); (2, VI32 5)]).
    - exact renamed2.
    - exact gslot2_ok.
    - reflexivity.
    - reflexivity.
    - reflexivity.
    - exact used2.
    - intros i. apply RTI.rfi_rf.
    - intros i i2 d d2 _ _ H. exact H.
    - exact surj2.
    - exact fn2.
  Qed.
  (* by computation: the two instances differ exactly in the binding of the dropped global (slot 1) *)
  Example rtg_states :
    (match instantiate 100 8 im2 (fun _ => idN) idN idN idN idN with IOk _ s0 => globs s0 | _ => [] end,
     match instantiate 100 8 im2' (fun _ => idN) RTI.rfi gslot2' idN idN with IOk _ s0 => globs s0 | _ => [] end)
    = ([(0, VI32 5); (1, VI64 99); (2, VI32 77)], [(0, VI32 5); (2, VI32 77)]).
  Proof. vm_compute. reflexivity. Qed.
End RTG.

Print Assumptions run_body_globals.
Print Assumptions run_mod_globals.
Print Assumptions inst_globals_dropped.
Print Assumptions inst_roundtrip_gc.
Print Assumptions inst_then_call_roundtrip_gc.
Print Assumptions RTG.rtg_inst.
Print Assumptions RTG.rtg_call.
