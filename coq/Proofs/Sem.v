(* C01, body level: the normal form of a function body (Model/BodySpec.v) is observationally
   equivalent to the body, for the abstract big-step semantics of Model/Sem.v:
   1. unfolding equations for [nf_rt] / [evt];
   2. [nf_equiv]: same result (fall-through / branch / halt / stuck / out of fuel) and same final
      state, for every state and every fuel; corollaries;
   3. [flat_nf_rt]: the tagged list [nf_list] IS the flattening of the tree-level normal form;
   4. a toy machine showing [eval] is not vacuous;
   5. [nf_equiv_on] / [nf_equiv_renamed_on]: the same with the hypotheses on the operators asked only for the
      operators that occur in the body ([ops_of]). *)
From Coq Require Import List NArith Bool Lia. Import ListNotations.
From WV Require Import Gen.Ops Model.Common Model.IR Model.ParseFn Model.ParseSpec Model.EmitFn
  Model.BodySpec Model.Sem.
From WV Require Import Proofs.ParseFn Proofs.Body.
Local Open Scope nat_scope.

(* ================================================================== 1. unfolding equations *)
Definition nfrl_inner :=
  fix nfl (u : bool) (l : list rt) {struct l} : list rt * bool :=
    match l with
    | [] => ([], u)
    | t :: l' => let '(a, u1) := nf_rt u t in let '(b, u2) := nfl u1 l' in (a ++ b, u2)
    end.
Lemma nfrl_inner_eq l : forall u, nfrl_inner u l = nf_rt_list u l.
Proof.
  induction l as [|t l IH]; intros u; [reflexivity|].
  cbn [nfrl_inner nf_rt_list]. destruct (nf_rt u t) as [a u1].
  fold nfrl_inner. now rewrite IH.
Qed.

Definition keepr (u : bool) (x : rt) : list rt := if u then [] else [x].

Lemma nf_rt_block u bt b l e :
  nf_rt u (RBlock bt b l e) = (keepr u (RBlock bt (fst (nf_rt_list false b)) l e), u).
Proof. rewrite <- nfrl_inner_eq. reflexivity. Qed.
Lemma nf_rt_loop u bt b l e :
  nf_rt u (RLoop bt b l e) = (keepr u (RLoop bt (fst (nf_rt_list false b)) l e), u).
Proof. rewrite <- nfrl_inner_eq. reflexivity. Qed.
Lemma nf_rt_if_none u bt th l e :
  nf_rt u (RIf bt th None l e) =
  (keepr u (RIf bt (fst (nf_rt_list false th)) (Some (default_loc, [])) l e), u).
Proof. rewrite <- nfrl_inner_eq. reflexivity. Qed.
Lemma nf_rt_if_some u bt th le el l e :
  nf_rt u (RIf bt th (Some (le, el)) l e) =
  (keepr u (RIf bt (fst (nf_rt_list false th)) (Some (le, fst (nf_rt_list false el))) l e), u).
Proof. rewrite <- !nfrl_inner_eq. reflexivity. Qed.

Lemma nf_rt_list_cons u t l :
  nf_rt_list u (t :: l) =
  (fst (nf_rt u t) ++ fst (nf_rt_list (snd (nf_rt u t)) l), snd (nf_rt_list (snd (nf_rt u t)) l)).
Proof.
  cbn [nf_rt_list]. destruct (nf_rt u t) as [a u1]. cbn [fst snd].
  destruct (nf_rt_list u1 l) as [b u2]. reflexivity.
Qed.

(* dead code: with [u = true] nothing is kept and the flag stays *)
Lemma nf_rt_dead t : nf_rt true t = ([], true).
Proof. destruct t as [o l|l|d l|d l|ds d l|bt body l e|bt body l e|bt th [[le eb]|] l e]; reflexivity. Qed.
Lemma nf_rt_list_dead l : nf_rt_list true l = ([], true).
Proof.
  induction l as [|t l IH]; [reflexivity|].
  rewrite nf_rt_list_cons, nf_rt_dead. cbn [fst snd]. rewrite IH. reflexivity.
Qed.

(* what [nf_rt] drops when the sequence is still live: exactly the nops *)
Lemma nf_rt_live_nil t : fst (nf_rt false t) = [] -> exists loc, t = RNop loc.
Proof.
  destruct t as [o l|l|d l|d l|ds d l|bt body l e|bt body l e|bt th [[le eb]|] l e]; intros H.
  2: { exists l. reflexivity. }
  all: first [ rewrite nf_rt_block in H | rewrite nf_rt_loop in H | rewrite nf_rt_if_some in H
             | rewrite nf_rt_if_none in H | idtac ];
    cbn in H; discriminate H.
Qed.

(* ================================================================== 2. the semantics *)
Section Machine.
  Variable S : Type.
  Variable halt : Type.
  Variable pop_cond : S -> option (bool * S).
  Variable pop_index : S -> option (N * S).
  Variable unwind : N -> S -> S.
  Variable leave : S -> S.

  Notation res := (res S halt).
  Notation step := (step S halt).
  Notation close := (close S halt leave).

  Lemma close_ext (r : res) f g : (forall s, f s = g s) -> close r f = close r g.
  Proof. intros H. destruct r as [s|[|k] s|h s| |]; cbn [Sem.close]; auto. Qed.

  (* ---------------------------------------------------------------- one semantics *)
  Section One.
    Variable sem : wins -> S -> step.
    Variable enter : blockty -> S -> S.
    Variable arity loop_arity : blockty -> N.
    Variable rr : rt -> S -> res.

    Notation evt := (evt S halt pop_cond pop_index unwind enter leave sem arity loop_arity rr).
    Notation evl := (evl S halt pop_cond pop_index unwind enter leave sem arity loop_arity rr).

    Definition evl_inner :=
      fix evl (l : list rt) (s : S) {struct l} : res :=
        match l with
        | [] => Fall s
        | t :: l' => match evt t s with Fall s' => evl l' s' | r => r end
        end.
    Lemma evl_inner_eq l : forall s, evl_inner l s = evl l s.
    Proof.
      induction l as [|t l IH]; intros s; [reflexivity|].
      cbn [evl_inner Sem.evl]. destruct (evt t s); reflexivity.
    Qed.

    Lemma evt_block bt b l e s :
      evt (RBlock bt b l e) s = close (evl b (enter bt s)) (fun s' => Fall (unwind (arity bt) s')).
    Proof. rewrite <- evl_inner_eq. reflexivity. Qed.
    Lemma evt_loop bt b l e s :
      evt (RLoop bt b l e) s =
      close (evl b (enter bt s)) (fun s' => rr (RLoop bt b l e) (unwind (loop_arity bt) s')).
    Proof. rewrite <- evl_inner_eq. reflexivity. Qed.
    Lemma evt_if bt th el l e s :
      evt (RIf bt th el l e) s =
      match pop_cond s with
      | None => Stuck
      | Some (true, s') => close (evl th (enter bt s')) (fun s'' => Fall (unwind (arity bt) s''))
      | Some (false, s') =>
          close (match el with Some (_, eb) => evl eb (enter bt s') | None => Fall (enter bt s') end)
                (fun s'' => Fall (unwind (arity bt) s''))
      end.
    Proof.
      cbn [Sem.evt]. destruct (pop_cond s) as [[[|] s']|]; [| |reflexivity].
      - fold evl_inner. rewrite evl_inner_eq. reflexivity.
      - destruct el as [[le eb]|]; [|reflexivity]. fold evl_inner. rewrite evl_inner_eq. reflexivity.
    Qed.

    Lemma evl_cons t l s :
      evl (t :: l) s = match evt t s with Fall s' => evl l s' | r => r end.
    Proof. reflexivity. Qed.
    Lemma evl_single t s : evl [t] s = evt t s.
    Proof. cbn [Sem.evl]. destruct (evt t s); reflexivity. Qed.
    Lemma evl_app a : forall b s,
      evl (a ++ b) s = match evl a s with Fall s' => evl b s' | r => r end.
    Proof.
      induction a as [|t a IH]; intros b s; [reflexivity|].
      cbn [app]. rewrite !evl_cons. destruct (evt t s); try reflexivity. apply IH.
    Qed.

    (* a sequence that never falls through makes whatever follows it unreachable *)
    Definition nofall_t (t : rt) : Prop := forall s s', evt t s <> Fall s'.
    Definition nofall (l : list rt) : Prop := forall s s', evl l s <> Fall s'.

    Lemma evl_app_nofall a b s : nofall a -> evl (a ++ b) s = evl a s.
    Proof.
      intros H. rewrite evl_app. destruct (evl a s) eqn:E; try reflexivity.
      exfalso. exact (H _ _ E).
    Qed.
    Lemma nofall_cons_head t l : nofall_t t -> nofall (t :: l).
    Proof.
      intros H s s' E. rewrite evl_cons in E. destruct (evt t s) eqn:Et; try discriminate E.
      exact (H _ _ Et).
    Qed.
    Lemma nofall_cons_tail t l : nofall l -> nofall (t :: l).
    Proof.
      intros H s s' E. rewrite evl_cons in E. destruct (evt t s) eqn:Et; try discriminate E.
      exact (H _ _ E).
    Qed.

    (* `if` without `else` = `if` with an empty `else`: the absent arm is entered and left,
       [leave (enter bt s')], exactly as the empty one *)
    Lemma evt_else_synthesis bt th l e le s :
      evt (RIf bt th None l e) s = evt (RIf bt th (Some (le, [])) l e) s.
    Proof. rewrite !evt_if. reflexivity. Qed.
  End One.

  (* ---------------------------------------------------------------- input vs output semantics *)
  Section Equiv.
    Variable sem_in sem_out : wins -> S -> step.
    Variable enter_in enter_out : blockty -> S -> S.
    Variable arity_in arity_out loop_arity_in loop_arity_out : blockty -> N.

    (* renumbering is unobservable: the trusted interface to the WebAssembly semantics.
       [sem_out (WOp o)] stands for the meaning, in the OUTPUT module, of the re-encoded operator
       [nf_op cx ecx o]; [arity_out bt] for that of [nf_bt cx ecx bt] (see [nf_equiv_renamed]). *)
    Hypothesis H_op : forall o s, sem_out (WOp o) s = sem_in (WOp o) s.
    Hypothesis H_enter : forall bt s, enter_out bt s = enter_in bt s.
    Hypothesis H_arity : forall bt, arity_out bt = arity_in bt.
    Hypothesis H_loop_arity : forall bt, loop_arity_out bt = loop_arity_in bt.
    (* return / unreachable never fall through *)
    Hypothesis H_term : forall o s, marks_unreachable o = true -> exists h s', sem_in (WOp o) s = Halt h s'.

    Notation evt_in := (evt S halt pop_cond pop_index unwind enter_in leave sem_in arity_in loop_arity_in).
    Notation evl_in := (evl S halt pop_cond pop_index unwind enter_in leave sem_in arity_in loop_arity_in).
    Notation evt_out := (evt S halt pop_cond pop_index unwind enter_out leave sem_out arity_out loop_arity_out).
    Notation evl_out := (evl S halt pop_cond pop_index unwind enter_out leave sem_out arity_out loop_arity_out).
    Notation eval_t_in := (eval_t S halt pop_cond pop_index unwind enter_in leave sem_in arity_in loop_arity_in).
    Notation eval_t_out := (eval_t S halt pop_cond pop_index unwind enter_out leave sem_out arity_out loop_arity_out).
    Notation eval_in := (eval S halt pop_cond pop_index unwind enter_in leave sem_in arity_in loop_arity_in).
    Notation eval_out := (eval S halt pop_cond pop_index unwind enter_out leave sem_out arity_out loop_arity_out).
    Notation rr_of_in := (rerun_of S halt pop_cond pop_index unwind enter_in leave sem_in arity_in loop_arity_in).
    Notation rr_of_out := (rerun_of S halt pop_cond pop_index unwind enter_out leave sem_out arity_out loop_arity_out).
    Notation nofall_in := (nofall sem_in enter_in arity_in loop_arity_in).
    Notation nofall_t_in := (nofall_t sem_in enter_in arity_in loop_arity_in).

    (* a tree after which nf marks the sequence unreachable never falls through *)
    Lemma term_nofall rr t : snd (nf_rt false t) = true -> nofall_t_in rr t.
    Proof.
      destruct t as [o l|l|d l|d l|ds d l|bt body l e|bt body l e|bt th [[le eb]|] l e]; intros H s s' E;
        first [ rewrite nf_rt_block in H | rewrite nf_rt_loop in H | rewrite nf_rt_if_some in H
              | rewrite nf_rt_if_none in H | idtac ];
        cbn [nf_rt snd orb] in H; try discriminate H.
      - destruct (H_term o s H) as (h & s1 & Hs). cbn [Sem.evt] in E. rewrite Hs in E. discriminate E.
      - cbn [Sem.evt] in E. discriminate E.
      - cbn [Sem.evt] in E. destruct (pop_index s) as [[i s1]|]; discriminate E.
    Qed.

    (* the flag computed by nf is sound: once set, the prefix never falls through *)
    Lemma flag_nofall rr l : forall u, snd (nf_rt_list u l) = true -> u = true \/ nofall_in rr l.
    Proof.
      induction l as [|t l IH]; intros u H.
      - left. exact H.
      - rewrite nf_rt_list_cons in H. cbn [snd] in H. destruct (IH _ H) as [Hu|Hn].
        + destruct u; [now left|]. right. apply nofall_cons_head, term_nofall, Hu.
        + right. apply nofall_cons_tail, Hn.
    Qed.

    Section Rerun.
      Variable rr_in rr_out : rt -> S -> res.
      Hypothesis H_rr : forall bt b l e s,
        rr_out (RLoop bt (fst (nf_rt_list false b)) l e) s = rr_in (RLoop bt b l e) s.

      Definition Et (t : rt) : Prop := forall s, evl_out rr_out (fst (nf_rt false t)) s = evt_in rr_in t s.
      Definition El (l : list rt) : Prop := forall s, evl_out rr_out (fst (nf_rt_list false l)) s = evl_in rr_in l s.

      Lemma El_of_Forall l : Forall Et l -> El l.
      Proof.
        induction 1 as [|t l Ht Hl IH]; intros s; [reflexivity|].
        rewrite nf_rt_list_cons. cbn [fst]. rewrite evl_app, (Ht s), evl_cons.
        destruct (snd (nf_rt false t)) eqn:Hu.
        - rewrite nf_rt_list_dead. cbn [fst].
          destruct (evt_in rr_in t s) eqn:E; try reflexivity.
          exfalso. exact (term_nofall rr_in t Hu _ _ E).
        - destruct (evt_in rr_in t s); try reflexivity. apply IH.
      Qed.

      Lemma Et_all : forall t, Et t.
      Proof.
        induction t as [o l|l|d l|d l|ds d l|bt body l e HF|bt body l e HF|bt th el l e HFt HFe] using rt_ind';
          intros s.
        - cbn [nf_rt fst]. rewrite evl_single. cbn [Sem.evt]. rewrite H_op. reflexivity.
        - reflexivity.
        - cbn [nf_rt fst]. rewrite evl_single. reflexivity.
        - cbn [nf_rt fst]. rewrite evl_single. reflexivity.
        - cbn [nf_rt fst]. rewrite evl_single. reflexivity.
        - rewrite nf_rt_block. cbn [fst keepr]. rewrite evl_single, !evt_block.
          rewrite H_enter, (El_of_Forall _ HF _). apply close_ext. intros s'. now rewrite H_arity.
        - rewrite nf_rt_loop. cbn [fst keepr]. rewrite evl_single, !evt_loop.
          rewrite H_enter, (El_of_Forall _ HF _). apply close_ext. intros s'. now rewrite H_loop_arity, H_rr.
        - destruct el as [[le eb]|].
          + rewrite nf_rt_if_some. cbn [fst keepr]. rewrite evl_single, !evt_if.
            destruct (pop_cond s) as [[[|] s1]|]; [| |reflexivity].
            * rewrite H_enter, (El_of_Forall _ HFt _). apply close_ext. intros s'. now rewrite H_arity.
            * cbn [optP snd] in HFe. rewrite H_enter, (El_of_Forall _ HFe _).
              apply close_ext. intros s'. now rewrite H_arity.
          + rewrite nf_rt_if_none. cbn [fst keepr]. rewrite evl_single, !evt_if.
            destruct (pop_cond s) as [[[|] s1]|]; [| |reflexivity].
            * rewrite H_enter, (El_of_Forall _ HFt _). apply close_ext. intros s'. now rewrite H_arity.
            * cbn [Sem.evl]. rewrite H_enter. apply close_ext. intros s'. now rewrite H_arity.
      Qed.
      Lemma El_all l : El l.
      Proof. apply El_of_Forall, Forall_forall. intros t _. apply Et_all. Qed.
    End Rerun.

    Lemma eval_t_evt_in fuel t s : eval_t_in fuel t s = evt_in (rr_of_in fuel) t s.
    Proof. destruct fuel; reflexivity. Qed.
    Lemma eval_t_evt_out fuel t s : eval_t_out fuel t s = evt_out (rr_of_out fuel) t s.
    Proof. destruct fuel; reflexivity. Qed.

    Lemma rerun_equiv fuel : forall bt b l e s,
      rr_of_out fuel (RLoop bt (fst (nf_rt_list false b)) l e) s = rr_of_in fuel (RLoop bt b l e) s.
    Proof.
      induction fuel as [|f IH]; intros bt b l e s; [reflexivity|].
      cbn [rerun_of]. rewrite eval_t_evt_in, eval_t_evt_out.
      pose proof (Et_all _ _ IH (RLoop bt b l e) s) as H.
      rewrite nf_rt_loop in H. cbn [fst keepr] in H. rewrite evl_single in H. exact H.
    Qed.

    (* THE EQUIVALENCE: same outcome and same final state, for every state and every fuel *)
    Theorem nf_equiv : forall fuel l s,
      eval_out fuel (fst (nf_rt_list false l)) s = eval_in fuel l s.
    Proof. intros fuel l s. unfold eval. apply El_all, rerun_equiv. Qed.

    (* single trees, e.g. a whole function body wrapped in its implicit block *)
    Theorem nf_equiv_t : forall fuel t s,
      eval_out fuel (fst (nf_rt false t)) s = eval_t_in fuel t s.
    Proof. intros fuel t s. rewrite eval_t_evt_in. unfold eval. apply Et_all, rerun_equiv. Qed.

    (* divergence (running out of any given fuel) is preserved and reflected *)
    Corollary nf_equiv_fuel : forall fuel l s,
      eval_out fuel (fst (nf_rt_list false l)) s = Fuel <-> eval_in fuel l s = Fuel.
    Proof. intros fuel l s. rewrite nf_equiv. reflexivity. Qed.

    (* what follows a non-falling prefix is irrelevant *)
    Theorem eval_app_nofall : forall fuel a b s,
      (forall s0 s', eval_in fuel a s0 <> Fall s') -> eval_in fuel (a ++ b) s = eval_in fuel a s.
    Proof. intros fuel a b s H. unfold eval. apply evl_app_nofall. exact H. Qed.

    (* the prefix after which nf cuts (flag set) never falls through *)
    Theorem nf_cut_nofall : forall fuel l,
      snd (nf_rt_list false l) = true -> forall s s', eval_in fuel l s <> Fall s'.
    Proof.
      intros fuel l H. destruct (flag_nofall (rr_of_in fuel) l false H) as [Hu|Hn]; [discriminate Hu|].
      exact Hn.
    Qed.

    (* every tree of a sequence that nf drops is a nop, or sits after a prefix that never
       falls through (so it is never reached) *)
    Theorem nf_drops_only_dead : forall l1 t l2,
      fst (nf_rt (snd (nf_rt_list false l1)) t) = [] ->
      (exists loc, t = RNop loc) \/
      (forall fuel s s', eval_in fuel l1 s <> Fall s') /\
      (forall fuel s, eval_in fuel (l1 ++ t :: l2) s = eval_in fuel l1 s).
    Proof.
      intros l1 t l2 H. destruct (snd (nf_rt_list false l1)) eqn:Hu.
      - right. split.
        + intros fuel. apply nf_cut_nofall, Hu.
        + intros fuel s. apply eval_app_nofall. apply nf_cut_nofall, Hu.
      - left. apply nf_rt_live_nil, H.
    Qed.
    (* ... and conversely everything after the cut IS dropped *)
    Theorem nf_after_cut_dropped : forall l1 l2,
      snd (nf_rt_list false l1) = true ->
      fst (nf_rt_list false (l1 ++ l2)) = fst (nf_rt_list false l1).
    Proof.
      intros l1 l2. generalize false. induction l1 as [|t l1 IH]; intros u H.
      - cbn [nf_rt_list snd] in H. subst u. cbn [app]. rewrite nf_rt_list_dead. reflexivity.
      - cbn [app]. rewrite !nf_rt_list_cons in *. cbn [fst snd] in *. now rewrite (IH _ H).
    Qed.

    (* an else-less `if` means the same as one with an empty `else` *)
    Theorem else_synthesis : forall fuel bt th l e le s,
      eval_t_in fuel (RIf bt th None l e) s = eval_t_in fuel (RIf bt th (Some (le, [])) l e) s.
    Proof. intros. rewrite !eval_t_evt_in. apply evt_else_synthesis. Qed.
  End Equiv.

  (* ---------------------------------------------------------------- with the renaming made explicit *)
  (* [sem_in] interprets the operators of the INPUT module, [sem_out'] those of the OUTPUT module;
     the output trees carry the original [o] / [bt], so the output semantics first applies the
     re-encoding [nf_op] / [nf_bt] - exactly what [flat'] (Part 3) puts into the emitted stream. *)
  Section Renamed.
    Variable cx : pctx.
    Variable ecx : ectx.
    Variable sem_in sem_out' : wins -> S -> step.
    Variable enter_in enter_out' : blockty -> S -> S.
    Variable arity_in arity_out' loop_arity_in loop_arity_out' : blockty -> N.
    Definition sem_ren (w : wins) : S -> step :=
      match w with WOp o => sem_out' (nf_op cx ecx o) | w => sem_out' w end.
    Hypothesis H_op : forall o s, sem_out' (nf_op cx ecx o) s = sem_in (WOp o) s.
    Hypothesis H_enter : forall bt s, enter_out' (nf_bt cx ecx bt) s = enter_in bt s.
    Hypothesis H_arity : forall bt, arity_out' (nf_bt cx ecx bt) = arity_in bt.
    Hypothesis H_loop_arity : forall bt, loop_arity_out' (nf_bt cx ecx bt) = loop_arity_in bt.
    Hypothesis H_term : forall o s, marks_unreachable o = true -> exists h s', sem_in (WOp o) s = Halt h s'.

    Theorem nf_equiv_renamed : forall fuel l s,
      eval S halt pop_cond pop_index unwind (fun bt => enter_out' (nf_bt cx ecx bt)) leave sem_ren
           (fun bt => arity_out' (nf_bt cx ecx bt)) (fun bt => loop_arity_out' (nf_bt cx ecx bt))
           fuel (fst (nf_rt_list false l)) s
      = eval S halt pop_cond pop_index unwind enter_in leave sem_in arity_in loop_arity_in fuel l s.
    Proof.
      intros fuel l s. apply nf_equiv.
      - intros o s0. cbn [sem_ren]. apply H_op.
      - exact H_enter.
      - exact H_arity.
      - exact H_loop_arity.
      - exact H_term.
    Qed.
  End Renamed.
End Machine.

(* ================================================================== 3. link to the emitted stream *)
Definition swap {A B} (p : A * B) : B * A := (snd p, fst p).

Section FlatNf.
  Variable cx : pctx.
  Variable ecx : ectx.

  Definition Ft (t : rt) : Prop := forall u,
    map swap (fst (nf cx ecx u t)) = flat_list' cx ecx (fst (nf_rt u t)) /\
    snd (nf cx ecx u t) = snd (nf_rt u t).
  Definition Fl (l : list rt) : Prop := forall u,
    map swap (fst (nf_list cx ecx u l)) = flat_list' cx ecx (fst (nf_rt_list u l)) /\
    snd (nf_list cx ecx u l) = snd (nf_rt_list u l).

  Lemma flat_list'_app a b : flat_list' cx ecx (a ++ b) = flat_list' cx ecx a ++ flat_list' cx ecx b.
  Proof. unfold flat_list'. apply flat_map_app. Qed.

  Lemma Fl_of_Forall l : Forall Ft l -> Fl l.
  Proof.
    induction 1 as [|t l Ht Hl IH]; intros u; [split; reflexivity|].
    rewrite nf_list_cons, nf_rt_list_cons. cbn [fst snd].
    destruct (Ht u) as [H1 H2]. rewrite H2. destruct (IH (snd (nf_rt u t))) as [H3 H4].
    split; [|exact H4]. rewrite map_app, flat_list'_app, H1, H3. reflexivity.
  Qed.

  Lemma Ft_all : forall t, Ft t.
  Proof.
    induction t as [o l|l|d l|d l|ds d l|bt body l e HF|bt body l e HF|bt th el l e HFt HFe] using rt_ind';
      intros u.
    - destruct u; split; reflexivity.
    - split; reflexivity.
    - destruct u; split; reflexivity.
    - destruct u; split; reflexivity.
    - destruct u; split; reflexivity.
    - rewrite nf_block, nf_rt_block. cbn [fst snd]. split; [|reflexivity].
      destruct u; [reflexivity|]. cbn [keepr flat_list' flat_map flat' map swap fst snd].
      rewrite app_nil_r, map_app. destruct (Fl_of_Forall _ HF false) as [H _].
      rewrite H. reflexivity.
    - rewrite nf_loop, nf_rt_loop. cbn [fst snd]. split; [|reflexivity].
      destruct u; [reflexivity|]. cbn [keepr flat_list' flat_map flat' map swap fst snd].
      rewrite app_nil_r, map_app. destruct (Fl_of_Forall _ HF false) as [H _].
      rewrite H. reflexivity.
    - destruct el as [[le eb]|].
      + rewrite nf_if_some, nf_rt_if_some. cbn [fst snd]. split; [|reflexivity].
        destruct u; [reflexivity|]. cbn [keepr flat_list' flat_map flat' map swap fst snd].
        rewrite app_nil_r, map_app. cbn [map swap fst snd]. rewrite map_app.
        destruct (Fl_of_Forall _ HFt false) as [H _]. cbn [optP snd] in HFe.
        destruct (Fl_of_Forall _ HFe false) as [H' _]. rewrite H, H'. reflexivity.
      + rewrite nf_if_none, nf_rt_if_none. cbn [fst snd]. split; [|reflexivity].
        destruct u; [reflexivity|]. cbn [keepr flat_list' flat_map flat' map swap fst snd].
        rewrite app_nil_r, map_app. destruct (Fl_of_Forall _ HFt false) as [H _].
        rewrite H. reflexivity.
  Qed.

  (* the tagged list of Model/BodySpec.v IS the flattening of the tree-level normal form *)
  Theorem flat_nf_rt : forall u l,
    map (fun p => (snd p, fst p)) (fst (nf_list cx ecx u l)) = flat_list' cx ecx (fst (nf_rt_list u l)).
  Proof.
    intros u l. apply (Fl_of_Forall l). apply Forall_forall. intros t _. apply Ft_all.
  Qed.
  Theorem flag_nf_rt : forall u l, snd (nf_list cx ecx u l) = snd (nf_rt_list u l).
  Proof.
    intros u l. apply (Fl_of_Forall l). apply Forall_forall. intros t _. apply Ft_all.
  Qed.

  (* hence the operator stream of [nf_body] (what [roundtrip_body] says is emitted) *)
  Corollary nf_body_ops : forall l eloc,
    map snd (nf_body cx ecx l eloc) = map fst (flat_list' cx ecx (fst (nf_rt_list false l))) ++ [WEnd].
  Proof.
    intros l eloc. unfold nf_body. rewrite map_app. cbn [map snd]. f_equal.
    rewrite <- flat_nf_rt, map_map. apply map_ext. intros [a b]. reflexivity.
  Qed.
End FlatNf.

(* the emitted body, end to end: parse then emit outputs the flattening of the tree-level normal
   form (whose evaluation [nf_equiv] relates to that of the source trees) *)
Theorem roundtrip_body_sem : forall cx ecx ety rs l eloc p0,
  wfl cx 1 l ->
  (forall o, decode_plain (px_i2id cx) o <> None -> encode_plain (ex_id2i ecx) (dec cx o) <> None) ->
  exists ar st fuel,
    parse_body cx ety rs (flat_list l ++ [(WEnd, eloc)]) = Ok ar /\
    emit_body ecx fuel ar 0 p0 = Ok st /\
    out st = map fst (flat_list' cx ecx (fst (nf_rt_list false l))) ++ [WEnd].
Proof.
  intros cx ecx ety rs l eloc p0 Hw Henc.
  destruct (roundtrip_body cx ecx ety rs l eloc p0 Hw Henc) as (ar & st & fuel & Hp & He & Ho & _).
  exists ar, st, fuel. split; [exact Hp|]. split; [exact He|]. rewrite Ho. apply nf_body_ops.
Qed.

(* ================================================================== 4. a toy machine *)
(* state = (counter, ticks): every plain operator ticks, except return / unreachable which halt;
   br_if / if pop "counter <> 0" and decrement it; br_table pops the counter as the index. *)
Module Toy.
  Definition St := (nat * nat)%type.
  Definition tsem (w : wins) (s : St) : step St unit :=
    match w with
    | WOp o => if marks_unreachable o then Halt tt s else Next (fst s, Datatypes.S (snd s))
    | _ => Next s
    end.
  Definition tcond (s : St) : option (bool * St) :=
    match fst s with O => Some (false, s) | Datatypes.S k => Some (true, (k, snd s)) end.
  Definition tindex (s : St) : option (N * St) := Some (N.of_nat (fst s), (O, snd s)).
  Definition tunwind (n : N) (s : St) : St := s.
  Definition tenter (bt : blockty) (s : St) : St := s.   (* identity hooks: the semantics without label records *)
  Definition tleave (s : St) : St := s.
  Definition tarity (bt : blockty) : N := 0%N.
  Definition teval := eval St unit tcond tindex tunwind tenter tleave tsem tarity tarity.

  (* block { loop { drop ; nop ; br_if 0 ; drop ; drop } ; br 0 ; drop } ; return ; drop *)
  Definition prog : list rt :=
    [ RBlock BT_Empty
        [ RLoop BT_Empty [RPlain W_Drop 1%N; RNop 2%N; RBrIf 0%N 3%N; RPlain W_Drop 4%N; RPlain W_Drop 5%N] 6%N 7%N;
          RBr 0%N 8%N; RPlain W_Drop 9%N ] 10%N 11%N;
      RPlain W_Return 12%N; RPlain W_Drop 13%N ].

  (* the loop runs counter+1 times: the final state depends on the input *)
  Example run0 : teval 10 prog (0, 0) = Stop tt (0, 3).
  Proof. vm_compute. reflexivity. Qed.
  Example run3 : teval 10 prog (3, 0) = Stop tt (0, 6).
  Proof. vm_compute. reflexivity. Qed.
  (* not enough fuel for 3 re-entries *)
  Example run3_fuel : teval 2 prog (3, 0) = Fuel.
  Proof. vm_compute. reflexivity. Qed.
  (* a branch leaving the forest is reported as such *)
  Example run_br : teval 1 [RIf BT_Empty [RBr 2%N 1%N] None 2%N 3%N; RPlain W_Drop 4%N] (1, 0) = Br 1 (0, 0).
  Proof. vm_compute. reflexivity. Qed.
  Example run_br' : teval 1 [RIf BT_Empty [RBr 2%N 1%N] None 2%N 3%N; RPlain W_Drop 4%N] (0, 0) = Fall (0, 1).
  Proof. vm_compute. reflexivity. Qed.

  (* its normal form: nop, `drop` after `br 0`, `drop` after `return` are gone *)
  Example prog_nf : fst (nf_rt_list false prog) =
    [ RBlock BT_Empty
        [ RLoop BT_Empty [RPlain W_Drop 1%N; RBrIf 0%N 3%N; RPlain W_Drop 4%N; RPlain W_Drop 5%N] 6%N 7%N;
          RBr 0%N 8%N ] 10%N 11%N;
      RPlain W_Return 12%N ].
  Proof. vm_compute. reflexivity. Qed.

  (* [nf_equiv] instantiated: the hypotheses are satisfiable *)
  Theorem toy_equiv : forall fuel l s, teval fuel (fst (nf_rt_list false l)) s = teval fuel l s.
  Proof.
    intros fuel l s. unfold teval. apply nf_equiv; try reflexivity.
    intros o s0 H. exists tt, s0. cbn [tsem]. rewrite H. reflexivity.
  Qed.
End Toy.

(* ================================================================== 5. the equivalence, restricted to the operators that OCCUR *)
(* all plain operators of a tree / forest, recursively - also those in dead code *)
Fixpoint ops_of_t (t : rt) {struct t} : list wop :=
  let ol := fix ol (l : list rt) {struct l} : list wop :=
      match l with [] => [] | x :: l' => ops_of_t x ++ ol l' end in
  match t with
  | RPlain o _ => [o]
  | RBlock _ b _ _ => ol b
  | RLoop _ b _ _ => ol b
  | RIf _ th None _ _ => ol th
  | RIf _ th (Some (_, eb)) _ _ => ol th ++ ol eb
  | _ => []
  end.
Fixpoint ops_of (l : list rt) : list wop :=
  match l with [] => [] | x :: l' => ops_of_t x ++ ops_of l' end.

Definition ops_inner :=
  fix ol (l : list rt) {struct l} : list wop :=
    match l with [] => [] | x :: l' => ops_of_t x ++ ol l' end.
Lemma ops_inner_eq l : ops_inner l = ops_of l.
Proof. induction l as [|t l IH]; [reflexivity|]. cbn [ops_inner ops_of]. fold ops_inner. now rewrite IH. Qed.
Lemma ops_of_block bt b l e : ops_of_t (RBlock bt b l e) = ops_of b.
Proof. rewrite <- ops_inner_eq. reflexivity. Qed.
Lemma ops_of_loop bt b l e : ops_of_t (RLoop bt b l e) = ops_of b.
Proof. rewrite <- ops_inner_eq. reflexivity. Qed.
Lemma ops_of_if_none bt th l e : ops_of_t (RIf bt th None l e) = ops_of th.
Proof. rewrite <- ops_inner_eq. reflexivity. Qed.
Lemma ops_of_if_some bt th le eb l e : ops_of_t (RIf bt th (Some (le, eb)) l e) = ops_of th ++ ops_of eb.
Proof. rewrite <- !ops_inner_eq. reflexivity. Qed.
Lemma ops_of_app a b : ops_of (a ++ b) = ops_of a ++ ops_of b.
Proof. induction a as [|t a IH]; [reflexivity|]. cbn [app ops_of]. now rewrite IH, app_assoc. Qed.

Section MachineOn.
  Variable S : Type.
  Variable halt : Type.
  Variable pop_cond : S -> option (bool * S).
  Variable pop_index : S -> option (N * S).
  Variable unwind : N -> S -> S.
  Variable leave : S -> S.

  Section EquivOn.
    Variable sem_in sem_out : wins -> S -> step S halt.
    Variable enter_in enter_out : blockty -> S -> S.
    Variable arity_in arity_out loop_arity_in loop_arity_out : blockty -> N.
    (* the operators the two hypotheses are asked for *)
    Variable P : wop -> Prop.
    Hypothesis H_op : forall o, P o -> forall s, sem_out (WOp o) s = sem_in (WOp o) s.
    Hypothesis H_enter : forall bt s, enter_out bt s = enter_in bt s.
    Hypothesis H_arity : forall bt, arity_out bt = arity_in bt.
    Hypothesis H_loop_arity : forall bt, loop_arity_out bt = loop_arity_in bt.
    Hypothesis H_term : forall o, P o -> marks_unreachable o = true -> forall s, exists h s', sem_in (WOp o) s = Halt h s'.

    Notation evt_in := (evt S halt pop_cond pop_index unwind enter_in leave sem_in arity_in loop_arity_in).
    Notation evl_in := (evl S halt pop_cond pop_index unwind enter_in leave sem_in arity_in loop_arity_in).
    Notation evt_out := (evt S halt pop_cond pop_index unwind enter_out leave sem_out arity_out loop_arity_out).
    Notation evl_out := (evl S halt pop_cond pop_index unwind enter_out leave sem_out arity_out loop_arity_out).
    Notation eval_t_in := (eval_t S halt pop_cond pop_index unwind enter_in leave sem_in arity_in loop_arity_in).
    Notation eval_t_out := (eval_t S halt pop_cond pop_index unwind enter_out leave sem_out arity_out loop_arity_out).
    Notation eval_in := (eval S halt pop_cond pop_index unwind enter_in leave sem_in arity_in loop_arity_in).
    Notation eval_out := (eval S halt pop_cond pop_index unwind enter_out leave sem_out arity_out loop_arity_out).
    Notation rr_of_in := (rerun_of S halt pop_cond pop_index unwind enter_in leave sem_in arity_in loop_arity_in).
    Notation rr_of_out := (rerun_of S halt pop_cond pop_index unwind enter_out leave sem_out arity_out loop_arity_out).

    Definition OpsT (t : rt) : Prop := forall o, In o (ops_of_t t) -> P o.
    Definition OpsL (l : list rt) : Prop := forall o, In o (ops_of l) -> P o.
    Lemma OpsL_cons t l : OpsL (t :: l) -> OpsT t /\ OpsL l.
    Proof. intros H. split; intros o Ho; apply H; cbn [ops_of]; apply in_or_app; auto. Qed.
    Lemma OpsL_app a b : OpsL (a ++ b) -> OpsL a /\ OpsL b.
    Proof. unfold OpsL. rewrite ops_of_app. intros H. split; intros o Ho; apply H, in_or_app; auto. Qed.

    (* a tree (with its operators in P) after which nf marks the sequence unreachable never falls through *)
    Lemma term_nofall_on rr t : OpsT t -> snd (nf_rt false t) = true -> forall s s', evt_in rr t s <> Fall s'.
    Proof.
      destruct t as [o l|l|d l|d l|ds d l|bt body l e|bt body l e|bt th [[le eb]|] l e]; intros HP H s s' E;
        first [ rewrite nf_rt_block in H | rewrite nf_rt_loop in H | rewrite nf_rt_if_some in H
              | rewrite nf_rt_if_none in H | idtac ];
        cbn [nf_rt snd orb] in H; try discriminate H.
      - assert (Po : P o) by (apply HP; cbn; auto).
        destruct (H_term o Po H s) as (h & s1 & Hs). cbn [Sem.evt] in E. rewrite Hs in E. discriminate E.
      - cbn [Sem.evt] in E. discriminate E.
      - cbn [Sem.evt] in E. destruct (pop_index s) as [[i s1]|]; discriminate E.
    Qed.

    Section RerunOn.
      Variable rr_in rr_out : rt -> S -> res S halt.
      Hypothesis H_rr : forall bt b l e s, OpsL b ->
        rr_out (RLoop bt (fst (nf_rt_list false b)) l e) s = rr_in (RLoop bt b l e) s.

      Definition Et_on (t : rt) : Prop := OpsT t -> forall s, evl_out rr_out (fst (nf_rt false t)) s = evt_in rr_in t s.
      Definition El_on (l : list rt) : Prop := OpsL l -> forall s, evl_out rr_out (fst (nf_rt_list false l)) s = evl_in rr_in l s.

      Lemma El_on_of_Forall l : Forall Et_on l -> El_on l.
      Proof.
        induction 1 as [|t l Ht Hl IH]; intros HP s; [reflexivity|].
        apply OpsL_cons in HP. destruct HP as [HPt HPl].
        rewrite nf_rt_list_cons. cbn [fst]. rewrite evl_app, (Ht HPt s), evl_cons.
        destruct (snd (nf_rt false t)) eqn:Hu.
        - rewrite nf_rt_list_dead. cbn [fst].
          destruct (evt_in rr_in t s) eqn:E; try reflexivity.
          exfalso. exact (term_nofall_on rr_in t HPt Hu _ _ E).
        - destruct (evt_in rr_in t s); try reflexivity. apply IH, HPl.
      Qed.

      Lemma Et_on_all : forall t, Et_on t.
      Proof.
        induction t as [o l|l|d l|d l|ds d l|bt body l e HF|bt body l e HF|bt th el l e HFt HFe] using rt_ind';
          intros HP s.
        - cbn [nf_rt fst]. rewrite evl_single. cbn [Sem.evt]. rewrite H_op; [reflexivity|]. apply HP. cbn. auto.
        - reflexivity.
        - cbn [nf_rt fst]. rewrite evl_single. reflexivity.
        - cbn [nf_rt fst]. rewrite evl_single. reflexivity.
        - cbn [nf_rt fst]. rewrite evl_single. reflexivity.
        - unfold OpsT in HP. rewrite ops_of_block in HP.
          rewrite nf_rt_block. cbn [fst keepr]. rewrite evl_single, !evt_block.
          rewrite H_enter, (El_on_of_Forall _ HF HP _). apply close_ext. intros s'. now rewrite H_arity.
        - unfold OpsT in HP. rewrite ops_of_loop in HP.
          rewrite nf_rt_loop. cbn [fst keepr]. rewrite evl_single, !evt_loop.
          rewrite H_enter, (El_on_of_Forall _ HF HP _). apply close_ext. intros s'.
          rewrite H_loop_arity. apply H_rr. exact HP.
        - destruct el as [[le eb]|].
          + unfold OpsT in HP. rewrite ops_of_if_some in HP.
            assert (HPt : OpsL th) by (intros o Ho; apply HP, in_or_app; auto).
            assert (HPe : OpsL eb) by (intros o Ho; apply HP, in_or_app; auto).
            rewrite nf_rt_if_some. cbn [fst keepr]. rewrite evl_single, !evt_if.
            destruct (pop_cond s) as [[[|] s1]|]; [| |reflexivity].
            * rewrite H_enter, (El_on_of_Forall _ HFt HPt _). apply close_ext. intros s'. now rewrite H_arity.
            * cbn [optP snd] in HFe. rewrite H_enter, (El_on_of_Forall _ HFe HPe _).
              apply close_ext. intros s'. now rewrite H_arity.
          + unfold OpsT in HP. rewrite ops_of_if_none in HP.
            rewrite nf_rt_if_none. cbn [fst keepr]. rewrite evl_single, !evt_if.
            destruct (pop_cond s) as [[[|] s1]|]; [| |reflexivity].
            * rewrite H_enter, (El_on_of_Forall _ HFt HP _). apply close_ext. intros s'. now rewrite H_arity.
            * cbn [Sem.evl]. rewrite H_enter. apply close_ext. intros s'. now rewrite H_arity.
      Qed.
      Lemma El_on_all l : El_on l.
      Proof. apply El_on_of_Forall, Forall_forall. intros t _. apply Et_on_all. Qed.
    End RerunOn.

    Lemma rerun_equiv_on fuel : forall bt b l e s, OpsL b ->
      rr_of_out fuel (RLoop bt (fst (nf_rt_list false b)) l e) s = rr_of_in fuel (RLoop bt b l e) s.
    Proof.
      induction fuel as [|f IH]; intros bt b l e s HP; [reflexivity|].
      cbn [rerun_of]. rewrite eval_t_evt_in, eval_t_evt_out.
      assert (HPt : OpsT (RLoop bt b l e)) by (unfold OpsT; rewrite ops_of_loop; exact HP).
      pose proof (Et_on_all _ _ IH (RLoop bt b l e) HPt s) as H.
      rewrite nf_rt_loop in H. cbn [fst keepr] in H. rewrite evl_single in H. exact H.
    Qed.

    (* THE EQUIVALENCE for a body all of whose operators are in [P] *)
    Theorem nf_equiv_P : forall fuel l s, OpsL l ->
      eval_out fuel (fst (nf_rt_list false l)) s = eval_in fuel l s.
    Proof. intros fuel l s HP. unfold eval. apply El_on_all; [apply rerun_equiv_on|exact HP]. Qed.
  End EquivOn.

  (* the hypotheses on the operators asked only for the operators of THIS body *)
  Theorem nf_equiv_on : forall (sem_in sem_out : wins -> S -> step S halt) (enter_in enter_out : blockty -> S -> S)
      (arity_in arity_out loop_arity_in loop_arity_out : blockty -> N) (l : list rt),
    (forall o, In o (ops_of l) -> forall s, sem_out (WOp o) s = sem_in (WOp o) s) ->
    (forall bt s, enter_out bt s = enter_in bt s) ->
    (forall bt, arity_out bt = arity_in bt) ->
    (forall bt, loop_arity_out bt = loop_arity_in bt) ->
    (forall o, In o (ops_of l) -> marks_unreachable o = true -> forall s, exists h s', sem_in (WOp o) s = Halt h s') ->
    forall fuel s,
      eval S halt pop_cond pop_index unwind enter_out leave sem_out arity_out loop_arity_out fuel (fst (nf_rt_list false l)) s
      = eval S halt pop_cond pop_index unwind enter_in leave sem_in arity_in loop_arity_in fuel l s.
  Proof.
    intros sem_in sem_out enter_in enter_out arity_in arity_out loop_arity_in loop_arity_out l H1 H2 H3 H4 H5 fuel s.
    apply (nf_equiv_P sem_in sem_out enter_in enter_out arity_in arity_out loop_arity_in loop_arity_out
             (fun o => In o (ops_of l))); try assumption; try (intros o Ho; exact Ho).
  Qed.

  Theorem nf_equiv_renamed_on : forall (cx : pctx) (ecx : ectx) (sem_in sem_out' : wins -> S -> step S halt)
      (enter_in enter_out' : blockty -> S -> S)
      (arity_in arity_out' loop_arity_in loop_arity_out' : blockty -> N) (l : list rt),
    (forall o, In o (ops_of l) -> forall s, sem_out' (nf_op cx ecx o) s = sem_in (WOp o) s) ->
    (forall bt s, enter_out' (nf_bt cx ecx bt) s = enter_in bt s) ->
    (forall bt, arity_out' (nf_bt cx ecx bt) = arity_in bt) ->
    (forall bt, loop_arity_out' (nf_bt cx ecx bt) = loop_arity_in bt) ->
    (forall o, In o (ops_of l) -> marks_unreachable o = true -> forall s, exists h s', sem_in (WOp o) s = Halt h s') ->
    forall fuel s,
      eval S halt pop_cond pop_index unwind (fun bt => enter_out' (nf_bt cx ecx bt)) leave (sem_ren S halt cx ecx sem_out')
           (fun bt => arity_out' (nf_bt cx ecx bt)) (fun bt => loop_arity_out' (nf_bt cx ecx bt))
           fuel (fst (nf_rt_list false l)) s
      = eval S halt pop_cond pop_index unwind enter_in leave sem_in arity_in loop_arity_in fuel l s.
  Proof.
    intros cx ecx sem_in sem_out' enter_in enter_out' arity_in arity_out' loop_arity_in loop_arity_out' l H1 H2 H3 H4 H5 fuel s.
    apply nf_equiv_on; try assumption.
  Qed.
End MachineOn.

Print Assumptions nf_equiv.
Print Assumptions nf_equiv_renamed.
Print Assumptions nf_drops_only_dead.
Print Assumptions else_synthesis.
Print Assumptions flat_nf_rt.
Print Assumptions roundtrip_body_sem.
Print Assumptions Toy.toy_equiv.
Print Assumptions nf_equiv_on.
Print Assumptions nf_equiv_renamed_on.
