(* C08, module level: the round trip is a fixpoint  emit (parse (emit (parse w))) = emit (parse w).
   This file: the vocabulary only (frozen; the proofs are in ModFix2.v ... ModFix9.v).
   [X_of] = the payload of a section of kind X; [rebuild w] = the stream in the emitter's section
   order, every kind at most once, built from the payloads of w.  A stream is in CANONICAL SHAPE when
   [rebuild w = w]; two streams in canonical shape are equal as soon as their payloads agree kind by kind. *)
From Coq Require Import List NArith ZArith Bool Arith Lia.
Import ListNotations.
From WV Require Import Gen.Ops Model.Common Model.IR Model.Arena Model.ModuleM Model.ParseM Model.EmitM.
From WV Require Import Proofs.IndexMaps Proofs.Structure Proofs.Structure2.
Local Open Scope nat_scope.

(* already defined: Structure.tables_of mems_of imports_of exports_of globals_of elems_of, Structure2.types_of *)
Definition funcs_of (sec : wsec) : list N := match sec with S_Funcs l => l | _ => [] end.
Definition code_of (sec : wsec) : list wbody := match sec with S_Code l => l | _ => [] end.
Definition datas_of (sec : wsec) : list wdata := match sec with S_Data l => l | _ => [] end.
Definition starts_of (sec : wsec) : list N := match sec with S_Start f => [f] | _ => [] end.
Definition dcounts_of (sec : wsec) : list N := match sec with S_DataCount n => [n] | _ => [] end.
Definition customs_of (sec : wsec) : list wcsec := match sec with S_Custom c => [c] | _ => [] end.

Definition sec_if {A} (mk : list A -> wsec) (l : list A) : list wsec := match l with [] => [] | _ => [mk l] end.

Definition rebuild (w : list wsec) : list wsec :=
  sec_if S_Types (flat_map types_of w) ++ sec_if S_Imports (flat_map imports_of w) ++ sec_if S_Funcs (flat_map funcs_of w) ++
  sec_if S_Tables (flat_map tables_of w) ++ sec_if S_Mems (flat_map mems_of w) ++ sec_if S_Globals (flat_map globals_of w) ++
  sec_if S_Exports (flat_map exports_of w) ++ map S_Start (flat_map starts_of w) ++ sec_if S_Elems (flat_map elems_of w) ++
  map S_DataCount (flat_map dcounts_of w) ++ sec_if S_Code (flat_map code_of w) ++ sec_if S_Data (flat_map datas_of w) ++
  map S_Custom (flat_map customs_of w).

Definition canonical_shape (w : list wsec) : Prop := rebuild w = w.

(* the four premises of the module fixpoint: two consecutive round trips *)
Definition two_trips (cf : config) (ver : str) (w : wmod) (ilen : wins -> N) (s1 : pst) (e1 : emitted) (s2 : pst) (e2 : emitted) : Prop :=
  parseM cf ver w = POk s1 /\ emitM (ps_m s1) ilen [] = Ok e1 /\
  parseM cf ver (em_secs e1) = POk s2 /\ emitM (ps_m s2) ilen [] = Ok e2.

(* the renumbering of a round trip is the identity on an index space *)
Definition rho_id (s : pst) (e : emitted) (S : space) : Prop :=
  forall i, N.to_nat i < length (ids_space (ps_ids s) S) -> rho s e S i = Ok i.
