(* The function-body round trip, end to end:
   A. flattening the parsed IR tree gives exactly the declarative normal form [nf_body];
   B. parse_body followed by emit_body outputs [nf_body] (operators and location map);
   C. facts about the normal form [nf_list]. *)
From Coq Require Import List NArith ZArith Arith Lia Bool. Import ListNotations.
From WV Require Import Gen.Ops Model.Common Model.IR Model.ParseFn Model.ParseSpec
  Model.Traversal Model.EmitFn Model.EmitSpec Model.BodySpec.
From WV Require Proofs.Traversal.
From WV Require Import Proofs.Codec Proofs.ParseFn Proofs.EmitFn.
Open Scope N_scope.

(* ------------------------------------------------------------------ branch depths come back unchanged *)
Lemma position_nth env : forall d k, (d < length env)%nat -> NoDup env ->
  position (nth d env 0) env k = Some (k + N.of_nat d).
Proof.
  induction env as [|x env IH]; intros d k Hd Hnd; cbn [length] in Hd; [lia|].
  inversion Hnd as [|? ? Hx Hnd']; subst.
  destruct d as [|d]; cbn [nth position].
  - rewrite N.eqb_refl. f_equal. lia.
  - destruct (N.eqb x (nth d env 0)) eqn:E.
    + apply N.eqb_eq in E. exfalso. apply Hx. rewrite E. apply nth_In. lia.
    + rewrite IH by (auto; lia). f_equal. lia.
Qed.

Lemma position_nth0 env d : (d < length env)%nat -> NoDup env ->
  position (nth d env 0) env 0 = Some (N.of_nat d).
Proof. intros Hd Hnd. rewrite position_nth by assumption. now rewrite N.add_0_l. Qed.

Lemma depth_of_nth env d : (N.to_nat d < length env)%nat -> NoDup env ->
  depth_of env (nth (N.to_nat d) env 0) = Ok d.
Proof. intros Hd Hnd. unfold depth_of. rewrite position_nth0 by assumption. now rewrite N2Nat.id. Qed.

Lemma depths_of_nth env ds : Forall (fun x => (N.to_nat x < length env)%nat) ds -> NoDup env ->
  depths_of env (map (fun x => nth (N.to_nat x) env 0) ds) = Ok ds.
Proof.
  intros Hds Hnd. induction Hds as [|d ds Hd _ IH]; cbn [map depths_of]; [reflexivity|].
  rewrite depth_of_nth by assumption. cbn [rbind]. rewrite IH. reflexivity.
Qed.

(* ------------------------------------------------------------------ unfolding equations for [nf] *)
Definition nfl_inner (cx : pctx) (ecx : ectx) :=
  fix nfl (u : bool) (l : list rt) {struct l} : list (N * wins) * bool :=
    match l with
    | [] => ([], u)
    | t :: l' => let '(a, u1) := nf cx ecx u t in let '(b, u2) := nfl u1 l' in (a ++ b, u2)
    end.
Lemma nfl_inner_eq cx ecx l : forall u, nfl_inner cx ecx u l = nf_list cx ecx u l.
Proof.
  induction l as [|t l IH]; intros u; [reflexivity|].
  cbn [nfl_inner nf_list]. destruct (nf cx ecx u t) as [a u1].
  fold (nfl_inner cx ecx). now rewrite IH.
Qed.

Lemma nf_block cx ecx u bt b l e : nf cx ecx u (RBlock bt b l e) =
  ((if u then [] else (l, WBlock (nf_bt cx ecx bt)) :: fst (nf_list cx ecx false b) ++ [(e, WEnd)]), u).
Proof. rewrite <- nfl_inner_eq. reflexivity. Qed.
Lemma nf_loop cx ecx u bt b l e : nf cx ecx u (RLoop bt b l e) =
  ((if u then [] else (l, WLoop (nf_bt cx ecx bt)) :: fst (nf_list cx ecx false b) ++ [(e, WEnd)]), u).
Proof. rewrite <- nfl_inner_eq. reflexivity. Qed.
Lemma nf_if_none cx ecx u bt th l e : nf cx ecx u (RIf bt th None l e) =
  ((if u then [] else (l, WIf (nf_bt cx ecx bt)) :: fst (nf_list cx ecx false th) ++ [(default_loc, WElse); (e, WEnd)]), u).
Proof. rewrite <- nfl_inner_eq. reflexivity. Qed.
Lemma nf_if_some cx ecx u bt th le el l e : nf cx ecx u (RIf bt th (Some (le, el)) l e) =
  ((if u then [] else (l, WIf (nf_bt cx ecx bt)) :: fst (nf_list cx ecx false th) ++ (le, WElse) :: fst (nf_list cx ecx false el) ++ [(e, WEnd)]), u).
Proof. rewrite <- !nfl_inner_eq. reflexivity. Qed.

(* ------------------------------------------------------------------ flt_items *)
Lemma flt_items_app ecx env a b x y :
  flt_items ecx env a = Ok x -> flt_items ecx env b = Ok y -> flt_items ecx env (a ++ b) = Ok (x ++ y).
Proof.
  revert x. induction a as [|i a IH]; intros x Ha Hb; cbn [flt_items app] in *.
  - inversion Ha; subst. exact Hb.
  - apply rbind_ok in Ha as (x1 & Hx1 & Ha). apply rmap_ok in Ha as (x2 & Hx2 & ->).
    rewrite Hx1. cbn [rbind]. rewrite (IH x2 Hx2 Hb). cbn [rmap]. now rewrite app_assoc.
Qed.
Lemma flt_items_keep ecx env u it l x :
  flt_item ecx env it l = Ok x -> flt_items ecx env (keep u it l) = Ok (if u then [] else x).
Proof.
  intros H. destruct u; cbn [keep flt_items fst snd]; [reflexivity|].
  rewrite H. cbn [rbind rmap]. now rewrite app_nil_r.
Qed.

(* ================================================================== A *)
Definition envok (env : list N) (n : N) : Prop := NoDup env /\ Forall (fun i => i < n) env.
Lemma envok_push env n a : envok env n -> n <= a -> envok (a :: env) (a + 1).
Proof.
  intros [Hnd Hlt] Hle. split.
  - constructor; [|exact Hnd]. intros Hin. rewrite Forall_forall in Hlt. apply Hlt in Hin. lia.
  - constructor; [lia|]. revert Hlt. apply Forall_impl. intros i Hi. lia.
Qed.
Lemma envok_mono env n n' : envok env n -> n <= n' -> envok env n'.
Proof. intros [Hnd Hlt] Hle. split; [exact Hnd|]. revert Hlt. apply Forall_impl. intros i Hi. lia. Qed.

Section FltParsed.
  Variable cx : pctx.
  Variable ecx : ectx.
  Hypothesis Henc : forall o, decode_plain (px_i2id cx) o <> None -> encode_plain (ex_id2i ecx) (dec cx o) <> None.

  Definition FR (env : list N) (r : list (item * N) * N * bool) (s : list (N * wins) * bool) : Prop :=
    flt_items ecx env (fst (fst r)) = Ok (fst s) /\ snd r = snd s.
  Definition Ft (t : rt) := forall env n u, envok env n -> wf cx (length env) t ->
    FR env (tbuild cx env n u t) (nf cx ecx u t).
  Definition Fl (l : list rt) := forall env n u, envok env n -> wfl cx (length env) l ->
    FR env (tbuild_list cx env n u l) (nf_list cx ecx u l).

  Lemma Fl_of_Forall l : Forall Ft l -> Fl l.
  Proof.
    induction 1 as [|t l Ht Hl IH]; intros env n u He Hw.
    - split; reflexivity.
    - destruct Hw as [Hw1 Hw2]. cbn [tbuild_list nf_list].
      specialize (Ht env n u He Hw1). pose proof (normal_form_item cx t env n u) as M.
      destruct (tbuild cx env n u t) as [[i1 n1] u1]. destruct M as (M & _ & _).
      destruct (nf cx ecx u t) as [a v1]. destruct Ht as [F1 E1]. cbn [fst snd] in F1, E1. subst v1.
      specialize (IH env n1 u1 (envok_mono _ _ _ He M) Hw2).
      destruct (tbuild_list cx env n1 u1 l) as [[i2 n2] u2].
      destruct (nf_list cx ecx u1 l) as [b v2]. destruct IH as [F2 E2]. cbn [fst snd] in F2, E2. subst v2.
      split; cbn [fst snd]; [|reflexivity]. apply flt_items_app; assumption.
  Qed.

  Theorem flt_item_of : forall t, Ft t.
  Proof.
    induction t as [o l|l|d l|d l|ds d l|bt body l e HF|bt body l e HF|bt th el l e HFt HFe] using rt_ind';
      intros env n u He Hw.
    - (* RPlain *)
      cbn [wf] in Hw. cbn [tbuild nf]. split; cbn [fst snd]; [|reflexivity].
      change (if u then [] else [(ItP (dec cx o), l)]) with (keep u (ItP (dec cx o)) l).
      rewrite (flt_items_keep ecx env u _ l [(l, nf_op cx ecx o)]); [destruct u; reflexivity|].
      cbn [flt_item]. unfold nf_op. pose proof (Henc o Hw) as Hne.
      destruct (encode_plain (ex_id2i ecx) (dec cx o)); [reflexivity|now elim Hne].
    - (* RNop *) split; reflexivity.
    - (* RBr *)
      cbn [wf] in Hw. destruct He as [Hnd _]. cbn [tbuild nf]. split; cbn [fst snd]; [|reflexivity].
      change (if u then [] else [(ItBr (nth (N.to_nat d) env 0), l)]) with (keep u (ItBr (nth (N.to_nat d) env 0)) l).
      rewrite (flt_items_keep ecx env u _ l [(l, WBr d)]); [destruct u; reflexivity|].
      cbn [flt_item]. rewrite depth_of_nth by assumption. reflexivity.
    - (* RBrIf *)
      cbn [wf] in Hw. destruct He as [Hnd _]. cbn [tbuild nf]. split; cbn [fst snd]; [|reflexivity].
      change (if u then [] else [(ItBrIf (nth (N.to_nat d) env 0), l)]) with (keep u (ItBrIf (nth (N.to_nat d) env 0)) l).
      rewrite (flt_items_keep ecx env u _ l [(l, WBrIf d)]); [destruct u; reflexivity|].
      cbn [flt_item]. rewrite depth_of_nth by assumption. reflexivity.
    - (* RBrTable *)
      cbn [wf] in Hw. destruct Hw as [Hd Hds]. destruct He as [Hnd _].
      cbn [tbuild nf]. split; cbn [fst snd]; [|reflexivity].
      match goal with |- flt_items _ _ (if u then [] else [(?it, l)]) = _ =>
        change (if u then [] else [(it, l)]) with (keep u it l) end.
      rewrite (flt_items_keep ecx env u _ l [(l, WBrTable ds d)]); [destruct u; reflexivity|].
      cbn [flt_item]. rewrite depth_of_nth by assumption. cbn [rbind].
      rewrite depths_of_nth by assumption. reflexivity.
    - (* RBlock *)
      apply Fl_of_Forall in HF. rewrite wf_block in Hw. destruct Hw as [_ Hw]. rewrite tbuild_block, nf_block.
      specialize (HF (n :: env) (n + 1) false (envok_push _ _ _ He (N.le_refl n)) Hw).
      destruct (tbuild_list cx (n :: env) (n + 1) false body) as [[its n1] u1]. destruct HF as [HF _]. cbn [fst] in HF.
      split; cbn [fst snd]; [|reflexivity].
      erewrite flt_items_keep; [reflexivity|].
      rewrite flt_item_B, flt_tree_T. cbn [tsid titems tend tty]. rewrite HF. reflexivity.
    - (* RLoop *)
      apply Fl_of_Forall in HF. rewrite wf_loop in Hw. destruct Hw as [_ Hw]. rewrite tbuild_loop, nf_loop.
      specialize (HF (n :: env) (n + 1) false (envok_push _ _ _ He (N.le_refl n)) Hw).
      destruct (tbuild_list cx (n :: env) (n + 1) false body) as [[its n1] u1]. destruct HF as [HF _]. cbn [fst] in HF.
      split; cbn [fst snd]; [|reflexivity].
      erewrite flt_items_keep; [reflexivity|].
      rewrite flt_item_L, flt_tree_T. cbn [tsid titems tend tty]. rewrite HF. reflexivity.
    - (* RIf *)
      apply Fl_of_Forall in HFt. rewrite wf_if in Hw. destruct Hw as (_ & Hwt & Hwe). rewrite tbuild_if. cbv zeta.
      specialize (HFt (n :: env) (n + 1) false (envok_push _ _ _ He (N.le_refl n)) Hwt).
      pose proof (tbuild_next_id_mono cx (n :: env) (n + 1) false th) as Ma.
      destruct (tbuild_list cx (n :: env) (n + 1) false th) as [[ic a] uc]. destruct HFt as [HFt _]. cbn [fst] in HFt.
      specialize (Ma _ _ _ eq_refl).
      destruct el as [[le eb]|].
      + cbn [optP snd] in HFe. apply Fl_of_Forall in HFe. rewrite nf_if_some.
        assert (Hna : n <= a) by lia.
        specialize (HFe (a :: env) (a + 1) false (envok_push _ _ _ He Hna) Hwe).
        destruct (tbuild_list cx (a :: env) (a + 1) false eb) as [[ia n2] ua]. destruct HFe as [HFe _]. cbn [fst] in HFe.
        split; cbn [fst snd]; [|reflexivity].
        erewrite flt_items_keep; [reflexivity|].
        rewrite flt_item_I, !flt_tree_T. cbn [tsid titems tend tty]. rewrite HFt, HFe.
        cbn [rmap rbind terminator]. rewrite <- app_assoc. reflexivity.
      + rewrite nf_if_none.
        split; cbn [fst snd]; [|reflexivity].
        erewrite flt_items_keep; [reflexivity|].
        rewrite flt_item_I, !flt_tree_T. cbn [tsid titems tend tty]. rewrite HFt.
        cbn [rmap rbind terminator flt_items app]. rewrite <- app_assoc. reflexivity.
  Qed.

  Lemma flt_list_of : forall l, Fl l.
  Proof. intros l. apply Fl_of_Forall, Forall_forall. intros t _. apply flt_item_of. Qed.
End FltParsed.

(* the generalisation, in the form announced: ids fresh, env duplicate-free *)
Theorem flt_tbuild_list : forall cx ecx env n u l items n' u',
  (forall o, decode_plain (px_i2id cx) o <> None -> encode_plain (ex_id2i ecx) (dec cx o) <> None) ->
  NoDup env -> Forall (fun i => i < n) env -> wfl cx (length env) l ->
  tbuild_list cx env n u l = (items, n', u') ->
  flt_items ecx env items = Ok (fst (nf_list cx ecx u l)) /\ u' = snd (nf_list cx ecx u l).
Proof.
  intros cx ecx env n u l items n' u' Henc Hnd Hlt Hw E.
  pose proof (flt_list_of cx ecx Henc l env n u (conj Hnd Hlt) Hw) as R. rewrite E in R. exact R.
Qed.

Theorem flt_parsed_tree : forall cx ecx ety l eloc,
  wfl cx 1 l ->
  (forall o, decode_plain (px_i2id cx) o <> None -> encode_plain (ex_id2i ecx) (dec cx o) <> None) ->
  flt_tree ecx [] (parsed_tree cx ety l eloc) KEntry = Ok (nf_body cx ecx l eloc).
Proof.
  intros cx ecx ety l eloc Hw Henc. unfold parsed_tree, nf_body.
  assert (He : envok [0] 1).
  { split; [constructor; [intros []|constructor]|]. constructor; [lia|constructor]. }
  pose proof (flt_list_of cx ecx Henc l [0] 1 false He Hw) as R.
  destruct (tbuild_list cx [0] 1 false l) as [[items n1] u1]. destruct R as [R _]. cbn [fst] in R.
  rewrite flt_tree_T. cbn [tsid titems tend]. rewrite R. reflexivity.
Qed.

(* ================================================================== B *)
Lemma parsed_tree_tsid cx ety l eloc : tsid (parsed_tree cx ety l eloc) = 0.
Proof. unfold parsed_tree. destruct (tbuild_list cx [0] 1 false l) as [[items n1] u1]. reflexivity. Qed.

Theorem roundtrip_body : forall cx ecx ety rs l eloc p0,
  wfl cx 1 l ->
  (forall o, decode_plain (px_i2id cx) o <> None -> encode_plain (ex_id2i ecx) (dec cx o) <> None) ->
  exists ar st fuel,
    parse_body cx ety rs (flat_list l ++ [(WEnd, eloc)]) = Ok ar /\
    emit_body ecx fuel ar 0 p0 = Ok st /\
    out st = map snd (nf_body cx ecx l eloc) /\
    imap st = tag_positions ecx p0 (nf_body cx ecx l eloc).
Proof.
  intros cx ecx ety rs l eloc p0 Hw Henc.
  set (t := parsed_tree cx ety l eloc). set (a := parsed_arena cx ety l eloc).
  assert (HD : Den a t) by (apply parsed_arena_den; exact Hw).
  pose proof (Proofs.Traversal.dfs_in_order_spec false a t HD) as Hdfs.
  pose proof (flt_parsed_tree cx ecx ety l eloc Hw Henc) as Hf. fold t in Hf.
  destruct (emit_body_spec ecx a t _ p0 _ HD Hdfs Hf) as (st & He & Ho & Hi).
  unfold t in He at 2. rewrite parsed_tree_tsid in He.
  exists a, st, (S (size t)). split; [|split; [|split]].
  - apply parse_body_arena, Hw.
  - exact He.
  - exact Ho.
  - exact Hi.
Qed.

(* ================================================================== C. normal-form facts *)
Lemma nf_list_cons cx ecx u t l :
  nf_list cx ecx u (t :: l) =
  (fst (nf cx ecx u t) ++ fst (nf_list cx ecx (snd (nf cx ecx u t)) l), snd (nf_list cx ecx (snd (nf cx ecx u t)) l)).
Proof.
  cbn [nf_list]. destruct (nf cx ecx u t) as [a u1]. cbn [fst snd].
  destruct (nf_list cx ecx u1 l) as [b u2]. reflexivity.
Qed.

(* --- nop never occurs --- *)
Section NoNop.
  Variable cx : pctx.
  Variable ecx : ectx.
  Hypothesis Henc : forall o, encode_plain (ex_id2i ecx) (dec cx o) <> None.

  Definition nonop (x : N * wins) : Prop := snd x <> WNop.
  Definition Nn (t : rt) := forall u, Forall nonop (fst (nf cx ecx u t)).
  Definition Nnl (l : list rt) := forall u, Forall nonop (fst (nf_list cx ecx u l)).

  Lemma Nnl_of_Forall l : Forall Nn l -> Nnl l.
  Proof.
    induction 1 as [|t l Ht Hl IH]; intros u.
    - constructor.
    - rewrite nf_list_cons. cbn [fst]. apply Forall_app. split; [apply Ht|apply IH].
  Qed.

  Lemma nonop_keep (u : bool) x : nonop x -> Forall nonop (if u then [] else [x]).
  Proof. intros H. destruct u; repeat constructor. exact H. Qed.

  Theorem nf_no_nop_item : forall t, Nn t.
  Proof.
    induction t as [o l|l|d l|d l|ds d l|bt body l e HF|bt body l e HF|bt th el l e HFt HFe] using rt_ind';
      intros u.
    - cbn [nf fst]. apply nonop_keep. unfold nonop, nf_op. cbn [snd]. pose proof (Henc o) as Hne.
      destruct (encode_plain (ex_id2i ecx) (dec cx o)); [discriminate|now elim Hne].
    - constructor.
    - cbn [nf fst]. apply nonop_keep. unfold nonop. cbn [snd]. discriminate.
    - cbn [nf fst]. apply nonop_keep. unfold nonop. cbn [snd]. discriminate.
    - cbn [nf fst]. apply nonop_keep. unfold nonop. cbn [snd]. discriminate.
    - apply Nnl_of_Forall in HF. rewrite nf_block. cbn [fst]. destruct u; [constructor|].
      constructor; [unfold nonop; cbn [snd]; discriminate|]. apply Forall_app. split; [apply HF|].
      repeat constructor; unfold nonop; cbn [snd]; discriminate.
    - apply Nnl_of_Forall in HF. rewrite nf_loop. cbn [fst]. destruct u; [constructor|].
      constructor; [unfold nonop; cbn [snd]; discriminate|]. apply Forall_app. split; [apply HF|].
      repeat constructor; unfold nonop; cbn [snd]; discriminate.
    - apply Nnl_of_Forall in HFt. destruct el as [[le eb]|].
      + cbn [optP snd] in HFe. apply Nnl_of_Forall in HFe. rewrite nf_if_some. cbn [fst]. destruct u; [constructor|].
        constructor; [unfold nonop; cbn [snd]; discriminate|]. apply Forall_app. split; [apply HFt|].
        constructor; [unfold nonop; cbn [snd]; discriminate|]. apply Forall_app. split; [apply HFe|].
        repeat constructor; unfold nonop; cbn [snd]; discriminate.
      + rewrite nf_if_none. cbn [fst]. destruct u; [constructor|].
        constructor; [unfold nonop; cbn [snd]; discriminate|]. apply Forall_app. split; [apply HFt|].
        repeat constructor; unfold nonop; cbn [snd]; discriminate.
  Qed.
End NoNop.

Theorem nf_no_nop : forall cx ecx u l,
  (forall o, encode_plain (ex_id2i ecx) (dec cx o) <> None) ->
  Forall (fun x => snd x <> WNop) (fst (nf_list cx ecx u l)).
Proof.
  intros cx ecx u l Henc. apply (Nnl_of_Forall cx ecx). apply Forall_forall. intros t _.
  apply nf_no_nop_item, Henc.
Qed.

(* --- dead code is dropped --- *)
Section Dead.
  Variable cx : pctx.
  Variable ecx : ectx.
  Definition Dd (t : rt) := nf cx ecx true t = ([], true).
  Definition Ddl (l : list rt) := nf_list cx ecx true l = ([], true).
  Lemma Ddl_of_Forall l : Forall Dd l -> Ddl l.
  Proof.
    induction 1 as [|t l Ht Hl IH]; [reflexivity|].
    unfold Ddl. rewrite nf_list_cons. unfold Dd in Ht. rewrite Ht. cbn [fst snd].
    unfold Ddl in IH. rewrite IH. reflexivity.
  Qed.
  Theorem nf_dead_item : forall t, Dd t.
  Proof.
    unfold Dd. destruct t as [o l|l|d l|d l|ds d l|bt body l e|bt body l e|bt th [[le eb]|] l e];
      reflexivity.
  Qed.
End Dead.

Theorem nf_dead_dropped : forall cx ecx u l, u = true -> fst (nf_list cx ecx u l) = [].
Proof.
  intros cx ecx u l ->. rewrite (Ddl_of_Forall cx ecx l); [reflexivity|].
  apply Forall_forall. intros t _. apply nf_dead_item.
Qed.
Theorem nf_dead_stays_dead : forall cx ecx u l, u = true -> snd (nf_list cx ecx u l) = true.
Proof.
  intros cx ecx u l ->. rewrite (Ddl_of_Forall cx ecx l); [reflexivity|].
  apply Forall_forall. intros t _. apply nf_dead_item.
Qed.

(* --- every location tag comes from the input (or is the default) --- *)
Section Locs.
  Variable cx : pctx.
  Variable ecx : ectx.
  Definition locin (src : list (wins * N)) (x : N * wins) : Prop :=
    fst x = default_loc \/ In (fst x) (map snd src).
  Definition Lt (t : rt) := forall u, Forall (locin (flat t)) (fst (nf cx ecx u t)).
  Definition Ll (l : list rt) := forall u, Forall (locin (flat_list l)) (fst (nf_list cx ecx u l)).

  Lemma locin_weaken (a b : list (wins * N)) : (forall z, In z (map snd a) -> In z (map snd b)) ->
    forall l, Forall (locin a) l -> Forall (locin b) l.
  Proof. intros H l. apply Forall_impl. intros x [Hx|Hx]; [left; exact Hx|right; apply H, Hx]. Qed.

  Lemma Ll_of_Forall l : Forall Lt l -> Ll l.
  Proof.
    induction 1 as [|t l Ht Hl IH]; intros u.
    - constructor.
    - rewrite nf_list_cons. cbn [fst]. change (flat_list (t :: l)) with (flat t ++ flat_list l).
      apply Forall_app. split.
      + apply (locin_weaken (flat t)); [|apply Ht]. intros z Hz. rewrite map_app. apply in_or_app. now left.
      + apply (locin_weaken (flat_list l)); [|apply IH]. intros z Hz. rewrite map_app. apply in_or_app. now right.
  Qed.

  Ltac in_src :=
    right; cbn [fst]; repeat (rewrite ?map_app, ?in_app_iff; cbn [map snd In]); tauto.
  Ltac sub_src :=
    intros z Hz; repeat (rewrite ?map_app, ?in_app_iff; cbn [map snd In]); tauto.

  Lemma locin_keep (u : bool) src x : locin src x -> Forall (locin src) (if u then [] else [x]).
  Proof. intros H. destruct u; [constructor|constructor; [exact H|constructor]]. Qed.

  Theorem nf_locs_item : forall t, Lt t.
  Proof.
    induction t as [o l|l|d l|d l|ds d l|bt body l e HF|bt body l e HF|bt th el l e HFt HFe] using rt_ind';
      intros u.
    - cbn [nf fst flat]. apply locin_keep. right. cbn. auto.
    - constructor.
    - cbn [nf fst flat]. apply locin_keep. right. cbn. auto.
    - cbn [nf fst flat]. apply locin_keep. right. cbn. auto.
    - cbn [nf fst flat]. apply locin_keep. right. cbn. auto.
    - apply Ll_of_Forall in HF. rewrite nf_block. cbn [fst flat]. fold (flat_list body).
      destruct u; [constructor|].
      constructor; [in_src|]. apply Forall_app. split.
      + apply (locin_weaken (flat_list body)); [sub_src|apply HF].
      + constructor; [in_src|constructor].
    - apply Ll_of_Forall in HF. rewrite nf_loop. cbn [fst flat]. fold (flat_list body).
      destruct u; [constructor|].
      constructor; [in_src|]. apply Forall_app. split.
      + apply (locin_weaken (flat_list body)); [sub_src|apply HF].
      + constructor; [in_src|constructor].
    - apply Ll_of_Forall in HFt. destruct el as [[le eb]|].
      + cbn [optP snd] in HFe. apply Ll_of_Forall in HFe. rewrite nf_if_some. cbn [fst flat].
        fold (flat_list th). fold (flat_list eb). destruct u; [constructor|].
        constructor; [in_src|]. apply Forall_app. split.
        * apply (locin_weaken (flat_list th)); [sub_src|apply HFt].
        * constructor; [in_src|]. apply Forall_app. split.
          -- apply (locin_weaken (flat_list eb)); [sub_src|apply HFe].
          -- constructor; [in_src|constructor].
      + rewrite nf_if_none. cbn [fst flat]. fold (flat_list th). destruct u; [constructor|].
        constructor; [in_src|]. apply Forall_app. split.
        * apply (locin_weaken (flat_list th)); [sub_src|apply HFt].
        * constructor; [left; reflexivity|]. constructor; [in_src|constructor].
  Qed.
End Locs.

Theorem nf_locs_from_input : forall cx ecx u l,
  Forall (fun x => fst x = default_loc \/ In (fst x) (map snd (flat_list l))) (fst (nf_list cx ecx u l)).
Proof.
  intros cx ecx u l. apply (Ll_of_Forall cx ecx). apply Forall_forall. intros t _. apply nf_locs_item.
Qed.

(* --- the re-encoded operator is the input operator with renamed indices --- *)
Theorem nf_op_codec :
  forall (i2id id2i rho : space -> N -> N), (forall s i, id2i s (i2id s i) = rho s i) ->
  forall cx ecx o, px_i2id cx = i2id -> ex_id2i ecx = id2i -> imm_ok o -> ~ known_big_offset o ->
  nf_op cx ecx o = WOp (map_idx rho o).
Proof.
  intros i2id id2i rho Hrho cx ecx o E1 E2 Hi Hb.
  pose proof (codec_roundtrip i2id id2i rho Hrho o Hi Hb) as R. unfold rt_ok in R.
  unfold nf_op, dec. rewrite E1, E2.
  destruct (decode_plain i2id o) as [p|]; [|contradiction]. rewrite R. reflexivity.
Qed.

Print Assumptions flt_parsed_tree.
Print Assumptions roundtrip_body.
Print Assumptions nf_op_codec.
Print Assumptions nf_no_nop.
Print Assumptions nf_dead_dropped.
Print Assumptions nf_locs_from_input.
