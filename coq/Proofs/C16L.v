(* Glue for C16: the traversal theorems of Proofs/Traversal.v specialised with the hook
   shape that the translator reads from crates/macro on every run. *)
From Coq Require Import List NArith Bool Arith Lia Permutation. Import ListNotations.
From WV Require Import Gen.Ops Model.Common Model.IR Model.Traversal Proofs.Traversal.
Local Open Scope nat_scope.

(* The default bodies of the generated per-variant hooks must not re-visit the fields, and
   Instr::visit / visit_mut must call `e.visit(visitor)` after the hook.  These three
   constants are REGENERATED from crates/macro/src/lib.rs and src/ir/mod.rs; if a default hook
   recurses (every operand reported twice) or the fields are no longer visited after the hook
   (no operand reported when the hooks are overridden) the lemma below stops being provable. *)
Lemma hooks_do_not_recurse :
  default_hook_recurses = false /\ default_hook_mut_recurses = false /\ visit_fields_after_hook = true.
Proof. repeat split; vm_compute; reflexivity. Qed.

Lemma ref_count_once i : ref_count false true i = instr_refs i.
Proof. reflexivity. Qed.

Lemma c16_refs_once_l : forall ov t,
  flat_map (fun e => match e with ERef sp id => [(sp, id)] | _ => [] end) (events ov t)
  = flat_map (fun x => instr_refs (fst x)) (instrs_in_order t).
Proof.
  intros ov t. rewrite in_order_refs. destruct hooks_do_not_recurse as [H [_ Ha]].
  rewrite H, Ha, andb_false_r. reflexivity.
Qed.

Lemma c16_mut_refs_once_l : forall ov order,
  flat_map (fun e => match e with ERef sp id => [(sp, id)] | _ => [] end) (flat_map (seq_events_mut ov) order)
  = flat_map (fun t => match t with T _ _ items _ => flat_map (fun x => instr_refs (shallow (fst x))) items end) order.
Proof.
  intros ov order. rewrite pre_order_refs. destruct hooks_do_not_recurse as [_ [H Ha]].
  rewrite H, Ha, andb_false_r. reflexivity.
Qed.

(* the whole mutable traversal, for every tree: defined, visits exactly the sequences of the
   tree (a permutation of them, the root first), operands once *)
Lemma c16_mut_total_l : forall ov ar t, Den ar t ->
  exists order, Permutation order (subtrees t) /\
    dfs_pre_order_mut ov (S (size t)) ar (tsid t) = Ok (flat_map (seq_events_mut ov) order).
Proof.
  intros ov ar t HD. destruct (morder_total t) as [order [Hm Hp]].
  exists order. split; [exact Hp|]. apply dfs_pre_order_mut_spec; assumption.
Qed.
