(* C08, module-level fixpoint, the last open case: names emitted AND synthesised
   (cf_skip_name = false, cf_synthetic_names = true).
   (a) funcs_named_kept_holds   : every named function of the second parse is named in the first emit's name section;
   (b) locals_in_range_bridge   : stream-level executable premise -> state-level ModFix17.locals_in_range;
   (c) locals_named_kept_holds  : every local of the second parse carries the name the first emit wrote for its slot;
   (d) module_fixpoint_all_configs : em_secs e2 = em_secs e1 for EVERY configuration. *)
From Coq Require Import List NArith ZArith Bool Arith Lia Permutation Sorted.
Import ListNotations.
From WV Require Import Gen.Ops Model.Common Model.IR Model.Arena Model.Traversal Model.EmitFn Model.Locals
                       Model.ParseFn Model.ModuleM Model.ParseM Model.EmitM Gen.Attrs.
From WV Require Import Proofs.Arena Proofs.Order Proofs.IndexMaps Proofs.Structure Proofs.Structure2 Proofs.ParseTotal.
From WV Require Import Proofs.Names Proofs.ModFix Proofs.ModFix7.
From WV Require Proofs.ModFix8 Proofs.ModFix13 Proofs.ModFix17 Proofs.ModFix18 Proofs.ModFix19 Proofs.ModFix20 Proofs.ModFix21 Proofs.ModFixEx.
From WV Require Proofs.Locals2 Proofs.Locals3 Proofs.CustomsCfg Proofs.ModFix12 Proofs.ModFix15 Proofs.ModFix16 Proofs.ModFix11
                Proofs.Totality Proofs.TotalityBodies Proofs.Renumbering Proofs.ModFix32 Proofs.ModFix6 Proofs.ParseFn.
From WV Require Import Proofs.ModFix40.
From WV Require Import Model.ParseSpec.
Local Open Scope nat_scope.

(* ====================================================================================== *)
(* (a) functions                                                                            *)
(* ====================================================================================== *)
(* parse invariant: before the name sections are applied an IMPORTED function has no name
   (synthetic names are given to declared local functions only) *)
Definition fni (f : mfunc) : Prop := match fn_kind f with FK_Import _ _ => fn_name f = None | _ => True end.

Lemma parse_imports_fni : forall l m ids m' ids', parse_imports m ids l = POk (m', ids') ->
  Forall fni (items (m_funcs m)) -> Forall fni (items (m_funcs m')).
Proof.
  induction l as [|i r IH]; intros m ids m' ids' E H; cbn [parse_imports] in E; [inversion E; subst; exact H|].
  pinv E as x Ex. destruct x as [m1 ids1]. cbn [fst snd] in E. eapply IH; [exact E|]. clear E IH.
  unfold parse_import in Ex. destruct (wi_kind i).
  - pinv Ex as t Et. wcbn. inversion Ex; subst; clear Ex. wcbn.
    apply Forall_app. split; [exact H|]. repeat constructor.
  - wcbn. inversion Ex; subst; clear Ex. exact H.
  - wcbn. inversion Ex; subst; clear Ex. exact H.
  - wcbn. inversion Ex; subst; clear Ex. exact H.
Qed.
Lemma parse_funcs_fni : forall l m ids m' ids', parse_funcs m ids l = POk (m', ids') ->
  Forall fni (items (m_funcs m)) -> Forall fni (items (m_funcs m')).
Proof.
  induction l as [|i r IH]; intros m ids m' ids' E H; cbn [parse_funcs] in E; [inversion E; subst; exact H|].
  pinv E as t Et. wcbn. eapply IH; [exact E|]; clear E IH; wcbn.
  destruct (synth _ _ _); wcbn; unfold next_id; rewrite ?Nat2N.id, ?aupd_app_r;
    (apply Forall_app; split; [exact H|]; constructor; [|constructor]; unfold fni; cbn; exact I).
Qed.
Lemma parse_sec_fni s sec s' : parse_sec s sec = POk s' ->
  Forall fni (items (m_funcs (ps_m s))) -> Forall fni (items (m_funcs (ps_m s'))).
Proof.
  intros E H. destruct sec;
    try (pose proof (WV.Proofs.Structure2.parse_sec_frameB _ _ _ E) as [_ E3]; rewrite E3; exact H).
  - unfold parse_sec in E. pinv E as x Ex. destruct x as [m1 i1]. inversion E; subst; clear E. wcbn.
    eapply parse_imports_fni; eauto.
  - unfold parse_sec in E. pinv E as x Ex. destruct x as [m1 i1]. inversion E; subst; clear E. wcbn.
    eapply parse_funcs_fni; eauto.
Qed.
Lemma parse_secs_fni : forall w s s', parse_secs s w = POk s' ->
  Forall fni (items (m_funcs (ps_m s))) -> Forall fni (items (m_funcs (ps_m s'))).
Proof.
  induction w as [|x r IH]; intros s s' E H; cbn [parse_secs] in E; [inversion E; subst; exact H|].
  pinv E as s1 E1. eapply IH; [exact E|]. eapply parse_sec_fni; eauto.
Qed.
Lemma install_bodies_fni : forall ps m ids m', install_bodies m ids ps = POk m' ->
  Forall fni (items (m_funcs m)) -> Forall fni (items (m_funcs m')).
Proof.
  induction ps as [|p r IH]; intros m ids m' E H; cbn [install_bodies] in E; [inversion E; subst; exact H|].
  pinv E as lf Elf. eapply IH; [exact E|]. wcbn. unfold aset_at. cbn [items].
  apply WV.Proofs.Names.Forall_upd; [|exact H]. intros x _. exact I.
Qed.

(* the function arena of a parsed module: an arena without named imports, then the name sections *)
Theorem parseM_funcs_structure : forall cf ver w s, parseM cf ver w = POk s ->
  exists m0, ids_consistent m0 (ps_ids s) /\ Forall fni (items (m_funcs m0)) /\
    m_funcs (ps_m s) = apply_names (m_funcs m0) (ii_funcs (ps_ids s)) set_fn_name (flat_map wn_funcs (name_sections w)).
Proof.
  intros cf ver w s HP. pose proof HP as E.
  apply WV.Proofs.CustomsCfg.parseM_inv in E. destruct E as (s1 & m1 & ids1 & prepared & m2 & E1 & E2 & E3 & Es).
  cbv zeta in Es.
  pose proof E1 as I1. apply parse_secs_ids in I1; [|apply idc_empty].
  pose proof E1 as U1. apply parse_secs_un in U1; [|apply un_empty]. destruct U1 as [_ N1]. cbn [ps_names app] in N1.
  assert (F1 : Forall fni (items (m_funcs (ps_m s1)))).
  { eapply parse_secs_fni; [exact E1|]. cbn. constructor. }
  destruct (WV.Proofs.Names.prepare_bodies_uninit _ _ _ _ _ _ _ _ E2) as [Fm _].
  exists m2. split; [|split].
  - rewrite Es. cbn [ps_ids]. eapply install_bodies_idc; [|exact E3]. eapply prepare_bodies_idc; [|exact E2]. exact I1.
  - eapply install_bodies_fni; [exact E3|]. rewrite Fm. exact F1.
  - rewrite Es. wcbn. fold (parse_all_names ids1 (ps_names s1) m2). rewrite all_names_funcs, N1. reflexivity.
Qed.

(* a named function of a parsed module that is not local got its name from a name section of the input *)
Corollary parseM_named_nonlocal cf ver w s i f : parseM cf ver w = POk s ->
  In (i, f) (aiter (m_funcs (ps_m s))) -> fn_name f <> None -> (forall lf, fn_kind f <> FK_Local lf) ->
  (exists a b, fn_kind f = FK_Import a b) -> In i (map fst (flat_map wn_funcs (name_sections w))).
Proof.
  intros HP Hin Hne _ (ia & ib & Hk).
  destruct (parseM_funcs_structure _ _ _ _ HP) as (m0 & I0 & F0 & Ef).
  set (l := flat_map wn_funcs (name_sections w)) in *.
  assert (Il : ii_funcs (ps_ids s) = iota (length (items (m_funcs m0)))) by (unfold ids_consistent in I0; tauto).
  assert (D0 : dead (m_funcs m0) = []) by (unfold ids_consistent in I0; tauto).
  rewrite Il in Ef. rewrite Ef in Hin.
  destruct (apply_names_spec set_fn_name (m_funcs m0) l set_fn_name_idem) as (HL & HD & Hn & _). cbv zeta in HL, HD, Hn.
  rewrite D0 in HD. apply (aiter_nodead _ _ _ HD) in Hin.
  assert (Hlt : N.to_nat i < length (items (m_funcs m0))) by (rewrite <- HL; apply nth_error_Some; congruence).
  destruct (nth_error (items (m_funcs m0)) (N.to_nat i)) as [old|] eqn:Eo; [|apply nth_error_None in Eo; lia].
  rewrite (Hn _ _ Eo), N2Nat.id in Hin.
  destruct (last_name l i) as [nm|] eqn:El.
  - apply last_name_in in El. apply (in_map fst) in El. exact El.
  - exfalso. cbn [renamed] in Hin. inversion Hin; subst f. rewrite Forall_forall in F0.
    specialize (F0 old (nth_error_In _ _ Eo)). unfold fni in F0. rewrite Hk in F0. contradiction.
Qed.

(* the functions below the import count of the re-parsed module are imports *)
Lemma second_imports_kind cf ver w ilen s1 e1 s2 e2 j f :
  two_trips cf ver w ilen s1 e1 s2 e2 -> aget (m_funcs (ps_m s2)) j = Some f ->
  N.to_nat j < length (imported_funcs (ps_m s1)) -> exists a b, fn_kind f = FK_Import a b.
Proof.
  intros TT Hg Hlt. pose proof TT as (P1 & E1 & P2 & E2).
  destruct (WV.Proofs.ModFix6.fn_layout _ _ _ _ _ _ _ _ TT) as [HI _].
  pose proof (parseM_iv _ _ _ _ P2) as IV. destruct IV as (_ & _ & _ & [_ IF]).
  pose proof (parseM_ids _ _ _ _ P2) as Hid.
  assert (D : dead (m_imports (ps_m s2)) = []) by (unfold ids_consistent in Hid; tauto).
  unfold imported_funcs at 1 in HI. unfold live_imports in HI. rewrite (aiter_snd_nodead _ D) in HI.
  fold (ifuncs (items (m_imports (ps_m s2)))) in HI. rewrite HI in IF. rewrite Forall_forall in IF.
  assert (Hin : In j (iota (length (imported_funcs (ps_m s1))))).
  { eapply nth_error_In. rewrite (iota_nth _ _ Hlt), N2Nat.id. reflexivity. }
  destruct (IF _ Hin) as (v & Hv & Hp). apply aget_nth in Hg. rewrite Hg in Hv. inversion Hv; subst v.
  unfold is_imp_fn in Hp. destruct (fn_kind f); try contradiction. eauto.
Qed.

(* (a) *)
Theorem funcs_named_kept_holds : forall cf ver w ilen s1 e1 s2 e2,
  two_trips cf ver w ilen s1 e1 s2 e2 -> valid_stream w -> cf_synthetic_names cf = true -> cf_skip_name cf = false ->
  ModFix21.funcs_named_kept s2 (stream_names (em_secs e1)).
Proof.
  intros cf ver w ilen s1 e1 s2 e2 TT _ Hsyn Hskip i f Hin Hne. pose proof TT as (P1 & E1 & P2 & E2).
  destruct (emitted_names_canonical_s _ _ _ _ _ _ P1 E1 Hskip) as (s_nm1 & En1 & Hpay1 & Hsec1 & Hs1 & _).
  rewrite (stream_names_of _ _ Hpay1 Hs1).
  pose proof (parseM_ids _ _ _ _ P2) as Hid.
  assert (D : dead (m_funcs (ps_m s2)) = []) by (unfold ids_consistent in Hid; tauto).
  assert (IF : ii_funcs (ps_ids s2) = iota (length (items (m_funcs (ps_m s2))))) by (unfold ids_consistent in Hid; tauto).
  pose proof Hin as Hg. apply (aiter_nodead _ _ _ D) in Hg.
  assert (Hlt : N.to_nat i < length (items (m_funcs (ps_m s2)))) by (apply nth_error_Some; congruence).
  destruct (emitM_x2i _ _ _ _ E1) as (fs1 & Hfs1 & _).
  pose proof (WV.Proofs.ModFix12.second_funcs_count _ _ _ _ _ _ _ E1 P2 Hfs1) as Hcnt. rewrite imported_funcs_eq in Hcnt.
  rewrite IF, iota_length in Hcnt.
  destruct (Nat.lt_ge_cases (N.to_nat i) (length (imported_funcs (ps_m s1)))) as [Hi|Hi].
  - (* an import: its name comes from the name section *)
    assert (Hga : aget (m_funcs (ps_m s2)) i = Some f) by (apply WV.Proofs.Totality.aiter_aget; exact Hin).
    destruct (second_imports_kind _ _ _ _ _ _ _ _ _ _ TT Hga Hi) as (a & b & Hk).
    pose proof (parseM_named_nonlocal _ _ _ _ _ _ P2 Hin Hne) as K.
    rewrite Hsec1, (sections_of _ Hs1 wn_funcs eq_refl) in K. apply K; [intros lf; congruence|eauto].
  - (* a local function: it is the image of a (named) local function of the first module *)
    set (k := N.to_nat i - length (imported_funcs (ps_m s1))).
    assert (Hk : k < length fs1) by (unfold k; lia).
    destruct (nth_error fs1 k) as [[id lf1]|] eqn:Hp; [|apply nth_error_None in Hp; lia].
    destruct (WV.Proofs.ModFix15.fs1_nth _ _ _ _ _ _ _ _ _ _ _ _ TT Hfs1 Hp) as ((f1 & Hg1 & Hk1) & Hj & _).
    assert (Ej : N.of_nat (length (imported_funcs (ps_m s1)) + k) = i) by (unfold k; lia). rewrite Ej in Hj.
    pose proof (parseM_local_func_named _ _ _ _ _ _ _ P1 Hsyn Hg1 Hk1) as Hn1.
    destruct (fn_name f1) as [nm|] eqn:En; [|contradiction].
    apply emit_names_fields in En1. destruct En1 as (_ & Nf & _).
    destruct (named_spec _ _ _ _ _ Nf) as (_ & _ & Tot & _).
    destruct (Tot id f1 nm (proj2 (WV.Proofs.Totality.aiter_aget _ _ _) Hg1) En) as (j & Hj' & Hinj).
    rewrite Hj in Hj'. inversion Hj'; subst j. apply (in_map fst) in Hinj. exact Hinj.
Qed.

(* ====================================================================================== *)
(* (c) locals, from the state-level premise ModFix17.locals_in_range s1                     *)
(* ====================================================================================== *)
Lemma find_by_key {A} (key : A -> N) : forall (l : list A) k x, NoDup (map key l) -> nth_error l k = Some x ->
  find (fun y => N.eqb (key y) (key x)) l = Some x.
Proof.
  induction l as [|a l IH]; intros k x ND Hk; [destruct k; discriminate|].
  cbn [map] in ND. inversion ND; subst. destruct k as [|k]; cbn [nth_error] in Hk; cbn [find].
  - inversion Hk; subst. rewrite N.eqb_refl. reflexivity.
  - destruct (N.eqb_spec (key a) (key x)) as [E|_]; [|eapply IH; eauto].
    exfalso. apply H1. rewrite E. apply in_map. eapply nth_error_In; exact Hk.
Qed.

(* every slot of an emitted function is the slot of an emitted local (a parameter or a used local) *)
Lemma slot_hit ty args used decls lmap p : NoDup args ->
  emit_locals ty args used = (decls, lmap) -> p < length args + length (expand_locals decls) ->
  exists id, In id (used ++ args) /\ local_index lmap id = Some (N.of_nat p).
Proof.
  intros ND E Hp.
  destruct (Nat.lt_ge_cases p (length args)) as [Ha|Ha].
  - destruct (nth_error args p) as [id|] eqn:Hn; [|apply nth_error_None in Hn; lia].
    exists id. split; [apply in_or_app; right; eapply nth_error_In; exact Hn|].
    apply (WV.Proofs.ModFix11.emit_locals_index_iff ty args used decls lmap ND E).
    destruct (WV.Proofs.ModFix11.emit_locals_decls_grouped ty _ _ _ _ E) as (_ & _ & _ & _ & _ & _ & _ & Hm).
    rewrite Hm, <- app_length.
    apply (WV.Proofs.ModFix11.nth_error_in_combine N.of_nat _ 0 p id). rewrite nth_error_app1 by exact Ha. exact Hn.
  - destruct (WV.Proofs.ModFix11.emit_locals_slots_bij ty _ _ _ _ E) as (_ & Hb).
    destruct (Hb (p - length args)) as (id & Hu & _ & _ & Hin & _); [lia|].
    replace (length args + (p - length args)) with p in Hin by lia.
    exists id. split; [apply in_or_app; left; exact Hu|].
    apply (WV.Proofs.ModFix11.emit_locals_index_iff ty args used decls lmap ND E). exact Hin.
Qed.

(* with synthetic names every local name the first emit writes is non-empty *)
Lemma emitted_local_names_nonempty cf ver w ilen s e s_nm fi names slot n :
  parseM cf ver w = POk s -> emitM (ps_m s) ilen [] = Ok e -> cf_synthetic_names cf = true ->
  emit_names (ps_m s) (em_x2i e) (em_fns e) = Ok s_nm ->
  In (fi, names) (wn_locals (names_of s_nm)) -> In (slot, n) names -> n <> [].
Proof.
  intros HP HE Hsyn En H1 H2. destruct (local_names_emit_partial _ _ _ _ En) as [A B].
  apply A in H1. destruct H1 as (fid & f & ef & _ & _ & _ & _ & ->).
  apply B in H2. destruct H2 as (lid & lo & q & _ & Hg & Hn & _).
  destruct (parseM_local_named _ _ _ _ _ _ HP Hsyn Hg) as (n' & Hn' & Hne). congruence.
Qed.

Lemma flat_map_ext_in' {A B} (f g : A -> list B) : forall l, (forall a, In a l -> f a = g a) -> flat_map f l = flat_map g l.
Proof.
  induction l as [|a l IH]; intros H; [reflexivity|]. cbn [flat_map]. rewrite (H a (or_introl eq_refl)), IH; [reflexivity|].
  intros b Hb. apply H. right. exact Hb.
Qed.

(* hence dropping empty names (what the parser does under synthetic names) drops nothing *)
Lemma loc_entries_syn_eq ids (L : list (N * namemap)) :
  (forall fi names slot n, In (fi, names) L -> In (slot, n) names -> n <> []) ->
  loc_entries true ids L = loc_entries false ids L.
Proof.
  intros H. unfold loc_entries. apply flat_map_ext_in'. intros [fi names] Hin. unfold fn_entries. cbn [fst snd].
  destruct (nth_N (ii_funcs ids) fi) as [fid0|]; [|reflexivity]. f_equal.
  rewrite (filter_all (fun q : N * nstr => negb (false && str_empty (snd q)))) by (intros; reflexivity).
  apply filter_all. intros [slot n] Hq. cbn [snd andb]. specialize (H fi names slot n Hin Hq).
  destruct n; [contradiction|reflexivity].
Qed.

(* (c), state-level premise *)
Theorem locals_named_kept_state : forall cf ver w ilen s1 e1 s2 e2,
  two_trips cf ver w ilen s1 e1 s2 e2 -> valid_stream w -> ModFix17.locals_in_range s1 ->
  cf_synthetic_names cf = true -> cf_skip_name cf = false ->
  locals_named_kept s2 (stream_names (em_secs e1)).
Proof.
  intros cf ver w ilen s1 e1 s2 e2 TT V LR Hsyn Hskip fid lid lo Hv Hg. pose proof TT as (P1 & E1 & P2 & E2).
  destruct (emitted_names_canonical_s _ _ _ _ _ _ P1 E1 Hskip) as (s_nm1 & En1 & Hpay1 & Hsec1 & Hs1 & _).
  rewrite (stream_names_of _ _ Hpay1 Hs1).
  set (L1 := wn_locals (names_of s_nm1)) in *. set (ids := ps_ids s2) in *.
  assert (NE : forall fi names slot n, In (fi, names) L1 -> In (slot, n) names -> n <> []).
  { intros fi names slot n. apply (emitted_local_names_nonempty _ _ _ _ _ _ _ _ _ _ _ P1 E1 Hsyn En1). }
  (* what the second parse gives the local *)
  destruct (parseM_local_names _ _ _ _ _ _ P2 Hg) as [K _].
  unfold local_entries in K. rewrite Hsec1, Hsyn in K.
  rewrite (sections_of _ Hs1 (fun n => loc_entries true (ps_ids s2) (wn_locals n)) eq_refl) in K.
  fold L1 in K. fold ids in K. rewrite (loc_entries_syn_eq ids L1 NE) in K.
  (* it suffices to find an entry *)
  cut (exists n, last_name (loc_entries false ids L1) lid = Some n).
  { intros (n & Hn). rewrite Hn. apply K. exact Hn. }
  pose proof (ModFix20.params_kept_17 _ _ _ _ _ _ _ _ TT) as PK.
  pose proof (WV.Proofs.ModFix15.W_holds_V _ _ _ _ _ _ _ _ TT V) as HW.
  destruct (ModFix19.locals_struct_holds _ _ _ _ _ _ _ _ TT) as (Dis & NDv & _ & FE). cbv zeta in Dis, NDv, FE. fold ids in Dis, NDv, FE.
  destruct (ModFix19.parse_locals_struct _ _ _ _ _ _ P1 E1) as (_ & _ & Alloc1 & _). cbv zeta in Alloc1.
  pose proof (ModFix17.locals_canon_proved _ _ _ _ _ _ _ _ TT V PK) as LC.
  unfold locals_canon in LC. rewrite (stream_names_of _ _ Hpay1 Hs1) in LC. fold L1 in LC. fold ids in LC.
  pose proof (emit_names_locals_sorted _ _ _ _ En1 (parsed_wf_funcs _ _ _ _ _ _ _ P1 E1)) as S1. fold L1 in S1.
  pose proof (parseM_ids _ _ _ _ P2) as I. unfold ids_consistent in I. fold ids in I.
  destruct I as (If & _ & _ & _ & _ & _ & Df & _). set (nf := length (items (m_funcs (ps_m s2)))) in *.
  (* the function of the second module that owns the local, and the one it came from *)
  assert (Hne : locals_vec ids fid <> []) by (intros C; rewrite C in Hv; destruct Hv).
  destruct (FE fid Hne) as (f2 & ef2 & Ha2 & Hfind2).
  assert (Hlt : N.to_nat fid < nf).
  { apply (aiter_nodead _ _ _ Df) in Ha2. apply nth_error_Some. congruence. }
  apply find_some in Hfind2. destruct Hfind2 as (Hin2 & Hid2). apply N.eqb_eq in Hid2.
  destruct (emitM_x2i _ _ _ _ E2) as (fs2 & Hfs2 & _).
  destruct (WV.Proofs.ModFix12.emit_code_payload _ _ _ _ E2 Hfs2) as (_ & F2 & _ & _).
  destruct (In_nth_error _ _ Hin2) as (k2 & Hk2n).
  destruct (ModFix17.Forall2_nth_r _ _ _ F2 _ _ Hk2n) as ([fid' lf2] & Hp2 & Hem2). cbn [fst snd] in Hem2.
  destruct (WV.Proofs.ModFix12.emit_function_inv _ _ _ _ _ _ Hem2) as (_ & _ & _ & _ & _ & _ & _ & _ & _ & Hid' & _).
  rewrite Hid2 in Hid'. subst fid'.
  destruct (ulf_in _ _ _ _ Hfs2 (nth_error_In _ _ Hp2)) as (f2' & Hin2' & Hkind2).
  apply WV.Proofs.Totality.aiter_aget in Hin2'.
  destruct (emitM_x2i _ _ _ _ E1) as (fs1 & Hfs1 & _).
  destruct (WV.Proofs.ModFix12.emit_code_payload _ _ _ _ E1 Hfs1) as (_ & F1 & Hids1 & Hlen).
  pose proof (WV.Proofs.ModFix12.second_funcs_count _ _ _ _ _ _ _ E1 P2 Hfs1) as Hcnt. rewrite imported_funcs_eq in Hcnt.
  destruct (WV.Proofs.ModFix12.local_function_body _ _ _ _ _ _ _ P2 Hin2' Hkind2) as (s0 & k & b & t & ety & _ & _ & Hb & _ & Hjk & _).
  rewrite Hcnt, Hlen in Hjk.
  assert (Hk : k < length fs1) by (rewrite <- Hlen; apply nth_error_Some; congruence).
  destruct (nth_error fs1 k) as [[id lf1]|] eqn:Hp; [|apply nth_error_None in Hp; lia].
  destruct (WV.Proofs.ModFix15.fs1_nth _ _ _ _ _ _ _ _ _ _ _ _ TT Hfs1 Hp) as ((f1 & Hg1 & Hk1) & Hj & _).
  assert (Ej : N.of_nat (length (imported_funcs (ps_m s1)) + k) = fid) by lia. rewrite Ej in Hj.
  destruct (WV.Proofs.ModFix12.second_trip_functions _ _ _ _ _ _ _ _ _ TT Hfs1 _ _ _ _ _ _ Hj Hg1 Hk1 Hin2' Hkind2)
    as (k' & ef1 & t2 & ety2 & Hpk' & Hef1 & _ & Hjk' & He1 & _).
  rewrite imported_funcs_eq in Hjk'. assert (k' = k) by lia. subst k'.
  destruct (ModFix17.second_emit_locals _ _ _ _ _ _ _ _ _ _ _ _ _ _ _ _ TT V HW PK Hg1 Hk1 Hj Hin2' Hkind2 He1 Hem2)
    as (evs1 & decls & lmap1 & base2 & n & L1' & _ & L3 & _ & L5 & L6 & L7 & _).
  destruct (WV.Proofs.ModFix12.emit_function_inv _ _ _ _ _ _ He1) as (evs0 & decls0 & lmap0 & st0 & B1 & _ & _ & _ & _ & Hid1 & _ & _ & B9).
  rewrite L1' in B1. injection B1 as <-.
  destruct (WV.Proofs.ModFix12.local_function_body _ _ _ _ _ _ _ P1 Hg1 Hk1)
    as (s0' & k0 & b0 & t1' & ety1 & _ & _ & _ & _ & _ & _ & _ & _ & _ & base1 & Hargs1 & Hlv1).
  assert (ND : NoDup (lf_args lf1)).
  { rewrite Hargs1. apply WV.Proofs.Order.StronglySorted_lt_NoDup, WV.Proofs.ModFix11.seq_ids_sorted. }
  (* the slot of lid *)
  destruct (In_nth_error _ _ Hv) as (p & Hpn).
  assert (Hpl : p < n).
  { assert (p < length (locals_vec ids fid)) by (apply nth_error_Some; congruence).
    unfold ids in H. rewrite L7, map_length, seq_length in H. exact H. }
  rewrite L6 in Hpl.
  destruct (slot_hit _ _ _ _ _ p ND L3 Hpl) as (lid1 & Hu1 & Hi1).
  (* lid1 is a live local of the first module *)
  assert (Hv1 : In lid1 (locals_vec (ps_ids s1) id)).
  { apply in_app_or in Hu1. destruct Hu1 as [Hu1|Hu1].
    - apply ModFix17.used_of_log_in in Hu1. exact (LR id f1 lf1 evs1 lid1 Hg1 Hk1 L1' Hu1).
    - rewrite Hlv1. rewrite Hargs1 in Hu1. apply WV.Proofs.ModFix11.in_seq_ids in Hu1. destruct Hu1 as (x & -> & Hx).
      apply WV.Proofs.ModFix11.in_seq_ids. exists x. split; [reflexivity|lia]. }
  destruct (Alloc1 id lid1 Hv1) as (lo1 & Hg1').
  destruct (parseM_local_named _ _ _ _ _ _ P1 Hsyn Hg1') as (nm & Hnm & _).
  (* the entry the first emit wrote *)
  destruct (local_names_emit_partial _ _ _ _ En1) as [A1 B1'].
  assert (Hslot : In (N.of_nat p, nm) (sort_nm (fn_local_names (ps_m s1) ef1))).
  { apply B1'. unfold local_index in Hi1.
    destruct (find (fun q : N * N => (fst q =? lid1)%N) lmap1) as [q|] eqn:Eq; [|discriminate].
    exists lid1, lo1, q. split; [rewrite B9; apply WV.Proofs.Order.sort_ids_members; exact Hu1|].
    split; [exact Hg1'|]. split; [exact Hnm|]. split; [rewrite L5; exact Eq|]. now injection Hi1. }
  exists nm. apply (local_name_key ids nf L1 fid p lid nm If Hlt Dis NDv S1 (fun fi names H => proj1 (LC fi names H)) Hpn).
  exists (sort_nm (fn_local_names (ps_m s1) ef1)). split; [|exact Hslot].
  apply A1. exists id, f1, ef1. split; [apply WV.Proofs.Totality.aiter_aget; exact Hg1|].
  split.
  { rewrite <- Hid1. apply (find_by_key ef_id (em_fns e1) k ef1); [|exact Hef1].
    rewrite Hids1. apply (used_local_functions_ids _ _ Hfs1). }
  split.
  { intros C. rewrite C in Hslot. eapply Permutation_in in Hslot; [|apply WV.Proofs.Order.sort_nm_perm]. destruct Hslot. }
  split; [exact Hj|reflexivity].
Qed.

(* ====================================================================================== *)
(* (b) the bridge: stream-level premise -> state-level premise                              *)
(* ====================================================================================== *)
Lemma no_imports_ftys : forall r, Forall (fun sec => imports_of sec = []) r -> flat_map sec_ftys r = flat_map funcs_of r.
Proof.
  induction 1 as [|sec r H _ IH]; [reflexivity|]. cbn [flat_map]. rewrite IH. f_equal.
  destruct sec; try reflexivity. cbn [imports_of] in H. subst. reflexivity.
Qed.
(* on a validator-ordered stream the function index space is: imported functions, then the function section(s) *)
Lemma valid_ftys_split : forall w c, valid_from c w -> exists X, flat_map sec_ftys w = X ++ flat_map funcs_of w.
Proof.
  induction w as [|sec r IH]; intros c V; [exists []; reflexivity|].
  cbn [valid_from] in V. destruct V as [Vs Vr]. destruct (IH _ Vr) as [X HX]. cbn [flat_map].
  destruct sec as [ts|l|l|l|l|l|l|f|l|n|bs|l|cu]; try (exists X; exact HX).
  - exists (imp_ftys l ++ X). cbn [sec_ftys funcs_of app]. rewrite HX, app_assoc. reflexivity.
  - exists []. cbn [sec_ftys funcs_of app]. f_equal. apply no_imports_ftys.
    apply (WV.Proofs.Renumbering.valid_no_imports r _ Vr). rewrite WV.Proofs.Renumbering.c_last_cstep. cbn [rank]. lia.
Qed.
Lemma valid_counts : forall w c, valid_from c w ->
  c_nbodies (WV.Proofs.ModFix16.ctx_from c w) = c_nloc (WV.Proofs.ModFix16.ctx_from c w).
Proof.
  induction w as [|sec r IH]; intros c V; cbn [valid_from] in V; [exact V|].
  destruct V as [_ Vr]. exact (IH _ Vr).
Qed.
Lemma valid_code_funcs_len w : valid_stream w -> length (flat_map code_of w) = length (flat_map funcs_of w).
Proof.
  intros V. pose proof (valid_counts w ctx0 V) as H.
  rewrite WV.Proofs.ModFix16.ctx_nbodies, WV.Proofs.ModFix16.ctx_nloc in H. cbn [ctx0 c_nbodies c_nloc Nat.add] in H. exact H.
Qed.
Lemma nth_error_combine {A B} : forall (l1 : list A) (l2 : list B) k a b,
  nth_error l1 k = Some a -> nth_error l2 k = Some b -> nth_error (combine l1 l2) k = Some (a, b).
Proof.
  induction l1 as [|x l1 IH]; intros l2 k a b H1 H2; [destruct k; discriminate|].
  destruct l2 as [|y l2]; [destruct k; discriminate|]. destruct k as [|k]; cbn in *; [congruence|eauto].
Qed.

(* (b) *)
Theorem locals_in_range_bridge : forall cf ver w s, parseM cf ver w = POk s -> valid_stream w ->
  locals_in_range w -> ModFix17.locals_in_range s.
Proof.
  intros cf ver w s P1 V LR fid f lf evs lid Hg Hk Hlog Hin.
  destruct (WV.Proofs.ModFix12.local_function_body _ _ _ _ _ _ _ P1 Hg Hk)
    as (s0 & k & b & t & ety & _ & _ & Hb & _ & Hjk & Ht & _ & Hen & Hpb & base & Hargs & Hlv).
  destruct (WV.Proofs.ModFix12.valid_bodies_structured _ _ _ _ b fid V P1 (nth_error_In _ _ Hb)) as (l & eloc & Eops & _ & Hw).
  set (cx := {| px_i2id := i2id_fun (ps_ids s) fid; px_types := types_list (ps_m s) |}) in *.
  rewrite Eops, (WV.Proofs.ParseFn.parse_body_arena cx ety (ty_results t) l eloc Hw) in Hpb. injection Hpb as Har.
  rewrite (WV.Proofs.TotalityBodies.parsed_log cx lf ety l eloc Hw (eq_sym Har) Hen) in Hlog. injection Hlog as <-.
  destruct (WV.Proofs.TotalityBodies.parsed_log_refs cx ety l eloc S_local lid Hin) as (o & loc & i & Ho & Hi & ->).
  cbn [px_i2id cx]. rewrite ModFix17.i2id_local. apply nth_In. rewrite Hlv, map_length, seq_length.
  (* the type the function section names for this body *)
  destruct (parseM_sigs _ _ _ _ P1) as [[_ HT] HF]. unfold FInv in HF.
  pose proof (parseM_ids _ _ _ _ P1) as Hid. unfold ids_consistent in Hid. destruct Hid as (If & _).
  pose proof (aget_nth _ _ _ Hg) as Hn.
  assert (Hc : nth_error (K_fty (ps_m s)) (N.to_nat fid) = Some (fcore f)) by (unfold K_fty; apply map_nth_error; exact Hn).
  destruct (ModFix17.Forall2_nth_r _ _ _ HF _ _ Hc) as (ti & Hti & Hty).
  rewrite fcore_ty in Hty. unfold func_ty in Hty. rewrite Hk in Hty.
  destruct (valid_ftys_split w ctx0 V) as [X HX].
  pose proof (valid_code_funcs_len w V) as Hcf.
  pose proof (Forall2_length _ _ _ HF) as HFl. unfold K_fty in HFl. rewrite map_length in HFl.
  rewrite If, iota_length in Hjk.
  assert (Hkl : k < length (flat_map code_of w)) by (apply nth_error_Some; congruence).
  rewrite HX in HFl, Hti. rewrite app_length in HFl.
  rewrite nth_error_app2 in Hti by lia.
  replace (N.to_nat fid - length X) with k in Hti by lia.
  (* the executable premise at this body *)
  unfold locals_in_range, locals_in_range_b in LR. rewrite forallb_forall in LR.
  specialize (LR (ti, b) (nth_error_In _ _ (nth_error_combine _ _ _ _ _ Hti Hb))). cbn [fst snd] in LR.
  destruct (nth_error (flat_map types_of w) (N.to_nat ti)) as [t'|] eqn:Et'; [|discriminate].
  destruct (HT _ _ Et') as (id & ty & Hi1 & Hi2 & (Sp & _)).
  unfold nth_N in Hty. rewrite Hi1 in Hty. injection Hty as ->.
  rewrite (ModFix18.pk_types_get _ _ _ _ _ P1), Hi2 in Ht. injection Ht as <-.
  rewrite Sp. unfold body_locals_in_range in LR. rewrite forallb_forall in LR.
  assert (Hob : In (WOp o, loc) (wb_ops b)) by (rewrite Eops; apply in_or_app; left; exact Ho).
  specialize (LR _ Hob). cbn [fst] in LR. unfold op_locals_below in LR. rewrite forallb_forall in LR.
  specialize (LR _ Hi). cbn [fst snd] in LR. apply Nat.ltb_lt in LR. exact LR.
Qed.

(* (c) *)
Theorem locals_named_kept_holds : forall cf ver w ilen s1 e1 s2 e2,
  two_trips cf ver w ilen s1 e1 s2 e2 -> valid_stream w -> locals_in_range w ->
  cf_synthetic_names cf = true -> cf_skip_name cf = false ->
  locals_named_kept s2 (stream_names (em_secs e1)).
Proof.
  intros cf ver w ilen s1 e1 s2 e2 TT V LR Hsyn Hskip.
  apply (locals_named_kept_state cf ver w ilen s1 e1 s2 e2 TT V); try assumption.
  destruct TT as (P1 & _). exact (locals_in_range_bridge _ _ _ _ P1 V LR).
Qed.

(* ====================================================================================== *)
(* (d) every configuration                                                                  *)
(* ====================================================================================== *)
Theorem module_fixpoint_all_configs : forall cf ver w ilen s1 e1 s2 e2,
  two_trips cf ver w ilen s1 e1 s2 e2 -> valid_stream w -> locals_in_range w -> em_secs e2 = em_secs e1.
Proof.
  intros cf ver w ilen s1 e1 s2 e2 TT V LR.
  apply (module_fixpoint_all_configs_partial cf ver w ilen s1 e1 s2 e2 TT V). intros Hskip Hsyn. split.
  - exact (funcs_named_kept_holds _ _ _ _ _ _ _ _ TT V Hsyn Hskip).
  - exact (locals_named_kept_holds _ _ _ _ _ _ _ _ TT V LR Hsyn Hskip).
Qed.

(* the second trip exists AND reproduces the stream, for every configuration *)
Theorem module_fixpoint_total_all_configs : forall cf ver w s1 ilen e1,
  valid_stream w -> locals_in_range w -> parseM cf ver w = POk s1 -> emitM (ps_m s1) ilen [] = Ok e1 ->
  valid_stream (em_secs e1) /\
  exists s2 e2, parseM cf ver (em_secs e1) = POk s2 /\ emitM (ps_m s2) ilen [] = Ok e2 /\ em_secs e2 = em_secs e1.
Proof.
  intros cf ver w s1 ilen e1 V LR P1 E1.
  destruct (WV.Proofs.ModFix32.module_fixpoint_total _ _ _ _ _ _ V P1 E1) as (V1 & s2 & e2 & P2 & E2 & _).
  split; [exact V1|]. exists s2, e2. split; [exact P2|]. split; [exact E2|].
  apply (module_fixpoint_all_configs cf ver w ilen s1 e1 s2 e2); [repeat split; assumption|exact V|exact LR].
Qed.

(* iterating the round trip: one trip lands on a fixed point, whatever the configuration *)
Theorem trip_fixed_all_configs : forall cf ver ilen w w1, valid_stream w -> locals_in_range w ->
  WV.Proofs.ModFix32.trip cf ver ilen w = Some w1 -> valid_stream w1 /\ WV.Proofs.ModFix32.trip cf ver ilen w1 = Some w1.
Proof.
  intros cf ver ilen w w1 V LR T. destruct (WV.Proofs.ModFix32.trip_inv _ _ _ _ _ T) as (s & e & P & E & ->).
  destruct (module_fixpoint_total_all_configs _ _ _ _ _ _ V LR P E) as (V1 & s2 & e2 & P2 & E2 & Hfix).
  split; [exact V1|]. unfold WV.Proofs.ModFix32.trip. rewrite P2, E2, Hfix. reflexivity.
Qed.
Theorem emit_parse_idempotent_all_configs : forall cf ver ilen w w1, valid_stream w -> locals_in_range w ->
  WV.Proofs.ModFix32.trip cf ver ilen w = Some w1 ->
  forall n, n >= 1 -> WV.Proofs.ModFix32.trips cf ver ilen n w = Some w1.
Proof.
  intros cf ver ilen w w1 V LR T n Hge. destruct n as [|k]; [lia|]. cbn [WV.Proofs.ModFix32.trips]. rewrite T.
  apply WV.Proofs.ModFix32.trips_fixed. exact (proj2 (trip_fixed_all_configs _ _ _ _ _ V LR T)).
Qed.

(* non-vacuity: the module of ModFix40.synthetic_nonvacuous (synthetic names on, an unnamed function with a parameter
   and a used declared local, no name section in the input) satisfies every premise; the theorem applies to it, and the
   name section it reproduces is not empty *)
Example all_configs_applies : forall s1 e1 s2 e2,
  two_trips ModFixEx.syn_config [49%N] wN ModFixEx.il1 s1 e1 s2 e2 -> em_secs e2 = em_secs e1.
Proof.
  intros s1 e1 s2 e2 TT. apply (module_fixpoint_all_configs _ _ _ _ _ _ _ _ TT wN_valid). vm_compute. reflexivity.
Qed.
Example all_configs_nonvacuous :
  cf_skip_name ModFixEx.syn_config = false /\ cf_synthetic_names ModFixEx.syn_config = true /\
  exists w1, WV.Proofs.ModFix32.trip ModFixEx.syn_config [49%N] ModFixEx.il1 wN = Some w1 /\
    WV.Proofs.ModFix32.trip ModFixEx.syn_config [49%N] ModFixEx.il1 w1 = Some w1 /\
    wn_locals (stream_names w1) = [(0%N, [(0%N, [97%N; 114%N; 103%N; 48%N]); (1%N, [108%N; 49%N])])].
Proof.
  split; [reflexivity|]. split; [reflexivity|].
  destruct (WV.Proofs.ModFix32.trip ModFixEx.syn_config [49%N] ModFixEx.il1 wN) as [w1|] eqn:T; [|vm_compute in T; discriminate].
  exists w1. split; [reflexivity|]. split.
  - apply (trip_fixed_all_configs _ _ _ _ _ wN_valid); [vm_compute; reflexivity|exact T].
  - vm_compute in T. injection T as <-. vm_compute. reflexivity.
Qed.
(* the premise is needed: the ModFixEx witness (valid stream, local.get 0 in a function without locals) violates it
   (ModFix40.wP_violates) and the conclusion fails there (ModFixEx.module_fixpoint_refuted_valid_stream) *)

Print Assumptions parseM_funcs_structure.
Print Assumptions funcs_named_kept_holds.
Print Assumptions locals_in_range_bridge.
Print Assumptions locals_named_kept_state.
Print Assumptions locals_named_kept_holds.
Print Assumptions module_fixpoint_all_configs.
Print Assumptions module_fixpoint_total_all_configs.
Print Assumptions trip_fixed_all_configs.
Print Assumptions emit_parse_idempotent_all_configs.
Print Assumptions all_configs_applies.
Print Assumptions all_configs_nonvacuous.
