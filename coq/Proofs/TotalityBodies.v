(* Discharging the body-level premises of the emission-totality theorems (C02):
   a body built by the parser denotes a tree; its traversal log exists within the fuel the
   emitter gives it; the Emit visitor does not panic on it; every entity the log mentions was
   resolved through the parse-time vectors, hence is live, hence has an index in the final maps. *)
From Coq Require Import List NArith ZArith Bool Arith Lia Permutation Sorted.
Import ListNotations.
From WV Require Import Gen.Ops Model.Common Model.IR Model.Arena Model.Traversal Model.EmitFn Model.EmitSpec Model.Locals
                       Model.ParseFn Model.ParseSpec Model.ModuleM Model.ParseM Model.EmitM Model.GC Gen.Attrs.
From WV Require Import Proofs.Arena Proofs.Order Proofs.IndexMaps Proofs.ParseFn Proofs.Totality Proofs.ParseTotal.
From WV Require Proofs.Traversal Proofs.EmitFn Proofs.Body Proofs.CustomsCfg.
Module TR := WV.Proofs.Traversal.
Module EF := WV.Proofs.EmitFn.
Local Open Scope nat_scope.

(* ====================================================================================== *)
(* A. One body                                                                              *)
(* ====================================================================================== *)

(* --- A0. the encoder has an arm for every IR instruction *)
Lemma encode_plain_total id2i p : encode_plain id2i p <> None.
Proof.
  destruct p; cbn [encode_plain];
    repeat match goal with |- context [match ?x with _ => _ end] => destruct x end; discriminate.
Qed.

(* --- A1. the emitter's fuel covers a parsed body *)
Lemma items_size_app a b : TR.items_size (a ++ b) = TR.items_size a + TR.items_size b.
Proof. induction a as [|x a IH]; [reflexivity|]. cbn [app]. rewrite !TR.items_size_cons, IH. lia. Qed.

Section SizeBound.
  Variable cx : pctx.
  Definition SzR (n : N) (r : list (item * N) * N * bool) : Prop :=
    let '(items, n', _) := r in
    N.to_nat n <= N.to_nat n' /\ TR.items_size items <= 2 * (N.to_nat n' - N.to_nat n).
  Definition Zt (t : rt) := forall env n u, SzR n (tbuild cx env n u t).
  Definition Zl (l : list rt) := forall env n u, SzR n (tbuild_list cx env n u l).

  Lemma Zl_of_Forall l : Forall Zt l -> Zl l.
  Proof.
    induction 1 as [|t l Ht Hl IH]; intros env n u.
    - cbn [tbuild_list SzR]. split; [lia|cbn; lia].
    - cbn [tbuild_list]. specialize (Ht env n u). destruct (tbuild cx env n u t) as [[i1 n1] u1].
      specialize (IH env n1 u1). destruct (tbuild_list cx env n1 u1 l) as [[i2 n2] u2].
      cbn [SzR] in *. rewrite items_size_app. lia.
  Qed.

  Lemma SzR_keep n n' u it l :
    N.to_nat n <= N.to_nat n' -> isize it <= 2 * (N.to_nat n' - N.to_nat n) -> SzR n (keep u it l, n', u).
  Proof.
    intros M R. cbn [SzR]. split; [exact M|]. destruct u; cbn [keep]; [cbn; lia|].
    rewrite TR.items_size_cons. cbn [fst]. change (TR.items_size []) with 0. lia.
  Qed.

  Lemma size_item : forall t, Zt t.
  Proof.
    induction t as [o l|l|d l|d l|ds d l|bt body l e HF|bt body l e HF|bt th el l e HFt HFe] using rt_ind';
      intros env n u.
    - cbn [tbuild]. apply (SzR_keep n n u); [lia|cbn; lia].
    - cbn [tbuild SzR]. split; [lia|cbn; lia].
    - cbn [tbuild SzR]. split; [lia|]. destruct u; cbn; lia.
    - cbn [tbuild]. apply (SzR_keep n n u); [lia|cbn; lia].
    - cbn [tbuild SzR]. split; [lia|]. destruct u; cbn; lia.
    - apply Zl_of_Forall in HF. rewrite tbuild_block. specialize (HF (n :: env) (n + 1)%N false).
      destruct (tbuild_list cx (n :: env) (n + 1)%N false body) as [[its n1] u1]. destruct HF as (M & R).
      apply SzR_keep; [lia|]. cbn [isize]. rewrite TR.size_T. lia.
    - apply Zl_of_Forall in HF. rewrite tbuild_loop. specialize (HF (n :: env) (n + 1)%N false).
      destruct (tbuild_list cx (n :: env) (n + 1)%N false body) as [[its n1] u1]. destruct HF as (M & R).
      apply SzR_keep; [lia|]. cbn [isize]. rewrite TR.size_T. lia.
    - apply Zl_of_Forall in HFt. rewrite tbuild_if. cbv zeta. specialize (HFt (n :: env) (n + 1)%N false).
      destruct (tbuild_list cx (n :: env) (n + 1)%N false th) as [[ic a] uc]. destruct HFt as (Mc & Rc).
      destruct el as [[le eb]|].
      + cbn [optP snd] in HFe. apply Zl_of_Forall in HFe. specialize (HFe (a :: env) (a + 1)%N false).
        destruct (tbuild_list cx (a :: env) (a + 1)%N false eb) as [[ia n2] ua]. destruct HFe as (Me & Re).
        apply SzR_keep; [lia|]. cbn [isize]. rewrite !TR.size_T. lia.
      + apply SzR_keep; [lia|]. cbn [isize]. rewrite !TR.size_T. change (TR.items_size []) with 0. lia.
  Qed.

  Lemma size_list : forall l, Zl l.
  Proof. intros l. apply Zl_of_Forall, Forall_forall. intros t _. apply size_item. Qed.
End SizeBound.

Lemma parsed_fuel cx ety l eloc :
  S (size (parsed_tree cx ety l eloc)) <= S (length (parsed_arena cx ety l eloc) + length (parsed_arena cx ety l eloc)).
Proof.
  unfold parsed_tree, parsed_arena.
  pose proof (build_tree_list cx l [0%N] 1%N false) as R. pose proof (size_list cx l [0%N] 1%N false) as Z.
  destruct (build_list cx [0%N] 1%N false l) as [[its news] u1].
  destruct (tbuild_list cx [0%N] 1%N false l) as [[items n1] v1].
  destruct R as (_ & En & _ & _). destruct Z as (M & Z). subst n1.
  rewrite TR.size_T. cbn [length]. rewrite N2Nat.inj_add, to_nat_len_N in Z. change (N.to_nat 1) with 1 in Z. lia.
Qed.

(* what it is for a local function to be the parse of a body in a context *)
Definition parsed_lf (cx : pctx) (lf : mlocalfunc) (ops : list (wins * N)) : Prop :=
  exists ety l eloc, ops = flat_list l ++ [(WEnd, eloc)] /\ wfl cx 1 l /\
                     lf_arena lf = parsed_arena cx ety l eloc /\ lf_entry lf = 0%N.

Definition lf_tree (cx : pctx) (ety : N) (l : list rt) (eloc : N) : tree := parsed_tree cx ety l eloc.

Lemma parsed_den cx lf ety l eloc : wfl cx 1 l -> lf_arena lf = parsed_arena cx ety l eloc ->
  Den (lf_arena lf) (parsed_tree cx ety l eloc).
Proof. intros Hw ->. apply parsed_arena_den, Hw. Qed.

(* --- A2. the traversal log *)
Lemma parsed_log cx lf ety l eloc : wfl cx 1 l -> lf_arena lf = parsed_arena cx ety l eloc -> lf_entry lf = 0%N ->
  lf_log lf = Ok (events false (parsed_tree cx ety l eloc)).
Proof.
  intros Hw Ea Ee. unfold lf_log, lf_fuel. rewrite Ee, <- (WV.Proofs.Body.parsed_tree_tsid cx ety l eloc).
  apply TR.dfs_in_order_fuel.
  - rewrite Ea. apply parsed_arena_den, Hw.
  - rewrite Ea. apply parsed_fuel.
Qed.

(* --- A3. the Emit visitor does not panic, whatever the index maps are *)
Lemma parsed_emit_body cx lf ety l eloc ecx : wfl cx 1 l -> lf_arena lf = parsed_arena cx ety l eloc -> lf_entry lf = 0%N ->
  exists st, emit_body ecx (lf_fuel lf) (lf_arena lf) (lf_entry lf) 0%N = Ok st.
Proof.
  intros Hw Ea Ee. pose proof (parsed_log cx lf ety l eloc Hw Ea Ee) as Hl. unfold lf_log in Hl.
  set (t := parsed_tree cx ety l eloc) in *.
  assert (Hs : scoped (ex_id2i ecx) [] t).
  { apply parsed_tree_scoped; [exact Hw|]. intros o _. apply encode_plain_total. }
  destruct (EF.flt_ok ecx [] t KEntry Hs) as [tg Htg].
  assert (Ht : tsid t = 0%N) by apply WV.Proofs.Body.parsed_tree_tsid.
  rewrite Ee in *. rewrite <- Ht in Hl.
  assert (HD : Den (lf_arena lf) t) by (rewrite Ea; apply parsed_arena_den, Hw).
  destruct (EF.emit_body_spec ecx (lf_arena lf) t tg 0%N (lf_fuel lf) HD Hl Htg) as (st & Hst & _).
  rewrite Ht in Hst. eauto.
Qed.

(* --- A4. the entity references of the log come from the operators of the body *)
(* the instruction list of an item list, in traversal order *)
Definition ip (items : list (item * N)) : list (instr * N) :=
  flat_map (fun x => TR.item_instr x :: TR.item_nested (fst x)) items.
Lemma ip_app a b : ip (a ++ b) = ip a ++ ip b.
Proof. apply flat_map_app. Qed.

Section Plains.
  Variable cx : pctx.
  Variable P : plain -> Prop.
  Definition Qf (x : wins * N) : Prop := match fst x with WOp o => P (dec cx o) | _ => True end.
  Definition allP (items : list (item * N)) : Prop := forall p loc, In (IPlain p, loc) (ip items) -> P p.
  Definition Pt (t : rt) := forall env n u, Forall Qf (flat t) -> allP (fst (fst (tbuild cx env n u t))).
  Definition Pl (l : list rt) := forall env n u, Forall Qf (flat_list l) -> allP (fst (fst (tbuild_list cx env n u l))).

  Lemma Pl_of_Forall l : Forall Pt l -> Pl l.
  Proof.
    induction 1 as [|t l Ht Hl IH]; intros env n u HQ.
    - intros p loc [].
    - unfold flat_list in HQ. cbn [flat_map] in HQ. apply Forall_app in HQ. destruct HQ as [HQ1 HQ2].
      cbn [tbuild_list]. specialize (Ht env n u HQ1). destruct (tbuild cx env n u t) as [[i1 n1] u1].
      specialize (IH env n1 u1 HQ2). destruct (tbuild_list cx env n1 u1 l) as [[i2 n2] u2].
      cbn [fst] in *. intros p loc Hin. rewrite ip_app in Hin. apply in_app_or in Hin. destruct Hin; eauto.
  Qed.

  Lemma allP_keep u it l : (forall p loc, In (IPlain p, loc) ((shallow it, l) :: TR.item_nested it) -> P p) ->
    allP (keep u it l).
  Proof.
    intros H. destruct u; cbn [keep]; intros p loc Hin; [destruct Hin|].
    unfold ip in Hin. cbn [flat_map] in Hin. rewrite app_nil_r in Hin. eapply H. exact Hin.
  Qed.

  Lemma Forall_mid {A} (Q : A -> Prop) x (m : list A) y : Forall Q (x :: m ++ [y]) -> Forall Q m.
  Proof. intros H. inversion H as [|? ? _ H']; subst. apply Forall_app in H'. apply H'. Qed.

  Lemma plains_item : forall t, Pt t.
  Proof.
    induction t as [o l|l|d l|d l|ds d l|bt body l e HF|bt body l e HF|bt th el l e HFt HFe] using rt_ind';
      intros env n u HQ.
    - cbn [tbuild fst]. apply allP_keep. cbn [shallow TR.item_nested]. intros p loc [E|[]]. inversion E; subst.
      cbn [flat] in HQ. inversion HQ as [|? ? H1 _]; subst. exact H1.
    - intros p loc [].
    - cbn [tbuild fst]. apply allP_keep. cbn [shallow TR.item_nested]. intros p loc [E|[]]. discriminate.
    - cbn [tbuild fst]. apply allP_keep. cbn [shallow TR.item_nested]. intros p loc [E|[]]. discriminate.
    - cbn [tbuild fst]. apply allP_keep. cbn [shallow TR.item_nested]. intros p loc [E|[]]. discriminate.
    - apply Pl_of_Forall in HF. cbn [flat] in HQ. apply Forall_mid in HQ. rewrite tbuild_block.
      specialize (HF (n :: env) (n + 1)%N false HQ).
      destruct (tbuild_list cx (n :: env) (n + 1)%N false body) as [[its n1] u1]. cbn [fst] in *.
      apply allP_keep. cbn [shallow TR.item_nested]. rewrite TR.instrs_T. intros p loc [E|Hin]; [discriminate|].
      eapply HF. exact Hin.
    - apply Pl_of_Forall in HF. cbn [flat] in HQ. apply Forall_mid in HQ. rewrite tbuild_loop.
      specialize (HF (n :: env) (n + 1)%N false HQ).
      destruct (tbuild_list cx (n :: env) (n + 1)%N false body) as [[its n1] u1]. cbn [fst] in *.
      apply allP_keep. cbn [shallow TR.item_nested]. rewrite TR.instrs_T. intros p loc [E|Hin]; [discriminate|].
      eapply HF. exact Hin.
    - apply Pl_of_Forall in HFt. rewrite tbuild_if. cbv zeta.
      destruct el as [[le eb]|].
      + cbn [optP snd] in HFe. apply Pl_of_Forall in HFe. cbn [flat] in HQ.
        inversion HQ as [|? ? _ HQ']; subst. apply Forall_app in HQ'. destruct HQ' as [HQt HQ'].
        inversion HQ' as [|? ? _ HQ'']; subst. apply Forall_app in HQ''. destruct HQ'' as [HQe _].
        specialize (HFt (n :: env) (n + 1)%N false HQt).
        destruct (tbuild_list cx (n :: env) (n + 1)%N false th) as [[ic a] uc]. cbn [fst] in HFt.
        specialize (HFe (a :: env) (a + 1)%N false HQe).
        destruct (tbuild_list cx (a :: env) (a + 1)%N false eb) as [[ia n2] ua]. cbn [fst] in *.
        apply allP_keep. cbn [shallow TR.item_nested]. rewrite !TR.instrs_T. intros p loc [E|Hin]; [discriminate|].
        apply in_app_or in Hin. destruct Hin as [Hin|Hin]; [eapply HFt|eapply HFe]; exact Hin.
      + cbn [flat] in HQ. apply Forall_mid in HQ.
        specialize (HFt (n :: env) (n + 1)%N false HQ).
        destruct (tbuild_list cx (n :: env) (n + 1)%N false th) as [[ic a] uc]. cbn [fst] in *.
        apply allP_keep. cbn [shallow TR.item_nested]. rewrite !TR.instrs_T. intros p loc [E|Hin]; [discriminate|].
        apply in_app_or in Hin. destruct Hin as [Hin|[]]. eapply HFt. exact Hin.
  Qed.

  Lemma plains_list : forall l, Pl l.
  Proof. intros l. apply Pl_of_Forall, Forall_forall. intros t _. apply plains_item. Qed.
End Plains.

Lemma parsed_tree_plains cx ety l eloc p loc :
  In (IPlain p, loc) (TR.instrs_in_order (parsed_tree cx ety l eloc)) ->
  exists o loc', In (WOp o, loc') (flat_list l) /\ p = dec cx o.
Proof.
  unfold parsed_tree.
  pose proof (plains_list cx (fun p => exists o loc', In (WOp o, loc') (flat_list l) /\ p = dec cx o) l [0%N] 1%N false) as R.
  destruct (tbuild_list cx [0%N] 1%N false l) as [[items n1] u1]. cbn [fst] in R. rewrite TR.instrs_T.
  apply R. apply Forall_forall. intros [w lc] Hin. unfold Qf. cbn [fst]. destruct w; try exact I. eauto.
Qed.

(* every reference event of the log is a visited reference of some decoded operator of the body *)
Lemma log_refs_from_ops cx ety l eloc sp id :
  In (ERef sp id) (events false (parsed_tree cx ety l eloc)) ->
  exists o loc, In (WOp o, loc) (flat_list l) /\ In (sp, id) (visited_refs (dec cx o)).
Proof.
  intros Hin.
  assert (H : In (sp, id) (flat_map TR.pR (events false (parsed_tree cx ety l eloc)))).
  { apply in_flat_map. exists (ERef sp id). split; [exact Hin|left; reflexivity]. }
  change (flat_map TR.pR (events false (parsed_tree cx ety l eloc)))
    with (flat_map (fun e => match e with ERef sp id => [(sp, id)] | _ => [] end) (events false (parsed_tree cx ety l eloc))) in H.
  rewrite TR.in_order_refs in H. apply in_flat_map in H. destruct H as [[i loc] [Hi Hr]].
  cbn [fst] in Hr. unfold TR.ref_count in Hr. cbn in Hr. rewrite app_nil_r in Hr || idtac.
  destruct i as [p| | | | | |]; cbn [TR.instr_refs] in Hr; try destruct Hr.
  destruct (parsed_tree_plains cx ety l eloc p loc Hi) as (o & loc' & Ho & ->). eauto.
Qed.

(* --- A5. a visited reference of a decoded operator is the parse-time id of one of its indices *)
Lemma decode_refs i2id o p : decode_plain i2id o = Some p ->
  forall sp id, In (sp, id) (visited_refs p) -> exists i, In (sp, i) (wop_refs o) /\ id = i2id sp i.
Proof.
  destruct o; cbn [decode_plain]; intros E;
    try (injection E as <-); try discriminate;
    try (match type of E with context [match ?h with _ => _ end] => destruct h; try discriminate; injection E as <- end);
    cbn [visited_refs wop_refs]; intros sp id H; cbn [In] in H;
    repeat (destruct H as [H|H]; [injection H as <- <-; eexists; split; [|reflexivity]; cbn [In]; auto|]);
    try contradiction.
Qed.

Lemma dec_refs cx o sp id : In (sp, id) (visited_refs (dec cx o)) ->
  exists i, In (sp, i) (wop_refs o) /\ id = px_i2id cx sp i.
Proof.
  unfold dec. destruct (decode_plain (px_i2id cx) o) as [p|] eqn:E; [apply (decode_refs _ _ _ E)|intros []].
Qed.

(* step 3 at the level of one body: every entity the log reports was resolved from an operator's index *)
Theorem parsed_log_refs cx ety l eloc sp id :
  In (ERef sp id) (events false (parsed_tree cx ety l eloc)) ->
  exists o loc i, In (WOp o, loc) (flat_list l) /\ In (sp, i) (wop_refs o) /\ id = px_i2id cx sp i.
Proof.
  intros H. destruct (log_refs_from_ops _ _ _ _ _ _ H) as (o & loc & Ho & Hr).
  destruct (dec_refs _ _ _ _ Hr) as (i & Hi & ->). eauto 7.
Qed.

(* ====================================================================================== *)
(* B. The module                                                                            *)
(* ====================================================================================== *)

(* --- B1. the code entries the parser collects are those of the stream's code sections *)
Lemma parse_sec_bodies s sec s' : parse_sec s sec = POk s' ->
  ps_bodies s' = ps_bodies s ++ match sec with S_Code bs => bs | _ => [] end.
Proof.
  unfold parse_sec. destruct sec as [ts|l|l|l|l|l|l|f|l|n|bs|l|c]; intros E;
    repeat match type of E with context [match ?x with (_, _) => _ end] => destruct x end;
    try (apply pbind_ok in E; destruct E as [a [Ea E]]);
    try (injection E as <-); wcbn; rewrite ?app_nil_r; try reflexivity.
  destruct c as [? ?|? ?|[?|]|[?|]]; cbn [parse_custom]; wcbn; reflexivity.
Qed.

Lemma parse_secs_bodies : forall w s s', parse_secs s w = POk s' ->
  forall b, In b (ps_bodies s') -> In b (ps_bodies s) \/ exists bs, In (S_Code bs) w /\ In b bs.
Proof.
  induction w as [|sec r IH]; intros s s' E b Hb; cbn [parse_secs] in E.
  - injection E as <-. left. exact Hb.
  - pinv E as s1 E1. destruct (IH _ _ E b Hb) as [H|(bs & Hin & Hb')].
    + rewrite (parse_sec_bodies _ _ _ E1) in H. apply in_app_or in H. destruct H as [H|H]; [left; exact H|].
      destruct sec; try destruct H. right. exists bs. split; [left; reflexivity|exact H].
    + right. exists bs. split; [right; exact Hin|exact Hb'].
Qed.

(* --- B2. which functions receive a body, and which body *)
Lemma nth_N_iota n k x : nth_N (iota n) k = Some x -> x = k.
Proof.
  unfold nth_N. intros H.
  assert (Hlt : N.to_nat k < n) by (rewrite <- (iota_length n); apply nth_error_Some; congruence).
  rewrite (iota_nth n _ Hlt) in H. injection H as <-. apply N2Nat.id.
Qed.

Lemma prepare_bodies_facts : forall bs m ids ni i m' ids' ps,
  PI m ids -> prepare_bodies m ids ni i bs = POk (m', ids', ps) ->
  m_funcs m' = m_funcs m /\
  (forall j, j < length bs -> In (ni + i + N.of_nat j)%N (map pr_fid ps)) /\
  (forall p, In p ps -> In (pr_body p) bs).
Proof.
  induction bs as [|b r IH]; intros m ids ni i m' ids' ps P E; cbn [prepare_bodies] in E.
  - inversion E; subst. split; [reflexivity|]. split; [intros j Hj; cbn in Hj; lia|intros p []].
  - pinv E as fid Efid. pinv E as f Ef. destruct (fn_kind f) as [? ?|?|ty] eqn:Ek; try discriminate.
    pinv E as t Et.
    destruct (add_locals m ids fid (ty_params t) _) as [[m1 ids1] args] eqn:E1.
    destruct (types_insert m1 _) as [m2 tid] eqn:E2.
    destruct (add_locals m2 ids1 fid _ _) as [[m3 ids3] ls] eqn:E3.
    pinv E as x Ex. destruct x as [[m4 ids4] rest]. inversion E; subst; clear E.
    destruct (add_locals_same _ _ _ _ _ _ _ _ E1) as [S1 T1].
    assert (P1 : PI m1 ids1) by (eapply PI_same; eauto; eapply add_locals_idc; [apply P|exact E1]).
    destruct (types_insert_PI _ _ _ _ _ P1 E2) as [P2 _].
    destruct (types_insert_dead _ _ _ _ E2) as [Em2 _].
    destruct (add_locals_same _ _ _ _ _ _ _ _ E3) as [S3 T3].
    assert (P3 : PI m3 ids3) by (eapply PI_same; eauto; eapply add_locals_idc; [apply P2|exact E3]).
    assert (Fu : m_funcs m3 = m_funcs m).
    { destruct S1 as (_ & _ & _ & F1 & _). destruct S3 as (_ & _ & _ & F3 & _). rewrite F3, Em2. wcbn. exact F1. }
    destruct (IH _ _ _ _ _ _ _ P3 Ex) as (F4 & J4 & B4).
    assert (Hfid : fid = (ni + i)%N).
    { apply of_opt_err_ok in Efid. pose proof (pi_idc _ _ P) as Hid. unfold ids_consistent in Hid.
      destruct Hid as (Hf & _). rewrite Hf in Efid. eapply nth_N_iota; eauto. }
    split; [rewrite F4; exact Fu|]. split.
    + intros j Hj. cbn [map pr_fid]. destruct j as [|j].
      * left. rewrite Hfid. cbn. lia.
      * right. cbn [length] in Hj. specialize (J4 j ltac:(lia)).
        replace (ni + i + N.of_nat (S j))%N with (ni + (i + 1) + N.of_nat j)%N by lia. exact J4.
    + intros p [<-|Hp]; [left; reflexivity|right; apply B4; exact Hp].
Qed.

Lemma aget_upd_at {A} (l : list A) d id f i x :
  aget {| items := WV.Model.Arena.upd l (N.to_nat id) f; dead := d |} i = Some x ->
  (i = id /\ exists x0, aget {| items := l; dead := d |} i = Some x0 /\ x = f x0) \/
  (i <> id /\ aget {| items := l; dead := d |} i = Some x).
Proof.
  unfold aget, index, get, is_dead. cbn [items dead]. destruct (existsb _ d); [discriminate|].
  rewrite upd_nth. destruct (Nat.eqb_spec (N.to_nat id) (N.to_nat i)) as [e|ne].
  - apply N2Nat.inj in e. subst id. destruct (nth_error l (N.to_nat i)); cbn [option_map]; [|discriminate].
    intros [= <-]. left. eauto.
  - intros H. right. split; [intros ->; apply ne; reflexivity|exact H].
Qed.

(* after install_bodies a function is either one of the prepared ones, now local with the parse of its
   body, or untouched *)
Lemma install_kinds : forall ps m ids m', install_bodies m ids ps = POk m' ->
  forall id fn', aget (m_funcs m') id = Some fn' ->
   (exists lf p m0, fn_kind fn' = FK_Local lf /\ In p ps /\ pr_fid p = id /\ m_types m0 = m_types m /\
                    parse_one_body m0 ids p = POk lf) \/
   (~ In id (map pr_fid ps) /\ exists fn, aget (m_funcs m) id = Some fn /\ fn_kind fn' = fn_kind fn).
Proof.
  induction ps as [|p r IH]; intros m ids m' E id fn' Hg; cbn [install_bodies] in E.
  - inversion E; subst. right. split; [intros []|eauto].
  - pinv E as lf Elf. destruct (IH _ _ _ E id fn' Hg) as [(lf' & p' & m0 & Hk & Hin & Hf & Ht & Hp)|(Hn & fn & Hg1 & Hk)].
    + left. exists lf', p', m0. split; [exact Hk|]. split; [right; exact Hin|]. split; [exact Hf|]. split; [|exact Hp].
      rewrite Ht. reflexivity.
    + cbn [set_funcs m_funcs] in Hg1. unfold aset_at in Hg1. apply aget_upd_at in Hg1.
      destruct Hg1 as [(-> & x0 & Hx0 & ->)|(Hne & Hg1)].
      * left. exists lf, p, m. cbn [fn_kind] in Hk. split; [exact Hk|]. split; [left; reflexivity|]. auto.
      * right. split.
        -- cbn [map]. intros [e|h]; [apply Hne; symmetry; exact e|apply Hn; exact h].
        -- exists fn. rewrite aget_eta in Hg1. auto.
Qed.

(* --- B3. the name section does not change what kind of function an id is *)
Lemma apply_local_names_funcs : forall l m ids m', apply_local_names m ids l = Some m' -> m_funcs m' = m_funcs m.
Proof.
  induction l as [|[fi names] r IH]; intros m ids m' E; cbn [apply_local_names] in E.
  - inversion E; reflexivity.
  - destruct (nth_N (ii_funcs ids) fi); [|apply IH in E; exact E]. apply IH in E. rewrite E. reflexivity.
Qed.

Definition same_kind (m : wir) (id : N) (fn' : mfunc) : Prop :=
  exists fn, aget (m_funcs m) id = Some fn /\ fn_kind fn' = fn_kind fn.

Lemma parse_names_kinds m ids n id fn' :
  aget (m_funcs (parse_names m ids n)) id = Some fn' -> same_kind m id fn'.
Proof.
  unfold parse_names.
  set (m1 := match wn_module n with Some s => set_name m (Some s) | None => m end).
  assert (H1 : m_funcs m1 = m_funcs m) by (subst m1; destruct (wn_module n); reflexivity).
  clearbody m1. cbv zeta.
  match goal with |- context [apply_local_names ?mm _ _] => set (m2 := mm) end.
  assert (H2 : forall id fn', aget (m_funcs m2) id = Some fn' -> same_kind m id fn').
  { subst m2. cbn [set_funcs m_funcs]. rewrite H1.
    apply (apply_names_inv (fun f s => {| fn_kind := fn_kind f; fn_name := Some s |}) (ii_funcs ids) (same_kind m)).
    - intros i x nm (fn & Hg & Hk). exists fn. split; [exact Hg|exact Hk].
    - intros i x Hx. exists x. auto. }
  clearbody m2.
  destruct (apply_local_names m2 ids (wn_locals n)) as [m3|] eqn:E3; [|apply H2].
  apply apply_local_names_funcs in E3. wcbn. rewrite E3. apply H2.
Qed.

Lemma fold_names_kinds ids id fn' : forall l m,
  aget (m_funcs (fold_left (fun m n => parse_names m ids n) l m)) id = Some fn' -> same_kind m id fn'.
Proof.
  induction l as [|n r IH]; intros m H; cbn [fold_left] in H.
  - exists fn'. auto.
  - apply IH in H. destruct H as (fn1 & Hg1 & Hk1). apply parse_names_kinds in Hg1.
    destruct Hg1 as (fn & Hg & Hk). exists fn. split; [exact Hg|congruence].
Qed.

(* --- B4. the shape of a successful parse of a valid stream *)
Lemma parse_shape cf ver w s : valid_stream w -> parseM cf ver w = POk s ->
  exists s1 c m1 ps m2,
    parse_secs (pst_init cf) w = POk s1 /\ Inv c s1 /\ c_nbodies c = c_nloc c /\
    prepare_bodies (ps_m s1) (ps_ids s1) (N.of_nat (c_nimp c)) 0%N (ps_bodies s1) = POk (m1, ps_ids s, ps) /\
    PI m1 (ps_ids s) /\ length (ii_types (ps_ids s)) = c_nt c /\ Forall (prep_ok m1 (c_nt c)) ps /\
    install_bodies m1 (ps_ids s) ps = POk m2 /\
    m_funcs (ps_m s) = m_funcs (fold_left (fun m n => parse_names m (ps_ids s) n) (ps_names s1) m2).
Proof.
  intros V E. apply WV.Proofs.CustomsCfg.parseM_inv in E.
  destruct E as (s1 & m1 & ids1 & ps & m2 & E1 & E2 & E3 & ->).
  destruct (parse_secs_total w ctx0 (pst_init cf) (Inv_init cf) V) as (s1' & c & E1' & I & Hcnt).
  unfold pst_init in E1'. rewrite E1 in E1'. injection E1' as <-.
  pose proof I as I'. destruct I' as [Hpi A Hnb Hbv _ _ _ _].
  pose proof (pi_idc _ _ Hpi) as Hid.
  assert (Hnf : length (iter (m_funcs (ps_m s1))) = c_nimp c + c_nloc c).
  { rewrite iter_len by (unfold ids_consistent in Hid; decompose [and] Hid; assumption).
    destruct A as (_ & A2 & _). rewrite <- (map_length fcls), A2, app_length, !repeat_length. reflexivity. }
  unfold len_N in E2. rewrite Hnf, Hnb, Hcnt in E2.
  replace (N.of_nat (c_nimp c + c_nloc c) - N.of_nat (c_nloc c))%N with (N.of_nat (c_nimp c)) in E2 by lia.
  destruct (prepare_bodies_total (ps_bodies s1) (ps_m s1) (ps_ids s1) (N.of_nat (c_nimp c)) 0%N (c_nt c) Hpi)
    as (m1' & ids1' & ps' & E2' & P2 & T2 & M2 & F2).
  - apply A.
  - intros j Hj. rewrite Hnb, Hcnt in Hj. destruct A as (_ & A2 & _).
    rewrite Nat2N.id. change (N.to_nat 0) with 0. rewrite Nat.add_0_r.
    assert (Hn : nth_error (map fcls (items (m_funcs (ps_m s1)))) (c_nimp c + j) = Some 1).
    { rewrite A2, nth_error_app2 by (rewrite repeat_length; lia). rewrite repeat_length.
      replace (c_nimp c + j - c_nimp c) with j by lia.
      clear - Hj. revert j Hj. induction (c_nloc c) as [|n IHn]; intros j Hj; [lia|].
      destruct j; cbn [repeat nth_error]; [reflexivity|apply IHn; lia]. }
    apply nth_error_map_inv in Hn. destruct Hn as (f & Hf & Hc). unfold fcls in Hc.
    destruct (fn_kind f) as [? ?|?|ty] eqn:Ek; try discriminate. eauto.
  - exact Hbv.
  - rewrite E2 in E2'. injection E2' as <- <- <-.
    exists s1, c, m1, ps, m2. wcbn.
    split; [exact E1|]. split; [exact I|]. split; [exact Hcnt|]. split; [exact E2|]. split; [exact P2|].
    split; [rewrite T2; apply A|]. split; [exact F2|]. split; [exact E3|reflexivity].
Qed.

(* --- B5. every function of a parsed module is an import or the parse of a body of the stream *)
Lemma nth_repeat_app {A} (a : A) ni (b : A) nl k v : nth_error (repeat a ni ++ repeat b nl) k = Some v ->
  (k < ni /\ v = a) \/ (ni <= k < ni + nl /\ v = b).
Proof.
  intros H. destruct (Nat.lt_ge_cases k ni) as [Hlt|Hge].
  - rewrite nth_error_app1 in H by (rewrite repeat_length; exact Hlt). left. split; [exact Hlt|].
    apply nth_error_In in H. eapply repeat_spec; eauto.
  - rewrite nth_error_app2 in H by (rewrite repeat_length; exact Hge). rewrite repeat_length in H. right.
    assert (Hl : k - ni < nl) by (rewrite <- (repeat_length b nl); apply nth_error_Some; congruence).
    split; [lia|]. apply nth_error_In in H. eapply repeat_spec; eauto.
Qed.

Definition from_stream (w : wmod) (b : wbody) : Prop := exists bs, In (S_Code bs) w /\ In b bs.

Definition func_parsed (w : wmod) (ids : i2ids) (id : N) (fn : mfunc) : Prop :=
  match fn_kind fn with
  | FK_Import _ _ => True
  | FK_Uninit _ => False
  | FK_Local lf => exists tys b, from_stream w b /\
                     parsed_lf {| px_i2id := i2id_fun ids id; px_types := tys |} lf (wb_ops b)
  end.

Lemma TInv_types m m0 ids nt : m_types m0 = m_types m -> TInv m ids nt -> TInv m0 ids nt.
Proof.
  intros E (D & L & T). unfold TInv. rewrite E. split; [exact D|]. split; [exact L|].
  intros id Hid. eapply ty_ok_congr; [exact E|apply T; exact Hid].
Qed.

Lemma parse_one_body_parsed m ids p nt lf : TInv m ids nt -> body_valid nt (pr_body p) ->
  parse_one_body m ids p = POk lf ->
  parsed_lf {| px_i2id := i2id_fun ids (pr_fid p); px_types := types_list m |} lf (wb_ops (pr_body p)).
Proof.
  intros T (l & eloc & Eops & Hw) E. unfold parse_one_body in E. pinv E as t Et. pinv E as ety Eety.
  set (cx := {| px_i2id := i2id_fun ids (pr_fid p); px_types := types_list m |}) in *.
  assert (Hwf : wfl cx 1 l).
  { eapply swfl_wfl; [|exact Hw]. intros bt Hbt. eapply sbt_bt_ok; eauto. }
  rewrite Eops in E. rewrite (parse_body_arena cx ety (ty_results t) l eloc Hwf) in E.
  injection E as <-. exists ety, l, eloc. cbn [lf_arena lf_entry]. auto.
Qed.

Theorem parsed_funcs cf ver w s : valid_stream w -> parseM cf ver w = POk s ->
  forall id fn, aget (m_funcs (ps_m s)) id = Some fn -> func_parsed w (ps_ids s) id fn.
Proof.
  intros V E id fn Hg.
  destruct (parse_shape cf ver w s V E) as (s1 & c & m1 & ps & m2 & E1 & I & Hcnt & E2 & P2 & T2 & F2 & E3 & Ef).
  destruct I as [Hpi A Hnb Hbv _ _ _ _].
  rewrite Ef in Hg. apply fold_names_kinds in Hg. destruct Hg as (fn2 & Hg2 & Hk2).
  unfold func_parsed. rewrite Hk2. clear Hk2 fn.
  destruct (prepare_bodies_facts _ _ _ _ _ _ _ _ Hpi E2) as (Fu & J & B).
  assert (TI1 : TInv m1 (ps_ids s) (c_nt c)).
  { split; [apply (pi_twf _ _ P2)|]. split; [exact T2|apply (pi_ity _ _ P2)]. }
  destruct (install_kinds _ _ _ _ E3 id fn2 Hg2) as [(lf & p & m0 & Hk & Hin & Hf & Ht & Hp)|(Hn & fn1 & Hg1 & Hk)].
  - rewrite Hk. exists (types_list m0), (pr_body p). split.
    + specialize (B p Hin). destruct (parse_secs_bodies _ _ _ E1 _ B) as [[]|H]. exact H.
    + rewrite <- Hf. eapply parse_one_body_parsed; [| |exact Hp].
      * eapply TInv_types; [exact Ht|exact TI1].
      * rewrite Forall_forall in F2. apply (F2 p Hin).
  - rewrite Hk. rewrite Fu in Hg1.
    pose proof (pi_idc _ _ Hpi) as Hid. unfold ids_consistent in Hid. decompose [and] Hid. clear Hid.
    rewrite Totality.aget_nodead in Hg1 by assumption.
    destruct A as (_ & A2 & _).
    assert (Hc : nth_error (map fcls (items (m_funcs (ps_m s1)))) (N.to_nat id) = Some (fcls fn1))
      by (rewrite nth_error_map, Hg1; reflexivity).
    rewrite A2 in Hc. apply nth_repeat_app in Hc. destruct Hc as [(_ & Hc)|(Hr & Hc)].
    + unfold fcls in Hc. destruct (fn_kind fn1); try discriminate. exact I.
    + exfalso. apply Hn. specialize (J (N.to_nat id - c_nimp c)).
      replace (N.of_nat (c_nimp c) + 0 + N.of_nat (N.to_nat id - c_nimp c))%N with id in J by lia.
      apply J. rewrite Hnb, Hcnt. lia.
Qed.

(* step 1 *)
Theorem parsed_bodies_den cf ver w s : valid_stream w -> parseM cf ver w = POk s ->
  forall id fn lf, aget (m_funcs (ps_m s)) id = Some fn -> fn_kind fn = FK_Local lf ->
  exists cx ety l eloc,
    lf_arena lf = parsed_arena cx ety l eloc /\ wfl cx 1 l /\ lf_entry lf = 0%N /\
    Den (lf_arena lf) (parsed_tree cx ety l eloc) /\ tsid (parsed_tree cx ety l eloc) = lf_entry lf.
Proof.
  intros V E id fn lf Hg Hk. pose proof (parsed_funcs cf ver w s V E id fn Hg) as H. unfold func_parsed in H.
  rewrite Hk in H. destruct H as (tys & b & _ & ety & l & eloc & _ & Hw & Ea & Ee).
  eexists _, ety, l, eloc. split; [exact Ea|]. split; [exact Hw|]. split; [exact Ee|]. split.
  - rewrite Ea. apply parsed_arena_den, Hw.
  - rewrite Ee. apply WV.Proofs.Body.parsed_tree_tsid.
Qed.

(* --- B6. step 2: the logs exist and no function is left uninitialised *)
Lemma used_local_functions_total m :
  (forall id fn, aget (m_funcs m) id = Some fn ->
     match fn_kind fn with FK_Local lf => exists evs, lf_log lf = Ok evs | FK_Import _ _ => True | FK_Uninit _ => False end) ->
  exists fs, used_local_functions m = Ok fs.
Proof.
  intros H. unfold used_local_functions.
  match goal with |- context [rmapM ?f ?l] => destruct (rmapM_total f l) as [bs Ebs] end.
  - intros [id fn] Hin. apply aiter_aget in Hin. specialize (H id fn Hin). cbn [fst snd].
    destruct (fn_kind fn) as [? ?|lf|?]; [eauto| |destruct H].
    destruct H as [evs Hl]. unfold lf_size. rewrite Hl. cbn [rmap rbind]. eauto.
  - rewrite Ebs. cbn [rbind]. eauto.
Qed.

Theorem parsed_lf_log cf ver w s : valid_stream w -> parseM cf ver w = POk s ->
  (forall id fn lf, aget (m_funcs (ps_m s)) id = Some fn -> fn_kind fn = FK_Local lf ->
     exists cx ety l eloc, lf_arena lf = parsed_arena cx ety l eloc /\
                           lf_log lf = Ok (events false (parsed_tree cx ety l eloc))) /\
  exists fs, used_local_functions (ps_m s) = Ok fs.
Proof.
  intros V E. split.
  - intros id fn lf Hg Hk. pose proof (parsed_funcs cf ver w s V E id fn Hg) as H. unfold func_parsed in H.
    rewrite Hk in H. destruct H as (tys & b & _ & ety & l & eloc & _ & Hw & Ea & Ee).
    eexists _, ety, l, eloc. split; [exact Ea|]. apply parsed_log; assumption.
  - apply used_local_functions_total. intros id fn Hg.
    pose proof (parsed_funcs cf ver w s V E id fn Hg) as H. unfold func_parsed in H.
    destruct (fn_kind fn) as [? ?|lf|?]; [exact I| |exact H].
    destruct H as (tys & b & _ & ety & l & eloc & _ & Hw & Ea & Ee).
    eexists. eapply (parsed_log _ lf ety l eloc); eassumption.
Qed.

(* --- B7. step 3: every entity of the log has an index in the final maps *)
(* the types named by the parse-time type vector are live non-entry types of the parsed module *)
Theorem parseM_ity cf ver w s : parseM cf ver w = POk s -> forall id, In id (ii_types (ps_ids s)) -> ty_ok (ps_m s) id.
Proof.
  intros E. unfold parseM in E. pinv E as s1 E1.
  assert (P0 : PI (ps_m s1) (ps_ids s1)) by (eapply parse_secs_PI; [|exact E1]; apply PI_empty).
  assert (T0 : TI (ps_m s1)).
  { eapply parse_secs_TI; [|exact E1]. intros id t H. exfalso. rewrite types_get_aget in H. cbn in H.
    apply (aget_empty _ _ H). }
  destruct (_ <? _)%N; [discriminate|].
  pinv E as x Ex. destruct x as [[m1 ids1] prepared]. pinv E as m2 E2. inversion E; subst; clear E. wcbn.
  destruct (prepare_bodies_PI _ _ _ _ _ _ _ _ P0 Ex) as [P1 [F1 _]].
  pose proof (install_bodies_PI _ _ _ _ P1 F1 E2) as P2.
  assert (T2 : TI m2).
  { eapply TI_congr; [eapply install_bodies_types; exact E2|]. eapply prepare_bodies_TI; eauto. }
  assert (N2 : NT (ii_types ids1) m2).
  { split; [|apply (pi_ity _ _ P2)]. intros id t Ht Hn. exfalso. apply Hn. eapply T2; eauto. }
  assert (H : forall l m, NT (ii_types ids1) m -> NT (ii_types ids1) (fold_left (fun m n => parse_names m ids1 n) l m)).
  { induction l as [|n r IH]; intros m H; cbn [fold_left]; [exact H|]. apply IH, parse_names_NT, H. }
  specialize (H (ps_names s1) m2 N2). destruct H as [_ H].
  intros id Hid. eapply ty_ok_congr; [|apply H; exact Hid]. reflexivity.
Qed.

Definition space_ids (ids : i2ids) (sp : space) : list N :=
  match sp with
  | S_func => ii_funcs ids | S_type => ii_types ids | S_table => ii_tables ids | S_memory => ii_memories ids
  | S_global => ii_globals ids | S_data => ii_data ids | S_elem => ii_elements ids | S_local => []
  end.

Lemma i2id_fun_In ids fid sp i : sp <> S_local -> N.to_nat i < length (space_ids ids sp) ->
  In (i2id_fun ids fid sp i) (space_ids ids sp).
Proof. intros Hs Hi. destruct sp; try (exfalso; apply Hs; reflexivity); cbn [i2id_fun space_ids] in *; apply nth_In, Hi. Qed.

Lemma In_nth_N {A} (l : list A) x : In x l -> exists i, nth_N l i = Some x.
Proof. intros H. apply In_nth_error in H. destruct H as [n H]. exists (N.of_nat n). unfold nth_N. rewrite Nat2N.id. exact H. Qed.

Lemma iota_live {A} (a : tarena A) l id : l = iota (length (items a)) -> dead a = [] -> In id l ->
  In id (map fst (aiter a)).
Proof.
  intros -> D Hin. apply iota_In in Hin. destruct (lt_live a id D Hin) as [v Hv].
  apply in_map_iff. exists (id, v). split; [reflexivity|apply aiter_aget; exact Hv].
Qed.

(* liveness of an entity of a space *)
Definition ent_live (m : wir) (sp : space) (id : N) : Prop :=
  match sp with
  | S_func => liveF m id | S_type => ty_ok m id | S_table => liveT m id | S_memory => liveM m id | S_global => liveG m id
  | S_data => exists v, aget (m_data m) id = Some v | S_elem => exists v, aget (m_elements m) id = Some v
  | S_local => False
  end.

Lemma iota_lives {A} (a : tarena A) l id : l = iota (length (items a)) -> dead a = [] -> In id l ->
  exists v, aget a id = Some v.
Proof. intros -> D Hin. apply iota_In in Hin. exact (lt_live a id D Hin). Qed.

(* an id of a parse-time vector is a live entity *)
Lemma ids_live m ids : ids_consistent m ids -> (forall id, In id (ii_types ids) -> ty_ok m id) ->
  forall sp id, In id (space_ids ids sp) -> ent_live m sp id.
Proof.
  intros IC IT sp id Hin. destruct sp; cbn [space_ids ent_live] in *.
  - apply In_nth_N in Hin. destruct Hin as [i Hi]. eapply idc_funcs; eauto.
  - apply IT, Hin.
  - apply In_nth_N in Hin. destruct Hin as [i Hi]. eapply idc_tables; eauto.
  - apply In_nth_N in Hin. destruct Hin as [i Hi]. eapply idc_mems; eauto.
  - apply In_nth_N in Hin. destruct Hin as [i Hi]. eapply idc_globals; eauto.
  - unfold ids_consistent in IC. decompose [and] IC. eapply iota_lives; eauto.
  - unfold ids_consistent in IC. decompose [and] IC. eapply iota_lives; eauto.
  - destruct Hin.
Qed.

(* a live entity has an index in the final maps *)
Lemma live_indexed m fs x : closed m -> used_local_functions m = Ok fs -> final_maps m fs x ->
  forall sp id, ent_live m sp id -> In id (map fst (space_map x sp)).
Proof.
  intros C Hfs (Fty & Ffn & Ftb & Fme & Fgl & Fel & Fda) sp id Hl.
  destruct sp; cbn [ent_live space_map] in *.
  - rewrite Ffn, number_fst. eapply func_indexed; eauto.
  - rewrite Fty, number_fst. destruct Hl as (t & Ht & He). eapply emitted_types_In; eauto.
  - rewrite Ftb, number_fst. apply table_indexed; assumption.
  - rewrite Fme, number_fst. apply mem_indexed; assumption.
  - rewrite Fgl, number_fst. apply global_indexed; assumption.
  - rewrite Fda, number_fst. destruct Hl as [v Hv]. apply in_map_iff. exists (id, v). split; [reflexivity|apply aiter_aget; exact Hv].
  - rewrite Fel, number_fst. destruct Hl as [v Hv]. apply in_map_iff. exists (id, v). split; [reflexivity|apply aiter_aget; exact Hv].
  - destruct Hl.
Qed.

Lemma existsb_of_In (l : list (N * N)) id : In id (map fst l) -> existsb (fun p => N.eqb (fst p) id) l = true.
Proof.
  intros H. apply in_map_iff in H. destruct H as [p [<- Hp]]. apply existsb_exists. exists p. split; [exact Hp|apply N.eqb_refl].
Qed.

(* steps 3 and 4 for one parsed body, on maps that index the non-local entities of its log: the locals
   always have a slot, the Emit visitor never panics *)
Lemma parsed_body_ok_gen m x ilen cx lf ety l eloc :
  wfl cx 1 l -> lf_arena lf = parsed_arena cx ety l eloc -> lf_entry lf = 0%N ->
  (forall sp rid, sp <> S_local -> In (ERef sp rid) (events false (parsed_tree cx ety l eloc)) ->
                  In rid (map fst (space_map x sp))) ->
  body_ok m x ilen lf.
Proof.
  intros Hw Ea Ee Hidx. unfold body_ok. exists (events false (parsed_tree cx ety l eloc)).
  split; [apply parsed_log; assumption|]. cbv zeta. split; [|apply (parsed_emit_body cx lf ety l eloc); assumption].
  destruct (emit_locals (local_ty_fn m) (lf_args lf) (used_of_log (events false (parsed_tree cx ety l eloc))))
    as [decls lmap] eqn:EL. cbn [snd].
  unfold refs_ok. apply forallb_forall. intros e He. destruct e as [| | | |sp rid| |]; try reflexivity.
  destruct sp; try (apply existsb_of_In, Hidx; [discriminate|exact He]).
  apply existsb_of_In. eapply locals_cover_used; [exact EL|].
  unfold used_of_log. apply in_flat_map. exists (ERef S_local rid). split; [exact He|left; reflexivity].
Qed.

(* what validation guarantees about the entity indices of the operators of a body, and [valid_stream]
   does not say: they are below the number of entities of their space *)
Definition op_in_range (ids : i2ids) (o : wop) : Prop :=
  forall sp i, In (sp, i) (wop_refs o) -> sp <> S_local -> N.to_nat i < length (space_ids ids sp).
Definition refs_in_range (w : wmod) (ids : i2ids) : Prop :=
  forall bs b o loc, In (S_Code bs) w -> In b bs -> In (WOp o, loc) (wb_ops b) -> op_in_range ids o.

(* step 3: the non-local entities in the log of a function of the parsed module are live entities of it *)
Theorem parsed_refs_ok cf ver w s id fn lf :
  valid_stream w -> parseM cf ver w = POk s -> refs_in_range w (ps_ids s) ->
  aget (m_funcs (ps_m s)) id = Some fn -> fn_kind fn = FK_Local lf ->
  exists evs, lf_log lf = Ok evs /\
    forall sp rid, sp <> S_local -> In (ERef sp rid) evs -> In rid (space_ids (ps_ids s) sp) /\ ent_live (ps_m s) sp rid.
Proof.
  intros V E RR Hg Hk.
  pose proof (parsed_funcs cf ver w s V E id fn Hg) as H. unfold func_parsed in H. rewrite Hk in H.
  destruct H as (tys & b & (bs & Hbs & Hb) & ety & l & eloc & Eops & Hw & Ea & Ee).
  set (cx := {| px_i2id := i2id_fun (ps_ids s) id; px_types := tys |}) in *.
  exists (events false (parsed_tree cx ety l eloc)). split; [apply parsed_log; assumption|].
  intros sp rid Hs He.
  destruct (parsed_log_refs cx ety l eloc sp rid He) as (o & loc & i & Ho & Hi & ->).
  assert (Hin : In (px_i2id cx sp i) (space_ids (ps_ids s) sp)).
  { cbn [px_i2id cx]. apply i2id_fun_In; [exact Hs|].
    eapply (RR bs b o loc Hbs Hb); [|exact Hi|exact Hs]. rewrite Eops. apply in_or_app. left. exact Ho. }
  split; [exact Hin|]. eapply ids_live; [eapply parseM_ids; eauto|eapply parseM_ity; eauto|exact Hin].
Qed.

(* step 4 proper: the Emit visitor does not panic on any function of the parsed module, whatever the
   index maps are (no premise on the entity indices: a missing id is detected by [refs_ok], not here) *)
Theorem parsed_emit_no_panic cf ver w s id fn lf ecx :
  valid_stream w -> parseM cf ver w = POk s ->
  aget (m_funcs (ps_m s)) id = Some fn -> fn_kind fn = FK_Local lf ->
  exists st, emit_body ecx (lf_fuel lf) (lf_arena lf) (lf_entry lf) 0%N = Ok st.
Proof.
  intros V E Hg Hk.
  pose proof (parsed_funcs cf ver w s V E id fn Hg) as H. unfold func_parsed in H. rewrite Hk in H.
  destruct H as (tys & b & _ & ety & l & eloc & _ & Hw & Ea & Ee).
  eapply parsed_emit_body; eassumption.
Qed.

(* steps 3 and 4 for one function of the parsed module, on the final maps *)
Theorem parsed_emit_body_ok cf ver w s ilen fs x id lf :
  valid_stream w -> parseM cf ver w = POk s -> refs_in_range w (ps_ids s) ->
  used_local_functions (ps_m s) = Ok fs -> final_maps (ps_m s) fs x -> In (id, lf) fs ->
  body_ok (ps_m s) x ilen lf.
Proof.
  intros V E RR Hfs FM Hin.
  destruct (used_local_functions_entries _ _ Hfs id lf Hin) as (fn & Hg & Hk).
  destruct (parsed_refs_ok cf ver w s id fn lf V E RR Hg Hk) as (evs & Hl & Hr).
  pose proof (parsed_funcs cf ver w s V E id fn Hg) as H. unfold func_parsed in H. rewrite Hk in H.
  destruct H as (tys & b & _ & ety & l & eloc & Eops & Hw & Ea & Ee).
  eapply parsed_body_ok_gen; try eassumption.
  intros sp rid Hs He. rewrite (parsed_log _ lf ety l eloc Hw Ea Ee) in Hl. injection Hl as <-.
  eapply live_indexed; eauto; [eapply parseM_closed; eauto|]. apply (Hr sp rid Hs He).
Qed.

(* step 5, with the one premise [valid_stream] lacks *)
Theorem emit_total_after_parse_final_partial cf ver w s ilen dw :
  valid_stream w -> parseM cf ver w = POk s -> refs_in_range w (ps_ids s) ->
  exists e, emitM (ps_m s) ilen dw = Ok e.
Proof.
  intros V E RR. destruct (parsed_lf_log cf ver w s V E) as [_ [fs Hfs]].
  eapply emit_total_after_parse_bodies; [exact E|exact Hfs|].
  intros x FM id lf Hin. eapply parsed_emit_body_ok; eauto.
Qed.

Corollary emit_total_after_parse_final_partial' cf ver w ilen dw :
  valid_stream w -> (forall s, parseM cf ver w = POk s -> refs_in_range w (ps_ids s)) ->
  exists s e, parseM cf ver w = POk s /\ emitM (ps_m s) ilen dw = Ok e.
Proof.
  intros V RR. destruct (parse_total cf ver w V) as [s E].
  destruct (emit_total_after_parse_final_partial cf ver w s ilen dw V E (RR s E)) as [e He]. eauto.
Qed.

(* --- B8. [valid_stream] alone does not suffice: it bounds branch depths and block types but not the entity
   indices of the operators (the model's parse-time lookup yields the default id on an index out of range,
   where walrus's IndicesToIds::get_* returns an error) *)
Definition bad_call_mod : wmod :=
  [ S_Types [([], [])]; S_Funcs [0%N];
    S_Code [{| wb_locals := []; wb_ops := flat_list [RPlain (W_Call 7) 1%N] ++ [(WEnd, 2%N)] |}] ].

Lemma bad_call_valid : valid_stream bad_call_mod.
Proof.
  unfold valid_stream, bad_call_mod. cbn [valid_from]. unfold valid_sec.
  repeat match goal with |- _ /\ _ => split end;
    try (vm_compute; reflexivity); try exact I.
  cbn [cstep cstep0 set_last c_nt fold_left cimp wi_kind rank ctx0 length Nat.add].
  repeat constructor; (eexists; eexists; split; [reflexivity|]);
    cbn [swfl swf sbt_ok]; repeat split; try (cbn; lia); try (intros f H; vm_compute in H; discriminate H).
Qed.

Theorem emit_total_after_parse_final_refuted :
  exists w, valid_stream w /\
    exists s, parseM default_config [49%N] w = POk s /\ emitM (ps_m s) (fun _ => 1%N) [] = Panic.
Proof.
  exists bad_call_mod. split; [exact bad_call_valid|].
  eexists. split; [vm_compute; reflexivity|vm_compute; reflexivity].
Qed.

(* the witness violates exactly the added premise *)
Lemma bad_call_not_in_range s : parseM default_config [49%N] bad_call_mod = POk s -> ~ refs_in_range bad_call_mod (ps_ids s).
Proof.
  intros E RR. assert (E' := E). vm_compute in E'. injection E' as <-.
  specialize (RR _ _ (W_Call 7) 1%N (or_intror (or_intror (or_introl eq_refl))) (or_introl eq_refl) (or_introl eq_refl)
                 S_func 7%N (or_introl eq_refl) ltac:(discriminate)).
  vm_compute in RR. lia.
Qed.

(* --- B9. the added premise as a boolean, and a module on which every premise holds *)
Definition op_in_range_b (ids : i2ids) (o : wop) : bool :=
  forallb (fun r => match fst r with S_local => true | sp => N.to_nat (snd r) <? length (space_ids ids sp) end) (wop_refs o).
Definition refs_in_range_b (w : wmod) (ids : i2ids) : bool :=
  forallb (fun sec => match sec with
                      | S_Code bs => forallb (fun b => forallb (fun x => match fst x with WOp o => op_in_range_b ids o | _ => true end)
                                                               (wb_ops b)) bs
                      | _ => true end) w.
Lemma refs_in_range_b_ok w ids : refs_in_range_b w ids = true -> refs_in_range w ids.
Proof.
  intros H bs b o loc Hbs Hb Ho sp i Hi Hs. unfold refs_in_range_b in H. rewrite forallb_forall in H.
  specialize (H _ Hbs). cbn beta iota in H. rewrite forallb_forall in H. specialize (H _ Hb).
  rewrite forallb_forall in H. specialize (H _ Ho). cbn [fst] in H. unfold op_in_range_b in H.
  rewrite forallb_forall in H. specialize (H _ Hi). cbn [fst snd] in H.
  destruct sp; try (exfalso; apply Hs; reflexivity); apply Nat.ltb_lt in H; exact H.
Qed.

Example ex_emits_by_theorem :
  exists s e, parseM default_config [49%N] ex_mod = POk s /\ emitM (ps_m s) (fun _ => 1%N) [] = Ok e.
Proof.
  apply emit_total_after_parse_final_partial'; [exact ex_valid|].
  intros s E. apply refs_in_range_b_ok. vm_compute in E. injection E as <-. vm_compute. reflexivity.
Qed.

(* ====================================================================================== *)
(* C. After gc_sweep                                                                              *)
(* ====================================================================================== *)
Lemma gc_live m m' u : gc_rel m m' u -> forall sp id, ent_live m sp id -> In (sp, id) u -> ent_live m' sp id.
Proof.
  intros R sp id Hl Hu. destruct sp; cbn [ent_live] in *.
  - destruct Hl as [v Hv]. exists v. apply (gr_funcs _ _ _ R). auto.
  - destruct Hl as (t & Ht & He). exists t. split; [eapply gr_types; eauto|exact He].
  - destruct Hl as [v Hv]. exists v. apply (gr_tables _ _ _ R). auto.
  - destruct Hl as [v Hv]. exists v. apply (gr_memories _ _ _ R). auto.
  - destruct Hl as [v Hv]. exists v. apply (gr_globals _ _ _ R). auto.
  - destruct Hl as [v Hv]. exists v. apply (gr_data _ _ _ R). auto.
  - destruct Hl as [v Hv]. exists v. apply (gr_elements _ _ _ R). auto.
  - exact Hl.
Qed.

(* a kept function's log mentions kept entities only: the traversal log is what [succ] follows *)
Lemma kept_refs m u id fn lf evs : used m = Ok u -> In (S_func, id) u ->
  aget (m_funcs m) id = Some fn -> fn_kind fn = FK_Local lf -> lf_log lf = Ok evs ->
  forall sp rid, sp <> S_local -> In (ERef sp rid) evs -> In (sp, rid) u.
Proof.
  intros Hu Hin Hg Hk Hl sp rid Hs He.
  destruct (used_closed' _ _ Hu) as (rs & _ & _ & K).
  destruct (K (S_func, id) Hin ltac:(cbn; discriminate) ltac:(cbn; discriminate)) as (ys & Hys & Hinc).
  apply Hinc. unfold succ in Hys. cbn [fst snd] in Hys. rewrite Hg, Hk, Hl in Hys. cbn [rmap] in Hys.
  injection Hys as <-. right. apply in_flat_map. exists (ERef sp rid). split; [exact He|].
  destruct sp; try (left; reflexivity). exfalso. apply Hs. reflexivity.
Qed.

Theorem emit_total_after_gc_final_partial cf ver w s m' ilen dw :
  valid_stream w -> parseM cf ver w = POk s -> refs_in_range w (ps_ids s) -> gc_sweep (ps_m s) = Ok m' ->
  exists e, emitM m' ilen dw = Ok e.
Proof.
  intros V E RR Hgc. destruct (gc_shape _ _ Hgc) as (u & Hu & R).
  assert (Hfun : forall id fn, aget (m_funcs m') id = Some fn ->
                               aget (m_funcs (ps_m s)) id = Some fn /\ In (S_func, id) u)
    by (intros id fn Hg; apply (gr_funcs _ _ _ R); exact Hg).
  destruct (used_local_functions_total m') as [fs Hfs].
  { intros id fn Hg. destruct (Hfun _ _ Hg) as [Hg0 _].
    pose proof (parsed_funcs cf ver w s V E id fn Hg0) as H. unfold func_parsed in H.
    destruct (fn_kind fn) as [? ?|lf|?]; [exact I| |exact H].
    destruct H as (tys & b & _ & ety & l & eloc & _ & Hw & Ea & Ee).
    eexists. eapply (parsed_log _ lf ety l eloc); eassumption. }
  eapply emit_total_after_gc_bodies; [exact E|exact Hgc|exact Hfs|].
  intros x FM id lf Hin.
  destruct (used_local_functions_entries _ _ Hfs id lf Hin) as (fn & Hg & Hk).
  destruct (Hfun _ _ Hg) as [Hg0 Hu0].
  destruct (parsed_refs_ok cf ver w s id fn lf V E RR Hg0 Hk) as (evs & Hl & Hr).
  pose proof (parsed_funcs cf ver w s V E id fn Hg0) as H. unfold func_parsed in H. rewrite Hk in H.
  destruct H as (tys & b & _ & ety & l & eloc & Eops & Hw & Ea & Ee).
  eapply parsed_body_ok_gen; try eassumption.
  intros sp rid Hs He.
  pose proof (kept_refs _ _ _ _ _ _ Hu Hu0 Hg0 Hk Hl sp rid Hs) as Hkept.
  rewrite (parsed_log _ lf ety l eloc Hw Ea Ee) in Hl. injection Hl as <-.
  destruct (gc_closed_after_parse _ _ _ _ _ E Hgc) as [C' _].
  eapply live_indexed; eauto. eapply gc_live; [exact R|apply (Hr sp rid Hs He)|apply Hkept, He].
Qed.

Print Assumptions parsed_bodies_den.
Print Assumptions parsed_lf_log.
Print Assumptions parsed_refs_ok.
Print Assumptions parsed_emit_no_panic.
Print Assumptions parsed_emit_body_ok.
Print Assumptions emit_total_after_parse_final_partial.
Print Assumptions emit_total_after_parse_final_partial'.
Print Assumptions emit_total_after_parse_final_refuted.
Print Assumptions bad_call_not_in_range.
Print Assumptions ex_emits_by_theorem.
Print Assumptions emit_total_after_gc_final_partial.
