(* Correctness of the function-body parser model (Model/ParseFn.v) against its
   declarative specification (Model/ParseSpec.v):
   A. parse_body computes exactly [parsed_arena];
   B. [parsed_arena] denotes [parsed_tree];
   C. hence parse_body yields an arena denoting [parsed_tree];
   D. [parsed_tree] is [scoped] (all branch targets are enclosing sequences);
   E. normal-form facts about [tbuild_list]. *)
From Coq Require Import List NArith Arith Lia Bool. Import ListNotations.
From WV Require Import Gen.Ops Model.Common Model.IR Model.ParseFn Model.ParseSpec
  Model.Traversal Model.EmitFn Model.EmitSpec.
Open Scope N_scope.

(* ------------------------------------------------------------------ list-update lemmas *)
Lemma upd_length {A} (l : list A) i f : length (upd l i f) = length l.
Proof. revert i; induction l; intros [|i]; cbn; auto. Qed.
Lemma upd_app_l {A} (l m : list A) i f : (i < length l)%nat -> upd (l ++ m) i f = upd l i f ++ m.
Proof. revert i; induction l as [|x l IH]; intros [|i] H; cbn in *; try lia; auto. now rewrite IH by lia. Qed.
Lemma upd_app_r {A} (l : list A) x f : upd (l ++ [x]) (length l) f = l ++ [f x].
Proof. induction l; cbn; auto. now rewrite IHl. Qed.
Lemma upd_snoc {A} (l : list A) x f n : n = length l -> upd (l ++ [x]) n f = l ++ [f x].
Proof. intros ->; apply upd_app_r. Qed.
Lemma upd_ext {A} (l : list A) i f g : (forall x, f x = g x) -> upd l i f = upd l i g.
Proof. intros H; revert i; induction l; intros [|i]; cbn; auto; now rewrite ?H, ?IHl. Qed.
Lemma upd_id {A} (l : list A) i f : (forall x, f x = x) -> upd l i f = l.
Proof. intros H; revert i; induction l; intros [|i]; cbn; auto; now rewrite ?H, ?IHl. Qed.
Lemma upd_upd {A} (l : list A) i f g : upd (upd l i f) i g = upd l i (fun x => g (f x)).
Proof. revert i; induction l; intros [|i]; cbn; auto; now rewrite IHl. Qed.

(* ------------------------------------------------------------------ len_N *)
Lemma len_N_app {A} (l m : list A) : len_N (l ++ m) = len_N l + len_N m.
Proof. unfold len_N. rewrite app_length. lia. Qed.
Lemma len_N_cons {A} (x : A) (l : list A) : len_N (x :: l) = 1 + len_N l.
Proof. unfold len_N. cbn [length]. lia. Qed.
Lemma len_N_nil {A} : len_N (@nil A) = 0.
Proof. reflexivity. Qed.
Lemma to_nat_len_N {A} (l : list A) : N.to_nat (len_N l) = length l.
Proof. unfold len_N. apply Nat2N.id. Qed.

(* ------------------------------------------------------------------ run *)
Lemma run_app cx st a b : run cx st (a ++ b) = rbind (run cx st a) (fun st1 => run cx st1 b).
Proof. revert st; induction a as [|o a IH]; intros st; cbn [app run]; [reflexivity|]. destruct (step cx st o); cbn [rbind]; auto. Qed.

(* ------------------------------------------------------------------ induction principle for [rt] *)
Section rt_ind.
  Variable P : rt -> Prop.
  Hypothesis H1 : forall o l, P (RPlain o l).
  Hypothesis H2 : forall l, P (RNop l).
  Hypothesis H3 : forall d l, P (RBr d l).
  Hypothesis H4 : forall d l, P (RBrIf d l).
  Hypothesis H5 : forall ds d l, P (RBrTable ds d l).
  Hypothesis H6 : forall bt b l e, Forall P b -> P (RBlock bt b l e).
  Hypothesis H7 : forall bt b l e, Forall P b -> P (RLoop bt b l e).
  Definition optP (el : option (N * list rt)) : Prop :=
    match el with Some p => Forall P (snd p) | None => True end.
  Hypothesis H8 : forall bt th el l e, Forall P th -> optP el -> P (RIf bt th el l e).
  Fixpoint rt_ind' (t : rt) : P t :=
    let fl := fix fl (l : list rt) : Forall P l :=
      match l with [] => Forall_nil _ | x :: l' => Forall_cons _ (rt_ind' x) (fl l') end in
    match t with
    | RPlain o l => H1 o l | RNop l => H2 l | RBr d l => H3 d l | RBrIf d l => H4 d l
    | RBrTable ds d l => H5 ds d l
    | RBlock bt b l e => H6 bt b l e (fl b) | RLoop bt b l e => H7 bt b l e (fl b)
    | RIf bt th el l e => H8 bt th el l e (fl th)
        (match el as el0 return optP el0 with
         | Some p => match p as p0 return Forall P (snd p0) with (_, eb) => fl eb end
         | None => I end)
    end.
End rt_ind.

(* ------------------------------------------------------------------ unfolding equations *)
Definition keep {A} (u : bool) (i : A) (l : N) : list (A * N) := if u then [] else [(i, l)].
Definition mkseq (ty : seqty) (its : list (instr * N)) (e : N) : iseq :=
  {| sq_ty := ty; sq_instrs := its; sq_end := e |}.

Definition bl_inner (cx : pctx) :=
  fix bl (env : list N) (n : N) (u : bool) (l : list rt) {struct l} : list (instr * N) * list iseq * bool :=
    match l with
    | [] => ([], [], u)
    | t :: l' => let '(i1, a1, u1) := build cx env n u t in
                 let '(i2, a2, u2) := bl env (n + len_N a1) u1 l' in
                 (i1 ++ i2, a1 ++ a2, u2)
    end.
Lemma bl_inner_eq cx l : forall env n u, bl_inner cx env n u l = build_list cx env n u l.
Proof.
  induction l as [|t l IH]; intros env n u; [reflexivity|].
  cbn [bl_inner build_list]. destruct (build cx env n u t) as [[i1 a1] u1].
  fold (bl_inner cx). now rewrite IH.
Qed.

Lemma build_block cx env n u bt b l e : build cx env n u (RBlock bt b l e) =
  let '(its, news, _) := build_list cx (n :: env) (n + 1) false b in
  (keep u (IBlock n) l, mkseq (bt_seqty cx bt) its e :: news, u).
Proof. rewrite <- bl_inner_eq. reflexivity. Qed.
Lemma build_loop cx env n u bt b l e : build cx env n u (RLoop bt b l e) =
  let '(its, news, _) := build_list cx (n :: env) (n + 1) false b in
  (keep u (ILoop n) l, mkseq (bt_seqty cx bt) its e :: news, u).
Proof. rewrite <- bl_inner_eq. reflexivity. Qed.
Lemma build_if cx env n u bt th el l e : build cx env n u (RIf bt th el l e) =
  let ty := bt_seqty cx bt in
  let '(ic, ac, _) := build_list cx (n :: env) (n + 1) false th in
  let a := n + 1 + len_N ac in
  match el with
  | Some (le, eb) =>
      let '(ia, aa, _) := build_list cx (a :: env) (a + 1) false eb in
      (keep u (IIfElse n a) l, mkseq ty ic le :: ac ++ mkseq ty ia e :: aa, u)
  | None => (keep u (IIfElse n a) l, mkseq ty ic default_loc :: ac ++ [mkseq ty [] e], u)
  end.
Proof.
  rewrite <- bl_inner_eq. destruct el as [[le eb]|]; [|reflexivity].
  cbv zeta. destruct (bl_inner cx (n :: env) (n + 1) false th) as [[ic ac] uc] eqn:E.
  rewrite <- bl_inner_eq. cbn [build]. fold (bl_inner cx). rewrite E. reflexivity.
Qed.

Definition wl_inner (cx : pctx) :=
  fix wl (k : nat) (l : list rt) : Prop := match l with [] => True | x :: l' => wf cx k x /\ wl k l' end.
Lemma wl_inner_eq cx k l : wl_inner cx k l = wfl cx k l.
Proof. induction l as [|t l IH]; [reflexivity|]. cbn [wl_inner wfl]. fold (wl_inner cx). now rewrite IH. Qed.
Lemma wf_block cx k bt b l e : wf cx k (RBlock bt b l e) = (bt_ok cx bt /\ wfl cx (S k) b).
Proof. rewrite <- wl_inner_eq. reflexivity. Qed.
Lemma wf_loop cx k bt b l e : wf cx k (RLoop bt b l e) = (bt_ok cx bt /\ wfl cx (S k) b).
Proof. rewrite <- wl_inner_eq. reflexivity. Qed.
Lemma wf_if cx k bt th el l e : wf cx k (RIf bt th el l e) =
  (bt_ok cx bt /\ wfl cx (S k) th /\ match el with Some (_, eb) => wfl cx (S k) eb | None => True end).
Proof. rewrite <- wl_inner_eq. destruct el as [[le eb]|]; [rewrite <- wl_inner_eq|]; reflexivity. Qed.

Lemma bt_ok_inv cx bt : bt_ok cx bt ->
  exists ps rs ty, bt_tys cx bt = Some (ps, rs) /\ existing cx ps rs = Some ty /\ bt_seqty cx bt = ty.
Proof.
  unfold bt_ok, bt_seqty. destruct (bt_tys cx bt) as [[ps rs]|]; [|intros []].
  destruct (existing cx ps rs) as [ty|] eqn:E; [|intros H; now elim H].
  intros _. exists ps, rs, ty. rewrite E. auto.
Qed.

(* ================================================================== A. parse_body = parsed_arena *)
Section ParseArena.
  Variable cx : pctx.

  Definition mk b k u ps rs : frame :=
    {| f_block := b; f_kind := k; f_unr := u; f_start := ps; f_end := rs |}.
  Definition addi (its : list (instr * N)) (q : iseq) : iseq :=
    {| sq_ty := sq_ty q; sq_instrs := sq_instrs q ++ its; sq_end := sq_end q |}.
  Definition mkst a c i : pstate := {| ar := a; ctl := c; ifs := i |}.

  Definition resst (a : arena) b k ps rs rest i (r : list (instr * N) * list iseq * bool) : pstate :=
    let '(its, news, u') := r in
    mkst (upd a (N.to_nat b) (addi its) ++ news) (mk b k u' ps rs :: rest) i.

  Definition Pt (t : rt) := forall a b k u ps rs rest i,
    (N.to_nat b < length a)%nat -> wf cx (S (length rest)) t ->
    run cx (mkst a (mk b k u ps rs :: rest) i) (flat t) =
    Ok (resst a b k ps rs rest i (build cx (b :: map f_block rest) (len_N a) u t)).
  Definition Pl (l : list rt) := forall a b k u ps rs rest i,
    (N.to_nat b < length a)%nat -> wfl cx (S (length rest)) l ->
    run cx (mkst a (mk b k u ps rs :: rest) i) (flat_list l) =
    Ok (resst a b k ps rs rest i (build_list cx (b :: map f_block rest) (len_N a) u l)).

  Lemma addi_nil q : addi [] q = q.
  Proof. destruct q; unfold addi; cbn. now rewrite app_nil_r. Qed.
  Lemma addi_addi i1 i2 q : addi i2 (addi i1 q) = addi (i1 ++ i2) q.
  Proof. unfold addi; cbn. now rewrite app_assoc. Qed.
  Lemma upd_addi_nil (a : arena) n : upd a n (addi []) = a.
  Proof. apply upd_id, addi_nil. Qed.

  Lemma Pl_of_Forall l : Forall Pt l -> Pl l.
  Proof.
    induction 1 as [|t l Ht Hl IH]; intros a b k u ps rs rest i Hb Hw.
    - cbn [flat_list flat_map run build_list resst]. now rewrite upd_addi_nil, app_nil_r.
    - change (flat_list (t :: l)) with (flat t ++ flat_list l). rewrite run_app. destruct Hw as [Hw1 Hw2].
      rewrite (Ht a b k u ps rs rest i Hb Hw1). cbn [rbind build_list].
      destruct (build cx (b :: map f_block rest) (len_N a) u t) as [[i1 a1] u1].
      cbn [resst].
      assert (Hb1 : (N.to_nat b < length (upd a (N.to_nat b) (addi i1) ++ a1))%nat)
        by (rewrite app_length, upd_length; lia).
      rewrite (IH _ b k u1 ps rs rest i Hb1 Hw2).
      rewrite len_N_app. unfold len_N at 1. rewrite upd_length. fold (len_N a).
      destruct (build_list cx (b :: map f_block rest) (len_N a + len_N a1) u1 l) as [[i2 a2] u2].
      cbn [resst]. unfold mkst. do 2 f_equal.
      rewrite upd_app_l by (rewrite upd_length; exact Hb). rewrite upd_upd.
      rewrite <- app_assoc. f_equal. apply upd_ext. intros; apply addi_addi.
  Qed.

  (* alloc_instr_in_control(0, ..) / (1, ..) *)
  Lemma alloc_top a b k u ps rs rest i ins loc :
    alloc_in (mkst a (mk b k u ps rs :: rest) i) 0 ins loc =
    Ok (mkst (upd a (N.to_nat b) (addi (keep u ins loc))) (mk b k u ps rs :: rest) i).
  Proof.
    unfold alloc_in, mkst. cbn [ctl nth_error f_unr mk f_block ar ifs]. destruct u; cbn [keep].
    - now rewrite upd_addi_nil.
    - reflexivity.
  Qed.
  Lemma alloc_second a x fr b k u ps rs rest i ins loc : (N.to_nat b < length a)%nat ->
    alloc_in (mkst (a ++ [x]) (fr :: mk b k u ps rs :: rest) i) 1 ins loc =
    Ok (mkst (upd a (N.to_nat b) (addi (keep u ins loc)) ++ [x]) (fr :: mk b k u ps rs :: rest) i).
  Proof.
    intros Hb. unfold alloc_in, mkst. cbn [ctl nth_error f_unr mk f_block ar ifs]. destruct u; cbn [keep].
    - now rewrite upd_addi_nil.
    - unfold push_instr. now rewrite upd_app_l by exact Hb.
  Qed.
  Lemma set_unr_top a b k u ps rs rest i :
    set_unr (mkst a (mk b k u ps rs :: rest) i) = Ok (mkst a (mk b k true ps rs :: rest) i).
  Proof. reflexivity. Qed.

  Lemma target_ok a c i d : (N.to_nat d < length c)%nat ->
    target (mkst a c i) d = Ok (nth (N.to_nat d) (map f_block c) 0).
  Proof.
    unfold target, nth_N, mkst. cbn [ctl]. generalize (N.to_nat d) as m. intros m; revert c.
    induction m as [|m IH]; intros [|fr c] H; cbn [length] in H; try lia; cbn [nth_error map nth]; [reflexivity|].
    apply IH. lia.
  Qed.
  Lemma targets_ok a c i ds : Forall (fun x => (N.to_nat x < length c)%nat) ds ->
    targets (mkst a c i) ds = Ok (map (fun x => nth (N.to_nat x) (map f_block c) 0) ds).
  Proof.
    induction 1 as [|d ds Hd Hds IH]; cbn [targets map]; [reflexivity|].
    rewrite target_ok by exact Hd. cbn [rbind]. rewrite IH. reflexivity.
  Qed.

  (* the common shape of block / loop *)
  Lemma block_like (mkins : N -> instr) (kd : bkind) (w : wins) bt body l e
      (Hstep : forall st loc, step cx st (w, loc) =
         match bt_tys cx bt with
         | None => Panic
         | Some (ps, rs) => rbind (push_ctl cx st kd ps rs) (fun r => let '(st1, id) := r in alloc_in st1 1 (mkins id) loc)
         end)
      (Hkd : kd = KBlock \/ kd = KLoop) :
    Pl body -> forall a b k u ps rs rest i,
    (N.to_nat b < length a)%nat -> bt_ok cx bt -> wfl cx (S (S (length rest))) body ->
    run cx (mkst a (mk b k u ps rs :: rest) i) ((w, l) :: flat_list body ++ [(WEnd, e)]) =
    Ok (resst a b k ps rs rest i
          (let '(its, news, _) := build_list cx (len_N a :: b :: map f_block rest) (len_N a + 1) false body in
           (keep u (mkins (len_N a)) l, mkseq (bt_seqty cx bt) its e :: news, u))).
  Proof.
    intros HP a b k u ps rs rest i Hb Hbt Hw.
    destruct (bt_ok_inv cx bt Hbt) as (ps' & rs' & ty & E1 & E2 & E3).
    cbn [run]. rewrite Hstep, E1. unfold push_ctl. rewrite E2. cbn [rbind ar ctl ifs mkst].
    set (n := len_N a).
    rewrite (alloc_second a (empty_seq ty) _ b k u ps rs rest i _ l Hb).
    cbn [rbind]. rewrite run_app.
    set (a1 := upd a (N.to_nat b) (addi (keep u (mkins n) l))).
    assert (Hl1 : length a1 = length a) by apply upd_length.
    assert (Hn1 : len_N (a1 ++ [empty_seq ty]) = n + 1)
      by (rewrite len_N_app; unfold len_N at 1; rewrite Hl1; reflexivity).
    assert (Hb1 : (N.to_nat n < length (a1 ++ [empty_seq ty]))%nat)
      by (rewrite app_length, Hl1; unfold n; rewrite to_nat_len_N; cbn; lia).
    fold (mk n kd false ps' rs').
    pose proof (HP (a1 ++ [empty_seq ty]) n kd false ps' rs' (mk b k u ps rs :: rest) i Hb1 Hw) as R.
    cbn [map f_block mk] in R. rewrite Hn1 in R. unfold mkst in R |- *. rewrite R. clear R.
    destruct (build_list cx (n :: b :: map f_block rest) (n + 1) false body) as [[its news] u'].
    cbn [resst rbind run step pop_ctl ctl ar ifs mkst mk f_block f_kind].
    assert (Hn : N.to_nat n = length a1) by (unfold n; rewrite to_nat_len_N; auto).
    assert (Hend : set_end (upd (a1 ++ [empty_seq ty]) (N.to_nat n) (addi its) ++ news) n e =
                   a1 ++ mkseq ty its e :: news).
    { unfold set_end. rewrite (upd_snoc a1 _ _ _ Hn).
      rewrite upd_app_l by (rewrite app_length; cbn; lia).
      rewrite (upd_snoc a1 _ _ _ Hn). rewrite <- app_assoc. reflexivity. }
    rewrite Hend, E3.
    destruct Hkd as [-> | ->]; reflexivity.
  Qed.

  Theorem parse_item : forall t, Pt t.
  Proof.
    induction t as [o l|l|d l|d l|ds d l|bt body l e HF|bt body l e HF|bt th el l e HFt HFe] using rt_ind';
      intros a b k u ps rs rest i Hb Hw.
    - (* RPlain *)
      cbn [wf] in Hw. cbn [flat run step build resst]. unfold dec.
      destruct (decode_plain (px_i2id cx) o) as [p|]; [|now elim Hw].
      rewrite alloc_top. cbn [rbind]. fold (@keep instr u (IPlain p) l).
      rewrite app_nil_r.
      destruct (marks_unreachable o).
      + rewrite set_unr_top. cbn [rbind]. now rewrite orb_true_r.
      + cbn [rbind]. now rewrite orb_false_r.
    - (* RNop *)
      cbn [flat run step build resst rbind]. now rewrite upd_addi_nil, app_nil_r.
    - (* RBr *)
      cbn [wf] in Hw. cbn [flat run step build resst].
      rewrite target_ok by (cbn [length]; exact Hw). cbn [rbind map f_block mk].
      rewrite alloc_top. cbn [rbind]. rewrite set_unr_top. cbn [rbind].
      now rewrite app_nil_r.
    - (* RBrIf *)
      cbn [wf] in Hw. cbn [flat run step build resst].
      rewrite target_ok by (cbn [length]; exact Hw). cbn [rbind map f_block mk].
      rewrite alloc_top. cbn [rbind].
      now rewrite app_nil_r.
    - (* RBrTable *)
      cbn [wf] in Hw. destruct Hw as [Hd Hds]. cbn [flat run step build resst].
      rewrite target_ok by (cbn [length]; exact Hd). cbn [rbind].
      rewrite targets_ok by (cbn [length]; exact Hds). cbn [rbind map f_block mk].
      rewrite alloc_top. cbn [rbind]. rewrite set_unr_top. cbn [rbind].
      now rewrite app_nil_r.
    - (* RBlock *)
      apply Pl_of_Forall in HF. rewrite wf_block in Hw. destruct Hw as [Hbt Hw]. rewrite build_block.
      cbn [flat]. fold (flat_list body).
      apply (block_like IBlock KBlock (WBlock bt) bt body l e); auto.
    - (* RLoop *)
      apply Pl_of_Forall in HF. rewrite wf_loop in Hw. destruct Hw as [Hbt Hw]. rewrite build_loop.
      cbn [flat]. fold (flat_list body).
      apply (block_like ILoop KLoop (WLoop bt) bt body l e); auto.
    - (* RIf *)
      apply Pl_of_Forall in HFt. rewrite wf_if in Hw. destruct Hw as (Hbt & Hwt & Hwe). rewrite build_if.
      destruct (bt_ok_inv cx bt Hbt) as (ps' & rs' & ty & E1 & E2 & E3). rewrite E3. cbv zeta.
      set (n := len_N a).
      (* state after `if` *)
      set (ie0 := {| if_start := l; if_cons := n; if_alt := None |}).
      assert (S0 : step cx (mkst a (mk b k u ps rs :: rest) i) (WIf bt, l) =
                   Ok (mkst (a ++ [empty_seq ty]) (mk n KIf false ps' rs' :: mk b k u ps rs :: rest) (ie0 :: i))).
      { cbn [step]. rewrite E1. unfold push_ctl. rewrite E2. reflexivity. }
      assert (Hn : N.to_nat n = length a) by (unfold n; apply to_nat_len_N).
      assert (Hn1 : len_N (a ++ [empty_seq ty]) = n + 1) by (rewrite len_N_app; reflexivity).
      assert (HbA : (N.to_nat n < length (a ++ [empty_seq ty]))%nat) by (rewrite app_length; cbn; lia).
      pose proof (HFt (a ++ [empty_seq ty]) n KIf false ps' rs' (mk b k u ps rs :: rest) (ie0 :: i) HbA Hwt) as Rth.
      cbn [map f_block mk] in Rth. rewrite Hn1 in Rth.
      destruct (build_list cx (n :: b :: map f_block rest) (n + 1) false th) as [[ic ac] uc].
      cbn [resst] in Rth. rewrite (upd_snoc a _ _ _ Hn) in Rth.
      set (ar2 := (a ++ [addi ic (empty_seq ty)]) ++ ac) in *.
      assert (Hlen2 : len_N ar2 = n + 1 + len_N ac) by (unfold ar2; rewrite !len_N_app; reflexivity).
      assert (Hend2 : forall loc, set_end ar2 n loc = (a ++ [mkseq ty ic loc]) ++ ac).
      { intros loc. unfold set_end, ar2. rewrite upd_app_l by (rewrite app_length; cbn; lia).
        rewrite (upd_snoc a _ _ _ Hn). reflexivity. }
      destruct el as [[le eb]|].
      + (* with else *)
        cbn [optP snd] in HFe. apply Pl_of_Forall in HFe.
        cbn [flat]. fold (flat_list th). fold (flat_list eb).
        cbn [run]. rewrite S0. cbn [rbind]. rewrite run_app, Rth. cbn [rbind].
        cbn [run].
        set (aa0 := n + 1 + len_N ac).
        set (arB := ((a ++ [mkseq ty ic le]) ++ ac) ++ [empty_seq ty]).
        set (ie1 := {| if_start := l; if_cons := n; if_alt := Some aa0 |}).
        assert (S1 : step cx (mkst ar2 (mk n KIf uc ps' rs' :: mk b k u ps rs :: rest) (ie0 :: i)) (WElse, le) =
                     Ok (mkst arB (mk aa0 KElse false ps' rs' :: mk b k u ps rs :: rest) (ie1 :: i))).
        { cbn [step pop_ctl mkst ctl rbind mk f_kind ar ifs f_block f_start f_end]. unfold push_ctl.
          cbn [ar ctl ifs]. rewrite E2. cbn [rbind ar ctl ifs ie0 if_alt if_start if_cons].
          rewrite Hend2.
          assert (HA : len_N ((a ++ [mkseq ty ic le]) ++ ac) = aa0) by (rewrite !len_N_app; reflexivity).
          rewrite HA. reflexivity. }
        rewrite S1. cbn [rbind]. rewrite run_app.
        assert (HlB : length arB = S (N.to_nat aa0)).
        { unfold arB, aa0. rewrite !app_length. cbn [length]. rewrite !N2Nat.inj_add, to_nat_len_N, Hn.
          change (N.to_nat 1) with 1%nat. lia. }
        assert (HnB : len_N arB = aa0 + 1).
        { unfold len_N. rewrite HlB. lia. }
        assert (HbB : (N.to_nat aa0 < length arB)%nat) by lia.
        pose proof (HFe arB aa0 KElse false ps' rs' (mk b k u ps rs :: rest) (ie1 :: i) HbB Hwe) as Re.
        cbn [map f_block mk] in Re. rewrite HnB in Re. rewrite Re. clear Re. cbn [rbind].
        destruct (build_list cx (aa0 :: b :: map f_block rest) (aa0 + 1) false eb) as [[ia aa] ua].
        cbn [resst run step pop_ctl mkst ctl rbind mk f_kind ar ifs f_block ie1 if_alt if_start if_cons].
        fold (mk b k u ps rs). fold (mkst (set_end (upd arB (N.to_nat aa0) (addi ia) ++ aa) aa0 e) (mk b k u ps rs :: rest) i).
        rewrite alloc_top. cbn [rbind]. unfold mkst. do 2 f_equal.
        assert (HaB : N.to_nat aa0 = length ((a ++ [mkseq ty ic le]) ++ ac)).
        { unfold arB in HlB. rewrite app_length in HlB. cbn [length] in HlB. lia. }
        unfold set_end, arB. rewrite (upd_snoc _ _ _ _ HaB).
        rewrite upd_app_l by (rewrite app_length; cbn [length]; lia).
        rewrite (upd_snoc _ _ _ _ HaB).
        rewrite <- !app_assoc. rewrite upd_app_l by exact Hb. cbn [app]. reflexivity.
      + (* no else *)
        cbn [flat]. fold (flat_list th).
        cbn [run]. rewrite S0. cbn [rbind]. rewrite run_app, Rth. cbn [rbind].
        cbn [run step pop_ctl mkst ctl rbind mk f_kind ar ifs f_block f_start f_end ie0 if_alt if_start if_cons].
        unfold push_ctl. cbn [ar ctl ifs]. rewrite E2.
        cbn [rbind pop_ctl ctl ar ifs].
        fold (mk b k u ps rs). rewrite Hend2.
        assert (Hend3 : set_end (set_end (((a ++ [mkseq ty ic e]) ++ ac) ++ [empty_seq ty]) n default_loc)
                          (len_N ((a ++ [mkseq ty ic e]) ++ ac)) e =
                        ((a ++ [mkseq ty ic default_loc]) ++ ac) ++ [mkseq ty [] e]).
        { unfold set_end.
          rewrite (upd_app_l ((a ++ [mkseq ty ic e]) ++ ac)) by (rewrite !app_length; cbn [length]; lia).
          rewrite (upd_app_l (a ++ [mkseq ty ic e]) ac) by (rewrite app_length; cbn [length]; lia).
          rewrite (upd_snoc a _ _ _ Hn). cbn [sq_ty sq_instrs mkseq].
          fold (mkseq ty ic default_loc).
          rewrite upd_snoc by (rewrite to_nat_len_N, !app_length; reflexivity).
          reflexivity. }
        rewrite Hend3.
        match goal with |- rbind (alloc_in ?s _ _ _) _ = _ =>
          match s with {| ar := ?x; ctl := ?y; ifs := ?z |} => change s with (mkst x y z) end end.
        rewrite alloc_top. cbn [rbind run]. unfold mkst. do 2 f_equal.
        unfold len_N at 1. rewrite !app_length. cbn [length].
        replace (N.of_nat (length a + 1 + length ac)) with (n + 1 + len_N ac) by (unfold n, len_N; lia).
        rewrite <- !app_assoc. rewrite upd_app_l by exact Hb. cbn [app]. reflexivity.
  Qed.

  Lemma parse_list : forall l, Pl l.
  Proof. intros l. apply Pl_of_Forall. apply Forall_forall. intros t _. apply parse_item. Qed.
End ParseArena.

Theorem parse_body_arena : forall cx ety rs l eloc,
  wfl cx 1 l ->
  parse_body cx ety rs (flat_list l ++ [(WEnd, eloc)]) = Ok (parsed_arena cx ety l eloc).
Proof.
  intros cx ety rs l eloc Hw. unfold parse_body, init_state. rewrite run_app.
  pose proof (parse_list cx l [empty_seq (ST_Multi ety)] 0 KEntry false [] rs [] []) as R.
  unfold mkst, mk in R. cbn [length map] in R. rewrite R; [|cbn; lia|exact Hw]. clear R.
  unfold parsed_arena. change (len_N [empty_seq (ST_Multi ety)]) with 1.
  destruct (build_list cx [0] 1 false l) as [[its news] u'].
  reflexivity.
Qed.

(* ================================================================== B. parsed_arena denotes parsed_tree *)
Definition tbl_inner (cx : pctx) :=
  fix tbl (env : list N) (n : N) (u : bool) (l : list rt) {struct l} : list (item * N) * N * bool :=
    match l with
    | [] => ([], n, u)
    | t :: l' => let '(i1, n1, u1) := tbuild cx env n u t in
                 let '(i2, n2, u2) := tbl env n1 u1 l' in
                 (i1 ++ i2, n2, u2)
    end.
Lemma tbl_inner_eq cx l : forall env n u, tbl_inner cx env n u l = tbuild_list cx env n u l.
Proof.
  induction l as [|t l IH]; intros env n u; [reflexivity|].
  cbn [tbl_inner tbuild_list]. destruct (tbuild cx env n u t) as [[i1 n1] u1].
  fold (tbl_inner cx). now rewrite IH.
Qed.
Lemma tbuild_block cx env n u bt b l e : tbuild cx env n u (RBlock bt b l e) =
  let '(its, n1, _) := tbuild_list cx (n :: env) (n + 1) false b in
  (keep u (ItB (T n (bt_seqty cx bt) its e)) l, n1, u).
Proof. rewrite <- tbl_inner_eq. reflexivity. Qed.
Lemma tbuild_loop cx env n u bt b l e : tbuild cx env n u (RLoop bt b l e) =
  let '(its, n1, _) := tbuild_list cx (n :: env) (n + 1) false b in
  (keep u (ItL (T n (bt_seqty cx bt) its e)) l, n1, u).
Proof. rewrite <- tbl_inner_eq. reflexivity. Qed.
Lemma tbuild_if cx env n u bt th el l e : tbuild cx env n u (RIf bt th el l e) =
  let ty := bt_seqty cx bt in
  let '(ic, a, _) := tbuild_list cx (n :: env) (n + 1) false th in
  match el with
  | Some (le, eb) =>
      let '(ia, n2, _) := tbuild_list cx (a :: env) (a + 1) false eb in
      (keep u (ItI (T n ty ic le) (T a ty ia e)) l, n2, u)
  | None => (keep u (ItI (T n ty ic default_loc) (T a ty [] e)) l, a + 1, u)
  end.
Proof.
  rewrite <- tbl_inner_eq. destruct el as [[le eb]|]; [|reflexivity].
  cbv zeta. destruct (tbl_inner cx (n :: env) (n + 1) false th) as [[ic a] uc] eqn:E.
  rewrite <- tbl_inner_eq. cbn [tbuild]. fold (tbl_inner cx). rewrite E. reflexivity.
Qed.

Lemma Den_go_Forall ar items :
  (fix go (l : list (item * N)) : Prop :=
     match l with [] => True | x :: l' => IDen ar (fst x) /\ go l' end) items <->
  Forall (fun x => IDen ar (fst x)) items.
Proof.
  induction items as [|x items IH]; split; intros H.
  - constructor.
  - exact I.
  - destruct H as [Hx Hr]. constructor; [exact Hx|]. apply IH, Hr.
  - inversion H as [|? ? Hx Hr]; subst. split; [exact Hx|]. apply IH, Hr.
Qed.
Lemma Den_T ar s ty items e :
  Den ar (T s ty items e) <->
  nth_error ar (N.to_nat s) = Some (shallow_seq (T s ty items e)) /\
  Forall (fun x => IDen ar (fst x)) items.
Proof. rewrite <- Den_go_Forall. reflexivity. Qed.

Lemma nth_error_at {A} (pre : list A) x r k : length pre = k -> nth_error (pre ++ x :: r) k = Some x.
Proof. intros <-. rewrite nth_error_app2 by lia. now rewrite Nat.sub_diag. Qed.

Definition sh (x : item * N) : instr * N := (shallow (fst x), snd x).
Lemma shallow_seq_T s ty items e : shallow_seq (T s ty items e) = mkseq ty (map sh items) e.
Proof. reflexivity. Qed.

Section BuildTree.
  Variable cx : pctx.

  Definition BtR (r1 : list (instr * N) * list iseq * bool) (r2 : list (item * N) * N * bool) (n : N) : Prop :=
    let '(its, news, u1) := r1 in
    let '(items, n', u2) := r2 in
    its = map sh items /\ n' = n + len_N news /\ u1 = u2 /\
    forall pre post, length pre = N.to_nat n ->
      Forall (fun x => IDen (pre ++ news ++ post) (fst x)) items.
  Definition Bt (t : rt) := forall env n u, BtR (build cx env n u t) (tbuild cx env n u t) n.
  Definition Bl (l : list rt) := forall env n u, BtR (build_list cx env n u l) (tbuild_list cx env n u l) n.

  Lemma Bl_of_Forall l : Forall Bt l -> Bl l.
  Proof.
    induction 1 as [|t l Ht Hl IH]; intros env n u.
    - cbn [build_list tbuild_list BtR map]. repeat split; [rewrite len_N_nil; lia|]. intros; constructor.
    - cbn [build_list tbuild_list]. specialize (Ht env n u).
      destruct (build cx env n u t) as [[i1 a1] u1]. destruct (tbuild cx env n u t) as [[j1 n1] v1].
      destruct Ht as (E1 & En1 & Eu1 & D1). subst n1 v1.
      specialize (IH env (n + len_N a1) u1).
      destruct (build_list cx env (n + len_N a1) u1 l) as [[i2 a2] u2].
      destruct (tbuild_list cx env (n + len_N a1) u1 l) as [[j2 n2] v2].
      destruct IH as (E2 & En2 & Eu2 & D2). subst n2 v2.
      cbn [BtR]. repeat split.
      + rewrite map_app. now subst.
      + rewrite len_N_app. lia.
      + intros pre post Hp. apply Forall_app. split.
        * rewrite <- app_assoc. apply D1, Hp.
        * replace (pre ++ (a1 ++ a2) ++ post) with ((pre ++ a1) ++ a2 ++ post)
            by (now rewrite <- !app_assoc).
          apply D2.
          rewrite app_length, N2Nat.inj_add, to_nat_len_N. lia.
  Qed.

  (* the common shape of block / loop *)
  Lemma block_like_den (mkins : N -> instr) (mkit : tree -> item)
      (Hsh : forall t, shallow (mkit t) = mkins (tsid t))
      (Hden : forall ar t, IDen ar (mkit t) = Den ar t) body ty l e env n u :
    Bl body ->
    BtR (let '(its, news, _) := build_list cx (n :: env) (n + 1) false body in
         (keep u (mkins n) l, mkseq ty its e :: news, u))
        (let '(its, n1, _) := tbuild_list cx (n :: env) (n + 1) false body in
         (keep u (mkit (T n ty its e)) l, n1, u)) n.
  Proof.
    intros HB. specialize (HB (n :: env) (n + 1) false).
    destruct (build_list cx (n :: env) (n + 1) false body) as [[its news] u1].
    destruct (tbuild_list cx (n :: env) (n + 1) false body) as [[items n1] v1].
    destruct HB as (E & En & _ & HD). cbn [BtR]. repeat split.
    - destruct u; cbn [keep map]; [reflexivity|]. unfold sh. cbn [fst snd]. now rewrite Hsh.
    - rewrite len_N_cons. lia.
    - intros pre post Hp. destruct u; cbn [keep]; constructor; [|constructor].
      cbn [fst]. rewrite Hden. apply Den_T. split.
      + cbn [app]. rewrite shallow_seq_T, <- E. apply nth_error_at, Hp.
      + specialize (HD (pre ++ [mkseq ty its e]) post). rewrite <- app_assoc in HD. cbn [app] in HD |- *.
        apply HD. rewrite app_length, N2Nat.inj_add. cbn. lia.
  Qed.

  Ltac leaf_den :=
    cbn [build tbuild BtR]; change (len_N (@nil iseq)) with 0;
    match goal with u : bool |- _ => destruct u end; cbn [map];
    repeat split; try lia; intros; repeat constructor.

  Theorem build_tree_item : forall t, Bt t.
  Proof.
    induction t as [o l|l|d l|d l|ds d l|bt body l e HF|bt body l e HF|bt th el l e HFt HFe] using rt_ind';
      intros env n u.
    - leaf_den.
    - leaf_den.
    - leaf_den.
    - leaf_den.
    - leaf_den.
    - apply Bl_of_Forall in HF. rewrite build_block, tbuild_block.
      apply (block_like_den IBlock ItB); auto.
    - apply Bl_of_Forall in HF. rewrite build_loop, tbuild_loop.
      apply (block_like_den ILoop ItL); auto.
    - apply Bl_of_Forall in HFt. rewrite build_if, tbuild_if. cbv zeta.
      set (ty := bt_seqty cx bt).
      specialize (HFt (n :: env) (n + 1) false).
      destruct (build_list cx (n :: env) (n + 1) false th) as [[ic ac] uc].
      destruct (tbuild_list cx (n :: env) (n + 1) false th) as [[jc a] vc].
      destruct HFt as (Ec & Ea & _ & Dc). subst a.
      set (a := n + 1 + len_N ac).
      destruct el as [[le eb]|].
      + cbn [optP snd] in HFe. apply Bl_of_Forall in HFe.
        specialize (HFe (a :: env) (a + 1) false).
        destruct (build_list cx (a :: env) (a + 1) false eb) as [[ia aa] ua].
        destruct (tbuild_list cx (a :: env) (a + 1) false eb) as [[ja n2] va].
        destruct HFe as (Eia & En2 & _ & De). cbn [BtR]. repeat split.
        * destruct u; reflexivity.
        * rewrite len_N_cons, len_N_app, len_N_cons. unfold a in *. lia.
        * intros pre post Hp. destruct u; cbn [keep]; constructor; [|constructor].
          cbn [fst IDen].
          assert (Hpa : length (pre ++ mkseq ty ic le :: ac) = N.to_nat a).
          { rewrite app_length. cbn [length]. unfold a. rewrite !N2Nat.inj_add, to_nat_len_N.
            change (N.to_nat 1) with 1%nat. lia. }
          assert (Hpa1 : length ((pre ++ mkseq ty ic le :: ac) ++ [mkseq ty ia e]) = N.to_nat (a + 1)).
          { rewrite app_length, Hpa, N2Nat.inj_add. cbn. lia. }
          assert (Hp1 : length (pre ++ [mkseq ty ic le]) = N.to_nat (n + 1)).
          { rewrite app_length, N2Nat.inj_add. cbn. lia. }
          split; apply Den_T; split.
          -- cbn [app]. rewrite shallow_seq_T, <- Ec. apply nth_error_at, Hp.
          -- specialize (Dc (pre ++ [mkseq ty ic le]) ((mkseq ty ia e :: aa) ++ post) Hp1).
             repeat (rewrite <- ?app_assoc in Dc; cbn [app] in Dc).
             repeat (rewrite <- ?app_assoc; cbn [app]). exact Dc.
          -- rewrite shallow_seq_T, <- Eia.
             replace (pre ++ (mkseq ty ic le :: ac ++ mkseq ty ia e :: aa) ++ post)
               with ((pre ++ mkseq ty ic le :: ac) ++ mkseq ty ia e :: (aa ++ post))
               by (repeat (rewrite <- ?app_assoc; cbn [app]); reflexivity).
             apply nth_error_at, Hpa.
          -- specialize (De ((pre ++ mkseq ty ic le :: ac) ++ [mkseq ty ia e]) post Hpa1).
             repeat (rewrite <- ?app_assoc in De; cbn [app] in De).
             repeat (rewrite <- ?app_assoc; cbn [app]). exact De.
      + cbn [BtR]. repeat split.
        * destruct u; reflexivity.
        * rewrite len_N_cons, len_N_app, len_N_cons, len_N_nil. unfold a. lia.
        * intros pre post Hp. destruct u; cbn [keep]; constructor; [|constructor].
          cbn [fst IDen].
          assert (Hpa : length (pre ++ mkseq ty ic default_loc :: ac) = N.to_nat a).
          { rewrite app_length. cbn [length]. unfold a. rewrite !N2Nat.inj_add, to_nat_len_N.
            change (N.to_nat 1) with 1%nat. lia. }
          assert (Hp1 : length (pre ++ [mkseq ty ic default_loc]) = N.to_nat (n + 1)).
          { rewrite app_length, N2Nat.inj_add. cbn. lia. }
          split; apply Den_T; split.
          -- cbn [app]. rewrite shallow_seq_T, <- Ec. apply nth_error_at, Hp.
          -- specialize (Dc (pre ++ [mkseq ty ic default_loc]) ([mkseq ty [] e] ++ post) Hp1).
             repeat (rewrite <- ?app_assoc in Dc; cbn [app] in Dc).
             repeat (rewrite <- ?app_assoc; cbn [app]). exact Dc.
          -- rewrite shallow_seq_T. cbn [map].
             replace (pre ++ (mkseq ty ic default_loc :: ac ++ [mkseq ty [] e]) ++ post)
               with ((pre ++ mkseq ty ic default_loc :: ac) ++ mkseq ty [] e :: post)
               by (repeat (rewrite <- ?app_assoc; cbn [app]); reflexivity).
             apply nth_error_at, Hpa.
          -- constructor.
  Qed.

  Lemma build_tree_list : forall l, Bl l.
  Proof. intros l. apply Bl_of_Forall, Forall_forall. intros t _. apply build_tree_item. Qed.
End BuildTree.

(* [wfl] is not needed for this direction; it is kept to match the interface *)
Theorem parsed_arena_den : forall cx ety l eloc,
  wfl cx 1 l -> Den (parsed_arena cx ety l eloc) (parsed_tree cx ety l eloc).
Proof.
  intros cx ety l eloc _. unfold parsed_arena, parsed_tree.
  pose proof (build_tree_list cx l [0] 1 false) as R.
  destruct (build_list cx [0] 1 false l) as [[its news] u1].
  destruct (tbuild_list cx [0] 1 false l) as [[items n1] v1].
  destruct R as (E & _ & _ & D). apply Den_T. split.
  - rewrite shallow_seq_T, <- E. reflexivity.
  - specialize (D [mkseq (ST_Multi ety) its eloc] [] eq_refl). rewrite app_nil_r in D. exact D.
Qed.

(* ================================================================== C *)
Corollary parse_body_spec : forall cx ety rs l eloc, wfl cx 1 l ->
  exists ar, parse_body cx ety rs (flat_list l ++ [(WEnd, eloc)]) = Ok ar /\
             Den ar (parsed_tree cx ety l eloc).
Proof.
  intros cx ety rs l eloc Hw. exists (parsed_arena cx ety l eloc). split.
  - apply parse_body_arena, Hw.
  - apply parsed_arena_den, Hw.
Qed.

(* ================================================================== D. parsed_tree is scoped *)
Lemma scoped_go_Forall id2i env items :
  (fix go (l : list (item * N)) : Prop :=
     match l with [] => True | x :: l' => scoped_item id2i env (fst x) /\ go l' end) items <->
  Forall (fun x => scoped_item id2i env (fst x)) items.
Proof.
  induction items as [|x items IH]; split; intros H.
  - constructor.
  - exact I.
  - destruct H as [Hx Hr]. constructor; [exact Hx|]. apply IH, Hr.
  - inversion H as [|? ? Hx Hr]; subst. split; [exact Hx|]. apply IH, Hr.
Qed.
Lemma scoped_T id2i env s ty items e :
  scoped id2i env (T s ty items e) <-> Forall (fun x => scoped_item id2i (s :: env) (fst x)) items.
Proof. rewrite <- scoped_go_Forall. reflexivity. Qed.

Section Scoped.
  Variable cx : pctx.
  Variable id2i : space -> N -> N.
  Hypothesis Henc : forall o, decode_plain (px_i2id cx) o <> None -> encode_plain id2i (dec cx o) <> None.

  Definition SI (env : list N) (items : list (item * N)) : Prop :=
    Forall (fun x => scoped_item id2i env (fst x)) items.
  Definition St (t : rt) := forall env n u, wf cx (length env) t ->
    SI env (fst (fst (tbuild cx env n u t))).
  Definition Sl (l : list rt) := forall env n u, wfl cx (length env) l ->
    SI env (fst (fst (tbuild_list cx env n u l))).

  Lemma Sl_of_Forall l : Forall St l -> Sl l.
  Proof.
    induction 1 as [|t l Ht Hl IH]; intros env n u Hw.
    - constructor.
    - destruct Hw as [Hw1 Hw2]. cbn [tbuild_list].
      specialize (Ht env n u Hw1). destruct (tbuild cx env n u t) as [[i1 n1] u1].
      specialize (IH env n1 u1 Hw2). destruct (tbuild_list cx env n1 u1 l) as [[i2 n2] u2].
      cbn [fst] in *. apply Forall_app. split; assumption.
  Qed.

  Lemma SI_keep env u it l : scoped_item id2i env it -> SI env (keep u it l).
  Proof. intros H. destruct u; cbn [keep]; constructor; [exact H|constructor]. Qed.

  Theorem scoped_item_of : forall t, St t.
  Proof.
    induction t as [o l|l|d l|d l|ds d l|bt body l e HF|bt body l e HF|bt th el l e HFt HFe] using rt_ind';
      intros env n u Hw.
    - cbn [wf] in Hw. cbn [tbuild fst]. apply SI_keep. cbn [scoped_item]. apply Henc, Hw.
    - constructor.
    - cbn [wf] in Hw. cbn [tbuild fst]. apply SI_keep. cbn [scoped_item]. apply nth_In, Hw.
    - cbn [wf] in Hw. cbn [tbuild fst]. apply SI_keep. cbn [scoped_item]. apply nth_In, Hw.
    - cbn [wf] in Hw. destruct Hw as [Hd Hds]. cbn [tbuild fst]. apply SI_keep. cbn [scoped_item]. split.
      + apply nth_In, Hd.
      + apply Forall_forall. intros s Hs. apply in_map_iff in Hs. destruct Hs as (x & <- & Hx).
        apply nth_In. revert x Hx. apply Forall_forall, Hds.
    - apply Sl_of_Forall in HF. rewrite wf_block in Hw. destruct Hw as [_ Hw]. rewrite tbuild_block.
      specialize (HF (n :: env) (n + 1) false Hw).
      destruct (tbuild_list cx (n :: env) (n + 1) false body) as [[its n1] u1]. cbn [fst] in *.
      apply SI_keep. cbn [scoped_item]. apply scoped_T, HF.
    - apply Sl_of_Forall in HF. rewrite wf_loop in Hw. destruct Hw as [_ Hw]. rewrite tbuild_loop.
      specialize (HF (n :: env) (n + 1) false Hw).
      destruct (tbuild_list cx (n :: env) (n + 1) false body) as [[its n1] u1]. cbn [fst] in *.
      apply SI_keep. cbn [scoped_item]. apply scoped_T, HF.
    - apply Sl_of_Forall in HFt. rewrite wf_if in Hw. destruct Hw as (_ & Hwt & Hwe). rewrite tbuild_if. cbv zeta.
      specialize (HFt (n :: env) (n + 1) false Hwt).
      destruct (tbuild_list cx (n :: env) (n + 1) false th) as [[ic a] uc]. cbn [fst] in HFt.
      destruct el as [[le eb]|].
      + cbn [optP snd] in HFe. apply Sl_of_Forall in HFe.
        specialize (HFe (a :: env) (a + 1) false Hwe).
        destruct (tbuild_list cx (a :: env) (a + 1) false eb) as [[ia n2] ua]. cbn [fst] in *.
        apply SI_keep. cbn [scoped_item]. split; apply scoped_T; assumption.
      + cbn [fst]. apply SI_keep. cbn [scoped_item]. split; apply scoped_T; [assumption|constructor].
  Qed.

  Lemma scoped_list_of : forall l, Sl l.
  Proof. intros l. apply Sl_of_Forall, Forall_forall. intros t _. apply scoped_item_of. Qed.
End Scoped.

Theorem parsed_tree_scoped : forall cx id2i ety l eloc,
  wfl cx 1 l ->
  (forall o, decode_plain (px_i2id cx) o <> None -> encode_plain id2i (dec cx o) <> None) ->
  scoped id2i [] (parsed_tree cx ety l eloc).
Proof.
  intros cx id2i ety l eloc Hw Henc. unfold parsed_tree.
  pose proof (scoped_list_of cx id2i Henc l [0] 1 false Hw) as R.
  destruct (tbuild_list cx [0] 1 false l) as [[items n1] u1]. cbn [fst] in R.
  apply scoped_T, R.
Qed.

(* ================================================================== E. normal-form facts *)
Fixpoint tree_ids (t : tree) : list N :=
  match t with T s _ items _ =>
    s :: (fix go (l : list (item * N)) : list N :=
            match l with [] => [] | x :: l' => item_ids (fst x) ++ go l' end) items
  end
with item_ids (it : item) : list N :=
  match it with
  | ItB t | ItL t => tree_ids t
  | ItI c a => tree_ids c ++ tree_ids a
  | _ => []
  end.
Definition items_ids (items : list (item * N)) : list N := flat_map (fun x => item_ids (fst x)) items.
Lemma tree_ids_T s ty items e : tree_ids (T s ty items e) = s :: items_ids items.
Proof. reflexivity. Qed.
Lemma items_ids_app a b : items_ids (a ++ b) = items_ids a ++ items_ids b.
Proof. apply flat_map_app. Qed.

Definition in_range (n n' : N) (ids : list N) : Prop := Forall (fun i => n <= i < n') ids.
Lemma in_range_weaken n n' m m' ids : m <= n -> n' <= m' -> in_range n n' ids -> in_range m m' ids.
Proof. intros H1 H2. apply Forall_impl. intros i Hi. lia. Qed.

Section NormalForm.
  Variable cx : pctx.

  Definition NfR (n : N) (u : bool) (r : list (item * N) * N * bool) : Prop :=
    let '(items, n', u') := r in
    n <= n' /\ (u = true -> items = [] /\ u' = true) /\ in_range n n' (items_ids items).
  Definition Nt (t : rt) := forall env n u, NfR n u (tbuild cx env n u t).
  Definition Nl (l : list rt) := forall env n u, NfR n u (tbuild_list cx env n u l).

  Lemma Nl_of_Forall l : Forall Nt l -> Nl l.
  Proof.
    induction 1 as [|t l Ht Hl IH]; intros env n u.
    - cbn [tbuild_list NfR]. split; [lia|split; [auto|constructor]].
    - cbn [tbuild_list]. specialize (Ht env n u). destruct (tbuild cx env n u t) as [[i1 n1] u1].
      specialize (IH env n1 u1). destruct (tbuild_list cx env n1 u1 l) as [[i2 n2] u2].
      destruct Ht as (M1 & U1 & R1). destruct IH as (M2 & U2 & R2). cbn [NfR]. split; [|split].
      + lia.
      + intros Hu. destruct (U1 Hu) as [-> Hu1]. destruct (U2 Hu1) as [-> ->]. auto.
      + rewrite items_ids_app. apply Forall_app. split.
        * apply (in_range_weaken n n1); [lia|lia|exact R1].
        * apply (in_range_weaken n1 n2); [lia|lia|exact R2].
  Qed.

  Lemma NfR_keep n n' u it l :
    n <= n' -> in_range n n' (item_ids it) -> NfR n u (keep u it l, n', u).
  Proof.
    intros M R. cbn [NfR]. split; [exact M|split; [now intros ->|]].
    destruct u; cbn [keep]; [constructor|]. unfold items_ids. cbn [flat_map fst]. now rewrite app_nil_r.
  Qed.

  Theorem normal_form_item : forall t, Nt t.
  Proof.
    induction t as [o l|l|d l|d l|ds d l|bt body l e HF|bt body l e HF|bt th el l e HFt HFe] using rt_ind';
      intros env n u.
    - cbn [tbuild NfR]. split; [lia|split; [now intros ->|]]. destruct u; repeat constructor.
    - cbn [tbuild NfR]. split; [lia|split; [auto|constructor]].
    - cbn [tbuild NfR]. split; [lia|split; [now intros ->|]]. destruct u; repeat constructor.
    - apply NfR_keep; [lia|constructor].
    - cbn [tbuild NfR]. split; [lia|split; [now intros ->|]]. destruct u; repeat constructor.
    - apply Nl_of_Forall in HF. rewrite tbuild_block. specialize (HF (n :: env) (n + 1) false).
      destruct (tbuild_list cx (n :: env) (n + 1) false body) as [[its n1] u1]. destruct HF as (M & _ & R).
      apply NfR_keep; [lia|]. cbn [item_ids]. rewrite tree_ids_T. constructor; [lia|].
      apply (in_range_weaken (n + 1) n1); [lia|lia|exact R].
    - apply Nl_of_Forall in HF. rewrite tbuild_loop. specialize (HF (n :: env) (n + 1) false).
      destruct (tbuild_list cx (n :: env) (n + 1) false body) as [[its n1] u1]. destruct HF as (M & _ & R).
      apply NfR_keep; [lia|]. cbn [item_ids]. rewrite tree_ids_T. constructor; [lia|].
      apply (in_range_weaken (n + 1) n1); [lia|lia|exact R].
    - apply Nl_of_Forall in HFt. rewrite tbuild_if. cbv zeta. specialize (HFt (n :: env) (n + 1) false).
      destruct (tbuild_list cx (n :: env) (n + 1) false th) as [[ic a] uc]. destruct HFt as (Mc & _ & Rc).
      destruct el as [[le eb]|].
      + cbn [optP snd] in HFe. apply Nl_of_Forall in HFe. specialize (HFe (a :: env) (a + 1) false).
        destruct (tbuild_list cx (a :: env) (a + 1) false eb) as [[ia n2] ua]. destruct HFe as (Me & _ & Re).
        apply NfR_keep; [lia|]. cbn [item_ids]. rewrite !tree_ids_T. apply Forall_app. split.
        * constructor; [lia|]. apply (in_range_weaken (n + 1) a); [lia|lia|exact Rc].
        * constructor; [lia|]. apply (in_range_weaken (a + 1) n2); [lia|lia|exact Re].
      + apply NfR_keep; [lia|]. cbn [item_ids]. rewrite !tree_ids_T. apply Forall_app. split.
        * constructor; [lia|]. apply (in_range_weaken (n + 1) a); [lia|lia|exact Rc].
        * constructor; [lia|constructor].
  Qed.

  Lemma normal_form_list : forall l, Nl l.
  Proof. intros l. apply Nl_of_Forall, Forall_forall. intros t _. apply normal_form_item. Qed.
End NormalForm.

(* nothing is appended to a sequence once it is unreachable: dead code is dropped *)
Theorem tbuild_unreachable_empty : forall cx env n u l items n' u',
  tbuild_list cx env n u l = (items, n', u') -> u = true -> items = [].
Proof.
  intros cx env n u l items n' u' E Hu. pose proof (normal_form_list cx l env n u) as R.
  rewrite E in R. destruct R as (_ & U & _). apply U, Hu.
Qed.
Theorem tbuild_next_id_mono : forall cx env n u l items n' u',
  tbuild_list cx env n u l = (items, n', u') -> n <= n'.
Proof.
  intros cx env n u l items n' u' E. pose proof (normal_form_list cx l env n u) as R.
  rewrite E in R. destruct R as (M & _ & _). exact M.
Qed.
Theorem tbuild_ids_in_range : forall cx env n u l items n' u',
  tbuild_list cx env n u l = (items, n', u') ->
  Forall (fun i => n <= i < n') (items_ids items).
Proof.
  intros cx env n u l items n' u' E. pose proof (normal_form_list cx l env n u) as R.
  rewrite E in R. destruct R as (_ & _ & R). exact R.
Qed.
Theorem parse_normal_form_facts : forall cx env n u l,
  let '(items, n', u') := tbuild_list cx env n u l in
  (u = true -> items = []) /\ n <= n' /\ Forall (fun i => n <= i < n') (items_ids items).
Proof.
  intros cx env n u l. destruct (tbuild_list cx env n u l) as [[items n'] u'] eqn:E.
  split; [|split].
  - eapply tbuild_unreachable_empty, E.
  - eapply tbuild_next_id_mono, E.
  - eapply tbuild_ids_in_range, E.
Qed.

Print Assumptions parse_body_arena.
Print Assumptions parsed_arena_den.
Print Assumptions parse_body_spec.
Print Assumptions parsed_tree_scoped.
Print Assumptions parse_normal_form_facts.
