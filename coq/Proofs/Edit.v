(* Proofs about Model/Edit.v : Module::replace_imported_func / Module::replace_exported_func_core. *)
From Coq Require Import List NArith ZArith Bool Arith Lia Sorted.
Import ListNotations.
From WV Require Import Gen.Ops Model.Common Model.IR Model.Arena Model.Builder Model.ModuleM Model.ParseM Model.Edit.
From WV Require Proofs.Arena Proofs.ArenaSet.
Local Open Scope nat_scope.

(* ------------------------------------------------------------------ projections of the setters *)
Lemma set_locals_twice m a b : set_locals (set_locals m a) b = set_locals m b.
Proof. reflexivity. Qed.
Lemma set_types_twice m a b : set_types (set_types m a) b = set_types m b.
Proof. reflexivity. Qed.

(* ------------------------------------------------------------------ arena helpers with N ids *)
Lemma aalloc_eq {A} (a : tarena A) (v : A) :
  aalloc a v = ({| items := items a ++ [v]; dead := dead a |}, N.of_nat (length (items a))).
Proof. reflexivity. Qed.

Lemma aget_lt {A} (a : tarena A) id v : aget a id = Some v -> N.to_nat id < length (items a).
Proof. unfold aget. apply Proofs.Arena.index_lt. Qed.

Lemma aget_nth {A} (a : tarena A) id v :
  aget a id = Some v -> nth_error (items a) (N.to_nat id) = Some v /\ is_dead a (N.to_nat id) = false.
Proof.
  unfold aget, index, get. destruct (is_dead a (N.to_nat id)); [discriminate|]. auto.
Qed.

Lemma aget_aset_at_eq {A} (a : tarena A) id f v :
  aget a id = Some v -> aget (aset_at a id f) id = Some (f v).
Proof.
  intros H. apply aget_nth in H. destruct H as [Hn Hd].
  unfold aget, index, get, aset_at, is_dead in *. cbn [items dead]. rewrite Hd.
  apply Proofs.Arena.upd_nth_eq. exact Hn.
Qed.

Lemma aget_aset_at_ne {A} (a : tarena A) id f g :
  g <> id -> aget (aset_at a id f) g = aget a g.
Proof.
  intros H. unfold aget, index, get, aset_at, is_dead. cbn [items dead].
  destruct (existsb _ _); [reflexivity|].
  apply Proofs.Arena.upd_nth_ne. intros E. apply H. apply N2Nat.inj. symmetry. exact E.
Qed.

Lemma aset_at_length {A} (a : tarena A) id f : length (items (aset_at a id f)) = length (items a).
Proof. unfold aset_at. cbn [items]. apply Proofs.Arena.upd_length. Qed.

Lemma aset_at_dead {A} (a : tarena A) id f : dead (aset_at a id f) = dead a.
Proof. reflexivity. Qed.

Lemma aget_alloc_old {A} (a : tarena A) v g :
  N.to_nat g < length (items a) -> aget (fst (aalloc a v)) g = aget a g.
Proof.
  intros H. rewrite aalloc_eq. cbn [fst]. unfold aget, index, get, is_dead. cbn [items dead].
  destruct (existsb _ _); [reflexivity|]. apply nth_error_app1. exact H.
Qed.

Lemma adelete_other {A} (a a' : tarena A) id i :
  adelete a id = Some a' -> i <> id -> aget a' i = aget a i.
Proof.
  unfold adelete, aget. intros H Hne.
  eapply Proofs.Arena.delete_isolated; [exact H|].
  intros E. apply Hne. apply N2Nat.inj. exact E.
Qed.

Lemma adelete_gone {A} (a a' : tarena A) id : adelete a id = Some a' -> aget a' id = None.
Proof.
  unfold adelete, aget. intros H.
  apply Proofs.Arena.delete_dead in H. apply Proofs.Arena.dead_absent in H. tauto.
Qed.

Lemma iter_live' {A} (a : tarena A) id v : In (id, v) (iter a) <-> index a id = Some v.
Proof. exact (Proofs.Arena.iter_live A (fun x => x) (fun _ _ => true) a id v). Qed.

Lemma aiter_In {A} (a : tarena A) id v : In (id, v) (aiter a) <-> aget a id = Some v.
Proof.
  unfold aiter, aget. rewrite in_map_iff. split.
  - intros [[n x] [E Hin]]. cbn [fst snd] in E. inversion E; subst.
    rewrite Nat2N.id. apply iter_live'. exact Hin.
  - intros H. exists (N.to_nat id, v). cbn [fst snd]. rewrite N2Nat.id. split; [reflexivity|].
    apply iter_live'. exact H.
Qed.

(* find over a list sorted by key returns the element with the least key *)
Lemma find_first_sorted {B} (f : nat * B -> bool) (l : list (nat * B)) p :
  StronglySorted lt (map fst l) -> find f l = Some p ->
  forall q, In q l -> fst q < fst p -> f q = false.
Proof.
  induction l as [|x r IH]; intros Hs Hf q Hin Hlt; [destruct Hin|].
  cbn [map] in Hs. inversion Hs as [|? ? Hs' Hall]; subst. cbn [find] in Hf.
  destruct (f x) eqn:Efx.
  - inversion Hf; subst. destruct Hin as [->|Hin]; [lia|].
    rewrite Forall_forall in Hall. specialize (Hall (fst q) (in_map fst _ _ Hin)). lia.
  - destruct Hin as [->|Hin]; [exact Efx|]. eapply IH; eauto.
Qed.

Lemma aiter_find_first {A} (a : tarena A) (f : N * A -> bool) p :
  find f (aiter a) = Some p ->
  aget a (fst p) = Some (snd p) /\ f p = true /\
  forall j x, aget a j = Some x -> (N.to_nat j < N.to_nat (fst p)) -> f (j, x) = false.
Proof.
  intros H. pose proof (find_some _ _ H) as [Hin Hp]. split; [|split; [exact Hp|]].
  - apply aiter_In. destruct p; exact Hin.
  - intros j x Hj Hlt. unfold aiter in H.
    assert (Hf : find (fun q => f (N.of_nat (fst q), snd q)) (iter a)
                 = Some (N.to_nat (fst p), snd p)).
    { revert H. generalize (iter a). intros l. induction l as [|y r IH]; cbn [map find]; [discriminate|].
      destruct (f (N.of_nat (fst y), snd y)) eqn:E.
      - intros H; inversion H; subst. cbn [fst snd]. rewrite Nat2N.id. destruct y; reflexivity.
      - exact IH. }
    pose proof (find_first_sorted _ _ _ (Proofs.Arena.iter_creation_order _ a) Hf (N.to_nat j, x)) as Hq.
    cbn [fst snd] in Hq. rewrite N2Nat.id in Hq. apply Hq; [|exact Hlt].
    apply iter_live'. exact Hj.
Qed.

(* ------------------------------------------------------------------ the type key equality *)
Lemma valty_eqb'_eq a b : valty_eqb' a b = true <-> a = b.
Proof.
  unfold valty_eqb'. rewrite N.eqb_eq. split; [|intros ->; reflexivity].
  destruct a, b; cbn; intros H; try reflexivity; discriminate.
Qed.

Lemma vl_eqb_eq a : forall b, vl_eqb a b = true <-> a = b.
Proof.
  induction a as [|x a IH]; intros [|y b]; cbn [vl_eqb]; try (split; [discriminate|congruence]).
  - split; reflexivity.
  - rewrite andb_true_iff, valty_eqb'_eq, IH. split; [intros [-> ->]; reflexivity|].
    intros H; inversion H; auto.
Qed.

(* mtype_eqb reflects equality of exactly the three key fields *)
Lemma mtype_eqb_spec a b :
  mtype_eqb a b = true <->
  ty_params a = ty_params b /\ ty_results a = ty_results b /\ ty_entry a = ty_entry b.
Proof.
  unfold mtype_eqb. rewrite !andb_true_iff, !vl_eqb_eq, Bool.eqb_true_iff. tauto.
Qed.

Lemma mtype_eqb_refl a : mtype_eqb a a = true.
Proof. apply mtype_eqb_spec. auto. Qed.
Lemma mtype_eqb_sym a b : mtype_eqb a b = mtype_eqb b a.
Proof.
  destruct (mtype_eqb a b) eqn:E1, (mtype_eqb b a) eqn:E2; try reflexivity.
  - apply mtype_eqb_spec in E1. assert (mtype_eqb b a = true) by (apply mtype_eqb_spec; intuition congruence). congruence.
  - apply mtype_eqb_spec in E2. assert (mtype_eqb a b = true) by (apply mtype_eqb_spec; intuition congruence). congruence.
Qed.
Lemma mtype_eqb_trans a b c : mtype_eqb a b = true -> mtype_eqb b c = true -> mtype_eqb a c = true.
Proof. rewrite !mtype_eqb_spec. intuition congruence. Qed.

(* ------------------------------------------------------------------ well-formed ModuleTypes
   The HashMap [already] only holds ids of live arena items with an equal key, and no id beyond the
   arena is tombstoned.  Weaker than ArenaSet.SInv (it survives the renaming done by the name section,
   which changes [ty_name] in the arena but not in the map). *)
Definition types_wf (s : aset mtype) : Prop :=
  Forall (fun d => d < length (items (arena s))) (dead (arena s)) /\
  (forall k id, In (k, id) (already s) ->
     exists k', index (arena s) id = Some k' /\ mtype_eqb k k' = true).

Lemma SInv_types_wf s : Proofs.ArenaSet.SInv mtype mtype_eqb s -> types_wf s.
Proof.
  intros [[_ Hb] [H2 _]]. split; [exact Hb|].
  intros k id Hin. exists k. split; [apply H2; exact Hin|apply mtype_eqb_refl].
Qed.

Lemma types_wf_empty : types_wf aset_empty.
Proof. split; [constructor|]. intros k id []. Qed.

Lemma lookup_In' (m : list (mtype * nat)) v id :
  lookup mtype_eqb m v = Some id -> exists k, In (k, id) m /\ mtype_eqb k v = true.
Proof.
  induction m as [|[k i] r IH]; cbn [lookup]; [discriminate|].
  destruct (mtype_eqb k v) eqn:E.
  - intros H; inversion H; subst. exists k. split; [left; reflexivity|exact E].
  - intros H. destruct (IH H) as [k' [Hin He]]. exists k'. split; [right; exact Hin|exact He].
Qed.

Lemma index_alloc_old' {A} (a : tarena A) v id :
  id < length (items a) -> index (fst (alloc a v)) id = index a id.
Proof.
  intros H. unfold index, get, is_dead; cbn. destruct (existsb _ _); [reflexivity|].
  apply nth_error_app1; exact H.
Qed.

(* insert never modifies (or kills) existing items -- no well-formedness needed *)
Lemma insert_keeps (s s' : aset mtype) v id :
  insert mtype_eqb s v = (s', id) ->
  forall i x, index (arena s) i = Some x -> index (arena s') i = Some x.
Proof.
  unfold insert. destruct (lookup mtype_eqb (already s) v).
  - intros H; inversion H; subst. auto.
  - intros H; inversion H; subst; clear H. cbn [arena]. intros i x Hi.
    change ({| items := items (arena s) ++ [v]; dead := dead (arena s) |}) with (fst (alloc (arena s) v)).
    rewrite index_alloc_old'; [exact Hi|]. eapply Proofs.Arena.index_lt; exact Hi.
Qed.

Lemma insert_spec (s s' : aset mtype) v id :
  types_wf s -> insert mtype_eqb s v = (s', id) ->
  types_wf s' /\ exists v', index (arena s') id = Some v' /\ mtype_eqb v' v = true.
Proof.
  intros [Hb Hal]. unfold insert. destruct (lookup mtype_eqb (already s) v) as [i|] eqn:El.
  - intros H; inversion H; subst. split; [split; assumption|].
    destruct (lookup_In' _ _ _ El) as [k [Hin He]].
    destruct (Hal _ _ Hin) as [k' [Hi Hk]]. exists k'. split; [exact Hi|].
    rewrite mtype_eqb_sym in Hk. eapply mtype_eqb_trans; eauto.
  - intros H; inversion H; subst; clear H. cbn [arena already].
    assert (Hnew : index {| items := items (arena s) ++ [v]; dead := dead (arena s) |}
                         (length (items (arena s))) = Some v).
    { unfold index, get, is_dead. cbn [items dead].
      destruct (existsb _ _) eqn:E.
      - apply existsb_exists in E. destruct E as [d [Hd He]]. apply Nat.eqb_eq in He; subst.
        rewrite Forall_forall in Hb. apply Hb in Hd. lia.
      - rewrite nth_error_app2, Nat.sub_diag by lia. reflexivity. }
    split; [split|].
    + cbn [arena items dead]. eapply Forall_impl; [|exact Hb].
      intros d Hd. cbn beta in *. rewrite app_length. cbn [length]. lia.
    + cbn [arena already]. intros k i [Hin|Hin].
      * inversion Hin; subst. exists k. split; [exact Hnew|apply mtype_eqb_refl].
      * destruct (Hal _ _ Hin) as [k' [Hi Hk]]. exists k'. split; [|exact Hk].
        change ({| items := items (arena s) ++ [v]; dead := dead (arena s) |}) with (fst (alloc (arena s) v)).
        rewrite index_alloc_old'; [exact Hi|]. eapply Proofs.Arena.index_lt; exact Hi.
    + exists v. split; [exact Hnew|apply mtype_eqb_refl].
Qed.

(* ------------------------------------------------------------------ types_insert / builder_new *)
Lemma types_insert_shape m t m1 id :
  types_insert m t = (m1, id) ->
  m1 = set_types m (m_types m1) /\
  insert mtype_eqb (m_types m) t = (m_types m1, N.to_nat id).
Proof.
  unfold types_insert. destruct (insert mtype_eqb (m_types m) t) as [s' n] eqn:E.
  intros H; inversion H; subst; clear H. rewrite Nat2N.id. split; reflexivity.
Qed.

Lemma builder_new_shape m ps rs m2 ty ety :
  builder_new m ps rs = (m2, ty, ety) ->
  m2 = set_types m (m_types m2) /\
  (forall i x, types_get m i = Some x -> types_get m2 i = Some x).
Proof.
  unfold builder_new.
  destruct (types_insert m _) as [m1 ty1] eqn:E1.
  destruct (types_insert m1 _) as [m2' ety1] eqn:E2.
  intros H; inversion H; subst; clear H.
  apply types_insert_shape in E1. destruct E1 as [S1 I1].
  apply types_insert_shape in E2. destruct E2 as [S2 I2].
  split.
  - rewrite S2. rewrite S1. reflexivity.
  - intros i x Hx. unfold types_get, aset_index in *.
    eapply insert_keeps; [exact I2|]. eapply insert_keeps; [exact I1|].
    exact Hx.
Qed.

Lemma builder_new_types m ps rs m2 ty ety :
  types_wf (m_types m) -> builder_new m ps rs = (m2, ty, ety) ->
  types_wf (m_types m2) /\
  (exists t', types_get m2 ty = Some t' /\ ty_params t' = ps /\ ty_results t' = rs /\ ty_entry t' = false) /\
  (exists e', types_get m2 ety = Some e' /\ ty_params e' = [] /\ ty_results e' = rs /\ ty_entry e' = true).
Proof.
  intros Hwf. unfold builder_new.
  destruct (types_insert m _) as [m1 ty1] eqn:E1.
  destruct (types_insert m1 _) as [m2' ety1] eqn:E2.
  intros H; inversion H; subst; clear H.
  apply types_insert_shape in E1. destruct E1 as [S1 I1].
  apply types_insert_shape in E2. destruct E2 as [S2 I2].
  destruct (insert_spec _ _ _ _ Hwf I1) as [Hwf1 [t1 [Hi1 He1]]].
  destruct (insert_spec _ _ _ _ Hwf1 I2) as [Hwf2 [t2 [Hi2 He2]]].
  split; [exact Hwf2|]. split.
  - exists t1. split.
    + unfold types_get, aset_index. eapply insert_keeps; [exact I2|exact Hi1].
    + apply mtype_eqb_spec in He1. cbn [ty_params ty_results ty_entry] in He1. tauto.
  - exists t2. split; [exact Hi2|].
    apply mtype_eqb_spec in He2. cbn [ty_params ty_results ty_entry] in He2. tauto.
Qed.

(* ------------------------------------------------------------------ add_arg_locals *)
Definition mk_arg_local (t : valty) : mlocal := {| lo_ty := t; lo_name := None |}.
Definition arg_locals_arena (a : tarena mlocal) (tys : list valty) : tarena mlocal :=
  {| items := items a ++ map mk_arg_local tys; dead := dead a |}.
Definition arg_ids (a : tarena mlocal) (tys : list valty) : list N :=
  map N.of_nat (seq (length (items a)) (length tys)).

Lemma add_arg_locals_spec tys : forall m,
  add_arg_locals m tys = (set_locals m (arg_locals_arena (m_locals m) tys), arg_ids (m_locals m) tys).
Proof.
  induction tys as [|t r IH]; intros m.
  - cbn [add_arg_locals]. unfold arg_locals_arena, arg_ids. cbn [map length seq]. rewrite app_nil_r.
    destruct m as [? ? ? ? ? l]; destruct l; reflexivity.
  - cbn [add_arg_locals]. rewrite aalloc_eq. cbv beta iota zeta. rewrite IH. cbv beta iota zeta.
    rewrite set_locals_twice.
    change (m_locals (set_locals m ?x)) with x.
    unfold arg_locals_arena, arg_ids. cbn [items dead map length seq].
    rewrite <- app_assoc. cbn [app]. rewrite app_length. cbn [length]. rewrite Nat.add_1_r.
    reflexivity.
Qed.

(* ================================================================== replace_imported_func *)
Definition new_local_func (ty : N) (args : list N) (ar : IR.arena) : mlocalfunc :=
  {| lf_ty := ty; lf_args := args; lf_arena := ar; lf_entry := 0%N; lf_orig_range := None; lf_instr_mapping := [] |}.

(* Inversion: everything the successful run computed, and the exact shape of the result. *)
Lemma replace_imported_inv m fid body m' :
  replace_imported_func m fid body = POk m' ->
  exists iid f imp tid t T ty ety ar ia,
    imported_func_import m fid = Some iid /\
    aget (m_funcs m) fid = Some f /\
    fn_kind f = FK_Import imp tid /\
    types_get m tid = Some t /\
    add_arg_locals m (ty_params t) =
      (set_locals m (arg_locals_arena (m_locals m) (ty_params t)), arg_ids (m_locals m) (ty_params t)) /\
    builder_new (set_locals m (arg_locals_arena (m_locals m) (ty_params t))) (ty_params t) (ty_results t)
      = (set_types (set_locals m (arg_locals_arena (m_locals m) (ty_params t))) T, ty, ety) /\
    run_builder ety (body (arg_ids (m_locals m) (ty_params t))) = Ok ar /\
    adelete (m_imports m) iid = Some ia /\
    m' = set_imports
           (set_funcs (set_types (set_locals m (arg_locals_arena (m_locals m) (ty_params t))) T)
              (aset_at (m_funcs m) fid
                 (fun f0 => {| fn_kind := FK_Local (new_local_func ty (arg_ids (m_locals m) (ty_params t)) ar);
                               fn_name := fn_name f0 |}))) ia.
Proof.
  unfold replace_imported_func.
  destruct (imported_func_import m fid) as [iid|] eqn:Ei; cbn [of_opt_err pbind]; [|discriminate].
  destruct (aget (m_funcs m) fid) as [f|] eqn:Ef; cbn [of_opt_panic pbind]; [|discriminate].
  destruct (fn_kind f) as [imp tid|lf0|ty0] eqn:Ek; try discriminate.
  destruct (types_get m tid) as [t|] eqn:Et; cbn [of_opt_panic pbind]; [|discriminate].
  rewrite add_arg_locals_spec.
  set (L := arg_locals_arena (m_locals m) (ty_params t)).
  set (args := arg_ids (m_locals m) (ty_params t)).
  destruct (builder_new (set_locals m L) (ty_params t) (ty_results t)) as [[m2 ty] ety] eqn:EB.
  destruct (run_builder ety (body args)) as [ar| |] eqn:ER; try discriminate.
  pose proof (builder_new_shape _ _ _ _ _ _ EB) as [S _].
  remember (m_types m2) as T eqn:HT. clear HT. subst m2.
  change (m_imports (set_funcs ?a ?b)) with (m_imports a).
  change (m_imports (set_types ?a ?b)) with (m_imports a).
  change (m_imports (set_locals ?a ?b)) with (m_imports a).
  change (m_funcs (set_types ?a ?b)) with (m_funcs a).
  change (m_funcs (set_locals ?a ?b)) with (m_funcs a).
  destruct (adelete (m_imports m) iid) as [ia|] eqn:Ed; cbn [of_opt_panic pbind]; [|discriminate].
  intros H; inversion H; subst m'; clear H.
  exists iid, f, imp, tid, t, T, ty, ety, ar, ia.
  repeat (split; [first [reflexivity|assumption|apply add_arg_locals_spec]|]).
  reflexivity.
Qed.

(* The same, as one equation per field of the result (never unfold the setter tower again). *)
Record imported_run (m : wir) (fid : N) (body : list N -> list bop) (m' : wir)
       (iid : N) (f : mfunc) (imp tid : N) (t : mtype) (ty ety : N) (ar : IR.arena) : Prop := {
  ir_import : imported_func_import m fid = Some iid;
  ir_func : aget (m_funcs m) fid = Some f;
  ir_kind : fn_kind f = FK_Import imp tid;
  ir_type : types_get m tid = Some t;
  ir_args : add_arg_locals m (ty_params t) =
            (set_locals m (arg_locals_arena (m_locals m) (ty_params t)), arg_ids (m_locals m) (ty_params t));
  ir_builder : builder_new (set_locals m (arg_locals_arena (m_locals m) (ty_params t))) (ty_params t) (ty_results t)
               = (set_types (set_locals m (arg_locals_arena (m_locals m) (ty_params t))) (m_types m'), ty, ety);
  ir_body : run_builder ety (body (arg_ids (m_locals m) (ty_params t))) = Ok ar;
  ir_delete : adelete (m_imports m) iid = Some (m_imports m');
  ir_funcs : m_funcs m' = aset_at (m_funcs m) fid
               (fun f0 => {| fn_kind := FK_Local (new_local_func ty (arg_ids (m_locals m) (ty_params t)) ar);
                             fn_name := fn_name f0 |});
  ir_locals : m_locals m' = arg_locals_arena (m_locals m) (ty_params t);
  ir_tables : m_tables m' = m_tables m;
  ir_memories : m_memories m' = m_memories m;
  ir_globals : m_globals m' = m_globals m;
  ir_exports : m_exports m' = m_exports m;
  ir_elements : m_elements m' = m_elements m;
  ir_data : m_data m' = m_data m;
  ir_start : m_start m' = m_start m;
  ir_customs : m_customs m' = m_customs m;
  ir_producers : m_producers m' = m_producers m;
  ir_name : m_name m' = m_name m;
  ir_config : m_config m' = m_config m;
  ir_debug : m_debug m' = m_debug m;
  ir_cso : m_code_section_offset m' = m_code_section_offset m }.

Lemma replace_imported_run m fid body m' :
  replace_imported_func m fid body = POk m' ->
  exists iid f imp tid t ty ety ar, imported_run m fid body m' iid f imp tid t ty ety ar.
Proof.
  intros H. destruct (replace_imported_inv _ _ _ _ H)
    as (iid & f & imp & tid & t & T & ty & ety & ar & ia & Hi & Hf & Hk & Ht & Ha & Hb & Hr & Hd & Hm).
  exists iid, f, imp, tid, t, ty, ety, ar. subst m'.
  constructor; try assumption; reflexivity.
Qed.

(* -- facts about the fresh argument locals *)
Lemma arg_locals_typed tys : forall pre : list mlocal,
  Forall2 (fun a ty => nth_error (pre ++ map mk_arg_local tys) (N.to_nat a) = Some (mk_arg_local ty))
          (map N.of_nat (seq (length pre) (length tys))) tys.
Proof.
  induction tys as [|t r IH]; intros pre; cbn [length seq map]; constructor.
  - rewrite Nat2N.id, nth_error_app2, Nat.sub_diag by lia. reflexivity.
  - specialize (IH (pre ++ [mk_arg_local t])). rewrite app_length in IH. cbn [length] in IH.
    rewrite Nat.add_1_r, <- app_assoc in IH. exact IH.
Qed.

Lemma arg_ids_fresh (a : tarena mlocal) tys x :
  In x (arg_ids a tys) -> length (items a) <= N.to_nat x < length (items a) + length tys.
Proof.
  unfold arg_ids. rewrite in_map_iff. intros [n [<- Hin]]. rewrite Nat2N.id. apply in_seq in Hin. lia.
Qed.

Lemma arg_ids_NoDup (a : tarena mlocal) tys : NoDup (arg_ids a tys).
Proof.
  unfold arg_ids. apply FinFun.Injective_map_NoDup; [|apply seq_NoDup].
  intros x y E. apply Nat2N.inj. exact E.
Qed.

Lemma nth_to_aget (its : list mlocal) (dd : list nat) n (l1 : list N) (l2 : list valty) :
  Forall (fun d => d < n) dd -> Forall (fun a => n <= N.to_nat a) l1 ->
  Forall2 (fun a ty => nth_error its (N.to_nat a) = Some {| lo_ty := ty; lo_name := None |}) l1 l2 ->
  Forall2 (fun a ty => aget {| items := its; dead := dd |} a = Some {| lo_ty := ty; lo_name := None |}) l1 l2.
Proof.
  intros Hb Hfr HF2. induction HF2 as [|a ty0 l1 l2 Hh HF2 IH]; constructor.
  - inversion Hfr; subst. unfold aget, index, get, is_dead. cbn [items dead].
    destruct (existsb _ _) eqn:E; [|exact Hh].
    apply existsb_exists in E. destruct E as [d [Hd He]]. apply Nat.eqb_eq in He; subst d.
    rewrite Forall_forall in Hb. apply Hb in Hd. lia.
  - apply IH. inversion Hfr; assumption.
Qed.

Section Imported.
  Variables (m : wir) (fid : N) (body : list N -> list bop) (m' : wir).
  Hypothesis Hrun : replace_imported_func m fid body = POk m'.

  (* I1: same identifier, now a local function, same name *)
  Theorem imported_I1 f :
    aget (m_funcs m) fid = Some f ->
    exists lf f', aget (m_funcs m') fid = Some f' /\ fn_kind f' = FK_Local lf /\ fn_name f' = fn_name f.
  Proof.
    intros Hf. destruct (replace_imported_run _ _ _ _ Hrun) as (iid & f0 & imp & tid & t & ty & ety & ar & R).
    rewrite (ir_func _ _ _ _ _ _ _ _ _ _ _ _ R) in Hf. inversion Hf; subst f0.
    eexists. eexists. split; [|split].
    - rewrite (ir_funcs _ _ _ _ _ _ _ _ _ _ _ _ R). apply aget_aset_at_eq. exact (ir_func _ _ _ _ _ _ _ _ _ _ _ _ R).
    - reflexivity.
    - reflexivity.
  Qed.

  (* I2 (under well-formed ModuleTypes, see [imported_I2_refuted] below): signature preserved *)
  Theorem imported_I2_partial f imp tid t f' lf :
    types_wf (m_types m) ->
    aget (m_funcs m) fid = Some f -> fn_kind f = FK_Import imp tid -> types_get m tid = Some t ->
    aget (m_funcs m') fid = Some f' -> fn_kind f' = FK_Local lf ->
    exists t', types_get m' (lf_ty lf) = Some t' /\
               ty_params t' = ty_params t /\ ty_results t' = ty_results t /\ ty_entry t' = false.
  Proof.
    intros Hwf Hf Hk Ht Hf' Hk'.
    destruct (replace_imported_run _ _ _ _ Hrun) as (iid & f0 & imp0 & tid0 & t0 & ty & ety & ar & R).
    rewrite (ir_func _ _ _ _ _ _ _ _ _ _ _ _ R) in Hf. inversion Hf; subst f0.
    rewrite (ir_kind _ _ _ _ _ _ _ _ _ _ _ _ R) in Hk. inversion Hk; subst imp0 tid0.
    rewrite (ir_type _ _ _ _ _ _ _ _ _ _ _ _ R) in Ht. inversion Ht; subst t0.
    rewrite (ir_funcs _ _ _ _ _ _ _ _ _ _ _ _ R) in Hf'.
    rewrite (aget_aset_at_eq _ _ _ _ (ir_func _ _ _ _ _ _ _ _ _ _ _ _ R)) in Hf'.
    inversion Hf'; subst f'. cbn [fn_kind] in Hk'. inversion Hk'; subst lf. cbn [lf_ty new_local_func].
    pose proof (ir_builder _ _ _ _ _ _ _ _ _ _ _ _ R) as HB.
    apply builder_new_types in HB; [|exact Hwf].
    destruct HB as [_ [[t' [Hg Hs]] _]]. exists t'. split; [exact Hg|exact Hs].
  Qed.

  (* well-formedness of ModuleTypes is preserved, so edits can be chained *)
  Theorem imported_types_wf : types_wf (m_types m) -> types_wf (m_types m').
  Proof.
    intros Hwf. destruct (replace_imported_run _ _ _ _ Hrun) as (iid & f0 & imp0 & tid0 & t0 & ty & ety & ar & R).
    pose proof (ir_builder _ _ _ _ _ _ _ _ _ _ _ _ R) as HB.
    apply builder_new_types in HB; [|exact Hwf]. tauto.
  Qed.

  (* existing types keep their ids and contents (no well-formedness needed) *)
  Theorem imported_types_kept i x : types_get m i = Some x -> types_get m' i = Some x.
  Proof.
    intros Hx. destruct (replace_imported_run _ _ _ _ Hrun) as (iid & f0 & imp0 & tid0 & t0 & ty & ety & ar & R).
    pose proof (ir_builder _ _ _ _ _ _ _ _ _ _ _ _ R) as HB.
    apply builder_new_shape in HB. destruct HB as [_ HB]. apply (HB i x). exact Hx.
  Qed.

  (* I3: every other function untouched; none added or deleted *)
  Theorem imported_I3 :
    (forall g, g <> fid -> aget (m_funcs m') g = aget (m_funcs m) g) /\
    length (items (m_funcs m')) = length (items (m_funcs m)) /\
    dead (m_funcs m') = dead (m_funcs m).
  Proof.
    destruct (replace_imported_run _ _ _ _ Hrun) as (iid & f0 & imp0 & tid0 & t0 & ty & ety & ar & R).
    rewrite (ir_funcs _ _ _ _ _ _ _ _ _ _ _ _ R). split; [|split].
    - intros g Hg. apply aget_aset_at_ne. exact Hg.
    - apply aset_at_length.
    - apply aset_at_dead.
  Qed.

  (* I4: exactly the (first) import of that function is removed *)
  Theorem imported_I4 :
    exists iid, imported_func_import m fid = Some iid /\
      (forall i, i <> iid -> aget (m_imports m') i = aget (m_imports m) i) /\
      aget (m_imports m') iid = None /\
      (forall imp, aget (m_imports m) iid = Some imp -> im_kind imp = MI_Func fid).
  Proof.
    destruct (replace_imported_run _ _ _ _ Hrun) as (iid & f0 & imp0 & tid0 & t0 & ty & ety & ar & R).
    exists iid. split; [exact (ir_import _ _ _ _ _ _ _ _ _ _ _ _ R)|].
    pose proof (ir_delete _ _ _ _ _ _ _ _ _ _ _ _ R) as Hd. split; [|split].
    - intros i Hi. eapply adelete_other; eauto.
    - eapply adelete_gone; eauto.
    - intros imp Himp. pose proof (ir_import _ _ _ _ _ _ _ _ _ _ _ _ R) as Hi.
      unfold imported_func_import in Hi.
      destruct (find _ (aiter (m_imports m))) as [p|] eqn:Efind; [|discriminate].
      inversion Hi; subst iid. apply aiter_find_first in Efind. destruct Efind as [Hg [Hp _]].
      rewrite Hg in Himp. inversion Himp; subst imp.
      destruct (im_kind (snd p)) as [fx| | |]; try discriminate.
      apply N.eqb_eq in Hp. subst fx. reflexivity.
  Qed.

  (* I4, in full: the deleted import was live, imports fid, and no earlier live import does;
     the arena only gained a tombstone *)
  Theorem imported_I4_first :
    exists iid imp, imported_func_import m fid = Some iid /\
      aget (m_imports m) iid = Some imp /\ im_kind imp = MI_Func fid /\
      (forall j x, aget (m_imports m) j = Some x -> (j < iid)%N -> im_kind x <> MI_Func fid) /\
      length (items (m_imports m')) = length (items (m_imports m)) /\
      dead (m_imports m') = N.to_nat iid :: dead (m_imports m).
  Proof.
    destruct (replace_imported_run _ _ _ _ Hrun) as (iid & f0 & imp0 & tid0 & t0 & ty & ety & ar & R).
    pose proof (ir_import _ _ _ _ _ _ _ _ _ _ _ _ R) as Hi. pose proof Hi as Hi0.
    unfold imported_func_import in Hi.
    destruct (find _ (aiter (m_imports m))) as [p|] eqn:Efind; [|discriminate].
    inversion Hi; subst iid. apply aiter_find_first in Efind. destruct Efind as [Hg [Hp Hfirst]].
    exists (fst p), (snd p). split; [exact Hi0|]. split; [exact Hg|]. split; [|split; [|]].
    - destruct (im_kind (snd p)) as [fx| | |]; try discriminate.
      apply N.eqb_eq in Hp. subst fx. reflexivity.
    - intros j x Hj Hlt E. specialize (Hfirst j x Hj). cbn [snd] in Hfirst.
      rewrite E, N.eqb_refl in Hfirst. assert (false = true -> False) by discriminate.
      apply H. symmetry. apply Hfirst. lia.
    - pose proof (ir_delete _ _ _ _ _ _ _ _ _ _ _ _ R) as Hd. unfold adelete, delete in Hd.
      destruct (contains (m_imports m) (N.to_nat (fst p))); [|discriminate].
      inversion Hd as [Hd']. cbn [items dead]. split; [apply Proofs.Arena.upd_length|reflexivity].
  Qed.

  (* I5: frame *)
  Theorem imported_I5 :
    m_tables m' = m_tables m /\ m_memories m' = m_memories m /\ m_globals m' = m_globals m /\
    m_exports m' = m_exports m /\ m_elements m' = m_elements m /\ m_data m' = m_data m /\
    m_start m' = m_start m /\ m_customs m' = m_customs m /\ m_producers m' = m_producers m /\
    m_name m' = m_name m /\ m_config m' = m_config m.
  Proof.
    destruct (replace_imported_run _ _ _ _ Hrun) as (iid & f0 & imp0 & tid0 & t0 & ty & ety & ar & R).
    destruct R. repeat split; assumption.
  Qed.

  Theorem imported_I5_extra :
    m_debug m' = m_debug m /\ m_code_section_offset m' = m_code_section_offset m.
  Proof.
    destruct (replace_imported_run _ _ _ _ Hrun) as (iid & f0 & imp0 & tid0 & t0 & ty & ety & ar & R).
    destruct R. split; assumption.
  Qed.

  (* I6: locals *)
  Theorem imported_I6 f imp tid t f' lf :
    aget (m_funcs m) fid = Some f -> fn_kind f = FK_Import imp tid -> types_get m tid = Some t ->
    aget (m_funcs m') fid = Some f' -> fn_kind f' = FK_Local lf ->
    (forall l, l < length (items (m_locals m)) ->
               nth_error (items (m_locals m')) l = nth_error (items (m_locals m)) l) /\
    dead (m_locals m') = dead (m_locals m) /\
    length (items (m_locals m')) = length (items (m_locals m)) + length (ty_params t) /\
    lf_args lf = map N.of_nat (seq (length (items (m_locals m))) (length (ty_params t))) /\
    length (lf_args lf) = length (ty_params t) /\
    NoDup (lf_args lf) /\
    Forall (fun a => aget (m_locals m) a = None) (lf_args lf) /\
    Forall2 (fun a ty => nth_error (items (m_locals m')) (N.to_nat a) = Some {| lo_ty := ty; lo_name := None |})
            (lf_args lf) (ty_params t) /\
    (Forall (fun d => d < length (items (m_locals m))) (dead (m_locals m)) ->
     Forall2 (fun a ty => aget (m_locals m') a = Some {| lo_ty := ty; lo_name := None |})
             (lf_args lf) (ty_params t)).
  Proof.
    intros Hf Hk Ht Hf' Hk'.
    destruct (replace_imported_run _ _ _ _ Hrun) as (iid & f0 & imp0 & tid0 & t0 & ty & ety & ar & R).
    rewrite (ir_func _ _ _ _ _ _ _ _ _ _ _ _ R) in Hf. inversion Hf; subst f0.
    rewrite (ir_kind _ _ _ _ _ _ _ _ _ _ _ _ R) in Hk. inversion Hk; subst imp0 tid0.
    rewrite (ir_type _ _ _ _ _ _ _ _ _ _ _ _ R) in Ht. inversion Ht; subst t0.
    rewrite (ir_funcs _ _ _ _ _ _ _ _ _ _ _ _ R) in Hf'.
    rewrite (aget_aset_at_eq _ _ _ _ (ir_func _ _ _ _ _ _ _ _ _ _ _ _ R)) in Hf'.
    inversion Hf'; subst f'. cbn [fn_kind] in Hk'. inversion Hk'; subst lf. cbn [lf_args new_local_func].
    rewrite (ir_locals _ _ _ _ _ _ _ _ _ _ _ _ R). unfold arg_locals_arena. cbn [items dead].
    assert (HF2 : Forall2 (fun a ty0 => nth_error (items (m_locals m) ++ map mk_arg_local (ty_params t)) (N.to_nat a)
                                        = Some {| lo_ty := ty0; lo_name := None |})
                          (arg_ids (m_locals m) (ty_params t)) (ty_params t))
      by (apply arg_locals_typed).
    split; [intros l Hl; apply nth_error_app1; exact Hl|].
    split; [reflexivity|].
    split; [rewrite app_length, map_length; reflexivity|].
    split; [reflexivity|].
    split; [unfold arg_ids; rewrite map_length, seq_length; reflexivity|].
    split; [apply arg_ids_NoDup|].
    split.
    { apply Forall_forall. intros a Ha. apply arg_ids_fresh in Ha.
      unfold aget, index, get. destruct (is_dead _ _); [reflexivity|].
      apply nth_error_None. lia. }
    split; [exact HF2|].
    intros Hb.
    assert (Hfr : Forall (fun a => length (items (m_locals m)) <= N.to_nat a) (arg_ids (m_locals m) (ty_params t))).
    { apply Forall_forall. intros a Ha. apply arg_ids_fresh in Ha. lia. }
    exact (nth_to_aget _ _ _ _ _ Hb Hfr HF2).
  Qed.

  (* I7: the body is what the builder built, from the model's entry type and argument locals *)
  Theorem imported_I7 f imp tid t f' lf :
    aget (m_funcs m) fid = Some f -> fn_kind f = FK_Import imp tid -> types_get m tid = Some t ->
    aget (m_funcs m') fid = Some f' -> fn_kind f' = FK_Local lf ->
    exists m1 args m2 ty ety ar,
      add_arg_locals m (ty_params t) = (m1, args) /\
      builder_new m1 (ty_params t) (ty_results t) = (m2, ty, ety) /\
      run_builder ety (body args) = Ok ar /\
      lf = {| lf_ty := ty; lf_args := args; lf_arena := ar; lf_entry := 0%N;
              lf_orig_range := None; lf_instr_mapping := [] |}.
  Proof.
    intros Hf Hk Ht Hf' Hk'.
    destruct (replace_imported_run _ _ _ _ Hrun) as (iid & f0 & imp0 & tid0 & t0 & ty & ety & ar & R).
    rewrite (ir_func _ _ _ _ _ _ _ _ _ _ _ _ R) in Hf. inversion Hf; subst f0.
    rewrite (ir_kind _ _ _ _ _ _ _ _ _ _ _ _ R) in Hk. inversion Hk; subst imp0 tid0.
    rewrite (ir_type _ _ _ _ _ _ _ _ _ _ _ _ R) in Ht. inversion Ht; subst t0.
    rewrite (ir_funcs _ _ _ _ _ _ _ _ _ _ _ _ R) in Hf'.
    rewrite (aget_aset_at_eq _ _ _ _ (ir_func _ _ _ _ _ _ _ _ _ _ _ _ R)) in Hf'.
    inversion Hf'; subst f'. cbn [fn_kind] in Hk'. inversion Hk'; subst lf.
    do 6 eexists. split; [exact (ir_args _ _ _ _ _ _ _ _ _ _ _ _ R)|].
    split; [exact (ir_builder _ _ _ _ _ _ _ _ _ _ _ _ R)|].
    split; [exact (ir_body _ _ _ _ _ _ _ _ _ _ _ _ R)|reflexivity].
  Qed.
End Imported.

(* I8: failure modes (an error is returned; there is no new module, so nothing changed) *)
Lemma imported_func_import_none m fid :
  (forall i imp, aget (m_imports m) i = Some imp -> im_kind imp <> MI_Func fid) ->
  imported_func_import m fid = None.
Proof.
  intros Hno. unfold imported_func_import.
  destruct (find _ (aiter (m_imports m))) as [p|] eqn:Efind; [|reflexivity]. exfalso.
  apply aiter_find_first in Efind. destruct Efind as [Hg [Hp _]].
  apply (Hno _ _ Hg). destruct (im_kind (snd p)) as [fx| | |]; try discriminate.
  apply N.eqb_eq in Hp. subst fx. reflexivity.
Qed.

Theorem imported_I8_not_imported m fid body :
  (forall i imp, aget (m_imports m) i = Some imp -> im_kind imp <> MI_Func fid) ->
  replace_imported_func m fid body = PErr.
Proof.
  intros Hno. unfold replace_imported_func. rewrite (imported_func_import_none _ _ Hno). reflexivity.
Qed.

Theorem imported_I8_not_import_kind m fid body iid f :
  imported_func_import m fid = Some iid -> aget (m_funcs m) fid = Some f ->
  (forall imp tid, fn_kind f <> FK_Import imp tid) ->
  replace_imported_func m fid body = PErr.
Proof.
  intros Hi Hf Hk. unfold replace_imported_func. rewrite Hi, Hf. cbn [of_opt_err of_opt_panic pbind].
  destruct (fn_kind f) as [imp tid| |]; [exfalso; eapply Hk; reflexivity|reflexivity|reflexivity].
Qed.

(* success implies the preconditions: fid is the target of a live import and an FK_Import *)
Theorem imported_ok_pre m fid body m' :
  replace_imported_func m fid body = POk m' ->
  exists iid f imp tid t, imported_func_import m fid = Some iid /\ aget (m_funcs m) fid = Some f /\
    fn_kind f = FK_Import imp tid /\ types_get m tid = Some t.
Proof.
  intros H. destruct (replace_imported_run _ _ _ _ H) as (iid & f0 & imp0 & tid0 & t0 & ty & ety & ar & R).
  exists iid, f0, imp0, tid0, t0. destruct R. auto.
Qed.

(* the bundle *)
Theorem replace_imported_spec m fid body m' :
  types_wf (m_types m) ->
  replace_imported_func m fid body = POk m' ->
  exists iid f imp tid t lf,
    imported_func_import m fid = Some iid /\ aget (m_funcs m) fid = Some f /\
    fn_kind f = FK_Import imp tid /\ types_get m tid = Some t /\
    (* I1 *) aget (m_funcs m') fid = Some {| fn_kind := FK_Local lf; fn_name := fn_name f |} /\
    (* I2 *) (exists t', types_get m' (lf_ty lf) = Some t' /\
                ty_params t' = ty_params t /\ ty_results t' = ty_results t /\ ty_entry t' = false) /\
    (* I3 *) ((forall g, g <> fid -> aget (m_funcs m') g = aget (m_funcs m) g) /\
              length (items (m_funcs m')) = length (items (m_funcs m)) /\
              dead (m_funcs m') = dead (m_funcs m)) /\
    (* I4 *) ((forall i, i <> iid -> aget (m_imports m') i = aget (m_imports m) i) /\
              aget (m_imports m') iid = None /\
              (forall imp0, aget (m_imports m) iid = Some imp0 -> im_kind imp0 = MI_Func fid)) /\
    (* I5 *) (m_tables m' = m_tables m /\ m_memories m' = m_memories m /\ m_globals m' = m_globals m /\
              m_exports m' = m_exports m /\ m_elements m' = m_elements m /\ m_data m' = m_data m /\
              m_start m' = m_start m /\ m_customs m' = m_customs m /\ m_producers m' = m_producers m /\
              m_name m' = m_name m /\ m_config m' = m_config m) /\
    (* I6 *) ((forall l, l < length (items (m_locals m)) ->
                 nth_error (items (m_locals m')) l = nth_error (items (m_locals m)) l) /\
              lf_args lf = map N.of_nat (seq (length (items (m_locals m))) (length (ty_params t))) /\
              Forall2 (fun a ty => nth_error (items (m_locals m')) (N.to_nat a) = Some {| lo_ty := ty; lo_name := None |})
                      (lf_args lf) (ty_params t)) /\
    (* I7 *) (exists m1 args m2 ty ety ar,
                add_arg_locals m (ty_params t) = (m1, args) /\
                builder_new m1 (ty_params t) (ty_results t) = (m2, ty, ety) /\
                run_builder ety (body args) = Ok ar /\ lf_arena lf = ar /\ lf_args lf = args /\ lf_ty lf = ty) /\
    types_wf (m_types m').
Proof.
  intros Hwf H.
  destruct (imported_ok_pre _ _ _ _ H) as (iid & f & imp & tid & t & Hi & Hf & Hk & Ht).
  destruct (imported_I1 _ _ _ _ H f Hf) as (lf & f' & Hf' & Hk' & Hn).
  exists iid, f, imp, tid, t, lf.
  repeat (split; [assumption|]).
  split. { rewrite Hf'. destruct f' as [k n]. cbn [fn_kind fn_name] in *. subst. reflexivity. }
  split. { eapply imported_I2_partial; eauto. }
  split. { eapply imported_I3; eauto. }
  split. { destruct (imported_I4 _ _ _ _ H) as (iid' & Hi' & H4). rewrite Hi in Hi'. inversion Hi'; subst iid'. exact H4. }
  split. { eapply imported_I5; eauto. }
  split. { destruct (imported_I6 _ _ _ _ H f imp tid t f' lf Hf Hk Ht Hf' Hk') as (A1 & _ & _ & A4 & _ & _ & _ & A8 & _). auto. }
  split. { destruct (imported_I7 _ _ _ _ H f imp tid t f' lf Hf Hk Ht Hf' Hk') as (m1 & args & m2 & ty & ety & ar & B1 & B2 & B3 & B4).
           exists m1, args, m2, ty, ety, ar. subst lf. cbn [lf_arena lf_args lf_ty]. auto 10. }
  eapply imported_types_wf; eauto.
Qed.

(* ================================================================== replace_exported_func_core *)
Definition retarget (nid : N) (e : mexport) : mexport :=
  {| ex_name := ex_name e; ex_kind := ex_kind e; ex_item := nid |}.

Lemma replace_exported_inv m fid body m' nid :
  replace_exported_func_core m fid body = POk (m', nid) ->
  exists eid f lf0 t T ty ety ar e,
    exported_func_export m fid = Some eid /\
    aget (m_funcs m) fid = Some f /\
    fn_kind f = FK_Local lf0 /\
    types_get m (lf_ty lf0) = Some t /\
    builder_new m (ty_params t) (ty_results t) = (set_types m T, ty, ety) /\
    run_builder ety (body (lf_args lf0)) = Ok ar /\
    aget (m_exports m) eid = Some e /\
    nid = N.of_nat (length (items (m_funcs m))) /\
    m' = set_exports
           (set_funcs (set_types m T)
              {| items := items (m_funcs m) ++
                          [{| fn_kind := FK_Local (new_local_func ty (lf_args lf0) ar); fn_name := None |}];
                 dead := dead (m_funcs m) |})
           (aset_at (m_exports m) eid (retarget nid)).
Proof.
  unfold replace_exported_func_core.
  destruct (exported_func_export m fid) as [eid|] eqn:Ee; cbn [of_opt_err pbind]; [|discriminate].
  destruct (aget (m_funcs m) fid) as [f|] eqn:Ef; cbn [of_opt_panic pbind]; [|discriminate].
  destruct (fn_kind f) as [imp tid|lf0|ty0] eqn:Ek; try discriminate.
  destruct (types_get m (lf_ty lf0)) as [t|] eqn:Et; cbn [of_opt_panic pbind]; [|discriminate].
  destruct (builder_new m (ty_params t) (ty_results t)) as [[m2 ty] ety] eqn:EB.
  destruct (run_builder ety (body (lf_args lf0))) as [ar| |] eqn:ER; try discriminate.
  pose proof (builder_new_shape _ _ _ _ _ _ EB) as [S _].
  remember (m_types m2) as T eqn:HT. clear HT. subst m2.
  rewrite aalloc_eq. cbv beta iota zeta.
  change (m_exports (set_funcs ?a ?b)) with (m_exports a).
  change (m_exports (set_types ?a ?b)) with (m_exports a).
  change (m_funcs (set_types ?a ?b)) with (m_funcs a).
  destruct (aget (m_exports m) eid) as [e|] eqn:Eg; cbn [of_opt_panic pbind]; [|discriminate].
  intros H; inversion H; subst m' nid; clear H.
  exists eid, f, lf0, t, T, ty, ety, ar, e.
  repeat (split; [first [reflexivity|assumption]|]).
  reflexivity.
Qed.

Record exported_run (m : wir) (fid : N) (body : list N -> list bop) (m' : wir) (nid : N)
       (eid : N) (f : mfunc) (lf0 : mlocalfunc) (t : mtype) (ty ety : N) (ar : IR.arena) (e : mexport) : Prop := {
  er_export : exported_func_export m fid = Some eid;
  er_func : aget (m_funcs m) fid = Some f;
  er_kind : fn_kind f = FK_Local lf0;
  er_type : types_get m (lf_ty lf0) = Some t;
  er_builder : builder_new m (ty_params t) (ty_results t) = (set_types m (m_types m'), ty, ety);
  er_body : run_builder ety (body (lf_args lf0)) = Ok ar;
  er_exp : aget (m_exports m) eid = Some e;
  er_nid : nid = N.of_nat (length (items (m_funcs m)));
  er_funcs : m_funcs m' = {| items := items (m_funcs m) ++
                               [{| fn_kind := FK_Local (new_local_func ty (lf_args lf0) ar); fn_name := None |}];
                             dead := dead (m_funcs m) |};
  er_exports : m_exports m' = aset_at (m_exports m) eid (retarget nid);
  er_imports : m_imports m' = m_imports m;
  er_tables : m_tables m' = m_tables m;
  er_memories : m_memories m' = m_memories m;
  er_globals : m_globals m' = m_globals m;
  er_elements : m_elements m' = m_elements m;
  er_data : m_data m' = m_data m;
  er_start : m_start m' = m_start m;
  er_customs : m_customs m' = m_customs m;
  er_locals : m_locals m' = m_locals m;
  er_producers : m_producers m' = m_producers m;
  er_name : m_name m' = m_name m;
  er_config : m_config m' = m_config m;
  er_debug : m_debug m' = m_debug m;
  er_cso : m_code_section_offset m' = m_code_section_offset m }.

Lemma replace_exported_run m fid body m' nid :
  replace_exported_func_core m fid body = POk (m', nid) ->
  exists eid f lf0 t ty ety ar e, exported_run m fid body m' nid eid f lf0 t ty ety ar e.
Proof.
  intros H. destruct (replace_exported_inv _ _ _ _ _ H)
    as (eid & f & lf0 & t & T & ty & ety & ar & e & He & Hf & Hk & Ht & Hb & Hr & Hg & Hn & Hm).
  exists eid, f, lf0, t, ty, ety, ar, e. subst m'.
  constructor; try assumption; reflexivity.
Qed.

Lemma exported_func_export_spec m fid eid :
  exported_func_export m fid = Some eid ->
  exists e, aget (m_exports m) eid = Some e /\ ex_kind e = EK_Func /\ ex_item e = fid /\
    forall j x, aget (m_exports m) j = Some x -> (j < eid)%N -> ~ (ex_kind x = EK_Func /\ ex_item x = fid).
Proof.
  unfold exported_func_export.
  destruct (find _ (aiter (m_exports m))) as [p|] eqn:Efind; [|discriminate].
  intros H; inversion H; subst eid. apply aiter_find_first in Efind. destruct Efind as [Hg [Hp Hfirst]].
  exists (snd p). split; [exact Hg|].
  destruct (ex_kind (snd p)) eqn:Ek; try discriminate. apply N.eqb_eq in Hp.
  split; [reflexivity|]. split; [exact Hp|].
  intros j x Hj Hlt [E1 E2]. specialize (Hfirst j x Hj). cbn [snd] in Hfirst.
  rewrite E1, E2, N.eqb_refl in Hfirst. assert (false = true -> False) as Hc by discriminate.
  apply Hc. symmetry. apply Hfirst. lia.
Qed.

Lemma exported_func_export_none m fid :
  (forall i e, aget (m_exports m) i = Some e -> ~ (ex_kind e = EK_Func /\ ex_item e = fid)) ->
  exported_func_export m fid = None.
Proof.
  intros Hno. destruct (exported_func_export m fid) as [eid|] eqn:E; [|reflexivity]. exfalso.
  destruct (exported_func_export_spec _ _ _ E) as (e & Hg & Hk & Hi & _).
  apply (Hno _ _ Hg). auto.
Qed.

Section Exported.
  Variables (m : wir) (fid : N) (body : list N -> list bop) (m' : wir) (nid : N).
  Hypothesis Hrun : replace_exported_func_core m fid body = POk (m', nid).

  (* E1, the part that needs no hypothesis: the id is the arena's next id and the new item sits there *)
  Theorem exported_E1_id :
    nid = N.of_nat (length (items (m_funcs m))) /\
    exists lf, nth_error (items (m_funcs m')) (N.to_nat nid) = Some {| fn_kind := FK_Local lf; fn_name := None |} /\
               length (items (m_funcs m')) = S (length (items (m_funcs m))) /\
               dead (m_funcs m') = dead (m_funcs m).
  Proof.
    destruct (replace_exported_run _ _ _ _ _ Hrun) as (eid & f & lf0 & t & ty & ety & ar & e & R).
    split; [exact (er_nid _ _ _ _ _ _ _ _ _ _ _ _ _ R)|].
    rewrite (er_funcs _ _ _ _ _ _ _ _ _ _ _ _ _ R), (er_nid _ _ _ _ _ _ _ _ _ _ _ _ _ R), Nat2N.id.
    eexists. cbn [items dead]. split; [|split; [|reflexivity]].
    - rewrite nth_error_app2, Nat.sub_diag by lia. reflexivity.
    - rewrite app_length, Nat.add_1_r. reflexivity.
  Qed.

  (* E1 (under: no id beyond the function arena is tombstoned; ModuleTypes well-formed) *)
  Theorem exported_E1_partial f lf0 t :
    Forall (fun d => d < length (items (m_funcs m))) (dead (m_funcs m)) ->
    types_wf (m_types m) ->
    aget (m_funcs m) fid = Some f -> fn_kind f = FK_Local lf0 -> types_get m (lf_ty lf0) = Some t ->
    nid = N.of_nat (length (items (m_funcs m))) /\
    exists lf, aget (m_funcs m') nid = Some {| fn_kind := FK_Local lf; fn_name := None |} /\
      (exists t', types_get m' (lf_ty lf) = Some t' /\
                  ty_params t' = ty_params t /\ ty_results t' = ty_results t /\ ty_entry t' = false) /\
      lf_args lf = lf_args lf0.
  Proof.
    intros Hb Hwf Hf Hk Ht.
    destruct (replace_exported_run _ _ _ _ _ Hrun) as (eid & f0 & lf1 & t0 & ty & ety & ar & e & R).
    rewrite (er_func _ _ _ _ _ _ _ _ _ _ _ _ _ R) in Hf. inversion Hf; subst f0.
    rewrite (er_kind _ _ _ _ _ _ _ _ _ _ _ _ _ R) in Hk. inversion Hk; subst lf1.
    rewrite (er_type _ _ _ _ _ _ _ _ _ _ _ _ _ R) in Ht. inversion Ht; subst t0.
    split; [exact (er_nid _ _ _ _ _ _ _ _ _ _ _ _ _ R)|].
    exists (new_local_func ty (lf_args lf0) ar). split; [|split; [|reflexivity]].
    - rewrite (er_funcs _ _ _ _ _ _ _ _ _ _ _ _ _ R), (er_nid _ _ _ _ _ _ _ _ _ _ _ _ _ R).
      unfold aget, index, get, is_dead. cbn [items dead]. rewrite Nat2N.id.
      destruct (existsb _ _) eqn:E.
      + apply existsb_exists in E. destruct E as [d [Hd He]]. apply Nat.eqb_eq in He; subst d.
        rewrite Forall_forall in Hb. apply Hb in Hd. lia.
      + rewrite nth_error_app2, Nat.sub_diag by lia. reflexivity.
    - cbn [lf_ty new_local_func].
      pose proof (er_builder _ _ _ _ _ _ _ _ _ _ _ _ _ R) as HB.
      apply builder_new_types in HB; [|exact Hwf].
      destruct HB as [_ [[t' [Hg Hs]] _]]. exists t'. split; [exact Hg|exact Hs].
  Qed.

  (* the new body is what the builder built *)
  Theorem exported_body f lf0 t :
    aget (m_funcs m) fid = Some f -> fn_kind f = FK_Local lf0 -> types_get m (lf_ty lf0) = Some t ->
    exists m2 ty ety ar,
      builder_new m (ty_params t) (ty_results t) = (m2, ty, ety) /\
      run_builder ety (body (lf_args lf0)) = Ok ar /\
      nth_error (items (m_funcs m')) (N.to_nat nid) =
        Some {| fn_kind := FK_Local {| lf_ty := ty; lf_args := lf_args lf0; lf_arena := ar; lf_entry := 0%N;
                                       lf_orig_range := None; lf_instr_mapping := [] |};
                fn_name := None |}.
  Proof.
    intros Hf Hk Ht.
    destruct (replace_exported_run _ _ _ _ _ Hrun) as (eid & f0 & lf1 & t0 & ty & ety & ar & e & R).
    rewrite (er_func _ _ _ _ _ _ _ _ _ _ _ _ _ R) in Hf. inversion Hf; subst f0.
    rewrite (er_kind _ _ _ _ _ _ _ _ _ _ _ _ _ R) in Hk. inversion Hk; subst lf1.
    rewrite (er_type _ _ _ _ _ _ _ _ _ _ _ _ _ R) in Ht. inversion Ht; subst t0.
    do 4 eexists. split; [exact (er_builder _ _ _ _ _ _ _ _ _ _ _ _ _ R)|].
    split; [exact (er_body _ _ _ _ _ _ _ _ _ _ _ _ _ R)|].
    rewrite (er_funcs _ _ _ _ _ _ _ _ _ _ _ _ _ R), (er_nid _ _ _ _ _ _ _ _ _ _ _ _ _ R), Nat2N.id.
    cbn [items]. rewrite nth_error_app2, Nat.sub_diag by lia. reflexivity.
  Qed.

  Theorem exported_types_wf : types_wf (m_types m) -> types_wf (m_types m').
  Proof.
    intros Hwf. destruct (replace_exported_run _ _ _ _ _ Hrun) as (eid & f0 & lf1 & t0 & ty & ety & ar & e & R).
    pose proof (er_builder _ _ _ _ _ _ _ _ _ _ _ _ _ R) as HB.
    apply builder_new_types in HB; [|exact Hwf]. tauto.
  Qed.

  Theorem exported_types_kept i x : types_get m i = Some x -> types_get m' i = Some x.
  Proof.
    intros Hx. destruct (replace_exported_run _ _ _ _ _ Hrun) as (eid & f0 & lf1 & t0 & ty & ety & ar & e & R).
    pose proof (er_builder _ _ _ _ _ _ _ _ _ _ _ _ _ R) as HB.
    apply builder_new_shape in HB. destruct HB as [_ HB]. apply (HB i x). exact Hx.
  Qed.

  (* E2: every existing function, the original included, is untouched *)
  Theorem exported_E2 :
    forall g, N.to_nat g < length (items (m_funcs m)) -> aget (m_funcs m') g = aget (m_funcs m) g.
  Proof.
    intros g Hg. destruct (replace_exported_run _ _ _ _ _ Hrun) as (eid & f0 & lf1 & t0 & ty & ety & ar & e & R).
    rewrite (er_funcs _ _ _ _ _ _ _ _ _ _ _ _ _ R).
    unfold aget, index, get, is_dead. cbn [items dead].
    destruct (existsb _ _); [reflexivity|]. apply nth_error_app1. exact Hg.
  Qed.

  Corollary exported_E2_orig f : aget (m_funcs m) fid = Some f -> aget (m_funcs m') fid = Some f.
  Proof. intros Hf. rewrite exported_E2; [exact Hf|]. eapply aget_lt; exact Hf. Qed.

  (* E3: only that export is retargeted *)
  Theorem exported_E3 :
    exists eid e, exported_func_export m fid = Some eid /\
      aget (m_exports m) eid = Some e /\ ex_kind e = EK_Func /\ ex_item e = fid /\
      aget (m_exports m') eid = Some {| ex_name := ex_name e; ex_kind := ex_kind e; ex_item := nid |} /\
      (forall x, x <> eid -> aget (m_exports m') x = aget (m_exports m) x) /\
      length (items (m_exports m')) = length (items (m_exports m)) /\
      dead (m_exports m') = dead (m_exports m).
  Proof.
    destruct (replace_exported_run _ _ _ _ _ Hrun) as (eid & f0 & lf1 & t0 & ty & ety & ar & e & R).
    exists eid, e. pose proof (er_export _ _ _ _ _ _ _ _ _ _ _ _ _ R) as He.
    pose proof (er_exp _ _ _ _ _ _ _ _ _ _ _ _ _ R) as Hg.
    destruct (exported_func_export_spec _ _ _ He) as (e' & Hg' & Hk & Hi & _).
    rewrite Hg in Hg'. inversion Hg'; subst e'.
    rewrite (er_exports _ _ _ _ _ _ _ _ _ _ _ _ _ R).
    split; [exact He|]. split; [exact Hg|]. split; [exact Hk|]. split; [exact Hi|].
    split; [exact (aget_aset_at_eq _ _ (retarget nid) _ Hg)|].
    split; [intros x Hx; apply aget_aset_at_ne; exact Hx|].
    split; [apply aset_at_length|apply aset_at_dead].
  Qed.

  (* E4: frame *)
  Theorem exported_E4 :
    m_imports m' = m_imports m /\ m_tables m' = m_tables m /\ m_memories m' = m_memories m /\
    m_globals m' = m_globals m /\ m_elements m' = m_elements m /\ m_data m' = m_data m /\
    m_start m' = m_start m /\ m_customs m' = m_customs m /\ m_locals m' = m_locals m /\
    m_producers m' = m_producers m /\ m_name m' = m_name m /\ m_config m' = m_config m.
  Proof.
    destruct (replace_exported_run _ _ _ _ _ Hrun) as (eid & f0 & lf1 & t0 & ty & ety & ar & e & R).
    destruct R. repeat split; assumption.
  Qed.

  Theorem exported_E4_extra :
    m_debug m' = m_debug m /\ m_code_section_offset m' = m_code_section_offset m.
  Proof.
    destruct (replace_exported_run _ _ _ _ _ Hrun) as (eid & f0 & lf1 & t0 & ty & ety & ar & e & R).
    destruct R. split; assumption.
  Qed.
End Exported.

(* E5: failure modes *)
Theorem exported_E5_not_exported m fid body :
  (forall i e, aget (m_exports m) i = Some e -> ~ (ex_kind e = EK_Func /\ ex_item e = fid)) ->
  replace_exported_func_core m fid body = PErr.
Proof.
  intros Hno. unfold replace_exported_func_core. rewrite (exported_func_export_none _ _ Hno). reflexivity.
Qed.

Theorem exported_E5_not_local m fid body eid f :
  exported_func_export m fid = Some eid -> aget (m_funcs m) fid = Some f ->
  (forall lf, fn_kind f <> FK_Local lf) ->
  replace_exported_func_core m fid body = PErr.
Proof.
  intros He Hf Hk. unfold replace_exported_func_core. rewrite He, Hf. cbn [of_opt_err of_opt_panic pbind].
  destruct (fn_kind f) as [imp tid|lf|ty]; [reflexivity|exfalso; eapply Hk; reflexivity|reflexivity].
Qed.

Theorem exported_ok_pre m fid body m' nid :
  replace_exported_func_core m fid body = POk (m', nid) ->
  exists eid f lf0 t, exported_func_export m fid = Some eid /\ aget (m_funcs m) fid = Some f /\
    fn_kind f = FK_Local lf0 /\ types_get m (lf_ty lf0) = Some t.
Proof.
  intros H. destruct (replace_exported_run _ _ _ _ _ H) as (eid & f0 & lf1 & t0 & ty & ety & ar & e & R).
  exists eid, f0, lf1, t0. destruct R. auto.
Qed.

(* the bundle *)
Theorem replace_exported_spec m fid body m' nid :
  Forall (fun d => d < length (items (m_funcs m))) (dead (m_funcs m)) ->
  types_wf (m_types m) ->
  replace_exported_func_core m fid body = POk (m', nid) ->
  exists eid e f lf0 t lf,
    exported_func_export m fid = Some eid /\ aget (m_exports m) eid = Some e /\
    ex_kind e = EK_Func /\ ex_item e = fid /\
    aget (m_funcs m) fid = Some f /\ fn_kind f = FK_Local lf0 /\ types_get m (lf_ty lf0) = Some t /\
    (* E1 *) (nid = N.of_nat (length (items (m_funcs m))) /\
              aget (m_funcs m') nid = Some {| fn_kind := FK_Local lf; fn_name := None |} /\
              (exists t', types_get m' (lf_ty lf) = Some t' /\
                 ty_params t' = ty_params t /\ ty_results t' = ty_results t /\ ty_entry t' = false) /\
              lf_args lf = lf_args lf0) /\
    (* E2 *) (forall g, N.to_nat g < length (items (m_funcs m)) -> aget (m_funcs m') g = aget (m_funcs m) g) /\
    (* E3 *) (aget (m_exports m') eid = Some {| ex_name := ex_name e; ex_kind := ex_kind e; ex_item := nid |} /\
              (forall x, x <> eid -> aget (m_exports m') x = aget (m_exports m) x) /\
              length (items (m_exports m')) = length (items (m_exports m)) /\
              dead (m_exports m') = dead (m_exports m)) /\
    (* E4 *) (m_imports m' = m_imports m /\ m_tables m' = m_tables m /\ m_memories m' = m_memories m /\
              m_globals m' = m_globals m /\ m_elements m' = m_elements m /\ m_data m' = m_data m /\
              m_start m' = m_start m /\ m_customs m' = m_customs m /\ m_locals m' = m_locals m /\
              m_producers m' = m_producers m /\ m_name m' = m_name m /\ m_config m' = m_config m) /\
    (* body *) (exists m2 ty ety ar, builder_new m (ty_params t) (ty_results t) = (m2, ty, ety) /\
                  run_builder ety (body (lf_args lf0)) = Ok ar /\ lf_arena lf = ar /\ lf_ty lf = ty) /\
    types_wf (m_types m') /\
    Forall (fun d => d < length (items (m_funcs m'))) (dead (m_funcs m')).
Proof.
  intros Hb Hwf H.
  destruct (exported_ok_pre _ _ _ _ _ H) as (eid & f & lf0 & t & He & Hf & Hk & Ht).
  destruct (exported_E3 _ _ _ _ _ H) as (eid' & e & He' & Hg & Hek & Hei & H3).
  rewrite He in He'. inversion He'; subst eid'.
  destruct (exported_E1_partial _ _ _ _ _ H f lf0 t Hb Hwf Hf Hk Ht) as (Hn & lf & Hnew & Hsig & Hargs).
  exists eid, e, f, lf0, t, lf.
  repeat (split; [assumption|]).
  split. { auto. }
  split. { apply (exported_E2 _ _ _ _ _ H). }
  split. { exact H3. }
  split. { apply (exported_E4 _ _ _ _ _ H). }
  split.
  { destruct (exported_body _ _ _ _ _ H f lf0 t Hf Hk Ht) as (m2 & ty & ety & ar & B1 & B2 & B3).
    exists m2, ty, ety, ar. split; [exact B1|]. split; [exact B2|].
    apply aget_nth in Hnew. destruct Hnew as [Hnth _]. rewrite Hnth in B3.
    inversion B3; subst lf. split; reflexivity. }
  split. { apply (exported_types_wf _ _ _ _ _ H Hwf). }
  destruct (exported_E1_id _ _ _ _ _ H) as (_ & lf' & _ & Hlen & Hdead).
  rewrite Hlen, Hdead. eapply Forall_impl; [|exact Hb]. cbn beta. intros; lia.
Qed.

(* ------------------------------------------------------------------ why the side conditions are needed *)
Definition t_unit : mtype := {| ty_params := []; ty_results := []; ty_entry := false; ty_name := None |}.

(* I2 without [types_wf]: a HashMap entry that points outside the arena makes FunctionBuilder::new
   hand back a dangling type id *)
Definition bad_types_module : wir :=
  set_types
    (set_funcs
       (set_imports (empty_wir default_config)
          {| items := [{| im_module := []; im_name := []; im_kind := MI_Func 0 |}]; dead := [] |})
       {| items := [{| fn_kind := FK_Import 0 0; fn_name := None |}]; dead := [] |})
    {| arena := {| items := [t_unit]; dead := [] |}; already := [(t_unit, 7)] |}.

Theorem imported_I2_refuted :
  exists m fid body m' f imp tid t f' lf,
    replace_imported_func m fid body = POk m' /\
    aget (m_funcs m) fid = Some f /\ fn_kind f = FK_Import imp tid /\ types_get m tid = Some t /\
    aget (m_funcs m') fid = Some f' /\ fn_kind f' = FK_Local lf /\
    types_get m' (lf_ty lf) = None.
Proof.
  exists bad_types_module, 0%N, (fun _ => []).
  eexists. eexists. eexists. eexists. eexists. eexists. eexists.
  split; [vm_compute; reflexivity|].
  split; [vm_compute; reflexivity|].
  split; [vm_compute; reflexivity|].
  split; [vm_compute; reflexivity|].
  split; [vm_compute; reflexivity|].
  split; [vm_compute; reflexivity|].
  vm_compute; reflexivity.
Qed.

(* E1 without the arena invariant: a tombstone beyond the arena hides the freshly added function *)
Definition bad_funcs_module : wir :=
  set_types
    (set_funcs
       (set_exports (empty_wir default_config)
          {| items := [{| ex_name := []; ex_kind := EK_Func; ex_item := 0 |}]; dead := [] |})
       {| items := [{| fn_kind := FK_Local (new_local_func 0 [] []); fn_name := None |}]; dead := [1] |})
    {| arena := {| items := [t_unit]; dead := [] |}; already := [(t_unit, 0)] |}.

Theorem exported_E1_refuted :
  exists m fid body m' nid,
    types_wf (m_types m) /\
    replace_exported_func_core m fid body = POk (m', nid) /\
    aget (m_funcs m') nid = None.
Proof.
  exists bad_funcs_module, 0%N, (fun _ => []).
  eexists. eexists.
  split.
  { split; [constructor|]. intros k id [Hin|[]]. inversion Hin; subst.
    exists t_unit. split; reflexivity. }
  split; [vm_compute; reflexivity|].
  vm_compute; reflexivity.
Qed.

(* ------------------------------------------------------------------ assumptions *)
Print Assumptions imported_I1.
Print Assumptions imported_I2_partial.
Print Assumptions imported_I3.
Print Assumptions imported_I4.
Print Assumptions imported_I4_first.
Print Assumptions imported_I5.
Print Assumptions imported_I6.
Print Assumptions imported_I7.
Print Assumptions imported_I8_not_imported.
Print Assumptions imported_I8_not_import_kind.
Print Assumptions replace_imported_spec.
Print Assumptions imported_I2_refuted.
Print Assumptions exported_E1_id.
Print Assumptions exported_E1_partial.
Print Assumptions exported_E2.
Print Assumptions exported_E3.
Print Assumptions exported_E4.
Print Assumptions exported_E5_not_exported.
Print Assumptions exported_E5_not_local.
Print Assumptions replace_exported_spec.
Print Assumptions exported_E1_refuted.
