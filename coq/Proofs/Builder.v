(* Correctness of the FunctionBuilder / InstrSeqBuilder model (Model/Builder.v):
   A. a builder program in the structured fragment runs without panic and the arena it
      leaves denotes the tree [tree_of] assigns to it;
   B. the sequence ids of the created trees are exactly [n, n'), hence fresh and distinct;
   C. composition with the in-order traversal and the emitter;
   D. positional facts about [put] / [insert_at]. *)
From Coq Require Import List NArith Arith Lia Bool Permutation. Import ListNotations.
From WV Require Import Gen.Ops Model.Common Model.IR Model.Traversal Model.EmitFn Model.EmitSpec Model.Builder.
From WV Require Proofs.Traversal Proofs.EmitFn.
Open Scope N_scope.

(* ------------------------------------------------------------------ list-update lemmas *)
Lemma upd_length {A} (l : list A) i f : length (upd l i f) = length l.
Proof. revert i; induction l; intros [|i]; cbn; auto. Qed.
Lemma upd_app_l {A} (l m : list A) i f : (i < length l)%nat -> upd (l ++ m) i f = upd l i f ++ m.
Proof. revert i; induction l as [|x l IH]; intros [|i] H; cbn in *; try lia; auto. now rewrite IH by lia. Qed.
Lemma upd_app_r {A} (l : list A) x f : upd (l ++ [x]) (length l) f = l ++ [f x].
Proof. induction l; cbn; auto. now rewrite IHl. Qed.
Lemma upd_upd {A} (l : list A) i f g : upd (upd l i f) i g = upd l i (fun x => g (f x)).
Proof. revert i; induction l; intros [|i]; cbn; auto; now rewrite IHl. Qed.
Lemma upd_nth {A} (l : list A) i f x : nth_error l i = Some x -> upd l i f = upd l i (fun _ => f x).
Proof.
  revert i; induction l as [|y l IH]; intros [|i] H; cbn in *; try discriminate.
  - now injection H as ->.
  - now rewrite (IH i H).
Qed.
Lemma upd_same {A} (l : list A) i x : nth_error l i = Some x -> upd l i (fun _ => x) = l.
Proof.
  revert i; induction l as [|y l IH]; intros [|i] H; cbn in *; try discriminate.
  - now injection H as ->.
  - now rewrite (IH i H).
Qed.
Lemma nth_error_upd_same {A} (l : list A) i f x : nth_error l i = Some x -> nth_error (upd l i f) i = Some (f x).
Proof.
  revert i; induction l as [|y l IH]; intros [|i] H; cbn in *; try discriminate.
  - now injection H as ->.
  - now apply IH.
Qed.
Lemma nth_error_lt {A} (l : list A) i x : nth_error l i = Some x -> (i < length l)%nat.
Proof. intros H. apply nth_error_Some. congruence. Qed.
Lemma nth_error_at {A} (pre : list A) x r k : length pre = k -> nth_error (pre ++ x :: r) k = Some x.
Proof. intros <-. rewrite nth_error_app2 by lia. now rewrite Nat.sub_diag. Qed.

Lemma len_N_app {A} (l m : list A) : len_N (l ++ m) = len_N l + len_N m.
Proof. unfold len_N. rewrite app_length. lia. Qed.
Lemma len_N_cons {A} (x : A) (l : list A) : len_N (x :: l) = 1 + len_N l.
Proof. unfold len_N. cbn [length]. lia. Qed.
Lemma to_nat_len_N {A} (l : list A) : N.to_nat (len_N l) = length l.
Proof. unfold len_N. apply Nat2N.id. Qed.

(* ------------------------------------------------------------------ insert_at *)
Lemma insert_at_split {A} (l : list A) : forall n x l', insert_at l n x = Some l' ->
  exists l1 l2, l = l1 ++ l2 /\ l' = l1 ++ x :: l2 /\ length l1 = n.
Proof.
  induction l as [|y l IH]; intros [|n] x l' H; cbn [insert_at] in H.
  - injection H as <-. exists [], []. auto.
  - discriminate.
  - injection H as <-. exists [], (y :: l). auto.
  - destruct (insert_at l n x) as [r|] eqn:E; [|discriminate]. injection H as <-.
    destruct (IH n x r E) as (l1 & l2 & -> & -> & Hl). exists (y :: l1), l2. cbn [app length]. auto.
Qed.
Lemma insert_at_app {A} (l1 l2 : list A) x : insert_at (l1 ++ l2) (length l1) x = Some (l1 ++ x :: l2).
Proof. induction l1 as [|y l1 IH]; cbn [app length insert_at]; [now destruct l2|]. now rewrite IH. Qed.
Lemma insert_at_map {A B} (f : A -> B) (l : list A) : forall n x,
  insert_at (map f l) n (f x) = option_map (map f) (insert_at l n x).
Proof.
  induction l as [|y l IH]; intros [|n] x; cbn [map insert_at option_map]; auto.
  rewrite IH. now destruct (insert_at l n x).
Qed.

(* ------------------------------------------------------------------ Den *)
Definition sh (x : item * N) : instr * N := (shallow (fst x), snd x).
Definition mkseq (ty : seqty) (its : list (instr * N)) (e : N) : iseq :=
  {| sq_ty := ty; sq_instrs := its; sq_end := e |}.
Definition ItemsDen (ar : arena) (l : list (item * N)) : Prop := Forall (fun x => IDen ar (fst x)) l.

Lemma Den_go_Forall ar items :
  (fix go (l : list (item * N)) : Prop :=
     match l with [] => True | x :: l' => IDen ar (fst x) /\ go l' end) items <-> ItemsDen ar items.
Proof.
  induction items as [|x items IH]; split; intros H.
  - constructor.
  - exact I.
  - destruct H as [Hx Hr]. constructor; [exact Hx|]. apply IH, Hr.
  - inversion H as [|? ? Hx Hr]; subst. split; [exact Hx|]. apply IH, Hr.
Qed.
Lemma Den_T ar s ty items e :
  Den ar (T s ty items e) <->
  nth_error ar (N.to_nat s) = Some (mkseq ty (map sh items) e) /\ ItemsDen ar items.
Proof. rewrite <- Den_go_Forall. reflexivity. Qed.

Lemma put_split pos it items items1 : put pos it items = Some items1 ->
  exists l1 l2, items = l1 ++ l2 /\ items1 = l1 ++ (it, default_loc) :: l2.
Proof.
  destruct pos as [p|]; cbn [put]; intros H.
  - destruct (insert_at_split _ _ _ _ H) as (l1 & l2 & E1 & E2 & _). eauto.
  - injection H as <-. exists items, []. now rewrite app_nil_r.
Qed.
Lemma ItemsDen_put ar pos it items items1 : put pos it items = Some items1 ->
  IDen ar it -> ItemsDen ar items -> ItemsDen ar items1.
Proof.
  intros H Hi Hd. destruct (put_split _ _ _ _ H) as (l1 & l2 & -> & ->).
  apply Forall_app in Hd as [H1 H2]. apply Forall_app. split; [exact H1|]. constructor; assumption.
Qed.

(* ------------------------------------------------------------------ nested induction on [bop] *)
Section bop_ind.
  Variable P : bop -> Prop.
  Hypothesis H1 : forall i, P (BInstr i).
  Hypothesis H2 : forall p i, P (BInstrAt p i).
  Hypothesis H3 : forall ty b, Forall P b -> P (BBlock ty b).
  Hypothesis H4 : forall p ty b, Forall P b -> P (BBlockAt p ty b).
  Hypothesis H5 : forall ty b, Forall P b -> P (BLoop ty b).
  Hypothesis H6 : forall p ty b, Forall P b -> P (BLoopAt p ty b).
  Hypothesis H7 : forall ty c a, Forall P c -> Forall P a -> P (BIfElse ty c a).
  Hypothesis H8 : forall p ty c a, Forall P c -> Forall P a -> P (BIfElseAt p ty c a).
  Hypothesis H9 : forall ty b, Forall P b -> P (BDangling ty b).
  Fixpoint bop_ind' (o : bop) : P o :=
    let fl := fix fl (l : list bop) : Forall P l :=
      match l with [] => Forall_nil _ | x :: l' => Forall_cons _ (bop_ind' x) (fl l') end in
    match o with
    | BInstr i => H1 i | BInstrAt p i => H2 p i
    | BBlock ty b => H3 ty b (fl b) | BBlockAt p ty b => H4 p ty b (fl b)
    | BLoop ty b => H5 ty b (fl b) | BLoopAt p ty b => H6 p ty b (fl b)
    | BIfElse ty c a => H7 ty c a (fl c) (fl a) | BIfElseAt p ty c a => H8 p ty c a (fl c) (fl a)
    | BDangling ty b => H9 ty b (fl b)
    end.
End bop_ind.

(* ------------------------------------------------------------------ unfolding equations *)
(* the local [bl] of [bspec_op] is convertible with [bspec], the one of [bsize] is proved equal to [bsize_list] *)
Definition nest1_spec (pos : option N) (mk : tree -> item) (ty : seqty) (b : list bop) (n : N) (items : list (item * N)) :=
  match bspec b (n + 1) [] with
  | Some (its, n1) => option_map (fun l => (l, n1)) (put pos (mk (T n ty its default_loc)) items)
  | None => None
  end.
Definition nest2_spec (pos : option N) (ty : seqty) (c a : list bop) (n : N) (items : list (item * N)) :=
  match bspec c (n + 1) [] with
  | Some (ic, n1) =>
      match bspec a (n1 + 1) [] with
      | Some (ia, n2) => option_map (fun l => (l, n2)) (put pos (ItI (T n ty ic default_loc) (T n1 ty ia default_loc)) items)
      | None => None
      end
  | None => None
  end.
Definition leaf_spec (pos : option N) (i : instr) (n : N) (items : list (item * N)) :=
  match item_of_instr i with Some it => option_map (fun l => (l, n)) (put pos it items) | None => None end.

Lemma bspec_op_eq o n items : bspec_op o n items =
  match o with
  | BInstr i => leaf_spec None i n items
  | BInstrAt p i => leaf_spec (Some p) i n items
  | BBlock ty b => nest1_spec None ItB ty b n items
  | BBlockAt p ty b => nest1_spec (Some p) ItB ty b n items
  | BLoop ty b => nest1_spec None ItL ty b n items
  | BLoopAt p ty b => nest1_spec (Some p) ItL ty b n items
  | BIfElse ty c a => nest2_spec None ty c a n items
  | BIfElseAt p ty c a => nest2_spec (Some p) ty c a n items
  | BDangling _ _ => None
  end.
Proof. destruct o; reflexivity. Qed.

Definition bsl_inner :=
  fix bl (l : list bop) : nat := match l with [] => O | x :: r => (bsize x + bl r)%nat end.
Lemma bsl_inner_eq l : bsl_inner l = bsize_list l.
Proof. induction l as [|x l IH]; [reflexivity|]. cbn [bsl_inner bsize_list fold_right]. fold bsl_inner. now rewrite IH. Qed.
Lemma bsize_eq o : bsize o =
  match o with
  | BInstr _ | BInstrAt _ _ => 1%nat
  | BBlock _ b | BBlockAt _ _ b | BLoop _ b | BLoopAt _ _ b | BDangling _ b => S (S (bsize_list b))
  | BIfElse _ c a | BIfElseAt _ _ c a => S (S (S (bsize_list c + bsize_list a)))
  end.
Proof. destruct o; rewrite <- ?bsl_inner_eq; reflexivity. Qed.
Lemma bsize_pos o : (1 <= bsize o)%nat.
Proof. rewrite bsize_eq. destruct o; lia. Qed.
Lemma bsize_list_cons o l : bsize_list (o :: l) = (bsize o + bsize_list l)%nat.
Proof. reflexivity. Qed.

(* one call, with the fuel left for the nested calls *)
Definition nested_run (f : nat) (ty : seqty) (body : list bop) (a : arena) : res (arena * N) :=
  rmap (fun a' => (a', len_N a)) (run_ops f (a ++ [empty_seq ty]) (len_N a) body).
Definition step_op (f : nat) (a : arena) (cur : N) (o : bop) : res arena :=
  match o with
  | BInstr i => place a cur None i
  | BInstrAt p i => place a cur (Some p) i
  | BBlock ty b => rbind (nested_run f ty b a) (fun r => place (fst r) cur None (IBlock (snd r)))
  | BBlockAt p ty b => rbind (nested_run f ty b a) (fun r => place (fst r) cur (Some p) (IBlock (snd r)))
  | BLoop ty b => rbind (nested_run f ty b a) (fun r => place (fst r) cur None (ILoop (snd r)))
  | BLoopAt p ty b => rbind (nested_run f ty b a) (fun r => place (fst r) cur (Some p) (ILoop (snd r)))
  | BIfElse ty c al =>
      rbind (nested_run f ty c a) (fun r1 => rbind (nested_run f ty al (fst r1)) (fun r2 =>
      place (fst r2) cur None (IIfElse (snd r1) (snd r2))))
  | BIfElseAt p ty c al =>
      rbind (nested_run f ty c a) (fun r1 => rbind (nested_run f ty al (fst r1)) (fun r2 =>
      place (fst r2) cur (Some p) (IIfElse (snd r1) (snd r2))))
  | BDangling ty b => rmap fst (nested_run f ty b a)
  end.
Lemma run_ops_cons f a cur o rest :
  run_ops (S f) a cur (o :: rest) = rbind (step_op f a cur o) (fun a' => run_ops f a' cur rest).
Proof. destruct o; reflexivity. Qed.
Lemma run_ops_nil f a cur : run_ops (S f) a cur [] = Ok a.
Proof. reflexivity. Qed.

(* ================================================================== A. the machine builds the denoted tree *)
Lemma item_of_instr_shallow i it : item_of_instr i = Some it -> i = shallow it /\ forall ar, IDen ar it.
Proof. destruct i; cbn [item_of_instr]; intros H; try discriminate; injection H as <-; cbn [shallow IDen]; auto. Qed.

Lemma place_ok a cur pos ty e items it items1 X :
  nth_error a (N.to_nat cur) = Some (mkseq ty (map sh items) e) ->
  put pos it items = Some items1 ->
  place (a ++ X) cur pos (shallow it) = Ok (upd a (N.to_nat cur) (fun _ => mkseq ty (map sh items1) e) ++ X).
Proof.
  intros Hc Hp. pose proof (nth_error_lt _ _ _ Hc) as Hlt.
  assert (Hc' : nth_error (a ++ X) (N.to_nat cur) = Some (mkseq ty (map sh items) e))
    by (rewrite nth_error_app1 by exact Hlt; exact Hc).
  destruct pos as [p|]; cbn [place put] in *.
  - unfold insert_i. rewrite Hc'. cbn [sq_instrs mkseq].
    change (shallow it, default_loc) with (sh (it, default_loc)).
    rewrite insert_at_map, Hp. cbn [option_map]. f_equal.
    rewrite upd_app_l by exact Hlt. f_equal.
    rewrite (upd_nth _ _ _ _ Hc). reflexivity.
  - unfold push_i. rewrite Hc'. injection Hp as <-. f_equal.
    rewrite upd_app_l by exact Hlt. f_equal.
    rewrite (upd_nth _ _ _ _ Hc). cbn [sq_ty sq_instrs sq_end mkseq].
    rewrite map_app. reflexivity.
Qed.

(* [run] started on an arena of length [n] whose sequence [cur] holds [items] leaves
   [cur] holding [items1], appends [news], and touches nothing else *)
Definition RunR (n : N) (items items1 : list (item * N)) (n1 : N)
    (run : nat -> arena -> N -> res arena) (bound : nat) : Prop :=
  exists news, n1 = n + len_N news /\
    (forall f a cur ty e, (bound <= f)%nat -> len_N a = n ->
       nth_error a (N.to_nat cur) = Some (mkseq ty (map sh items) e) ->
       run f a cur = Ok (upd a (N.to_nat cur) (fun _ => mkseq ty (map sh items1) e) ++ news)) /\
    (forall pre post, length pre = N.to_nat n ->
       ItemsDen (pre ++ news ++ post) items -> ItemsDen (pre ++ news ++ post) items1).

Definition Pop (o : bop) : Prop := forall n items items1 n1,
  bspec_op o n items = Some (items1, n1) ->
  RunR n items items1 n1 (fun f a cur => step_op f a cur o) (bsize o).
Definition Pl (ops : list bop) : Prop := forall n items items1 n1,
  bspec ops n items = Some (items1, n1) ->
  RunR n items items1 n1 (fun f a cur => run_ops f a cur ops) (S (bsize_list ops)).

Lemma Pl_of_Forall ops : Forall Pop ops -> Pl ops.
Proof.
  induction 1 as [|o r Ho Hr IH]; intros n items items1 n1 Hs.
  - cbn [bspec] in Hs. injection Hs as <- <-. exists []. split; [|split].
    + change (len_N (@nil iseq)) with 0. lia.
    + intros f a cur ty e Hf Ha Hc. destruct f as [|f]; [cbn in Hf; lia|].
      rewrite run_ops_nil, app_nil_r. now rewrite (upd_same _ _ _ Hc).
    + intros pre post _ Hd. exact Hd.
  - cbn [bspec] in Hs. destruct (bspec_op o n items) as [[i' n']|] eqn:Eo; [|discriminate].
    destruct (Ho _ _ _ _ Eo) as (news1 & En' & R1 & D1).
    destruct (IH _ _ _ _ Hs) as (news2 & En1 & R2 & D2).
    exists (news1 ++ news2). split; [|split].
    + rewrite len_N_app. lia.
    + intros f a cur ty e Hf Ha Hc. rewrite bsize_list_cons in Hf. pose proof (bsize_pos o) as Hpos.
      destruct f as [|f]; [lia|]. rewrite run_ops_cons.
      rewrite (R1 f a cur ty e) by (try lia; assumption). cbn [rbind].
      pose proof (nth_error_lt _ _ _ Hc) as Hlt.
      rewrite (R2 f _ cur ty e).
      * f_equal. rewrite upd_app_l by (rewrite upd_length; exact Hlt). rewrite upd_upd.
        now rewrite <- app_assoc.
      * lia.
      * rewrite len_N_app. unfold len_N at 1. rewrite upd_length. fold (len_N a). lia.
      * rewrite nth_error_app1 by (rewrite upd_length; exact Hlt).
        exact (nth_error_upd_same a _ (fun _ => mkseq ty (map sh i') e) _ Hc).
    + intros pre post Hp Hd. rewrite <- app_assoc in *.
      replace (pre ++ news1 ++ news2 ++ post) with ((pre ++ news1) ++ news2 ++ post) in * by (now rewrite <- app_assoc).
      apply D2.
      * rewrite app_length, Hp, En', N2Nat.inj_add, to_nat_len_N. lia.
      * rewrite <- app_assoc. apply D1; [exact Hp|]. rewrite <- app_assoc in Hd. exact Hd.
Qed.

(* a nested sequence: allocated at the end, filled by the nested calls *)
Lemma nested_ok ty b n its n1 : Pl b -> bspec b (n + 1) [] = Some (its, n1) ->
  exists newsb, n1 = n + 1 + len_N newsb /\
    (forall f a, (S (bsize_list b) <= f)%nat -> len_N a = n ->
       nested_run f ty b a = Ok (a ++ mkseq ty (map sh its) default_loc :: newsb, n)) /\
    (forall pre post, length pre = N.to_nat n ->
       Den (pre ++ (mkseq ty (map sh its) default_loc :: newsb) ++ post) (T n ty its default_loc)).
Proof.
  intros HP Hs. destruct (HP _ _ _ _ Hs) as (newsb & En1 & R & D). exists newsb. split; [exact En1|split].
  - intros f a Hf Ha. unfold nested_run.
    assert (Hn : N.to_nat (len_N a) = length a) by apply to_nat_len_N.
    rewrite (R f (a ++ [empty_seq ty]) (len_N a) ty default_loc Hf).
    + cbn [rmap]. rewrite Hn, Ha, upd_app_r, <- app_assoc. reflexivity.
    + rewrite len_N_app, Ha. reflexivity.
    + rewrite Hn. apply nth_error_at. reflexivity.
  - intros pre post Hp. apply Den_T. split.
    + cbn [app]. apply nth_error_at, Hp.
    + replace (pre ++ (mkseq ty (map sh its) default_loc :: newsb) ++ post)
        with ((pre ++ [mkseq ty (map sh its) default_loc]) ++ newsb ++ post)
        by (rewrite <- app_assoc; reflexivity).
      apply D; [|constructor]. rewrite app_length, Hp, N2Nat.inj_add. cbn. lia.
Qed.

Lemma leaf_ok pos i n items items1 n1 : leaf_spec pos i n items = Some (items1, n1) ->
  RunR n items items1 n1 (fun _ a cur => place a cur pos i) 1.
Proof.
  unfold leaf_spec. destruct (item_of_instr i) as [it|] eqn:Ei; [|discriminate].
  destruct (put pos it items) as [l|] eqn:Ep; [|discriminate]. cbn [option_map]. intros H. injection H as <- <-.
  destruct (item_of_instr_shallow _ _ Ei) as [-> Hden].
  exists []. split; [|split].
  - change (len_N (@nil iseq)) with 0. lia.
  - intros f a cur ty e _ _ Hc. pose proof (place_ok a cur pos ty e items it l [] Hc Ep) as R.
    rewrite app_nil_r in R. exact R.
  - intros pre post _ Hd. eapply ItemsDen_put; [exact Ep|apply Hden|exact Hd].
Qed.

(* the common shape of block / loop and their _at forms *)
Lemma block_like_ok (mkins : N -> instr) (mkit : tree -> item)
    (Hsh : forall t, shallow (mkit t) = mkins (tsid t))
    (Hden : forall ar t, IDen ar (mkit t) <-> Den ar t) pos ty b n items items1 n1 :
  Pl b -> nest1_spec pos mkit ty b n items = Some (items1, n1) ->
  RunR n items items1 n1
    (fun f a cur => rbind (nested_run f ty b a) (fun r => place (fst r) cur pos (mkins (snd r))))
    (S (S (bsize_list b))).
Proof.
  intros HP. unfold nest1_spec. destruct (bspec b (n + 1) []) as [[its nb]|] eqn:Eb; [|discriminate].
  destruct (put pos (mkit (T n ty its default_loc)) items) as [l|] eqn:Ep; [|discriminate].
  cbn [option_map]. intros H. injection H as <- <-.
  destruct (nested_ok ty b n its nb HP Eb) as (newsb & En & R & D).
  exists (mkseq ty (map sh its) default_loc :: newsb). split; [|split].
  - rewrite len_N_cons. lia.
  - intros f a cur ty0 e Hf Ha Hc. rewrite (R f a) by (try lia; assumption). cbn [rbind fst snd].
    change (mkins n) with (mkins (tsid (T n ty its default_loc))). rewrite <- Hsh.
    apply (place_ok a cur pos ty0 e items _ l _ Hc Ep).
  - intros pre post Hp Hd. eapply ItemsDen_put; [exact Ep| |exact Hd].
    apply Hden. apply D, Hp.
Qed.

Lemma ifelse_like_ok pos ty c al n items items1 n1 :
  Pl c -> Pl al -> nest2_spec pos ty c al n items = Some (items1, n1) ->
  RunR n items items1 n1
    (fun f a cur => rbind (nested_run f ty c a) (fun r1 => rbind (nested_run f ty al (fst r1)) (fun r2 =>
                    place (fst r2) cur pos (IIfElse (snd r1) (snd r2)))))
    (S (S (S (bsize_list c + bsize_list al)))).
Proof.
  intros HPc HPa. unfold nest2_spec. destruct (bspec c (n + 1) []) as [[ic nc]|] eqn:Ec; [|discriminate].
  destruct (bspec al (nc + 1) []) as [[ia na]|] eqn:Ea; [|discriminate].
  destruct (put pos (ItI (T n ty ic default_loc) (T nc ty ia default_loc)) items) as [l|] eqn:Ep; [|discriminate].
  cbn [option_map]. intros H. injection H as <- <-.
  destruct (nested_ok ty c n ic nc HPc Ec) as (newsc & Enc & Rc & Dc).
  destruct (nested_ok ty al nc ia na HPa Ea) as (newsa & Ena & Ra & Da).
  set (Sc := mkseq ty (map sh ic) default_loc) in *. set (Sa := mkseq ty (map sh ia) default_loc) in *.
  exists ((Sc :: newsc) ++ Sa :: newsa). split; [|split].
  - rewrite len_N_app, !len_N_cons. lia.
  - intros f a cur ty0 e Hf Ha Hc. rewrite (Rc f a) by (try lia; assumption). cbn [rbind fst snd].
    rewrite (Ra f (a ++ Sc :: newsc)).
    + cbn [rbind fst snd]. rewrite <- app_assoc.
      apply (place_ok a cur pos ty0 e items (ItI (T n ty ic default_loc) (T nc ty ia default_loc)) l _ Hc Ep).
    + lia.
    + rewrite len_N_app, len_N_cons. lia.
  - intros pre post Hp Hd. eapply ItemsDen_put; [exact Ep| |exact Hd].
    cbn [IDen]. split.
    + rewrite <- app_assoc. apply Dc, Hp.
    + replace (pre ++ ((Sc :: newsc) ++ Sa :: newsa) ++ post) with ((pre ++ Sc :: newsc) ++ (Sa :: newsa) ++ post)
        by (now rewrite <- !app_assoc).
      apply Da. rewrite app_length. cbn [length]. rewrite Hp, Enc, !N2Nat.inj_add, to_nat_len_N.
      change (N.to_nat 1) with 1%nat. lia.
Qed.

Theorem builder_op : forall o, Pop o.
Proof.
  induction o as [i|p i|ty b HF|p ty b HF|ty b HF|p ty b HF|ty c a HFc HFa|p ty c a HFc HFa|ty b HF] using bop_ind';
    intros n items items1 n1 Hs; rewrite bspec_op_eq in Hs; rewrite bsize_eq; cbn [step_op].
  - apply (leaf_ok None), Hs.
  - apply (leaf_ok (Some p)), Hs.
  - apply Pl_of_Forall in HF. apply (block_like_ok IBlock ItB) with (pos := None); auto; reflexivity.
  - apply Pl_of_Forall in HF. apply (block_like_ok IBlock ItB) with (pos := Some p); auto; reflexivity.
  - apply Pl_of_Forall in HF. apply (block_like_ok ILoop ItL) with (pos := None); auto; reflexivity.
  - apply Pl_of_Forall in HF. apply (block_like_ok ILoop ItL) with (pos := Some p); auto; reflexivity.
  - apply Pl_of_Forall in HFc. apply Pl_of_Forall in HFa. apply (ifelse_like_ok None); auto.
  - apply Pl_of_Forall in HFc. apply Pl_of_Forall in HFa. apply (ifelse_like_ok (Some p)); auto.
  - discriminate.
Qed.
Theorem builder_ops : forall ops, Pl ops.
Proof. intros ops. apply Pl_of_Forall, Forall_forall. intros o _. apply builder_op. Qed.

Lemma tree_of_tsid entry_ty prog t : tree_of entry_ty prog = Some t -> tsid t = 0.
Proof. unfold tree_of. destruct (bspec prog 1 []) as [[items n]|]; [|discriminate]. now intros [= <-]. Qed.

Theorem builder_den : forall entry_ty prog t,
  tree_of entry_ty prog = Some t ->
  exists ar, run_builder entry_ty prog = Ok ar /\ Den ar t.
Proof.
  intros entry_ty prog t. unfold tree_of, run_builder.
  destruct (bspec prog 1 []) as [[items n1]|] eqn:Es; [|discriminate]. intros [= <-].
  destruct (builder_ops prog _ _ _ _ Es) as (news & _ & R & D).
  eexists. split.
  - apply (R _ [empty_seq (ST_Multi entry_ty)] 0 (ST_Multi entry_ty) default_loc); [lia|reflexivity|reflexivity].
  - cbn [N.to_nat upd]. apply Den_T. split; [reflexivity|].
    specialize (D [mkseq (ST_Multi entry_ty) (map sh items) default_loc] [] eq_refl).
    rewrite app_nil_r in D. apply D. constructor.
Qed.

(* any larger fuel gives the same arena *)
Theorem run_builder_fuel : forall entry_ty prog t fuel,
  tree_of entry_ty prog = Some t -> (bsize_list prog < fuel)%nat ->
  run_ops fuel [empty_seq (ST_Multi entry_ty)] 0 prog = run_builder entry_ty prog.
Proof.
  intros entry_ty prog t fuel. unfold tree_of, run_builder.
  destruct (bspec prog 1 []) as [[items n1]|] eqn:Es; [|discriminate]. intros _ Hf.
  destruct (builder_ops prog _ _ _ _ Es) as (news & _ & R & _).
  rewrite !(R _ [empty_seq (ST_Multi entry_ty)] 0 (ST_Multi entry_ty) default_loc); try reflexivity; lia.
Qed.

(* ================================================================== C. build, traverse, emit *)
Corollary builder_emit : forall entry_ty prog t cx tg p0,
  tree_of entry_ty prog = Some t ->
  flt_tree cx [] t KEntry = Ok tg ->
  exists ar st, run_builder entry_ty prog = Ok ar /\
    emit_body cx (S (size t)) ar 0 p0 = Ok st /\ out st = map snd tg /\ imap st = tag_positions cx p0 tg.
Proof.
  intros entry_ty prog t cx tg p0 Ht Hf.
  destruct (builder_den _ _ _ Ht) as (ar & Hr & HD).
  pose proof (WV.Proofs.Traversal.dfs_in_order_spec false ar t HD) as Hdfs.
  destruct (WV.Proofs.EmitFn.emit_body_spec cx ar t tg p0 _ HD Hdfs Hf) as (st & He & Ho & Hi).
  rewrite (tree_of_tsid _ _ _ Ht) in He. exists ar, st. auto.
Qed.

(* ================================================================== D. positions *)
Lemma insert_at_spec {A} (l : list A) n x l' : insert_at l n x = Some l' ->
  nth_error l' n = Some x /\ length l' = S (length l) /\
  (forall k, (k < n)%nat -> nth_error l' k = nth_error l k) /\
  (forall k, (n <= k)%nat -> nth_error l' (S k) = nth_error l k).
Proof.
  intros H. destruct (insert_at_split _ _ _ _ H) as (l1 & l2 & -> & -> & <-). split; [|split; [|split]].
  - now apply nth_error_at.
  - rewrite !app_length. cbn [length]. lia.
  - intros k Hk. now rewrite !nth_error_app1 by exact Hk.
  - intros k Hk. rewrite !nth_error_app2 by lia. replace (S k - length l1)%nat with (S (k - length l1)) by lia. reflexivity.
Qed.
Lemma insert_at_in_range {A} (l : list A) n x : (n <= length l)%nat -> exists l', insert_at l n x = Some l'.
Proof.
  intros H. rewrite <- (firstn_skipn n l). eexists.
  replace n with (length (firstn n l)) at 3 by (apply firstn_length_le, H). apply insert_at_app.
Qed.
Lemma insert_at_out_of_range {A} (l : list A) n x : (length l < n)%nat -> insert_at l n x = None.
Proof.
  intros H. destruct (insert_at l n x) as [l'|] eqn:E; [|reflexivity].
  destruct (insert_at_split _ _ _ _ E) as (l1 & l2 & -> & _ & <-). rewrite app_length in H. lia.
Qed.

Theorem bspec_positional :
  (forall it items, put (Some (len_N items)) it items = put None it items) /\
  (forall A (l : list A) n x l', insert_at l n x = Some l' ->
     nth_error l' n = Some x /\ length l' = S (length l) /\
     (forall k, (k < n)%nat -> nth_error l' k = nth_error l k) /\
     (forall k, (n <= k)%nat -> nth_error l' (S k) = nth_error l k)).
Proof.
  split.
  - intros it items. cbn [put]. rewrite to_nat_len_N.
    rewrite <- (app_nil_r items) at 1. apply insert_at_app.
  - intros A l n x l'. apply insert_at_spec.
Qed.

Lemma nth_error_ext_eq {A} (l l' : list A) : (forall k, nth_error l k = nth_error l' k) -> l = l'.
Proof.
  revert l'. induction l as [|x l IH]; intros [|y l'] H.
  - reflexivity.
  - specialize (H O). discriminate.
  - specialize (H O). discriminate.
  - pose proof (H O) as H0. cbn in H0. injection H0 as ->. f_equal. apply IH. intros k. apply (H (S k)).
Qed.

(* two programs that put the same items at the same final positions denote the same tree:
   the result of [insert_at] is determined by the positional facts *)
Theorem insert_at_unique {A} (l : list A) n x l' l'' :
  insert_at l n x = Some l' ->
  nth_error l'' n = Some x -> length l'' = S (length l) ->
  (forall k, (k < n)%nat -> nth_error l'' k = nth_error l k) ->
  (forall k, (n <= k)%nat -> nth_error l'' (S k) = nth_error l k) -> l'' = l'.
Proof.
  intros H Hn Hl Hlo Hhi. destruct (insert_at_spec _ _ _ _ H) as (Hn' & Hl' & Hlo' & Hhi').
  apply nth_error_ext_eq. intros k. destruct (Nat.lt_trichotomy k n) as [Hk|[->|Hk]].
  - now rewrite Hlo, Hlo'.
  - now rewrite Hn, Hn'.
  - destruct k as [|k]; [lia|]. rewrite Hhi, Hhi' by lia. reflexivity.
Qed.

(* ================================================================== B. sequence ids *)
Fixpoint tree_ids (t : tree) : list N :=
  match t with T s _ items _ =>
    s :: (fix go (l : list (item * N)) : list N :=
            match l with [] => [] | x :: l' => item_ids (fst x) ++ go l' end) items
  end
with item_ids (it : item) : list N :=
  match it with
  | ItB t | ItL t => tree_ids t
  | ItI c a => tree_ids c ++ tree_ids a
  | _ => []
  end.
Definition items_ids (items : list (item * N)) : list N := flat_map (fun x => item_ids (fst x)) items.
Lemma tree_ids_T s ty items e : tree_ids (T s ty items e) = s :: items_ids items.
Proof. reflexivity. Qed.
Lemma items_ids_app a b : items_ids (a ++ b) = items_ids a ++ items_ids b.
Proof. apply flat_map_app. Qed.

(* the ids n, n+1, .., n'-1 *)
Definition nrange (n n' : N) : list N := map N.of_nat (seq (N.to_nat n) (N.to_nat n' - N.to_nat n)).
Lemma nrange_nil n : nrange n n = [].
Proof. unfold nrange. now rewrite Nat.sub_diag. Qed.
Lemma nrange_app n m n' : n <= m -> m <= n' -> nrange n n' = nrange n m ++ nrange m n'.
Proof.
  intros H1 H2. unfold nrange. rewrite <- map_app. f_equal.
  replace (N.to_nat n' - N.to_nat n)%nat with ((N.to_nat m - N.to_nat n) + (N.to_nat n' - N.to_nat m))%nat by lia.
  rewrite seq_app. do 2 f_equal. lia.
Qed.
Lemma nrange_cons n n' : n < n' -> nrange n n' = n :: nrange (n + 1) n'.
Proof.
  intros H. unfold nrange.
  replace (N.to_nat n' - N.to_nat n)%nat with (S (N.to_nat n' - N.to_nat (n + 1)))%nat by lia.
  cbn [seq map]. rewrite N2Nat.id. do 3 f_equal. lia.
Qed.
Lemma In_nrange n n' i : In i (nrange n n') <-> n <= i < n'.
Proof.
  unfold nrange. rewrite in_map_iff. split.
  - intros (k & <- & Hk). apply in_seq in Hk. lia.
  - intros H. exists (N.to_nat i). split; [apply N2Nat.id|]. apply in_seq. lia.
Qed.
Lemma NoDup_nrange n n' : NoDup (nrange n n').
Proof.
  unfold nrange. generalize (seq_NoDup (N.to_nat n' - N.to_nat n) (N.to_nat n)).
  generalize (seq (N.to_nat n) (N.to_nat n' - N.to_nat n)). intros l Hl.
  induction Hl as [|x l Hx Hl IH]; cbn [map]; constructor; [|exact IH].
  rewrite in_map_iff. intros (y & Hy & Hin). apply Nat2N.inj in Hy. now subst.
Qed.

Lemma items_ids_put pos it items items1 : put pos it items = Some items1 ->
  Permutation (items_ids items1) (items_ids items ++ item_ids it).
Proof.
  intros H. destruct (put_split _ _ _ _ H) as (l1 & l2 & -> & ->).
  rewrite !items_ids_app. change (items_ids ((it, default_loc) :: l2)) with (item_ids it ++ items_ids l2).
  rewrite <- app_assoc. apply Permutation_app_head, Permutation_app_comm.
Qed.

Definition IdsR (n : N) (items items1 : list (item * N)) (n1 : N) : Prop :=
  n <= n1 /\ Permutation (items_ids items1) (items_ids items ++ nrange n n1).
Definition Iop (o : bop) : Prop := forall n items items1 n1,
  bspec_op o n items = Some (items1, n1) -> IdsR n items items1 n1.
Definition Il (ops : list bop) : Prop := forall n items items1 n1,
  bspec ops n items = Some (items1, n1) -> IdsR n items items1 n1.

Lemma Il_of_Forall ops : Forall Iop ops -> Il ops.
Proof.
  induction 1 as [|o r Ho Hr IH]; intros n items items1 n1 Hs.
  - cbn [bspec] in Hs. injection Hs as <- <-. split; [lia|]. now rewrite nrange_nil, app_nil_r.
  - cbn [bspec] in Hs. destruct (bspec_op o n items) as [[i' n']|] eqn:Eo; [|discriminate].
    destruct (Ho _ _ _ _ Eo) as (M1 & P1). destruct (IH _ _ _ _ Hs) as (M2 & P2). split; [lia|].
    rewrite (nrange_app n n' n1 M1 M2), app_assoc.
    eapply Permutation_trans; [exact P2|]. apply Permutation_app_tail, P1.
Qed.

(* the ids of a freshly built nested tree *)
Lemma nested_ids ty b n its nb : Il b -> bspec b (n + 1) [] = Some (its, nb) ->
  n < nb /\ Permutation (tree_ids (T n ty its default_loc)) (nrange n nb).
Proof.
  intros HI Hs. destruct (HI _ _ _ _ Hs) as (M & P). split; [lia|].
  rewrite tree_ids_T, nrange_cons by lia. constructor. exact P.
Qed.

Lemma block_like_ids (mkit : tree -> item) (Hids : forall t, item_ids (mkit t) = tree_ids t)
    pos ty b n items items1 n1 :
  Il b -> nest1_spec pos mkit ty b n items = Some (items1, n1) -> IdsR n items items1 n1.
Proof.
  intros HI. unfold nest1_spec. destruct (bspec b (n + 1) []) as [[its nb]|] eqn:Eb; [|discriminate].
  destruct (put pos (mkit (T n ty its default_loc)) items) as [l|] eqn:Ep; [|discriminate].
  cbn [option_map]. intros H. injection H as <- <-.
  destruct (nested_ids ty b n its nb HI Eb) as (M & P). split; [lia|].
  eapply Permutation_trans; [apply (items_ids_put _ _ _ _ Ep)|].
  apply Permutation_app_head. rewrite Hids. exact P.
Qed.

Lemma ifelse_like_ids pos ty c al n items items1 n1 :
  Il c -> Il al -> nest2_spec pos ty c al n items = Some (items1, n1) -> IdsR n items items1 n1.
Proof.
  intros HIc HIa. unfold nest2_spec. destruct (bspec c (n + 1) []) as [[ic nc]|] eqn:Ec; [|discriminate].
  destruct (bspec al (nc + 1) []) as [[ia na]|] eqn:Ea; [|discriminate].
  destruct (put pos (ItI (T n ty ic default_loc) (T nc ty ia default_loc)) items) as [l|] eqn:Ep; [|discriminate].
  cbn [option_map]. intros H. injection H as <- <-.
  destruct (nested_ids ty c n ic nc HIc Ec) as (Mc & Pc).
  destruct (nested_ids ty al nc ia na HIa Ea) as (Ma & Pa). split; [lia|].
  eapply Permutation_trans; [apply (items_ids_put _ _ _ _ Ep)|].
  apply Permutation_app_head. cbn [item_ids].
  rewrite (nrange_app n nc na) by lia. apply Permutation_app; assumption.
Qed.

Lemma leaf_ids pos i n items items1 n1 : leaf_spec pos i n items = Some (items1, n1) -> IdsR n items items1 n1.
Proof.
  unfold leaf_spec. destruct (item_of_instr i) as [it|] eqn:Ei; [|discriminate].
  destruct (put pos it items) as [l|] eqn:Ep; [|discriminate]. cbn [option_map]. intros H. injection H as <- <-.
  split; [lia|]. rewrite nrange_nil.
  eapply Permutation_trans; [apply (items_ids_put _ _ _ _ Ep)|].
  apply Permutation_app_head. destruct i; try discriminate; injection Ei as <-; constructor.
Qed.

Theorem ids_op : forall o, Iop o.
Proof.
  induction o as [i|p i|ty b HF|p ty b HF|ty b HF|p ty b HF|ty c a HFc HFa|p ty c a HFc HFa|ty b HF] using bop_ind';
    intros n items items1 n1 Hs; rewrite bspec_op_eq in Hs.
  - apply (leaf_ids None i), Hs.
  - apply (leaf_ids (Some p) i), Hs.
  - apply Il_of_Forall in HF. apply (block_like_ids ItB) with (pos := None) (ty := ty) (b := b); auto.
  - apply Il_of_Forall in HF. apply (block_like_ids ItB) with (pos := Some p) (ty := ty) (b := b); auto.
  - apply Il_of_Forall in HF. apply (block_like_ids ItL) with (pos := None) (ty := ty) (b := b); auto.
  - apply Il_of_Forall in HF. apply (block_like_ids ItL) with (pos := Some p) (ty := ty) (b := b); auto.
  - apply Il_of_Forall in HFc. apply Il_of_Forall in HFa. apply (ifelse_like_ids None ty c a); auto.
  - apply Il_of_Forall in HFc. apply Il_of_Forall in HFa. apply (ifelse_like_ids (Some p) ty c a); auto.
  - discriminate.
Qed.
Theorem ids_ops : forall ops, Il ops.
Proof. intros ops. apply Il_of_Forall, Forall_forall. intros o _. apply ids_op. Qed.

(* the next free id only grows; the ids of the sequences created by the calls are exactly
   n .. n'-1 (each once); hence they lie in [n, n') and are pairwise distinct *)
Theorem builder_tree_ids : forall ops n items items' n',
  bspec ops n items = Some (items', n') ->
  n <= n' /\
  Permutation (items_ids items') (items_ids items ++ nrange n n') /\
  (forall i, In i (items_ids items') -> In i (items_ids items) \/ n <= i < n') /\
  (items = [] -> Forall (fun i => n <= i < n') (items_ids items') /\ NoDup (items_ids items')).
Proof.
  intros ops n items items' n' Hs. destruct (ids_ops ops _ _ _ _ Hs) as (M & P).
  split; [exact M|split; [exact P|split]].
  - intros i Hi. apply (Permutation_in _ P), in_app_or in Hi. destruct Hi as [Hi|Hi]; [now left|right].
    now apply In_nrange.
  - intros ->. cbn [items_ids flat_map app] in P. split.
    + apply Forall_forall. intros i Hi. apply In_nrange. apply (Permutation_in _ P Hi).
    + apply (Permutation_NoDup (Permutation_sym P)), NoDup_nrange.
Qed.

(* whole programs: the tree uses each id 0 .. n'-1 exactly once, and the arena the machine
   leaves has exactly these n' sequences (nothing dangling) *)
Theorem builder_den_ids : forall entry_ty prog t,
  tree_of entry_ty prog = Some t ->
  exists ar, run_builder entry_ty prog = Ok ar /\ Den ar t /\
    Permutation (tree_ids t) (nrange 0 (len_N ar)) /\ NoDup (tree_ids t).
Proof.
  intros entry_ty prog t Ht. destruct (builder_den _ _ _ Ht) as (ar & Hr & HD). exists ar.
  split; [exact Hr|split; [exact HD|]].
  revert Ht Hr. unfold tree_of, run_builder.
  destruct (bspec prog 1 []) as [[items n1]|] eqn:Es; [|discriminate]. intros [= <-] Hr.
  destruct (builder_ops prog _ _ _ _ Es) as (news & En & R & _).
  rewrite (R _ [empty_seq (ST_Multi entry_ty)] 0 (ST_Multi entry_ty) default_loc) in Hr; [|lia|reflexivity|reflexivity].
  injection Hr as <-. cbn [N.to_nat upd app]. rewrite len_N_cons, <- En.
  destruct (ids_ops prog _ _ _ _ Es) as (M & P). cbn [items_ids flat_map app] in P.
  assert (P' : Permutation (tree_ids (T 0 (ST_Multi entry_ty) items default_loc)) (nrange 0 n1)).
  { rewrite tree_ids_T, nrange_cons by lia. constructor. exact P. }
  split; [exact P'|]. apply (Permutation_NoDup (Permutation_sym P')), NoDup_nrange.
Qed.

Print Assumptions builder_den.
Print Assumptions run_builder_fuel.
Print Assumptions builder_emit.
Print Assumptions builder_tree_ids.
Print Assumptions builder_den_ids.
Print Assumptions bspec_positional.
