(* Theorems for Model/Bytes.v: the binary encoding of instructions and function bodies (C03 / C11).
     1. dec_enc_ins   : decoding an encoded instruction gives it back and leaves the rest (prefix-freeness included);
     2. dec_enc_body  : the same for whole bodies;
     3. enc_ins_length_positive, enc_body_length : [ilen_model] is a legitimate instance of the instruction-length parameter;
     4. code_section_bytes, dec_code_section : composition with the framing of the code section (Model/Frame.v);
     5. examples with the bytes written out;
     6. the reader: every instruction consumes bytes ([dec_ins_len]), the number of bytes is enough fuel ([dec_body_fuel]), what
        the reader returns the writer can write and reads back ([dec_ins_normal_form], [dec_body_normal_form]), the reader's
        positions on the writer's bytes are the running sums of [ilen_model] ([dec_body_at_canonical]);
     7. minimality: the writer's bytes are never longer than any bytes the reader accepts for the same body ([dec_body_minimal]).
   Every one of the 517 operators of Gen/Ops.v is in the table ([covered_all]); the only immediates outside the model are
   heap types other than func / extern ([wf_imm] excludes them). *)
From Coq Require Import List NArith ZArith Bool Lia. Import ListNotations.
From WV Require Proofs.ModFix10.
From WV Require Import Gen.Ops Model.IR Model.Leb Model.CodeMap Model.Frame Proofs.Leb Proofs.Frame Model.Bytes.
Local Open Scope N_scope.

(* ------------------------------------------------------------------ ranges *)
Lemma small_of_lt a k : a < 2 ^ k -> k <= 126 -> a < 2 ^ 126.
Proof. intros H K. eapply N.lt_le_trans; [exact H|]. apply N.pow_le_mono_r; [discriminate|exact K]. Qed.
Lemma u32_small a : u32_ok a = true -> a < 2 ^ 126.
Proof. unfold u32_ok. intros H. apply N.ltb_lt in H. apply (small_of_lt a 32 H). discriminate. Qed.
Lemma ssmall_of z k : (- 2 ^ k <= z)%Z -> (z < 2 ^ k)%Z -> (0 <= k <= 125)%Z -> (- 2 ^ 125 <= z < 2 ^ 125)%Z.
Proof.
  intros A B K. assert (2 ^ k <= 2 ^ 125)%Z by (apply Z.pow_le_mono_r; lia). lia.
Qed.
Lemma lenB_lenN {A} (l : list A) : lenB l = lenN l.
Proof. reflexivity. Qed.
Lemma lenB_app {A} (a b : list A) : lenB (a ++ b) = lenB a + lenB b.
Proof. apply lenN_app. Qed.
Lemma lenB_cons {A} (x : A) (l : list A) : lenB (x :: l) = 1 + lenB l.
Proof. apply lenN_cons. Qed.

(* ------------------------------------------------------------------ value types and block types *)
Lemma valty_of_byte_byte t : valty_of_byte (valty_byte t) = Some t.
Proof. destruct t; reflexivity. Qed.
Lemma valty_of_byte_out b : b < 64 \/ 128 <= b -> valty_of_byte b = None.
Proof.
  intros H. unfold valty_of_byte.
  repeat match goal with |- context [b =? ?k] => destruct (N.eqb_spec b k) as [->|_]; [lia|] end. reflexivity.
Qed.

Lemma enc_s_fuel_S f z :
  enc_s_fuel (S f) z =
  let b := Z.to_N (Z.land z 127) in let z' := Z.shiftr z 7 in
  if ((z' =? 0)%Z && (b <? 64)) || ((z' =? -1)%Z && (64 <=? b)) then [b] else (N.lor b 128) :: enc_s_fuel f z'.
Proof. reflexivity. Qed.

(* a non-negative signed LEB starts with a byte that is neither 0x40 nor a value type *)
Lemma enc_s_nonneg_head z : (0 <= z)%Z -> exists b r, enc_s z = b :: r /\ (b < 64 \/ 128 <= b).
Proof.
  intros Hz. unfold enc_s. change 18%nat with (S 17). rewrite enc_s_fuel_S. cbv zeta.
  destruct (_ || _) eqn:E.
  - eexists _, _. split; [reflexivity|]. left.
    apply orb_true_iff in E. destruct E as [E|E]; apply andb_true_iff in E; destruct E as [E1 E2].
    + apply N.ltb_lt. exact E2.
    + apply Z.eqb_eq in E1. rewrite zshiftr7 in E1.
      assert (0 <= z / 128)%Z by (apply Z.div_pos; lia). lia.
  - eexists _, _. split; [reflexivity|]. right.
    rewrite (lor128_small _ (sbyte_lt z)). lia.
Qed.

Lemma dec_enc_blockty b rest : wf_blockty b = true -> dec_blockty (enc_blockty b ++ rest) = Some (b, rest).
Proof.
  destruct b as [|t|i]; intros H.
  - reflexivity.
  - destruct t; reflexivity.
  - cbn [enc_blockty wf_blockty] in *.
    assert (Hr : (- 2 ^ 125 <= Z.of_N i < 2 ^ 125)%Z).
    { assert (Hi : i < 4294967296) by (unfold u32_ok in H; apply N.ltb_lt in H; exact H).
      assert (4294967296 <= 2 ^ 125)%Z by (vm_compute; discriminate). lia. }
    pose proof (dec_enc_s _ rest Hr) as D.
    destruct (enc_s_nonneg_head (Z.of_N i) (N2Z.is_nonneg i)) as (b & r & E & Hb).
    rewrite E in *. cbn [app] in *. unfold dec_blockty.
    destruct (N.eqb_spec b 64) as [->|_]; [lia|].
    rewrite (valty_of_byte_out b Hb), D.
    destruct (Z.leb_spec 0 (Z.of_N i)) as [_|C]; [|lia]. rewrite N2Z.id. reflexivity.
Qed.

Lemma enc_blockty_nonempty b : exists x r, enc_blockty b = x :: r.
Proof.
  destruct b as [|t|i]; cbn [enc_blockty]; [eexists _, _; reflexivity ..|].
  destruct (enc_s_nonneg_head (Z.of_N i) (N2Z.is_nonneg i)) as (b & r & E & _). eexists _, _. exact E.
Qed.

(* ------------------------------------------------------------------ fixed-width immediates *)
Lemma le_val_le_bytes : forall k n rest, n < 256 ^ N.of_nat k -> le_val k (le_bytes k n ++ rest) = Some (n, rest).
Proof.
  induction k as [|k IH]; intros n rest H.
  - change (256 ^ N.of_nat 0) with 1 in H. assert (n = 0) by lia. subst. reflexivity.
  - cbn [le_bytes app le_val]. rewrite IH.
    + f_equal. f_equal. rewrite N.add_comm. symmetry. apply N.div_mod. discriminate.
    + rewrite Nat2N.inj_succ, N.pow_succ_r' in H. apply N.div_lt_upper_bound; [discriminate|exact H].
Qed.
Lemma le_bytes_length : forall k n, length (le_bytes k n) = k.
Proof. induction k as [|k IH]; intros n; [reflexivity|]. cbn [le_bytes length]. now rewrite IH. Qed.
Lemma take_bytes_app : forall k ls rest, length ls = k -> take_bytes k (ls ++ rest) = Some (ls, rest).
Proof.
  induction k as [|k IH]; intros ls rest H.
  - destruct ls; [reflexivity|discriminate].
  - destruct ls as [|b ls]; [discriminate|]. cbn [app take_bytes]. rewrite IH by (cbn [length] in H; lia). reflexivity.
Qed.

(* ------------------------------------------------------------------ memarg *)
Lemma lor64 a : a < 64 -> N.lor a 64 = a + 64.
Proof.
  intros H.
  assert (E : N.land a 63 = a) by (change 63 with (N.ones 6); rewrite N.land_ones; apply N.mod_small; exact H).
  assert (Z0 : N.land a 64 = 0).
  { rewrite <- E, <- N.land_assoc. change (N.land 63 64) with 0. apply N.land_0_r. }
  rewrite (N.add_nocarry_lxor _ _ Z0). symmetry. apply N.lxor_lor. exact Z0.
Qed.

Lemma wf_memarg_inv m : wf_memarg m = true -> wa_align m < 64 /\ wa_offset m < 2 ^ 126 /\ wa_memory m < 2 ^ 126.
Proof.
  unfold wf_memarg. intros H. apply andb_true_iff in H. destruct H as [H Hm]. apply andb_true_iff in H. destruct H as [Ha Ho].
  apply N.ltb_lt in Ha, Ho. split; [exact Ha|]. split; [apply (small_of_lt _ 64 Ho); discriminate|apply u32_small; exact Hm].
Qed.

Lemma dec_enc_memarg m rest : wf_memarg m = true -> dec_memarg (enc_memarg m ++ rest) = Some (m, rest).
Proof.
  intros H. destruct (wf_memarg_inv m H) as (Ha & Ho & Hm). destruct m as [a o mem]. cbn [wa_align wa_offset wa_memory] in *.
  unfold enc_memarg, dec_memarg. cbn [wa_align wa_offset wa_memory].
  assert (Ha' : a < 2 ^ 126) by (apply (small_of_lt a 6); [exact Ha|discriminate]).
  destruct (N.eqb_spec mem 0) as [->|Hne].
  - rewrite <- app_assoc, (dec_enc_u _ _ Ha'). apply N.ltb_lt in Ha. rewrite Ha.
    rewrite (dec_enc_u _ _ Ho). reflexivity.
  - rewrite (lor64 a Ha), <- !app_assoc.
    assert (Hb : a + 64 < 2 ^ 126) by (apply (small_of_lt _ 7); [change (2 ^ 7) with 128; lia|discriminate]).
    rewrite (dec_enc_u _ _ Hb).
    destruct (N.ltb_spec (a + 64) 64) as [C|_]; [lia|]. destruct (N.ltb_spec (a + 64) 128) as [_|C]; [|lia].
    rewrite (dec_enc_u _ _ Hm), (dec_enc_u _ _ Ho). replace (a + 64 - 64) with a by lia. reflexivity.
Qed.

Lemma enc_u_nonempty n : exists b r, enc_u n = b :: r.
Proof. unfold enc_u. cbn [enc_u_fuel]. destruct (n <? 128); eexists _, _; reflexivity. Qed.

(* ------------------------------------------------------------------ immediates *)
Lemma Some_inj {A} (a b : A) : Some a = Some b -> a = b.
Proof. intros H. injection H as H. exact H. Qed.
Lemma dec_enc_imm i bs rest : enc_imm i = Some bs -> wf_i i = true -> dec_imm (shape_of i) (bs ++ rest) = Some (i, rest).
Proof.
  destruct i as [| |a|a b|z|z|n|n|t|m|h|n|l|m l|ls]; cbn [enc_imm shape_of wf_i]; intros E W;
    try (apply Some_inj in E; subst bs).
  - reflexivity.
  - reflexivity.
  - cbn [dec_imm]. rewrite (dec_enc_u _ _ (u32_small _ W)). reflexivity.
  - apply andb_true_iff in W. destruct W as [Wa Wb]. cbn [dec_imm].
    rewrite <- app_assoc, (dec_enc_u _ _ (u32_small _ Wa)), (dec_enc_u _ _ (u32_small _ Wb)). reflexivity.
  - apply andb_true_iff in W. destruct W as [Wa Wb]. apply Z.leb_le in Wa. apply Z.ltb_lt in Wb. cbn [dec_imm].
    rewrite (dec_enc_s z rest (ssmall_of z 31 Wa Wb ltac:(lia))). reflexivity.
  - apply andb_true_iff in W. destruct W as [Wa Wb]. apply Z.leb_le in Wa. apply Z.ltb_lt in Wb. cbn [dec_imm].
    rewrite (dec_enc_s z rest (ssmall_of z 63 Wa Wb ltac:(lia))). reflexivity.
  - apply N.ltb_lt in W. cbn [dec_imm]. rewrite (le_val_le_bytes 4 n rest W). reflexivity.
  - apply N.ltb_lt in W. cbn [dec_imm]. rewrite (le_val_le_bytes 8 n rest W). reflexivity.
  - cbn [dec_imm]. rewrite <- app_assoc. assert (H1 : 1 < 2 ^ 126) by reflexivity.
    rewrite (dec_enc_u 1 _ H1). cbn [app]. rewrite valty_of_byte_byte. reflexivity.
  - cbn [dec_imm]. rewrite (dec_enc_memarg m rest W). reflexivity.
  - destruct h; [apply Some_inj in E; subst bs; reflexivity | apply Some_inj in E; subst bs; reflexivity | discriminate].
  - apply N.ltb_lt in W. cbn [dec_imm]. rewrite (le_val_le_bytes 16 n rest W). reflexivity.
  - reflexivity.
  - apply andb_true_iff in W. destruct W as [Wm Wl]. cbn [dec_imm]. rewrite <- app_assoc, (dec_enc_memarg m _ Wm). reflexivity.
  - apply Nat.eqb_eq in W. cbn [dec_imm]. rewrite (take_bytes_app 16 ls rest W). reflexivity.
Qed.

(* ------------------------------------------------------------------ opcodes and the table *)
Definition key_ok (k : N * N) : bool := u32_ok (snd k) && (is_prefix (fst k) || (snd k =? 0)).
Lemma dec_enc_key k rest : key_ok k = true -> dec_key (enc_key k ++ rest) = Some (k, rest).
Proof.
  destruct k as [b s]. unfold key_ok, enc_key, dec_key. cbn [fst snd]. intros H.
  apply andb_true_iff in H. destruct H as [Hs Hp].
  destruct (is_prefix b) eqn:P.
  - cbn [app]. rewrite P, (dec_enc_u _ _ (u32_small _ Hs)). reflexivity.
  - cbn [app]. rewrite P. cbn [orb] in Hp. apply N.eqb_eq in Hp. subst. reflexivity.
Qed.
Lemma enc_key_head k : exists tl, enc_key k = fst k :: tl.
Proof. unfold enc_key. destruct (is_prefix (fst k)); eexists; reflexivity. Qed.

(* facts about the table, by computation *)
Lemma table_keys : forallb (fun r => key_ok (r_key r) && negb (is_ctl (fst (r_key r)))) optable = true.
Proof. vm_compute. reflexivity. Qed.
Lemma find_tag_in k row : find_tag k = Some row -> key_ok (r_key row) = true /\ is_ctl (fst (r_key row)) = false.
Proof.
  intros H. apply find_some in H. destruct H as [Hin _].
  pose proof (proj1 (forallb_forall _ _) table_keys row Hin) as K. apply andb_true_iff in K. destruct K as [K1 K2].
  split; [exact K1|]. apply negb_true_iff in K2. exact K2.
Qed.

(* the only case analysis over [wop]: the row found by the tag is the row found by its own opcode, it has the shape of
   the operator's immediates, and its constructor rebuilds the operator *)
Lemma split_join : forall o,
  match find_tag (fst (op_split o)) with
  | Some row =>
      match find_key (r_key row) with
      | Some row' => r_shape row' = shape_of (snd (op_split o)) /\ r_mk row' (snd (op_split o)) = Some o
      | None => False
      end
  | None => True
  end.
Proof. destruct o; vm_compute; split; reflexivity. Qed.

Theorem covered_all : forall o, covered o = true.
Proof. destruct o; reflexivity. Qed.
(* the tags of [op_split] are the constructor numbers of Gen/Ops.v *)
Lemma op_split_tag : forall o, fst (op_split o) = hd 0 (wop_code o).
Proof. destruct o; reflexivity. Qed.

Theorem dec_enc_op o bs rest : enc_op o = Some bs -> wf_op o = true -> dec_op (bs ++ rest) = Some (o, rest).
Proof.
  unfold enc_op, wf_op. intros E W. pose proof (split_join o) as SJ.
  destruct (find_tag (fst (op_split o))) as [row|] eqn:Ft; [|discriminate].
  destruct (enc_imm (snd (op_split o))) as [ib|] eqn:Ei; [|discriminate]. injection E as <-.
  destruct (find_key (r_key row)) as [row'|] eqn:Fk; [|contradiction]. destruct SJ as [Hs Hm].
  destruct (find_tag_in _ _ Ft) as [K _].
  unfold dec_op. rewrite <- app_assoc, (dec_enc_key _ _ K), Fk, Hs, (dec_enc_imm _ _ rest Ei W), Hm. reflexivity.
Qed.
Lemma enc_op_head o bs : enc_op o = Some bs -> exists b tl, bs = b :: tl /\ is_ctl b = false.
Proof.
  unfold enc_op. intros E.
  destruct (find_tag (fst (op_split o))) as [row|] eqn:Ft; [|discriminate].
  destruct (enc_imm (snd (op_split o))) as [ib|]; [|discriminate]. injection E as <-.
  destruct (find_tag_in _ _ Ft) as [_ C]. destruct (enc_key_head (r_key row)) as [tl Etl].
  rewrite Etl. eexists _, _. split; [reflexivity|exact C].
Qed.
(* every operator whose immediates are in range has an encoding *)
Theorem enc_op_total o : wf_op o = true -> exists bs, enc_op o = Some bs.
Proof.
  unfold wf_op, enc_op. intros W. pose proof (covered_all o) as C. unfold covered in C.
  destruct (find_tag (fst (op_split o))) as [row|]; [|discriminate].
  destruct (snd (op_split o)) as [| |a|a b|z|z|n|n|t|m|h|n|l|m l|ls]; cbn [enc_imm]; try (eexists; reflexivity).
  destruct h; [eexists; reflexivity ..|discriminate].
Qed.

(* ------------------------------------------------------------------ 1. instructions *)
Lemma dec_ins_nonctl b r : is_ctl b = false ->
  dec_ins (b :: r) = match dec_op (b :: r) with Some (o, r') => Some (WOp o, r') | None => None end.
Proof.
  unfold is_ctl. intros H. repeat (apply orb_false_iff in H; destruct H as [H ?]).
  cbn [dec_ins]. repeat match goal with E : (b =? _) = false |- _ => rewrite E; clear E end. reflexivity.
Qed.
Lemma dec_u_list_app : forall ds tl, forallb u32_ok ds = true ->
  dec_u_list (length ds) (flat_map enc_u ds ++ tl) = Some (ds, tl).
Proof.
  induction ds as [|d ds IH]; intros tl H; [reflexivity|].
  cbn [forallb] in H. apply andb_true_iff in H. destruct H as [Hd Hds].
  cbn [length flat_map dec_u_list]. rewrite <- app_assoc, (dec_enc_u _ _ (u32_small _ Hd)), (IH _ Hds). reflexivity.
Qed.

Theorem dec_enc_ins i bs rest : enc_ins i = Some bs -> wf_imm i = true -> dec_ins (bs ++ rest) = Some (i, rest).
Proof.
  destruct i as [o|bt|bt|bt| | |d|d|ds d| ]; cbn [enc_ins wf_imm]; intros E W.
  - destruct (enc_op_head _ _ E) as (b & tl & -> & C). pose proof (dec_enc_op o _ rest E W) as D.
    cbn [app] in *. rewrite (dec_ins_nonctl _ _ C), D. reflexivity.
  - apply Some_inj in E. subst bs. change (dec_ins ((2 :: enc_blockty bt) ++ rest)) with
      (match dec_blockty (enc_blockty bt ++ rest) with Some (bt, r') => Some (WBlock bt, r') | None => None end).
    rewrite (dec_enc_blockty _ _ W). reflexivity.
  - apply Some_inj in E. subst bs. change (dec_ins ((3 :: enc_blockty bt) ++ rest)) with
      (match dec_blockty (enc_blockty bt ++ rest) with Some (bt, r') => Some (WLoop bt, r') | None => None end).
    rewrite (dec_enc_blockty _ _ W). reflexivity.
  - apply Some_inj in E. subst bs. change (dec_ins ((4 :: enc_blockty bt) ++ rest)) with
      (match dec_blockty (enc_blockty bt ++ rest) with Some (bt, r') => Some (WIf bt, r') | None => None end).
    rewrite (dec_enc_blockty _ _ W). reflexivity.
  - apply Some_inj in E. subst bs. reflexivity.
  - apply Some_inj in E. subst bs. reflexivity.
  - apply Some_inj in E. subst bs. change (dec_ins ((12 :: enc_u d) ++ rest)) with
      (match dec_u (enc_u d ++ rest) with Some (d, r') => Some (WBr d, r') | None => None end).
    rewrite (dec_enc_u _ _ (u32_small _ W)). reflexivity.
  - apply Some_inj in E. subst bs. change (dec_ins ((13 :: enc_u d) ++ rest)) with
      (match dec_u (enc_u d ++ rest) with Some (d, r') => Some (WBrIf d, r') | None => None end).
    rewrite (dec_enc_u _ _ (u32_small _ W)). reflexivity.
  - apply Some_inj in E. subst bs.
    apply andb_true_iff in W. destruct W as [W Wl]. apply andb_true_iff in W. destruct W as [Wds Wd].
    change (dec_ins ((14 :: enc_u (lenB ds) ++ flat_map enc_u ds ++ enc_u d) ++ rest)) with
      (match dec_u ((enc_u (lenB ds) ++ flat_map enc_u ds ++ enc_u d) ++ rest) with
       | Some (k, r1) =>
           match dec_u_list (N.to_nat k) r1 with
           | Some (ds, r2) => match dec_u r2 with Some (d, r') => Some (WBrTable ds d, r') | None => None end
           | None => None
           end
       | None => None
       end).
    rewrite <- !app_assoc, (dec_enc_u _ _ (u32_small _ Wl)). unfold lenB at 1. rewrite Nat2N.id.
    rewrite (dec_u_list_app ds _ Wds), (dec_enc_u _ _ (u32_small _ Wd)). reflexivity.
  - apply Some_inj in E. subst bs. reflexivity.
Qed.

(* prefix-freeness, as a corollary: two encoded instructions followed by anything agree only if they are the same *)
Corollary enc_ins_prefix_free i j a b r1 r2 :
  enc_ins i = Some a -> enc_ins j = Some b -> wf_imm i = true -> wf_imm j = true ->
  a ++ r1 = b ++ r2 -> i = j /\ r1 = r2.
Proof.
  intros Ei Ej Wi Wj E. pose proof (dec_enc_ins i a r1 Ei Wi) as A. pose proof (dec_enc_ins j b r2 Ej Wj) as B.
  rewrite E, B in A. injection A as <- <-. split; reflexivity.
Qed.

(* ------------------------------------------------------------------ 3a. lengths of instructions *)
Lemma enc_ins_nonempty i bs : enc_ins i = Some bs -> exists b tl, bs = b :: tl.
Proof.
  destruct i as [o|bt|bt|bt| | |d|d|ds d| ]; cbn [enc_ins]; intros E;
    try (apply Some_inj in E; subst bs; eexists _, _; reflexivity).
  destruct (enc_op_head _ _ E) as (b & tl & -> & _). eexists _, _. reflexivity.
Qed.
Theorem enc_ins_length_positive i bs : enc_ins i = Some bs -> 0 < lenB bs.
Proof. intros E. destruct (enc_ins_nonempty _ _ E) as (b & tl & ->). rewrite lenB_cons. lia. Qed.
Corollary ilen_model_positive i n : ilen_model i = Some n -> 0 < n.
Proof.
  unfold ilen_model. destruct (enc_ins i) as [bs|] eqn:E; [|discriminate]. intros H. apply Some_inj in H. subst n.
  exact (enc_ins_length_positive _ _ E).
Qed.

(* ------------------------------------------------------------------ 2. bodies *)

Lemma dec_local_groups_app : forall l rest, forallb wf_local l = true ->
  dec_local_groups (length l) (flat_map enc_local l ++ rest) = Some (l, rest).
Proof.
  induction l as [|[n t] l IH]; intros rest H; [reflexivity|].
  cbn [forallb] in H. apply andb_true_iff in H. destruct H as [Hn Hl]. unfold wf_local in Hn. cbn [fst] in Hn.
  cbn [length flat_map dec_local_groups]. unfold enc_local at 1. cbn [fst snd].
  rewrite <- !app_assoc, (dec_enc_u _ _ (u32_small _ Hn)). cbn [app]. rewrite valty_of_byte_byte, (IH _ Hl). reflexivity.
Qed.
Lemma dec_enc_locals l rest : forallb wf_local l = true -> u32_ok (lenB l) = true ->
  dec_locals (enc_locals l ++ rest) = Some (l, rest).
Proof.
  intros H Hn. unfold dec_locals, enc_locals. rewrite <- app_assoc, (dec_enc_u _ _ (u32_small _ Hn)).
  unfold lenB. rewrite Nat2N.id. apply dec_local_groups_app. exact H.
Qed.

Lemma dec_enc_inss : forall ops bs, enc_inss ops = Some bs -> forallb wf_imm ops = true ->
  forall fuel, (length ops <= fuel)%nat -> dec_inss fuel bs = Some ops.
Proof.
  induction ops as [|i ops IH]; intros bs E W fuel F.
  - apply Some_inj in E. subst bs. destruct fuel; reflexivity.
  - cbn [enc_inss] in E. destruct (enc_ins i) as [a|] eqn:Ei; [|discriminate].
    destruct (enc_inss ops) as [b|] eqn:Eo; [|discriminate]. apply Some_inj in E. subst bs.
    cbn [forallb] in W. apply andb_true_iff in W. destruct W as [Wi Wo].
    destruct fuel as [|fuel]; [cbn [length] in F; lia|].
    pose proof (dec_enc_ins i a b Ei Wi) as D.
    destruct (enc_ins_nonempty _ _ Ei) as (x & tl & ->). cbn [app] in *. cbn [dec_inss]. rewrite D.
    rewrite (IH b eq_refl Wo fuel) by (cbn [length] in F; lia). reflexivity.
Qed.

Theorem dec_enc_body locals ops bs : enc_body locals ops = Some bs -> wf_body locals ops = true ->
  forall fuel, (length ops <= fuel)%nat -> dec_body fuel bs = Some (locals, ops).
Proof.
  unfold enc_body, wf_body. intros E W fuel F.
  destruct (enc_inss ops) as [ib|] eqn:Eo; [|discriminate]. apply Some_inj in E. subst bs.
  apply andb_true_iff in W. destruct W as [W Wo]. apply andb_true_iff in W. destruct W as [Wl Wn].
  unfold dec_body. rewrite (dec_enc_locals _ _ Wl Wn), (dec_enc_inss _ _ Eo Wo fuel F). reflexivity.
Qed.

(* ------------------------------------------------------------------ 3b. length of a body *)
Fixpoint sum_ilen (ops : list wins) : option N :=
  match ops with
  | [] => Some 0
  | i :: r => match ilen_model i, sum_ilen r with Some n, Some s => Some (n + s) | _, _ => None end
  end.
Lemma enc_inss_length : forall ops bs, enc_inss ops = Some bs -> sum_ilen ops = Some (lenB bs).
Proof.
  induction ops as [|i ops IH]; intros bs E.
  - apply Some_inj in E. subst bs. reflexivity.
  - cbn [enc_inss] in E. cbn [sum_ilen]. unfold ilen_model. destruct (enc_ins i) as [a|]; [|discriminate].
    destruct (enc_inss ops) as [b|]; [|discriminate]. apply Some_inj in E. subst bs.
    rewrite (IH b eq_refl), lenB_app. reflexivity.
Qed.
Theorem enc_body_length locals ops bs : enc_body locals ops = Some bs ->
  exists s, sum_ilen ops = Some s /\ lenB bs = lenB (enc_locals locals) + s.
Proof.
  unfold enc_body. intros E. destruct (enc_inss ops) as [ib|] eqn:Eo; [|discriminate]. apply Some_inj in E. subst bs.
  exists (lenB ib). split; [exact (enc_inss_length _ _ Eo)|apply lenB_app].
Qed.
Lemma sum_ilen_ge_length : forall ops s, sum_ilen ops = Some s -> N.of_nat (length ops) <= s.
Proof.
  induction ops as [|i ops IH]; intros s E.
  - apply Some_inj in E. subst s. cbn. lia.
  - cbn [sum_ilen] in E. destruct (ilen_model i) as [n|] eqn:En; [|discriminate].
    destruct (sum_ilen ops) as [s'|]; [|discriminate]. apply Some_inj in E. subst s.
    pose proof (ilen_model_positive _ _ En). pose proof (IH s' eq_refl). cbn [length]. lia.
Qed.
(* the fuel the harness uses: the number of bytes *)
Corollary dec_enc_body_bytes locals ops bs : enc_body locals ops = Some bs -> wf_body locals ops = true ->
  dec_body (length bs) bs = Some (locals, ops).
Proof.
  intros E W. apply (dec_enc_body _ _ _ E W).
  destruct (enc_body_length _ _ _ E) as (s & Hs & Hl). pose proof (sum_ilen_ge_length _ _ Hs). unfold lenB in Hl at 1. lia.
Qed.

(* [ilen_model], made total, is an instance of the length parameter of Model/EmitFn.v ([ex_ilen]); on covered
   instructions it is the real byte length, it is positive everywhere, and the offsets the harness reads off
   wasmparser are the running sums *)
Definition ilen_total (i : wins) : N := match ilen_model i with Some n => n | None => 1 end.
Theorem ilen_total_positive i : 0 < ilen_total i.
Proof. unfold ilen_total. destruct (ilen_model i) as [n|] eqn:E; [exact (ilen_model_positive _ _ E)|lia]. Qed.
Notation pos_of := ModFix10.pos_of.
Theorem ins_offsets_pos_of : forall ops cur l, ins_offsets cur ops = Some l -> l = pos_of ilen_total cur ops.
Proof.
  induction ops as [|i ops IH]; intros cur l E.
  - apply Some_inj in E. subst l. reflexivity.
  - cbn [ins_offsets] in E. cbn [ModFix10.pos_of]. destruct (ilen_model i) as [n|] eqn:En; [|discriminate].
    assert (T : ilen_total i = n) by (unfold ilen_total; rewrite En; reflexivity). rewrite T.
    destruct (ins_offsets (cur + n) ops) as [l'|] eqn:E'; [|discriminate]. apply Some_inj in E. subst l.
    rewrite (IH _ _ E'). reflexivity.
Qed.
Theorem ins_offsets_total : forall ops bs cur, enc_inss ops = Some bs -> exists l, ins_offsets cur ops = Some l.
Proof.
  induction ops as [|i ops IH]; intros bs cur E; [eexists; reflexivity|].
  cbn [enc_inss] in E. cbn [ins_offsets]. unfold ilen_model. destruct (enc_ins i) as [a|]; [|discriminate].
  destruct (enc_inss ops) as [b|] eqn:Eo; [|discriminate].
  destruct (IH b (cur + lenB a) eq_refl) as [l El]. rewrite El. eexists; reflexivity.
Qed.

(* the positions the Emit visitor model (Model/EmitFn.v) records, when its length parameter is [ilen_total] and it starts at
   the length of the locals vector, are the byte offsets of the instructions inside the encoded body *)
Theorem emitted_positions_are_byte_offsets cx ecx ety rs l eloc p0 ar1 st1 fuel1 ib :
  ParseSpec.wfl cx 1 l -> ModFix10.enc_ok cx ecx ->
  ParseFn.parse_body cx ety rs (ParseSpec.flat_list l ++ [(WEnd, eloc)]) = Common.Ok ar1 ->
  EmitFn.emit_body ecx fuel1 ar1 0 p0 = Common.Ok st1 ->
  EmitFn.ex_ilen ecx = ilen_total -> enc_inss (EmitFn.out st1) = Some ib ->
  ins_offsets p0 (EmitFn.out st1) = Some (map snd (EmitFn.imap st1)).
Proof.
  intros Hw He Hp Hb Hil Henc.
  destruct (ModFix10.emitted_positions _ _ _ _ _ _ _ _ _ _ Hw He Hp Hb) as [P _].
  destruct (ins_offsets_total _ _ p0 Henc) as [l0 El]. rewrite El, P, Hil. f_equal. exact (ins_offsets_pos_of _ _ _ El).
Qed.

(* ------------------------------------------------------------------ 4. the code section *)
Lemma enc_bodies_length : forall bodies bytess, enc_bodies bodies = Some bytess -> length bytess = length bodies.
Proof.
  induction bodies as [|b r IH]; intros bytess E.
  - apply Some_inj in E. subst. reflexivity.
  - cbn [enc_bodies] in E. destruct (enc_body (fst b) (snd b)) as [x|]; [|discriminate]. destruct (enc_bodies r) as [l'|]; [|discriminate].
    apply Some_inj in E. subst. cbn [length]. rewrite (IH l' eq_refl). reflexivity.
Qed.
Lemma dec_enc_bodies : forall bodies bytess, enc_bodies bodies = Some bytess ->
  forallb (fun b => wf_body (fst b) (snd b)) bodies = true -> dec_bodies bytess = Some bodies.
Proof.
  induction bodies as [|[ls ops] r IH]; intros bytess E W.
  - apply Some_inj in E. subst. reflexivity.
  - cbn [enc_bodies fst snd] in E. destruct (enc_body ls ops) as [x|] eqn:Ex; [|discriminate].
    destruct (enc_bodies r) as [l|] eqn:El; [|discriminate]. apply Some_inj in E. subst.
    cbn [forallb fst snd] in W. apply andb_true_iff in W. destruct W as [Wb Wr].
    cbn [dec_bodies]. rewrite (dec_enc_body_bytes _ _ _ Ex Wb), (IH l eq_refl Wr). reflexivity.
Qed.

(* bodies b1..bn with bytes_k: the code section payload splits back into the bytes_k, and each decodes to its body *)
Theorem code_section_bytes bodies bytess :
  enc_bodies bodies = Some bytess -> Forall small bytess -> lenN bytess < 2 ^ 126 ->
  forallb (fun b => wf_body (fst b) (snd b)) bodies = true ->
  split_code (code_payload bytess) = Some bytess /\ dec_bodies bytess = Some bodies.
Proof.
  intros E S L W. split; [exact (split_code_payload _ S L)|exact (dec_enc_bodies _ _ E W)].
Qed.
Corollary dec_code_section bodies bytess payload :
  enc_bodies bodies = Some bytess -> Forall small bytess -> lenN bytess < 2 ^ 126 ->
  forallb (fun b => wf_body (fst b) (snd b)) bodies = true ->
  enc_code bodies = Some payload -> dec_code payload = Some bodies.
Proof.
  intros E S L W P. unfold enc_code in P. rewrite E in P. apply Some_inj in P. subst payload.
  unfold dec_code. destruct (code_section_bytes _ _ E S L W) as [A B]. rewrite A. exact B.
Qed.

(* where an instruction is: the j-th instruction of the k-th body is decoded at  (start of body k) + (offset j)  of the payload *)
Lemma skipn_add {A} : forall a b (l : list A), skipn (a + b) l = skipn b (skipn a l).
Proof.
  induction a as [|a IH]; intros b l; [reflexivity|].
  destruct l as [|x l]; [cbn [Nat.add skipn]; now rewrite skipn_nil|]. cbn [Nat.add skipn]. apply IH.
Qed.
Lemma dropN_add {A} a b (l : list A) : dropN (a + b) l = dropN b (dropN a l).
Proof. unfold dropN. rewrite N2Nat.inj_add. apply skipn_add. Qed.
Lemma enc_inss_at : forall ops ib cur offs j i off,
  enc_inss ops = Some ib -> ins_offsets cur ops = Some offs ->
  nth_error ops j = Some i -> nth_error offs j = Some off ->
  exists pre a post, ib = pre ++ a ++ post /\ enc_ins i = Some a /\ off = cur + lenB pre.
Proof.
  induction ops as [|i0 ops IH]; intros ib cur offs j i off E O Hi Ho; [destruct j; discriminate|].
  cbn [enc_inss] in E. cbn [ins_offsets] in O. unfold ilen_model in O.
  destruct (enc_ins i0) as [a0|] eqn:E0; [|discriminate]. destruct (enc_inss ops) as [b|] eqn:Eo; [|discriminate].
  apply Some_inj in E. subst ib.
  destruct (ins_offsets (cur + lenB a0) ops) as [l'|] eqn:O'; [|discriminate]. apply Some_inj in O. subst offs.
  destruct j as [|j]; cbn [nth_error] in Hi, Ho.
  - apply Some_inj in Hi. apply Some_inj in Ho. subst. exists [], a0, b. split; [reflexivity|]. split; [exact E0|]. cbn. lia.
  - destruct (IH b _ _ j i off eq_refl O' Hi Ho) as (pre & a & post & -> & Ea & ->).
    exists (a0 ++ pre), a, post. split; [rewrite <- app_assoc; reflexivity|]. split; [exact Ea|]. rewrite lenB_app. lia.
Qed.
Theorem ins_at_offset bodies bytess k locals ops s t offs j i off :
  enc_bodies bodies = Some bytess ->
  nth_error bodies k = Some (locals, ops) -> nth_error (code_entry_offsets bytess) k = Some (s, t) ->
  ins_offsets (lenB (enc_locals locals)) ops = Some offs ->
  nth_error ops j = Some i -> nth_error offs j = Some off -> wf_imm i = true ->
  exists rest, dec_ins (dropN (t + off) (code_payload bytess)) = Some (i, rest).
Proof.
  intros E Hk Ht O Hi Ho W.
  assert (Hb : exists b ib, nth_error bytess k = Some b /\ enc_inss ops = Some ib /\ b = enc_locals locals ++ ib).
  { clear Ht. revert bytess k E Hk. induction bodies as [|b0 r IH]; intros bytess k E Hk; [destruct k; discriminate|].
    cbn [enc_bodies] in E. destruct (enc_body (fst b0) (snd b0)) as [x|] eqn:Ex; [|discriminate].
    destruct (enc_bodies r) as [l|] eqn:El; [|discriminate]. apply Some_inj in E. subst bytess.
    destruct k as [|k]; cbn [nth_error] in *.
    - apply Some_inj in Hk. subst b0. cbn [fst snd] in Ex. unfold enc_body in Ex.
      destruct (enc_inss ops) as [ib|]; [|discriminate]. apply Some_inj in Ex. subst x. eexists _, _. repeat split.
    - exact (IH l k eq_refl Hk). }
  destruct Hb as (b & ib & Hb & Eo & ->).
  destruct (enc_inss_at _ _ _ _ _ _ _ Eo O Hi Ho) as (pre & a & post & -> & Ea & ->).
  pose proof (code_entry_body _ _ _ _ _ Ht Hb) as B.
  pose proof (firstn_skipn (N.to_nat (lenN (enc_locals locals ++ pre ++ a ++ post))) (dropN t (code_payload bytess))) as FS.
  unfold takeN in B. rewrite B in FS.
  rewrite dropN_add.
  remember (skipn (N.to_nat (lenN (enc_locals locals ++ pre ++ a ++ post))) (dropN t (code_payload bytess))) as R eqn:ER in FS.
  rewrite <- FS, <- lenB_app. change (lenB (enc_locals locals ++ pre)) with (lenN (enc_locals locals ++ pre)).
  replace ((enc_locals locals ++ pre ++ a ++ post) ++ R) with ((enc_locals locals ++ pre) ++ a ++ post ++ R)
    by (rewrite <- !app_assoc; reflexivity).
  rewrite dropN_lenN_app. eexists. apply (dec_enc_ins _ _ _ Ea W).
Qed.

(* the table of operators without immediates, as data: 359 rows, each the model's encoding *)
Lemma simple_ops_count : length simple_ops = 359%nat.
Proof. vm_compute. reflexivity. Qed.
Lemma simple_ops_enc : forallb (fun p => match enc_op (fst p) with Some bs => IR.nlist_eqb bs (snd p) | None => false end) simple_ops = true.
Proof. vm_compute. reflexivity. Qed.

(* ------------------------------------------------------------------ 6. the reader: progress, fuel, normal form *)
Local Open Scope nat_scope.
Lemma dec_u_len : forall bs v r, dec_u bs = Some (v, r) -> length r < length bs.
Proof.
  induction bs as [|b bs IH]; intros v r H; [discriminate|]. cbn [dec_u] in H. destruct (b <? 128)%N.
  - injection H as <- <-. cbn [length]. lia.
  - destruct (dec_u bs) as [[v' r']|] eqn:E; [|discriminate]. injection H as <- <-. specialize (IH _ _ eq_refl). cbn [length]. lia.
Qed.
Lemma dec_s_len : forall bs v r, dec_s bs = Some (v, r) -> length r < length bs.
Proof.
  induction bs as [|b bs IH]; intros v r H; [discriminate|]. cbn [dec_s] in H. destruct (b <? 128)%N.
  - injection H as <- <-. cbn [length]. lia.
  - destruct (dec_s bs) as [[v' r']|] eqn:E; [|discriminate]. injection H as <- <-. specialize (IH _ _ eq_refl). cbn [length]. lia.
Qed.
Lemma le_val_len : forall k bs v r, le_val k bs = Some (v, r) -> length bs = k + length r.
Proof.
  induction k as [|k IH]; intros bs v r H.
  - injection H as <- <-. reflexivity.
  - cbn [le_val] in H. destruct bs as [|b bs]; [discriminate|]. destruct (le_val k bs) as [[v' r']|] eqn:E; [|discriminate].
    injection H as <- <-. cbn [length]. rewrite (IH _ _ _ E). lia.
Qed.
Lemma take_bytes_len : forall k bs l r, take_bytes k bs = Some (l, r) -> length bs = k + length r.
Proof.
  induction k as [|k IH]; intros bs l r H.
  - injection H as <- <-. reflexivity.
  - cbn [take_bytes] in H. destruct bs as [|b bs]; [discriminate|]. destruct (take_bytes k bs) as [[l' r']|] eqn:E; [|discriminate].
    injection H as <- <-. cbn [length]. rewrite (IH _ _ _ E). lia.
Qed.
Lemma dec_memarg_len bs m r : dec_memarg bs = Some (m, r) -> length r < length bs.
Proof.
  unfold dec_memarg. intros H. destruct (dec_u bs) as [[fl r0]|] eqn:E0; [|discriminate]. apply dec_u_len in E0.
  destruct (fl <? 64)%N.
  - destruct (dec_u r0) as [[off r1]|] eqn:E1; [|discriminate]. apply dec_u_len in E1. injection H as <- <-. lia.
  - destruct (fl <? 128)%N; [|discriminate]. destruct (dec_u r0) as [[mem r1]|] eqn:E1; [|discriminate]. apply dec_u_len in E1.
    destruct (dec_u r1) as [[off r2]|] eqn:E2; [|discriminate]. apply dec_u_len in E2. injection H as <- <-. lia.
Qed.
Lemma dec_imm_len s bs i r : dec_imm s bs = Some (i, r) -> length r <= length bs.
Proof.
  destruct s; cbn [dec_imm]; intros H.
  - injection H as <- <-. lia.
  - destruct bs as [|b bs]; [discriminate|]. destruct (b =? 0)%N; [|discriminate]. injection H as <- <-. cbn [length]. lia.
  - destruct (dec_u bs) as [[a r0]|] eqn:E; [|discriminate]. apply dec_u_len in E. injection H as <- <-. lia.
  - destruct (dec_u bs) as [[a r0]|] eqn:E; [|discriminate]. apply dec_u_len in E.
    destruct (dec_u r0) as [[b r1]|] eqn:E1; [|discriminate]. apply dec_u_len in E1. injection H as <- <-. lia.
  - destruct (dec_s bs) as [[a r0]|] eqn:E; [|discriminate]. apply dec_s_len in E. injection H as <- <-. lia.
  - destruct (dec_s bs) as [[a r0]|] eqn:E; [|discriminate]. apply dec_s_len in E. injection H as <- <-. lia.
  - destruct (le_val 4 bs) as [[a r0]|] eqn:E; [|discriminate]. apply le_val_len in E. injection H as <- <-. lia.
  - destruct (le_val 8 bs) as [[a r0]|] eqn:E; [|discriminate]. apply le_val_len in E. injection H as <- <-. lia.
  - destruct (dec_u bs) as [[k [|b r0]]|] eqn:E; try discriminate. apply dec_u_len in E. destruct (k =? 1)%N; [|discriminate].
    destruct (valty_of_byte b); [|discriminate]. injection H as <- <-. cbn [length] in E. lia.
  - destruct (dec_memarg bs) as [[m r0]|] eqn:E; [|discriminate]. apply dec_memarg_len in E. injection H as <- <-. lia.
  - destruct bs as [|b bs]; [discriminate|]. cbn [length].
    destruct (b =? 112)%N; [injection H as <- <-; lia|]. destruct (b =? 111)%N; [injection H as <- <-; lia|discriminate].
  - destruct (le_val 16 bs) as [[a r0]|] eqn:E; [|discriminate]. apply le_val_len in E. injection H as <- <-. lia.
  - destruct bs as [|b bs]; [discriminate|]. injection H as <- <-. cbn [length]. lia.
  - destruct (dec_memarg bs) as [[m [|b r0]]|] eqn:E; try discriminate. apply dec_memarg_len in E. injection H as <- <-. cbn [length] in E. lia.
  - destruct (take_bytes 16 bs) as [[a r0]|] eqn:E; [|discriminate]. apply take_bytes_len in E. injection H as <- <-. lia.
Qed.
Lemma dec_key_len bs k r : dec_key bs = Some (k, r) -> length r < length bs.
Proof.
  unfold dec_key. destruct bs as [|b bs]; [discriminate|]. intros H. cbn [length]. destruct (is_prefix b).
  - destruct (dec_u bs) as [[s r0]|] eqn:E; [|discriminate]. apply dec_u_len in E. injection H as <- <-. lia.
  - injection H as <- <-. lia.
Qed.
Lemma dec_op_len bs o r : dec_op bs = Some (o, r) -> length r < length bs.
Proof.
  unfold dec_op. intros H. destruct (dec_key bs) as [[k r0]|] eqn:E; [|discriminate]. apply dec_key_len in E.
  destruct (find_key k) as [row|]; [|discriminate]. destruct (dec_imm (r_shape row) r0) as [[i r1]|] eqn:Ei; [|discriminate].
  apply dec_imm_len in Ei. destruct (r_mk row i); [|discriminate]. injection H as <- <-. lia.
Qed.
Lemma dec_blockty_len bs b r : dec_blockty bs = Some (b, r) -> length r < length bs.
Proof.
  unfold dec_blockty. destruct bs as [|x bs]; [discriminate|]. intros H. destruct (x =? 64)%N.
  - injection H as <- <-. cbn [length]. lia.
  - destruct (valty_of_byte x).
    + injection H as <- <-. cbn [length]. lia.
    + destruct (dec_s (x :: bs)) as [[z r0]|] eqn:E; [|discriminate]. apply dec_s_len in E.
      destruct (0 <=? z)%Z; [|discriminate]. injection H as <- <-. exact E.
Qed.
Lemma dec_u_list_len : forall k bs l r, dec_u_list k bs = Some (l, r) -> length r <= length bs.
Proof.
  induction k as [|k IH]; intros bs l r H.
  - injection H as <- <-. lia.
  - cbn [dec_u_list] in H. destruct (dec_u bs) as [[x r0]|] eqn:E; [|discriminate]. apply dec_u_len in E.
    destruct (dec_u_list k r0) as [[l' r1]|] eqn:E1; [|discriminate]. apply IH in E1. injection H as <- <-. lia.
Qed.
(* every instruction consumes at least one byte *)
Theorem dec_ins_len bs i r : dec_ins bs = Some (i, r) -> length r < length bs.
Proof.
  unfold dec_ins. destruct bs as [|b bs]; [discriminate|]. intros H.
  repeat match type of H with
  | (if ?c then _ else _) = _ => destruct c
  | Some _ = Some _ => injection H as <- <-; cbn [length]; lia
  end;
  try (destruct (dec_blockty bs) as [[bt r0]|] eqn:E; [|discriminate]; apply dec_blockty_len in E; injection H as <- <-; cbn [length]; lia);
  try (destruct (dec_u bs) as [[d r0]|] eqn:E; [|discriminate]; apply dec_u_len in E).
  - injection H as <- <-. cbn [length]. lia.
  - injection H as <- <-. cbn [length]. lia.
  - destruct (dec_u_list (N.to_nat d) r0) as [[ds r1]|] eqn:E1; [|discriminate]. apply dec_u_list_len in E1.
    destruct (dec_u r1) as [[d' r2]|] eqn:E2; [|discriminate]. apply dec_u_len in E2. injection H as <- <-. cbn [length]. lia.
  - destruct (dec_op (b :: bs)) as [[o r0]|] eqn:E; [|discriminate]. apply dec_op_len in E. injection H as <- <-. exact E.
Qed.
(* so the number of bytes is enough fuel: more fuel never changes the result *)
Lemma dec_inss_fuel : forall f bs f', length bs <= f -> length bs <= f' -> dec_inss f bs = dec_inss f' bs.
Proof.
  induction f as [|f IH]; intros bs f' H H'.
  - destruct bs; [destruct f'; reflexivity|cbn [length] in H; lia].
  - destruct bs as [|b bs]; [destruct f'; reflexivity|]. destruct f' as [|f']; [cbn [length] in H'; lia|].
    cbn [dec_inss]. destruct (dec_ins (b :: bs)) as [[i r]|] eqn:E; [|reflexivity]. apply dec_ins_len in E.
    rewrite (IH r f') by lia. reflexivity.
Qed.
Lemma dec_local_groups_len : forall k bs l r, dec_local_groups k bs = Some (l, r) -> length r <= length bs.
Proof.
  induction k as [|k IH]; intros bs l r H.
  - injection H as <- <-. lia.
  - cbn [dec_local_groups] in H. destruct (dec_u bs) as [[n [|b r0]]|] eqn:E; try discriminate. apply dec_u_len in E.
    destruct (valty_of_byte b); [|discriminate]. destruct (dec_local_groups k r0) as [[l' r1]|] eqn:E1; [|discriminate].
    apply IH in E1. injection H as <- <-. cbn [length] in E. lia.
Qed.
Theorem dec_body_fuel bs f : length bs <= f -> dec_body f bs = dec_body (length bs) bs.
Proof.
  intros H. unfold dec_body, dec_locals. destruct (dec_u bs) as [[k r0]|] eqn:E; [|reflexivity]. apply dec_u_len in E.
  destruct (dec_local_groups (N.to_nat k) r0) as [[ls r]|] eqn:E1; [|reflexivity]. apply dec_local_groups_len in E1.
  rewrite (dec_inss_fuel f r (length bs)) by lia. reflexivity.
Qed.
Local Close Scope nat_scope.

(* the rows are consistent in the other direction too: what a row's constructor builds splits into the row's tag and the
   immediates it was built from, and has the row's shape *)
Definition row_ok (r : oprow) : Prop :=
  forall i o, r_mk r i = Some o -> op_split o = (r_tag r, i) /\ shape_of i = r_shape r.
Ltac row_tac := intros H i o' E; destruct i; try discriminate E; cbn in E; apply Some_inj in E; subst o'; split; [apply H|reflexivity].
Lemma row_none_ok k key o : op_split o = (k, I_none) -> row_ok (row_none k key o). Proof. row_tac. Qed.
Lemma row_zero_ok k key o : op_split o = (k, I_zero) -> row_ok (row_zero k key o). Proof. row_tac. Qed.
Lemma row_u32_ok k key c : (forall a, op_split (c a) = (k, I_u32 a)) -> row_ok (row_u32 k key c). Proof. row_tac. Qed.
Lemma row_u32x2_ok k key c : (forall a b, op_split (c a b) = (k, I_u32x2 a b)) -> row_ok (row_u32x2 k key c). Proof. row_tac. Qed.
Lemma row_s32_ok k key c : (forall z, op_split (c z) = (k, I_s32 z)) -> row_ok (row_s32 k key c). Proof. row_tac. Qed.
Lemma row_s64_ok k key c : (forall z, op_split (c z) = (k, I_s64 z)) -> row_ok (row_s64 k key c). Proof. row_tac. Qed.
Lemma row_f32_ok k key c : (forall n, op_split (c n) = (k, I_f32 n)) -> row_ok (row_f32 k key c). Proof. row_tac. Qed.
Lemma row_f64_ok k key c : (forall n, op_split (c n) = (k, I_f64 n)) -> row_ok (row_f64 k key c). Proof. row_tac. Qed.
Lemma row_valty_ok k key c : (forall t, op_split (c t) = (k, I_valty t)) -> row_ok (row_valty k key c). Proof. row_tac. Qed.
Lemma row_mem_ok k key c : (forall m, op_split (c m) = (k, I_mem m)) -> row_ok (row_mem k key c). Proof. row_tac. Qed.
Lemma row_heap_ok k key c : (forall h, op_split (c h) = (k, I_heap h)) -> row_ok (row_heap k key c). Proof. row_tac. Qed.
Lemma row_v128_ok k key c : (forall n, op_split (c n) = (k, I_v128 n)) -> row_ok (row_v128 k key c). Proof. row_tac. Qed.
Lemma row_lane_ok k key c : (forall l, op_split (c l) = (k, I_lane l)) -> row_ok (row_lane k key c). Proof. row_tac. Qed.
Lemma row_memlane_ok k key c : (forall m l, op_split (c m l) = (k, I_memlane m l)) -> row_ok (row_memlane k key c). Proof. row_tac. Qed.
Lemma row_shuffle_ok k key c : (forall ls, op_split (c ls) = (k, I_shuffle ls)) -> row_ok (row_shuffle k key c). Proof. row_tac. Qed.
Lemma rows_ok : Forall row_ok optable.
Proof.
  unfold optable.
  repeat (apply Forall_cons;
    [first [apply row_none_ok | apply row_zero_ok | apply row_u32_ok | apply row_u32x2_ok | apply row_s32_ok | apply row_s64_ok
           | apply row_f32_ok | apply row_f64_ok | apply row_valty_ok | apply row_mem_ok | apply row_heap_ok | apply row_v128_ok
           | apply row_lane_ok | apply row_memlane_ok | apply row_shuffle_ok]; intros; reflexivity|]).
  apply Forall_nil.
Qed.

Lemma dec_imm_encodable s bs i r : dec_imm s bs = Some (i, r) -> exists c, enc_imm i = Some c.
Proof.
  intros H. destruct i; cbn [enc_imm]; try (eexists; reflexivity).
  destruct h; try (eexists; reflexivity). exfalso.
  destruct s; cbn [dec_imm] in H.
  - discriminate.
  - destruct bs as [|b bs]; [discriminate|]. destruct (b =? 0)%N; discriminate.
  - destruct (dec_u bs) as [[a r0]|]; discriminate.
  - destruct (dec_u bs) as [[a r0]|]; [|discriminate]. destruct (dec_u r0) as [[b r1]|]; discriminate.
  - destruct (dec_s bs) as [[a r0]|]; discriminate.
  - destruct (dec_s bs) as [[a r0]|]; discriminate.
  - destruct (le_val 4 bs) as [[a r0]|]; discriminate.
  - destruct (le_val 8 bs) as [[a r0]|]; discriminate.
  - destruct (dec_u bs) as [[k [|b r0]]|]; try discriminate. destruct (k =? 1)%N; [|discriminate]. destruct (valty_of_byte b); discriminate.
  - destruct (dec_memarg bs) as [[m r0]|]; discriminate.
  - destruct bs as [|b bs]; [discriminate|]. destruct (b =? 112)%N; [discriminate|]. destruct (b =? 111)%N; discriminate.
  - destruct (le_val 16 bs) as [[a r0]|]; discriminate.
  - destruct bs as [|b bs]; discriminate.
  - destruct (dec_memarg bs) as [[m [|b r0]]|]; discriminate.
  - destruct (take_bytes 16 bs) as [[a r0]|]; discriminate.
Qed.
(* whatever the reader returns the writer can write, and reading the writer's bytes gives the same instruction: the writer's
   output is the normal form of every accepted encoding (padded LEB128 included) *)
Theorem dec_op_encodable bs o rest : dec_op bs = Some (o, rest) -> exists c, enc_op o = Some c.
Proof.
  unfold dec_op. intros H. destruct (dec_key bs) as [[k r0]|]; [|discriminate].
  destruct (find_key k) as [row|] eqn:Fk; [|discriminate]. destruct (dec_imm (r_shape row) r0) as [[i r1]|] eqn:Ei; [|discriminate].
  destruct (r_mk row i) as [o'|] eqn:Em; [|discriminate]. injection H as <- <-.
  apply find_some in Fk. destruct Fk as [Hin _].
  destruct (proj1 (Forall_forall _ _) rows_ok row Hin i o' Em) as [Hs _].
  destruct (dec_imm_encodable _ _ _ _ Ei) as [c Ec].
  unfold enc_op. pose proof (covered_all o') as C. unfold covered in C.
  destruct (find_tag (fst (op_split o'))) as [row2|]; [|discriminate]. rewrite Hs. cbn [snd]. rewrite Ec. eexists; reflexivity.
Qed.
Theorem dec_ins_normal_form bs i rest : dec_ins bs = Some (i, rest) ->
  exists c, enc_ins i = Some c /\ (wf_imm i = true -> dec_ins (c ++ rest) = Some (i, rest)).
Proof.
  intros H. assert (E : exists c, enc_ins i = Some c).
  { destruct i; cbn [enc_ins]; try (eexists; reflexivity).
    unfold dec_ins in H. destruct bs as [|b bs]; [discriminate|].
    destruct (b =? 1); [discriminate|].
    destruct (b =? 2); [destruct (dec_blockty bs) as [[? ?]|]; discriminate|].
    destruct (b =? 3); [destruct (dec_blockty bs) as [[? ?]|]; discriminate|].
    destruct (b =? 4); [destruct (dec_blockty bs) as [[? ?]|]; discriminate|].
    destruct (b =? 5); [discriminate|]. destruct (b =? 11); [discriminate|].
    destruct (b =? 12); [destruct (dec_u bs) as [[? ?]|]; discriminate|].
    destruct (b =? 13); [destruct (dec_u bs) as [[? ?]|]; discriminate|].
    destruct (b =? 14).
    { destruct (dec_u bs) as [[k r1]|]; [|discriminate]. destruct (dec_u_list (N.to_nat k) r1) as [[ds r2]|]; [|discriminate].
      destruct (dec_u r2) as [[? ?]|]; discriminate. }
    destruct (dec_op (b :: bs)) as [[o' r']|] eqn:E; [|discriminate]. injection H as <- <-. exact (dec_op_encodable _ _ _ E). }
  destruct E as [c E]. exists c. split; [exact E|]. intros W. exact (dec_enc_ins _ _ _ E W).
Qed.

(* bodies: the writer's bytes are the normal form of whatever the reader accepts *)
Lemma dec_inss_encodable : forall f bs ops, dec_inss f bs = Some ops -> exists c, enc_inss ops = Some c.
Proof.
  induction f as [|f IH]; intros bs ops H.
  - destruct bs; [|discriminate]. apply Some_inj in H. subst ops. eexists; reflexivity.
  - destruct bs as [|b bs]; [apply Some_inj in H; subst ops; eexists; reflexivity|].
    cbn [dec_inss] in H. destruct (dec_ins (b :: bs)) as [[i r]|] eqn:E; [|discriminate].
    destruct (dec_inss f r) as [l|] eqn:El; [|discriminate]. apply Some_inj in H. subst ops.
    destruct (dec_ins_normal_form _ _ _ E) as (c & Ec & _). destruct (IH _ _ El) as [c' Ec'].
    cbn [enc_inss]. rewrite Ec, Ec'. eexists; reflexivity.
Qed.
Theorem dec_body_normal_form f bs ls ops : dec_body f bs = Some (ls, ops) ->
  exists c, enc_body ls ops = Some c /\ (wf_body ls ops = true -> dec_body (length c) c = Some (ls, ops)).
Proof.
  unfold dec_body. intros H. destruct (dec_locals bs) as [[ls' r]|]; [|discriminate].
  destruct (dec_inss f r) as [ops'|] eqn:E; [|discriminate]. injection H as <- <-.
  destruct (dec_inss_encodable _ _ _ E) as [c Ec].
  assert (Eb : enc_body ls' ops' = Some (enc_locals ls' ++ c)) by (unfold enc_body; rewrite Ec; reflexivity).
  eexists. split; [exact Eb|]. intros W. exact (dec_enc_body_bytes _ _ _ Eb W).
Qed.

(* the reader with positions: on the writer's bytes, the positions it reports are the running sums of [ilen_model]
   (a second parse of an emitted body gives every instruction the position the Emit visitor recorded for it) *)
Lemma dec_inss_at_fst : forall f cur bs l, dec_inss_at f cur bs = Some l -> dec_inss f bs = Some (map fst l).
Proof.
  induction f as [|f IH]; intros cur bs l H.
  - destruct bs; [|discriminate]. apply Some_inj in H. subst l. reflexivity.
  - destruct bs as [|b bs]; [apply Some_inj in H; subst l; reflexivity|].
    cbn [dec_inss_at] in H. cbn [dec_inss]. destruct (dec_ins (b :: bs)) as [[i r]|]; [|discriminate].
    destruct (dec_inss_at f _ r) as [l'|] eqn:E; [|discriminate]. apply Some_inj in H. subst l.
    rewrite (IH _ _ _ E). reflexivity.
Qed.
Theorem dec_inss_at_canonical : forall ops bs cur offs, enc_inss ops = Some bs -> forallb wf_imm ops = true ->
  ins_offsets cur ops = Some offs ->
  forall fuel, (length ops <= fuel)%nat -> dec_inss_at fuel cur bs = Some (combine ops offs).
Proof.
  induction ops as [|i ops IH]; intros bs cur offs E W O fuel F.
  - apply Some_inj in E. subst bs. apply Some_inj in O. subst offs. destruct fuel; reflexivity.
  - cbn [enc_inss] in E. destruct (enc_ins i) as [a|] eqn:Ei; [|discriminate].
    destruct (enc_inss ops) as [b|] eqn:Eo; [|discriminate]. apply Some_inj in E. subst bs.
    cbn [forallb] in W. apply andb_true_iff in W. destruct W as [Wi Wo].
    cbn [ins_offsets] in O. unfold ilen_model in O. rewrite Ei in O.
    destruct (ins_offsets (cur + lenB a) ops) as [l'|] eqn:O'; [|discriminate]. apply Some_inj in O. subst offs.
    destruct fuel as [|fuel]; [cbn [length] in F; lia|].
    pose proof (dec_enc_ins i a b Ei Wi) as D.
    assert (L : lenB (a ++ b) - lenB b = lenB a) by (rewrite lenB_app; lia).
    destruct (enc_ins_nonempty _ _ Ei) as (x & tl & ->). cbn [app] in *. cbn [dec_inss_at]. rewrite D, L.
    rewrite (IH b _ _ eq_refl Wo O' fuel) by (cbn [length] in F; lia). reflexivity.
Qed.
Theorem dec_body_at_canonical locals ops bs offs : enc_body locals ops = Some bs -> wf_body locals ops = true ->
  ins_offsets (lenB (enc_locals locals)) ops = Some offs ->
  dec_body_at (length bs) bs = Some (locals, combine ops offs).
Proof.
  intros E W O. destruct (enc_body_length _ _ _ E) as (s & Hs & Hl). pose proof (sum_ilen_ge_length _ _ Hs) as G.
  unfold enc_body in E. destruct (enc_inss ops) as [ib|] eqn:Eo; [|discriminate]. apply Some_inj in E. subst bs.
  unfold wf_body in W. apply andb_true_iff in W. destruct W as [W Wo]. apply andb_true_iff in W. destruct W as [Wl Wn].
  unfold dec_body_at. rewrite (dec_enc_locals _ _ Wl Wn).
  assert (L : lenB (enc_locals locals ++ ib) - lenB ib = lenB (enc_locals locals)) by (rewrite lenB_app; lia). rewrite L.
  rewrite (dec_inss_at_canonical _ _ _ _ Eo Wo O); [reflexivity|]. unfold lenB in Hl at 1. lia.
Qed.

(* ------------------------------------------------------------------ 7. minimality: the writer's encoding is the shortest the reader accepts *)
Lemma Some_pair_inj {A B} (a a' : A) (b b' : B) : Some (a, b) = Some (a', b') -> a = a' /\ b = b'.
Proof. intros H. inversion H. split; reflexivity. Qed.
Lemma dec_u_cons b t : dec_u (b :: t) =
  if b <? 128 then Some (b, t) else match dec_u t with Some (v, r') => Some (N.land b 127 + 128 * v, r') | None => None end.
Proof. reflexivity. Qed.
Lemma dec_s_cons b t : dec_s (b :: t) =
  if b <? 128 then Some (if b <? 64 then Z.of_N b else (Z.of_N b - 128)%Z, t)
  else match dec_s t with Some (v, r') => Some ((Z.of_N (N.land b 127) + 128 * v)%Z, r') | None => None end.
Proof. reflexivity. Qed.
Lemma enc_u_fuel_minimal : forall bs f v r, dec_u bs = Some (v, r) -> v < 128 ^ N.of_nat (S f) ->
  (length (enc_u_fuel f v) + length r <= length bs)%nat.
Proof.
  induction bs as [|b t IH]; intros f v r H Hv; [discriminate|].
  rewrite dec_u_cons in H. destruct (b <? 128) eqn:Eb.
  - apply Some_pair_inj in H. destruct H as [<- <-]. clear Hv IH. destruct f; cbn [enc_u_fuel]; [|rewrite Eb]; cbn [length]; lia.
  - destruct (dec_u t) as [[v' r']|] eqn:Et; [|discriminate]. apply Some_pair_inj in H. destruct H as [<- <-].
    pose proof (dec_u_len _ _ _ Et) as Lt.
    destruct f as [|f]; [clear Hv IH; cbn [enc_u_fuel length]; lia|].
    cbn [enc_u_fuel]. destruct (N.land b 127 + 128 * v' <? 128); [clear Hv IH; cbn [length]; lia|].
    cbn [length]. rewrite shiftr7.
    assert (X : N.land b 127 < 128) by (rewrite land127; apply mod128_lt).
    assert (Q : (N.land b 127 + 128 * v') / 128 = v').
    { rewrite N.add_comm, N.mul_comm, N.div_add_l by discriminate. rewrite (N.div_small _ _ X). lia. }
    rewrite Q. rewrite pow128_S in Hv.
    assert (Hv' : v' < 128 ^ N.of_nat (S f)).
    { clear - Hv. generalize dependent (128 ^ N.of_nat (S f)). intros. lia. }
    specialize (IH f v' r' eq_refl Hv'). clear Hv Hv'. lia.
Qed.
Theorem enc_u_minimal bs v r : dec_u bs = Some (v, r) -> v < 2 ^ 126 -> (length (enc_u v) + length r <= length bs)%nat.
Proof.
  intros H Hv. unfold enc_u. apply enc_u_fuel_minimal; [exact H|].
  assert (2 ^ 126 <= 128 ^ N.of_nat 19) by (vm_compute; discriminate). lia.
Qed.

Lemma enc_s_fuel_minimal : forall bs f z r, dec_s bs = Some (z, r) ->
  (- (64 * 128 ^ Z.of_nat f) <= z < 64 * 128 ^ Z.of_nat f)%Z ->
  (length (enc_s_fuel f z) + length r <= length bs)%nat.
Proof.
  induction bs as [|b t IH]; intros f z r H Hz; [discriminate|].
  rewrite dec_s_cons in H. destruct (b <? 128) eqn:Eb.
  - apply Some_pair_inj in H. destruct H as [<- <-]. apply N.ltb_lt in Eb.
    destruct f as [|f]; [clear Hz IH; cbn [enc_s_fuel length]; lia|]. cbn [enc_s_fuel].
    set (z := if b <? 64 then Z.of_N b else (Z.of_N b - 128)%Z).
    pose proof (sbyte_Z z) as HB. pose proof (zmod128_range z) as HR. pose proof (zdivmod128 z) as HD.
    rewrite zshiftr7. set (x := Z.to_N (Z.land z 127)) in *.
    assert (C : ((z / 128 =? 0)%Z && (x <? 64)) || ((z / 128 =? -1)%Z && (64 <=? x)) = true).
    { apply orb_true_iff. subst z. destruct (b <? 64) eqn:E6.
      - apply N.ltb_lt in E6. left. apply andb_true_iff. split.
        + apply Z.eqb_eq. apply Z.div_small. lia.
        + apply N.ltb_lt. assert (Z.of_N b / 128 = 0)%Z by (apply Z.div_small; lia). lia.
      - apply N.ltb_ge in E6. right.
        assert (Q : ((Z.of_N b - 128) / 128 = -1)%Z).
        { replace (Z.of_N b - 128)%Z with (Z.of_N b + (-1) * 128)%Z by lia. rewrite Z.div_add by lia.
          rewrite Z.div_small by lia. reflexivity. }
        apply andb_true_iff. split; [apply Z.eqb_eq; exact Q|]. apply N.leb_le. lia. }
    rewrite C. clear. cbn [length]. lia.
  - destruct (dec_s t) as [[v r']|] eqn:Et; [|discriminate]. apply Some_pair_inj in H. destruct H as [<- <-].
    pose proof (dec_s_len _ _ _ Et) as Lt.
    destruct f as [|f]; [clear Hz IH; cbn [enc_s_fuel length]; lia|]. cbn [enc_s_fuel].
    destruct (_ || _); [clear Hz IH; cbn [length]; lia|]. cbn [length]. rewrite zshiftr7.
    assert (X : (0 <= Z.of_N (N.land b 127) < 128)%Z) by (clear; pose proof (mod128_lt b) as M; rewrite land127; generalize dependent (b mod 128); intros; lia).
    assert (Q : ((Z.of_N (N.land b 127) + 128 * v) / 128 = v)%Z).
    { rewrite Z.add_comm, Z.mul_comm, Z.div_add_l by lia. rewrite (Z.div_small _ _ X). lia. }
    rewrite Q. rewrite zpow128_S in Hz.
    assert (Hv : (- (64 * 128 ^ Z.of_nat f) <= v < 64 * 128 ^ Z.of_nat f)%Z).
    { clear - Hz X. generalize dependent (128 ^ Z.of_nat f)%Z. generalize dependent (Z.of_N (N.land b 127)). intros. lia. }
    specialize (IH f v r' eq_refl Hv). clear Hz Hv. lia.
Qed.
Theorem enc_s_minimal bs z r : dec_s bs = Some (z, r) -> (- 2 ^ 125 <= z < 2 ^ 125)%Z ->
  (length (enc_s z) + length r <= length bs)%nat.
Proof.
  intros H Hz. unfold enc_s. apply enc_s_fuel_minimal; [exact H|].
  assert (2 ^ 125 <= 64 * 128 ^ Z.of_nat 18)%Z by (vm_compute; discriminate). lia.
Qed.

Lemma u32_range a : u32_ok a = true -> a < 2 ^ 126.
Proof. apply u32_small. Qed.
Lemma le_val_minimal k bs v r : le_val k bs = Some (v, r) -> (length (le_bytes k v) + length r = length bs)%nat.
Proof. intros H. rewrite le_bytes_length. symmetry. exact (le_val_len _ _ _ _ H). Qed.

Lemma dec_blockty_minimal bs b r : dec_blockty bs = Some (b, r) -> wf_blockty b = true ->
  (length (enc_blockty b) + length r <= length bs)%nat.
Proof.
  unfold dec_blockty. destruct bs as [|x bs]; [discriminate|]. intros H W. destruct (x =? 64).
  - apply Some_pair_inj in H. destruct H as [<- <-]. cbn [enc_blockty length]. lia.
  - destruct (valty_of_byte x).
    + apply Some_pair_inj in H. destruct H as [<- <-]. cbn [enc_blockty length]. lia.
    + destruct (dec_s (x :: bs)) as [[z r0]|] eqn:E; [|discriminate].
      destruct (Z.leb_spec 0 z) as [Hz|]; [|discriminate]. apply Some_pair_inj in H. destruct H as [<- <-].
      cbn [enc_blockty wf_blockty] in *. rewrite Z2N.id by exact Hz.
      apply (enc_s_minimal _ _ _ E).
      assert (Hi : Z.to_N z < 4294967296) by (unfold u32_ok in W; apply N.ltb_lt in W; exact W).
      assert (4294967296 <= 2 ^ 125)%Z by (vm_compute; discriminate). lia.
Qed.

Lemma enc_u_one n : n < 128 -> enc_u n = [n].
Proof. apply enc_u_one_byte. Qed.

Lemma dec_memarg_minimal bs m r : dec_memarg bs = Some (m, r) -> wf_memarg m = true ->
  (length (enc_memarg m) + length r <= length bs)%nat.
Proof.
  unfold dec_memarg. intros H W. destruct (wf_memarg_inv m W) as (Ha & Ho & Hm).
  destruct (dec_u bs) as [[fl r0]|] eqn:E0; [|discriminate].
  destruct (N.ltb_spec fl 64) as [F|F].
  - destruct (dec_u r0) as [[off r1]|] eqn:E1; [|discriminate]. apply Some_pair_inj in H. destruct H as [<- <-].
    cbn [wa_align wa_offset wa_memory] in *. unfold enc_memarg. cbn [wa_align wa_offset wa_memory N.eqb]. rewrite app_length.
    pose proof (enc_u_minimal _ _ _ E0 ltac:(apply (small_of_lt _ 6); [exact F|discriminate])).
    pose proof (enc_u_minimal _ _ _ E1 Ho). lia.
  - destruct (N.ltb_spec fl 128) as [F2|F2]; [|discriminate].
    destruct (dec_u r0) as [[mem r1]|] eqn:E1; [|discriminate]. destruct (dec_u r1) as [[off r2]|] eqn:E2; [|discriminate].
    apply Some_pair_inj in H. destruct H as [<- <-]. cbn [wa_align wa_offset wa_memory] in *.
    pose proof (dec_u_len _ _ _ E0) as L0. pose proof (dec_u_len _ _ _ E1) as L1.
    pose proof (enc_u_minimal _ _ _ E2 Ho) as M2.
    unfold enc_memarg. cbn [wa_align wa_offset wa_memory]. destruct (mem =? 0).
    + rewrite app_length, (enc_u_one (fl - 64)) by lia. cbn [length]. lia.
    + rewrite (lor64 _ Ha). replace (fl - 64 + 64) with fl by lia. rewrite !app_length.
      pose proof (enc_u_minimal _ _ _ E0 ltac:(apply (small_of_lt _ 7); [exact F2|discriminate])).
      pose proof (enc_u_minimal _ _ _ E1 Hm). lia.
Qed.

Lemma dec_imm_minimal s bs i r c : dec_imm s bs = Some (i, r) -> wf_i i = true -> enc_imm i = Some c ->
  (length c + length r <= length bs)%nat.
Proof.
  destruct s; cbn [dec_imm]; intros H W Ec.
  - apply Some_pair_inj in H. destruct H as [<- <-]. apply Some_inj in Ec. subst c. cbn [length]. lia.
  - destruct bs as [|b bs]; [discriminate|]. destruct (b =? 0); [|discriminate]. apply Some_pair_inj in H. destruct H as [<- <-].
    apply Some_inj in Ec. subst c. cbn [length]. lia.
  - destruct (dec_u bs) as [[a r0]|] eqn:E; [|discriminate]. apply Some_pair_inj in H. destruct H as [<- <-].
    cbn [enc_imm wf_i] in *. apply Some_inj in Ec. subst c. exact (enc_u_minimal _ _ _ E (u32_range _ W)).
  - destruct (dec_u bs) as [[a r0]|] eqn:E; [|discriminate]. destruct (dec_u r0) as [[b r1]|] eqn:E1; [|discriminate].
    apply Some_pair_inj in H. destruct H as [<- <-]. cbn [enc_imm wf_i] in *. apply Some_inj in Ec. subst c.
    apply andb_true_iff in W. destruct W as [Wa Wb]. rewrite app_length.
    pose proof (enc_u_minimal _ _ _ E (u32_range _ Wa)). pose proof (enc_u_minimal _ _ _ E1 (u32_range _ Wb)). lia.
  - destruct (dec_s bs) as [[a r0]|] eqn:E; [|discriminate]. apply Some_pair_inj in H. destruct H as [<- <-].
    cbn [enc_imm wf_i] in *. apply Some_inj in Ec. subst c.
    apply andb_true_iff in W. destruct W as [Wa Wb]. apply Z.leb_le in Wa. apply Z.ltb_lt in Wb.
    exact (enc_s_minimal _ _ _ E (ssmall_of a 31 Wa Wb ltac:(lia))).
  - destruct (dec_s bs) as [[a r0]|] eqn:E; [|discriminate]. apply Some_pair_inj in H. destruct H as [<- <-].
    cbn [enc_imm wf_i] in *. apply Some_inj in Ec. subst c.
    apply andb_true_iff in W. destruct W as [Wa Wb]. apply Z.leb_le in Wa. apply Z.ltb_lt in Wb.
    exact (enc_s_minimal _ _ _ E (ssmall_of a 63 Wa Wb ltac:(lia))).
  - destruct (le_val 4 bs) as [[a r0]|] eqn:E; [|discriminate]. apply Some_pair_inj in H. destruct H as [<- <-].
    cbn [enc_imm] in Ec. apply Some_inj in Ec. subst c. rewrite (le_val_minimal _ _ _ _ E). lia.
  - destruct (le_val 8 bs) as [[a r0]|] eqn:E; [|discriminate]. apply Some_pair_inj in H. destruct H as [<- <-].
    cbn [enc_imm] in Ec. apply Some_inj in Ec. subst c. rewrite (le_val_minimal _ _ _ _ E). lia.
  - destruct (dec_u bs) as [[k [|b r0]]|] eqn:E; try discriminate. destruct (k =? 1); [|discriminate].
    destruct (valty_of_byte b); [|discriminate]. apply Some_pair_inj in H. destruct H as [<- <-].
    cbn [enc_imm] in Ec. apply Some_inj in Ec. subst c. apply dec_u_len in E.
    rewrite app_length, (enc_u_one 1) by lia. cbn [length] in *. lia.
  - destruct (dec_memarg bs) as [[m r0]|] eqn:E; [|discriminate]. apply Some_pair_inj in H. destruct H as [<- <-].
    cbn [enc_imm wf_i] in *. apply Some_inj in Ec. subst c. exact (dec_memarg_minimal _ _ _ E W).
  - destruct bs as [|b bs]; [discriminate|].
    destruct (b =? 112); [apply Some_pair_inj in H; destruct H as [<- <-]; apply Some_inj in Ec; subst c; cbn [length]; lia|].
    destruct (b =? 111); [apply Some_pair_inj in H; destruct H as [<- <-]; apply Some_inj in Ec; subst c; cbn [length]; lia|discriminate].
  - destruct (le_val 16 bs) as [[a r0]|] eqn:E; [|discriminate]. apply Some_pair_inj in H. destruct H as [<- <-].
    cbn [enc_imm] in Ec. apply Some_inj in Ec. subst c. rewrite (le_val_minimal _ _ _ _ E). lia.
  - destruct bs as [|b bs]; [discriminate|]. apply Some_pair_inj in H. destruct H as [<- <-].
    apply Some_inj in Ec. subst c. cbn [length]. lia.
  - destruct (dec_memarg bs) as [[m [|b r0]]|] eqn:E; try discriminate. apply Some_pair_inj in H. destruct H as [<- <-].
    cbn [enc_imm wf_i] in *. apply Some_inj in Ec. subst c. apply andb_true_iff in W. destruct W as [Wm _].
    pose proof (dec_memarg_minimal _ _ _ E Wm) as M. rewrite app_length. cbn [length] in *. lia.
  - destruct (take_bytes 16 bs) as [[a r0]|] eqn:E; [|discriminate]. apply Some_pair_inj in H. destruct H as [<- <-].
    cbn [enc_imm wf_i] in *. apply Some_inj in Ec. subst c. apply Nat.eqb_eq in W. apply take_bytes_len in E. lia.
Qed.

Lemma dec_key_minimal bs k r : dec_key bs = Some (k, r) -> u32_ok (snd k) = true ->
  (length (enc_key k) + length r <= length bs)%nat.
Proof.
  unfold dec_key, enc_key. destruct bs as [|b bs]; [discriminate|]. intros H W. destruct (is_prefix b) eqn:P.
  - destruct (dec_u bs) as [[s r0]|] eqn:E; [|discriminate]. apply Some_pair_inj in H. destruct H as [<- <-].
    cbn [fst snd] in *. rewrite P. pose proof (enc_u_minimal _ _ _ E (u32_range _ W)). cbn [length]. lia.
  - apply Some_pair_inj in H. destruct H as [<- <-]. cbn [fst snd]. rewrite P. cbn [length]. lia.
Qed.

Lemma key_eqb_eq a b : key_eqb a b = true -> a = b.
Proof.
  destruct a, b. unfold key_eqb. cbn [fst snd]. intros H. apply andb_true_iff in H. destruct H as [H1 H2].
  apply N.eqb_eq in H1, H2. subst. reflexivity.
Qed.
(* tags are unique: looking a row's tag up gives a row with the same opcode *)
Lemma table_tags : forallb (fun r => match find_tag (r_tag r) with Some r' => key_eqb (r_key r') (r_key r) | None => false end) optable = true.
Proof. vm_compute. reflexivity. Qed.

Theorem dec_op_minimal bs o r c : dec_op bs = Some (o, r) -> wf_op o = true -> enc_op o = Some c ->
  (length c + length r <= length bs)%nat.
Proof.
  unfold dec_op, wf_op, enc_op. intros H W Ec.
  destruct (dec_key bs) as [[k r0]|] eqn:Ek; [|discriminate]. destruct (find_key k) as [row|] eqn:Fk; [|discriminate].
  destruct (dec_imm (r_shape row) r0) as [[i r1]|] eqn:Ei; [|discriminate]. destruct (r_mk row i) as [o'|] eqn:Em; [|discriminate].
  apply Some_pair_inj in H. destruct H as [<- <-].
  apply find_some in Fk. destruct Fk as [Hin Hk]. apply key_eqb_eq in Hk.
  destruct (proj1 (Forall_forall _ _) rows_ok row Hin i o' Em) as [Hs _]. rewrite Hs in *. cbn [fst snd] in *.
  pose proof (proj1 (forallb_forall _ _) table_tags row Hin) as T. cbn beta in T.
  destruct (find_tag (r_tag row)) as [row'|]; [|discriminate]. apply key_eqb_eq in T.
  destruct (enc_imm i) as [ci|] eqn:Eci; [|discriminate]. apply Some_inj in Ec. subst c.
  pose proof (proj1 (forallb_forall _ _) table_keys row Hin) as K. apply andb_true_iff in K. destruct K as [K _].
  unfold key_ok in K. apply andb_true_iff in K. destruct K as [K _].
  rewrite T, Hk in *. rewrite app_length.
  pose proof (dec_key_minimal _ _ _ Ek K). pose proof (dec_imm_minimal _ _ _ _ _ Ei W Eci). lia.
Qed.

Lemma dec_u_list_spec : forall k bs ds r, dec_u_list k bs = Some (ds, r) -> forallb u32_ok ds = true ->
  length ds = k /\ (length (flat_map enc_u ds) + length r <= length bs)%nat.
Proof.
  induction k as [|k IH]; intros bs ds r H W.
  - apply Some_pair_inj in H. destruct H as [<- <-]. split; [reflexivity|cbn; lia].
  - cbn [dec_u_list] in H. destruct (dec_u bs) as [[x r0]|] eqn:E; [|discriminate].
    destruct (dec_u_list k r0) as [[l r1]|] eqn:E1; [|discriminate]. apply Some_pair_inj in H. destruct H as [<- <-].
    cbn [forallb] in W. apply andb_true_iff in W. destruct W as [Wx Wl]. destruct (IH _ _ _ E1 Wl) as [L M].
    pose proof (enc_u_minimal _ _ _ E (u32_range _ Wx)). cbn [length flat_map]. rewrite app_length. split; lia.
Qed.

Theorem dec_ins_minimal bs i r c : dec_ins bs = Some (i, r) -> wf_imm i = true -> enc_ins i = Some c ->
  (length c + length r <= length bs)%nat.
Proof.
  unfold dec_ins. destruct bs as [|b bs]; [discriminate|]. intros H W Ec.
  destruct (b =? 1); [apply Some_pair_inj in H; destruct H as [<- <-]; apply Some_inj in Ec; subst c; cbn [length]; lia|].
  destruct (b =? 2).
  { destruct (dec_blockty bs) as [[bt r0]|] eqn:E; [|discriminate]. apply Some_pair_inj in H. destruct H as [<- <-].
    cbn [enc_ins wf_imm] in *. apply Some_inj in Ec. subst c. pose proof (dec_blockty_minimal _ _ _ E W). cbn [length]. lia. }
  destruct (b =? 3).
  { destruct (dec_blockty bs) as [[bt r0]|] eqn:E; [|discriminate]. apply Some_pair_inj in H. destruct H as [<- <-].
    cbn [enc_ins wf_imm] in *. apply Some_inj in Ec. subst c. pose proof (dec_blockty_minimal _ _ _ E W). cbn [length]. lia. }
  destruct (b =? 4).
  { destruct (dec_blockty bs) as [[bt r0]|] eqn:E; [|discriminate]. apply Some_pair_inj in H. destruct H as [<- <-].
    cbn [enc_ins wf_imm] in *. apply Some_inj in Ec. subst c. pose proof (dec_blockty_minimal _ _ _ E W). cbn [length]. lia. }
  destruct (b =? 5); [apply Some_pair_inj in H; destruct H as [<- <-]; apply Some_inj in Ec; subst c; cbn [length]; lia|].
  destruct (b =? 11); [apply Some_pair_inj in H; destruct H as [<- <-]; apply Some_inj in Ec; subst c; cbn [length]; lia|].
  destruct (b =? 12).
  { destruct (dec_u bs) as [[d r0]|] eqn:E; [|discriminate]. apply Some_pair_inj in H. destruct H as [<- <-].
    cbn [enc_ins wf_imm] in *. apply Some_inj in Ec. subst c. pose proof (enc_u_minimal _ _ _ E (u32_range _ W)). cbn [length]. lia. }
  destruct (b =? 13).
  { destruct (dec_u bs) as [[d r0]|] eqn:E; [|discriminate]. apply Some_pair_inj in H. destruct H as [<- <-].
    cbn [enc_ins wf_imm] in *. apply Some_inj in Ec. subst c. pose proof (enc_u_minimal _ _ _ E (u32_range _ W)). cbn [length]. lia. }
  destruct (b =? 14).
  { destruct (dec_u bs) as [[k r1]|] eqn:E; [|discriminate]. destruct (dec_u_list (N.to_nat k) r1) as [[ds r2]|] eqn:E1; [|discriminate].
    destruct (dec_u r2) as [[d r3]|] eqn:E2; [|discriminate]. apply Some_pair_inj in H. destruct H as [<- <-].
    cbn [enc_ins wf_imm] in *. apply Some_inj in Ec. subst c.
    apply andb_true_iff in W. destruct W as [W Wl]. apply andb_true_iff in W. destruct W as [Wds Wd].
    destruct (dec_u_list_spec _ _ _ _ E1 Wds) as [L M].
    assert (Hk : lenB ds = k) by (unfold lenB; rewrite L; apply N2Nat.id). rewrite Hk in *.
    pose proof (enc_u_minimal _ _ _ E (u32_range _ Wl)). pose proof (enc_u_minimal _ _ _ E2 (u32_range _ Wd)).
    cbn [length]. rewrite !app_length. lia. }
  destruct (dec_op (b :: bs)) as [[o r0]|] eqn:E; [|discriminate]. apply Some_pair_inj in H. destruct H as [<- <-].
  cbn [enc_ins wf_imm] in *. exact (dec_op_minimal _ _ _ _ E W Ec).
Qed.

Lemma dec_inss_minimal : forall f bs ops c, dec_inss f bs = Some ops -> forallb wf_imm ops = true -> enc_inss ops = Some c ->
  (length c <= length bs)%nat.
Proof.
  induction f as [|f IH]; intros bs ops c H W Ec.
  - destruct bs; [|discriminate]. apply Some_inj in H. subst ops. apply Some_inj in Ec. subst c. cbn. lia.
  - destruct bs as [|b bs]; [apply Some_inj in H; subst ops; apply Some_inj in Ec; subst c; cbn; lia|].
    cbn [dec_inss] in H. destruct (dec_ins (b :: bs)) as [[i r]|] eqn:E; [|discriminate].
    destruct (dec_inss f r) as [l|] eqn:El; [|discriminate]. apply Some_inj in H. subst ops.
    cbn [forallb] in W. apply andb_true_iff in W. destruct W as [Wi Wl].
    cbn [enc_inss] in Ec. destruct (enc_ins i) as [a|] eqn:Ea; [|discriminate]. destruct (enc_inss l) as [a'|] eqn:Ea'; [|discriminate].
    apply Some_inj in Ec. subst c. rewrite app_length.
    pose proof (dec_ins_minimal _ _ _ _ E Wi Ea). pose proof (IH _ _ _ El Wl Ea'). lia.
Qed.
Lemma dec_local_groups_minimal : forall k bs l r, dec_local_groups k bs = Some (l, r) -> forallb wf_local l = true ->
  length l = k /\ (length (flat_map enc_local l) + length r <= length bs)%nat.
Proof.
  induction k as [|k IH]; intros bs l r H W.
  - apply Some_pair_inj in H. destruct H as [<- <-]. split; [reflexivity|cbn; lia].
  - cbn [dec_local_groups] in H. destruct (dec_u bs) as [[n [|b r0]]|] eqn:E; try discriminate.
    destruct (valty_of_byte b) as [t|]; [|discriminate]. destruct (dec_local_groups k r0) as [[l' r1]|] eqn:E1; [|discriminate].
    apply Some_pair_inj in H. destruct H as [<- <-]. cbn [forallb] in W. apply andb_true_iff in W. destruct W as [Wn Wl].
    destruct (IH _ _ _ E1 Wl) as [L M]. unfold wf_local in Wn. cbn [fst] in Wn.
    pose proof (enc_u_minimal _ _ _ E (u32_range _ Wn)) as M0. cbn [length flat_map]. unfold enc_local at 1. cbn [fst snd].
    rewrite !app_length. cbn [length] in *. split; lia.
Qed.
(* re-encoding what was read never makes a body longer: the writer's bytes are a shortest representative *)
Theorem dec_body_minimal f bs ls ops c : dec_body f bs = Some (ls, ops) -> wf_body ls ops = true -> enc_body ls ops = Some c ->
  (length c <= length bs)%nat.
Proof.
  unfold dec_body, dec_locals, wf_body, enc_body. intros H W Ec.
  destruct (dec_u bs) as [[k r0]|] eqn:E; [|discriminate]. destruct (dec_local_groups (N.to_nat k) r0) as [[ls' r]|] eqn:E1; [|discriminate].
  destruct (dec_inss f r) as [ops'|] eqn:E2; [|discriminate]. apply Some_pair_inj in H. destruct H as [<- <-].
  apply andb_true_iff in W. destruct W as [W Wo]. apply andb_true_iff in W. destruct W as [Wl Wn].
  destruct (enc_inss ops') as [ib|] eqn:Eo; [|discriminate]. apply Some_inj in Ec. subst c.
  destruct (dec_local_groups_minimal _ _ _ _ E1 Wl) as [L M].
  assert (Hk : lenB ls' = k) by (unfold lenB; rewrite L; apply N2Nat.id).
  unfold enc_locals. rewrite Hk, !app_length.
  pose proof (enc_u_minimal _ _ _ E ltac:(rewrite <- Hk; exact (u32_range _ Wn))). pose proof (dec_inss_minimal _ _ _ _ E2 Wo Eo). lia.
Qed.

(* ------------------------------------------------------------------ 5. non-vacuity: a body and its bytes, written out *)
(* the bytes below are the ones wasm-encoder writes for this body (input `example` of `vh bytes`) *)
Definition ex_locals : list (N * valty) := [(2, VT_I32); (1, VT_I64)].
Definition ex_ops : list wins :=
  [WBlock BT_Empty; WLoop BT_Empty; WOp (W_I32Const 2147483647); WBrTable [0; 1; 0] 1; WEnd; WEnd;
   WOp (W_I64Const (-1)); WOp W_Drop; WOp (W_I32Const (-2147483648));
   WOp (W_I32Load {| wa_align := 2; wa_offset := 4294967295; wa_memory := 1 |}); WOp W_Drop;
   WOp (W_I32Const 0); WOp (W_CallIndirect 0 0); WOp (W_I32Const 5); WBlock (BT_Func 1); WEnd; WOp W_Drop; WEnd].
Definition ex_bytes : list N :=
  [2; 2; 127; 1; 126;                       (* two local groups: 2 x i32, 1 x i64 *)
   2; 64; 3; 64;                            (* block, loop (empty block types) *)
   65; 255; 255; 255; 255; 7;               (* i32.const 2^31 - 1 *)
   14; 3; 0; 1; 0; 1;                       (* br_table [0; 1; 0] 1 *)
   11; 11;                                  (* end end *)
   66; 127; 26;                             (* i64.const -1 ; drop *)
   65; 128; 128; 128; 128; 120;             (* i32.const -2^31 *)
   40; 66; 1; 255; 255; 255; 255; 15;       (* i32.load align=2 | 1<<6, memory 1, offset 2^32 - 1 *)
   26; 65; 0; 17; 0; 0;                     (* drop ; i32.const 0 ; call_indirect (type 0) (table 0) *)
   65; 5; 2; 1; 11; 26; 11].                (* i32.const 5 ; block (type 1) end ; drop ; end *)
Example ex_wf : wf_body ex_locals ex_ops = true.
Proof. vm_compute. reflexivity. Qed.
Example ex_enc : enc_body ex_locals ex_ops = Some ex_bytes.
Proof. vm_compute. reflexivity. Qed.
Example ex_dec : dec_body (length ex_bytes) ex_bytes = Some (ex_locals, ex_ops).
Proof. vm_compute. reflexivity. Qed.
Example ex_offsets : ins_offsets (lenB (enc_locals ex_locals)) ex_ops = Some [5; 7; 9; 15; 21; 22; 23; 25; 26; 32; 40; 41; 43; 46; 48; 50; 51; 52].
Proof. vm_compute. reflexivity. Qed.
(* the theorems apply to it: the premises hold *)
Example ex_roundtrip : dec_body (length ex_bytes) ex_bytes = Some (ex_locals, ex_ops).
Proof. exact (dec_enc_body_bytes _ _ _ ex_enc ex_wf). Qed.
(* a padded input: the decoder accepts non-minimal LEB128, the writer produces the minimal form *)
Example ex_padded :
  dec_body 9 [129; 0; 130; 128; 0; 127; 65; 255; 127; 26; 252; 138; 0; 128; 0; 0; 11]
    = Some ([(2, VT_I32)], [WOp (W_I32Const (-1)); WOp W_Drop; WOp (W_MemoryCopy 0 0); WEnd]) /\
  enc_body [(2, VT_I32)] [WOp (W_I32Const (-1)); WOp W_Drop; WOp (W_MemoryCopy 0 0); WEnd]
    = Some [1; 2; 127; 65; 127; 26; 252; 10; 0; 0; 11].
Proof. split; vm_compute; reflexivity. Qed.
(* the reader's positions on the padded input above are the real ones (5 bytes of locals, then 3 + 1 + 6 + 1 bytes) *)
Example ex_padded_positions :
  dec_body_at 17 [129; 0; 130; 128; 0; 127; 65; 255; 127; 26; 252; 138; 0; 128; 0; 0; 11]
    = Some ([(2, VT_I32)], [(WOp (W_I32Const (-1)), 6); (WOp W_Drop, 9); (WOp (W_MemoryCopy 0 0), 10); (WEnd, 16)]).
Proof. vm_compute. reflexivity. Qed.
(* operators of the other classes: float constants, typed select, ref.null, 0xFC / 0xFD / 0xFE prefixes *)
Example ex_classes :
  map enc_ins [WOp (W_F32Const 1065353216); WOp (W_F64Const 4607182418800017408); WOp (W_TypedSelect VT_Externref);
               WOp (W_RefNull HT_Func); WOp (W_RefNull (HT_Other 0)); WOp (W_I32TruncSatF64U); WOp (W_TableCopy 1 2);
               WOp (W_I8x16ExtractLaneU 15); WOp (W_F64x2PromoteLowF32x4); WOp W_AtomicFence;
               WOp (W_I64AtomicRmw32CmpxchgU {| wa_align := 2; wa_offset := 8; wa_memory := 0 |});
               WOp (W_V128Load64Lane {| wa_align := 3; wa_offset := 0; wa_memory := 2 |} 1); WIf (BT_Func 64); WIf (BT_Val VT_V128)]
  = [Some [67; 0; 0; 128; 63]; Some [68; 0; 0; 0; 0; 0; 0; 240; 63]; Some [28; 1; 111];
     Some [208; 112]; None; Some [252; 3]; Some [252; 14; 1; 2];
     Some [253; 22; 15]; Some [253; 95]; Some [254; 3; 0];
     Some [254; 78; 2; 8];
     Some [253; 87; 67; 2; 0; 1]; Some [4; 192; 0]; Some [4; 123]].
Proof. vm_compute. reflexivity. Qed.
(* two bodies inside the framing of the code section *)
Example ex_code :
  enc_code [(ex_locals, ex_ops); ([], [WNop; WEnd])] = Some (2 :: 53 :: ex_bytes ++ [3; 0; 1; 11]) /\
  dec_code (2 :: 53 :: ex_bytes ++ [3; 0; 1; 11]) = Some [(ex_locals, ex_ops); ([], [WNop; WEnd])].
Proof. split; vm_compute; reflexivity. Qed.
(* the range premise is necessary: an index that does not fit LEB128's fuel is not recovered *)
Example wf_imm_needed : exists i bs, enc_ins i = Some bs /\ wf_imm i = false /\ dec_ins bs <> Some (i, []).
Proof. exists (WBr (2 ^ 140)). eexists. split; [reflexivity|]. split; [reflexivity|]. vm_compute. discriminate. Qed.
(* and the alignment bound too: align 64 is read back as "memory index follows" *)
Example wf_align_needed : exists o bs, enc_op o = Some bs /\ wf_op o = false /\ dec_op bs <> Some (o, []).
Proof.
  exists (W_I32Load {| wa_align := 64; wa_offset := 0; wa_memory := 0 |}). eexists.
  split; [vm_compute; reflexivity|]. split; [reflexivity|]. vm_compute. discriminate.
Qed.

Print Assumptions dec_enc_ins.
Print Assumptions enc_ins_prefix_free.
Print Assumptions dec_enc_body.
Print Assumptions dec_enc_body_bytes.
Print Assumptions enc_ins_length_positive.
Print Assumptions ilen_total_positive.
Print Assumptions enc_body_length.
Print Assumptions ins_offsets_pos_of.
Print Assumptions emitted_positions_are_byte_offsets.
Print Assumptions code_section_bytes.
Print Assumptions dec_code_section.
Print Assumptions ins_at_offset.
Print Assumptions dec_ins_len.
Print Assumptions dec_body_fuel.
Print Assumptions dec_ins_normal_form.
Print Assumptions dec_body_normal_form.
Print Assumptions dec_body_at_canonical.
Print Assumptions dec_ins_minimal.
Print Assumptions dec_body_minimal.
Print Assumptions covered_all.
Print Assumptions enc_op_total.
Print Assumptions simple_ops_enc.
