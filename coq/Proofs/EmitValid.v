(* C02: the emitted section stream of a parsed module again has every guarantee the model asks of a validator-accepted stream
   ([ParseTotal.valid_stream]: section order, index bounds of every section, constant-expression forms, counts, structured bodies with
   indices in range): the structural half of "the output validates".  Corollary of the second-trip totality (Proofs/ModFix32.v). *)
From Coq Require Import List NArith. Import ListNotations.
From WV Require Import Gen.Ops Model.Common Model.ModuleM Model.ParseM Model.EmitM Proofs.ParseTotal Proofs.ModFix32.
Theorem emitted_stream_valid : forall cf ver w s1 ilen e1,
  valid_stream w -> parseM cf ver w = POk s1 -> emitM (ps_m s1) ilen [] = Ok e1 -> valid_stream (em_secs e1).
Proof. intros cf ver w s1 ilen e1 Hv Hp He. exact (proj1 (module_fixpoint_total cf ver w s1 ilen e1 Hv Hp He)). Qed.
Print Assumptions emitted_stream_valid.
