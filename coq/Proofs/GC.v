(* Proofs about Model/GC.v (walrus passes/used.rs + passes/gc.rs).
   Part A: the abstract worklist computes exactly the reachable set (sound, complete, duplicate free,
           never out of fuel once fuel > |universe|).
   Part B: Model/GC.v's push / wl are an instance; [used_reach], [used_no_fuel], [used_closed],
           [used_precise]; [gc_sweep] keeps exactly the live ids that are in the used set. *)
From Coq Require Import List NArith Arith Lia Bool Permutation.
Import ListNotations.
From WV Require Import Gen.Ops Model.Common Model.IR Model.Arena Model.Traversal Model.ModuleM Model.ParseM Model.EmitM Model.GC.
From WV Require Proofs.Arena.
Local Open Scope nat_scope.

(* ------------------------------------------------------------------ generic list facts *)
Lemma nodup_app_intro (X : Type) (l1 l2 : list X) :
  NoDup l1 -> NoDup l2 -> (forall x, In x l1 -> ~ In x l2) -> NoDup (l1 ++ l2).
Proof.
  induction l1 as [|x r IH]; intros H1 H2 Hd; [exact H2|].
  inversion H1; subst. cbn. constructor.
  - rewrite in_app_iff. intros [Hin|Hin]; [contradiction|].
    apply (Hd x); [left; reflexivity|exact Hin].
  - apply IH; auto. intros y Hy. apply Hd. right; exact Hy.
Qed.

Lemma nodup_app_l (X : Type) (l1 l2 : list X) : NoDup (l1 ++ l2) -> NoDup l1.
Proof.
  induction l1 as [|x r IH]; intros H; [constructor|].
  cbn in H. inversion H; subst. constructor; [|auto].
  intros Hin. apply H2. apply in_or_app. left. exact Hin.
Qed.

Lemma filter_length_le (X : Type) (f : X -> bool) (l : list X) : length (filter f l) <= length l.
Proof. induction l as [|x r IH]; cbn; [lia|]. destruct (f x); cbn; lia. Qed.

(* ================================================================== PART A *)
Section Worklist.
  Variable X : Type.
  Variable eqb : X -> X -> bool.
  Hypothesis eqb_spec : forall a b, eqb a b = true <-> a = b.
  Variable stacked : X -> bool.            (* false for entities that are only marked (types) *)
  Variable succ : X -> option (list X).    (* None = panic *)

  Record ast := { used : list X; stack : list X }.

  Definition amem (x : X) (l : list X) : bool := existsb (eqb x) l.

  (* mirrors Model/GC.v's [push] *)
  Definition apush (s : ast) (x : X) : ast :=
    if amem x (used s) then s
    else {| used := x :: used s;
            stack := if stacked x then x :: stack s else stack s |}.

  (* mirrors Model/GC.v's [wl] *)
  Fixpoint awl (fuel : nat) (s : ast) : option (list X) :=
    match fuel with
    | O => None
    | S f =>
        match stack s with
        | [] => Some (used s)
        | x :: rest =>
            match succ x with
            | None => None
            | Some ys => awl f (fold_left apush ys {| used := used s; stack := rest |})
            end
        end
    end.

  Inductive reach (roots : list X) : X -> Prop :=
  | reach_root x : In x roots -> reach roots x
  | reach_step x ys y : reach roots x -> stacked x = true -> succ x = Some ys -> In y ys -> reach roots y.

  Lemma amem_In x l : amem x l = true <-> In x l.
  Proof.
    unfold amem. rewrite existsb_exists. split.
    - intros (y & H & E). apply eqb_spec in E. now subst.
    - intros H. exists x. split; [exact H|]. now apply eqb_spec.
  Qed.

  Lemma amem_nIn x l : amem x l = false <-> ~ In x l.
  Proof. rewrite <- amem_In. destruct (amem x l); split; intros H; congruence. Qed.

  Lemma X_dec (a b : X) : {a = b} + {a <> b}.
  Proof.
    destruct (eqb a b) eqn:E; [left; now apply eqb_spec|right].
    intros H. apply eqb_spec in H. congruence.
  Qed.

  (* what a run of pushes does: it prepends the genuinely new elements *)
  Lemma push_spec ys : forall s,
    NoDup (used s) -> NoDup (stack s) -> incl (stack s) (used s) ->
    exists new, used (fold_left apush ys s) = new ++ used s /\
                stack (fold_left apush ys s) = filter stacked new ++ stack s /\
                NoDup (new ++ used s) /\ NoDup (filter stacked new ++ stack s) /\
                incl new ys /\ (forall y, In y ys -> In y (new ++ used s)).
  Proof.
    induction ys as [|y ys IH]; intros s Hnu Hns Hsub; cbn [fold_left].
    - exists []. cbn. repeat split; auto; try (intros ? []).
    - destruct (amem y (used s)) eqn:M.
      + replace (apush s y) with s by (unfold apush; now rewrite M).
        destruct (IH s Hnu Hns Hsub) as (new & E1 & E2 & A & B & C & D).
        exists new. repeat split; auto.
        * intros z Hz. right. apply C, Hz.
        * intros z [<-|Hz]; [apply in_or_app; right; now apply amem_In|now apply D].
      + assert (Hny : ~ In y (used s)) by now apply amem_nIn.
        assert (Hnys : ~ In y (stack s)) by (intros H; apply Hny, Hsub, H).
        set (s1 := {| used := y :: used s; stack := if stacked y then y :: stack s else stack s |}).
        replace (apush s y) with s1 by (unfold apush; now rewrite M).
        destruct (IH s1) as (new & E1 & E2 & A & B & C & D).
        * cbn. constructor; auto.
        * cbn. destruct (stacked y); [constructor; auto|auto].
        * cbn. destruct (stacked y).
          -- intros z [<-|Hz]; [left; auto|right; apply Hsub, Hz].
          -- intros z Hz. right. apply Hsub, Hz.
        * cbn [used stack s1] in *.
          exists (new ++ [y]). rewrite filter_app, <- !app_assoc. cbn [filter app].
          repeat split.
          -- exact E1.
          -- rewrite E2. destruct (stacked y); reflexivity.
          -- exact A.
          -- destruct (stacked y); [exact B|rewrite app_nil_l; exact B].
          -- intros z Hz. apply in_app_or in Hz as [Hz|[<-|[]]]; [right; apply C, Hz|left; auto].
          -- intros z [<-|Hz]; [apply in_or_app; right; left; auto|now apply D].
  Qed.

  Section Run.
    Variable roots : list X.
    Variable universe : list X.
    Hypothesis succ_ok : forall x, reach roots x -> stacked x = true -> succ x <> None.
    Hypothesis reach_univ : forall x, reach roots x -> In x universe.
    Hypothesis univ_nd : NoDup universe.

    Record Inv (s : ast) : Prop := {
      inv_nd : NoDup (used s);
      inv_nds : NoDup (stack s);
      inv_sub : incl (stack s) (used s);
      inv_stk : forall x, In x (stack s) -> stacked x = true;
      inv_roots : incl roots (used s);
      inv_closed : forall x, In x (used s) -> stacked x = true -> ~ In x (stack s) ->
                   forall ys y, succ x = Some ys -> In y ys -> In y (used s);
      inv_reach : forall x, In x (used s) -> reach roots x }.

    Definition measure (s : ast) : nat := (length universe - length (used s)) + length (stack s).

    Lemma inv_used_le s : Inv s -> length (used s) <= length universe.
    Proof.
      intros I. apply NoDup_incl_length; [apply (inv_nd _ I)|].
      intros z Hz. apply reach_univ, (inv_reach _ I), Hz.
    Qed.

    Lemma inv_init : Inv (fold_left apush roots {| used := []; stack := [] |}).
    Proof.
      destruct (push_spec roots {| used := []; stack := [] |}) as (new & E1 & E2 & A & B & C & D);
        [constructor|constructor|intros ? []|].
      cbn [used stack] in *. rewrite app_nil_r in *.
      constructor; rewrite ?E1, ?E2.
      - exact A.
      - exact B.
      - intros z Hz. apply filter_In in Hz. apply Hz.
      - intros z Hz. apply filter_In in Hz. apply Hz.
      - intros z Hz. apply D, Hz.
      - intros z Hz Hs Hn. exfalso. apply Hn. apply filter_In. auto.
      - intros z Hz. apply reach_root, C, Hz.
    Qed.

    Lemma inv_init_measure : measure (fold_left apush roots {| used := []; stack := [] |}) <= length universe.
    Proof.
      pose proof inv_init as I. pose proof (inv_used_le _ I) as Hle.
      assert (length (stack (fold_left apush roots {| used := []; stack := [] |}))
              <= length (used (fold_left apush roots {| used := []; stack := [] |}))).
      { apply NoDup_incl_length; [apply (inv_nds _ I)|apply (inv_sub _ I)]. }
      unfold measure. lia.
    Qed.

    Lemma step_inv s x rest ys :
      Inv s -> stack s = x :: rest -> succ x = Some ys ->
      Inv (fold_left apush ys {| used := used s; stack := rest |}) /\
      measure (fold_left apush ys {| used := used s; stack := rest |}) < measure s.
    Proof.
      intros I Es Ex. pose proof (inv_used_le _ I) as Hule.
      destruct I as [Hnu Hns Hsub Hstk Hr Hc Hre]. rewrite Es in *.
      inversion Hns as [|? ? Hxst Hnst]; subst.
      assert (Hsub' : incl rest (used s)) by (intros z Hz; apply Hsub; right; exact Hz).
      assert (Hxr : reach roots x) by (apply Hre, Hsub; left; reflexivity).
      assert (Hxs : stacked x = true) by (apply Hstk; left; reflexivity).
      set (s0 := {| used := used s; stack := rest |}).
      destruct (push_spec ys s0 Hnu Hnst Hsub') as (new & E1 & E2 & A & B & C & D).
      cbn [used stack s0] in *.
      assert (I' : Inv (fold_left apush ys s0)).
      { constructor; rewrite ?E1, ?E2.
        - exact A.
        - exact B.
        - intros z Hz. apply in_app_or in Hz as [Hz|Hz]; apply in_or_app.
          + left. apply filter_In in Hz. apply Hz.
          + right. auto.
        - intros z Hz. apply in_app_or in Hz as [Hz|Hz].
          + apply filter_In in Hz. apply Hz.
          + apply Hstk. right. exact Hz.
        - intros z Hz. apply in_or_app; right; apply Hr, Hz.
        - intros z Hz Hzs Hnz ys' y Hys' Hy.
          apply in_app_or in Hz as [Hz|Hz].
          + exfalso. apply Hnz. apply in_or_app; left. apply filter_In. auto.
          + destruct (X_dec z x) as [->|Hne].
            * rewrite Ex in Hys'. inversion Hys'; subst. apply D, Hy.
            * apply in_or_app; right. apply (Hc z Hz Hzs) with (ys := ys'); auto.
              intros [->|Hin]; [congruence|]. apply Hnz. apply in_or_app; right; exact Hin.
        - intros z Hz. apply in_app_or in Hz as [Hz|Hz]; [|auto].
          apply C in Hz. eapply reach_step; eauto. }
      split; [exact I'|].
      pose proof (inv_used_le _ I') as Hle'.
      unfold measure. rewrite E1, E2 in *. rewrite Es.
      rewrite !app_length in *. cbn [length].
      pose proof (filter_length_le _ stacked new). lia.
    Qed.

    Lemma awl_inv : forall fuel s, Inv s -> measure s < fuel ->
      exists U, awl fuel s = Some U /\ NoDup U /\ (forall x, In x U <-> reach roots x).
    Proof.
      induction fuel as [|f IH]; intros s I Hf; [lia|].
      cbn [awl]. destruct (stack s) as [|x rest] eqn:Es.
      - exists (used s). split; [reflexivity|]. split; [apply (inv_nd _ I)|].
        intros x. split; [apply (inv_reach _ I)|].
        intros Hx. induction Hx as [x Hx|x ys y Hx IHx Hs Hys Hy].
        + apply (inv_roots _ I), Hx.
        + apply (inv_closed _ I x IHx Hs) with (ys := ys); auto. rewrite Es. intros [].
      - assert (Hxr : reach roots x) by (apply (inv_reach _ I), (inv_sub _ I); rewrite Es; left; reflexivity).
        assert (Hxs : stacked x = true) by (apply (inv_stk _ I); rewrite Es; left; reflexivity).
        destruct (succ x) as [ys|] eqn:Ex; [|exfalso; now apply (succ_ok x Hxr Hxs)].
        destruct (step_inv s x rest ys I Es Ex) as [I' Hm]. apply IH; [exact I'|lia].
    Qed.
  End Run.

  (* Fuel: any fuel strictly greater than the size of a duplicate-free universe containing every
     reachable entity suffices. *)
  Theorem awl_sound_complete : forall roots universe fuel,
    (forall x, reach roots x -> stacked x = true -> succ x <> None) ->
    (forall x, reach roots x -> In x universe) -> NoDup universe -> length universe < fuel ->
    exists U, awl fuel (fold_left apush roots {| used := []; stack := [] |}) = Some U /\
              NoDup U /\ (forall x, In x U <-> reach roots x).
  Proof.
    intros roots universe fuel Hs Hu Hnd Hf.
    apply (awl_inv roots universe Hs Hu).
    - apply inv_init.
    - pose proof (inv_init_measure roots universe Hu). lia.
  Qed.

  (* the reachable set is the least set containing the roots and closed under the followed edges *)
  Lemma reach_least roots (P : X -> Prop) :
    (forall x, In x roots -> P x) ->
    (forall x ys y, P x -> stacked x = true -> succ x = Some ys -> In y ys -> P y) ->
    forall x, reach roots x -> P x.
  Proof. intros Hr Hs x H; induction H; eauto. Qed.
End Worklist.

Arguments used {X}. Arguments stack {X}. Arguments Build_ast {X}.
Arguments amem {X}. Arguments apush {X}. Arguments awl {X}. Arguments reach {X}.

(* idempotence on sets: restrict the graph to the kept set U (a deleted entity has no successors any
   more: looking it up panics); the set reachable from the same roots is again U *)
Theorem gc_idempotent_sets (X : Type) (eqb : X -> X -> bool) (stacked : X -> bool)
        (succ : X -> option (list X)) (roots U : list X) :
  (forall a b, eqb a b = true <-> a = b) ->
  (forall x, In x U <-> reach stacked succ roots x) ->
  let succ' := fun x => if amem eqb x U then succ x else None in
  forall x, reach stacked succ' roots x <-> In x U.
Proof.
  intros eqb_spec HU succ' x. split.
  - intros H. apply HU. induction H as [x Hx|x ys y Hx IH Hs Hys Hy]; [now apply reach_root|].
    unfold succ' in Hys. destruct (amem eqb x U); [|discriminate]. eapply reach_step; eauto.
  - intros Hx. apply HU in Hx.
    induction Hx as [x Hin|x ys y Hxr IH Hs Hys Hy]; [now apply reach_root|].
    eapply reach_step; [exact IH|exact Hs| |exact Hy].
    unfold succ'. replace (amem eqb x U) with true; [exact Hys|].
    symmetry. apply (amem_In X eqb eqb_spec). apply HU. exact Hxr.
Qed.

(* ================================================================== PART B *)
(* ------------------------------------------------------------------ B.1 the instance *)
Definition is_type (x : ent) : bool := match fst x with S_type => true | _ => false end.
Definition ent_stacked (x : ent) : bool := negb (is_type x).
Definition res_opt {A} (r : res A) : option A := match r with Ok a => Some a | _ => None end.
Definition succ_opt (m : wir) (x : ent) : option (list ent) := res_opt (succ m x).
Definition to_ast (s : ust) : ast ent := {| used := u_used s; stack := u_stack s |}.
(* reachability in the module's reference graph *)
Definition greach (m : wir) (rs : list ent) : ent -> Prop := reach ent_stacked (succ_opt m) rs.

Lemma space_code'_inj a b : space_code' a = space_code' b -> a = b.
Proof. destruct a, b; cbn; intros H; try reflexivity; discriminate H. Qed.

Lemma ent_eqb_spec (a b : ent) : ent_eqb a b = true <-> a = b.
Proof.
  destruct a as [sa ia], b as [sb ib]. unfold ent_eqb. cbn [fst snd].
  rewrite andb_true_iff, !N.eqb_eq. split.
  - intros [H1 H2]. apply space_code'_inj in H1. now subst.
  - intros H. inversion H. auto.
Qed.

Lemma mem_ent_amem x l : mem_ent x l = amem ent_eqb x l.
Proof. reflexivity. Qed.

Lemma mem_ent_In x l : mem_ent x l = true <-> In x l.
Proof. rewrite mem_ent_amem. apply (amem_In ent ent_eqb ent_eqb_spec). Qed.

Lemma push_apush s x : to_ast (push s x) = apush ent_eqb ent_stacked (to_ast s) x.
Proof.
  unfold push, apush, to_ast. cbn [used stack]. rewrite mem_ent_amem.
  destruct (amem ent_eqb x (u_used s)); [reflexivity|]. cbn [u_used u_stack].
  unfold ent_stacked, is_type. destruct (fst x); reflexivity.
Qed.

Lemma fold_push_apush ys : forall s,
  to_ast (fold_left push ys s) = fold_left (apush ent_eqb ent_stacked) ys (to_ast s).
Proof. induction ys as [|y ys IH]; intros s; cbn [fold_left]; [reflexivity|]. now rewrite IH, push_apush. Qed.

Lemma wl_awl m : forall fuel s,
  res_opt (wl fuel m s) = awl ent_eqb ent_stacked (succ_opt m) fuel (to_ast s).
Proof.
  induction fuel as [|f IH]; intros s; [reflexivity|].
  cbn [wl awl]. change (stack (to_ast s)) with (u_stack s). change (used (to_ast s)) with (u_used s).
  destruct (u_stack s) as [|x rest]; [reflexivity|].
  unfold succ_opt. destruct (succ m x) as [ys| |]; cbn [rbind res_opt]; try reflexivity.
  rewrite IH, fold_push_apush. reflexivity.
Qed.

(* ------------------------------------------------------------------ B.2 the universe *)
Definition ents_of (s : space) (n : nat) : list ent := map (fun i => (s, N.of_nat i)) (seq 0 n).
Definition all_entities (m : wir) : list ent :=
  ents_of S_func (length (items (m_funcs m))) ++ ents_of S_table (length (items (m_tables m))) ++
  ents_of S_global (length (items (m_globals m))) ++ ents_of S_memory (length (items (m_memories m))) ++
  ents_of S_data (length (items (m_data m))) ++ ents_of S_elem (length (items (m_elements m))) ++
  ents_of S_type (length (items (Model.Arena.arena (m_types m)))).

Lemma ents_of_length s n : length (ents_of s n) = n.
Proof. unfold ents_of. now rewrite map_length, seq_length. Qed.

Lemma ents_of_In s n x : In x (ents_of s n) <-> fst x = s /\ N.to_nat (snd x) < n.
Proof.
  unfold ents_of. rewrite in_map_iff. split.
  - intros (i & <- & Hi). apply in_seq in Hi. cbn [fst snd]. rewrite Nat2N.id. split; [reflexivity|lia].
  - intros [Hs Hn]. exists (N.to_nat (snd x)). split; [|apply in_seq; lia].
    rewrite N2Nat.id. destruct x; cbn in *; now subst.
Qed.

Lemma ents_of_NoDup s n : NoDup (ents_of s n).
Proof.
  unfold ents_of. apply FinFun.Injective_map_NoDup; [|apply seq_NoDup].
  intros a b H. inversion H. now apply Nat2N.inj.
Qed.

Theorem all_entities_length m : length (all_entities m) = n_entities m.
Proof. unfold all_entities, n_entities. rewrite !app_length, !ents_of_length. lia. Qed.

Theorem all_entities_NoDup m : NoDup (all_entities m).
Proof.
  unfold all_entities.
  repeat (apply nodup_app_intro;
          [apply ents_of_NoDup| |
           let x := fresh "x" in let H1 := fresh "H" in let H2 := fresh "H" in
           intros x H1 H2; apply ents_of_In in H1; destruct H1 as [H1 _];
           repeat (apply in_app_or in H2; destruct H2 as [H2|H2]);
           apply ents_of_In in H2; destruct H2 as [H2 _]; congruence]).
  apply ents_of_NoDup.
Qed.

(* membership: an entity of one of the seven id spaces whose id has been allocated *)
Lemma all_entities_In m x :
  In x (all_entities m) <->
  N.to_nat (snd x) < match fst x with
                     | S_func => length (items (m_funcs m)) | S_table => length (items (m_tables m))
                     | S_global => length (items (m_globals m)) | S_memory => length (items (m_memories m))
                     | S_data => length (items (m_data m)) | S_elem => length (items (m_elements m))
                     | S_type => length (items (Model.Arena.arena (m_types m)))
                     | S_local => 0 end.
Proof.
  unfold all_entities. rewrite !in_app_iff, !ents_of_In.
  destruct x as [s i]. cbn [fst snd]. destruct s; split; intros H;
    repeat (match goal with H : _ \/ _ |- _ => destruct H as [H|H] | H : _ /\ _ |- _ => destruct H as [? H] end);
    try discriminate; try lia; auto 10.
Qed.

(* ------------------------------------------------------------------ B.3 the worklist of [used] *)
Section UsedReach.
  Variable m : wir.
  Variable rs : list ent.
  Hypothesis Halloc : forall x, greach m rs x -> In x (all_entities m).
  Hypothesis Hlive : forall x, greach m rs x -> negb (is_type x) = true -> succ m x <> Panic /\ succ m x <> OutOfFuel.

  Lemma used_awl :
    exists U, wl (S (S (n_entities m))) m (fold_left push rs {| u_used := []; u_stack := [] |}) = Ok U /\
              NoDup U /\ forall x, In x U <-> greach m rs x.
  Proof.
    destruct (awl_sound_complete ent ent_eqb ent_eqb_spec ent_stacked (succ_opt m) rs (all_entities m)
                (S (S (n_entities m)))) as (U & E & Hnd & HU).
    - intros x Hx Hs. destruct (Hlive x Hx Hs) as [H1 H2]. unfold succ_opt.
      destruct (succ m x); cbn; congruence.
    - exact Halloc.
    - apply all_entities_NoDup.
    - rewrite all_entities_length. lia.
    - exists U. split; [|split; [exact Hnd|exact HU]].
      change {| used := []; stack := [] |} with (to_ast {| u_used := []; u_stack := [] |}) in E.
      rewrite <- fold_push_apush, <- wl_awl in E.
      destruct (wl _ m _); cbn in E; congruence.
  Qed.
End UsedReach.

(* [roots m = Ok rs] is kept in the statements as requested; the proofs hold for any root list [rs] *)
Theorem used_no_fuel : forall m rs,
  roots m = Ok rs ->
  (forall x, greach m rs x -> In x (all_entities m)) ->
  (forall x, greach m rs x -> negb (is_type x) = true -> succ m x <> Panic /\ succ m x <> OutOfFuel) ->
  exists U, wl (S (S (n_entities m))) m (fold_left push rs {| u_used := []; u_stack := [] |}) = Ok U.
Proof. intros m rs _ Ha Hl. destruct (used_awl m rs Ha Hl) as (U & E & _). now exists U. Qed.

Theorem used_reach : forall m rs U,
  roots m = Ok rs ->
  (forall x, greach m rs x -> In x (all_entities m)) ->
  (forall x, greach m rs x -> negb (is_type x) = true -> succ m x <> Panic /\ succ m x <> OutOfFuel) ->
  wl (S (S (n_entities m))) m (fold_left push rs {| u_used := []; u_stack := [] |}) = Ok U ->
  NoDup U /\ forall x, In x U <-> greach m rs x.
Proof.
  intros m rs U _ Ha Hl E. destruct (used_awl m rs Ha Hl) as (U' & E' & H).
  rewrite E in E'. inversion E'; subst. exact H.
Qed.

(* ------------------------------------------------------------------ B.4 *)
Theorem used_closed : forall m rs U,
  roots m = Ok rs ->
  (forall x, greach m rs x -> In x (all_entities m)) ->
  (forall x, greach m rs x -> negb (is_type x) = true -> succ m x <> Panic /\ succ m x <> OutOfFuel) ->
  wl (S (S (n_entities m))) m (fold_left push rs {| u_used := []; u_stack := [] |}) = Ok U ->
  forall x, In x U -> is_type x = false -> forall ys, succ m x = Ok ys -> forall y, In y ys -> In y U.
Proof.
  intros m rs U Hr Ha Hl E x Hx Ht ys Hys y Hy. destruct (used_reach m rs U Hr Ha Hl E) as [_ HU].
  apply HU. apply HU in Hx. eapply reach_step; [exact Hx| | |exact Hy].
  - unfold ent_stacked. now rewrite Ht.
  - unfold succ_opt. now rewrite Hys.
Qed.

Theorem used_precise : forall m rs U,
  roots m = Ok rs ->
  (forall x, greach m rs x -> In x (all_entities m)) ->
  (forall x, greach m rs x -> negb (is_type x) = true -> succ m x <> Panic /\ succ m x <> OutOfFuel) ->
  wl (S (S (n_entities m))) m (fold_left push rs {| u_used := []; u_stack := [] |}) = Ok U ->
  forall x, In x U -> greach m rs x.
Proof. intros m rs U Hr Ha Hl E x Hx. now apply (used_reach m rs U Hr Ha Hl E). Qed.

Theorem used_roots : forall m rs U,
  roots m = Ok rs ->
  (forall x, greach m rs x -> In x (all_entities m)) ->
  (forall x, greach m rs x -> negb (is_type x) = true -> succ m x <> Panic /\ succ m x <> OutOfFuel) ->
  wl (S (S (n_entities m))) m (fold_left push rs {| u_used := []; u_stack := [] |}) = Ok U ->
  incl rs U.
Proof. intros m rs U Hr Ha Hl E x Hx. apply (used_reach m rs U Hr Ha Hl E). now apply reach_root. Qed.

(* [used m] is the worklist result from the roots, possibly with the "first memory" residue:
   when a data segment is kept but no memory is, the first live memory is added *)
Lemma used_inv m u : Model.GC.used m = Ok u ->
  exists rs U, roots m = Ok rs /\
    wl (S (S (n_entities m))) m (fold_left push rs {| u_used := []; u_stack := [] |}) = Ok U /\
    (u = U \/
     exists mid v rest, aiter (m_memories m) = (mid, v) :: rest /\ used_of U S_memory = [] /\
                        used_of U S_data <> [] /\ u = (S_memory, mid) :: U).
Proof.
  unfold Model.GC.used. intros H.
  destruct (roots m) as [rs| |]; cbn [rbind] in H; try discriminate H.
  destruct (wl _ m _) as [U| |] eqn:EU; cbn [rbind] in H; try discriminate H.
  exists rs, U. split; [reflexivity|]. split; [exact EU|].
  destruct (used_of U S_data) as [|d ds]; [left; destruct (used_of U S_memory); congruence|].
  destruct (used_of U S_memory) as [|x xs]; [|left; congruence].
  destruct (aiter (m_memories m)) as [|[mid v] rest]; [left; congruence|].
  right. exists mid, v, rest. repeat split; [discriminate|congruence].
Qed.

(* ------------------------------------------------------------------ B.5 gc_sweep keeps exactly the used ids *)
Lemma delete_contains A (f : A -> A) (a a' : tarena A) id id' :
  delete f a id = Some a' -> contains a' id' = contains a id' && negb (Nat.eqb id' id).
Proof.
  unfold delete. destruct (contains a id) eqn:C; [|discriminate]. intros H; inversion H; subst; clear H.
  unfold contains, is_dead. cbn [items dead existsb].
  destruct (Nat.eqb_spec id' id) as [->|Hne].
  - cbn [orb negb]. rewrite andb_false_r. destruct (nth_error _ id); reflexivity.
  - rewrite Proofs.Arena.upd_nth_ne by congruence. cbn [orb negb]. now rewrite andb_true_r.
Qed.

Lemma contains_index A (a : tarena A) id : contains a id = true <-> exists v, index a id = Some v.
Proof.
  unfold contains, index, get. destruct (nth_error (items a) id) as [v|]; destruct (is_dead a id); cbn; split;
    try discriminate; try (intros [? ?]; discriminate); eauto.
Qed.

Lemma iter_live' A (a : tarena A) id v : In (id, v) (iter a) <-> index a id = Some v.
Proof. exact (Proofs.Arena.iter_live A (fun x => x) (fun _ _ => true) a id v). Qed.

Lemma aiter_In A (a : tarena A) (id : N) :
  (exists v, In (id, v) (aiter a)) <-> contains a (N.to_nat id) = true.
Proof.
  rewrite contains_index. unfold aiter. split.
  - intros (v & H). apply in_map_iff in H as ([i w] & E & H). cbn [fst snd] in E. inversion E; subst.
    rewrite Nat2N.id. exists v. now apply iter_live'.
  - intros (v & H). exists v. apply in_map_iff. exists (N.to_nat id, v). cbn [fst snd].
    rewrite N2Nat.id. split; [reflexivity|]. now apply iter_live'.
Qed.

Definition del_step {A} (keep : list N) (acc : res (tarena A)) (p : N * A) : res (tarena A) :=
  rbind acc (fun a => if existsb (N.eqb (fst p)) keep then Ok a else of_opt (adelete a (fst p))).

Lemma del_fold_notok A keep (L : list (N * A)) r :
  (forall a, r <> Ok a) -> forall a, fold_left (del_step keep) L r <> Ok a.
Proof.
  revert r. induction L as [|p L IH]; intros r Hr; cbn [fold_left]; [exact Hr|].
  apply IH. intros a. destruct r; cbn; [exfalso; now apply (Hr a0)|discriminate|discriminate].
Qed.

(* folding [delete] over a list of candidates: an id survives iff it was live and was not a
   non-kept candidate *)
Lemma del_fold_contains A keep (L : list (N * A)) : forall a0 a',
  fold_left (del_step keep) L (Ok a0) = Ok a' ->
  forall id, contains a' id =
             contains a0 id && negb (existsb (fun p => Nat.eqb id (N.to_nat (fst p)) && negb (existsb (N.eqb (fst p)) keep)) L).
Proof.
  induction L as [|p L IH]; intros a0 a' H id; cbn [fold_left existsb] in *.
  - inversion H; subst. now rewrite andb_true_r.
  - unfold del_step at 2 in H. cbn [rbind] in H.
    destruct (existsb (N.eqb (fst p)) keep) eqn:K.
    + rewrite (IH _ _ H). cbn [negb]. now rewrite andb_false_r.
    + unfold adelete in H. destruct (delete (fun x => x) a0 (N.to_nat (fst p))) as [a1|] eqn:D; cbn [of_opt] in H.
      * rewrite (IH _ _ H), (delete_contains _ _ _ _ _ id D). cbn [negb]. rewrite andb_true_r, negb_orb.
        now rewrite andb_assoc.
      * exfalso. revert H. apply del_fold_notok. discriminate.
Qed.

Lemma delete_unused_spec A (a a' : tarena A) keep :
  delete_unused a keep = Ok a' ->
  forall id : N, contains a' (N.to_nat id) = true <->
                 contains a (N.to_nat id) = true /\ existsb (N.eqb id) keep = true.
Proof.
  intros H id. change (fold_left (del_step keep) (aiter a) (Ok a) = Ok a') in H.
  rewrite (del_fold_contains _ _ _ _ _ H), andb_true_iff, negb_true_iff. split.
  - intros [C E]. split; [exact C|].
    destruct (existsb (N.eqb id) keep) eqn:K; [reflexivity|exfalso].
    apply aiter_In in C as (v & Hv).
    assert (existsb (fun p : N * A => Nat.eqb (N.to_nat id) (N.to_nat (fst p)) && negb (existsb (N.eqb (fst p)) keep)) (aiter a) = true) as E'.
    { apply existsb_exists. exists (id, v). split; [exact Hv|]. cbn [fst]. now rewrite Nat.eqb_refl, K. }
    congruence.
  - intros [C K]. split; [exact C|].
    destruct (existsb _ (aiter a)) eqn:E; [exfalso|reflexivity].
    apply existsb_exists in E as (p & _ & E). apply andb_true_iff in E as [E1 E2].
    apply Nat.eqb_eq, N2Nat.inj in E1. subst id. rewrite K in E2. discriminate.
Qed.

Lemma used_of_mem u s id : existsb (N.eqb id) (used_of u s) = mem_ent (s, id) u.
Proof.
  unfold used_of, mem_ent. induction u as [|x u IH]; [reflexivity|].
  cbn [flat_map existsb]. rewrite existsb_app, IH. f_equal.
  unfold ent_eqb. cbn [fst snd]. rewrite (N.eqb_sym (space_code' s)).
  destruct (N.eqb (space_code' (fst x)) (space_code' s)); cbn; [now rewrite orb_false_r|reflexivity].
Qed.

Lemma delete_unused_used A (a a' : tarena A) u s :
  delete_unused a (used_of u s) = Ok a' ->
  forall id : N, contains a' (N.to_nat id) = true <->
                 contains a (N.to_nat id) = true /\ mem_ent (s, id) u = true.
Proof. intros H id. rewrite (delete_unused_spec _ _ _ _ H), used_of_mem. reflexivity. Qed.

(* the shape of a successful [gc_sweep] *)
Lemma gc_inv m m' u : gc_sweep m = Ok m' -> Model.GC.used m = Ok u ->
  exists ia ta ga ma da ea tya fa,
    delete_unused (m_tables m) (used_of u S_table) = Ok ta /\
    delete_unused (m_globals m) (used_of u S_global) = Ok ga /\
    delete_unused (m_memories m) (used_of u S_memory) = Ok ma /\
    delete_unused (m_data m) (used_of u S_data) = Ok da /\
    delete_unused (m_elements m) (used_of u S_elem) = Ok ea /\
    types_delete_unused (m_types m) (used_of u S_type) = Ok tya /\
    delete_unused (m_funcs m) (used_of u S_func) = Ok fa /\
    m' = set_funcs (set_types (set_elements (set_data (set_memories (set_globals (set_tables (set_imports m ia) ta) ga) ma) da) ea) tya) fa.
Proof.
  intros H Hu. unfold gc_sweep in H. rewrite Hu in H. cbn [rbind] in H.
  repeat match type of H with
         | rbind ?r _ = Ok _ => let E := fresh "E" in destruct r eqn:E; cbn [rbind] in H; [|discriminate H|discriminate H]
         end.
  injection H as <-. do 8 eexists. repeat split; eauto.
Qed.

(* the fields of the result *)
Lemma gc_fields m m' u : gc_sweep m = Ok m' -> Model.GC.used m = Ok u ->
  delete_unused (m_funcs m) (used_of u S_func) = Ok (m_funcs m') /\
  delete_unused (m_tables m) (used_of u S_table) = Ok (m_tables m') /\
  delete_unused (m_globals m) (used_of u S_global) = Ok (m_globals m') /\
  delete_unused (m_memories m) (used_of u S_memory) = Ok (m_memories m') /\
  delete_unused (m_data m) (used_of u S_data) = Ok (m_data m') /\
  delete_unused (m_elements m) (used_of u S_elem) = Ok (m_elements m') /\
  types_delete_unused (m_types m) (used_of u S_type) = Ok (m_types m').
Proof.
  intros H Hu.
  destruct (gc_inv m m' u H Hu) as (ia & ta & ga & ma & da & ea & tya & fa & Et & Eg & Em & Ed & Ee & Ety & Ef & ->).
  split; [exact Ef|]. split; [exact Et|]. split; [exact Eg|]. split; [exact Em|].
  split; [exact Ed|]. split; [exact Ee|exact Ety].
Qed.

Theorem gc_keeps_exactly_used : forall m m', gc_sweep m = Ok m' -> forall u, Model.GC.used m = Ok u ->
  (forall id, contains (m_funcs m') (N.to_nat id) = true <->
              (contains (m_funcs m) (N.to_nat id) = true /\ mem_ent (S_func, id) u = true)) /\
  (forall id, contains (m_tables m') (N.to_nat id) = true <->
              (contains (m_tables m) (N.to_nat id) = true /\ mem_ent (S_table, id) u = true)) /\
  (forall id, contains (m_globals m') (N.to_nat id) = true <->
              (contains (m_globals m) (N.to_nat id) = true /\ mem_ent (S_global, id) u = true)) /\
  (forall id, contains (m_memories m') (N.to_nat id) = true <->
              (contains (m_memories m) (N.to_nat id) = true /\ mem_ent (S_memory, id) u = true)) /\
  (forall id, contains (m_data m') (N.to_nat id) = true <->
              (contains (m_data m) (N.to_nat id) = true /\ mem_ent (S_data, id) u = true)) /\
  (forall id, contains (m_elements m') (N.to_nat id) = true <->
              (contains (m_elements m) (N.to_nat id) = true /\ mem_ent (S_elem, id) u = true)).
Proof.
  intros m m' H u Hu.
  destruct (gc_fields m m' u H Hu) as (Ef & Et & Eg & Em & Ed & Ee & _).
  split; [exact (delete_unused_used _ _ _ _ _ Ef)|]. split; [exact (delete_unused_used _ _ _ _ _ Et)|].
  split; [exact (delete_unused_used _ _ _ _ _ Eg)|]. split; [exact (delete_unused_used _ _ _ _ _ Em)|].
  split; [exact (delete_unused_used _ _ _ _ _ Ed)|exact (delete_unused_used _ _ _ _ _ Ee)].
Qed.

(* gc_sweep never touches exports, start, custom sections, configuration, locals, producers (nor debug
   sections, the module name, the code section offset) *)
Theorem gc_preserves : forall m m', gc_sweep m = Ok m' ->
  m_exports m' = m_exports m /\ m_start m' = m_start m /\ m_customs m' = m_customs m /\
  m_config m' = m_config m /\ m_locals m' = m_locals m /\ m_producers m' = m_producers m /\
  m_debug m' = m_debug m /\ m_name m' = m_name m /\ m_code_section_offset m' = m_code_section_offset m.
Proof.
  intros m m' H. destruct (Model.GC.used m) as [u| |] eqn:Hu;
    [|unfold gc_sweep in H; rewrite Hu in H; discriminate H|unfold gc_sweep in H; rewrite Hu in H; discriminate H].
  destruct (gc_inv m m' u H Hu) as (ia & ta & ga & ma & da & ea & tya & fa & _ & _ & _ & _ & _ & _ & _ & ->).
  split; [reflexivity|]. split; [reflexivity|]. split; [reflexivity|]. split; [reflexivity|].
  split; [reflexivity|]. split; [reflexivity|]. split; [reflexivity|]. split; reflexivity.
Qed.

Print Assumptions awl_sound_complete.
Print Assumptions used_reach.
Print Assumptions gc_keeps_exactly_used.
Print Assumptions gc_idempotent_sets.
