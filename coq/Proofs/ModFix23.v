(* C08, module level fixpoint, part 23: the element / data payload checks of the validator for an emitted
   stream: the pure INDEX BOUNDS are proved; the offset-type clause (offset_valid) and the size of the
   context at the section stay NAMED premises of [emitted_valid_b_full]. *)
From Coq Require Import List NArith ZArith Bool Arith Lia.
Import ListNotations.
From WV Require Import Gen.Ops Model.Common Model.IR Model.Arena Model.Traversal Model.EmitFn Model.Locals
                       Model.ParseFn Model.ModuleM Model.ParseM Model.EmitM Gen.Attrs.
From WV Require Import Proofs.Arena Proofs.Order Proofs.IndexMaps Proofs.CustomsCfg Proofs.Escalation Proofs.Structure Proofs.Structure2
                       Proofs.Totality Proofs.Renumbering Proofs.ParseTotal Proofs.ModFix Proofs.ModFix5 Proofs.ModFix16.
Local Open Scope nat_scope.

Definition tbl0 (tbl : option N) : N := match tbl with Some t => t | None => 0%N end.

Definition elem_idx_ok (c : vctx) (we : welem) : bool :=
  match wel_items we with
  | WEI_Funcs fs => forallb (fun f => ltb_N f (c_nf c)) fs
  | WEI_Exprs _ es => forallb (const_ok (c_nf c) (c_globs c)) es
  end &&
  match wel_kind we with WEK_Active tbl off => ltb_N (tbl0 tbl) (length (c_tabs c)) | _ => true end.
Definition elem_off (c : vctx) (we : welem) : Prop :=
  match wel_kind we with
  | WEK_Active tbl off => forall is64, nth_error (c_tabs c) (N.to_nat (tbl0 tbl)) = Some is64 -> offset_valid (c_globs c) is64 off = true
  | _ => True end.
Definition data_idx_ok (c : vctx) (d : wdata) : bool :=
  match wd_kind d with WDK_Active mi _ => ltb_N mi (length (c_mems c)) | _ => true end.
Definition data_off (c : vctx) (d : wdata) : Prop :=
  match wd_kind d with
  | WDK_Active mi off => forall is64, nth_error (c_mems c) (N.to_nat mi) = Some is64 -> offset_valid (c_globs c) is64 off = true
  | _ => True end.

Lemma elem_ok_split c we : elem_idx_ok c we = true -> elem_off c we -> elem_ok c we = true.
Proof.
  unfold elem_idx_ok, elem_off, elem_ok, tbl0. intros H Ho. apply andb_true_iff in H. destruct H as [H1 H2]. rewrite H1. cbn [andb].
  destruct (wel_kind we) as [| |tbl off]; try reflexivity.
  destruct (nth_error (c_tabs c) _) as [b|] eqn:En; [exact (Ho b eq_refl)|].
  apply nth_error_None in En. unfold ltb_N in H2. apply Nat.ltb_lt in H2. lia.
Qed.
Lemma data_ok_split c d : data_idx_ok c d = true -> data_off c d -> data_ok c d = true.
Proof.
  unfold data_idx_ok, data_off, data_ok. intros H Ho. destruct (wd_kind d) as [|mi off]; [reflexivity|].
  destruct (nth_error (c_mems c) _) as [b|] eqn:En; [exact (Ho b eq_refl)|].
  apply nth_error_None in En. unfold ltb_N in H. apply Nat.ltb_lt in H. lia.
Qed.

Lemma s23_idx m ilen e S id j : emitM m ilen [] = Ok e -> S = S_func \/ S = S_table \/ S = S_memory \/ S = S_global ->
  get_idx (em_x2i e) S id = Ok j -> N.to_nat j < length (space_map (em_x2i e) S).
Proof. intros He HS H. eapply lookup_bound; [apply (final_numbered _ _ _ _ He HS)|exact H]. Qed.

Lemma s23_const m ilen e c x mc wc : emitM m ilen [] = Ok e -> sizes c e ->
  (forall S, S <> S_data -> space_map (em_x2i e) S = space_map x S) ->
  emit_const x mc = Ok wc -> const_ok (c_nf c) (c_globs c) wc = true.
Proof.
  intros He (Sf & St & Sm & Sg) XL H. unfold emit_const in H.
  destruct mc as [v|g|t|f]; [destruct v| | |]; try (inversion H; subst; reflexivity).
  - destruct (get_idx x S_global g) as [j| |] eqn:Ej; cbn [rmap] in H; inversion H; subst. cbn [const_ok]. unfold ltb_N. apply Nat.ltb_lt.
    rewrite Sg. apply (s23_idx _ _ _ S_global g j He); [tauto|]. unfold get_idx in *. rewrite XL by discriminate. exact Ej.
  - destruct (get_idx x S_func f) as [j| |] eqn:Ej; cbn [rmap] in H; inversion H; subst. cbn [const_ok]. unfold ltb_N. apply Nat.ltb_lt.
    rewrite Sf. apply (s23_idx _ _ _ S_func f j He); [tauto|]. unfold get_idx in *. rewrite XL by discriminate. exact Ej.
Qed.

(* (i) element segments: every index an emitted segment mentions is in range *)
Lemma emit_elem_idx m ilen e c x el we : emitM m ilen [] = Ok e -> sizes c e ->
  (forall S, S <> S_data -> space_map (em_x2i e) S = space_map x S) ->
  emit_elem x el = Ok we -> elem_idx_ok c we = true.
Proof.
  intros He Hs XL E. pose proof Hs as (Sf & St & Sm & Sg). unfold emit_elem in E. rinv E as its Eits. rinv E as k Ek.
  inversion E; subst we; clear E. unfold elem_idx_ok. cbn [wel_kind wel_items]. apply andb_true_iff. split.
  - destruct (el_items el) as [fs|t es].
    + destruct (rmapM (get_idx x S_func) fs) as [l| |] eqn:El; cbn [rmap] in Eits; try discriminate. inversion Eits; subst its.
      apply forallb_forall. intros j Hj. destruct (rmapM_in _ _ _ El _ Hj) as (a & _ & Ha).
      unfold ltb_N. apply Nat.ltb_lt. rewrite Sf. apply (s23_idx _ _ _ S_func a j He); [tauto|].
      unfold get_idx in *. rewrite XL by discriminate. exact Ha.
    + destruct (rmapM (emit_const x) es) as [l| |] eqn:El; cbn [rmap] in Eits; try discriminate. inversion Eits; subst its.
      apply forallb_forall. intros wc Hwc. destruct (rmapM_in _ _ _ El _ Hwc) as (a & _ & Ha).
      exact (s23_const _ _ _ _ _ _ _ He Hs XL Ha).
  - destruct (el_kind el) as [| |t off]; try (inversion Ek; reflexivity).
    rinv Ek as ti Eti. rinv Ek as o Eo. inversion Ek; subst k; clear Ek.
    assert (E0 : tbl0 (if N.eqb ti 0 then None else Some ti) = ti).
    { destruct (N.eqb ti 0) eqn:Ez; [apply N.eqb_eq in Ez; subst; reflexivity|reflexivity]. }
    rewrite E0. unfold ltb_N. apply Nat.ltb_lt. rewrite St. apply (s23_idx _ _ _ S_table t ti He); [tauto|].
    unfold get_idx in *. rewrite XL by discriminate. exact Eti.
Qed.

Theorem emitted_elems_idx m ilen e c l : emitM m ilen [] = Ok e -> sizes c e -> In (S_Elems l) (em_secs e) ->
  forallb (elem_idx_ok c) l = true.
Proof.
  intros He Hs Hin. apply forallb_forall. intros we Hwe. pose proof He as He'. emitM_parts2 He'.
  destruct (Etags _ 8 Hin eq_refl) as [[]|Hi]. cbn [nth] in Hi.
  rewrite emit_elements_unfold in Eel. destruct (aiter (m_elements m)) as [|p0 ps].
  { inversion Eel; subst s_el. destruct Hi. }
  rinv Eel as r Er. inversion Eel; subst s_el x9; clear Eel. destruct Hi as [Hi|[]]. inversion Hi; subst l; clear Hi.
  apply elems_go_entries' in Er. destruct Er as [_ F].
  destruct (sg_Forall2_In_r _ _ _ _ F Hwe) as (p & _ & Hp).
  apply (emit_elem_idx _ _ _ c _ _ _ He Hs) in Hp; [exact Hp|].
  intros S HS. rewrite (emit_code_x _ _ _ _ _ _ Eco). apply emit_data_count_x in Edc. rewrite Edc.
  destruct (aiter (m_data m)); [reflexivity|]. apply space_map_set_other. congruence.
Qed.

(* (i) data segments: the memory index of an active segment is in range *)
Theorem emitted_data_idx m ilen e c l : emitM m ilen [] = Ok e -> sizes c e -> In (S_Data l) (em_secs e) ->
  forallb (data_idx_ok c) l = true.
Proof.
  intros He (Sf & St & Sm & Sg) Hin. apply forallb_forall. intros d Hd. pose proof He as He'. emitM_parts2 He'.
  destruct (Etags _ 11 Hin eq_refl) as [[]|Hi]. cbn [nth] in Hi.
  unfold emit_data in Eda. destruct (aiter (m_data m)) as [|p0 ps].
  { inversion Eda; subst s_da. destruct Hi. }
  rinv Eda as ds Eds. inversion Eda; subst s_da; clear Eda. destruct Hi as [Hi|[]]. inversion Hi; subst l; clear Hi.
  destruct (rmapM_in _ _ _ Eds _ Hd) as (p & _ & Hp). unfold data_idx_ok.
  destruct (da_kind (snd p)) as [|mem off]; [inversion Hp; subst d; reflexivity|].
  rinv Hp as mi Emi. rinv Hp as o Eo. inversion Hp; subst d; clear Hp. cbn [wd_kind]. unfold ltb_N. apply Nat.ltb_lt.
  rewrite Sm. apply (s23_idx _ _ _ S_memory mem mi He); [tauto|exact Emi].
Qed.

(* assembly: what remains are the NAMED premises
   [prefix_sizes]  the validator context reached before the element / data section has the final sizes
                   (all imports, functions, tables, memories, globals are declared before these sections);
   [elem_offsets] / [data_offsets]  the offset-type clause (ii): needs the parse-side invariant offsets_ok. *)
Theorem emitted_valid_b_full : forall cf ver w s1 ilen e1, parseM cf ver w = POk s1 -> emitM (ps_m s1) ilen [] = Ok e1 ->
  forall (prefix_sizes : forall pre s post, em_secs e1 = pre ++ s :: post -> sec_tag s = Some 8 \/ sec_tag s = Some 11 -> sizes (ctx_after pre) e1)
         (elem_offsets : forall pre l post we, em_secs e1 = pre ++ S_Elems l :: post -> In we l -> elem_off (ctx_after pre) we)
         (data_offsets : forall pre l post d, em_secs e1 = pre ++ S_Data l :: post -> In d l -> data_off (ctx_after pre) d),
  valid_from_b ctx0 (em_secs e1) = true.
Proof.
  intros cf ver w s1 ilen e1 HP HE PS EO DO. apply (emitted_valid_b_parsed _ _ _ _ _ _ HP HE).
  - intros pre l post E. assert (Hin : In (S_Elems l) (em_secs e1)) by (rewrite E, in_app_iff; right; left; reflexivity).
    pose proof (emitted_elems_idx _ _ _ _ _ HE (PS _ _ _ E (or_introl eq_refl)) Hin) as HI. rewrite forallb_forall in HI.
    apply forallb_forall. intros we Hwe. apply elem_ok_split; [exact (HI _ Hwe)|exact (EO _ _ _ _ E Hwe)].
  - intros pre l post E. assert (Hin : In (S_Data l) (em_secs e1)) by (rewrite E, in_app_iff; right; left; reflexivity).
    pose proof (emitted_data_idx _ _ _ _ _ HE (PS _ _ _ E (or_intror eq_refl)) Hin) as HI. rewrite forallb_forall in HI.
    apply forallb_forall. intros d Hd. apply data_ok_split; [exact (HI _ Hd)|exact (DO _ _ _ _ E Hd)].
Qed.

(* [prefix_sizes] discharged: the sections after an element / data section declare nothing *)
Lemma order_b_after : forall w l, order_b l w = true -> forall s k, In s w -> rank s = Some k -> l < k.
Proof.
  induction w as [|s0 r IH]; intros l H s k Hin Hk; [destruct Hin|]. cbn [order_b] in H.
  destruct (rank s0) as [k0|] eqn:E0.
  - apply andb_true_iff in H. destruct H as [H1 H2]. apply Nat.ltb_lt in H1. destruct Hin as [->|Hin]; [congruence|].
    pose proof (IH _ H2 _ _ Hin Hk). lia.
  - destruct Hin as [->|Hin]; [congruence|]. exact (IH _ H _ _ Hin Hk).
Qed.
Lemma order_b_suffix : forall pre l s post, order_b l (pre ++ s :: post) = true -> exists l', order_b l' (s :: post) = true.
Proof.
  induction pre as [|s0 r IH]; intros l s post H; [exists l; exact H|]. cbn [app order_b] in H.
  destruct (rank s0) as [k0|]; [apply andb_true_iff in H; destruct H as [_ H]|]; exact (IH _ _ _ H).
Qed.

Theorem prefix_sizes_ok m ilen e pre s post : emitM m ilen [] = Ok e -> em_secs e = pre ++ s :: post ->
  sec_tag s = Some 8 \/ sec_tag s = Some 11 -> sizes (ctx_after pre) e.
Proof.
  intros He E Ht. pose proof (emitted_order_ok _ _ _ He) as Ho. rewrite E in Ho.
  destruct (order_b_suffix _ _ _ _ Ho) as [l' Ho']. cbn [order_b] in Ho'.
  assert (Hr : exists r, rank s = Some r /\ 9 <= r).
  { destruct Ht as [Ht|Ht]; destruct s; try discriminate Ht; eexists; (split; [reflexivity|lia]). }
  destruct Hr as (r & Hr & Hr9). rewrite Hr in Ho'. apply andb_true_iff in Ho'. destruct Ho' as [_ Ho'].
  pose proof (order_b_after _ _ Ho') as Hafter.
  assert (Hs : imports_of s = [] /\ funcs_of s = [] /\ tables_of s = [] /\ mems_of s = [] /\ globals_of s = []).
  { destruct Ht as [Ht|Ht]; destruct s; try discriminate Ht; repeat split. }
  destruct Hs as (S1 & S2 & S3 & S4 & S5).
  assert (Hp : forall s', In s' post -> imports_of s' = [] /\ funcs_of s' = [] /\ tables_of s' = [] /\ mems_of s' = [] /\ globals_of s' = []).
  { intros s' Hin. destruct s'; try (repeat split; fail); pose proof (Hafter _ _ Hin eq_refl); lia. }
  apply (sizes_of_payloads _ _ _ pre He); rewrite E, flat_map_app; cbn [flat_map]; rewrite ?S1, ?S2, ?S3, ?S4, ?S5; cbn [app];
    rewrite (flat_map_nil _ post) by (intros s' Hin; apply (Hp s' Hin)); rewrite app_nil_r; reflexivity.
Qed.

Theorem emitted_valid_b_full2 : forall cf ver w s1 ilen e1, parseM cf ver w = POk s1 -> emitM (ps_m s1) ilen [] = Ok e1 ->
  forall (elem_offsets : forall pre l post we, em_secs e1 = pre ++ S_Elems l :: post -> In we l -> elem_off (ctx_after pre) we)
         (data_offsets : forall pre l post d, em_secs e1 = pre ++ S_Data l :: post -> In d l -> data_off (ctx_after pre) d),
  valid_from_b ctx0 (em_secs e1) = true.
Proof.
  intros cf ver w s1 ilen e1 HP HE EO DO. apply (emitted_valid_b_full _ _ _ _ _ _ HP HE); [|exact EO|exact DO].
  intros pre s post E Ht. exact (prefix_sizes_ok _ _ _ _ _ _ HE E Ht).
Qed.

Print Assumptions emitted_elems_idx.
Print Assumptions emitted_data_idx.
Print Assumptions emitted_valid_b_full.
Print Assumptions prefix_sizes_ok.
Print Assumptions emitted_valid_b_full2.
