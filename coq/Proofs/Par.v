From Coq Require Import List Arith Bool Lia Permutation. Import ListNotations.
From WV Require Import Model.Par.

Section P.
  Context {A B : Type}.
  Implicit Types (f : A -> B) (l : list A).

  Lemma set_slot_length (s : list (option B)) i v : length (set_slot s i v) = length s.
  Proof. revert i; induction s as [|x r IH]; intros [|i]; cbn; auto. Qed.

  Lemma nth_set_slot_eq (s : list (option B)) i v : i < length s -> nth_error (set_slot s i v) i = Some (Some v).
  Proof. revert i; induction s as [|x r IH]; intros [|i] H; cbn in *; try lia; auto. apply IH; lia. Qed.

  Lemma nth_set_slot_ne (s : list (option B)) i j v : i <> j -> nth_error (set_slot s i v) j = nth_error s j.
  Proof. revert i j; induction s as [|x r IH]; intros [|i] [|j] H; cbn; auto; try congruence. Qed.

  (* invariant of the fold: slot j holds f (l_j) if j was scheduled so far, else what it held before *)
  Lemma slots_spec f l : forall sched (s : list (option B)), length s = length l ->
    let s' := fold_left (fun slots i => match nth_error l i with Some a => set_slot slots i (f a) | None => slots end) sched s in
    length s' = length l /\
    forall j a, nth_error l j = Some a ->
      nth_error s' j = if existsb (Nat.eqb j) sched then Some (Some (f a)) else nth_error s j.
  Proof.
    induction sched as [|i r IH]; intros s Hl; cbn [fold_left existsb].
    - split; [exact Hl|]. intros j a _. reflexivity.
    - destruct (nth_error l i) as [ai|] eqn:Ei.
      + specialize (IH (set_slot s i (f ai))). rewrite set_slot_length in IH. specialize (IH Hl).
        destruct IH as [L IH]. split; [exact L|]. intros j a Hj. rewrite (IH j a Hj).
        destruct (Nat.eqb j i) eqn:Eji; cbn [orb].
        * apply Nat.eqb_eq in Eji; subst j. rewrite Ei in Hj; inversion Hj; subst.
          destruct (existsb (Nat.eqb i) r); [reflexivity|]. apply nth_set_slot_eq. rewrite Hl. apply nth_error_Some. congruence.
        * destruct (existsb (Nat.eqb j) r); [reflexivity|]. apply nth_set_slot_ne. apply Nat.eqb_neq in Eji. congruence.
      + specialize (IH s Hl). destruct IH as [L IH]. split; [exact L|]. intros j a Hj. rewrite (IH j a Hj).
        destruct (Nat.eqb j i) eqn:Eji; cbn [orb]; [|reflexivity].
        apply Nat.eqb_eq in Eji; subst j. congruence.
  Qed.

  Lemma nth_repeat_none n j : nth_error (repeat (@None B) n) j = if j <? n then Some None else None.
  Proof. revert j; induction n as [|n IH]; intros [|j]; cbn; auto. rewrite IH. reflexivity. Qed.

  Lemma all_some_map (l : list B) : all_some (map Some l) = Some l.
  Proof. induction l as [|x r IH]; cbn; [reflexivity|]. rewrite IH. reflexivity. Qed.

  Lemma list_eq_nth {X} (a b : list X) : length a = length b -> (forall j, nth_error a j = nth_error b j) -> a = b.
  Proof.
    revert b; induction a as [|x r IH]; intros [|y s] L H; cbn in *; try discriminate; [reflexivity|].
    pose proof (H 0) as H0. cbn in H0. inversion H0; subst. f_equal. apply IH; [lia|]. intros j. exact (H (S j)).
  Qed.

  (* every schedule that evaluates each item (at least) once yields exactly the serial result, in the serial order *)
  Theorem par_map_collect_serial f l sched :
    (forall j, j < length l -> In j sched) -> par_map_collect sched f l = Some (map f l).
  Proof.
    intros Hall. unfold par_map_collect, par_map_slots.
    destruct (slots_spec f l sched (repeat None (length l)) (repeat_length _ _)) as [L S].
    cbv zeta in L, S.
    set (s' := fold_left _ sched _) in *.
    assert (E : s' = map Some (map f l)).
    { apply list_eq_nth; [rewrite !map_length; exact L|]. intros j.
      destruct (nth_error l j) as [a|] eqn:Ej.
      - rewrite (S j a Ej). rewrite !nth_error_map, Ej. cbn.
        assert (Hj : j < length l) by (apply nth_error_Some; congruence).
        assert (Hex : existsb (Nat.eqb j) sched = true).
        { apply existsb_exists. exists j. split; [apply Hall; exact Hj|apply Nat.eqb_refl]. }
        rewrite Hex. reflexivity.
      - rewrite !nth_error_map, Ej. cbn. apply nth_error_None. rewrite L. apply nth_error_None. exact Ej. }
    rewrite E. apply all_some_map.
  Qed.

  Corollary par_map_collect_perm f l sched : Permutation sched (seq 0 (length l)) -> par_map_collect sched f l = Some (map f l).
  Proof.
    intros P. apply par_map_collect_serial. intros j Hj. eapply Permutation_in; [apply Permutation_sym; exact P|].
    apply in_seq. lia.
  Qed.

  (* two schedules give the same bytes *)
  Corollary par_map_schedule_free f l s1 s2 :
    Permutation s1 (seq 0 (length l)) -> Permutation s2 (seq 0 (length l)) -> par_map_collect s1 f l = par_map_collect s2 f l.
  Proof. intros P1 P2. rewrite (par_map_collect_perm f l s1 P1), (par_map_collect_perm f l s2 P2). reflexivity. Qed.

  (* `any`: whatever the order, and although evaluation stops at the first hit *)
  Theorem par_any_serial (p : A -> bool) l sched :
    (forall j, j < length l -> In j sched) -> par_any sched p l = existsb p l.
  Proof.
    intros Hall.
    assert (H1 : par_any sched p l = true -> existsb p l = true).
    { clear Hall. induction sched as [|i r IH]; cbn [par_any]; [discriminate|].
      destruct (nth_error l i) as [a|] eqn:E; [|exact IH]. destruct (p a) eqn:Ep; [|exact IH].
      intros _. apply existsb_exists. exists a. split; [eapply nth_error_In; eauto|exact Ep]. }
    assert (H2 : existsb p l = true -> par_any sched p l = true).
    { intros H. apply existsb_exists in H. destruct H as [a [Hin Hp]]. apply In_nth_error in Hin. destruct Hin as [j Hj].
      assert (Hjl : j < length l) by (apply nth_error_Some; congruence).
      specialize (Hall j Hjl). clear Hjl H1. induction sched as [|i r IH]; [destruct Hall|].
      cbn [par_any]. destruct (nth_error l i) as [ai|] eqn:E.
      - destruct (p ai) eqn:Epi; [reflexivity|]. destruct Hall as [->|Hin]; [congruence|]. apply IH; exact Hin.
      - destruct Hall as [->|Hin]; [congruence|]. apply IH; exact Hin. }
    destruct (par_any sched p l) eqn:E1, (existsb p l) eqn:E2; try reflexivity.
    - symmetry. apply H1. reflexivity.
    - apply H2. reflexivity.
  Qed.
End P.

(* parse: accept/reject and the reported error are those of the serial build *)
Theorem parse_decision_schedule_free {A E T} (f : A -> E + T) l sched :
  (forall j, j < length l -> In j sched) ->
  option_map first_err (par_map_collect sched f l) = Some (first_err (map f l)).
Proof. intros H. rewrite (par_map_collect_serial f l sched H). reflexivity. Qed.

Print Assumptions par_map_collect_serial.
Print Assumptions par_map_schedule_free.
Print Assumptions par_any_serial.
Print Assumptions parse_decision_schedule_free.
