(* Local compaction (LocalFunction::emit_locals, Model/Locals.v) is a type-preserving bijection
   args ∪ used  <->  [0, n)  that fixes the parameters; the locals declaration is canonical.
   `lookup l lmap` below is the model's own `local_index lmap l` (first match in the association list). *)
From Coq Require Import List NArith Arith Lia Bool Permutation Sorted.
Import ListNotations.
From WV Require Import Gen.Ops Model.Common Model.IR Model.Locals.
From WV Require Import Proofs.Order.
Local Open Scope nat_scope.

Definition lookup (l : N) (lmap : list (N * N)) : option N := local_index lmap l.

(* the declared local types, one entry per declared local, in declaration order *)
Definition expand (decls : list (N * valty)) : list valty :=
  flat_map (fun d : N * valty => repeat (snd d) (N.to_nat (fst d))) decls.

(* ====================================================================================== *)
(* 0. generic facts                                                                       *)
(* ====================================================================================== *)

Lemma valty_code_inj a b : valty_code a = valty_code b -> a = b.
Proof. destruct a, b; cbn; intros H; try reflexivity; discriminate. Qed.

Lemma lookup_some_in m l j : lookup l m = Some j -> In (l, j) m.
Proof.
  unfold lookup, local_index. destruct (find _ m) as [[a b]|] eqn:F; [|discriminate].
  intros H; inversion H; subst. apply find_some in F. destruct F as [Hin E]. cbn [fst] in E.
  apply N.eqb_eq in E. subst. exact Hin.
Qed.

Lemma lookup_combine_inv order s l j :
  lookup l (combine order (map N.of_nat (seq s (length order)))) = Some j ->
  exists k, nth_error order k = Some l /\ j = N.of_nat (s + k).
Proof. intros H. apply lookup_some_in in H. now apply in_combine_seq in H. Qed.

Lemma lookup_combine_nodup order : forall s k l, NoDup order -> nth_error order k = Some l ->
  lookup l (combine order (map N.of_nat (seq s (length order)))) = Some (N.of_nat (s + k)).
Proof.
  induction order as [|x order IH]; intros s k l ND Hk.
  - destruct k; discriminate.
  - inversion ND as [|? ? Hx ND']; subst. cbn [length seq map combine].
    unfold lookup, local_index. cbn [find fst]. destruct (N.eqb_spec x l) as [->|Hne].
    + destruct k as [|k].
      * cbn [snd]. do 2 f_equal. lia.
      * exfalso. cbn in Hk. apply nth_error_In in Hk. tauto.
    + destruct k as [|k]; cbn in Hk.
      * inversion Hk; congruence.
      * specialize (IH (S s) k l ND' Hk). unfold lookup, local_index in IH. rewrite IH.
        do 2 f_equal. lia.
Qed.

Lemma Forall2_len {A B} (R : A -> B -> Prop) l1 l2 : Forall2 R l1 l2 -> length l1 = length l2.
Proof. induction 1; cbn [length]; congruence. Qed.

Lemma StronglySorted_filter {A} (R : A -> A -> Prop) p l :
  StronglySorted R l -> StronglySorted R (filter p l).
Proof.
  induction 1 as [|a l Hs IH Hall]; cbn [filter]; [constructor|].
  destruct (p a); auto. constructor; auto.
  rewrite Forall_forall in *. intros x Hx. apply filter_In in Hx. apply Hall. tauto.
Qed.

(* ====================================================================================== *)
(* 1. the canonical declaration of a multiset of local types                              *)
(* ====================================================================================== *)

Definition count_ty (t : valty) (tys : list valty) : nat :=
  length (filter (fun t' => N.eqb (valty_code t') (valty_code t)) tys).

(* one (count, type) run per type that occurs, in the order of all_valtys =
   I32, I64, F32, F64, V128, Funcref, Externref (= increasing valty_code = ValType's derived Ord) *)
Definition canonical_decls (tys : list valty) : list (N * valty) :=
  filter (fun d : N * valty => negb (N.eqb (fst d) 0))
         (map (fun t => (N.of_nat (count_ty t tys), t)) all_valtys).

Definition decl_lt (a b : N * valty) : Prop := (valty_code (snd a) < valty_code (snd b))%N.

Lemma count_ty_pos t tys : count_ty t tys <> 0 <-> In t tys.
Proof.
  unfold count_ty. induction tys as [|a tys IH]; cbn [filter In length]; [tauto|].
  destruct (N.eqb_spec (valty_code a) (valty_code t)) as [E|Hne].
  - apply valty_code_inj in E. subst a. cbn [length]. split; intros; [now left|lia].
  - rewrite IH. split; intros H; [now right|]. destruct H as [->|H]; [congruence|exact H].
Qed.

Lemma count_ty_perm t tys1 tys2 : Permutation tys1 tys2 -> count_ty t tys1 = count_ty t tys2.
Proof.
  unfold count_ty. induction 1 as [|x l l' P IH|x y l|l l' l'' P1 IH1 P2 IH2]; cbn [filter]; auto.
  - destruct (N.eqb _ _); cbn [length]; congruence.
  - destruct (N.eqb (valty_code x) _), (N.eqb (valty_code y) _); cbn [length]; reflexivity.
  - congruence.
Qed.

Theorem canonical_decls_counts : forall tys1 tys2, (forall t, count_ty t tys1 = count_ty t tys2) ->
  canonical_decls tys1 = canonical_decls tys2.
Proof.
  intros tys1 tys2 H. unfold canonical_decls. f_equal. apply map_ext. intros t. now rewrite H.
Qed.

Theorem canonical_decls_perm : forall tys1 tys2, Permutation tys1 tys2 ->
  canonical_decls tys1 = canonical_decls tys2.
Proof. intros tys1 tys2 P. apply canonical_decls_counts. intros t. now apply count_ty_perm. Qed.

Lemma canonical_in tys c t :
  In (c, t) (canonical_decls tys) <-> c = N.of_nat (count_ty t tys) /\ c <> 0%N.
Proof.
  unfold canonical_decls. rewrite filter_In, in_map_iff. cbn [fst]. rewrite negb_true_iff, N.eqb_neq. split.
  - intros ((t' & E & _) & Hc). inversion E; subst. auto.
  - intros (-> & Hc). split; auto. exists t. split; auto. apply all_valtys_complete.
Qed.

Lemma all_valtys_sorted f : StronglySorted decl_lt (map (fun t => (f t : N, t)) all_valtys).
Proof.
  unfold all_valtys. cbn [map].
  repeat first [apply SSorted_nil | apply SSorted_cons | apply Forall_nil | apply Forall_cons];
    unfold decl_lt; cbn [snd valty_code]; lia.
Qed.

Lemma canonical_sorted tys : StronglySorted decl_lt (canonical_decls tys).
Proof. unfold canonical_decls. apply StronglySorted_filter. apply (all_valtys_sorted (fun t => N.of_nat (count_ty t tys))). Qed.

Lemma decl_sorted_NoDup l : StronglySorted decl_lt l -> NoDup (map snd l).
Proof.
  induction 1 as [|a l Hs IH Hall]; cbn [map]; constructor; auto.
  rewrite in_map_iff. intros (b & Hb & Hin). rewrite Forall_forall in Hall. apply Hall in Hin.
  unfold decl_lt in Hin. rewrite Hb in Hin. lia.
Qed.

(* ====================================================================================== *)
(* 2. emit_locals                                                                         *)
(* ====================================================================================== *)

Section Locals3.
  Variable ty : N -> valty.

  Lemma of_type_count t ls : length (of_type ty t ls) = count_ty t (map ty ls).
  Proof.
    unfold of_type, count_ty. induction ls as [|a ls IH]; cbn [map filter]; auto.
    destruct (N.eqb _ _); cbn [length]; congruence.
  Qed.

  Lemma groups_canonical ls : forall ts,
    map (fun g : valty * list N => (len_N (snd g), fst g))
        (filter (fun g : valty * list N => negb (match snd g with [] => true | _ => false end))
                (map (fun t => (t, of_type ty t ls)) ts))
    = filter (fun d : N * valty => negb (N.eqb (fst d) 0))
             (map (fun t => (N.of_nat (count_ty t (map ty ls)), t)) ts).
  Proof.
    induction ts as [|t ts IH]; [reflexivity|].
    cbn [map filter snd fst]. rewrite <- of_type_count.
    destruct (of_type ty t ls) as [|x r] eqn:Eo.
    - cbn [length N.of_nat N.eqb negb]. exact IH.
    - cbn [length N.of_nat N.eqb negb map fst snd]. rewrite IH. unfold len_N. cbn [length N.of_nat]. reflexivity.
  Qed.

  Lemma decls_eq args used :
    map (fun g : valty * list N => (len_N (snd g), fst g)) (locals_groups ty args used)
    = canonical_decls (map ty (non_args args used)).
  Proof. unfold locals_groups, canonical_decls. apply groups_canonical. Qed.

  Lemma order_length args used :
    length (locals_order ty args used) = length args + length (non_args args used).
  Proof.
    unfold locals_order. rewrite app_length. f_equal. apply Permutation_length, groups_perm.
  Qed.

  Lemma order_typed args used :
    Forall2 (fun id t => valty_code t = valty_code (ty id)) (flat_map snd (locals_groups ty args used))
            (expand (map (fun g : valty * list N => (len_N (snd g), fst g)) (locals_groups ty args used))).
  Proof. apply groups_typed, locals_groups_typed. Qed.

  Lemma expand_length args used :
    length (expand (map (fun g : valty * list N => (len_N (snd g), fst g)) (locals_groups ty args used)))
    = length (non_args args used).
  Proof.
    rewrite <- (Forall2_len _ _ _ (order_typed args used)). apply Permutation_length, groups_perm.
  Qed.

  Lemma non_args_enum args used d : NoDup d -> (forall x, In x d <-> In x used /\ ~ In x args) ->
    Permutation d (non_args args used).
  Proof.
    intros ND H. apply NoDup_Permutation; [exact ND|apply non_args_NoDup|].
    intros x. rewrite H, (non_args_in ty). tauto.
  Qed.

  (* a looked-up local sits at that position of the emission order *)
  Lemma lookup_order args used decls lmap l j : emit_locals ty args used = (decls, lmap) ->
    lookup l lmap = Some j -> nth_error (locals_order ty args used) (N.to_nat j) = Some l.
  Proof.
    intros E H. rewrite emit_locals_eq in E. inversion E; subst; clear E.
    apply lookup_combine_inv in H. destruct H as (k & Hk & ->). now rewrite Nat2N.id.
  Qed.

  Lemma order_lookup args used decls lmap l k : NoDup args -> emit_locals ty args used = (decls, lmap) ->
    nth_error (locals_order ty args used) k = Some l -> lookup l lmap = Some (N.of_nat k).
  Proof.
    intros ND E H. rewrite emit_locals_eq in E. inversion E; subst; clear E.
    apply (lookup_combine_nodup _ 0 k l); auto. now apply locals_order_NoDup.
  Qed.

  (* ---------------------------------------------------------------------------------- *)
  (* 1. parameters keep their positions                                                   *)
  (* ---------------------------------------------------------------------------------- *)
  Theorem locals_params_fixed : forall args used decls lmap, NoDup args ->
    emit_locals ty args used = (decls, lmap) ->
    forall k a, nth_error args k = Some a -> lookup a lmap = Some (N.of_nat k).
  Proof.
    intros args used decls lmap ND E k a Hk. eapply order_lookup; eauto.
    unfold locals_order. rewrite nth_error_app1; auto. apply nth_error_Some. congruence.
  Qed.

  (* ---------------------------------------------------------------------------------- *)
  (* 2. every used local has a slot; non-parameters come after the parameters             *)
  (* ---------------------------------------------------------------------------------- *)
  Theorem locals_all_used_mapped : forall args used decls lmap, NoDup args ->
    emit_locals ty args used = (decls, lmap) ->
    (forall l, In l used -> exists j, lookup l lmap = Some j) /\
    (forall l j, lookup l lmap = Some j -> ~ In l args -> (N.of_nat (length args) <= j)%N).
  Proof.
    intros args used decls lmap ND E. split.
    - intros l Hl. assert (Hin : In l (locals_order ty args used)) by (apply locals_order_in; now right).
      destruct (In_nth_error _ _ Hin) as (k & Hk). exists (N.of_nat k). eapply order_lookup; eauto.
    - intros l j H Hna. pose proof (lookup_order _ _ _ _ _ _ E H) as Ho.
      destruct (le_lt_dec (length args) (N.to_nat j)) as [Hle|Hlt]; [lia|].
      exfalso. apply Hna. unfold locals_order in Ho. rewrite nth_error_app1 in Ho by exact Hlt.
      eapply nth_error_In; eauto.
  Qed.

  (* ---------------------------------------------------------------------------------- *)
  (* 3. injectivity; the domain is args ∪ used                                           *)
  (* ---------------------------------------------------------------------------------- *)
  Theorem locals_injective : forall args used decls lmap, NoDup args ->
    emit_locals ty args used = (decls, lmap) ->
    (forall l1 l2 j, lookup l1 lmap = Some j -> lookup l2 lmap = Some j -> l1 = l2) /\
    (forall l, (exists j, lookup l lmap = Some j) <-> In l args \/ In l used).
  Proof.
    intros args used decls lmap ND E. split.
    - intros l1 l2 j H1 H2. pose proof (lookup_order _ _ _ _ _ _ E H1) as O1.
      pose proof (lookup_order _ _ _ _ _ _ E H2) as O2. congruence.
    - intros l. rewrite <- locals_order_in. split.
      + intros (j & H). eapply nth_error_In, lookup_order; eauto.
      + intros Hin. destruct (In_nth_error _ _ Hin) as (k & Hk). exists (N.of_nat k). eapply order_lookup; eauto.
  Qed.

  (* ---------------------------------------------------------------------------------- *)
  (* 4. the slots are exactly [0, |args| + |used \ args|): no gap, nothing beyond the      *)
  (*    declaration.  `d` is ANY duplicate-free enumeration of the used non-parameters.    *)
  (* ---------------------------------------------------------------------------------- *)
  Theorem locals_slots_exact : forall args used decls lmap, NoDup args ->
    emit_locals ty args used = (decls, lmap) ->
    forall d, NoDup d -> (forall x, In x d <-> In x used /\ ~ In x args) ->
    (forall j, (exists l, lookup l lmap = Some j) <-> (j < N.of_nat (length args + length d))%N) /\
    length (expand decls) = length d /\
    length lmap = length args + length d.
  Proof.
    intros args used decls lmap ND E d NDd Hd.
    pose proof (Permutation_length (non_args_enum args used d NDd Hd)) as Ld.
    pose proof (order_length args used) as Lo. rewrite <- Ld in Lo.
    split; [|split].
    - intros j. split.
      + intros (l & H). pose proof (lookup_order _ _ _ _ _ _ E H) as Ho.
        assert (N.to_nat j < length (locals_order ty args used)) by (apply nth_error_Some; congruence). lia.
      + intros Hj. assert (Hlt : N.to_nat j < length (locals_order ty args used)) by lia.
        apply nth_error_Some in Hlt. destruct (nth_error (locals_order ty args used) (N.to_nat j)) as [l|] eqn:Hn; [|congruence].
        exists l. rewrite <- (N2Nat.id j). exact (order_lookup _ _ _ _ _ _ ND E Hn).
    - rewrite emit_locals_eq in E. inversion E; subst; clear E. rewrite expand_length. lia.
    - rewrite emit_locals_eq in E. inversion E; subst; clear E.
      rewrite combine_length, map_length, seq_length, Nat.min_id. exact Lo.
  Qed.

  (* ---------------------------------------------------------------------------------- *)
  (* 5. the emitted slot has the type of the local it stands for                          *)
  (* ---------------------------------------------------------------------------------- *)
  Theorem locals_types_preserved : forall args used decls lmap,
    emit_locals ty args used = (decls, lmap) ->
    forall l j, lookup l lmap = Some j -> ~ In l args ->
      nth_error (expand decls) (N.to_nat j - length args) = Some (ty l).
  Proof.
    intros args used decls lmap E l j H Hna. pose proof (lookup_order _ _ _ _ _ _ E H) as Ho.
    assert (Hle : length args <= N.to_nat j).
    { destruct (le_lt_dec (length args) (N.to_nat j)) as [Hle|Hlt]; [exact Hle|].
      exfalso. apply Hna. unfold locals_order in Ho. rewrite nth_error_app1 in Ho by exact Hlt.
      eapply nth_error_In; eauto. }
    unfold locals_order in Ho. rewrite nth_error_app2 in Ho by exact Hle.
    rewrite emit_locals_eq in E. inversion E; subst; clear E.
    destruct (Forall2_nth_error _ _ _ (order_typed args used) _ _ Ho) as (t & Ht & Hc).
    apply valty_code_inj in Hc. now subst t.
  Qed.

  (* all slots, parameters included: the emitted function's local-type vector
     (parameter types, then the expanded declaration) has ty l at slot lmap(l) *)
  Theorem locals_types_preserved_all : forall args used decls lmap,
    emit_locals ty args used = (decls, lmap) ->
    forall l j, lookup l lmap = Some j ->
      nth_error (map ty args ++ expand decls) (N.to_nat j) = Some (ty l).
  Proof.
    intros args used decls lmap E l j H. pose proof (lookup_order _ _ _ _ _ _ E H) as Ho.
    destruct (le_lt_dec (length args) (N.to_nat j)) as [Hle|Hlt].
    - rewrite nth_error_app2 by (now rewrite map_length). rewrite map_length.
      unfold locals_order in Ho. rewrite nth_error_app2 in Ho by exact Hle.
      rewrite emit_locals_eq in E. inversion E; subst; clear E.
      destruct (Forall2_nth_error _ _ _ (order_typed args used) _ _ Ho) as (t & Ht & Hc).
      apply valty_code_inj in Hc. now subst t.
    - rewrite nth_error_app1 by (now rewrite map_length).
      unfold locals_order in Ho. rewrite nth_error_app1 in Ho by exact Hlt.
      now apply map_nth_error.
  Qed.

  (* ---------------------------------------------------------------------------------- *)
  (* 6. the declaration is canonical                                                      *)
  (* ---------------------------------------------------------------------------------- *)
  Theorem locals_decls_canonical : forall args used decls lmap,
    emit_locals ty args used = (decls, lmap) ->
    forall d, NoDup d -> (forall x, In x d <-> In x used /\ ~ In x args) ->
    decls = canonical_decls (map ty d) /\
    StronglySorted decl_lt decls /\                      (* increasing valty_code: I32<I64<F32<F64<V128<Funcref<Externref *)
    NoDup (map snd decls) /\                             (* each type at most once: runs are maximal *)
    Forall (fun dc => fst dc <> 0%N) decls /\            (* no empty run *)
    (forall c t, In (c, t) decls <-> c = N.of_nat (count_ty t (map ty d)) /\ c <> 0%N) /\
    (forall t, In t (map snd decls) <-> exists l, In l used /\ ~ In l args /\ ty l = t).
  Proof.
    intros args used decls lmap E d NDd Hd.
    assert (Ed : decls = canonical_decls (map ty d)).
    { rewrite emit_locals_eq in E. inversion E; subst; clear E. rewrite decls_eq.
      apply canonical_decls_perm, Permutation_map, Permutation_sym, non_args_enum; auto. }
    split; [exact Ed|]. subst decls.
    split; [apply canonical_sorted|]. split; [apply decl_sorted_NoDup, canonical_sorted|].
    split; [|split].
    - rewrite Forall_forall. intros [c t] Hin. apply canonical_in in Hin. cbn [fst]. tauto.
    - intros c t. apply canonical_in.
    - intros t. rewrite in_map_iff. split.
      + intros ([c t'] & Et & Hin). cbn [snd] in Et. subst t'. apply canonical_in in Hin.
        destruct Hin as (-> & Hc). assert (Hp : count_ty t (map ty d) <> 0) by lia.
        apply count_ty_pos, in_map_iff in Hp. destruct Hp as (l & El & Hl). apply Hd in Hl.
        exists l. tauto.
      + intros (l & Hu & Hna & El). exists (N.of_nat (count_ty t (map ty d)), t). split; auto.
        apply canonical_in. split; auto.
        assert (Hp : count_ty t (map ty d) <> 0).
        { apply count_ty_pos, in_map_iff. exists l. split; auto. apply Hd. tauto. }
        lia.
  Qed.
End Locals3.

(* two functions whose used non-parameter locals have the same multiset of types get the same declaration *)
Theorem locals_decls_same_multiset : forall ty1 args1 used1 ty2 args2 used2 d1 d2,
  NoDup d1 -> (forall x, In x d1 <-> In x used1 /\ ~ In x args1) ->
  NoDup d2 -> (forall x, In x d2 <-> In x used2 /\ ~ In x args2) ->
  Permutation (map ty1 d1) (map ty2 d2) ->
  fst (emit_locals ty1 args1 used1) = fst (emit_locals ty2 args2 used2).
Proof.
  intros ty1 args1 used1 ty2 args2 used2 d1 d2 N1 H1 N2 H2 P.
  destruct (emit_locals ty1 args1 used1) as [dc1 m1] eqn:E1.
  destruct (emit_locals ty2 args2 used2) as [dc2 m2] eqn:E2. cbn [fst].
  destruct (locals_decls_canonical _ _ _ _ _ E1 d1 N1 H1) as (-> & _).
  destruct (locals_decls_canonical _ _ _ _ _ E2 d2 N2 H2) as (-> & _).
  now apply canonical_decls_perm.
Qed.

(* runs are maximal: in the expanded declaration the types are non-decreasing, i.e. all locals of one
   type are contiguous *)
Definition ty_le_code (a b : valty) : Prop := (valty_code a <= valty_code b)%N.

Lemma expand_in l t : In t (expand l) -> In t (map snd l).
Proof.
  unfold expand. rewrite in_flat_map. intros (d & Hd & Hr). apply repeat_spec in Hr. subst t. now apply in_map.
Qed.

Lemma repeat_app_sorted t rest : StronglySorted ty_le_code rest ->
  Forall (fun x => ty_le_code t x) rest -> forall n, StronglySorted ty_le_code (repeat t n ++ rest).
Proof.
  intros Hs Hall. induction n as [|n IH]; cbn [repeat app]; auto. constructor; auto.
  apply Forall_app. split; auto. rewrite Forall_forall. intros x Hx. apply repeat_spec in Hx. subst x.
  unfold ty_le_code. lia.
Qed.

Lemma expand_sorted l : StronglySorted decl_lt l -> StronglySorted ty_le_code (expand l).
Proof.
  induction 1 as [|a l Hs IH Hall]; [constructor|].
  change (expand (a :: l)) with (repeat (snd a) (N.to_nat (fst a)) ++ expand l).
  apply repeat_app_sorted; auto. rewrite Forall_forall in *. intros x Hx.
  apply expand_in, in_map_iff in Hx. destruct Hx as (b & Hb & Hin). apply Hall in Hin.
  unfold decl_lt in Hin. unfold ty_le_code. rewrite <- Hb. lia.
Qed.

Theorem locals_decls_contiguous : forall ty args used decls lmap,
  emit_locals ty args used = (decls, lmap) -> StronglySorted ty_le_code (expand decls).
Proof.
  intros ty args used decls lmap E. apply expand_sorted.
  eapply (locals_decls_canonical ty _ _ _ _ E (non_args args used)); [apply non_args_NoDup|apply (non_args_in ty)].
Qed.

(* ====================================================================================== *)
(* 7. corollary for C01: lmap is a type-preserving bijection args ∪ used <-> [0,n)        *)
(*    that fixes the parameters                                                           *)
(* ====================================================================================== *)
Theorem locals_renaming_consistent : forall ty args used decls lmap, NoDup args ->
  emit_locals ty args used = (decls, lmap) ->
  let n := length (map ty args ++ expand decls) in       (* number of locals of the emitted function *)
  (* total on args ∪ used, into [0,n) *)
  (forall l, In l args \/ In l used -> exists j, lookup l lmap = Some j /\ (j < N.of_nat n)%N) /\
  (* defined nowhere else *)
  (forall l j, lookup l lmap = Some j -> In l args \/ In l used) /\
  (* injective *)
  (forall l1 l2 j, lookup l1 lmap = Some j -> lookup l2 lmap = Some j -> l1 = l2) /\
  (* onto [0,n) *)
  (forall j, (j < N.of_nat n)%N -> exists l, (In l args \/ In l used) /\ lookup l lmap = Some j) /\
  (* fixes the parameters *)
  (forall k a, nth_error args k = Some a -> lookup a lmap = Some (N.of_nat k)) /\
  (* preserves types *)
  (forall l j, lookup l lmap = Some j -> nth_error (map ty args ++ expand decls) (N.to_nat j) = Some (ty l)).
Proof.
  intros ty args used decls lmap ND E n.
  pose proof (locals_slots_exact ty _ _ _ _ ND E (non_args args used) (non_args_NoDup args used)
                (non_args_in ty args used)) as (Hs & Hlen & _).
  assert (Hn : n = length args + length (non_args args used)).
  { unfold n. rewrite app_length, map_length. lia. }
  destruct (locals_injective ty _ _ _ _ ND E) as (Hinj & Hdom).
  repeat split.
  - intros l Hl. apply Hdom in Hl. destruct Hl as (j & Hj). exists j. split; auto.
    rewrite Hn. apply Hs. eauto.
  - intros l j H. apply Hdom. eauto.
  - exact Hinj.
  - intros j Hj. rewrite Hn in Hj. apply Hs in Hj. destruct Hj as (l & Hl). exists l. split; auto.
    apply Hdom. eauto.
  - exact (locals_params_fixed ty _ _ _ _ ND E).
  - exact (locals_types_preserved_all ty _ _ _ _ E).
Qed.

(* ====================================================================================== *)
(* the premise NoDup args is needed: with a repeated parameter id the second position     *)
(* is not the slot of that id, and slot 1 is the image of no local                        *)
(* ====================================================================================== *)
Theorem locals_params_fixed_refuted : exists ty args used decls lmap k a,
  emit_locals ty args used = (decls, lmap) /\ nth_error args k = Some a /\
  lookup a lmap <> Some (N.of_nat k).
Proof.
  exists (fun _ => VT_I32), [5%N; 5%N], [], [], [(5%N, 0%N); (5%N, 1%N)], 1, 5%N.
  split; [reflexivity|]. split; [reflexivity|]. vm_compute. discriminate.
Qed.

Theorem locals_slots_exact_refuted : exists ty args used decls lmap,
  emit_locals ty args used = (decls, lmap) /\ (1 < N.of_nat (length lmap))%N /\
  forall l, In l args \/ In l used -> lookup l lmap <> Some 1%N.
Proof.
  exists (fun _ => VT_I32), [5%N; 5%N], [], [], [(5%N, 0%N); (5%N, 1%N)].
  split; [reflexivity|]. split; [vm_compute; reflexivity|].
  intros l [[<-|[<-|[]]]|[]]; vm_compute; discriminate.
Qed.

Print Assumptions locals_params_fixed.
Print Assumptions locals_all_used_mapped.
Print Assumptions locals_injective.
Print Assumptions locals_slots_exact.
Print Assumptions locals_types_preserved.
Print Assumptions locals_types_preserved_all.
Print Assumptions locals_decls_canonical.
Print Assumptions locals_decls_same_multiset.
Print Assumptions locals_decls_contiguous.
Print Assumptions locals_renaming_consistent.
Print Assumptions locals_params_fixed_refuted.
Print Assumptions locals_slots_exact_refuted.
