(* C08, module level fixpoint, part 15: discharging the function-level obligations of ModFix12 from the body-level
   theorems (ModFix10 / ModFix14); what is not yet available from ModFix14 is a NAMED premise (a Definition). *)
From Coq Require Import List NArith ZArith Bool Arith Lia Permutation.
Import ListNotations.
From WV Require Import Gen.Ops Model.Common Model.IR Model.Arena Model.Traversal Model.EmitFn Model.Locals
                       Model.ParseFn Model.ParseSpec Model.BodySpec Model.ModuleM Model.ParseM Model.EmitM Gen.Attrs.
From WV Require Import Proofs.Arena Proofs.IndexMaps Proofs.Structure Proofs.Structure2 Proofs.Renumbering
                       Proofs.ParseTotal Proofs.TotalityBodies Proofs.ModFix Proofs.ModFix12.
From WV Require Proofs.Order Proofs.SortKeys Proofs.Fixpoint Proofs.Names Proofs.Totality Proofs.ModFix3 Proofs.ModFix4 Proofs.ModFix5 Proofs.ModFix6 Proofs.ModFix10 Proofs.ModFix13 Proofs.ModFix14.
Local Open Scope nat_scope.

Definition cx_of (s : pst) (fid : N) : pctx := {| px_i2id := i2id_fun (ps_ids s) fid; px_types := types_list (ps_m s) |}.
Definition ecx_of (e : emitted) (lmap : list (N * N)) (ilen : wins -> N) : ectx :=
  {| ex_id2i := id2i_fun (em_x2i e) lmap; ex_ilen := ilen |}.

(* ====================================================================================== *)
(* 0. one function of the first trip, under (V): structured body, its parse, its emission    *)
(* ====================================================================================== *)
Lemma first_trip_function cf ver w s1 ilen e1 id f1 lf1 ef1 :
  valid_stream w -> parseM cf ver w = POk s1 ->
  aget (m_funcs (ps_m s1)) id = Some f1 -> fn_kind f1 = FK_Local lf1 ->
  emit_function (ps_m s1) (em_x2i e1) ilen id lf1 = Ok ef1 ->
  exists t ety l eloc evs decls lmap st,
    types_get (ps_m s1) (lf_ty lf1) = Some t /\
    wfl (cx_of s1 id) 1 l /\
    parse_body (cx_of s1 id) ety (ty_results t) (flat_list l ++ [(WEnd, eloc)]) = Ok (lf_arena lf1) /\
    lf_entry lf1 = 0%N /\ lf_log lf1 = Ok evs /\
    emit_locals (local_ty_fn (ps_m s1)) (lf_args lf1) (used_of_log evs) = (decls, lmap) /\
    refs_ok (em_x2i e1) lmap evs = true /\
    emit_body (ecx_of e1 lmap ilen) (lf_fuel lf1) (lf_arena lf1) 0%N 0%N = Ok st /\
    ef_body ef1 = {| wb_locals := decls; wb_ops := combine (out st) (map snd (imap st)) |} /\
    ef_lmap ef1 = lmap.
Proof.
  intros V P1 Hg Hk He.
  destruct (local_function_body _ _ _ _ _ _ _ P1 Hg Hk) as (s0 & k & b & t & ety & _ & _ & Hb & _ & _ & Ht & _ & Hen & Hpb & _).
  destruct (valid_bodies_structured _ _ _ _ b id V P1 (nth_error_In _ _ Hb)) as (l & eloc & Eops & _ & Hw).
  destruct (emit_function_inv _ _ _ _ _ _ He) as (evs & decls & lmap & st & A1 & A2 & A3 & A4 & A5 & _ & A7 & _).
  rewrite Hen in A4. rewrite Eops in Hpb.
  exists t, ety, l, eloc, evs, decls, lmap, st. unfold cx_of, ecx_of. repeat (split; [assumption|]). exact A7.
Qed.

(* ====================================================================================== *)
(* C1 (as a named premise) and C2: the sizes                                                *)
(* ====================================================================================== *)
(* (W) for every function of the second trip: every emitted instruction decodes / its block type resolves in the
   second parse context.  [to be discharged from ModFix14 X1 + X3 + ModFix3.reparse_types_arena] *)
Definition W_holds (ilen : wins -> N) (s1 : pst) (e1 : emitted) (s2 : pst) : Prop :=
  forall id j f1 lf1 ef1,
    aget (m_funcs (ps_m s1)) id = Some f1 -> fn_kind f1 = FK_Local lf1 ->
    get_idx (em_x2i e1) S_func id = Ok j ->
    emit_function (ps_m s1) (em_x2i e1) ilen id lf1 = Ok ef1 ->
    Forall (WV.Proofs.ModFix10.op_ok2 (cx_of s2 j)) (map fst (wb_ops (ef_body ef1))).

(* ModFix14 X4 second_size_W: the size of the second parse under (W) only *)
Definition second_size_W_stmt : Prop :=
  forall cx ecx ety rs l eloc p0 ar1 st1 fuel1 cx2 ety2 rs2,
    wfl cx 1 l -> parse_body cx ety rs (flat_list l ++ [(WEnd, eloc)]) = Ok ar1 ->
    emit_body ecx fuel1 ar1 0%N p0 = Ok st1 ->
    let ops1 := combine (out st1) (map snd (imap st1)) in
    Forall (WV.Proofs.ModFix10.op_ok2 cx2) (map fst ops1) ->
    forall ar2, parse_body cx2 ety2 rs2 ops1 = Ok ar2 ->
    forall f1 f2 evs1 evs2, dfs_in_order false f1 ar1 0%N = Ok evs1 -> dfs_in_order false f2 ar2 0%N = Ok evs2 ->
      WV.Proofs.ModFix10.n_instr evs2 = WV.Proofs.ModFix10.n_instr evs1.

Lemma lf_size_n_instr lf evs : lf_log lf = Ok evs -> lf_size lf = Ok (N.of_nat (WV.Proofs.ModFix10.n_instr evs)).
Proof. intros H. unfold lf_size. rewrite H. reflexivity. Qed.

Theorem body_size_stable_holds cf ver w ilen s1 e1 s2 e2 :
  two_trips cf ver w ilen s1 e1 s2 e2 -> valid_stream w -> W_holds ilen s1 e1 s2 -> second_size_W_stmt ->
  body_size_stable ilen s1 e1 s2.
Proof.
  intros (P1 & E1 & P2 & E2) V HW HS id j f1 lf1 ef1 lf2 t2 ety2 Hg Hk Hj He Ht2 Hety2 Hen2 Hpb2.
  destruct (first_trip_function _ _ _ _ _ _ _ _ _ _ V P1 Hg Hk He)
    as (t & ety & l & eloc & evs & decls & lmap & st & A1 & A2 & A3 & A4 & A5 & A6 & A7 & A8 & A9 & A10).
  specialize (HW _ _ _ _ _ Hg Hk Hj He). rewrite A9 in HW, Hpb2. cbn [wb_ops] in HW, Hpb2.
  destruct (WV.Proofs.ModFix10.emitted_ops_shape _ _ _ _ _ _ _ _ _ _ (cx_of s2 j) A2 A3 A8 HW)
    as (L1 & eloc1 & Hops & HW1 & _ & Hp2).
  fold (cx_of s2 j) in Hpb2. rewrite Hp2 in Hpb2. injection Hpb2 as Har2.
  pose proof (parsed_log _ _ _ _ _ HW1 (eq_sym Har2) Hen2) as Hlog2.
  rewrite (lf_size_n_instr _ _ Hlog2), (lf_size_n_instr _ _ A5). f_equal. f_equal.
  unfold lf_log in Hlog2, A5. rewrite Hen2 in Hlog2. rewrite A4 in A5.
  eapply (HS _ _ _ _ _ _ _ _ _ _ (cx_of s2 j) ety2 (ty_results t2) A2 A3 A8 HW (lf_arena lf2)); [|exact A5|exact Hlog2].
  rewrite <- Har2. apply Hp2.
Qed.

Theorem sizes_stable_holds cf ver w ilen s1 e1 s2 e2 :
  two_trips cf ver w ilen s1 e1 s2 e2 -> valid_stream w -> W_holds ilen s1 e1 s2 -> second_size_W_stmt ->
  WV.Proofs.ModFix6.sizes_stable s1 e1 s2.
Proof.
  intros TT V HW HS. exact (sizes_stable_reduce _ _ _ _ _ _ _ _ TT (body_size_stable_holds _ _ _ _ _ _ _ _ TT V HW HS)).
Qed.
Print Assumptions sizes_stable_holds.

(* ====================================================================================== *)
(* C3. every renumbering of the second trip is the identity                                 *)
(* ====================================================================================== *)
Theorem identity_maps cf ver w ilen s1 e1 s2 e2 :
  two_trips cf ver w ilen s1 e1 s2 e2 -> WV.Proofs.ModFix6.sizes_stable s1 e1 s2 -> forall S, rho_id s2 e2 S.
Proof.
  intros TT SS S. destruct S.
  - exact (WV.Proofs.ModFix6.funcs_identity _ _ _ _ _ _ _ _ TT SS).
  - exact (WV.Proofs.ModFix3.types_identity _ _ _ _ _ _ _ _ TT).
  - apply (WV.Proofs.ModFix4.tmg_identity _ _ _ _ _ _ _ _ TT). left. reflexivity.
  - apply (WV.Proofs.ModFix4.tmg_identity _ _ _ _ _ _ _ _ TT). right. left. reflexivity.
  - apply (WV.Proofs.ModFix4.tmg_identity _ _ _ _ _ _ _ _ TT). right. right. reflexivity.
  - apply (WV.Proofs.ModFix4.seg_identity _ _ _ _ _ _ _ _ TT).
  - apply (WV.Proofs.ModFix4.seg_identity _ _ _ _ _ _ _ _ TT).
  - intros i Hi. cbn in Hi. lia.
Qed.

Theorem identity_maps_holds cf ver w ilen s1 e1 s2 e2 :
  two_trips cf ver w ilen s1 e1 s2 e2 -> valid_stream w -> W_holds ilen s1 e1 s2 -> second_size_W_stmt ->
  forall S, rho_id s2 e2 S.
Proof. intros TT V HW HS. eapply identity_maps; [exact TT|eapply sizes_stable_holds; eauto]. Qed.

(* the code payload, with the function-level statement as the only remaining premise *)
Theorem fix_code_from cf ver w ilen s1 e1 s2 e2 :
  two_trips cf ver w ilen s1 e1 s2 e2 -> WV.Proofs.ModFix6.sizes_stable s1 e1 s2 ->
  function_body_stable_l ilen s1 e1 s2 e2 ->
  flat_map code_of (em_secs e2) = flat_map code_of (em_secs e1).
Proof.
  intros TT SS BS. eapply fix_code_reduce_l; [exact TT| | |exact BS].
  - exact (WV.Proofs.ModFix6.funcs_identity _ _ _ _ _ _ _ _ TT SS).
  - apply (proj1 (WV.Proofs.ModFix6.fn_layout _ _ _ _ _ _ _ _ TT)).
Qed.
Print Assumptions identity_maps_holds.
Print Assumptions fix_code_from.

(* ====================================================================================== *)
(* discharging the named premises from ModFix14                                             *)
(* ====================================================================================== *)
Theorem second_size_W_stmt_holds : second_size_W_stmt.
Proof.
  intros cx ecx ety rs l eloc p0 ar1 st1 fuel1 cx2 ety2 rs2 Hw Hp He ops1 HW ar2 Hp2 f1 f2 evs1 evs2 Hd1 Hd2.
  exact (proj1 (WV.Proofs.ModFix14.second_size_W cx ecx ety rs l eloc p0 ar1 st1 fuel1 cx2 ety2 rs2 ar2 f1 f2 evs1 evs2
                  Hw Hp He HW Hp2 Hd1 Hd2)).
Qed.

(* C1, operators: they decode in ANY context (ModFix14 X1); what remains of (W) is the block types *)
Definition W_bt_holds (ilen : wins -> N) (s1 : pst) (e1 : emitted) (s2 : pst) : Prop :=
  forall id j f1 lf1 ef1,
    aget (m_funcs (ps_m s1)) id = Some f1 -> fn_kind f1 = FK_Local lf1 ->
    get_idx (em_x2i e1) S_func id = Ok j ->
    emit_function (ps_m s1) (em_x2i e1) ilen id lf1 = Ok ef1 ->
    Forall (fun w => match w with WBlock bt | WLoop bt | WIf bt => bt_ok (cx_of s2 j) bt | _ => True end)
           (map fst (wb_ops (ef_body ef1))).

Theorem W_from_bt cf ver w ilen s1 e1 s2 e2 :
  two_trips cf ver w ilen s1 e1 s2 e2 -> valid_stream w -> W_bt_holds ilen s1 e1 s2 -> W_holds ilen s1 e1 s2.
Proof.
  intros (P1 & E1 & P2 & E2) V HB id j f1 lf1 ef1 Hg Hk Hj He.
  specialize (HB _ _ _ _ _ Hg Hk Hj He).
  destruct (first_trip_function _ _ _ _ _ _ _ _ _ _ V P1 Hg Hk He)
    as (t & ety & l & eloc & evs & decls & lmap & st & A1 & A2 & A3 & A4 & A5 & A6 & A7 & A8 & A9 & A10).
  rewrite A9 in *. cbn [wb_ops] in *.
  pose proof (WV.Proofs.ModFix14.emitted_ops_plain _ _ _ _ _ _ _ _ _ _ A2 A3 A8) as HP.
  destruct (WV.Proofs.ModFix10.emitted_ops_structured _ _ _ _ _ _ _ _ _ _ A2 (WV.Proofs.ModFix10.enc_ok_all _ _) A3 A8)
    as (_ & _ & _ & _ & _ & Hfst & _ & _).
  rewrite Hfst in *. rewrite Forall_forall in *. intros x Hx. specialize (HB x Hx). specialize (HP x Hx).
  destruct x; cbn [WV.Proofs.ModFix10.op_ok2]; try exact I; try exact HB. apply HP.
Qed.
Print Assumptions second_size_W_stmt_holds.
Print Assumptions W_from_bt.

(* ====================================================================================== *)
(* C6 (assembly): the function-level statement from (W), (F) and the local declarations      *)
(* ====================================================================================== *)
(* (F) every instruction the first emit wrote is a fixed point of parse-then-emit in the second contexts
   [to be discharged: ModFix14 X1 emitted_op_fixed + X2 + X3 + identity_maps + locals (C4/C5)] *)
Definition F_holds (ilen : wins -> N) (s1 : pst) (e1 : emitted) (s2 : pst) (e2 : emitted) : Prop :=
  forall id j f1 lf1 ef1 f2 lf2 ef2,
    aget (m_funcs (ps_m s1)) id = Some f1 -> fn_kind f1 = FK_Local lf1 ->
    get_idx (em_x2i e1) S_func id = Ok j ->
    aget (m_funcs (ps_m s2)) j = Some f2 -> fn_kind f2 = FK_Local lf2 ->
    emit_function (ps_m s1) (em_x2i e1) ilen id lf1 = Ok ef1 ->
    emit_function (ps_m s2) (em_x2i e2) ilen j lf2 = Ok ef2 ->
    Forall (WV.Proofs.Fixpoint.ins_fixed (cx_of s2 j) (ecx_of e2 (ef_lmap ef2) ilen)) (map fst (wb_ops (ef_body ef1))).
(* (D) the local declarations are reproduced [C4: ModFix11.emit_locals_fixpoint_renamed] *)
Definition D_holds (ilen : wins -> N) (s1 : pst) (e1 : emitted) (s2 : pst) (e2 : emitted) : Prop :=
  forall id j f1 lf1 ef1 f2 lf2 ef2,
    aget (m_funcs (ps_m s1)) id = Some f1 -> fn_kind f1 = FK_Local lf1 ->
    get_idx (em_x2i e1) S_func id = Ok j ->
    aget (m_funcs (ps_m s2)) j = Some f2 -> fn_kind f2 = FK_Local lf2 ->
    emit_function (ps_m s1) (em_x2i e1) ilen id lf1 = Ok ef1 ->
    emit_function (ps_m s2) (em_x2i e2) ilen j lf2 = Ok ef2 ->
    wb_locals (ef_body ef2) = wb_locals (ef_body ef1).

Theorem function_body_stable_from cf ver w ilen s1 e1 s2 e2 :
  two_trips cf ver w ilen s1 e1 s2 e2 -> valid_stream w ->
  W_holds ilen s1 e1 s2 -> F_holds ilen s1 e1 s2 e2 -> D_holds ilen s1 e1 s2 e2 ->
  function_body_stable_l ilen s1 e1 s2 e2.
Proof.
  intros (P1 & E1 & P2 & E2) V HW HF HD id j f1 lf1 ef1 f2 lf2 ef2 t2 ety2 base
    Hg1 Hk1 Hj Hg2 Hk2 He1 Ht2 Hety2 Hen2 Hpb2 Hargs Hlv Hdead Htys Hnd He2.
  destruct (first_trip_function _ _ _ _ _ _ _ _ _ _ V P1 Hg1 Hk1 He1)
    as (t & ety & l & eloc & evs & decls & lmap & st & A1 & A2 & A3 & A4 & A5 & A6 & A7 & A8 & A9 & A10).
  destruct (emit_function_inv _ _ _ _ _ _ He2) as (evs2 & decls2 & lmap2 & st2 & B1 & B2 & B3 & B4 & B5 & _ & B7 & _).
  specialize (HW _ _ _ _ _ Hg1 Hk1 Hj He1). specialize (HF _ _ _ _ _ _ _ _ Hg1 Hk1 Hj Hg2 Hk2 He1 He2).
  specialize (HD _ _ _ _ _ _ _ _ Hg1 Hk1 Hj Hg2 Hk2 He1 He2).
  rewrite A9 in HW, HF, Hpb2, HD. rewrite B5 in HD. cbn [wb_ops wb_locals] in HW, HF, Hpb2, HD. rewrite B7 in HF.
  destruct (WV.Proofs.ModFix10.body_second_trip_all (cx_of s1 id) (ecx_of e1 lmap ilen) ety (ty_results t) l eloc 0%N
              (lf_arena lf1) st (lf_fuel lf1) (cx_of s2 j) (ecx_of e2 lmap2 ilen) ety2 (ty_results t2)
              A2 A3 A8 eq_refl HW HF) as (ar2 & Hp2 & _ & Hall & _).
  fold (cx_of s2 j) in Hpb2. rewrite Hpb2 in Hp2. injection Hp2 as <-.
  rewrite Hen2 in B4. fold (ecx_of e2 lmap2 ilen) in B4. specialize (Hall _ _ B4).
  rewrite B5, A9, HD, Hall. reflexivity.
Qed.

Theorem fix_code_from_WFD cf ver w ilen s1 e1 s2 e2 :
  two_trips cf ver w ilen s1 e1 s2 e2 -> valid_stream w ->
  W_holds ilen s1 e1 s2 -> F_holds ilen s1 e1 s2 e2 -> D_holds ilen s1 e1 s2 e2 ->
  flat_map code_of (em_secs e2) = flat_map code_of (em_secs e1).
Proof.
  intros TT V HW HF HD. eapply fix_code_from; [exact TT| |eapply function_body_stable_from; eauto].
  eapply sizes_stable_holds; eauto. exact second_size_W_stmt_holds.
Qed.
Print Assumptions function_body_stable_from.
Print Assumptions fix_code_from_WFD.

(* ====================================================================================== *)
(* C7. the data-segment-use flag of corresponding functions, and sg_uses                    *)
(* ====================================================================================== *)
Lemma data_pair cf ver w ilen s1 e1 s2 e2 id j f1 lf1 f2 lf2 :
  two_trips cf ver w ilen s1 e1 s2 e2 -> valid_stream w -> W_holds ilen s1 e1 s2 ->
  get_idx (em_x2i e1) S_func id = Ok j ->
  aget (m_funcs (ps_m s1)) id = Some f1 -> fn_kind f1 = FK_Local lf1 ->
  aget (m_funcs (ps_m s2)) j = Some f2 -> fn_kind f2 = FK_Local lf2 ->
  uses_data lf2 = uses_data lf1.
Proof.
  intros TT V HW Hj Hg1 Hk1 Hg2 Hk2. pose proof TT as (P1 & E1 & P2 & E2).
  destruct (emitM_x2i _ _ _ _ E1) as (fs1 & Hfs1 & _).
  destruct (second_trip_functions _ _ _ _ _ _ _ _ _ TT Hfs1 _ _ _ _ _ _ Hj Hg1 Hk1 Hg2 Hk2)
    as (k & ef1 & t2 & ety2 & _ & _ & _ & _ & He1 & Ht2 & Hety2 & Hen2 & Hpb2 & _).
  destruct (first_trip_function _ _ _ _ _ _ _ _ _ _ V P1 Hg1 Hk1 He1)
    as (t & ety & l & eloc & evs & decls & lmap & st & A1 & A2 & A3 & A4 & A5 & A6 & A7 & A8 & A9 & A10).
  specialize (HW _ _ _ _ _ Hg1 Hk1 Hj He1). rewrite A9 in HW, Hpb2. cbn [wb_ops] in HW, Hpb2.
  destruct (WV.Proofs.ModFix10.emitted_ops_shape _ _ _ _ _ _ _ _ _ _ (cx_of s2 j) A2 A3 A8 HW)
    as (L1 & eloc1 & Hops & HW1 & _ & Hp2).
  fold (cx_of s2 j) in Hpb2. pose proof Hpb2 as Hpb2'. rewrite Hp2 in Hpb2'. injection Hpb2' as Har2.
  pose proof (parsed_log _ _ _ _ _ HW1 (eq_sym Har2) Hen2) as Hlog2.
  unfold uses_data. rewrite Hlog2, A5. cbn [rmap]. f_equal.
  unfold lf_log in Hlog2, A5. rewrite Hen2 in Hlog2. rewrite A4 in A5.
  exact (WV.Proofs.ModFix14.second_data_W _ _ _ _ _ _ _ _ _ _ (cx_of s2 j) ety2 (ty_results t2) (lf_arena lf2) _ _ _ _
           A2 A3 A8 HW Hpb2 A5 Hlog2).
Qed.

(* the k-th function of the first emission order and the function it becomes *)
Lemma fs1_nth cf ver w ilen s1 e1 s2 e2 fs1 k id lf1 :
  two_trips cf ver w ilen s1 e1 s2 e2 -> used_local_functions (ps_m s1) = Ok fs1 ->
  nth_error fs1 k = Some (id, lf1) ->
  let j := N.of_nat (length (imported_funcs (ps_m s1)) + k) in
  (exists f1, aget (m_funcs (ps_m s1)) id = Some f1 /\ fn_kind f1 = FK_Local lf1) /\
  get_idx (em_x2i e1) S_func id = Ok j /\
  (exists f2 lf2, aget (m_funcs (ps_m s2)) j = Some f2 /\ fn_kind f2 = FK_Local lf2).
Proof.
  intros TT Hfs Hp j. pose proof TT as (P1 & E1 & P2 & E2).
  destruct (ulf_in _ _ _ _ Hfs (nth_error_In _ _ Hp)) as (f1 & Hin1 & Hk1). apply WV.Proofs.Totality.aiter_aget in Hin1.
  destruct (emitM_x2i _ _ _ _ E1) as (fs' & Hfs' & _ & Xf1 & _). rewrite Hfs in Hfs'. injection Hfs' as <-.
  rewrite imported_funcs_eq in Xf1.
  destruct (emit_code_payload _ _ _ _ E1 Hfs) as (Hco & F & _ & Hlen).
  pose proof (second_funcs_count _ _ _ _ _ _ _ E1 P2 Hfs) as Hcnt. rewrite imported_funcs_eq in Hcnt.
  split; [eauto|]. split.
  - apply x2i_positions; [apply (parsed_wf_space _ _ _ _ _ _ _ S_func P1 E1); discriminate|].
    cbn [space_map]. subst j. rewrite Xf1, number_fst, Nat2N.id, nth_error_app2 by lia.
    replace (length (imported_funcs (ps_m s1)) + k - length (imported_funcs (ps_m s1))) with k by lia.
    rewrite nth_error_map, Hp. reflexivity.
  - assert (Hk : k < length fs1) by (apply nth_error_Some; congruence).
    destruct (nth_error (flat_map code_of (em_secs e1)) k) as [b|] eqn:Hb; [|apply nth_error_None in Hb; lia].
    destruct (parsed_function_body _ _ _ _ _ _ P2 Hb) as (fid & f2 & lf2 & t & ety & Hfid & Hg2 & Hk2 & _).
    rewrite Hcnt, Hlen in Hfid. assert (fid = j) by (subst j; lia). subst fid. eauto.
Qed.

Theorem sg_uses_stable cf ver w ilen s1 e1 s2 e2 :
  two_trips cf ver w ilen s1 e1 s2 e2 -> valid_stream w -> W_holds ilen s1 e1 s2 ->
  (WV.Proofs.ModFix5.sg_uses (ps_m s2) <-> WV.Proofs.ModFix5.sg_uses (ps_m s1)).
Proof.
  intros TT V HW. pose proof TT as (P1 & E1 & P2 & E2).
  destruct (emitM_x2i _ _ _ _ E1) as (fs1 & Hfs1 & _).
  destruct (emit_code_payload _ _ _ _ E1 Hfs1) as (_ & _ & _ & Hlen).
  pose proof (second_funcs_count _ _ _ _ _ _ _ E1 P2 Hfs1) as Hcnt. rewrite imported_funcs_eq in Hcnt.
  unfold WV.Proofs.ModFix5.sg_uses. split.
  - intros ([j f2] & lf2 & Hin & Hk2 & Hu). cbn [snd] in Hk2. apply WV.Proofs.Totality.aiter_aget in Hin.
    destruct (local_function_body _ _ _ _ _ _ _ P2 Hin Hk2) as (s0 & k & b & t & ety & _ & _ & Hb & _ & Hjk & _).
    rewrite Hcnt, Hlen in Hjk.
    assert (Hk : k < length fs1) by (rewrite <- Hlen; apply nth_error_Some; congruence).
    destruct (nth_error fs1 k) as [[id lf1]|] eqn:Hp; [|apply nth_error_None in Hp; lia].
    destruct (fs1_nth _ _ _ _ _ _ _ _ _ _ _ _ TT Hfs1 Hp) as ((f1 & Hg1 & Hk1) & Hj & _).
    assert (Ej : N.of_nat (length (imported_funcs (ps_m s1)) + k) = j) by lia. rewrite Ej in Hj.
    exists (id, f1), lf1. cbn [snd]. split; [apply WV.Proofs.Totality.aiter_aget; exact Hg1|]. split; [exact Hk1|].
    rewrite <- (data_pair _ _ _ _ _ _ _ _ _ _ _ _ _ _ TT V HW Hj Hg1 Hk1 Hin Hk2). exact Hu.
  - intros ([id f1] & lf1 & Hin & Hk1 & Hu). cbn [snd] in Hk1.
    destruct (used_local_functions_ids _ _ Hfs1) as (_ & Hids).
    assert (Hi : In id (map fst fs1)) by (apply Hids; eauto).
    apply WV.Proofs.Totality.aiter_aget in Hin.
    destruct (In_nth_error _ _ Hi) as [k Hk]. apply m12_nth_map_inv in Hk. destruct Hk as ([id' lf1'] & Hp & Hid). cbn [fst] in Hid. subst id'.
    destruct (fs1_nth _ _ _ _ _ _ _ _ _ _ _ _ TT Hfs1 Hp) as ((f1' & Hg1 & Hk1') & Hj & (f2 & lf2 & Hg2 & Hk2)).
    rewrite Hin in Hg1. injection Hg1 as <-. rewrite Hk1 in Hk1'. injection Hk1' as <-.
    eexists (_, f2), lf2. cbn [snd]. split; [apply WV.Proofs.Totality.aiter_aget; exact Hg2|]. split; [exact Hk2|].
    rewrite (data_pair _ _ _ _ _ _ _ _ _ _ _ _ _ _ TT V HW Hj Hin Hk1 Hg2 Hk2). exact Hu.
Qed.
Print Assumptions sg_uses_stable.

(* ====================================================================================== *)
(* C5 (index glue): a non-local index written by the first emit is a fixed point of          *)
(*     (second parse: index -> id) ; (second emit: id -> index)                             *)
(* ====================================================================================== *)
Lemma refs_ok_get x lmap evs s id : refs_ok x lmap evs = true -> In (ERef s id) evs -> s <> S_local ->
  get_idx x s id = Ok (id2i_fun x lmap s id).
Proof.
  unfold refs_ok. rewrite forallb_forall. intros H Hin Hs. specialize (H _ Hin).
  assert (E : existsb (fun p => N.eqb (fst p) id) (space_map x s) = true) by (destruct s; try exact H; congruence).
  apply existsb_exists in E. destruct E as (p0 & Hp0 & He0).
  unfold get_idx, lookup_i.
  assert (G : id2i_fun x lmap s id = match find (fun p => N.eqb (fst p) id) (space_map x s) with Some p => snd p | None => 4294967295%N end)
    by (destruct s; try reflexivity; congruence).
  rewrite G. destruct (find _ _) eqn:Ef; [reflexivity|]. exfalso. apply (find_none _ _ Ef) in Hp0. congruence.
Qed.

Lemma second_space_shape cf ver w ilen s1 e1 s2 e2 S :
  two_trips cf ver w ilen s1 e1 s2 e2 -> S <> S_local ->
  ids_space (ps_ids s2) S = iota (n_in s2 S) /\ length (emitted_ids e1 S) = n_in s2 S.
Proof.
  intros TT HL. pose proof TT as (P1 & E1 & P2 & E2).
  destruct (N.eq_dec (match S with S_type => 0 | _ => 1 end) 0)%N as [Ety|Ety].
  - assert (S = S_type) by (destruct S; try reflexivity; discriminate). subst S.
    destruct (WV.Proofs.ModFix3.reparse_types_arena _ _ _ _ _ _ _ P1 E1 P2) as (_ & _ & Hii).
    unfold n_in. cbn [ids_space]. rewrite Hii, iota_length. split; [reflexivity|].
    rewrite (WV.Proofs.ModFix3.out_types_keys _ _ _ E1), map_length.
    destruct (emitM_x2i _ _ _ _ E1) as (fs & _ & Xt & _).
    unfold emitted_ids. cbn [space_map]. rewrite Xt, number_fst, map_length. reflexivity.
  - assert (HS : S <> S_type) by (intros ->; apply Ety; reflexivity). split.
    + apply (ids_space_n _ _ _ _ P2 S HS HL).
    + rewrite (emitted_count _ _ _ _ _ _ _ P1 E1 S HS HL). symmetry. apply (WV.Proofs.ModFix13.n_in_kept _ _ _ _ _ _ _ _ TT S HS HL).
Qed.

Theorem idx_fixed_nonlocal cf ver w ilen s1 e1 s2 e2 :
  two_trips cf ver w ilen s1 e1 s2 e2 -> (forall S, rho_id s2 e2 S) ->
  forall S id i fid lmap2, S <> S_local -> get_idx (em_x2i e1) S id = Ok i ->
    id2i_fun (em_x2i e2) lmap2 S (i2id_fun (ps_ids s2) fid S i) = i.
Proof.
  intros TT RID S id i fid lmap2 HL Hg. pose proof TT as (P1 & E1 & P2 & E2).
  destruct (second_space_shape _ _ _ _ _ _ _ _ S TT HL) as (Hids & Hlen).
  assert (Hlt : N.to_nat i < n_in s2 S).
  { apply (x2i_positions _ _ _ _ (parsed_wf_space _ _ _ _ _ _ _ S P1 E1 HL)) in Hg.
    rewrite <- Hlen. unfold emitted_ids. apply nth_error_Some. congruence. }
  pose proof (RID S i) as Hr. unfold n_in in Hlt. specialize (Hr Hlt). unfold rho in Hr.
  rewrite Hids in Hr. fold (n_in s2 S) in Hlt. rewrite (iota_nth _ _ Hlt), N2Nat.id in Hr.
  assert (Hi : i2id_fun (ps_ids s2) fid S i = i).
  { assert (G : i2id_fun (ps_ids s2) fid S i = nth (N.to_nat i) (ids_space (ps_ids s2) S) 4294967295%N)
      by (destruct S; try reflexivity; congruence).
    rewrite G, Hids. erewrite nth_error_nth; [|apply iota_nth; exact Hlt]. apply N2Nat.id. }
  rewrite Hi. unfold get_idx, lookup_i in Hr.
  assert (G : id2i_fun (em_x2i e2) lmap2 S i =
              match find (fun p => N.eqb (fst p) i) (space_map (em_x2i e2) S) with Some p => snd p | None => 4294967295%N end)
    by (destruct S; try reflexivity; congruence).
  rewrite G. destruct (find _ _); [congruence|discriminate].
Qed.
Print Assumptions idx_fixed_nonlocal.

(* ====================================================================================== *)
(* C5. (F) from the identity maps, the local indices (C4) and the block types (X3)           *)
(* ====================================================================================== *)
(* a local index written by the first emit is mapped to itself by second parse ; second emit  [C4] *)
Definition Lidx_holds (ilen : wins -> N) (s1 : pst) (e1 : emitted) (s2 : pst) (e2 : emitted) : Prop :=
  forall id j f1 lf1 ef1 f2 lf2 ef2 evs1 lid,
    aget (m_funcs (ps_m s1)) id = Some f1 -> fn_kind f1 = FK_Local lf1 ->
    get_idx (em_x2i e1) S_func id = Ok j ->
    aget (m_funcs (ps_m s2)) j = Some f2 -> fn_kind f2 = FK_Local lf2 ->
    emit_function (ps_m s1) (em_x2i e1) ilen id lf1 = Ok ef1 ->
    emit_function (ps_m s2) (em_x2i e2) ilen j lf2 = Ok ef2 ->
    lf_log lf1 = Ok evs1 -> In (ERef S_local lid) evs1 ->
    id2i_fun (em_x2i e2) (ef_lmap ef2) S_local
      (i2id_fun (ps_ids s2) j S_local (id2i_fun (em_x2i e1) (ef_lmap ef1) S_local lid))
    = id2i_fun (em_x2i e1) (ef_lmap ef1) S_local lid.
(* the block types written by the first emit are fixed  [X3 bt_shape_fixed + types identity] *)
Definition BT_holds (ilen : wins -> N) (s1 : pst) (e1 : emitted) (s2 : pst) (e2 : emitted) : Prop :=
  forall id j f1 lf1 ef1 f2 lf2 ef2,
    aget (m_funcs (ps_m s1)) id = Some f1 -> fn_kind f1 = FK_Local lf1 ->
    get_idx (em_x2i e1) S_func id = Ok j ->
    aget (m_funcs (ps_m s2)) j = Some f2 -> fn_kind f2 = FK_Local lf2 ->
    emit_function (ps_m s1) (em_x2i e1) ilen id lf1 = Ok ef1 ->
    emit_function (ps_m s2) (em_x2i e2) ilen j lf2 = Ok ef2 ->
    Forall (fun w => match w with
                     | WBlock bt | WLoop bt | WIf bt => nf_bt (cx_of s2 j) (ecx_of e2 (ef_lmap ef2) ilen) bt = bt
                     | _ => True end) (map fst (wb_ops (ef_body ef1))).

Theorem F_from cf ver w ilen s1 e1 s2 e2 :
  two_trips cf ver w ilen s1 e1 s2 e2 -> valid_stream w -> (forall S, rho_id s2 e2 S) ->
  Lidx_holds ilen s1 e1 s2 e2 -> BT_holds ilen s1 e1 s2 e2 -> F_holds ilen s1 e1 s2 e2.
Proof.
  intros TT V RID HL HB id j f1 lf1 ef1 f2 lf2 ef2 Hg1 Hk1 Hj Hg2 Hk2 He1 He2. pose proof TT as (P1 & E1 & P2 & E2).
  specialize (HB _ _ _ _ _ _ _ _ Hg1 Hk1 Hj Hg2 Hk2 He1 He2).
  destruct (first_trip_function _ _ _ _ _ _ _ _ _ _ V P1 Hg1 Hk1 He1)
    as (t & ety & l & eloc & evs & decls & lmap & st & A1 & A2 & A3 & A4 & A5 & A6 & A7 & A8 & A9 & A10).
  pose proof (fun lid => HL id j f1 lf1 ef1 f2 lf2 ef2 evs lid Hg1 Hk1 Hj Hg2 Hk2 He1 He2 A5) as HL'. rewrite A10 in HL'. clear HL.
  rewrite A9 in *. cbn [wb_ops] in *.
  destruct (WV.Proofs.ModFix10.emitted_ops_structured _ _ _ _ _ _ _ _ _ _ A2 (WV.Proofs.ModFix10.enc_ok_all _ _) A3 A8)
    as (_ & _ & _ & _ & _ & Hfst & _ & _).
  rewrite Hfst in *. rewrite Forall_forall in *. intros x Hx. specialize (HB x Hx).
  destruct x as [o|bt|bt|bt| | | | | |]; cbn [WV.Proofs.Fixpoint.ins_fixed]; try exact I; try exact HB.
  apply (WV.Proofs.ModFix14.emitted_op_fixed _ _ _ _ _ _ _ _ _ _ (cx_of s2 j) (ecx_of e2 (ef_lmap ef2) ilen) o A2 A3 A8 Hx).
  apply WV.Proofs.ModFix14.map_idx_fixed. intros s i Hsi.
  pose proof A5 as Hd. unfold lf_log in Hd. rewrite A4 in Hd.
  destruct (WV.Proofs.ModFix14.emitted_refs _ _ _ _ _ _ _ _ _ _ _ _ o A2 A3 A8 Hd Hx s i Hsi) as (rid & Hin & ->).
  cbn [cx_of ecx_of ex_id2i px_i2id].
  destruct (N.eq_dec (match s with S_local => 0 | _ => 1 end) 0)%N as [Es|Es].
  - assert (s = S_local) by (destruct s; try reflexivity; discriminate). subst s.
    exact (HL' rid Hin).
  - assert (Hs : s <> S_local) by (intros ->; apply Es; reflexivity).
    eapply (idx_fixed_nonlocal _ _ _ _ _ _ _ _ TT RID s rid); [exact Hs|].
    apply (refs_ok_get _ _ _ _ _ A7 Hin Hs).
Qed.
Print Assumptions F_from.

(* ====================================================================================== *)
(* block types: (W) and (F) components from ModFix14 X3, given the types-level statement     *)
(* ====================================================================================== *)
(* a non-entry multi-value type of the first module, found by find_type, sits in the second module at the
   position the first emit wrote for it, is found there by find_type, and is re-emitted at the same index
   [from ModFix3.reparse_types_arena / out_types_keys / types_identity + distinctness of emitted types] *)
Definition TY_holds (s1 : pst) (e1 : emitted) (s2 : pst) (e2 : emitted) : Prop :=
  forall id j lmap1 lmap2 ty ps' rs',
    nth_N (types_list (ps_m s1)) ty = Some (ps', rs', false) ->
    existing (cx_of s1 id) ps' rs' = Some (ST_Multi ty) ->
    exists ty2 en,
      nth_N (types_list (ps_m s2)) (i2id_fun (ps_ids s2) j S_type (id2i_fun (em_x2i e1) lmap1 S_type ty)) = Some (ps', rs', en) /\
      existing (cx_of s2 j) ps' rs' = Some (ST_Multi ty2) /\
      id2i_fun (em_x2i e2) lmap2 S_type ty2 = id2i_fun (em_x2i e1) lmap1 S_type ty.

Lemma bt_both cf ver w ilen s1 e1 s2 e2 id j f1 lf1 ef1 lmap2 :
  two_trips cf ver w ilen s1 e1 s2 e2 -> valid_stream w -> TY_holds s1 e1 s2 e2 ->
  aget (m_funcs (ps_m s1)) id = Some f1 -> fn_kind f1 = FK_Local lf1 ->
  emit_function (ps_m s1) (em_x2i e1) ilen id lf1 = Ok ef1 ->
  Forall (fun w => match w with
                   | WBlock bt | WLoop bt | WIf bt =>
                       nf_bt (cx_of s2 j) (ecx_of e2 lmap2 ilen) bt = bt /\ bt_ok (cx_of s2 j) bt
                   | _ => True end) (map fst (wb_ops (ef_body ef1))).
Proof.
  intros (P1 & E1 & P2 & E2) V HT Hg1 Hk1 He1.
  destruct (first_trip_function _ _ _ _ _ _ _ _ _ _ V P1 Hg1 Hk1 He1)
    as (t & ety & l & eloc & evs & decls & lmap & st & A1 & A2 & A3 & A4 & A5 & A6 & A7 & A8 & A9 & A10).
  rewrite A9. cbn [wb_ops].
  destruct (WV.Proofs.ModFix10.emitted_ops_structured _ _ _ _ _ _ _ _ _ _ A2 (WV.Proofs.ModFix10.enc_ok_all _ _) A3 A8)
    as (_ & _ & _ & _ & _ & Hfst & _ & _).
  rewrite Hfst. pose proof (WV.Proofs.ModFix14.emitted_bts _ _ _ _ _ _ _ _ _ _ A2 A3 A8) as HB.
  rewrite Forall_forall in *. intros x Hx. specialize (HB x Hx).
  assert (K : forall b, WV.Proofs.ModFix14.bt_shape (cx_of s1 id) (ecx_of e1 lmap ilen) b ->
                        nf_bt (cx_of s2 j) (ecx_of e2 lmap2 ilen) b = b /\ bt_ok (cx_of s2 j) b).
  { intros b Hb. apply (WV.Proofs.ModFix14.bt_shape_fixed _ _ _ _ _ Hb). intros ty ps' rs' _ Hn Hex.
    cbn [cx_of ecx_of px_types px_i2id ex_id2i] in *. apply (HT id j lmap lmap2 ty ps' rs' Hn Hex). }
  destruct x; try exact I; apply K; exact HB.
Qed.

Theorem W_bt_from_TY cf ver w ilen s1 e1 s2 e2 :
  two_trips cf ver w ilen s1 e1 s2 e2 -> valid_stream w -> TY_holds s1 e1 s2 e2 -> W_bt_holds ilen s1 e1 s2.
Proof.
  intros TT V HT id j f1 lf1 ef1 Hg Hk Hj He.
  pose proof (bt_both _ _ _ _ _ _ _ _ id j f1 lf1 ef1 [] TT V HT Hg Hk He) as H.
  eapply Forall_impl; [|exact H]. cbn beta. intros x Hx. destruct x; try exact I; apply Hx.
Qed.
Theorem BT_from_TY cf ver w ilen s1 e1 s2 e2 :
  two_trips cf ver w ilen s1 e1 s2 e2 -> valid_stream w -> TY_holds s1 e1 s2 e2 -> BT_holds ilen s1 e1 s2 e2.
Proof.
  intros TT V HT id j f1 lf1 ef1 f2 lf2 ef2 Hg1 Hk1 Hj Hg2 Hk2 He1 He2.
  pose proof (bt_both _ _ _ _ _ _ _ _ id j f1 lf1 ef1 (ef_lmap ef2) TT V HT Hg1 Hk1 He1) as H.
  eapply Forall_impl; [|exact H]. cbn beta. intros x Hx. destruct x; try exact I; apply Hx.
Qed.
Print Assumptions W_bt_from_TY.
Print Assumptions BT_from_TY.

(* ====================================================================================== *)
(* assembly: what holds under (V) with the remaining named premises                         *)
(* ====================================================================================== *)
Theorem W_holds_15 cf ver w ilen s1 e1 s2 e2 :
  two_trips cf ver w ilen s1 e1 s2 e2 -> valid_stream w -> TY_holds s1 e1 s2 e2 -> W_holds ilen s1 e1 s2.
Proof. intros TT V HT. eapply W_from_bt; [exact TT|exact V|eapply W_bt_from_TY; eauto]. Qed.

Theorem sizes_stable_15 cf ver w ilen s1 e1 s2 e2 :
  two_trips cf ver w ilen s1 e1 s2 e2 -> valid_stream w -> TY_holds s1 e1 s2 e2 ->
  WV.Proofs.ModFix6.sizes_stable s1 e1 s2.
Proof.
  intros TT V HT. eapply sizes_stable_holds; [exact TT|exact V|eapply W_holds_15; eauto|exact second_size_W_stmt_holds].
Qed.

Theorem identity_maps_15 cf ver w ilen s1 e1 s2 e2 :
  two_trips cf ver w ilen s1 e1 s2 e2 -> valid_stream w -> TY_holds s1 e1 s2 e2 -> forall S, rho_id s2 e2 S.
Proof. intros TT V HT. eapply identity_maps; [exact TT|eapply sizes_stable_15; eauto]. Qed.

Theorem sg_uses_stable_15 cf ver w ilen s1 e1 s2 e2 :
  two_trips cf ver w ilen s1 e1 s2 e2 -> valid_stream w -> TY_holds s1 e1 s2 e2 ->
  (WV.Proofs.ModFix5.sg_uses (ps_m s2) <-> WV.Proofs.ModFix5.sg_uses (ps_m s1)).
Proof. intros TT V HT. eapply sg_uses_stable; [exact TT|exact V|eapply W_holds_15; eauto]. Qed.

Theorem function_body_stable_15 cf ver w ilen s1 e1 s2 e2 :
  two_trips cf ver w ilen s1 e1 s2 e2 -> valid_stream w -> TY_holds s1 e1 s2 e2 ->
  Lidx_holds ilen s1 e1 s2 e2 -> D_holds ilen s1 e1 s2 e2 ->
  function_body_stable_l ilen s1 e1 s2 e2.
Proof.
  intros TT V HT HL HD. eapply function_body_stable_from; [exact TT|exact V|eapply W_holds_15; eauto| |exact HD].
  eapply F_from; [exact TT|exact V|eapply identity_maps_15; eauto|exact HL|eapply BT_from_TY; eauto].
Qed.

Theorem fix_code_15 cf ver w ilen s1 e1 s2 e2 :
  two_trips cf ver w ilen s1 e1 s2 e2 -> valid_stream w -> TY_holds s1 e1 s2 e2 ->
  Lidx_holds ilen s1 e1 s2 e2 -> D_holds ilen s1 e1 s2 e2 ->
  flat_map code_of (em_secs e2) = flat_map code_of (em_secs e1).
Proof.
  intros TT V HT HL HD. eapply fix_code_from; [exact TT|eapply sizes_stable_15; eauto|eapply function_body_stable_15; eauto].
Qed.
Print Assumptions sizes_stable_15.
Print Assumptions identity_maps_15.
Print Assumptions sg_uses_stable_15.
Print Assumptions fix_code_15.

(* ====================================================================================== *)
(* TY_holds: the types-level statement                                                      *)
(* ====================================================================================== *)
Lemma vlist_eqb_eq : forall a b, vlist_eqb a b = true -> a = b.
Proof.
  induction a as [|x a IH]; intros [|y b] H; cbn [vlist_eqb] in H; try discriminate H; [reflexivity|].
  apply andb_true_iff in H. destruct H as [H1 H2]. unfold valty_eqb in H1. apply N.eqb_eq in H1.
  apply WV.Proofs.SortKeys.valty_code_inj in H1. subst y. f_equal. apply IH. exact H2.
Qed.
Lemma id2i_of_get x lmap s id i : s <> S_local -> get_idx x s id = Ok i -> id2i_fun x lmap s id = i.
Proof.
  intros Hs H. unfold get_idx, lookup_i in H.
  assert (G : id2i_fun x lmap s id = match find (fun p => N.eqb (fst p) id) (space_map x s) with Some p => snd p | None => 4294967295%N end)
    by (destruct s; try reflexivity; congruence).
  rewrite G. destruct (find _ _); [congruence|discriminate].
Qed.

Theorem TY_holds_holds cf ver w ilen s1 e1 s2 e2 : two_trips cf ver w ilen s1 e1 s2 e2 -> TY_holds s1 e1 s2 e2.
Proof.
  intros TT id j lmap1 lmap2 ty ps' rs' Hn Hex. pose proof TT as (P1 & E1 & P2 & E2).
  apply WV.Proofs.Fixpoint.existing_multi in Hex. destruct Hex as [_ Hshape].
  (* the type in the first module *)
  pose proof (parseM_ids _ _ _ _ P1) as I1. unfold ids_consistent in I1.
  assert (D1 : dead (Arena.arena (m_types (ps_m s1))) = []) by (decompose [and] I1; assumption). clear I1.
  pose proof (parseM_ids _ _ _ _ P2) as I2. unfold ids_consistent in I2.
  assert (D2 : dead (Arena.arena (m_types (ps_m s2))) = []) by (decompose [and] I2; assumption). clear I2.
  unfold nth_N in Hn. rewrite types_list_key, nth_error_map in Hn.
  destruct (nth_error (items (Arena.arena (m_types (ps_m s1)))) (N.to_nat ty)) as [t1|] eqn:Ht1; [|discriminate].
  cbn [option_map] in Hn. unfold tkey in Hn. injection Hn as Hp1 Hr1 Hen1.
  assert (G1 : types_get (ps_m s1) ty = Some t1) by (unfold types_get; rewrite aset_index_nodead by exact D1; exact Ht1).
  apply WV.Proofs.Totality.types_get_live in G1.
  assert (In1 : In (ty, t1) (emitted_types (ps_m s1))).
  { unfold emitted_types. eapply Permutation_in; [apply Permutation_sym, WV.Proofs.Order.sort_types_perm|].
    apply filter_In. split; [exact G1|]. cbn [snd]. rewrite Hen1. reflexivity. }
  destruct (In_nth_error _ _ In1) as [i0 Hi0].
  destruct (emit_order_types _ _ _ _ E1) as [Eo Wt].
  assert (Gi : get_idx (em_x2i e1) S_type ty = Ok (N.of_nat i0)).
  { apply (x2i_positions _ S_type _ _ Wt). cbn [space_map]. rewrite Eo, Nat2N.id, nth_error_map, Hi0. reflexivity. }
  assert (NL : S_type <> S_local) by discriminate.
  rewrite (id2i_of_get _ lmap1 _ _ _ NL Gi).
  pose proof (WV.Proofs.ModFix3.out_types_keys _ _ _ E1) as OK1.
  assert (Hlt : i0 < length (flat_map types_of (em_secs e1))).
  { rewrite OK1, map_length. apply nth_error_Some. congruence. }
  assert (HT1 : nth_error (flat_map types_of (em_secs e1)) i0 = Some (ps', rs')).
  { rewrite OK1, nth_error_map, Hi0. cbn [option_map]. unfold WV.Proofs.SortKeys.ty_key. cbn [snd]. congruence. }
  (* the second module *)
  destruct (WV.Proofs.ModFix3.reparse_types_arena _ _ _ _ _ _ _ P1 E1 P2) as (R1 & R2 & R3).
  set (L2 := filter (fun p => negb (ty_entry (snd p))) (live_types (ps_m s2))) in *.
  assert (HL2 : exists t2, nth_error L2 i0 = Some (N.of_nat i0, t2) /\ WV.Proofs.SortKeys.ty_key (N.of_nat i0, t2) = (ps', rs')).
  { destruct (nth_error L2 i0) as [[a t2]|] eqn:E.
    - exists t2. assert (Ha : nth_error (map fst L2) i0 = Some a) by (rewrite nth_error_map, E; reflexivity).
      rewrite R2, (iota_nth _ _ Hlt) in Ha. injection Ha as <-. split; [reflexivity|].
      assert (Hk : nth_error (map WV.Proofs.SortKeys.ty_key L2) i0 = Some (WV.Proofs.SortKeys.ty_key (N.of_nat i0, t2)))
        by (rewrite nth_error_map, E; reflexivity).
      rewrite R1, HT1 in Hk. congruence.
    - apply nth_error_None in E. rewrite <- (map_length fst L2), R2, iota_length in E. lia. }
  destruct HL2 as (t2 & HL2 & Hkey2). apply nth_error_In in HL2. apply filter_In in HL2. destruct HL2 as [Hlive2 Hne2].
  cbn [snd] in Hne2. apply negb_true_iff in Hne2.
  apply WV.Proofs.Totality.live_types_get in Hlive2. unfold types_get in Hlive2.
  rewrite aset_index_nodead, Nat2N.id in Hlive2 by exact D2.
  unfold WV.Proofs.SortKeys.ty_key in Hkey2. cbn [snd] in Hkey2. injection Hkey2 as Hp2 Hr2.
  assert (Hpos : nth_error (types_list (ps_m s2)) i0 = Some (ps', rs', false)).
  { rewrite types_list_key, nth_error_map, Hlive2. cbn [option_map]. unfold tkey. congruence. }
  assert (Hi2 : i2id_fun (ps_ids s2) j S_type (N.of_nat i0) = N.of_nat i0).
  { unfold i2id_fun. rewrite R3, Nat2N.id. erewrite nth_error_nth; [reflexivity|apply iota_nth; exact Hlt]. }
  rewrite Hi2.
  destruct (find_type (cx_of s2 j) ps' rs') as [ty2|] eqn:Ef.
  2:{ exfalso. unfold find_type in Ef. cbn [cx_of px_types] in Ef. eapply find_type_from_some; eauto. }
  assert (Ety2 : ty2 = N.of_nat i0).
  { unfold find_type in Ef. cbn [cx_of px_types] in Ef. apply WV.Proofs.Fixpoint.find_type_from_hit in Ef.
    destruct Ef as (p & r & Hnth & _ & Ep & Er). rewrite N.sub_0_r in Hnth.
    apply vlist_eqb_eq in Ep. apply vlist_eqb_eq in Er. subst p r.
    rewrite types_list_key, nth_error_map in Hnth.
    destruct (nth_error (items (Arena.arena (m_types (ps_m s2)))) (N.to_nat ty2)) as [t2'|] eqn:Ht2'; [|discriminate].
    cbn [option_map] in Hnth. unfold tkey in Hnth. injection Hnth as Hp' Hr' He'.
    destruct (parseM_TU _ _ _ _ P2) as [_ TU2].
    assert (N.to_nat ty2 = i0); [|lia].
    apply (TU2 _ _ _ _ Ht2' Hlive2). apply mtype_eqb_spec. repeat split; congruence. }
  subst ty2. exists (N.of_nat i0), false. split; [unfold nth_N; rewrite Nat2N.id; exact Hpos|]. split.
  - apply WV.Proofs.Fixpoint.existing_multi. split; [exact Ef|exact Hshape].
  - apply id2i_of_get; [exact NL|].
    apply (WV.Proofs.ModFix3.types_get_idx _ _ _ _ _ _ _ _ TT). rewrite Nat2N.id. exact Hlt.
Qed.
Print Assumptions TY_holds_holds.

(* ====================================================================================== *)
(* final packaging: TY_holds discharged                                                     *)
(* ====================================================================================== *)
Theorem W_holds_V cf ver w ilen s1 e1 s2 e2 :
  two_trips cf ver w ilen s1 e1 s2 e2 -> valid_stream w -> W_holds ilen s1 e1 s2.
Proof. intros TT V. eapply W_holds_15; [exact TT|exact V|eapply TY_holds_holds; exact TT]. Qed.

Theorem sizes_stable_V cf ver w ilen s1 e1 s2 e2 :
  two_trips cf ver w ilen s1 e1 s2 e2 -> valid_stream w -> WV.Proofs.ModFix6.sizes_stable s1 e1 s2.
Proof. intros TT V. eapply sizes_stable_15; [exact TT|exact V|eapply TY_holds_holds; exact TT]. Qed.

Theorem identity_maps_V cf ver w ilen s1 e1 s2 e2 :
  two_trips cf ver w ilen s1 e1 s2 e2 -> valid_stream w -> forall S, rho_id s2 e2 S.
Proof. intros TT V. eapply identity_maps_15; [exact TT|exact V|eapply TY_holds_holds; exact TT]. Qed.

Theorem sg_uses_stable_V cf ver w ilen s1 e1 s2 e2 :
  two_trips cf ver w ilen s1 e1 s2 e2 -> valid_stream w ->
  (WV.Proofs.ModFix5.sg_uses (ps_m s2) <-> WV.Proofs.ModFix5.sg_uses (ps_m s1)).
Proof. intros TT V. eapply sg_uses_stable_15; [exact TT|exact V|eapply TY_holds_holds; exact TT]. Qed.

Theorem function_body_stable_V cf ver w ilen s1 e1 s2 e2 :
  two_trips cf ver w ilen s1 e1 s2 e2 -> valid_stream w ->
  Lidx_holds ilen s1 e1 s2 e2 -> D_holds ilen s1 e1 s2 e2 -> function_body_stable_l ilen s1 e1 s2 e2.
Proof. intros TT V HL HD. eapply function_body_stable_15; eauto. eapply TY_holds_holds; exact TT. Qed.

Theorem code_fix_15 cf ver w ilen s1 e1 s2 e2 :
  two_trips cf ver w ilen s1 e1 s2 e2 -> valid_stream w ->
  Lidx_holds ilen s1 e1 s2 e2 -> D_holds ilen s1 e1 s2 e2 ->
  WV.Proofs.ModFix6.sizes_stable s1 e1 s2 /\
  flat_map code_of (em_secs e2) = flat_map code_of (em_secs e1) /\
  (WV.Proofs.ModFix5.sg_uses (ps_m s2) <-> WV.Proofs.ModFix5.sg_uses (ps_m s1)) /\
  W_holds ilen s1 e1 s2 /\
  (forall S, rho_id s2 e2 S).
Proof.
  intros TT V HL HD. pose proof (TY_holds_holds _ _ _ _ _ _ _ _ TT) as HT.
  split; [eapply sizes_stable_V; eauto|]. split; [eapply fix_code_15; eauto|].
  split; [eapply sg_uses_stable_V; eauto|]. split; [eapply W_holds_V; eauto|eapply identity_maps_V; eauto].
Qed.
Print Assumptions W_holds_V.
Print Assumptions sizes_stable_V.
Print Assumptions identity_maps_V.
Print Assumptions sg_uses_stable_V.
Print Assumptions function_body_stable_V.
Print Assumptions code_fix_15.

(* ====================================================================================== *)
(* helper for C4: the used locals of the re-parsed function                                 *)
(* ====================================================================================== *)
Theorem used_pair cf ver w ilen s1 e1 s2 e2 id j f1 lf1 f2 lf2 ef1 evs1 :
  two_trips cf ver w ilen s1 e1 s2 e2 -> valid_stream w ->
  get_idx (em_x2i e1) S_func id = Ok j ->
  aget (m_funcs (ps_m s1)) id = Some f1 -> fn_kind f1 = FK_Local lf1 ->
  aget (m_funcs (ps_m s2)) j = Some f2 -> fn_kind f2 = FK_Local lf2 ->
  emit_function (ps_m s1) (em_x2i e1) ilen id lf1 = Ok ef1 -> lf_log lf1 = Ok evs1 ->
  exists evs2, lf_log lf2 = Ok evs2 /\
    used_of_log evs2 = map (i2id_fun (ps_ids s2) j S_local)
                           (map (id2i_fun (em_x2i e1) (ef_lmap ef1) S_local) (used_of_log evs1)).
Proof.
  intros TT V Hj Hg1 Hk1 Hg2 Hk2 He1 Hl1. pose proof TT as (P1 & E1 & P2 & E2).
  pose proof (W_holds_V _ _ _ _ _ _ _ _ TT V) as HW.
  destruct (emitM_x2i _ _ _ _ E1) as (fs1 & Hfs1 & _).
  destruct (second_trip_functions _ _ _ _ _ _ _ _ _ TT Hfs1 _ _ _ _ _ _ Hj Hg1 Hk1 Hg2 Hk2)
    as (k & ef1' & t2 & ety2 & _ & _ & _ & _ & He1' & Ht2 & Hety2 & Hen2 & Hpb2 & _).
  rewrite He1 in He1'. injection He1' as <-.
  destruct (first_trip_function _ _ _ _ _ _ _ _ _ _ V P1 Hg1 Hk1 He1)
    as (t & ety & l & eloc & evs & decls & lmap & st & A1 & A2 & A3 & A4 & A5 & A6 & A7 & A8 & A9 & A10).
  rewrite Hl1 in A5. injection A5 as <-.
  specialize (HW _ _ _ _ _ Hg1 Hk1 Hj He1). rewrite A9 in HW, Hpb2. cbn [wb_ops] in HW, Hpb2. rewrite A10.
  destruct (WV.Proofs.ModFix10.emitted_ops_shape _ _ _ _ _ _ _ _ _ _ (cx_of s2 j) A2 A3 A8 HW)
    as (L1 & eloc1 & Hops & HW1 & _ & Hp2).
  fold (cx_of s2 j) in Hpb2. pose proof Hpb2 as Hpb2'. rewrite Hp2 in Hpb2'. injection Hpb2' as Har2.
  pose proof (parsed_log _ _ _ _ _ HW1 (eq_sym Har2) Hen2) as Hlog2.
  eexists. split; [exact Hlog2|].
  pose proof Hlog2 as Hd2. unfold lf_log in Hd2. rewrite Hen2 in Hd2.
  pose proof Hl1 as Hd1. unfold lf_log in Hd1. rewrite A4 in Hd1.
  rewrite (WV.Proofs.ModFix14.second_used_W _ _ _ _ _ _ _ _ _ _ (cx_of s2 j) ety2 (ty_results t2) (lf_arena lf2) _ _
             A2 A3 A8 HW Hpb2 Hd2).
  destruct (WV.Proofs.ModFix10.emitted_ops_structured _ _ _ _ _ _ _ _ _ _ A2 (WV.Proofs.ModFix10.enc_ok_all _ _) A3 A8)
    as (_ & _ & _ & _ & _ & Hfst & _ & _).
  rewrite Hfst.
  destruct (WV.Proofs.ModFix10.trip_locals _ _ _ _ _ _ _ _ _ _ _ _ A2 (WV.Proofs.ModFix10.enc_ok_all _ _) A3 A8 Hd1) as [TL _].
  rewrite TL. reflexivity.
Qed.
Print Assumptions used_pair.
