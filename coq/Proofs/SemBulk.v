(* C01 / C06, BULK MEMORY: the machine of Model/SemBulk.v (the module machine of Model/SemMod.v plus memory.fill / memory.copy /
   memory.init / data.drop and the DATA INDEX SPACE) gives the OUTPUT module - bodies in normal form, re-encoded; functions / types /
   globals / memories / tables / locals renumbered as in Proofs/SemMod.v AND the data segments renumbered, unused passive ones
   deleted - exactly the behaviour of the input module.
   1. the renaming of the four operators, from the generated tables ([nf_op_memory_init] ...), and THE OPERATOR-LEVEL HYPOTHESIS of
      the abstract theorem for them ([bulk_op_renamed]): under [dslot' (rd d) = dslot d] and [mslot' (rm m) = mslot m] the renamed
      operator does in the output environment what the original does in the input environment;
   1b. the three memory writers meet their specification ([mem_copy_spec]: whatever the overlap, as if the source had been read
      completely first; [mem_fill_spec], [mem_init_spec]): bounds checked first, a trap writes nothing;
   2. tools: outside the four operators and the calls the machine IS the module machine, lifted ([bulk_sem_other]); the frame lemma
      for the locals ([run_body_b_frames]);
   3. THE THEOREM on environments ([bulk_roundtrip_equiv_env]) by induction on the call depth; the DELEGATED operators are handled by
      [op_sem_renamed] of Proofs/SemMod.v - nothing about the 98 core operators is re-proved;
   4. modules ([bulk_roundtrip_equiv]: functions reordered by [rf], data segments renumbered by [rdm], unused ones possibly deleted);
   5. [dropping_unused_data_is_invisible] (from [run_mod_b_datas_ext]);
   6. the worked example ([ExB]), the theorem instantiated ([RTB]), [renumbering_without_renaming_differs];
   7. the GC theorem at the level of instantiation ([inst_dropping_unused_data], [inst_then_call_dropping_unused_data]): one unused
      passive segment deleted, the remaining ones renumbered, the operators renamed;
   8. instantiation of the renamed module in full ([inst_b_roundtrip], [inst_b_then_call_roundtrip]): the analogue of
      [inst_roundtrip] of Proofs/Inst.v for [instantiate_b], the data segments of the output any list that writes the same bytes,
      gives the active segments the same identities and holds the bytes of every segment a live part mentions. *)
From Coq Require Import List NArith ZArith Bool Lia. Import ListNotations.
From WV Require Import Gen.Ops Model.Common Model.IR Model.ParseFn Model.ParseSpec Model.EmitFn
  Model.BodySpec Model.Sem Model.SemCore Model.SemMod Model.Inst Model.SemBulk.
From WV Require Import Proofs.ParseFn Proofs.Sem Proofs.Fixpoint Proofs.ModFix10 Proofs.SemCore Proofs.SemMod Proofs.Inst.

(* ================================================================== 1. the four operators *)
Definition is_bulk_w (w : wins) : bool := match w with WOp o => is_bulk o | _ => false end.
Definition data_index_of (o : wop) : option N := match o with W_MemoryInit d _ | W_DataDrop d => Some d | _ => None end.
Definition bulk_mems_of (o : wop) : list N :=
  match o with W_MemoryInit _ m => [m] | W_MemoryCopy a b => [a; b] | W_MemoryFill m => [m] | _ => [] end.
(* the data indices / the memory indices of bulk operators that the operators of a body mention *)
Definition datas_used (l : list rt) : list N :=
  flat_map (fun o => match data_index_of o with Some d => [d] | None => [] end) (ops_of l).
Definition bulk_mems_used (l : list rt) : list N := flat_map bulk_mems_of (ops_of l).
Lemma datas_used_in l o d : In o (ops_of l) -> data_index_of o = Some d -> In d (datas_used l).
Proof. intros Ho Hd. unfold datas_used. apply in_flat_map. exists o. split; [exact Ho|]. rewrite Hd. left. reflexivity. Qed.
Lemma bulk_mems_used_in l o m : In o (ops_of l) -> In m (bulk_mems_of o) -> In m (bulk_mems_used l).
Proof. intros Ho Hm. unfold bulk_mems_used. apply in_flat_map. exists o. split; assumption. Qed.

(* the generated codec keeps "being one of the four" (same sweep as [core_codec] / [call_codec]) *)
Lemma bulk_codec : forall i2id id2i o p w, decode_plain i2id o = Some p -> encode_plain id2i p = Some w ->
  is_bulk w = is_bulk o.
Proof.
  intros i2id id2i o p w H H0.
  destruct o; cbn [decode_plain] in H;
  repeat match type of H with match ?x with _ => _ end = _ => destruct x end;
  try discriminate H; injection H as <-; cbn [encode_plain] in H0;
  repeat match type of H0 with match ?x with _ => _ end = _ => destruct x end;
  try discriminate H0; injection H0 as <-; reflexivity.
Qed.

Section RenBulk.
  Variable cx : pctx.
  Variable ecx : ectx.
  (* the renumbering of the data segments induced by decode-then-encode *)
  Definition rd (i : N) : N := ex_id2i ecx S_data (px_i2id cx S_data i).

  (* per constructor, from the generated tables *)
  Lemma nf_op_memory_init d m : nf_op cx ecx (W_MemoryInit d m) = WOp (W_MemoryInit (rd d) (rm cx ecx m)).
  Proof. reflexivity. Qed.
  Lemma nf_op_data_drop d : nf_op cx ecx (W_DataDrop d) = WOp (W_DataDrop (rd d)).
  Proof. reflexivity. Qed.
  Lemma nf_op_memory_copy a b : nf_op cx ecx (W_MemoryCopy a b) = WOp (W_MemoryCopy (rm cx ecx a) (rm cx ecx b)).
  Proof. reflexivity. Qed.
  Lemma nf_op_memory_fill m : nf_op cx ecx (W_MemoryFill m) = WOp (W_MemoryFill (rm cx ecx m)).
  Proof. reflexivity. Qed.

  (* an operator that is not one of the four is not re-encoded as one of them *)
  Lemma nf_op_nonbulk o : is_bulk o = false -> is_bulk_w (nf_op cx ecx o) = false.
  Proof.
    intros H. unfold nf_op, dec. destruct (decode_plain (px_i2id cx) o) as [p|] eqn:Hd.
    - destruct (encode_plain (ex_id2i ecx) p) as [w|] eqn:He; [|reflexivity].
      cbn [is_bulk_w]. rewrite (bulk_codec _ _ _ _ _ Hd He). exact H.
    - reflexivity.
  Qed.

  (* THE OPERATOR-LEVEL HYPOTHESIS of the abstract theorem ([nf_equiv_renamed_on], first premise) for the four operators: the
     slot maps compensate the renumberings of the indices the operator mentions, and the identity it reaches names the same bytes *)
  Theorem bulk_op_renamed : forall (E E' : benv) rb rb' cur o s, is_bulk o = true ->
    (forall d, data_index_of o = Some d -> be_dslot E' (rd d) = be_dslot E d) ->
    (forall d, data_index_of o = Some d -> be_datas E' (be_dslot E d) = be_datas E (be_dslot E d)) ->
    (forall m, In m (bulk_mems_of o) -> me_mslot (be_menv E') (rm cx ecx m) = me_mslot (be_menv E) m) ->
    bulk_sem E' rb' cur (nf_op cx ecx o) s = bulk_sem E rb cur (WOp o) s.
  Proof.
    intros E E' rb rb' cur o s Hb Hd Hbs Hm. destruct o; try discriminate Hb.
    - rewrite nf_op_memory_init. cbn [bulk_sem bulk_op]. rewrite (Hd _ eq_refl), (Hbs _ eq_refl), (Hm a_mem); [reflexivity|cbn; auto].
    - rewrite nf_op_data_drop. cbn [bulk_sem bulk_op]. rewrite (Hd _ eq_refl), (Hbs _ eq_refl). reflexivity.
    - rewrite nf_op_memory_copy. cbn [bulk_sem bulk_op]. rewrite (Hm a_dst_mem), (Hm a_src_mem); [reflexivity|cbn; auto|cbn; auto].
    - rewrite nf_op_memory_fill. cbn [bulk_sem bulk_op]. rewrite (Hm a_mem); [reflexivity|cbn; auto].
  Qed.
End RenBulk.

(* ================================================================== 1b. the memory writers meet their specification *)
Lemma mget_mod a : forall m, (mget a m mod 256 = mget a m)%N.
Proof.
  induction m as [|[a0 b0] m IH]; cbn [mget]; [reflexivity|].
  destruct (a =? a0)%N; [apply N.mod_mod; discriminate|exact IH].
Qed.
Lemma mget_mset a b x : forall m, mget x (mset a b m) = if (x =? a)%N then (b mod 256)%N else mget x m.
Proof.
  induction m as [|[a0 b0] m IH]; cbn [mset mget].
  - destruct (x =? a)%N; reflexivity.
  - destruct (N.eqb_spec a a0) as [->|Hne]; cbn [mget].
    + destruct (N.eqb_spec x a0); reflexivity.
    + rewrite IH. destruct (N.eqb_spec x a0) as [->|_]; [|reflexivity].
      destruct (N.eqb_spec a0 a); [congruence|reflexivity].
Qed.
Definition within (d n x : N) : bool := ((d <=? x) && (x <? d + n))%N.

(* memory.fill: the range holds the byte, everything else is unchanged *)
Lemma fill_bytes_spec v : forall n a m x,
  mget x (fill_bytes n a v m) = if within a (N.of_nat n) x then (v mod 256)%N else mget x m.
Proof.
  unfold within. induction n as [|n IH]; intros a m x; cbn [fill_bytes].
  - destruct (N.leb_spec a x), (N.ltb_spec x (a + N.of_nat 0)); cbn [andb]; try reflexivity; lia.
  - rewrite IH, mget_mset.
    destruct (N.leb_spec (a + 1) x), (N.ltb_spec x (a + 1 + N.of_nat n)), (N.leb_spec a x), (N.ltb_spec x (a + N.of_nat (S n))), (N.eqb_spec x a);
      cbn [andb]; try reflexivity; lia.
Qed.
(* memory.init: the range holds the bytes of the list *)
Lemma write_bytes_spec : forall l a m x,
  mget x (write_bytes a l m) = if within a (N.of_nat (length l)) x then (nth (N.to_nat (x - a)) l 0 mod 256)%N else mget x m.
Proof.
  unfold within. induction l as [|b l IH]; intros a m x; cbn [write_bytes length].
  - destruct (N.leb_spec a x), (N.ltb_spec x (a + N.of_nat 0)); cbn [andb]; try reflexivity; lia.
  - rewrite IH, mget_mset.
    destruct (N.leb_spec (a + 1) x), (N.ltb_spec x (a + 1 + N.of_nat (length l))), (N.leb_spec a x), (N.ltb_spec x (a + N.of_nat (S (length l)))), (N.eqb_spec x a);
      cbn [andb]; try reflexivity; try lia.
    + replace (N.to_nat (x - a)) with (S (N.to_nat (x - (a + 1)))) by lia. reflexivity.
    + subst x. rewrite N.sub_diag. cbn [N.to_nat nth]. apply N.mod_mod. discriminate.
Qed.
(* memory.copy, low-to-high, when the destination is not above the source: AS IF THE SOURCE HAD BEEN READ COMPLETELY FIRST *)
Lemma copy_fwd_spec : forall n d s m x, (d <= s)%N ->
  mget x (copy_fwd n d s m) = if within d (N.of_nat n) x then mget (s + (x - d)) m else mget x m.
Proof.
  unfold within. induction n as [|n IH]; intros d s m x Hds; cbn [copy_fwd].
  - destruct (N.leb_spec d x), (N.ltb_spec x (d + N.of_nat 0)); cbn [andb]; try reflexivity; lia.
  - rewrite IH by lia. rewrite !mget_mset.
    destruct (N.leb_spec (d + 1) x), (N.ltb_spec x (d + 1 + N.of_nat n)), (N.leb_spec d x), (N.ltb_spec x (d + N.of_nat (S n))), (N.eqb_spec x d);
      cbn [andb]; try reflexivity; try lia.
    + destruct (N.eqb_spec (s + 1 + (x - (d + 1))) d); [lia|]. f_equal. lia.
    + subst x. rewrite N.sub_diag, N.add_0_r. apply mget_mod.
Qed.
(* ... and high-to-low, when the destination is not below the source *)
Lemma copy_bwd_spec : forall n d s m x, (s <= d)%N ->
  mget x (copy_bwd n d s m) = if within d (N.of_nat n) x then mget (s + (x - d)) m else mget x m.
Proof.
  unfold within. induction n as [|n IH]; intros d s m x Hsd; cbn [copy_bwd].
  - destruct (N.leb_spec d x), (N.ltb_spec x (d + N.of_nat 0)); cbn [andb]; try reflexivity; lia.
  - rewrite IH by lia. rewrite !mget_mset.
    destruct (N.leb_spec d x), (N.ltb_spec x (d + N.of_nat n)), (N.ltb_spec x (d + N.of_nat (S n))), (N.eqb_spec x (d + N.of_nat n));
      cbn [andb]; try reflexivity; try lia.
    + destruct (N.eqb_spec (s + (x - d)) (d + N.of_nat n)); [lia|]. reflexivity.
    + subst x. rewrite mget_mod. f_equal. lia.
Qed.

(* THE SPECIFICATION of memory.copy, whatever the overlap: in bounds, the three operands are popped and every byte of the destination
   range holds what the corresponding byte of the source range held BEFORE; nothing else changes; out of bounds it traps with the
   state untouched *)
Theorem mem_copy_spec : forall c n s d k, stk c = VI32 n :: VI32 s :: VI32 d :: k ->
  if ((s + n <=? mem_len c) && (d + n <=? mem_len c))%N then
    exists c', mem_copy 0 0 c = Next c' /\ stk c' = k /\ pages c' = pages c /\ globs c' = globs c /\ locs c' = locs c /\
      forall x, mget x (mem c') = if within d n x then mget (s + (x - d)) (mem c) else mget x (mem c)
  else mem_copy 0 0 c = Halt Trap c.
Proof.
  intros c n s d k Hk. unfold mem_copy. cbn [N.eqb andb]. rewrite Hk.
  destruct ((s + n <=? mem_len c) && (d + n <=? mem_len c))%N; [|reflexivity].
  eexists. split; [reflexivity|]. destruct c as [k0 lo gl la me pg mx]. cbn [with_mem stk pages globs locs mem].
  repeat split. intros x. destruct (N.leb_spec d s) as [Hle|Hgt].
  - rewrite copy_fwd_spec by exact Hle. rewrite Nnat.N2Nat.id. reflexivity.
  - rewrite copy_bwd_spec by lia. rewrite Nnat.N2Nat.id. reflexivity.
Qed.
Theorem mem_fill_spec : forall c n v d k, stk c = VI32 n :: VI32 v :: VI32 d :: k ->
  if (d + n <=? mem_len c)%N then
    exists c', mem_fill 0 c = Next c' /\ stk c' = k /\ pages c' = pages c /\
      forall x, mget x (mem c') = if within d n x then (v mod 256)%N else mget x (mem c)
  else mem_fill 0 c = Halt Trap c.
Proof.
  intros c n v d k Hk. unfold mem_fill. cbn [N.eqb]. rewrite Hk.
  destruct (d + n <=? mem_len c)%N; [|reflexivity].
  eexists. split; [reflexivity|]. destruct c as [k0 lo gl la me pg mx]. cbn [with_mem stk pages mem].
  repeat split. intros x. rewrite fill_bytes_spec, Nnat.N2Nat.id, N.mod_mod by discriminate. reflexivity.
Qed.
Lemma nth_firstn_lt {A} (d0 : A) : forall n l i, (i < n)%nat -> nth i (firstn n l) d0 = nth i l d0.
Proof. induction n as [|n IH]; intros [|y l] [|i] H; cbn [firstn nth]; try reflexivity; try lia. apply IH. lia. Qed.
Lemma nth_skipn_add {A} (d0 : A) : forall s l i, nth i (skipn s l) d0 = nth (s + i) l d0.
Proof. induction s as [|s IH]; intros [|y l] i; cbn [skipn nth plus]; try reflexivity; [destruct i; reflexivity|apply IH]. Qed.
Theorem mem_init_spec : forall c bs n s d k, stk c = VI32 n :: VI32 s :: VI32 d :: k ->
  if ((s + n <=? N.of_nat (length bs)) && (d + n <=? mem_len c))%N then
    exists c', mem_init 0 bs c = Next c' /\ stk c' = k /\ pages c' = pages c /\
      forall x, mget x (mem c') = if within d n x then (nth (N.to_nat (s + (x - d))) bs 0 mod 256)%N else mget x (mem c)
  else mem_init 0 bs c = Halt Trap c.
Proof.
  intros c bs n s d k Hk. unfold mem_init. cbn [N.eqb]. rewrite Hk.
  destruct (N.leb_spec (s + n) (N.of_nat (length bs))) as [Hs|Hs]; cbn [andb]; [|reflexivity].
  destruct (d + n <=? mem_len c)%N; [|reflexivity].
  eexists. split; [reflexivity|]. destruct c as [k0 lo gl la me pg mx]. cbn [with_mem stk pages mem].
  repeat split. intros x. rewrite write_bytes_spec.
  assert (Hl : length (firstn (N.to_nat n) (skipn (N.to_nat s) bs)) = N.to_nat n) by (rewrite firstn_length, skipn_length; lia).
  rewrite Hl, Nnat.N2Nat.id. unfold within. destruct (N.leb_spec d x), (N.ltb_spec x (d + n)); cbn [andb]; try reflexivity.
  f_equal. rewrite nth_firstn_lt by lia. rewrite nth_skipn_add. f_equal. lia.
Qed.

(* ================================================================== 2. tools *)
Definition stuck_rb : N -> list rt -> mst -> res mst halt := fun _ _ _ => Stuck.

(* outside the four operators and the calls the machine IS the module machine (and therefore the core machine), lifted *)
Lemma bulk_sem_other : forall E rb cur w s, is_call_w w = false -> is_bulk_w w = false ->
  bulk_sem E rb cur w s = lift_step_b (snd s) (op_sem (be_menv E) stuck_rb cur w (fst s)).
Proof.
  intros E rb cur w s Hc Hb. destruct w as [o| | | | | | | | |]; try reflexivity.
  destruct o; try reflexivity; try discriminate Hc; discriminate Hb.
Qed.

Lemma marks_unreachable_nonbulk o : marks_unreachable o = true -> is_bulk o = false.
Proof. intros H. destruct o; try discriminate H; reflexivity. Qed.

Lemma bulk_sem_never_falls : forall E rb cur o s, marks_unreachable o = true ->
  exists h s', bulk_sem E rb cur (WOp o) s = Halt h s'.
Proof.
  intros E rb cur o s H.
  rewrite bulk_sem_other by (cbn [is_call_w is_bulk_w]; first [apply marks_unreachable_noncall, H|apply marks_unreachable_nonbulk, H]).
  destruct (op_sem_never_falls (be_menv E) stuck_rb cur o (fst s) H) as (h & c & Hc).
  rewrite Hc. exists h, (c, snd s). reflexivity.
Qed.

(* a body and its live part do the same *)
Lemma run_body_b_live : forall E fuel k id body s, run_body_b E fuel k id (live body) s = run_body_b E fuel k id body s.
Proof.
  intros E fuel k id body s. destruct k as [|k]; [reflexivity|]. cbn [run_body_b]. unfold live.
  apply nf_equiv; try reflexivity. intros o s0 Hu. apply bulk_sem_never_falls, Hu.
Qed.

(* ================================================================== 2b. the locals a body does not mention are irrelevant *)
Definition bstep_map (f : st -> st) (r : step bst halt) : step bst halt :=
  match r with
  | Next s => Next ((f (fst (fst s)), snd (fst s)), snd s)
  | Halt h s => Halt h ((f (fst (fst s)), snd (fst s)), snd s)
  end.
(* same dropped list, same exhaustion flag, same state but for the locals, which agree on [U] *)
Definition Rb (U : list N) (s t : bst) : Prop := snd s = snd t /\ Rm U (fst s) (fst t).

(* the part of [call_fn_b] after the callee has run *)
Definition after_call_b (s : bst) (n : nat) (rs : list valty) (r : res bst halt) : step bst halt :=
  match r with
  | Fall ((c', b'), d') => finish_b s n rs c' b' d'
  | Br O ((c', b'), d') => finish_b s n rs c' b' d'
  | Stop Return ((c', b'), d') => finish_b s n rs c' b' d'
  | Stop Trap ((c', b'), d') => Halt Trap ((back (fst (fst s)) (stk (fst (fst s))) c', b'), d')
  | Fuel => Halt Trap ((fst (fst s), true), snd s)
  | _ => Halt Wrong s
  end.
Lemma call_fn_b_eq E rb id s :
  call_fn_b E rb id s =
  match me_funcs (be_menv E) id with
  | None => Halt Wrong s
  | Some (ti, ls, body) =>
      match me_tys (be_menv E) ti with
      | None => Halt Wrong s
      | Some (ps, rs) =>
          let args := rev (firstn (length ps) (stk (fst (fst s)))) in
          if all_ty ps args then
            after_call_b s (length ps) rs (rb id body ((callee_st (fst (fst s)) (mk_frame (me_lslot (be_menv E) id) args ls), snd (fst s)), snd s))
          else Halt Wrong s
      end
  end.
Proof. reflexivity. Qed.

Lemma after_call_b_relocs L c b d n rs r :
  after_call_b ((relocs L c, b), d) n rs r = bstep_map (relocs L) (after_call_b ((c, b), d) n rs r).
Proof.
  destruct c as [k lo gl la me pg mx].
  destruct r as [[[c' b'] d']|[|j] [[c' b'] d']|[| |] [[c' b'] d']| |]; cbn [after_call_b]; try reflexivity;
    unfold finish_b, finish; cbn [fst snd stk relocs with_locs]; destruct (all_ty rs _); reflexivity.
Qed.

Lemma call_fn_b_relocs E rb id L c b d :
  call_fn_b E rb id ((relocs L c, b), d) = bstep_map (relocs L) (call_fn_b E rb id ((c, b), d)).
Proof.
  rewrite !call_fn_b_eq. cbn [fst snd].
  assert (Hs : stk (relocs L c) = stk c) by (destruct c; reflexivity).
  assert (Hc : forall fr, callee_st (relocs L c) fr = callee_st c fr) by (destruct c; reflexivity).
  destruct (me_funcs (be_menv E) id) as [[[ti ls] body]|]; [|reflexivity].
  destruct (me_tys (be_menv E) ti) as [[ps rs]|]; [|reflexivity].
  cbv zeta. rewrite Hs. destruct (all_ty ps _); [|reflexivity].
  rewrite Hc. apply after_call_b_relocs.
Qed.

Lemma call_ind_b_relocs E rb ti tb L c b d :
  call_ind_b E rb ti tb ((relocs L c, b), d) = bstep_map (relocs L) (call_ind_b E rb ti tb ((c, b), d)).
Proof.
  unfold call_ind_b. cbn [fst snd].
  assert (Hs : stk (relocs L c) = stk c) by (destruct c; reflexivity).
  assert (Hw : forall k, with_stk (relocs L c) k = relocs L (with_stk c k)) by (destruct c; reflexivity).
  rewrite Hs. destruct (me_tslot (be_menv E) tb =? 0)%N; [|reflexivity].
  destruct (stk c) as [|[i|i] k]; try reflexivity.
  destruct (nth_optN i (me_tbl (be_menv E))) as [[id|]|]; try reflexivity.
  destruct (me_funcs (be_menv E) id) as [[[tj ls] body]|]; [|reflexivity].
  destruct (me_tys (be_menv E) ti) as [[ps rs]|]; [|reflexivity].
  destruct (me_tys (be_menv E) tj) as [[ps' rs']|]; [|reflexivity].
  destruct (vlist_eqb ps ps' && vlist_eqb rs rs'); [|reflexivity].
  rewrite Hw. apply call_fn_b_relocs.
Qed.

(* the three memory writers neither look at the locals nor change them *)
Lemma mem_fill_relocs mi L c : mem_fill mi (relocs L c) = step_map (relocs L) (mem_fill mi c).
Proof.
  destruct c as [k lo gl la me pg mx]. unfold mem_fill, mem_len, relocs, trap, wrong.
  cbn [stk locs globs labs mem pages max_pages with_stk with_locs with_mem step_map].
  repeat match goal with |- context [match ?x with _ => _ end] => destruct x end; reflexivity.
Qed.
Lemma mem_copy_relocs md ms L c : mem_copy md ms (relocs L c) = step_map (relocs L) (mem_copy md ms c).
Proof.
  destruct c as [k lo gl la me pg mx]. unfold mem_copy, mem_len, relocs, trap, wrong.
  cbn [stk locs globs labs mem pages max_pages with_stk with_locs with_mem step_map].
  destruct ((md =? 0) && (ms =? 0))%N; [|reflexivity].
  destruct k as [|[n|n] [|[s|s] [|[d|d] k]]]; try reflexivity.
  destruct ((s + n <=? pg * page_size) && (d + n <=? pg * page_size))%N; reflexivity.
Qed.
Lemma mem_init_relocs mi bs L c : mem_init mi bs (relocs L c) = step_map (relocs L) (mem_init mi bs c).
Proof.
  destruct c as [k lo gl la me pg mx]. unfold mem_init, mem_len, relocs, trap, wrong.
  cbn [stk locs globs labs mem pages max_pages with_stk with_locs with_mem step_map].
  destruct (mi =? 0)%N; [|reflexivity].
  destruct k as [|[n|n] [|[s|s] [|[d|d] k]]]; try reflexivity.
  destruct ((s + n <=? N.of_nat (length bs)) && (d + n <=? pg * page_size))%N; reflexivity.
Qed.
Lemma lift_steps_relocs (r : step st halt) f b d :
  lift_step_b d (lift_step b (step_map f r)) = bstep_map f (lift_step_b d (lift_step b r)).
Proof. destruct r; reflexivity. Qed.

Lemma bulk_op_relocs E o L c b d : is_bulk o = true ->
  bulk_op E o ((relocs L c, b), d) = bstep_map (relocs L) (bulk_op E o ((c, b), d)).
Proof.
  intros H. destruct o; try discriminate H; cbn [bulk_op fst snd].
  - destruct (be_datas E (be_dslot E a_data_index)) as [bs|]; [|reflexivity]. rewrite mem_init_relocs. apply lift_steps_relocs.
  - destruct (be_datas E (be_dslot E a_data_index)) as [bs|]; reflexivity.
  - rewrite mem_copy_relocs. apply lift_steps_relocs.
  - rewrite mem_fill_relocs. apply lift_steps_relocs.
Qed.

Section BulkRel.
  Variable E : benv.
  Variable rb : N -> list rt -> bst -> res bst halt.
  Variable U : list N.

  Lemma rel_of_relocs_b (f : bst -> step bst halt) :
    (forall L c b d, f ((relocs L c, b), d) = bstep_map (relocs L) (f ((c, b), d))) ->
    forall s t, Rb U s t -> step_rel bst halt (Rb U) (f s) (f t).
  Proof.
    intros Hf [[c b] d] [[c2 b2] d2] [Hd [Hb (L & HL & Ha)]]. cbn [fst snd] in *. subst d2 b2 c2.
    change (step_rel bst halt (Rb U) (f ((c, b), d)) (f ((relocs L c, b), d))).
    rewrite Hf. pose proof (Hf (locs c) c b d) as Hself. rewrite relocs_self in Hself.
    destruct (f ((c, b), d)) as [[[c' b'] d']|h [[c' b'] d']]; cbn [bstep_map step_rel fst snd] in *.
    - injection Hself as Hself. split; [reflexivity|]. split; [reflexivity|]. exists L. split; [reflexivity|]. cbn [fst]. rewrite Hself. exact Ha.
    - injection Hself as Hself. split; [reflexivity|]. split; [reflexivity|]. split; [reflexivity|]. exists L. split; [reflexivity|]. cbn [fst]. rewrite Hself. exact Ha.
  Qed.

  Lemma bulk_sem_rel : forall cur o s t, (forall i, local_index_of o = Some i -> In (me_lslot (be_menv E) cur i) U) -> Rb U s t ->
    step_rel bst halt (Rb U) (bulk_sem E rb cur (WOp o) s) (bulk_sem E rb cur (WOp o) t).
  Proof.
    intros cur o s t HU HR. destruct (is_call o) eqn:Hc; [|destruct (is_bulk o) eqn:Hb].
    - destruct o; try discriminate Hc; cbn [bulk_sem]; apply rel_of_relocs_b; try exact HR; intros L c b d.
      + apply call_fn_b_relocs.
      + apply call_ind_b_relocs.
    - destruct o; try discriminate Hb; cbn [bulk_sem]; apply rel_of_relocs_b; try exact HR; intros L c b d; apply bulk_op_relocs; reflexivity.
    - rewrite !(bulk_sem_other E rb cur (WOp o)) by assumption.
      destruct HR as [Hd HR]. rewrite Hd.
      pose proof (op_sem_rel (be_menv E) stuck_rb U cur o (fst s) (fst t) HU HR) as Hs.
      destruct (op_sem (be_menv E) stuck_rb cur (WOp o) (fst s)), (op_sem (be_menv E) stuck_rb cur (WOp o) (fst t));
        cbn [step_rel lift_step_b] in *; try contradiction.
      + split; [reflexivity|exact Hs].
      + destruct Hs as [-> Hs]. split; [reflexivity|]. split; [reflexivity|exact Hs].
  Qed.

  Lemma lift_pop_b_rel {A} (f : mst -> option (A * mst)) :
    (forall s t, Rm U s t -> pop_rel mst (Rm U) (f s) (f t)) ->
    forall s t, Rb U s t -> pop_rel bst (Rb U) (lift_pop_b f s) (lift_pop_b f t).
  Proof.
    intros Hf [s d] [t d2] [Hd HR]. cbn [fst snd] in *. subst d2. unfold lift_pop_b. cbn [fst snd].
    pose proof (Hf s t HR) as Hp. destruct (f s) as [[a s']|], (f t) as [[a2 t']|]; cbn [pop_rel] in *; try contradiction; [|exact I].
    destruct Hp as [-> Hp]. split; [reflexivity|]. split; [reflexivity|exact Hp].
  Qed.
  Lemma lift_b_rel (f : mst -> mst) :
    (forall s t, Rm U s t -> Rm U (f s) (f t)) -> forall s t, Rb U s t -> Rb U (lift_b f s) (lift_b f t).
  Proof. intros Hf [s d] [t d2] [Hd HR]. cbn [fst snd] in *. split; [exact Hd|]. apply Hf, HR. Qed.
End BulkRel.

(* THE FRAME LEMMA of the bulk machine: a body run on two frames that agree on the slots of the locals it mentions gives
   related results (same dropped list) *)
Theorem run_body_b_frames : forall E fuel k id body U c F1 F2 b d,
  (forall i, In i (locals_used body) -> In (me_lslot (be_menv E) id i) U) -> agree U F1 F2 ->
  res_rel bst halt (Rb U) (run_body_b E fuel k id body ((callee_st c F1, b), d)) (run_body_b E fuel k id body ((callee_st c F2, b), d)).
Proof.
  intros E fuel k id body U c F1 F2 b d HU Ha. destruct k as [|k]; [exact I|].
  cbn [run_body_b].
  apply (eval_rel bst halt pop_cond_b pop_index_b unwind_b (enter_b (me_tys (be_menv E))) leave_b
           (bulk_sem E (run_body_b E fuel k) id) (arity (me_tys (be_menv E))) (loop_arity (me_tys (be_menv E))) (Rb U)
           (fun o => forall i, local_index_of o = Some i -> In (me_lslot (be_menv E) id i) U)).
  - apply lift_pop_b_rel. apply lift_pop_rel; [apply pop_cond_relocs|].
    intros c0 a c' H. unfold pop_cond in H. destruct (stk c0) as [|[n|n] k0]; try discriminate H. injection H as _ <-. destruct c0; reflexivity.
  - apply lift_pop_b_rel. apply lift_pop_rel; [apply pop_index_relocs|].
    intros c0 a c' H. unfold pop_index in H. destruct (stk c0) as [|[n|n] k0]; try discriminate H. injection H as _ <-. destruct c0; reflexivity.
  - intros n. apply lift_b_rel. apply lift_rel. intros L c0. apply unwind_relocs.
  - intros bt. apply lift_b_rel. apply lift_rel. intros L c0. apply enter_relocs.
  - apply lift_b_rel. apply lift_rel. intros L c0. apply leave_relocs.
  - intros o Ho s t HR. apply bulk_sem_rel; assumption.
  - intros o Ho i Hi. apply HU. exact (locals_used_in body o i Ho Hi).
  - split; [reflexivity|]. split; [reflexivity|]. exists F2. split; [reflexivity|exact Ha].
Qed.

(* related results of a callee are indistinguishable for the caller *)
Lemma after_call_b_rel U s n rs r1 r2 : res_rel bst halt (Rb U) r1 r2 -> after_call_b s n rs r1 = after_call_b s n rs r2.
Proof.
  intros H.
  assert (Hfin : forall c1 b1 d1 c2 b2 d2, Rb U ((c1, b1), d1) ((c2, b2), d2) -> finish_b s n rs c1 b1 d1 = finish_b s n rs c2 b2 d2 /\
                   back (fst (fst s)) (stk (fst (fst s))) c1 = back (fst (fst s)) (stk (fst (fst s))) c2 /\ b1 = b2 /\ d1 = d2).
  { intros c1 b1 d1 c2 b2 d2 [Hd [Hb (L & HL & _)]]. cbn [fst snd] in Hd, Hb, HL. subst d2 b2 c2. destruct c1. repeat split; reflexivity. }
  destruct r1 as [[[c1 b1] d1]|j1 [[c1 b1] d1]|h1 [[c1 b1] d1]| |], r2 as [[[c2 b2] d2]|j2 [[c2 b2] d2]|h2 [[c2 b2] d2]| |];
    cbn [res_rel] in H; try contradiction; try reflexivity.
  - cbn [after_call_b]. apply Hfin, H.
  - destruct H as [<- H]. destruct j1; cbn [after_call_b]; [apply Hfin, H|reflexivity].
  - destruct H as [<- H]. destruct h1; cbn [after_call_b]; try reflexivity.
    + destruct (Hfin _ _ _ _ _ _ H) as (_ & -> & -> & ->). reflexivity.
    + apply Hfin, H.
Qed.

(* ================================================================== 3. the theorem on environments *)
Section RoundtripB.
  Variable E E' : benv.                  (* the input / the output module *)
  Variable cxo : N -> pctx.              (* the parse / emit context of each function (by identity) *)
  Variable ecxo : N -> ectx.
  Notation M := (be_menv E).
  Notation M' := (be_menv E').

  (* what is asked, beyond [fn_ok] of Proofs/SemMod.v, of a function [id] with body [body]: about the data indices and the
     memory indices of the bulk operators that OCCUR in the live part of the body *)
  Record data_ok (id : N) (body : list rt) : Prop := {
    (* the data slot map compensates the renumbering of the data segments ... *)
    ok_dslot : forall d, In d (datas_used (live body)) -> be_dslot E' (rd (cxo id) (ecxo id) d) = be_dslot E d;
    (* ... the identity names the same bytes in both modules (a segment nothing mentions may be missing from the output) ... *)
    ok_datas : forall d, In d (datas_used (live body)) -> be_datas E' (be_dslot E d) = be_datas E (be_dslot E d);
    (* ... and the memory slot map compensates the renumbering of the memories *)
    ok_bmslot : forall m, In m (bulk_mems_used (live body)) -> me_mslot M' (rm (cxo id) (ecxo id) m) = me_mslot M m
  }.

  Hypothesis H_funcs : funcs_ok M M' cxo ecxo.
  Hypothesis H_tbl : me_tbl M' = me_tbl M.
  Hypothesis H_data : forall id ti ls body, me_funcs M id = Some (ti, ls, body) -> data_ok id body.

  Section DepthB.
    Variable rb rb' : N -> list rt -> bst -> res bst halt.
    Hypothesis H_rb : forall id ti ls body s, me_funcs M id = Some (ti, ls, body) ->
      rb' id (out_body (cxo id) (ecxo id) body) s = rb id body s.
    Hypothesis H_live : forall id body s, rb id (live body) s = rb id body s.
    Hypothesis H_fr : forall id body U c F1 F2 b d,
      (forall i, In i (locals_used body) -> In (me_lslot M id i) U) -> agree U F1 F2 ->
      res_rel bst halt (Rb U) (rb id body ((callee_st c F1, b), d)) (rb id body ((callee_st c F2, b), d)).

    Lemma call_fn_b_equiv : forall id s, call_fn_b E' rb' id s = call_fn_b E rb id s.
    Proof.
      intros id s. rewrite !call_fn_b_eq. pose proof (H_funcs id) as Hf.
      destruct (me_funcs M id) as [[[ti ls] body]|] eqn:Ef; [|rewrite Hf; reflexivity].
      destruct Hf as (_ & ti' & ls' & Ef' & Hty & Hfr). rewrite Ef', Hty.
      destruct (me_tys M ti) as [[ps rs]|] eqn:Ety; [|reflexivity].
      cbv zeta. destruct (all_ty ps (rev (firstn (length ps) (stk (fst (fst s)))))) eqn:Hargs; [|reflexivity].
      rewrite (H_rb id ti ls body _ Ef), <- !(H_live id body).
      apply (after_call_b_rel (map (me_lslot M id) (locals_used (live body)))). apply H_fr.
      - intros i Hi. apply in_map, Hi.
      - apply (Hfr ps rs); [exact Ety|exact Hargs].
    Qed.

    Lemma call_ind_b_equiv : forall id body ti tb s, fn_ok M M' cxo ecxo id body -> In (W_CallIndirect ti tb) (ops_of (live body)) ->
      call_ind_b E' rb' (rty (cxo id) (ecxo id) ti) (rtb (cxo id) (ecxo id) tb) s = call_ind_b E rb ti tb s.
    Proof.
      intros id body ti tb s Hok Ho. unfold call_ind_b.
      rewrite (ok_tslot _ _ _ _ _ _ Hok ti tb Ho), H_tbl, (ok_rty _ _ _ _ _ _ Hok ti tb Ho).
      destruct (me_tslot M tb =? 0)%N; [|reflexivity].
      destruct (stk (fst (fst s))) as [|[i|i] k]; try reflexivity.
      destruct (nth_optN i (me_tbl M)) as [[id2|]|]; try reflexivity.
      pose proof (H_funcs id2) as Hf.
      destruct (me_funcs M id2) as [[[tj ls] body2]|] eqn:Ef; [|rewrite Hf; reflexivity].
      destruct Hf as (_ & ti' & ls' & Ef' & Hty & _). rewrite Ef', Hty.
      destruct (me_tys M ti) as [[ps rs]|]; [|reflexivity].
      destruct (me_tys M tj) as [[ps' rs']|]; [|reflexivity].
      destruct (vlist_eqb ps ps' && vlist_eqb rs rs'); [|reflexivity].
      apply call_fn_b_equiv.
    Qed.

    (* THE RENAMING LEMMA of the bulk machine.  Calls: as in Proofs/SemMod.v, with the dropped list carried along.  The four
       operators: [bulk_op_renamed].  EVERY OTHER OPERATOR: [op_sem_renamed] of Proofs/SemMod.v, reused as it stands (with the
       callee runner that is never reached) *)
    Lemma bulk_sem_renamed : forall id body o s, fn_ok M M' cxo ecxo id body -> data_ok id body -> In o (ops_of (live body)) ->
      bulk_sem E' rb' id (nf_op (cxo id) (ecxo id) o) s = bulk_sem E rb id (WOp o) s.
    Proof.
      intros id body o s Hok Hdk Ho. destruct (is_call o) eqn:Hc; [|destruct (is_bulk o) eqn:Hb].
      - destruct o; try discriminate Hc.
        + rewrite nf_op_call. cbn [bulk_sem]. rewrite (ok_fslot _ _ _ _ _ _ Hok _ Ho). apply call_fn_b_equiv.
        + rewrite nf_op_call_indirect. cbn [bulk_sem]. apply (call_ind_b_equiv id body); assumption.
      - apply bulk_op_renamed; [exact Hb| | |].
        + intros d Hd. apply (ok_dslot _ _ Hdk). exact (datas_used_in _ o d Ho Hd).
        + intros d Hd. apply (ok_datas _ _ Hdk). exact (datas_used_in _ o d Ho Hd).
        + intros m Hm. apply (ok_bmslot _ _ Hdk). exact (bulk_mems_used_in _ o m Ho Hm).
      - rewrite (bulk_sem_other E' rb' id _ s (nf_op_noncall _ _ o Hc) (nf_op_nonbulk _ _ o Hb)).
        rewrite (bulk_sem_other E rb id (WOp o) s Hc Hb). f_equal.
        apply (op_sem_renamed M M' cxo ecxo H_funcs H_tbl stuck_rb stuck_rb) with (body := body); try assumption; try reflexivity; try (intros; exact I).
    Qed.
  End DepthB.

  Lemma enter_b_nf_bt : forall id body bt s, fn_ok M M' cxo ecxo id body ->
    enter_b (me_tys M') (nf_bt (cxo id) (ecxo id) bt) s = enter_b (me_tys M) bt s.
  Proof.
    intros id body bt s Hok. unfold enter_b, lift_b. f_equal. apply (enter_m_nf_bt M M' cxo ecxo id body bt (fst s) Hok).
  Qed.

  (* by induction on the call depth: the output body of every function does what the input body does *)
  Lemma run_body_b_equiv : forall fuel k id ti ls body s, me_funcs M id = Some (ti, ls, body) ->
    run_body_b E' fuel k id (out_body (cxo id) (ecxo id) body) s = run_body_b E fuel k id body s.
  Proof.
    intros fuel k. induction k as [|k IH]; intros id ti ls body s Ef; [reflexivity|].
    pose proof (H_funcs id) as Hf. rewrite Ef in Hf. destruct Hf as (Hok & _).
    pose proof (H_data id ti ls body Ef) as Hdk.
    rewrite <- (run_body_b_live E fuel (S k) id body s).
    cbn [run_body_b]. unfold out_body. rewrite eval_ren_t. rewrite <- (nf_rt_idem body). fold (live body).
    apply (nf_equiv_renamed_on bst halt pop_cond_b pop_index_b unwind_b leave_b (cxo id) (ecxo id)
             (bulk_sem E (run_body_b E fuel k) id) (bulk_sem E' (run_body_b E' fuel k) id)
             (enter_b (me_tys M)) (enter_b (me_tys M'))
             (arity (me_tys M)) (arity (me_tys M')) (loop_arity (me_tys M)) (loop_arity (me_tys M'))).
    - intros o Ho s0. apply (bulk_sem_renamed _ _ IH (run_body_b_live E fuel k) (run_body_b_frames E fuel k) id body o s0 Hok Hdk Ho).
    - intros bt s0. apply (enter_b_nf_bt id body bt s0 Hok).
    - intros bt. apply (arities_nf_bt (cxo id) (ecxo id) (me_tys M) (me_tys M') (ok_tys _ _ _ _ _ _ Hok) (ok_existing _ _ _ _ _ _ Hok) (ok_tys' _ _ _ _ _ _ Hok)).
    - intros bt. apply (arities_nf_bt (cxo id) (ecxo id) (me_tys M) (me_tys M') (ok_tys _ _ _ _ _ _ Hok) (ok_existing _ _ _ _ _ _ Hok) (ok_tys' _ _ _ _ _ _ Hok)).
    - intros o _ Hu s0. apply bulk_sem_never_falls, Hu.
  Qed.

  (* the step functions agree at every depth, on every operator of the live part ... *)
  Theorem bulk_mod_sem_renamed : forall fuel k id ti ls body o s, me_funcs M id = Some (ti, ls, body) -> In o (ops_of (live body)) ->
    bulk_mod_sem E' fuel k id (nf_op (cxo id) (ecxo id) o) s = bulk_mod_sem E fuel k id (WOp o) s.
  Proof.
    intros fuel k id ti ls body o s Ef Ho. unfold bulk_mod_sem.
    pose proof (H_funcs id) as Hf. rewrite Ef in Hf. destruct Hf as (Hok & _).
    apply (bulk_sem_renamed _ _ (run_body_b_equiv fuel k) (run_body_b_live E fuel k) (run_body_b_frames E fuel k) id body o s Hok (H_data id ti ls body Ef) Ho).
  Qed.

  (* ... and THE THEOREM: every call of every function, with every depth and fuel, from every state and every dropped list:
     the same results, globals, memory, dropped segments, trap / wrong / exhaustion verdict *)
  Theorem bulk_roundtrip_equiv_env : forall k fuel f args s0 dr,
    run_mod_b E' k fuel f args s0 dr = run_mod_b E k fuel f args s0 dr.
  Proof.
    intros k fuel f args s0 dr. unfold run_mod_b.
    rewrite (call_fn_b_equiv _ _ (run_body_b_equiv fuel k) (run_body_b_live E fuel k) (run_body_b_frames E fuel k)). reflexivity.
  Qed.
End RoundtripB.

(* ================================================================== 4. modules *)
(* the environment of a module and its data segments ([benv_of] of Model/SemBulk.v is the instance for [cmod_of im tbl]) *)
Definition benv_of_cmod (m : cmod) (ds : list dseg) (lslot : N -> N -> N) (fslot gslot mslot tslot dslot : N -> N) : benv :=
  {| be_menv := env_of m lslot fslot gslot mslot tslot; be_dslot := dslot; be_datas := find_data ds dslot |}.
Lemma benv_of_eq im tbl lslot fslot gslot mslot tslot dslot :
  benv_of im tbl lslot fslot gslot mslot tslot dslot = benv_of_cmod (cmod_of im tbl) (im_datas im) lslot fslot gslot mslot tslot dslot.
Proof. reflexivity. Qed.

(* under an injective slot map the identity of index [d] names segment number [d] *)
Lemma find_data_inj ds dslot : (forall i j, dslot i = dslot j -> i = j) ->
  forall d, find_data ds dslot (dslot d) = option_map seg_bytes (nth_optN d ds).
Proof.
  intros Hinj d. unfold find_data.
  destruct (find (fun p => (dslot (fst p) =? dslot d)%N) (numbered 0 ds)) as [[j sg]|] eqn:Ef.
  - destruct (find_numbered_some (fun i => (dslot i =? dslot d)%N) _ _ _ _ Ef) as (_ & Hn & Hf).
    rewrite N.sub_0_r in Hn. apply N.eqb_eq, Hinj in Hf. subst j. rewrite Hn. reflexivity.
  - destruct (nth_optN d ds) as [sg|] eqn:En; [|reflexivity]. exfalso.
    pose proof (find_numbered_none (fun i => (dslot i =? dslot d)%N) _ _ Ef d sg En) as Hf. cbn beta in Hf.
    rewrite N.add_0_l, N.eqb_refl in Hf. discriminate Hf.
Qed.

(* ---- THE THEOREM ON MODULES: function index [i] of the input module is function index [rf i] of the output module (as in
   [mod_roundtrip_equiv_cmod]); the data segments of the output are numbered differently - data index [d] of a body of function [id]
   has become [rd (cxo id) (ecxo id) d] - and segments nothing mentions may have been deleted *)
Section CmodRoundtripB.
  Variable m m' : cmod.
  Variable ds ds' : list dseg.
  Variable lslot lslot' : N -> N -> N.
  Variable fslot gslot mslot tslot dslot fslot' gslot' mslot' tslot' dslot' : N -> N.
  Variable cxo : N -> pctx.
  Variable ecxo : N -> ectx.
  Variable rf : N -> N.
  Notation E := (benv_of_cmod m ds lslot fslot gslot mslot tslot dslot).
  Notation E' := (benv_of_cmod m' ds' lslot' fslot' gslot' mslot' tslot' dslot').
  Notation M := (env_of m lslot fslot gslot mslot tslot).
  Notation M' := (env_of m' lslot' fslot' gslot' mslot' tslot').

  (* functions: exactly the premises of [mod_roundtrip_equiv_cmod] *)
  Hypothesis H_fslot : forall i, fslot' (rf i) = fslot i.
  Hypothesis H_inj : forall i i2 d d2, nth_optN i (cm_funcs m) = Some d -> nth_optN i2 (cm_funcs m) = Some d2 ->
    fslot i = fslot i2 -> i = i2.
  Hypothesis H_surj : forall j d', nth_optN j (cm_funcs m') = Some d' -> exists i d, nth_optN i (cm_funcs m) = Some d /\ rf i = j.
  Hypothesis H_fn : forall i ti ls body, nth_optN i (cm_funcs m) = Some (ti, ls, body) ->
    fn_ok M M' cxo ecxo (fslot i) body /\
    exists ti' ls', nth_optN (rf i) (cm_funcs m') = Some (ti', ls', out_body (cxo (fslot i)) (ecxo (fslot i)) body) /\
                    nth_optN ti' (cm_tys m') = nth_optN ti (cm_tys m) /\
                    frames_agree M M' (fslot i) ti ls ls' body.
  Hypothesis H_tbl : cm_table m' = map (option_map rf) (cm_table m).
  (* data segments: distinct indices have distinct identities, in both modules (so the renumbering is INJECTIVE on what it is
     asked about); function by function, for the data indices the live part mentions: the slot map of the output compensates the
     renumbering, and the renumbered index names a segment with the same bytes *)
  Hypothesis H_dinj : forall i j, dslot i = dslot j -> i = j.
  Hypothesis H_dinj' : forall i j, dslot' i = dslot' j -> i = j.
  Hypothesis H_dfn : forall i ti ls body, nth_optN i (cm_funcs m) = Some (ti, ls, body) ->
    (forall d, In d (datas_used (live body)) ->
       dslot' (rd (cxo (fslot i)) (ecxo (fslot i)) d) = dslot d /\
       option_map seg_bytes (nth_optN (rd (cxo (fslot i)) (ecxo (fslot i)) d) ds') = option_map seg_bytes (nth_optN d ds)) /\
    (forall mi, In mi (bulk_mems_used (live body)) -> mslot' (rm (cxo (fslot i)) (ecxo (fslot i)) mi) = mslot mi).

  (* the renumbering of the data indices a body mentions is injective *)
  Lemma rd_injective_on_used : forall i ti ls body d1 d2, nth_optN i (cm_funcs m) = Some (ti, ls, body) ->
    In d1 (datas_used (live body)) -> In d2 (datas_used (live body)) ->
    rd (cxo (fslot i)) (ecxo (fslot i)) d1 = rd (cxo (fslot i)) (ecxo (fslot i)) d2 -> d1 = d2.
  Proof.
    intros i ti ls body d1 d2 Hi H1 H2 He. destruct (H_dfn i ti ls body Hi) as (Hd & _).
    apply H_dinj. rewrite <- (proj1 (Hd d1 H1)), <- (proj1 (Hd d2 H2)), He. reflexivity.
  Qed.

  Lemma cmod_data_ok : forall id ti ls body, me_funcs M id = Some (ti, ls, body) -> data_ok E E' cxo ecxo id body.
  Proof.
    intros id ti ls body Ef. cbn [me_funcs env_of] in Ef.
    destruct (find_func_some _ _ _ _ Ef) as (i & Hn & Hi). subst id.
    destruct (H_dfn i ti ls body Hn) as (Hd & Hm).
    constructor; cbn [benv_of_cmod be_dslot be_datas be_menv env_of me_mslot].
    - intros d Hu. apply (Hd d Hu).
    - intros d Hu. destruct (Hd d Hu) as (Hs & Hb).
      rewrite (find_data_inj ds dslot H_dinj d), <- Hs, (find_data_inj ds' dslot' H_dinj'). exact Hb.
    - exact Hm.
  Qed.

  Theorem bulk_roundtrip_equiv : forall k fuel f args s0 dr,
    run_mod_b E' k fuel f args s0 dr = run_mod_b E k fuel f args s0 dr.
  Proof.
    apply (bulk_roundtrip_equiv_env E E' cxo ecxo).
    - exact (cmod_funcs_ok m m' lslot lslot' fslot gslot mslot tslot fslot' gslot' mslot' tslot' cxo ecxo rf H_fslot H_inj H_surj H_fn).
    - cbn [benv_of_cmod be_menv me_tbl env_of]. rewrite H_tbl, map_map. apply map_ext. intros [j|]; [|reflexivity].
      cbn [option_map]. rewrite H_fslot. reflexivity.
    - exact cmod_data_ok.
  Qed.
End CmodRoundtripB.

(* ================================================================== 5. data segments nothing mentions *)
(* ---- two environments that differ only in the bytes of identities NO LIVE PART MENTIONS behave the same *)
Section DatasExt.
  Variable M : menv.
  Variable dslot : N -> N.
  Variable datas datas' : N -> option (list N).
  Notation E := {| be_menv := M; be_dslot := dslot; be_datas := datas |}.
  Notation E' := {| be_menv := M; be_dslot := dslot; be_datas := datas' |}.
  Hypothesis H_datas : forall id ti ls body d, me_funcs M id = Some (ti, ls, body) -> In d (datas_used (live body)) ->
    datas' (dslot d) = datas (dslot d).

  Section Depth.
    Variable rb rb' : N -> list rt -> bst -> res bst halt.
    Hypothesis H_rb : forall id ti ls body s, me_funcs M id = Some (ti, ls, body) -> rb' id body s = rb id body s.

    Lemma call_fn_b_ext : forall id s, call_fn_b E' rb' id s = call_fn_b E rb id s.
    Proof.
      intros id s. rewrite !call_fn_b_eq. cbn [be_menv].
      destruct (me_funcs M id) as [[[ti ls] body]|] eqn:Ef; [|reflexivity].
      destruct (me_tys M ti) as [[ps rs]|]; [|reflexivity].
      cbv zeta. destruct (all_ty ps _); [|reflexivity]. rewrite (H_rb id ti ls body _ Ef). reflexivity.
    Qed.
    Lemma call_ind_b_ext : forall ti tb s, call_ind_b E' rb' ti tb s = call_ind_b E rb ti tb s.
    Proof.
      intros ti tb s. unfold call_ind_b. cbn [be_menv].
      destruct (me_tslot M tb =? 0)%N; [|reflexivity].
      destruct (stk (fst (fst s))) as [|[i|i] k]; try reflexivity.
      destruct (nth_optN i (me_tbl M)) as [[id2|]|]; try reflexivity.
      destruct (me_funcs M id2) as [[[tj ls] body2]|]; [|reflexivity].
      destruct (me_tys M ti) as [[ps rs]|]; [|reflexivity].
      destruct (me_tys M tj) as [[ps' rs']|]; [|reflexivity].
      destruct (vlist_eqb ps ps' && vlist_eqb rs rs'); [|reflexivity].
      apply call_fn_b_ext.
    Qed.
    Lemma bulk_sem_ext : forall id ti ls body o s, me_funcs M id = Some (ti, ls, body) -> In o (ops_of (live body)) ->
      bulk_sem E' rb' id (WOp o) s = bulk_sem E rb id (WOp o) s.
    Proof.
      intros id ti ls body o s Ef Ho. destruct (is_call o) eqn:Hc; [|destruct (is_bulk o) eqn:Hb].
      - destruct o; try discriminate Hc; cbn [bulk_sem be_menv]; [apply call_fn_b_ext|apply call_ind_b_ext].
      - destruct o; try discriminate Hb; cbn [bulk_sem bulk_op be_menv be_dslot be_datas]; try reflexivity;
          rewrite (H_datas id ti ls body _ Ef (datas_used_in _ _ _ Ho eq_refl)); reflexivity.
      - rewrite !(bulk_sem_other _ _ id (WOp o) s Hc Hb). reflexivity.
    Qed.
  End Depth.

  Lemma run_body_b_ext : forall fuel k id ti ls body s, me_funcs M id = Some (ti, ls, body) ->
    run_body_b E' fuel k id body s = run_body_b E fuel k id body s.
  Proof.
    intros fuel k. induction k as [|k IH]; intros id ti ls body s Ef; [reflexivity|].
    rewrite <- (run_body_b_live E' fuel (S k) id body s), <- (run_body_b_live E fuel (S k) id body s).
    cbn [run_body_b be_menv]. unfold live at 1. rewrite <- (nf_rt_idem body). fold (live body).
    apply (nf_equiv_on bst halt pop_cond_b pop_index_b unwind_b leave_b); try reflexivity.
    - intros o Ho s0. apply (bulk_sem_ext _ _ IH id ti ls body o s0 Ef Ho).
    - intros o _ Hu s0. apply bulk_sem_never_falls, Hu.
  Qed.

  Theorem run_mod_b_datas_ext : forall k fuel f args s0 dr, run_mod_b E' k fuel f args s0 dr = run_mod_b E k fuel f args s0 dr.
  Proof. intros k fuel f args s0 dr. unfold run_mod_b. rewrite (call_fn_b_ext _ _ (run_body_b_ext fuel k)). reflexivity. Qed.
End DatasExt.

(* THE GC THEOREM: if no live part of any function of the module mentions the data identity [q], removing that segment from the
   environment changes no result of any call *)
Definition without_data (E : benv) (q : N) : benv :=
  {| be_menv := be_menv E; be_dslot := be_dslot E; be_datas := fun x => if (x =? q)%N then None else be_datas E x |}.
Theorem dropping_unused_data_is_invisible : forall (E : benv) (q : N),
  (forall id ti ls body, me_funcs (be_menv E) id = Some (ti, ls, body) -> ~ In q (map (be_dslot E) (datas_used (live body)))) ->
  forall k fuel f args s0 dr, run_mod_b (without_data E q) k fuel f args s0 dr = run_mod_b E k fuel f args s0 dr.
Proof.
  intros [M dslot datas] q Hq k fuel f args s0 dr. unfold without_data. cbn [be_menv be_dslot be_datas] in *.
  apply (run_mod_b_datas_ext M dslot datas (fun x => if (x =? q)%N then None else datas x)).
  intros id ti ls body d Ef Hd. destruct (N.eqb_spec (dslot d) q) as [He|_]; [|reflexivity].
  exfalso. apply (Hq id ti ls body Ef). rewrite <- He. apply in_map, Hd.
Qed.

(* ---- COROLLARY of [bulk_roundtrip_equiv] for the identity renumbering of everything but the data segments, same order of
   functions: only the normal form and the renumbering [rdm] of the data indices, function by function *)
Definition ecx_data (r : N -> N) : ectx :=
  {| ex_id2i := fun sp i => match sp with S_data => r i | _ => i end; ex_ilen := fun _ => 1%N |}.

Theorem bulk_roundtrip_equiv_datas : forall (m m' : cmod) (ds ds' : list dseg) (lslot : N -> N -> N)
    (fslot gslot mslot tslot dslot dslot' : N -> N) (rdm : N -> N),
  cm_tys m' = cm_tys m -> cm_table m' = cm_table m ->
  (forall j d', nth_optN j (cm_funcs m') = Some d' -> exists d, nth_optN j (cm_funcs m) = Some d) ->
  (forall i j, fslot i = fslot j -> i = j) ->
  (forall i j, dslot i = dslot j -> i = j) -> (forall i j, dslot' i = dslot' j -> i = j) ->
  (forall i ti ls body, nth_optN i (cm_funcs m) = Some (ti, ls, body) ->
     nth_optN i (cm_funcs m') = Some (ti, ls, out_body (cx_std (cm_tys m)) (ecx_data rdm) body) /\
     forallb offset_ok (ops_of (live body)) = true /\
     forallb (decodable (cx_std (cm_tys m))) (ops_of (live body)) = true /\
     (forall d, In d (datas_used (live body)) ->
        dslot' (rdm d) = dslot d /\ option_map seg_bytes (nth_optN (rdm d) ds') = option_map seg_bytes (nth_optN d ds))) ->
  forall k fuel f args s0 dr,
    run_mod_b (benv_of_cmod m' ds' lslot fslot gslot mslot tslot dslot') k fuel f args s0 dr =
    run_mod_b (benv_of_cmod m ds lslot fslot gslot mslot tslot dslot) k fuel f args s0 dr.
Proof.
  intros m m' ds ds' lslot fslot gslot mslot tslot dslot dslot' rdm Hty Htb Hsurj Hfinj Hdinj Hdinj' Hfn.
  apply (bulk_roundtrip_equiv m m' ds ds' lslot lslot fslot gslot mslot tslot dslot fslot gslot mslot tslot dslot'
           (fun _ => cx_std (cm_tys m)) (fun _ => ecx_data rdm) idN).
  - reflexivity.
  - intros i i2 d d2 _ _ H. apply Hfinj, H.
  - intros j d' Hj. destruct (Hsurj j d' Hj) as (d & Hd). exists j, d. split; [exact Hd|reflexivity].
  - intros i ti ls body Hi. destruct (Hfn i ti ls body Hi) as (Hi' & Ho & Hd & _).
    split.
    + apply fn_ok_std; try reflexivity; try assumption.
      intros j. cbn [ecx_data ex_id2i]. rewrite Hty. reflexivity.
    + exists ti, ls. split; [exact Hi'|]. split; [rewrite Hty; reflexivity|].
      apply same_frames_agree. reflexivity.
  - rewrite Htb. symmetry. erewrite map_ext; [apply map_id|]. intros [j|]; reflexivity.
  - exact Hdinj.
  - exact Hdinj'.
  - intros i ti ls body Hi. destruct (Hfn i ti ls body Hi) as (_ & _ & _ & Hdu). split; [exact Hdu|].
    intros mi _. reflexivity.
Qed.

(* ================================================================== 6. examples (by computation) *)
Module ExB.
  Local Open Scope N_scope.
  Definition P (o : wop) : rt := RPlain o 0.
  Definition I (z : Z) : rt := P (W_I32Const z).
  (* operands: destination, source / value, length - the length on top *)
  Definition init (seg : N) (d s n : Z) : list rt := [I d; I s; I n; P (W_MemoryInit seg 0)].
  Definition copy (d s n : Z) : list rt := [I d; I s; I n; P (W_MemoryCopy 0 0)].
  Definition fill (d v n : Z) : list rt := [I d; I v; I n; P (W_MemoryFill 0)].
  (* ONE passive segment (number 0) and one active segment (number 1, written at 40 by instantiation) *)
  Definition seg0 : list N := [1; 2; 3; 4; 5; 6; 7; 8].
  (* 0: the passive segment copied twice: all of it to 16, bytes 2..5 of it to 100 *)
  Definition twice : list rt := init 0 16 0 8 ++ init 0 100 2 4.
  (* 1: ... then data.drop, then a third memory.init of ONE byte: traps; the memory.fill after it does not run *)
  Definition drop_then_init : list rt := twice ++ [P (W_DataDrop 0)] ++ init 0 200 0 1 ++ fill 300 9 1.
  (* 2: data.drop twice (idempotent), then memory.init of ZERO bytes at offset 0: fine; the memory.fill runs *)
  Definition drop_then_init0 : list rt := [P (W_DataDrop 0); P (W_DataDrop 0)] ++ init 0 200 0 0 ++ fill 300 9 1.
  (* 3: 1..8 at 16, then memory.copy of 6 bytes from 16 to 18: the destination ABOVE the source (copied high-to-low) *)
  Definition overlap_up : list rt := init 0 16 0 8 ++ copy 18 16 6.
  (* 4: ... then 6 bytes from 17 to 16: the destination BELOW the source (copied low-to-high) *)
  Definition overlap_both : list rt := overlap_up ++ copy 16 17 6.
  (* 5: memory.fill of the LAST byte (the value 427 is taken modulo 256), then of zero bytes AT the end *)
  Definition fill_last : list rt := fill 65535 427 1 ++ fill 65536 7 0.
  (* 6: ... then of two bytes from the last byte: traps, NOTHING written (the last byte keeps 171) *)
  Definition fill_past : list rt := fill_last ++ fill 65535 5 2.
  (* 7: zero bytes ONE PAST the end: traps;  8: memory.init of the ACTIVE segment: one byte traps;  9: zero bytes of it: fine *)
  Definition fill_zero_past : list rt := fill 65537 7 0.
  Definition init_active : list rt := init 1 0 0 1.
  Definition init_active0 : list rt := init 1 0 0 0 ++ [P (W_DataDrop 1)] ++ fill 300 9 1.
  Definition im : imod :=
    {| im_tys := [([], [])];
       im_funcs := [ (0, [], twice); (0, [], drop_then_init); (0, [], drop_then_init0); (0, [], overlap_up); (0, [], overlap_both);
                     (0, [], fill_last); (0, [], fill_past); (0, [], fill_zero_past); (0, [], init_active); (0, [], init_active0) ];
       im_globals := []; im_mem := Some (1, Some 1); im_table := None; im_elems := [];
       im_datas := [ DPassive seg0; DActive 0 (CI32 40) [77; 78] ]; im_start := None |}.
  (* the final memory (bindings in the order of their first write) and the identities of the dropped segments *)
  Inductive obs := ORet (m : list (N * N)) (dr : list N) | OTrap (m : list (N * N)) (dr : list N) | OOther.
  Definition run (f : N) : obs :=
    match call_after_b (instantiate_b 0 4 im (fun _ => idN) idN idN idN idN idN) 4 0 f [] with
    | CRanB (Some (Fall (s, d))) => ORet (mem s) d
    | CRanB (Some (Stop Trap (s, d))) => OTrap (mem s) d
    | _ => OOther
    end.
  Definition at40 : list (N * N) := [(40, 77); (41, 78)].     (* the active segment; its identity 1 is dropped by instantiation *)

  Example twice_ok : run 0 =
    ORet (at40 ++ [(16, 1); (17, 2); (18, 3); (19, 4); (20, 5); (21, 6); (22, 7); (23, 8); (100, 3); (101, 4); (102, 5); (103, 6)]) [1].
  Proof. vm_compute. reflexivity. Qed.
  Example third_init_traps : run 1 =
    OTrap (at40 ++ [(16, 1); (17, 2); (18, 3); (19, 4); (20, 5); (21, 6); (22, 7); (23, 8); (100, 3); (101, 4); (102, 5); (103, 6)]) [0; 1].
  Proof. vm_compute. reflexivity. Qed.
  Example zero_init_after_drop_ok : run 2 = ORet (at40 ++ [(300, 9)]) [0; 1].
  Proof. vm_compute. reflexivity. Qed.
  Example overlap_destination_above : run 3 = ORet (at40 ++ [(16, 1); (17, 2); (18, 1); (19, 2); (20, 3); (21, 4); (22, 5); (23, 6)]) [1].
  Proof. vm_compute. reflexivity. Qed.
  Example overlap_destination_below : run 4 = ORet (at40 ++ [(16, 2); (17, 1); (18, 2); (19, 3); (20, 4); (21, 5); (22, 5); (23, 6)]) [1].
  Proof. vm_compute. reflexivity. Qed.
  Example fill_last_byte : run 5 = ORet (at40 ++ [(65535, 171)]) [1].
  Proof. vm_compute. reflexivity. Qed.
  Example fill_past_end_writes_nothing : run 6 = OTrap (at40 ++ [(65535, 171)]) [1].
  Proof. vm_compute. reflexivity. Qed.
  Example fill_zero_one_past_traps : run 7 = OTrap at40 [1].
  Proof. vm_compute. reflexivity. Qed.
  Example init_of_active_traps : run 8 = OTrap at40 [1].
  Proof. vm_compute. reflexivity. Qed.
  Example init_zero_of_active_ok : run 9 = ORet (at40 ++ [(300, 9)]) [1].
  Proof. vm_compute. reflexivity. Qed.
  (* a machine that always copies low-to-high smears the first two bytes over the destination *)
  Example forward_only_copy_is_wrong :
    copy_fwd 6 18 16 [(16, 1); (17, 2); (18, 3); (19, 4); (20, 5); (21, 6); (22, 7); (23, 8)] =
    [(16, 1); (17, 2); (18, 1); (19, 2); (20, 1); (21, 2); (22, 1); (23, 2)].
  Proof. vm_compute. reflexivity. Qed.
End ExB.

(* ---- the theorem instantiated: three passive segments A B C; function 0 reads C (index 2), function 1 reads B (index 1) and
   drops it; walrus's GC deletes A, so B and C become 0 and 1 and the operators are renamed *)
Module RTB.
  Local Open Scope N_scope.
  Import ExB.
  Definition ma0 : w_memarg := {| wa_align := 0; wa_offset := 0; wa_memory := 0 |}.
  Definition readC : list rt := init 2 0 0 2 ++ [I 0; P (W_I32Load16U ma0)].
  Definition readB : list rt := init 1 8 1 1 ++ [P (W_DataDrop 1); I 8; P (W_I32Load8U ma0)].
  Definition m1 : cmod := {| cm_tys := [([], [VT_I32])]; cm_funcs := [ (0, [], readC); (0, [], readB) ]; cm_table := [] |}.
  Definition ds1 : list dseg := [ DPassive [9; 9; 9]; DPassive [11; 12]; DPassive [21; 22] ].
  (* the output: A deleted; data index i has become i - 1; the slot map of the output undoes it *)
  Definition rdm1 (i : N) : N := i - 1.
  Definition ds1' : list dseg := [ DPassive [11; 12]; DPassive [21; 22] ].
  Definition m1' : cmod :=
    {| cm_tys := cm_tys m1;
       cm_funcs := [ (0, [], out_body (cx_std (cm_tys m1)) (ecx_data rdm1) readC); (0, [], out_body (cx_std (cm_tys m1)) (ecx_data rdm1) readB) ];
       cm_table := [] |}.
  Example readB_out : out_body (cx_std (cm_tys m1)) (ecx_data rdm1) readB = init 0 8 1 1 ++ [P (W_DataDrop 0); I 8; P (W_I32Load8U ma0)].
  Proof. vm_compute. reflexivity. Qed.
  Definition E1 : benv := benv_of_cmod m1 ds1 (fun _ => idN) idN idN idN idN idN.
  Definition E1' : benv := benv_of_cmod m1' ds1' (fun _ => idN) idN idN idN idN (fun j => j + 1).

  (* THE THEOREM, instantiated: the hypotheses are satisfiable with a segment deleted and the others renumbered *)
  Theorem rtb_equiv : forall k fuel f args s0 dr, run_mod_b E1' k fuel f args s0 dr = run_mod_b E1 k fuel f args s0 dr.
  Proof.
    unfold E1, E1'. apply (bulk_roundtrip_equiv_datas m1 m1' ds1 ds1' _ _ _ _ _ _ _ rdm1); try reflexivity.
    - intros j d' Hj. cbn [m1' cm_funcs nth_optN] in Hj.
      destruct (N.eqb_spec j 0) as [->|H0]; [eexists; reflexivity|].
      destruct (N.eqb_spec (j - 1) 0) as [E|H1]; [|discriminate Hj]. replace j with 1 by lia. eexists; reflexivity.
    - intros i j H. exact H.
    - intros i j H. exact H.
    - intros i j H. lia.
    - intros i ti ls body Hi. cbn [m1 cm_funcs nth_optN] in Hi.
      destruct (N.eqb_spec i 0) as [->|H0].
      { injection Hi as <- <- <-. split; [reflexivity|]. split; [vm_compute; reflexivity|]. split; [vm_compute; reflexivity|].
        intros d Hd. vm_compute in Hd. destruct Hd as [<-|[]]. split; reflexivity. }
      destruct (N.eqb_spec (i - 1) 0) as [E|H1]; [|discriminate Hi]. replace i with 1 by lia.
      injection Hi as <- <- <-. split; [reflexivity|]. split; [vm_compute; reflexivity|]. split; [vm_compute; reflexivity|].
      intros d Hd. vm_compute in Hd. destruct Hd as [<-|[<-|[]]]; split; reflexivity.
  Qed.

  Definition s1 : st := {| stk := []; locs := []; globs := []; labs := []; mem := []; pages := 1; max_pages := 1 |}.
  Definition result (r : option (res (st * list N) halt)) : option (list val * list N) :=
    match r with Some (Fall (s, d)) => Some (stk s, d) | _ => None end.
  (* function 1 returns B[1] = 12 and drops identity 1: the input module, and the output module by computation and by the theorem *)
  Example rtb_in : result (run_mod_b E1 2 0 1 [] s1 []) = Some ([VI32 12], [1]).
  Proof. vm_compute. reflexivity. Qed.
  Example rtb_out : result (run_mod_b E1' 2 0 1 [] s1 []) = Some ([VI32 12], [1]).
  Proof. vm_compute. reflexivity. Qed.
  Example rtb_out_thm : run_mod_b E1' 2 0 1 [] s1 [] = run_mod_b E1 2 0 1 [] s1 [].
  Proof. apply rtb_equiv. Qed.
  (* function 0 returns C[0] + 256 * C[1] *)
  Example rtb_in0 : result (run_mod_b E1 2 0 0 [] s1 []) = Some ([VI32 5653], []).
  Proof. vm_compute. reflexivity. Qed.
End RTB.

(* NON-VACUITY: renumbering the data segments WITHOUT renaming the operators changes behaviour.  The module of [RTB], its segment A
   deleted and B, C renumbered 0, 1 - but the bodies left alone (still `memory.init 1`) and the slot maps the identity: function 1
   now reads C instead of B (both modules are valid; neither traps) *)
Theorem renumbering_without_renaming_differs :
  exists (m : cmod) (ds ds' : list dseg) (f : N) (s0 : st),
    RTB.result (run_mod_b (benv_of_cmod m ds (fun _ => idN) idN idN idN idN idN) 2 0 f [] s0 []) = Some ([VI32 12], [1%N]) /\
    RTB.result (run_mod_b (benv_of_cmod m ds' (fun _ => idN) idN idN idN idN idN) 2 0 f [] s0 []) = Some ([VI32 22], [1%N]).
Proof. exists RTB.m1, RTB.ds1, RTB.ds1', 1%N, RTB.s1. split; vm_compute; reflexivity. Qed.

(* ================================================================== 7. the GC theorem at the level of instantiation *)
(* one passive segment - number [p] - is deleted; the segments after it move down by one *)
Definition skip (p i : N) : N := if (i <? p)%N then i else (i - 1)%N.      (* old data index -> new data index *)
Definition unskip (p j : N) : N := if (j <? p)%N then j else (j + 1)%N.    (* new data index -> old data index *)
Lemma unskip_skip p d : d <> p -> unskip p (skip p d) = d.
Proof.
  intros H. unfold skip, unskip. destruct (N.ltb_spec d p) as [Hl|Hl].
  - destruct (N.ltb_spec d p); [reflexivity|lia].
  - destruct (N.ltb_spec (d - 1) p); lia.
Qed.
Lemma unskip_inj p i j : unskip p i = unskip p j -> i = j.
Proof. unfold unskip. destruct (N.ltb_spec i p), (N.ltb_spec j p); lia. Qed.
Lemma nth_optN_skip {A} (pre post : list A) x d : d <> N.of_nat (length pre) ->
  nth_optN (skip (N.of_nat (length pre)) d) (pre ++ post) = nth_optN d (pre ++ x :: post).
Proof.
  intros H. rewrite !nth_optN_app. unfold skip. destruct (N.ltb_spec d (N.of_nat (length pre))) as [Hl|Hl].
  - destruct (N.ltb_spec d (N.of_nat (length pre))); [reflexivity|lia].
  - destruct (N.ltb_spec (d - 1) (N.of_nat (length pre))); [lia|].
    cbn [nth_optN]. destruct (N.eqb_spec (d - N.of_nat (length pre)) 0); [lia|]. f_equal. lia.
Qed.

Lemma dropped_refl {A} (passive : A -> bool) : forall l, dropped passive l l.
Proof. induction l as [|x l IH]; [constructor|apply dr_keep, IH]. Qed.
Lemma dropped_mid pre bs post : dropped d_passive (pre ++ DPassive bs :: post) (pre ++ post).
Proof. induction pre as [|x pre IH]; cbn [app]; [apply dr_drop; [reflexivity|apply dropped_refl]|apply dr_keep, IH]. Qed.

(* the identities of the active segments, numbering from [k] *)
Definition act_from (dslot : N -> N) (k : N) (ds : list dseg) : list N :=
  flat_map (fun p => match snd p with DActive _ _ _ => [dslot (fst p)] | DPassive _ => [] end) (numbered k ds).
Lemma numbered_app {A} (a b : list A) : forall k, numbered k (a ++ b) = numbered k a ++ numbered (k + N.of_nat (length a)) b.
Proof.
  induction a as [|x a IH]; intros k; cbn [app numbered length]; [rewrite N.add_0_r; reflexivity|].
  rewrite IH. do 3 f_equal. lia.
Qed.
Lemma act_from_app dslot a b k : act_from dslot k (a ++ b) = act_from dslot k a ++ act_from dslot (k + N.of_nat (length a)) b.
Proof. unfold act_from. rewrite numbered_app, flat_map_app. reflexivity. Qed.
Lemma act_from_ext dslot dslot' : forall ds k, (forall j, (k <= j < k + N.of_nat (length ds))%N -> dslot' j = dslot j) ->
  act_from dslot' k ds = act_from dslot k ds.
Proof.
  induction ds as [|x ds IH]; intros k H; [reflexivity|]. unfold act_from in *. cbn [numbered flat_map fst snd].
  rewrite (IH (k + 1)%N) by (intros j Hj; apply H; cbn [length]; lia).
  rewrite (H k) by (cbn [length]; lia). reflexivity.
Qed.
Lemma act_from_shift dslot dslot' : forall ds k, (forall j, (k <= j)%N -> dslot' j = dslot (j + 1)%N) ->
  act_from dslot' k ds = act_from dslot (k + 1) ds.
Proof.
  induction ds as [|x ds IH]; intros k H; [reflexivity|]. unfold act_from in *. cbn [numbered flat_map fst snd].
  rewrite (IH (k + 1)%N) by (intros j Hj; apply H; lia).
  rewrite (H k) by lia. reflexivity.
Qed.
Lemma active_ids_skip dslot pre bs post :
  active_ids (fun j => dslot (unskip (N.of_nat (length pre)) j)) (pre ++ post) = active_ids dslot (pre ++ DPassive bs :: post).
Proof.
  change (act_from (fun j => dslot (unskip (N.of_nat (length pre)) j)) 0 (pre ++ post) = act_from dslot 0 (pre ++ DPassive bs :: post)).
  rewrite !act_from_app, N.add_0_l. f_equal.
  - apply act_from_ext. intros j Hj. unfold unskip. destruct (N.ltb_spec j (N.of_nat (length pre))); [reflexivity|lia].
  - change (DPassive bs :: post) with ([DPassive bs] ++ post). rewrite act_from_app. cbn [length].
    change (act_from dslot (N.of_nat (length pre)) [DPassive bs]) with (@nil N). cbn [app].
    apply act_from_shift. intros j Hj. unfold unskip. destruct (N.ltb_spec j (N.of_nat (length pre))); [lia|reflexivity].
Qed.

(* the same verdict; on success the same initial state, the same dropped segments, and environments in which every call gives
   the same result *)
Definition inst_equiv_b (r r' : inst_result_b) : Prop :=
  match r, r' with
  | IOkB E s0 dr, IOkB E' s0' dr' =>
      s0' = s0 /\ dr' = dr /\ forall k fuel f args s d, run_mod_b E' k fuel f args s d = run_mod_b E k fuel f args s d
  | ITrapB, ITrapB | IWrongB, IWrongB | IExhaustedB, IExhaustedB => True
  | _, _ => False
  end.

Section InstGcData.
  Variable im im' : imod.
  Variable lslot : N -> N -> N.
  Variable fslot gslot mslot tslot dslot : N -> N.
  Variable pre post : list dseg.
  Variable bs : list N.
  Notation p := (N.of_nat (length pre)).
  Notation dslot' := (fun j => dslot (unskip p j)).

  (* the output module: the passive segment number [p] deleted, nothing else changed but the bodies, whose data indices are renamed *)
  Hypothesis H_datas : im_datas im = pre ++ DPassive bs :: post.
  Hypothesis H_datas' : im_datas im' = pre ++ post.
  Hypothesis H_tys : im_tys im' = im_tys im.
  Hypothesis H_globals : im_globals im' = im_globals im.
  Hypothesis H_mem : im_mem im' = im_mem im.
  Hypothesis H_table : im_table im' = im_table im.
  Hypothesis H_elems : im_elems im' = im_elems im.
  Hypothesis H_start : im_start im' = im_start im.
  Hypothesis H_finj : forall i j, fslot i = fslot j -> i = j.
  Hypothesis H_dinj : forall i j, dslot i = dslot j -> i = j.
  Hypothesis H_surj : forall j d', nth_optN j (im_funcs im') = Some d' -> exists d, nth_optN j (im_funcs im) = Some d.
  (* function by function: the output body; NO LIVE PART MENTIONS THE DELETED SEGMENT *)
  Hypothesis H_fn : forall i ti ls body, nth_optN i (im_funcs im) = Some (ti, ls, body) ->
    nth_optN i (im_funcs im') = Some (ti, ls, out_body (cx_std (im_tys im)) (ecx_data (skip p)) body) /\
    forallb offset_ok (ops_of (live body)) = true /\
    forallb (decodable (cx_std (im_tys im))) (ops_of (live body)) = true /\
    ~ In p (datas_used (live body)).

  Lemma inst_pre_gc : inst_pre im' gslot mslot tslot = inst_pre im gslot mslot tslot.
  Proof.
    unfold inst_pre, tbl0, pages0, maxp0. rewrite H_globals, H_mem, H_table, H_elems, H_datas, H_datas'.
    destruct (inst_globals gslot 0 (im_globals im) []) as [gl|]; [|reflexivity].
    rewrite (inst_datas_dropped gslot mslot gl _ _ _ (dropped_mid pre bs post)). reflexivity.
  Qed.

  Lemma inst_run_gc tbl : forall k fuel f args s d,
    run_mod_b (benv_of im' tbl lslot fslot gslot mslot tslot dslot') k fuel f args s d =
    run_mod_b (benv_of im tbl lslot fslot gslot mslot tslot dslot) k fuel f args s d.
  Proof.
    rewrite !benv_of_eq.
    apply (bulk_roundtrip_equiv_datas (cmod_of im tbl) (cmod_of im' tbl) (im_datas im) (im_datas im') lslot fslot gslot mslot tslot
             dslot dslot' (skip p)).
    - exact H_tys.
    - reflexivity.
    - exact H_surj.
    - exact H_finj.
    - exact H_dinj.
    - intros i j H. apply H_dinj in H. apply (unskip_inj _ _ _ H).
    - intros i ti ls body Hi. destruct (H_fn i ti ls body Hi) as (Hi' & Ho & Hd & Hp).
      split; [exact Hi'|]. split; [exact Ho|]. split; [exact Hd|].
      intros d Hu. assert (Hne : d <> p) by (intros ->; exact (Hp Hu)).
      split; [cbn beta; rewrite (unskip_skip _ _ Hne); reflexivity|].
      rewrite H_datas, H_datas'. rewrite (nth_optN_skip pre post (DPassive bs) d Hne). reflexivity.
  Qed.

  (* 1. instantiation of the collected module, its remaining segments renumbered: the same *)
  Theorem inst_dropping_unused_data : forall fuel k,
    inst_equiv_b (instantiate_b fuel k im lslot fslot gslot mslot tslot dslot)
                 (instantiate_b fuel k im' lslot fslot gslot mslot tslot dslot').
  Proof.
    intros fuel k. unfold instantiate_b. rewrite inst_pre_gc.
    destruct (inst_pre im gslot mslot tslot) as [[tbl s0]| |]; cbn [inst_equiv_b]; try exact I.
    rewrite H_start, H_datas, H_datas', (active_ids_skip dslot pre bs post), <- H_datas.
    destruct (im_start im) as [f|].
    - rewrite inst_run_gc.
      destruct (run_mod_b (benv_of im tbl lslot fslot gslot mslot tslot dslot) k fuel (fslot f) [] s0 (active_ids dslot (im_datas im)))
        as [[[s d]|j [s d]|[| |] [s d]| |]|]; cbn [after_start_b inst_equiv_b]; try exact I.
      destruct (stk s); cbn [inst_equiv_b]; [|exact I].
      split; [reflexivity|]. split; [reflexivity|]. apply inst_run_gc.
    - cbn [inst_equiv_b]. split; [reflexivity|]. split; [reflexivity|]. apply inst_run_gc.
  Qed.

  (* 2. instantiate, then call any function on any arguments (any depth, any fuel): the same *)
  Theorem inst_then_call_dropping_unused_data : forall fuel k k2 fuel2 f args,
    call_after_b (instantiate_b fuel k im' lslot fslot gslot mslot tslot dslot') k2 fuel2 f args =
    call_after_b (instantiate_b fuel k im lslot fslot gslot mslot tslot dslot) k2 fuel2 f args.
  Proof.
    intros fuel k k2 fuel2 f args. pose proof (inst_dropping_unused_data fuel k) as H.
    destruct (instantiate_b fuel k im lslot fslot gslot mslot tslot dslot) as [E s0 dr| | |],
             (instantiate_b fuel k im' lslot fslot gslot mslot tslot dslot') as [E' s0' dr'| | |];
      cbn [inst_equiv_b] in H; try contradiction; try reflexivity.
    destruct H as (-> & -> & Hr). cbn [call_after_b]. f_equal. apply Hr.
  Qed.
End InstGcData.


(* ================================================================== 8. instantiation of the renamed module, in full *)
(* the analogue of [inst_roundtrip] / [inst_then_call_roundtrip] of Proofs/Inst.v for [instantiate_b]: initialisers, element segments
   and start renamed, functions reordered, bodies re-encoded - and the data segments of the output ANY list that (a) writes the same
   bytes at instantiation, (b) gives the active segments the same identities, (c) holds, at the renumbered index, the bytes of every
   segment a live part mentions.  Two ways of discharging (a) and (b) follow: the segments kept in order ([inst_datas_kept]), one
   unused passive segment deleted ([dropped_mid], [active_ids_skip]) *)
Section InstRoundtripB.
  Variable im im' : imod.
  Variable lslot lslot' : N -> N -> N.
  Variable fslot gslot mslot tslot dslot fslot' gslot' mslot' tslot' dslot' : N -> N.
  Variable cxo : N -> pctx.
  Variable ecxo : N -> ectx.
  Variable rf rg rtb rm : N -> N.
  Notation Mof tbl := (env_of (cmod_of im tbl) lslot fslot gslot mslot tslot).
  Notation Mof' tbl := (env_of (cmod_of im' (map (option_map rf) tbl)) lslot' fslot' gslot' mslot' tslot').
  Notation Eof tbl := (benv_of im tbl lslot fslot gslot mslot tslot dslot).
  Notation Eof' tbl := (benv_of im' (map (option_map rf) tbl) lslot' fslot' gslot' mslot' tslot' dslot').

  (* initialisers, element segments, start: renamed; the slot maps compensate (as [renamed] of Proofs/Inst.v, but for the data) *)
  Hypothesis H_globals : im_globals im' = map (ren_glob rg) (im_globals im).
  Hypothesis H_mem : im_mem im' = im_mem im.
  Hypothesis H_table : im_table im' = im_table im.
  Hypothesis H_elems : im_elems im' = map (ren_eseg rf rg rtb) (im_elems im).
  Hypothesis H_start : im_start im' = option_map rf (im_start im).
  Hypothesis H_gslot : forall g, gslot' (rg g) = gslot g.
  Hypothesis H_gpos : forall k, (k < N.of_nat (length (im_globals im)))%N -> gslot' k = gslot k.
  Hypothesis H_tslot : forall tb, tslot' (rtb tb) = tslot tb.
  Hypothesis H_mslot : forall mi, mslot' (rm mi) = mslot mi.
  (* (a) and (b) *)
  Hypothesis H_idatas : forall gl pgs m, inst_datas gslot' mslot' gl pgs (im_datas im') m = inst_datas gslot mslot gl pgs (im_datas im) m.
  Hypothesis H_active : active_ids dslot' (im_datas im') = active_ids dslot (im_datas im).
  (* the premises of [bulk_roundtrip_equiv], for whatever table instantiation builds *)
  Hypothesis H_fslot : forall i, fslot' (rf i) = fslot i.
  Hypothesis H_inj : forall i i2 d d2, nth_optN i (im_funcs im) = Some d -> nth_optN i2 (im_funcs im) = Some d2 ->
    fslot i = fslot i2 -> i = i2.
  Hypothesis H_surj : forall j d', nth_optN j (im_funcs im') = Some d' -> exists i d, nth_optN i (im_funcs im) = Some d /\ rf i = j.
  Hypothesis H_fn : forall tbl i ti ls body, nth_optN i (im_funcs im) = Some (ti, ls, body) ->
    fn_ok (Mof tbl) (Mof' tbl) cxo ecxo (fslot i) body /\
    exists ti' ls', nth_optN (rf i) (im_funcs im') = Some (ti', ls', out_body (cxo (fslot i)) (ecxo (fslot i)) body) /\
                    nth_optN ti' (im_tys im') = nth_optN ti (im_tys im) /\
                    frames_agree (Mof tbl) (Mof' tbl) (fslot i) ti ls ls' body.
  Hypothesis H_dinj : forall i j, dslot i = dslot j -> i = j.
  Hypothesis H_dinj' : forall i j, dslot' i = dslot' j -> i = j.
  (* (c) *)
  Hypothesis H_dfn : forall i ti ls body, nth_optN i (im_funcs im) = Some (ti, ls, body) ->
    (forall d, In d (datas_used (live body)) ->
       dslot' (rd (cxo (fslot i)) (ecxo (fslot i)) d) = dslot d /\
       option_map seg_bytes (nth_optN (rd (cxo (fslot i)) (ecxo (fslot i)) d) (im_datas im')) = option_map seg_bytes (nth_optN d (im_datas im))) /\
    (forall mi, In mi (bulk_mems_used (live body)) -> mslot' (Proofs.SemCore.rm (cxo (fslot i)) (ecxo (fslot i)) mi) = mslot mi).

  (* everything before the start function: the same state; the table, renamed *)
  Lemma inst_pre_b : inst_pre im' gslot' mslot' tslot' =
    pres_map (fun p => (map (option_map rf) (fst p), snd p)) (inst_pre im gslot mslot tslot).
  Proof.
    unfold inst_pre. rewrite H_globals, (inst_globals_ren rg gslot gslot' H_gslot) by (intros j Hj; apply H_gpos; lia).
    destruct (inst_globals gslot 0 (im_globals im) []) as [gl|]; [|reflexivity].
    assert (Ht : tbl0 im' = map (option_map rf) (tbl0 im)).
    { unfold tbl0. rewrite H_table. destruct (im_table im) as [[n mx]|]; [|reflexivity]. symmetry. apply map_repeat_none. }
    rewrite H_elems, Ht, (inst_elems_ren rf rg rtb gslot tslot gslot' tslot' H_gslot H_tslot).
    destruct (inst_elems gslot tslot gl (im_elems im) (tbl0 im)) as [tbl| |]; cbn [pres_map]; try reflexivity.
    assert (Hp : pages0 im' = pages0 im) by (unfold pages0; rewrite H_mem; reflexivity).
    assert (Hm : maxp0 im' = maxp0 im) by (unfold maxp0; rewrite H_mem; reflexivity).
    rewrite Hp, Hm, H_idatas.
    destruct (inst_datas gslot mslot gl (pages0 im) (im_datas im) []) as [m| |]; reflexivity.
  Qed.

  Lemma inst_run_b tbl : forall k fuel f args s d,
    run_mod_b (Eof' tbl) k fuel f args s d = run_mod_b (Eof tbl) k fuel f args s d.
  Proof.
    rewrite !benv_of_eq.
    exact (bulk_roundtrip_equiv (cmod_of im tbl) (cmod_of im' (map (option_map rf) tbl)) (im_datas im) (im_datas im') lslot lslot'
             fslot gslot mslot tslot dslot fslot' gslot' mslot' tslot' dslot' cxo ecxo rf H_fslot H_inj H_surj (H_fn tbl) eq_refl
             H_dinj H_dinj' H_dfn).
  Qed.

  (* 1. instantiation of the renamed module: same verdict, same state, same dropped segments, every call the same *)
  Theorem inst_b_roundtrip : forall fuel k,
    inst_equiv_b (instantiate_b fuel k im lslot fslot gslot mslot tslot dslot)
                 (instantiate_b fuel k im' lslot' fslot' gslot' mslot' tslot' dslot').
  Proof.
    intros fuel k. unfold instantiate_b. rewrite inst_pre_b.
    destruct (inst_pre im gslot mslot tslot) as [[tbl s0]| |]; cbn [pres_map fst snd inst_equiv_b]; try exact I.
    rewrite H_start, H_active.
    destruct (im_start im) as [f|]; cbn [option_map].
    - rewrite H_fslot, inst_run_b.
      destruct (run_mod_b (Eof tbl) k fuel (fslot f) [] s0 (active_ids dslot (im_datas im)))
        as [[[s d]|j [s d]|[| |] [s d]| |]|]; cbn [after_start_b inst_equiv_b]; try exact I.
      destruct (stk s); cbn [inst_equiv_b]; [|exact I].
      split; [reflexivity|]. split; [reflexivity|]. apply inst_run_b.
    - cbn [inst_equiv_b]. split; [reflexivity|]. split; [reflexivity|]. apply inst_run_b.
  Qed.

  (* 2. instantiate, then call the function of any identity on any arguments (any depth, any fuel): the same *)
  Theorem inst_b_then_call_roundtrip : forall fuel k k2 fuel2 f args,
    call_after_b (instantiate_b fuel k im' lslot' fslot' gslot' mslot' tslot' dslot') k2 fuel2 f args =
    call_after_b (instantiate_b fuel k im lslot fslot gslot mslot tslot dslot) k2 fuel2 f args.
  Proof.
    intros fuel k k2 fuel2 f args. pose proof (inst_b_roundtrip fuel k) as H.
    destruct (instantiate_b fuel k im lslot fslot gslot mslot tslot dslot) as [E s0 dr| | |],
             (instantiate_b fuel k im' lslot' fslot' gslot' mslot' tslot' dslot') as [E' s0' dr'| | |];
      cbn [inst_equiv_b] in H; try contradiction; try reflexivity.
    destruct H as (-> & -> & Hr). cbn [call_after_b]. f_equal. apply Hr.
  Qed.
End InstRoundtripB.

(* ---- discharging (a) and (b) when walrus keeps every data segment, in order (no GC): the segments renamed like the other items,
   positions keeping their identities *)
Lemma act_from_ren rg rm dslot : forall ds k, act_from dslot k (map (ren_dseg rg rm) ds) = act_from dslot k ds.
Proof.
  induction ds as [|[mi off bs|bs] ds IH]; intros k; [reflexivity| |]; unfold act_from in *; cbn [map ren_dseg numbered flat_map fst snd];
    rewrite IH; reflexivity.
Qed.
Lemma inst_datas_kept rg rm gslot mslot gslot' mslot' dslot dslot' ds :
  (forall g, gslot' (rg g) = gslot g) -> (forall mi, mslot' (rm mi) = mslot mi) ->
  (forall k, (k < N.of_nat (length ds))%N -> dslot' k = dslot k) ->
  (forall gl pgs m, inst_datas gslot' mslot' gl pgs (map (ren_dseg rg rm) ds) m = inst_datas gslot mslot gl pgs ds m) /\
  active_ids dslot' (map (ren_dseg rg rm) ds) = active_ids dslot ds /\
  (forall d, option_map seg_bytes (nth_optN d (map (ren_dseg rg rm) ds)) = option_map seg_bytes (nth_optN d ds)).
Proof.
  intros Hg Hm Hpos. split; [|split].
  - intros gl pgs m. apply (inst_datas_ren rg rm gslot mslot gslot' mslot' Hg Hm).
  - change (act_from dslot' 0 (map (ren_dseg rg rm) ds) = act_from dslot 0 ds). rewrite act_from_ren.
    apply act_from_ext. intros j Hj. apply Hpos. lia.
  - intros d. rewrite nth_optN_map. destruct (nth_optN d ds) as [[mi off bs|bs]|]; reflexivity.
Qed.

Print Assumptions bulk_op_renamed.
Print Assumptions mem_copy_spec.
Print Assumptions mem_fill_spec.
Print Assumptions mem_init_spec.
Print Assumptions run_body_b_frames.
Print Assumptions bulk_mod_sem_renamed.
Print Assumptions bulk_roundtrip_equiv_env.
Print Assumptions bulk_roundtrip_equiv.
Print Assumptions bulk_roundtrip_equiv_datas.
Print Assumptions run_mod_b_datas_ext.
Print Assumptions dropping_unused_data_is_invisible.
Print Assumptions inst_dropping_unused_data.
Print Assumptions inst_then_call_dropping_unused_data.
Print Assumptions inst_b_roundtrip.
Print Assumptions inst_b_then_call_roundtrip.
Print Assumptions inst_datas_kept.
Print Assumptions renumbering_without_renaming_differs.
Print Assumptions RTB.rtb_equiv.
Print Assumptions ExB.third_init_traps.
