(* C06, behavioural half - removing the unreachable functions (and renumbering the kept ones) does
   not change behaviour, in the module-level call semantics of Proofs/SemCalls.v.

     restrict keep M            drops every function outside [keep] and every export pointing outside it
     closed_under keep M        the kept bodies only mention kept functions (ICall / IRefFunc, recursively)
     state_closed keep st       every function reference stored in stack / table / globals is kept
     restrict_preserves_behaviour, run_closed, run_exports_sequence
     gc_preserves_behaviour     composition with [rename_preserves_behaviour]
     reachable_is_closed        keep := reachable from the exports and the initial state (least fixpoint
                                over a finite universe, executable) satisfies the premises
   The per-operator interface: [step_op] maps keep-closed states to keep-closed states
   ([step_op_closed]); discharged for the concrete operator set [cop] for EVERY keep. *)
From Coq Require Import List NArith Bool String Lia PeanoNat.
From WV Require Import Proofs.SemCalls.
Import ListNotations.
Local Open Scope N_scope.
Local Notation length := List.length.

(* ------------------------------------------------------------------ small list facts *)
Definition memN (x : N) (l : list N) : bool := existsb (N.eqb x) l.

Lemma memN_In x l : memN x l = true <-> In x l.
Proof.
  unfold memN. rewrite existsb_exists. split.
  - intros (y & Hy & E). apply N.eqb_eq in E. now subst.
  - intros H. exists x. split; [exact H|apply N.eqb_refl].
Qed.

Lemma filter_mono_length (p q : N -> bool) (l : list N) :
  (forall x, In x l -> p x = true -> q x = true) ->
  (length (filter p l) <= length (filter q l))%nat /\
  (length (filter p l) = length (filter q l) -> filter q l = filter p l).
Proof.
  induction l as [|a l IH]; intros H; [split; reflexivity|].
  destruct IH as [IH1 IH2]; [intros x Hx; apply H; now right|].
  cbn [filter]. pose proof (H a (or_introl eq_refl)) as Ha.
  destruct (p a) eqn:Pa.
  - rewrite (Ha eq_refl). cbn [length]. split; [lia|]. intros E. f_equal. apply IH2. lia.
  - destruct (q a); cbn [length]; split; try lia; auto.
Qed.

Lemma filter_length_le' (p : N -> bool) (l : list N) : (length (filter p l) <= length l)%nat.
Proof. induction l as [|a l IH]; cbn [filter length]; [lia|]. destruct (p a); cbn [length]; lia. Qed.

(* ------------------------------------------------------------------ function references of the state *)
Definition value_refs (v : value) : list N := match v with VNum _ => [] | VFuncRef f => [f] end.
Definition slot_refs (o : option N) : list N := match o with Some f => [f] | None => [] end.
Definition state_refs (st : state) : list N :=
  flat_map value_refs (stack st) ++ flat_map slot_refs (table st) ++ flat_map value_refs (globals st).

Section Closed.
  Variable keep : N -> bool.

  Definition value_closed (v : value) : bool := match v with VNum _ => true | VFuncRef f => keep f end.
  Definition slot_closed (o : option N) : bool := match o with Some f => keep f | None => true end.
  Definition state_closedb (st : state) : bool :=
    forallb value_closed (stack st) && forallb slot_closed (table st) && forallb value_closed (globals st).
  Definition state_closed (st : state) : Prop := state_closedb st = true.

  Lemma state_closed_inv st :
    state_closed st ->
    forallb value_closed (stack st) = true /\ forallb slot_closed (table st) = true /\
    forallb value_closed (globals st) = true.
  Proof.
    unfold state_closed, state_closedb. intros H.
    apply andb_true_iff in H. destruct H as [H H3]. apply andb_true_iff in H. tauto.
  Qed.

  Lemma state_closed_intro s t g :
    forallb value_closed s = true -> forallb slot_closed t = true -> forallb value_closed g = true ->
    state_closed (mkState s t g).
  Proof. unfold state_closed, state_closedb. cbn [stack table globals]. now intros -> -> ->. Qed.

  Lemma state_closed_set_stack s st :
    forallb value_closed s = true -> state_closed st -> state_closed (set_stack s st).
  Proof.
    intros Hs H. destruct (state_closed_inv st H) as (_ & Ht & Hg).
    unfold set_stack. now apply state_closed_intro.
  Qed.

  (* closedness says exactly: every stored reference is kept *)
  Lemma state_closed_of_refs st :
    (forall f, In f (state_refs st) -> keep f = true) -> state_closed st.
  Proof.
    intros H. destruct st as [s t g]. unfold state_refs in H. cbn [stack table globals] in H.
    apply state_closed_intro; apply forallb_forall.
    - intros [n|f] Hv; [reflexivity|]. apply H. apply in_or_app. left.
      apply in_flat_map. exists (VFuncRef f). split; [exact Hv|now left].
    - intros [f|] Hv; [|reflexivity]. apply H. apply in_or_app. right. apply in_or_app. left.
      apply in_flat_map. exists (Some f). split; [exact Hv|now left].
    - intros [n|f] Hv; [reflexivity|]. apply H. apply in_or_app. right. apply in_or_app. right.
      apply in_flat_map. exists (VFuncRef f). split; [exact Hv|now left].
  Qed.

  Lemma state_refs_of_closed st f :
    state_closed st -> In f (state_refs st) -> keep f = true.
  Proof.
    intros H Hf. destruct (state_closed_inv st H) as (Hs & Ht & Hg).
    unfold state_refs in Hf. rewrite !in_app_iff, !in_flat_map in Hf.
    destruct Hf as [(v & Hv & Hin)|[(v & Hv & Hin)|(v & Hv & Hin)]].
    - rewrite forallb_forall in Hs. specialize (Hs v Hv). destruct v; cbn in Hin; [tauto|].
      destruct Hin as [<-|[]]. exact Hs.
    - rewrite forallb_forall in Ht. specialize (Ht v Hv). destruct v; cbn in Hin; [|tauto].
      destruct Hin as [<-|[]]. exact Ht.
    - rewrite forallb_forall in Hg. specialize (Hg v Hv). destruct v; cbn in Hin; [tauto|].
      destruct Hin as [<-|[]]. exact Hg.
  Qed.

  Definition res_closed (r : res) : Prop :=
    match r with RNormal s | RBr _ s | RReturn s => state_closed s | RTrap | ROOF => True end.
  Definition outcome_closed (o : outcome) : Prop :=
    match o with Done s => state_closed s | Trap | OutOfFuel => True end.

  Lemma fn_exit_closed r : res_closed r -> outcome_closed (fn_exit r).
  Proof. destruct r as [s|[|l] s|s| |]; cbn; auto. Qed.
End Closed.

(* ------------------------------------------------------------------ restriction of a module *)
Section SemGc.
  Variable op : Type.
  Variable step_op : op -> state -> option state.

  (* the function indices an instruction mentions, recursively *)
  Fixpoint instr_refs (i : instr op) : list N :=
    match i with
    | ICall f => [f]
    | IRefFunc f => [f]
    | IBlock b => flat_map instr_refs b
    | ILoop b => flat_map instr_refs b
    | IIf t e => flat_map instr_refs t ++ flat_map instr_refs e
    | _ => []
    end.
  Definition body_refs (b : body op) : list N := flat_map instr_refs b.

  Section Keep.
    Variable keep : N -> bool.

    Definition body_closed (b : body op) : bool := forallb keep (body_refs b).
    Definition closed_under (M : module op) : Prop :=
      forall f b, keep f = true -> funcs op M f = Some b -> body_closed b = true.

    Definition restrict (M : module op) : module op :=
      mkModule op
        (fun f => if keep f then funcs op M f else None)
        (fun n => match exports op M n with
                  | Some f => if keep f then Some f else None
                  | None => None
                  end).

    Lemma restrict_dropped M f : keep f = false -> funcs op (restrict M) f = None.
    Proof. intros H. cbn [funcs restrict]. now rewrite H. Qed.
    Lemma restrict_kept M f : keep f = true -> funcs op (restrict M) f = funcs op M f.
    Proof. intros H. cbn [funcs restrict]. now rewrite H. Qed.
    Lemma restrict_exports_kept M n f : exports op (restrict M) n = Some f -> keep f = true /\ exports op M n = Some f.
    Proof.
      cbn [exports restrict]. destruct (exports op M n) as [g|]; [|discriminate].
      destruct (keep g) eqn:E; [|discriminate]. intros H. injection H as <-. auto.
    Qed.

    Lemma body_closed_cons i rest :
      body_closed (i :: rest) = forallb keep (instr_refs i) && body_closed rest.
    Proof. unfold body_closed, body_refs. cbn [flat_map]. apply forallb_app. Qed.

    (* the per-operator interface: a non-call operator cannot invent a function reference *)
    Hypothesis step_op_closed :
      forall o st st', state_closed keep st -> step_op o st = Some st' -> state_closed keep st'.

    Notation sc := (state_closed keep).
    Notation rc := (res_closed keep).

    Lemma do_call_restrict M (HM : closed_under M) (ex ex' : body op -> state -> res)
          (Hex : forall b st, body_closed b = true -> sc st -> ex' b st = ex b st /\ rc (ex b st))
          f rest st :
      keep f = true -> body_closed rest = true -> sc st ->
      do_call op ex' (restrict M) f rest st = do_call op ex M f rest st /\ rc (do_call op ex M f rest st).
    Proof.
      intros Hf Hr Hs. unfold do_call. rewrite (restrict_kept M f Hf).
      destruct (funcs op M f) as [fb|] eqn:E; [|split; [reflexivity|exact I]].
      destruct (Hex fb st (HM f fb Hf E) Hs) as [E1 C1]. rewrite E1.
      destruct (ex fb st) as [s|[|l] s|s| |]; cbn [fn_exit res_closed] in *;
        try (split; [reflexivity|exact I]); apply Hex; assumption.
    Qed.

    Lemma exec_restrict M (HM : closed_under M) : forall fuel b st,
      body_closed b = true -> sc st ->
      exec op step_op fuel (restrict M) b st = exec op step_op fuel M b st
      /\ rc (exec op step_op fuel M b st).
    Proof.
      induction fuel as [|k IH]; intros b st Hb Hs; [split; [reflexivity|exact I]|].
      destruct b as [|i rest]; [split; [reflexivity|exact Hs]|].
      pose proof Hb as Hb0.
      rewrite body_closed_cons in Hb. apply andb_true_iff in Hb. destruct Hb as [Hi Hr].
      destruct (state_closed_inv keep st Hs) as (Hst & Htb & Hgl).
      pose proof (do_call_restrict M HM (exec op step_op k M) (exec op step_op k (restrict M)) IH) as DC.
      destruct i as [f|f| | |o|b1|b1|t e|l|l| ]; cbn [exec].
      - (* call *) cbn [instr_refs forallb] in Hi. rewrite andb_true_r in Hi. now apply DC.
      - (* ref.func *) cbn [instr_refs forallb] in Hi. rewrite andb_true_r in Hi.
        apply IH; [exact Hr|]. apply state_closed_set_stack; [|exact Hs].
        cbn [forallb value_closed]. now rewrite Hi, Hst.
      - (* call_ref *)
        destruct (stack st) as [|[n|g] s]; try (split; [reflexivity|exact I]).
        cbn [forallb value_closed] in Hst. apply andb_true_iff in Hst. destruct Hst as [Hg Hs'].
        apply DC; [exact Hg|exact Hr|]. now apply state_closed_set_stack.
      - (* call_indirect *)
        destruct (stack st) as [|[n|g] s]; try (split; [reflexivity|exact I]).
        cbn [forallb value_closed] in Hst.
        destruct (nth_error (table st) (N.to_nat n)) as [[g|]|] eqn:En; try (split; [reflexivity|exact I]).
        apply nth_error_In in En. rewrite forallb_forall in Htb. specialize (Htb _ En).
        apply DC; [exact Htb|exact Hr|]. now apply state_closed_set_stack.
      - (* other *)
        destruct (step_op o st) as [st1|] eqn:Eo; [|split; [reflexivity|exact I]].
        apply IH; [exact Hr|]. exact (step_op_closed o st st1 Hs Eo).
      - (* block *)
        change (body_closed b1 = true) in Hi.
        destruct (IH b1 st Hi Hs) as [E1 C1]. rewrite E1.
        destruct (exec op step_op k M b1 st) as [s1|[|l] s1|s1| |]; cbn [res_closed] in *;
          try (split; [reflexivity|assumption]); now apply IH.
      - (* loop *)
        change (body_closed b1 = true) in Hi.
        destruct (IH b1 st Hi Hs) as [E1 C1]. rewrite E1.
        destruct (exec op step_op k M b1 st) as [s1|[|l] s1|s1| |]; cbn [res_closed] in *;
          try (split; [reflexivity|assumption]); now apply IH.
      - (* if *)
        destruct (stack st) as [|[c|g] s]; try (split; [reflexivity|exact I]).
        cbn [forallb value_closed] in Hst.
        cbn [instr_refs] in Hi. rewrite forallb_app in Hi. apply andb_true_iff in Hi. destruct Hi as [Ht He].
        apply IH; [|now apply state_closed_set_stack].
        rewrite body_closed_cons, Hr, andb_true_r.
        destruct (c =? 0); assumption.
      - (* br *) split; [reflexivity|exact Hs].
      - (* br_if *)
        destruct (stack st) as [|[c|g] s]; try (split; [reflexivity|exact I]).
        cbn [forallb value_closed] in Hst.
        destruct (c =? 0); [apply IH; [exact Hr|now apply state_closed_set_stack]|].
        split; [reflexivity|]. cbn [res_closed]. now apply state_closed_set_stack.
      - (* return *) split; [reflexivity|exact Hs].
    Qed.

    (* ---------------------------------------------------------------- the theorems *)
    Theorem restrict_preserves_behaviour : forall fuel M f st,
      closed_under M -> sc st -> keep f = true ->
      run op step_op fuel (restrict M) f st = run op step_op fuel M f st.
    Proof.
      intros fuel M f st HM Hs Hf. unfold run. rewrite (restrict_kept M f Hf).
      destruct (funcs op M f) as [b|] eqn:E; [|reflexivity].
      now destruct (exec_restrict M HM fuel b st (HM f b Hf E) Hs) as [-> _].
    Qed.

    Theorem run_closed : forall fuel M f st,
      closed_under M -> sc st -> keep f = true ->
      outcome_closed keep (run op step_op fuel M f st).
    Proof.
      intros fuel M f st HM Hs Hf. unfold run.
      destruct (funcs op M f) as [b|] eqn:E; [|exact I].
      apply fn_exit_closed. now destruct (exec_restrict M HM fuel b st (HM f b Hf E) Hs).
    Qed.

    (* exported entry points: the export table of [restrict M] still has every kept export *)
    Theorem run_export_restrict : forall fuel M n st,
      closed_under M -> sc st -> (forall f, exports op M n = Some f -> keep f = true) ->
      run_export op step_op fuel (restrict M) n st = run_export op step_op fuel M n st.
    Proof.
      intros fuel M n st HM Hs Hn. unfold run_export. cbn [exports restrict].
      destruct (exports op M n) as [f|]; [|reflexivity].
      rewrite (Hn f eq_refl). apply restrict_preserves_behaviour; auto.
    Qed.

    Theorem run_export_closed : forall fuel M n st,
      closed_under M -> sc st -> (forall f, exports op M n = Some f -> keep f = true) ->
      outcome_closed keep (run_export op step_op fuel M n st).
    Proof.
      intros fuel M n st HM Hs Hn. unfold run_export.
      destruct (exports op M n) as [f|]; [|exact I]. now apply run_closed; auto.
    Qed.

    (* a sequence of calls on exports, threading the state (stops at the first trap / fuel exhaustion) *)
    Fixpoint run_exports (fuel : nat) (M : module op) (ns : list string) (st : state) : outcome :=
      match ns with
      | [] => Done st
      | n :: ns' =>
          match run_export op step_op fuel M n st with
          | Done s => run_exports fuel M ns' s
          | o => o
          end
      end.

    Theorem run_exports_sequence : forall fuel M ns st,
      closed_under M -> sc st ->
      (forall n f, In n ns -> exports op M n = Some f -> keep f = true) ->
      run_exports fuel (restrict M) ns st = run_exports fuel M ns st
      /\ outcome_closed keep (run_exports fuel M ns st).
    Proof.
      intros fuel M ns. induction ns as [|n ns IH]; intros st HM Hs Hk; [split; [reflexivity|exact Hs]|].
      cbn [run_exports].
      assert (Hn : forall f, exports op M n = Some f -> keep f = true) by (intros f; apply Hk; now left).
      rewrite (run_export_restrict fuel M n st HM Hs Hn).
      pose proof (run_export_closed fuel M n st HM Hs Hn) as C.
      destruct (run_export op step_op fuel M n st) as [s| |]; try (split; [reflexivity|exact I]).
      apply IH; auto. intros n' f Hin. apply Hk. now right.
    Qed.

    (* the same with function indices instead of export names *)
    Fixpoint run_funcs (fuel : nat) (M : module op) (fs : list N) (st : state) : outcome :=
      match fs with
      | [] => Done st
      | f :: fs' =>
          match run op step_op fuel M f st with
          | Done s => run_funcs fuel M fs' s
          | o => o
          end
      end.

    Theorem run_funcs_sequence : forall fuel M fs st,
      closed_under M -> sc st -> forallb keep fs = true ->
      run_funcs fuel (restrict M) fs st = run_funcs fuel M fs st
      /\ outcome_closed keep (run_funcs fuel M fs st).
    Proof.
      intros fuel M fs. induction fs as [|f fs IH]; intros st HM Hs Hk; [split; [reflexivity|exact Hs]|].
      cbn [run_funcs forallb] in *. apply andb_true_iff in Hk. destruct Hk as [Hf Hk].
      rewrite (restrict_preserves_behaviour fuel M f st HM Hs Hf).
      pose proof (run_closed fuel M f st HM Hs Hf) as C.
      destruct (run op step_op fuel M f st) as [s| |]; try (split; [reflexivity|exact I]).
      now apply IH.
    Qed.

    (* ---------------------------------------------------------------- drop, then renumber *)
    Section Rename.
      Variables rho rho_inv : N -> N.
      Hypothesis rho_left_inv : forall f, rho_inv (rho f) = f.
      Hypothesis step_op_rename :
        forall o st, step_op o (rename_state rho st) = option_map (rename_state rho) (step_op o st).

      Theorem gc_preserves_behaviour : forall fuel M f st,
        closed_under M -> sc st -> keep f = true ->
        run op step_op fuel (rename_module op rho rho_inv (restrict M)) (rho f) (rename_state rho st)
        = rename_outcome rho (run op step_op fuel M f st).
      Proof.
        intros fuel M f st HM Hs Hf.
        rewrite (rename_preserves_behaviour op step_op rho rho_inv rho_left_inv step_op_rename).
        now rewrite restrict_preserves_behaviour.
      Qed.

      Theorem gc_preserves_export_behaviour : forall fuel M n st,
        closed_under M -> sc st -> (forall f, exports op M n = Some f -> keep f = true) ->
        run_export op step_op fuel (rename_module op rho rho_inv (restrict M)) n (rename_state rho st)
        = rename_outcome rho (run_export op step_op fuel M n st).
      Proof.
        intros fuel M n st HM Hs Hn.
        rewrite (export_call_same_behaviour op step_op rho rho_inv rho_left_inv step_op_rename).
        now rewrite run_export_restrict.
      Qed.
    End Rename.
  End Keep.
End SemGc.

(* ------------------------------------------------------------------ reachability over a finite universe *)
Section Reach.
  Variable op : Type.
  Variable univ : list N.            (* the finite function index range, e.g. [0, n) *)
  Variable M : module op.

  Definition succs (f : N) : list N :=
    match funcs op M f with Some b => body_refs op b | None => [] end.

  (* one round: what is already there, plus everything a member mentions - inside the universe *)
  Definition step_pred (S : list N) (g : N) : bool :=
    memN g S || existsb (fun f => memN g (succs f)) S.
  Definition rstep (S : list N) : list N := filter (step_pred S) univ.

  Fixpoint iter (k : nat) (S : list N) : list N :=
    match k with O => S | Datatypes.S k' => iter k' (rstep S) end.

  (* the least fixpoint: [length univ] rounds from the roots *)
  Definition reach (roots : list N) : list N :=
    iter (length univ) (filter (fun g => memN g roots) univ).

  Definition is_sub (S : list N) : Prop := S = filter (fun g => memN g S) univ.

  Lemma filter_is_sub p : is_sub (filter p univ).
  Proof.
    unfold is_sub. apply filter_ext_in. intros a Ha.
    destruct (p a) eqn:Pa.
    - symmetry. apply memN_In. apply filter_In. now split.
    - destruct (memN a (filter p univ)) eqn:E; [|reflexivity].
      apply memN_In in E. apply filter_In in E. destruct E as [_ E]. congruence.
  Qed.

  Lemma rstep_grows S :
    is_sub S ->
    (length S <= length (rstep S))%nat /\ (length S = length (rstep S) -> rstep S = S).
  Proof.
    intros H.
    destruct (filter_mono_length (fun g => memN g S) (step_pred S) univ) as [A B].
    { intros x _ Hx. unfold step_pred. now rewrite Hx. }
    rewrite <- H in A, B. exact (conj A B).
  Qed.

  Lemma iter_fix k S : rstep S = S -> iter k S = S.
  Proof. intros H. induction k as [|k IH]; cbn [iter]; [reflexivity|]. now rewrite H. Qed.

  Lemma iter_stable : forall k S,
    is_sub S -> (length univ <= length S + k)%nat -> rstep (iter k S) = iter k S.
  Proof.
    induction k as [|k IH]; intros S HS Hl; cbn [iter]; destruct (rstep_grows S HS) as [A B].
    - apply B. pose proof (filter_length_le' (step_pred S) univ) as L. fold (rstep S) in L. lia.
    - destruct (Nat.eq_dec (length S) (length (rstep S))) as [E|NE].
      + specialize (B E). rewrite B. now rewrite (iter_fix k S B).
      + apply IH; [apply filter_is_sub|lia].
  Qed.

  Lemma reach_stable roots : rstep (reach roots) = reach roots.
  Proof. unfold reach. apply iter_stable; [apply filter_is_sub|lia]. Qed.

  Lemma rstep_incl S g : In g univ -> In g S -> In g (rstep S).
  Proof.
    intros Hu Hg. apply filter_In. split; [exact Hu|].
    unfold step_pred. apply memN_In in Hg. now rewrite Hg.
  Qed.

  Lemma iter_incl : forall k S g, In g univ -> In g S -> In g (iter k S).
  Proof.
    induction k as [|k IH]; intros S g Hu Hg; cbn [iter]; [exact Hg|].
    apply IH; [exact Hu|]. now apply rstep_incl.
  Qed.

  Lemma reach_roots roots g : In g univ -> In g roots -> In g (reach roots).
  Proof.
    intros Hu Hg. unfold reach. apply iter_incl; [exact Hu|].
    apply filter_In. split; [exact Hu|]. now apply memN_In.
  Qed.

  Lemma reach_succ roots f g :
    In f (reach roots) -> In g (succs f) -> In g univ -> In g (reach roots).
  Proof.
    intros Hf Hg Hu. rewrite <- reach_stable. apply filter_In. split; [exact Hu|].
    unfold step_pred. apply orb_true_iff. right. apply existsb_exists.
    exists f. split; [exact Hf|now apply memN_In].
  Qed.

  (* it is the LEAST such set: anything containing the roots and closed under [succs] contains it *)
  Lemma iter_least (P : N -> Prop) :
    (forall f g, P f -> In g (succs f) -> P g) ->
    forall k S, (forall g, In g S -> P g) -> forall g, In g (iter k S) -> P g.
  Proof.
    intros HP. induction k as [|k IH]; intros S HS g Hg; cbn [iter] in Hg; [now apply HS|].
    apply (IH (rstep S)); [|exact Hg].
    intros g' Hg'. apply filter_In in Hg'. destruct Hg' as [_ Hg'].
    unfold step_pred in Hg'. apply orb_true_iff in Hg'. destruct Hg' as [Hg'|Hg'].
    - apply HS. now apply memN_In.
    - apply existsb_exists in Hg'. destruct Hg' as (f & Hf & Hfg). apply memN_In in Hfg.
      exact (HP f g' (HS f Hf) Hfg).
  Qed.

  Theorem reach_least roots (P : N -> Prop) :
    (forall g, In g roots -> P g) -> (forall f g, P f -> In g (succs f) -> P g) ->
    forall g, In g (reach roots) -> P g.
  Proof.
    intros HR HP g Hg. unfold reach in Hg. apply (iter_least P HP _ _) in Hg; [exact Hg|].
    intros g' Hg'. apply filter_In in Hg'. destruct Hg' as [_ Hg']. apply HR. now apply memN_In.
  Qed.

  (* roots: the exported functions (for a list of export names) and the references of the initial state *)
  Definition export_roots (names : list string) : list N :=
    flat_map (fun n => slot_refs (exports op M n)) names.
  Definition roots_of (names : list string) (st0 : state) : list N :=
    export_roots names ++ state_refs st0.

  Definition reachable (names : list string) (st0 : state) (g : N) : bool :=
    memN g (reach (roots_of names st0)).

  (* well-formedness: the module and the initial state only mention indices of the universe
     (what validation guarantees with univ = [0, number of functions)) *)
  Definition refs_in_univ : Prop :=
    forall f b g, funcs op M f = Some b -> In g (body_refs op b) -> In g univ.

  Theorem reachable_is_closed names st0 :
    refs_in_univ ->
    (forall g, In g (roots_of names st0) -> In g univ) ->
    let keep := reachable names st0 in
    closed_under op keep M /\ state_closed keep st0 /\
    (forall n f, In n names -> exports op M n = Some f -> keep f = true).
  Proof.
    intros Hwf Hroots keep. subst keep. unfold reachable. split; [|split].
    - intros f b Hf E. apply forallb_forall. intros g Hg. apply memN_In. apply memN_In in Hf.
      apply (reach_succ _ f g Hf); [unfold succs; now rewrite E|exact (Hwf f b g E Hg)].
    - apply state_closed_of_refs. intros f Hf. apply memN_In.
      assert (Hr : In f (roots_of names st0)) by (apply in_or_app; now right).
      apply reach_roots; [now apply Hroots|exact Hr].
    - intros n f Hn E. apply memN_In.
      assert (Hr : In f (roots_of names st0)).
      { apply in_or_app. left. apply in_flat_map. exists n. split; [exact Hn|]. rewrite E. now left. }
      apply reach_roots; [now apply Hroots|exact Hr].
  Qed.

  (* only the reachable functions need to be well-formed *)
  Theorem reachable_is_closed_weak names st0 :
    let keep := reachable names st0 in
    (forall f b g, keep f = true -> funcs op M f = Some b -> In g (body_refs op b) -> In g univ) ->
    (forall g, In g (roots_of names st0) -> In g univ) ->
    closed_under op keep M /\ state_closed keep st0 /\
    (forall n f, In n names -> exports op M n = Some f -> keep f = true).
  Proof.
    intros keep Hwf Hroots. subst keep. unfold reachable in *. split; [|split].
    - intros f b Hf E. apply forallb_forall. intros g Hg. apply memN_In.
      pose proof (Hwf f b g Hf E Hg) as Hu. apply memN_In in Hf.
      apply (reach_succ _ f g Hf); [unfold succs; now rewrite E|exact Hu].
    - apply state_closed_of_refs. intros f Hf. apply memN_In.
      assert (Hr : In f (roots_of names st0)) by (apply in_or_app; now right).
      apply reach_roots; [now apply Hroots|exact Hr].
    - intros n f Hn E. apply memN_In.
      assert (Hr : In f (roots_of names st0)).
      { apply in_or_app. left. apply in_flat_map. exists n. split; [exact Hn|]. rewrite E. now left. }
      apply reach_roots; [now apply Hroots|exact Hr].
  Qed.

  (* a reachable function really is reachable: root, or mentioned by a reachable one *)
  Theorem reachable_sound names st0 (P : N -> Prop) :
    (forall g, In g (roots_of names st0) -> P g) ->
    (forall f g, P f -> In g (succs f) -> P g) ->
    forall g, reachable names st0 g = true -> P g.
  Proof. intros HR HP g Hg. apply memN_In in Hg. exact (reach_least _ P HR HP g Hg). Qed.
End Reach.

(* the universe [0, n) *)
Definition range (n : nat) : list N := map N.of_nat (seq 0 n).
Lemma range_In n g : In g (range n) <-> g < N.of_nat n.
Proof.
  unfold range. rewrite in_map_iff. split.
  - intros (k & <- & Hk). apply in_seq in Hk. lia.
  - intros H. exists (N.to_nat g). split; [apply N2Nat.id|]. apply in_seq. lia.
Qed.

(* ------------------------------------------------------------------ "keep = reachable": the GC theorem *)
Section GcReachable.
  Variable op : Type.
  Variable step_op : op -> state -> option state.
  Variable n : nat.
  Variable M : module op.
  Variable names : list string.
  Variable st0 : state.
  Let keep := reachable op (range n) M names st0.

  Hypothesis step_op_closed :
    forall o st st', state_closed keep st -> step_op o st = Some st' -> state_closed keep st'.
  Hypothesis wf_bodies : forall f b g, funcs op M f = Some b -> In g (body_refs op b) -> g < N.of_nat n.
  Hypothesis wf_roots : forall g, In g (roots_of op M names st0) -> g < N.of_nat n.

  Variables rho rho_inv : N -> N.
  Hypothesis rho_left_inv : forall f, rho_inv (rho f) = f.
  Hypothesis step_op_rename :
    forall o st, step_op o (rename_state rho st) = option_map (rename_state rho) (step_op o st).

  Let gcM := rename_module op rho rho_inv (restrict op keep M).

  Lemma gc_reachable_premises :
    closed_under op keep M /\ state_closed keep st0 /\
    (forall nm f, In nm names -> exports op M nm = Some f -> keep f = true).
  Proof.
    apply reachable_is_closed.
    - intros f b g E Hg. apply range_In. exact (wf_bodies f b g E Hg).
    - intros g Hg. apply range_In. exact (wf_roots g Hg).
  Qed.

  (* one call on an export from the initial state *)
  Theorem gc_reachable_export : forall fuel nm,
    In nm names ->
    run_export op step_op fuel gcM nm (rename_state rho st0)
    = rename_outcome rho (run_export op step_op fuel M nm st0).
  Proof.
    intros fuel nm Hn. destruct gc_reachable_premises as (HM & Hs & Hx).
    apply (gc_preserves_export_behaviour op step_op keep step_op_closed rho rho_inv rho_left_inv step_op_rename);
      auto. intros f. now apply Hx.
  Qed.

  (* any sequence of calls on exports, threading the state *)
  Theorem gc_reachable_exports_sequence : forall fuel ns,
    (forall nm, In nm ns -> In nm names) ->
    run_exports op step_op fuel gcM ns (rename_state rho st0)
    = rename_outcome rho (run_exports op step_op fuel M ns st0).
  Proof.
    intros fuel ns Hns. destruct gc_reachable_premises as (HM & Hs & Hx).
    assert (G : forall ns st, (forall nm, In nm ns -> In nm names) -> state_closed keep st ->
              run_exports op step_op fuel gcM ns (rename_state rho st)
              = rename_outcome rho (run_exports op step_op fuel M ns st)).
    { clear ns Hns. induction ns as [|nm ns IH]; intros st Hin Hst; [reflexivity|].
      cbn [run_exports].
      assert (Hk : forall f, exports op M nm = Some f -> keep f = true)
        by (intros f; apply Hx; apply Hin; now left).
      unfold gcM at 1.
      rewrite (gc_preserves_export_behaviour op step_op keep step_op_closed rho rho_inv rho_left_inv
                 step_op_rename fuel M nm st HM Hst Hk).
      pose proof (run_export_closed op step_op keep step_op_closed fuel M nm st HM Hst Hk) as C.
      destruct (run_export op step_op fuel M nm st) as [s| |]; cbn [rename_outcome]; try reflexivity.
      apply IH; [intros nm' H'; apply Hin; now right|exact C]. }
    now apply G.
  Qed.
End GcReachable.

(* ------------------------------------------------------------------ the interface, for the concrete operators *)
Lemma upd_forallb {A} (p : A -> bool) : forall (l : list A) (k : nat) (x : A) l',
  forallb p l = true -> p x = true -> upd l k x = Some l' -> forallb p l' = true.
Proof.
  induction l as [|a l IH]; intros [|k] x l' Hl Hx H; cbn [upd] in H; try discriminate.
  - injection H as <-. cbn [forallb] in *. apply andb_true_iff in Hl. now rewrite Hx.
  - destruct (upd l k x) as [l1|] eqn:E; [|discriminate]. injection H as <-.
    cbn [forallb] in *. apply andb_true_iff in Hl. destruct Hl as [Ha Hl].
    rewrite Ha. exact (IH k x l1 Hl Hx E).
Qed.

(* holds for EVERY keep: these operators only move references around *)
Lemma cstep_closed (keep : N -> bool) : forall o st st',
  state_closed keep st -> cstep o st = Some st' -> state_closed keep st'.
Proof.
  intros o [s t g] st' Hc H. destruct (state_closed_inv keep _ Hc) as (Hs & Ht & Hg).
  cbn [stack table globals] in Hs, Ht, Hg.
  destruct o; cbn [cstep stack table globals set_stack] in H.
  - injection H as <-. now apply state_closed_intro.
  - destruct s as [|[a|a] [|[b|b] s]]; try discriminate. injection H as <-.
    cbn [forallb value_closed] in Hs. now apply state_closed_intro.
  - destruct s as [|v s]; try discriminate. injection H as <-.
    cbn [forallb] in Hs. apply andb_true_iff in Hs. now apply state_closed_intro.
  - destruct s as [|v s]; try discriminate. injection H as <-.
    cbn [forallb] in Hs. apply andb_true_iff in Hs. destruct Hs as [Hv Hs].
    apply state_closed_intro; auto. cbn [forallb]. now rewrite Hv, Hs.
  - destruct s as [|[a|f] [|[ix|b] s]]; try discriminate.
    destruct (upd t (N.to_nat ix) (Some f)) as [t'|] eqn:E; [|discriminate]. injection H as <-.
    cbn [forallb value_closed] in Hs. apply andb_true_iff in Hs. destruct Hs as [Hf Hs].
    apply state_closed_intro; auto. exact (upd_forallb _ t _ (Some f) t' Ht Hf E).
  - destruct s as [|[ix|f] s]; try discriminate.
    destruct (nth_error t (N.to_nat ix)) as [[f|]|] eqn:E; try discriminate. injection H as <-.
    cbn [forallb value_closed] in Hs. apply nth_error_In in E.
    pose proof (proj1 (forallb_forall _ _) Ht _ E) as Hk. cbn [slot_closed] in Hk.
    apply state_closed_intro; auto. cbn [forallb value_closed]. now rewrite Hk, Hs.
  - destruct s as [|v s]; try discriminate. destruct g as [|g0 gs]; try discriminate. injection H as <-.
    cbn [forallb] in Hs, Hg. apply andb_true_iff in Hs. destruct Hs as [Hv Hs].
    apply andb_true_iff in Hg. destruct Hg as [_ Hg].
    apply state_closed_intro; auto. cbn [forallb]. now rewrite Hv, Hg.
  - destruct s as [|v s]; try discriminate. injection H as <-.
    cbn [forallb] in Hs. apply andb_true_iff in Hs. destruct Hs as [_ Hs].
    apply state_closed_intro; auto.
Qed.

(* an operator that invents a reference breaks the interface: `i32 -> funcref` cast *)
Definition forge_step (_ : unit) (st : state) : option state :=
  match stack st with
  | VNum f :: s => Some (set_stack (VFuncRef f :: s) st)
  | _ => None
  end.
Theorem forging_op_violates_interface :
  exists (keep : N -> bool) st st',
    state_closed keep st /\ forge_step tt st = Some st' /\ ~ state_closed keep st'.
Proof.
  exists (fun f => f =? 0), (mkState [VNum 1] [] []), (mkState [VFuncRef 1] [] []).
  repeat split. vm_compute. discriminate.
Qed.

(* the theorems, instantiated: no interface hypothesis left *)
Theorem restrict_preserves_behaviour_cop (keep : N -> bool) : forall fuel (M : module cop) f st,
  closed_under cop keep M -> state_closed keep st -> keep f = true ->
  run cop cstep fuel (restrict cop keep M) f st = run cop cstep fuel M f st.
Proof. apply restrict_preserves_behaviour. apply cstep_closed. Qed.

Theorem gc_preserves_behaviour_cop (keep : N -> bool) (rho rho_inv : N -> N) :
  (forall f, rho_inv (rho f) = f) ->
  forall fuel (M : module cop) f st,
    closed_under cop keep M -> state_closed keep st -> keep f = true ->
    run cop cstep fuel (rename_module cop rho rho_inv (restrict cop keep M)) (rho f) (rename_state rho st)
    = rename_outcome rho (run cop cstep fuel M f st).
Proof.
  intros H. apply gc_preserves_behaviour; [apply cstep_closed|exact H|apply cstep_rename].
Qed.

Theorem gc_reachable_exports_sequence_cop (n : nat) (M : module cop) names st0 (rho rho_inv : N -> N) :
  (forall f b g, funcs cop M f = Some b -> In g (body_refs cop b) -> g < N.of_nat n) ->
  (forall g, In g (roots_of cop M names st0) -> g < N.of_nat n) ->
  (forall f, rho_inv (rho f) = f) ->
  forall fuel ns, (forall nm, In nm ns -> In nm names) ->
    run_exports cop cstep fuel
      (rename_module cop rho rho_inv (restrict cop (reachable cop (range n) M names st0) M))
      ns (rename_state rho st0)
    = rename_outcome rho (run_exports cop cstep fuel M ns st0).
Proof.
  intros Hb Hr Hinv. apply gc_reachable_exports_sequence; auto.
  - apply cstep_closed.
  - apply cstep_rename.
Qed.

(* ------------------------------------------------------------------ non-vacuity *)
(* the example module of SemCalls, plus
     f3: unreachable, calls the undefined function 9;
     f4: unreachable, referenced only by itself (ref.func 4; drop; call 4) *)
Definition dead_f3 : body cop := [ICall 9].
Definition dead_f4 : body cop := [IRefFunc 4; IOther ODrop; ICall 4].
Definition gc_M : module cop :=
  mkModule cop
    (fun f => match f with 3 => Some dead_f3 | 4 => Some dead_f4 | f => funcs cop ex_M f end)
    (exports cop ex_M).
Definition gc_names : list string := ["main"%string; "helper"%string].
Definition gc_keep : N -> bool := reachable cop (range 10) gc_M gc_names ex_st.

Example gc_reach_computed :
  reach cop (range 10) gc_M (roots_of cop gc_M gc_names ex_st) = [0; 1; 2].
Proof. vm_compute. reflexivity. Qed.
Example gc_keep_computed :
  map gc_keep (range 6) = [true; true; true; false; false; false].
Proof. vm_compute. reflexivity. Qed.

(* the dead functions are really gone, the dead ones really misbehave in the original *)
Example gc_dropped :
  funcs cop (restrict cop gc_keep gc_M) 3 = None /\ funcs cop (restrict cop gc_keep gc_M) 4 = None /\
  funcs cop gc_M 3 = Some dead_f3 /\ funcs cop gc_M 4 = Some dead_f4 /\
  run cop cstep 50 gc_M 3 ex_st = Trap /\ run cop cstep 50 gc_M 4 ex_st = OutOfFuel.
Proof. vm_compute. repeat split; reflexivity. Qed.

Definition gc_M' : module cop := rename_module cop sigma sigma_inv (restrict cop gc_keep gc_M).

Example gc_both_sides :
  run cop cstep 50 gc_M' (sigma 0) (rename_state sigma ex_st)
  = rename_outcome sigma (run cop cstep 50 gc_M 0 ex_st).
Proof. vm_compute. reflexivity. Qed.
Example gc_value :
  run cop cstep 50 gc_M' (sigma 0) (rename_state sigma ex_st)
  = Done (mkState [VFuncRef 1; VNum 0; VNum 15] [Some 0; Some 0] [VFuncRef 0]).
Proof. vm_compute. reflexivity. Qed.
Example gc_both_sides_sequence :
  run_exports cop cstep 50 gc_M' ["helper"%string; "helper"%string; "main"%string]
              (rename_state sigma (mkState [VNum 1] [Some 1; None] [VNum 0]))
  = rename_outcome sigma
      (run_exports cop cstep 50 gc_M ["helper"%string; "helper"%string; "main"%string]
                   (mkState [VNum 1] [Some 1; None] [VNum 0])).
Proof. vm_compute. reflexivity. Qed.
Example gc_sequence_value :
  results (run_exports cop cstep 50 gc_M ["helper"%string; "helper"%string; "main"%string]
                       (mkState [VNum 1] [Some 1; None] [VNum 0]))
  = Some [VFuncRef 2; VNum 0; VNum 15; VNum 21].
Proof. vm_compute. reflexivity. Qed.

(* the premises of the general theorem hold for the example, so it applies for every fuel *)
Lemma gc_M_wf_bodies : forall f b g, funcs cop gc_M f = Some b -> In g (body_refs cop b) -> g < N.of_nat 10.
Proof.
  intros f b g E Hg. cbn [funcs gc_M ex_M] in E.
  destruct f as [|[[[p|p|]|[p|p|]|]|[[p|p|]|[p|p|]|]|]]; try discriminate;
    injection E as <-; vm_compute in Hg; repeat (destruct Hg as [<-|Hg]; [reflexivity|]); destruct Hg.
Qed.
Lemma gc_M_wf_roots : forall g, In g (roots_of cop gc_M gc_names ex_st) -> g < N.of_nat 10.
Proof. intros g Hg. vm_compute in Hg. repeat (destruct Hg as [<-|Hg]; [reflexivity|]). destruct Hg. Qed.

Example gc_by_theorem fuel ns :
  (forall nm, In nm ns -> In nm gc_names) ->
  run_exports cop cstep fuel gc_M' ns (rename_state sigma ex_st)
  = rename_outcome sigma (run_exports cop cstep fuel gc_M ns ex_st).
Proof.
  apply (gc_reachable_exports_sequence_cop 10 gc_M gc_names ex_st sigma sigma_inv
           gc_M_wf_bodies gc_M_wf_roots sigma_left_inv).
Qed.

(* a compacting renumbering: dead functions in the MIDDLE of the index space.
   live: 0 (main), 3 (helper), 5; dead: 1 (calls the undefined 9), 2 (self-referential), 4 (calls 1) *)
Definition sp_M : module cop :=
  mkModule cop
    (fun f => match f with
              | 0 => Some [IOther (OConst 1); IRefFunc 3; IOther OTableSet; IOther (OConst 5); ICall 5; IRefFunc 5]
              | 1 => Some [ICall 9]
              | 2 => Some [IRefFunc 2; IOther ODrop; ICall 2]
              | 3 => Some [IOther (OConst 10); IOther OAdd; IRefFunc 3; IOther OGlobalSet0]
              | 4 => Some [ICall 1]
              | 5 => Some [IOther (OConst 0); ICallIndirect; IOther (OConst 3);
                           ILoop [IOther (OConst 0); IOther OAdd; IOther ODup; IIf [] [IBr 2];
                                  IOther ODrop; IOther (OConst 0); IBr 0];
                           IOther (OConst 99)]
              | _ => None
              end)
    (fun n => if String.eqb n "main" then Some 0 else if String.eqb n "helper" then Some 3 else None).
Definition sp_st : state := mkState [] [Some 3; None] [VNum 0].
Definition sp_keep : N -> bool := reachable cop (range 10) sp_M gc_names sp_st.
(* kept 0,3,5 -> 0,1,2; everything else out of the way (injective on all of N) *)
Definition compact (f : N) : N := match f with 0 => 0 | 3 => 1 | 5 => 2 | f => f + 10 end.
Definition compact_inv (g : N) : N :=
  match g with 0 => 0 | 1 => 3 | 2 => 5 | g => if g <? 10 then 100 else g - 10 end.
Lemma compact_left_inv f : compact_inv (compact f) = f.
Proof.
  destruct f as [|[[[p|p|]|[p|p|]|]|[[p|p|]|[p|p|]|]|]]; try reflexivity;
  unfold compact, compact_inv;
  match goal with |- context [?a + 10] =>
    destruct (a + 10) as [|[[[q|q|]|[q|q|]|]|[[q|q|]|[q|q|]|]|]] eqn:E; try lia;
    rewrite <- E; (destruct (N.ltb_spec (a + 10) 10); [lia|lia])
  end.
Qed.
Definition sp_M' : module cop := rename_module cop compact compact_inv (restrict cop sp_keep sp_M).

Example sp_keep_computed : filter sp_keep (range 10) = [0; 3; 5].
Proof. vm_compute. reflexivity. Qed.
Example sp_compacted :
  map (fun g => match funcs cop sp_M' g with Some _ => true | None => false end) (range 8)
  = [true; true; true; false; false; false; false; false] /\
  exports cop sp_M' "main" = Some 0 /\ exports cop sp_M' "helper" = Some 1.
Proof. vm_compute. repeat split; reflexivity. Qed.
Example sp_both_sides :
  run_export cop cstep 50 sp_M' "main" (rename_state compact sp_st)
  = rename_outcome compact (run_export cop cstep 50 sp_M "main" sp_st).
Proof. vm_compute. reflexivity. Qed.
(* ... and the compacted module is literally the example module of SemCalls, behaviour included *)
Example sp_is_ex :
  run_export cop cstep 50 sp_M' "main" (rename_state compact sp_st) = run_export cop cstep 50 ex_M "main" ex_st
  /\ rename_state compact sp_st = ex_st
  /\ funcs cop sp_M' 0 = funcs cop ex_M 0 /\ funcs cop sp_M' 1 = funcs cop ex_M 1
  /\ funcs cop sp_M' 2 = funcs cop ex_M 2.
Proof. vm_compute. repeat split; reflexivity. Qed.

(* ------------------------------------------------------------------ the premises are needed *)
(* dropping a reachable function changes behaviour ([closed_under] fails: f0 calls f2) *)
Theorem dropping_a_reachable_function_differs :
  exists (keep : N -> bool) (M : module cop) (f : N) (st : state),
    keep f = true /\ state_closed keep st /\
    run cop cstep 50 (restrict cop keep M) f st <> run cop cstep 50 M f st.
Proof.
  exists (fun f => negb (f =? 2)), ex_M, 0, ex_st.
  split; [reflexivity|]. split; [reflexivity|]. vm_compute. discriminate.
Qed.

(* [closed_under] alone is not enough: a function reachable only through the TABLE (state not closed) *)
Theorem dropping_a_table_referenced_function_differs :
  exists (keep : N -> bool) (M : module cop) (f : N) (st : state),
    keep f = true /\ closed_under cop keep M /\
    run cop cstep 50 (restrict cop keep M) f st <> run cop cstep 50 M f st.
Proof.
  exists (fun f => f =? 2), ex_M, 2, (mkState [VNum 1] [Some 1] [VNum 0]).
  split; [reflexivity|]. split.
  - intros f b Hf E. apply N.eqb_eq in Hf. subst f. cbn in E. injection E as <-. reflexivity.
  - vm_compute. discriminate.
Qed.

(* an export pointing at a dropped function disappears: the premise on the export names *)
Theorem dropping_an_exported_function_differs :
  exists (keep : N -> bool) (M : module cop) (n : string) (st : state),
    closed_under cop keep M /\ state_closed keep st /\
    run_export cop cstep 50 (restrict cop keep M) n st <> run_export cop cstep 50 M n st.
Proof.
  exists (fun f => false), ex_M, "helper"%string, (mkState [VNum 1] [] [VNum 0]).
  split; [intros f b Hf; discriminate|]. split; [reflexivity|]. vm_compute. discriminate.
Qed.

(* without the range premise [refs_in_univ] the closedness statement is false: a reachable function
   that mentions an index outside the universe (here: the undefined function 9, universe [0,1)) *)
Theorem reachable_is_closed_unconditional_refuted :
  exists (M : module cop) (n : nat) names st0,
    (forall g, In g (roots_of cop M names st0) -> In g (range n)) /\ ~ closed_under cop (reachable cop (range n) M names st0) M.
Proof.
  exists (mkModule cop (fun f => if f =? 0 then Some [ICall 9] else None)
                   (fun s => if String.eqb s "main" then Some 0 else None)),
         1%nat, ["main"%string], (mkState [] [] []).
  split.
  - intros g Hg. vm_compute in Hg. destruct Hg as [<-|[]]. vm_compute. now left.
  - intros H. specialize (H 0 [ICall 9] eq_refl eq_refl). vm_compute in H. discriminate.
Qed.

Print Assumptions restrict_preserves_behaviour.
Print Assumptions reachable_is_closed_unconditional_refuted.
Print Assumptions run_closed.
Print Assumptions run_exports_sequence.
Print Assumptions run_funcs_sequence.
Print Assumptions gc_preserves_behaviour.
Print Assumptions gc_preserves_export_behaviour.
Print Assumptions reachable_is_closed.
Print Assumptions reachable_is_closed_weak.
Print Assumptions reachable_sound.
Print Assumptions gc_reachable_export.
Print Assumptions gc_reachable_exports_sequence.
Print Assumptions cstep_closed.
Print Assumptions forging_op_violates_interface.
Print Assumptions restrict_preserves_behaviour_cop.
Print Assumptions gc_preserves_behaviour_cop.
Print Assumptions gc_reachable_exports_sequence_cop.
Print Assumptions gc_both_sides.
Print Assumptions gc_by_theorem.
Print Assumptions sp_both_sides.
Print Assumptions sp_is_ex.
Print Assumptions dropping_a_reachable_function_differs.
Print Assumptions dropping_a_table_referenced_function_differs.
Print Assumptions dropping_an_exported_function_differs.
