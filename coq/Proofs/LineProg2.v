(* The line-program row loop (Proofs/LineProg.v) instantiated with the real address converter of
   Model/Dwarf.v and composed with the classification theorems of Proofs/Dwarf.v. *)
From Coq Require Import List NArith Bool Lia.
Import ListNotations.
From WV Require Import Model.Dwarf Model.LineProg Proofs.Dwarf Proofs.LineProg.
Local Open Scope N_scope.

(* the InstrLocId of the instruction that starts at input address [a] *)
Definition loc_of (t : dtables) (a : N) : option N :=
  option_map snd (find (fun p => fst p =? a) (dt_instrs t)).

(* under tables_wf the instruction addresses are strictly increasing, hence keys are unique *)
Lemma loc_of_in : forall t a loc, tables_wf t -> In (a, loc) (dt_instrs t) -> loc_of t a = Some loc.
Proof.
  intros t a loc Hwf Hin. unfold loc_of. rewrite (find_key_sorted t Hwf a loc Hin). reflexivity.
Qed.

Lemma flat_map_ext_in : forall {A B} (f g : A -> list B) (l : list A),
  (forall x, In x l -> f x = g x) -> flat_map f l = flat_map g l.
Proof.
  intros A B f g l. induction l as [|x l IH]; intros H; cbn [flat_map]; [reflexivity|].
  rewrite (H x (or_introl eq_refl)), IH; [reflexivity|]. intros y Hy. apply H. right. exact Hy.
Qed.

(* a row on an instruction start: kept -> its output offset, removed -> dropped *)
Lemma convert_row : forall t c a loc incl,
  tables_wf t -> In (a, loc) (dt_instrs t) ->
  convert_address t c a incl = option_map (fun x => x - ct_start c) (lookup loc (ct_imap c)).
Proof.
  intros t c a loc incl Hwf Hin.
  destruct (lookup loc (ct_imap c)) as [x|] eqn:El; cbn [option_map].
  - exact (convert_instr_kept t Hwf c a loc x incl Hin El).
  - exact (convert_instr_removed t Hwf c a loc incl Hin El).
Qed.

Theorem line_rows_end_to_end : forall t c seqs s' evs,
  tables_wf t -> wf seqs ->
  (forall p a ln, In p seqs -> In (LRow a false ln) (snd p) ->
                  exists loc, In (a + fst p, loc) (dt_instrs t)) ->
  lrun (convert_address t c) lst0 (prog_of seqs) = Some (s', evs) ->
  filter (fun r => negb (snd r)) (rows_of 0 evs)
  = flat_map (fun p => flat_map (fun i =>
      match i with
      | LRow a false ln =>
          match loc_of t (a + fst p) with
          | Some loc => match lookup loc (ct_imap c) with
                        | Some x => [(x - ct_start c, ln, false)]
                        | None => []
                        end
          | None => []
          end
      | _ => []
      end) (snd p)) seqs.
Proof.
  intros t c seqs s' evs Hwf Hseqs Hrows H.
  rewrite (lrun_rows_exact (convert_address t c) seqs s' evs Hseqs H).
  apply flat_map_ext_in. intros p Hp.
  apply flat_map_ext_in. intros i Hi.
  destruct i as [v|a [|] ln]; try reflexivity.
  destruct (Hrows p a ln Hp Hi) as [loc Hloc].
  rewrite (loc_of_in t _ loc Hwf Hloc), (convert_row t c _ loc true Hwf Hloc).
  destruct (lookup loc (ct_imap c)) as [x|]; reflexivity.
Qed.

(* no table hypothesis at all: the conversion of a well-formed line program never fails, every output
   sequence is closed, and none of gimli's writer assertions fires *)
Theorem line_program_total_end_to_end : forall t c seqs,
  wf seqs ->
  exists s' evs, lrun (convert_address t c) lst0 (prog_of seqs) = Some (s', evs) /\
                 l_in s' = false /\ writer_ok false 0 evs = true.
Proof.
  intros t c seqs Hseqs.
  destruct (lrun_wf_total (convert_address t c) seqs Hseqs) as (s' & evs & H & Hin).
  exists s', evs. split; [exact H|split; [exact Hin|]].
  exact (proj1 (lrun_writer_ok0 _ _ _ _ H)).
Qed.

Print Assumptions line_rows_end_to_end.
Print Assumptions line_program_total_end_to_end.
