(* The validation gate: walrus accepts only what the reference validator accepts, and everything it accepts
   that uses only payload kinds walrus implements and that walrus's own section readers process. *)
From Coq Require Import List Bool. Import ListNotations.
From WV Require Import Gen.Gate Gen.Features Model.Gate.

Lemma all_payload_kinds_complete : forall k, In k all_payload_kinds.
Proof. intros k; destruct k; cbn; tauto. Qed.

(* no payload kind is consumed before it was validated (custom sections carry no validity obligations) *)
Lemma no_unchecked_arm_b : forallb (fun k => match arm k with AK_Unchecked => false | _ => true end) all_payload_kinds = true.
Proof. vm_compute. reflexivity. Qed.
Theorem no_unchecked_arm : forall k, arm k <> AK_Unchecked.
Proof.
  intros k H. pose proof (proj1 (forallb_forall _ _) no_unchecked_arm_b k (all_payload_kinds_complete k)) as Hk.
  cbv beta in Hk. rewrite H in Hk. discriminate.
Qed.

Theorem body_gate : operator_validated_before_use = true /\ body_end_validated = true /\ locals_validated_before_use = true.
Proof. repeat split; reflexivity. Qed.
(* reader and validator are both configured with the feature set of the configuration *)
Theorem features_reach_reader_and_validator : reader_uses_configured_features = true /\ validator_uses_configured_features = true.
Proof. split; reflexivity. Qed.

Section G.
  Variables (payload vstate : Type) (kind_of : payload -> payload_kind) (vstep : vstate -> payload -> option vstate) (consume_ok : payload -> bool).
  (* the reference validator ignores custom sections *)
  Hypothesis custom_noop : forall v p, arm (kind_of p) = AK_Custom -> vstep v p = Some v.
  (* the kinds walrus rejects after or without validation are rejected by the reference validator as well when it is
     configured with walrus's feature set (component model / exception handling are not enabled): premise of soundness
     is NOT needed; it is needed for completeness only *)

  Theorem gate_sound : forall ps v, gate payload vstate kind_of vstep consume_ok v ps = Accept ->
    exists v', reference payload vstate vstep v ps = Some v'.
  Proof.
    induction ps as [|p r IH]; intros v H; cbn [gate reference] in *.
    - eauto.
    - destruct (arm (kind_of p)) eqn:Ea.
      + destruct (vstep v p) as [v'|]; [|discriminate]. destruct (consume_ok p); [|discriminate]. apply IH; exact H.
      + discriminate.
      + discriminate.
      + rewrite (custom_noop v p Ea). apply IH; exact H.
      + exfalso. exact (no_unchecked_arm _ Ea).
  Qed.

  Theorem gate_complete : forall ps v v', reference payload vstate vstep v ps = Some v' ->
    Forall (fun p => supported (kind_of p) = true) ps -> Forall (fun p => consume_ok p = true) ps ->
    gate payload vstate kind_of vstep consume_ok v ps = Accept.
  Proof.
    induction ps as [|p r IH]; intros v v' H Hs Hc; cbn [gate reference] in *; [reflexivity|].
    inversion Hs as [|? ? Hs1 Hs2]; subst. inversion Hc as [|? ? Hc1 Hc2]; subst.
    unfold supported in Hs1. destruct (arm (kind_of p)) eqn:Ea; try discriminate.
    - destruct (vstep v p) as [v1|]; [|discriminate]. rewrite Hc1. eapply IH; eauto.
    - rewrite (custom_noop v p Ea) in H. eapply IH; eauto.
  Qed.

  (* a rejected kind is rejected wherever it occurs, whatever precedes it validly *)
  Theorem gate_rejects_unsupported : forall pre p post v,
    supported (kind_of p) = false -> gate payload vstate kind_of vstep consume_ok v (pre ++ p :: post) = Reject.
  Proof.
    induction pre as [|q r IH]; intros p post v Hs; cbn [app gate].
    - unfold supported in Hs. destruct (arm (kind_of p)) eqn:Ea; try discriminate; try reflexivity.
      exfalso. exact (no_unchecked_arm _ Ea).
    - destruct (arm (kind_of q)) eqn:Eq; try reflexivity.
      + destruct (vstep v q); [|reflexivity]. destruct (consume_ok q); [|reflexivity]. apply IH; exact Hs.
      + apply IH; exact Hs.
      + exfalso. exact (no_unchecked_arm _ Eq).
  Qed.
End G.

(* which payload kinds walrus implements *)
Theorem supported_kinds : forall k, supported k = true <->
  In k [PK_Version; PK_DataSection; PK_TypeSection; PK_ImportSection; PK_TableSection; PK_MemorySection; PK_GlobalSection;
        PK_ExportSection; PK_ElementSection; PK_StartSection; PK_FunctionSection; PK_DataCountSection; PK_CodeSectionStart;
        PK_CodeSectionEntry; PK_CustomSection; PK_End].
Proof. intros k; destruct k; cbn; split; intros H; try discriminate; try reflexivity; intuition discriminate. Qed.

(* feature sets: restricting to stable features removes exactly multi-memory, memory64 and threads *)
Theorem only_stable_removes_exactly : forall f,
  has (features_of true) f = has (features_of false) f && negb (feature_eqb f F_MULTI_MEMORY || feature_eqb f F_MEMORY64 || feature_eqb f F_THREADS).
Proof. intros f; destruct f; reflexivity. Qed.
Theorem stable_subset_default : forall f, has (features_of true) f = true -> has (features_of false) f = true.
Proof. intros f; destruct f; cbn; intros H; try reflexivity; discriminate. Qed.
Theorem default_features : forall f, has (features_of false) f = true.
Proof. intros f; destruct f; reflexivity. Qed.

Print Assumptions no_unchecked_arm.
Print Assumptions gate_sound.
Print Assumptions gate_complete.
Print Assumptions gate_rejects_unsupported.
Print Assumptions only_stable_removes_exactly.
