(* C08, module level fixpoint, part 19: the structure of the parse-time local vectors (ModFix17.locals_struct) *)
From Coq Require Import List NArith ZArith Bool Arith Lia.
Import ListNotations.
From WV Require Import Gen.Ops Model.Common Model.IR Model.Arena Model.Traversal Model.EmitFn Model.Locals
                       Model.ParseFn Model.ModuleM Model.ParseM Model.EmitM Gen.Attrs.
From WV Require Import Proofs.Arena Proofs.IndexMaps Proofs.CustomsCfg Proofs.Structure Proofs.Structure2
                       Proofs.Totality Proofs.TotalityBodies Proofs.ModFix Proofs.ModFix12.
From WV Require Proofs.Names Proofs.Locals2 Proofs.ModFix17.
Import WV.Proofs.Locals2.
Local Open Scope nat_scope.

Definition LI (m : wir) (ids : i2ids) : Prop :=
  (forall f lid, In lid (lvec (ii_locals ids) f) -> N.to_nat lid < length (items (m_locals m))) /\
  (forall f f' lid, In lid (lvec (ii_locals ids) f) -> In lid (lvec (ii_locals ids) f') -> f = f') /\
  (forall f, NoDup (lvec (ii_locals ids) f)).

Lemma NoDup_app' {A} (a b : list A) : NoDup a -> NoDup b -> (forall x, In x a -> ~ In x b) -> NoDup (a ++ b).
Proof.
  induction a as [|x a IH]; intros Ha Hb H; [exact Hb|]. inversion Ha; subst. cbn [app]. constructor.
  - rewrite in_app_iff. intros [Hx|Hx]; [contradiction|]. apply (H x); [left; reflexivity|exact Hx].
  - apply IH; auto. intros y Hy. apply H. right. exact Hy.
Qed.
Lemma in_fresh n0 k lid : In lid (map N.of_nat (seq n0 k)) -> n0 <= N.to_nat lid < n0 + k.
Proof. intros H. apply in_map_iff in H. destruct H as (x & <- & Hx). apply in_seq in Hx. rewrite Nat2N.id. lia. Qed.

Lemma add_locals_LI tys m ids fid pre m' ids' l :
  add_locals m ids fid tys pre = (m', ids', l) -> LI m ids -> LI m' ids'.
Proof.
  intros E (B & Dj & ND). destruct (add_locals_spec _ _ _ _ _ _ _ _ E) as (-> & Hty & _ & _ & Hv & Ho & _).
  set (n0 := length (items (m_locals m))) in *.
  assert (Hlen : length (items (m_locals m')) = n0 + length tys).
  { rewrite <- (map_length lo_ty), Hty, app_length, map_length. reflexivity. }
  assert (Hother : forall f, f <> fid -> lvec (ii_locals ids') f = lvec (ii_locals ids) f).
  { intros f Hf. unfold lvec. rewrite (Ho f Hf). reflexivity. }
  assert (Bnew : forall f lid, In lid (lvec (ii_locals ids') f) ->
                   (In lid (lvec (ii_locals ids) f)) \/ (f = fid /\ n0 <= N.to_nat lid < n0 + length tys)).
  { intros f lid H. destruct (N.eq_dec f fid) as [->|Hne].
    - rewrite Hv in H. apply in_app_or in H. destruct H as [H|H]; [left; exact H|right; split; [reflexivity|apply in_fresh; exact H]].
    - rewrite (Hother f Hne) in H. left. exact H. }
  split; [|split].
  - intros f lid H. rewrite Hlen. destruct (Bnew f lid H) as [H1|[_ H1]]; [specialize (B f lid H1); lia|lia].
  - intros f f' lid H H'. destruct (Bnew f lid H) as [H1|[-> H1]], (Bnew f' lid H') as [H2|[-> H2]].
    + eapply Dj; eauto.
    + specialize (B f lid H1). lia.
    + specialize (B f' lid H2). lia.
    + reflexivity.
  - intros f. destruct (N.eq_dec f fid) as [->|Hne]; [|rewrite (Hother f Hne); apply ND].
    rewrite Hv. apply NoDup_app'; [apply ND| |].
    + apply WV.Proofs.Order.NoDup_map_inj; [apply Nat2N.inj|apply seq_NoDup].
    + intros x Hx Hx'. specialize (B fid x Hx). apply in_fresh in Hx'. lia.
Qed.

Lemma LI_locals m m' ids : m_locals m' = m_locals m -> LI m ids -> LI m' ids.
Proof. intros E (B & Dj & ND). split; [|split]; [rewrite E; exact B|exact Dj|exact ND]. Qed.

Lemma prepare_bodies_LI : forall bs m ids ni i m' ids' ps,
  prepare_bodies m ids ni i bs = POk (m', ids', ps) -> LI m ids -> LI m' ids'.
Proof.
  induction bs as [|b r IH]; intros m ids ni i m' ids' ps E H; cbn [prepare_bodies] in E; [inversion E; subst; exact H|].
  pinv E as fid Efid. pinv E as f Ef. destruct (fn_kind f) eqn:Ek; try discriminate.
  pinv E as t Et.
  destruct (add_locals m ids fid (ty_params t) _) as [[m1 ids1] args] eqn:E1.
  destruct (types_insert m1 _) as [m2 tid] eqn:E2.
  destruct (add_locals m2 ids1 fid _ _) as [[m3 ids3] ls] eqn:E3.
  pinv E as x Ex. destruct x as [[m4 ids4] rest]. inversion E; subst; clear E.
  eapply IH; [exact Ex|]. eapply add_locals_LI; [exact E3|].
  eapply LI_locals; [eapply types_insert_locals; exact E2|]. eapply add_locals_LI; [exact E1|exact H].
Qed.

Lemma bounded_search (P : nat -> Prop) (dec : forall k, {P k} + {~ P k}) n :
  (exists k, k < n /\ P k) \/ (forall k, k < n -> ~ P k).
Proof.
  induction n as [|n IH]; [right; intros; lia|]. destruct IH as [(k & Hk & HP)|H]; [left; exists k; split; [lia|auto]|].
  destruct (dec n) as [Hn|Hn]; [left; exists n; split; [lia|auto]|].
  right. intros k Hk. destruct (Nat.eq_dec k n); [subst; auto|apply H; lia].
Qed.

Lemma optN_dec (a b : option N) : {a = b} + {a <> b}.
Proof. decide equality. apply N.eq_dec. Qed.

Lemma locals_vec_lvec ids fid : WV.Proofs.Names.locals_vec ids fid = lvec (ii_locals ids) fid.
Proof. unfold WV.Proofs.Names.locals_vec. rewrite locals_of_lfind. unfold lvec. destruct (lfind _ _); reflexivity. Qed.

Theorem parse_locals_struct cf ver w s ilen e :
  parseM cf ver w = POk s -> emitM (ps_m s) ilen [] = Ok e -> WV.Proofs.ModFix17.locals_struct s e.
Proof.
  intros E0 HE. pose proof E0 as E.
  apply parseM_inv in E. destruct E as (s1 & m1 & ids1 & prepared & m2 & E1 & E2 & E3 & Es).
  fold (pst0 cf) in E1. cbv zeta in Es.
  assert (IDC : ids_consistent (ps_m s1) (ps_ids s1)) by (eapply parse_secs_ids; [|exact E1]; apply idc_empty).
  pose proof (parse_secs_il _ _ _ E1) as IL. cbn in IL.
  pose proof (parse_secs_bodies_eq _ _ _ E1) as EB. cbn [ps_bodies pst0 app] in EB.
  pose proof (lo_secs _ _ _ E1) as LO. cbn [pst0 ps_m] in LO.
  destruct (prepare_bodies_locals _ _ _ _ _ _ _ _ E2) as (P1 & _ & P3 & P4 & P5).
  { destruct IDC as (-> & _). apply iota_NoDup. }
  { intros k fid0 _ _. rewrite IL. reflexivity. }
  assert (L0 : LI (ps_m s1) (ps_ids s1)).
  { unfold LI. rewrite IL. split; [|split]; cbn; intros; try contradiction. constructor. }
  pose proof (prepare_bodies_LI _ _ _ _ _ _ _ _ E2 L0) as (B & Dj & ND).
  pose proof (install_bodies_locals _ _ _ _ E3) as L2.
  destruct (fold_parse_names_same_tys ids1 (ps_names s1) m2) as [S1 S2]. rewrite L2 in S1, S2.
  assert (Eids : ps_ids s = ids1) by (rewrite Es; reflexivity).
  assert (Eloc : m_locals (ps_m s) = m_locals (fold_left (fun m n => parse_names m ids1 n) (ps_names s1) m2))
    by (rewrite Es; reflexivity).
  unfold WV.Proofs.ModFix17.locals_struct. cbv zeta. rewrite Eids.
  split; [|split; [|split]].
  - intros fid fid' lid. rewrite !locals_vec_lvec. apply Dj.
  - intros fid. rewrite locals_vec_lvec. apply ND.
  - intros fid lid. rewrite locals_vec_lvec. intros H. specialize (B _ _ H).
    rewrite Eloc. rewrite aget_nodead by (rewrite S2, P3, LO; reflexivity).
    destruct (nth_error _ (N.to_nat lid)) eqn:En; [eauto|].
    apply nth_error_None in En. rewrite <- (map_length lo_ty), S1, map_length in En. lia.
  - intros fid Hne. rewrite locals_vec_lvec in Hne.
    assert (Hk : exists k, k < length (ps_bodies s1) /\
                   fid_at (ps_ids s1) (len_N (iter (m_funcs (ps_m s1))) - len_N (ps_bodies s1)) 0 k = Some fid).
    { destruct (bounded_search (fun k => fid_at (ps_ids s1) (len_N (iter (m_funcs (ps_m s1))) - len_N (ps_bodies s1)) 0 k = Some fid)
                  (fun k => optN_dec _ _) (length (ps_bodies s1))) as [H|H]; [exact H|].
      exfalso. apply Hne. unfold lvec. rewrite (P4 fid H), IL. reflexivity. }
    destruct Hk as (k & Hk & Hfid).
    destruct (nth_error (ps_bodies s1) k) as [b|] eqn:Hb; [|apply nth_error_None in Hb; lia].
    pose proof Hb as Hb0. rewrite EB in Hb0.
    destruct (parsed_function_body _ _ _ _ _ _ E0 Hb0) as (fid' & f & lf & t & ety & Hfid' & Hg & Hkf & _).
    assert (fid' = fid).
    { pose proof IDC as IDC'. unfold ids_consistent in IDC'. destruct IDC' as (IF & _ & _ & _ & _ & _ & D & _).
      unfold fid_at in Hfid. rewrite N.add_0_r, IF in Hfid. apply nth_N_iota in Hfid.
      rewrite Eids, P1, IF, iota_length, <- EB in Hfid'.
      unfold len_N in Hfid. rewrite (iter_length_nodead _ D) in Hfid. lia. }
    subst fid'.
    destruct (emitM_x2i _ _ _ _ HE) as (fs & Hfs & _).
    destruct (emit_code_payload _ _ _ _ HE Hfs) as (_ & _ & Hids & _).
    destruct (used_local_functions_ids _ _ Hfs) as (_ & Hin).
    assert (Hi : In fid (map ef_id (em_fns e))).
    { rewrite Hids. apply Hin. exists f, lf. split; [apply WV.Proofs.Totality.aiter_aget; exact Hg|exact Hkf]. }
    apply in_map_iff in Hi. destruct Hi as (ef0 & He0 & Hin0).
    exists f. destruct (find (fun ef1 => (ef_id ef1 =? fid)%N) (em_fns e)) as [ef|] eqn:Ef.
    + exists ef. split; [apply WV.Proofs.Totality.aiter_aget; exact Hg|reflexivity].
    + exfalso. apply (find_none _ _ Ef) in Hin0. rewrite He0, N.eqb_refl in Hin0. discriminate.
Qed.

Theorem locals_struct_holds cf ver w ilen s1 e1 s2 e2 :
  two_trips cf ver w ilen s1 e1 s2 e2 -> WV.Proofs.ModFix17.locals_struct s2 e2.
Proof. intros (P1 & E1 & P2 & E2). eapply parse_locals_struct; eauto. Qed.
Print Assumptions parse_locals_struct.
Print Assumptions locals_struct_holds.
