(* What a reader sees in the address attributes of a subprogram DIE (C10): facts about
   [convert_attr_address] (the closure handed to gimli for every address attribute) and
   [convert_subprogram] (the (low_pc, high_pc) pair after convert_high_pc) of Model/Dwarf.v. *)
From Coq Require Import List NArith Bool Lia Sorted.
Import ListNotations.
From WV Require Import Model.Common Model.Dwarf Proofs.Dwarf.
Local Open Scope N_scope.

(* ------------------------------------------------------------------------------------------------ *)
(* 1. an attribute address is never redirected to anything but its own image or the tombstone       *)

Theorem attr_address_trichotomy : forall t c a,
  (convert_attr_address t c a = a /\ (a = 0 \/ a = dead_code)) \/
  (exists x, convert_address t c a true = Some x /\ convert_attr_address t c a = x) \/
  (convert_address t c a true = None /\ convert_attr_address t c a = dead_code).
Proof.
  intros t c a. unfold convert_attr_address.
  destruct (N.eqb_spec a 0) as [E0|N0].
  - left. cbn [orb]. auto.
  - destruct (N.eqb_spec a dead_code) as [Ed|Nd]; cbn [orb].
    + left. auto.
    + right. destruct (convert_address t c a true) as [x|].
      * left. exists x. auto.
      * right. auto.
Qed.

(* unfolding of the attribute closure away from the two pass-through values *)
Lemma attr_address_live t c a : a <> 0 -> a <> dead_code ->
  convert_attr_address t c a = match convert_address t c a true with Some x => x | None => dead_code end.
Proof.
  intros N0 Nd. unfold convert_attr_address.
  apply N.eqb_neq in N0. apply N.eqb_neq in Nd. rewrite N0, Nd. reflexivity.
Qed.

(* ------------------------------------------------------------------------------------------------ *)
(* facts about the LLVM-convention DIE of a range of a well-formed table                            *)

Lemma body_start_pos t r : tables_wf t -> In r (dt_ranges t) ->
  body_start (fst r) <> 0 /\ body_start (fst r) <= rng_end r.
Proof.
  intros Hwf Hr. destruct (range_shape t Hwf r Hr) as (k & sz & Hk & Hsz & Hb & He). lia.
Qed.

Lemma low_plus_off t r : tables_wf t -> In r (dt_ranges t) ->
  body_start (fst r) + (rng_end r - body_start (fst r)) = rng_end r.
Proof. intros Hwf Hr. destruct (body_start_pos t r Hwf Hr). lia. Qed.

(* ------------------------------------------------------------------------------------------------ *)
(* 2. kept function: the DIE read back covers exactly the emitted body                              *)
(* side conditions really needed: only [low <> dead_code]; [low <> 0] and [low <= rng_end r] follow
   from tables_wf *)

Theorem subprogram_die_kept : forall t c r s' e' sz' low off,
  tables_wf t -> In r (dt_ranges t) ->
  lookup (snd r) (ct_franges c) = Some (s', e') ->
  2 <= sz' -> e' = s' + leb5 sz' + sz' -> ct_start c <= s' ->
  low = body_start (fst r) -> off = rng_end r - low ->
  low <> dead_code ->
  convert_subprogram t c low off = (s' + leb5 sz' - ct_start c, sz').
Proof.
  intros t c r s' e' sz' low off Hwf Hr Hl Hsz He Hcs Hlow Hoff Nd.
  destruct (subprogram_range t Hwf c r s' e' sz' true Hr Hl Hsz He Hcs) as (H1 & H2 & H3).
  destruct (body_start_pos t r Hwf Hr) as [N0 Hle].
  unfold convert_subprogram. subst low off.
  rewrite attr_address_live by assumption.
  rewrite (low_plus_off t r Hwf Hr). rewrite H1, H2, H3. reflexivity.
Qed.

(* ------------------------------------------------------------------------------------------------ *)
(* 3. removed function: tombstoned low_pc, untouched size (no side condition at all: a low_pc that
      already is the tombstone passes through as the tombstone) *)

Theorem subprogram_die_removed : forall t c r low off,
  tables_wf t -> In r (dt_ranges t) ->
  lookup (snd r) (ct_franges c) = None ->
  low = body_start (fst r) -> off = rng_end r - low ->
  convert_subprogram t c low off = (dead_code, off).
Proof.
  intros t c r low off Hwf Hr Hl Hlow Hoff.
  destruct (subprogram_removed t Hwf c r true Hr Hl) as [H1 H2].
  destruct (body_start_pos t r Hwf Hr) as [N0 Hle].
  unfold convert_subprogram. rewrite <- Hlow in H1. rewrite H1. f_equal.
  unfold convert_attr_address.
  destruct (N.eqb_spec low dead_code) as [Ed|Nd].
  - rewrite orb_true_r. assumption.
  - replace (low =? 0) with false by (symmetry; apply N.eqb_neq; congruence).
    cbn [orb]. rewrite H1. reflexivity.
Qed.

(* the size of a removed function's DIE is left as it was, whatever it was *)
Corollary subprogram_die_removed_any_off : forall t c r off,
  tables_wf t -> In r (dt_ranges t) ->
  lookup (snd r) (ct_franges c) = None ->
  convert_subprogram t c (body_start (fst r)) off = (dead_code, off).
Proof.
  intros t c r off Hwf Hr Hl.
  destruct (subprogram_removed t Hwf c r true Hr Hl) as [H1 H2].
  destruct (body_start_pos t r Hwf Hr) as [N0 Hle].
  unfold convert_subprogram. rewrite H1. f_equal.
  unfold convert_attr_address.
  destruct (N.eqb_spec (body_start (fst r)) dead_code) as [Ed|Nd].
  - rewrite orb_true_r. assumption.
  - replace (body_start (fst r) =? 0) with false by (symmetry; apply N.eqb_neq; congruence).
    cbn [orb]. rewrite H1. reflexivity.
Qed.

(* ------------------------------------------------------------------------------------------------ *)
(* 4. low_pc written as the address of the first instruction: it follows that instruction.
      [low <> 0] follows from tables_wf (an instruction lies strictly after a body start). *)

Theorem subprogram_die_of_instruction_start : forall t c low off loc x,
  tables_wf t -> In (low, loc) (dt_instrs t) ->
  lookup loc (ct_imap c) = Some x ->
  low <> dead_code ->
  fst (convert_subprogram t c low off) = x - ct_start c.
Proof.
  intros t c low off loc x Hwf Hin Hl Nd.
  assert (N0 : low <> 0).
  { destruct (instr_in_range t Hwf (low, loc) Hin) as (r & Hr & Hlt). cbn [fst] in Hlt. lia. }
  unfold convert_subprogram. cbn [fst].
  rewrite attr_address_live by assumption.
  rewrite (convert_instr_kept t Hwf c low loc x true Hin Hl). reflexivity.
Qed.

(* the side condition [low <> dead_code] of 2 and 4 is really needed: a body start / instruction sitting exactly at
   the tombstone value passes through unchanged instead of being translated *)
Definition tomb_tables : dtables :=
  {| dt_instrs := [(4294967297, 0)]; dt_ranges := [((4294967294, 4294967301), 7)] |}.
Definition tomb_trans : ctrans := {| ct_imap := [(0, 103)]; ct_franges := [(7, (100, 107))]; ct_start := 90 |}.

Example tomb_tables_wf : tables_wf tomb_tables.
Proof.
  constructor; cbn [tomb_tables dt_instrs dt_ranges].
  - repeat constructor.
  - repeat constructor.
  - repeat constructor. exists 6. cbn. split; [lia|reflexivity].
  - repeat constructor. exists ((4294967294, 4294967301), 7). split; [cbn; tauto|]. vm_compute. split; reflexivity.
Qed.

Example tombstone_low_pc_passes_through :
  body_start (4294967294, 4294967301) = dead_code /\
  convert_address tomb_tables tomb_trans dead_code true = Some 11 /\
  convert_subprogram tomb_tables tomb_trans dead_code 6 = (dead_code, 6).
Proof. vm_compute. repeat split; reflexivity. Qed.

(* ------------------------------------------------------------------------------------------------ *)
(* 5. non-vacuity on [ex_tables]: function 7 (entry [10,17), body [11,17), size 6, 1-byte size field) is emitted at
      [100, 302) with a 200-byte body (2-byte size field); function 8 (entry [17,27), body [18,27)) is removed.
      The code section contents start at 90. *)
Definition ex_trans : ctrans :=
  {| ct_imap := [(0, 150); (1, 170)]; ct_franges := [(7, (100, 302))]; ct_start := 90 |}.

Example ex_kept_leb_changed :
  leb5 6 = 1 /\ leb5 200 = 2 /\
  convert_subprogram ex_tables ex_trans 11 6 = (12, 200).
Proof. vm_compute. repeat split; reflexivity. Qed.

(* the same through the theorem: its premises are satisfiable *)
Example ex_kept_by_theorem : convert_subprogram ex_tables ex_trans 11 6 = (100 + leb5 200 - 90, 200).
Proof.
  apply (subprogram_die_kept ex_tables ex_trans ((10, 17), 7) 100 302 200 11 6 ex_tables_wf).
  - cbn; tauto.
  - reflexivity.
  - lia.
  - reflexivity.
  - cbn; lia.
  - reflexivity.
  - reflexivity.
  - discriminate.
Qed.

Example ex_removed : convert_subprogram ex_tables ex_trans 18 9 = (dead_code, 9).
Proof. vm_compute. reflexivity. Qed.

Example ex_removed_by_theorem : convert_subprogram ex_tables ex_trans 18 9 = (dead_code, 9).
Proof.
  apply (subprogram_die_removed ex_tables ex_trans ((17, 27), 8) 18 9 ex_tables_wf).
  - cbn; tauto.
  - reflexivity.
  - reflexivity.
  - reflexivity.
Qed.

Example ex_instruction_start : fst (convert_subprogram ex_tables ex_trans 13 4) = 60.
Proof. vm_compute. reflexivity. Qed.

Example ex_attr_trichotomy :
  convert_attr_address ex_tables ex_trans 0 = 0 /\
  convert_attr_address ex_tables ex_trans dead_code = dead_code /\
  convert_attr_address ex_tables ex_trans 13 = 60 /\
  convert_attr_address ex_tables ex_trans 24 = dead_code /\
  convert_attr_address ex_tables ex_trans 5 = dead_code.
Proof. vm_compute. repeat split; reflexivity. Qed.

Print Assumptions attr_address_trichotomy.
Print Assumptions subprogram_die_kept.
Print Assumptions subprogram_die_removed.
Print Assumptions subprogram_die_of_instruction_start.
