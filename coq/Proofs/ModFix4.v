(* C08, module level fixpoint, part 4: the ORDER of the emitted stream (every standard section at most once,
   the import section before the table / memory / global sections), the renumbering of the SECOND round trip
   is the identity on tables / memories / globals / element segments / data segments, and the payload
   fixpoints for the table, memory and global sections. *)
From Coq Require Import List NArith ZArith Bool Arith Lia.
Import ListNotations.
From WV Require Import Gen.Ops Model.Common Model.IR Model.Arena Model.Traversal Model.EmitFn Model.Locals
                       Model.ParseFn Model.ModuleM Model.ParseM Model.EmitM Gen.Attrs.
From WV Require Import Proofs.Arena Proofs.Order Proofs.IndexMaps Proofs.CustomsCfg Proofs.Structure Proofs.Structure2
                       Proofs.Renumbering Proofs.ModFix.
Local Open Scope nat_scope.

(* ====================================================================================== *)
(* O1. every standard section at most once in an emitted stream                            *)
(* ====================================================================================== *)
Ltac len_tac := cbv zeta; repeat estep; intros [= <- ]; cbn [length]; lia.
Ltac len_tac2 := cbv zeta; repeat estep; intros [= <- _]; cbn [length]; lia.
Ltac len_tac3 := cbv zeta; repeat estep; intros [= <- _ _]; cbn [length]; lia.

Lemma emit_types_len m x l x' : emit_types m x = (l, x') -> length l <= 1.
Proof. unfold emit_types. len_tac2. Qed.
Lemma emit_imports_len m x l x' : emit_imports m x = Ok (l, x') -> length l <= 1.
Proof. unfold emit_imports. len_tac2. Qed.
Lemma emit_func_section_len m x l x' : emit_func_section m x = Ok (l, x') -> length l <= 1.
Proof. unfold emit_func_section. len_tac2. Qed.
Lemma emit_tables_len m x : length (fst (emit_tables m x)) <= 1.
Proof. rewrite emit_tables_entries. destruct (local_tables m); cbn [length]; lia. Qed.
Lemma emit_memories_len m x : length (fst (emit_memories m x)) <= 1.
Proof. rewrite emit_memories_entries. destruct (local_memories m); cbn [length]; lia. Qed.
Lemma emit_globals_len m x l x' : emit_globals m x = Ok (l, x') -> length l <= 1.
Proof. unfold emit_globals. len_tac2. Qed.
Lemma emit_exports_len m x l : emit_exports m x = Ok l -> length l <= 1.
Proof. unfold emit_exports. len_tac. Qed.
Lemma emit_start_len (o : option N) x l :
  match o with Some f => i <- get_idx x S_func f ;; Ok [S_Start i] | None => Ok [] end = Ok l -> length l <= 1.
Proof. len_tac. Qed.
Lemma emit_elements_len m x l x' : emit_elements m x = Ok (l, x') -> length l <= 1.
Proof. unfold emit_elements. len_tac2. Qed.
Lemma emit_data_count_len m x l x' : emit_data_count m x = Ok (l, x') -> length l <= 1.
Proof. unfold emit_data_count. len_tac2. Qed.
Lemma emit_code_len m x ilen l x' efs : emit_code m x ilen = Ok (l, x', efs) -> length l <= 1.
Proof. unfold emit_code. len_tac3. Qed.
Lemma emit_data_len m x l : emit_data m x = Ok l -> length l <= 1.
Proof. unfold emit_data. len_tac. Qed.

Lemma tagged_count t k l : tagged k l -> tag_count t l = if Nat.eqb k t then length l else 0.
Proof.
  unfold tagged. induction 1 as [|s l Hs _ IH]; [destruct (Nat.eqb k t); reflexivity|].
  rewrite tag_count_cons, IH. unfold has_tag. rewrite Hs. destruct (Nat.eqb k t); cbn [length]; lia.
Qed.
Lemma untagged_count t l : (forall s, In s l -> sec_tag s = None) -> tag_count t l = 0.
Proof.
  induction l as [|s l IH]; intros H; [reflexivity|]. rewrite tag_count_cons, IH by (intros; apply H; right; assumption).
  unfold has_tag. rewrite (H s) by (left; reflexivity). reflexivity.
Qed.

Theorem emit_stream_wf : forall m ilen e, emitM m ilen [] = Ok e -> stream_wf (em_secs e) = true.
Proof.
  intros m ilen e He. emitM_parts2 He.
  pose proof (emit_types_tag _ _ _ _ Ety) as T0. pose proof (emit_imports_tag _ _ _ _ Eim) as T1.
  pose proof (emit_func_section_tag _ _ _ _ Efn) as T2. pose proof (emit_tables_tag m x3) as T3.
  pose proof (emit_memories_tag m x4) as T4.
  pose proof (emit_globals_tag _ _ _ _ Egl) as T5. pose proof (emit_exports_tag _ _ _ Eex) as T6.
  pose proof (emit_start_tag _ _ _ Est) as T7. pose proof (emit_elements_tag _ _ _ _ Eel) as T8.
  pose proof (emit_data_count_tag _ _ _ _ Edc) as T9. pose proof (emit_code_tag _ _ _ _ _ _ Eco) as T10.
  pose proof (emit_data_tag _ _ _ Eda) as T11.
  pose proof (emit_types_len _ _ _ _ Ety) as L0. pose proof (emit_imports_len _ _ _ _ Eim) as L1.
  pose proof (emit_func_section_len _ _ _ _ Efn) as L2. pose proof (emit_tables_len m x3) as L3.
  pose proof (emit_memories_len m x4) as L4.
  pose proof (emit_globals_len _ _ _ _ Egl) as L5. pose proof (emit_exports_len _ _ _ Eex) as L6.
  pose proof (emit_start_len _ _ _ Est) as L7. pose proof (emit_elements_len _ _ _ _ Eel) as L8.
  pose proof (emit_data_count_len _ _ _ _ Edc) as L9. pose proof (emit_code_len _ _ _ _ _ _ Eco) as L10.
  pose proof (emit_data_len _ _ _ Eda) as L11.
  assert (R : forall t, tag_count t rest = 0).
  { intros t. apply untagged_count. intros s Hs. destruct (Erest s Hs) as [H|[]]. exact H. }
  unfold stream_wf. apply forallb_forall. intros t Ht. apply in_seq in Ht. apply Nat.leb_le.
  rewrite Esecs, !tag_count_app, R.
  rewrite (tagged_count t _ _ T0), (tagged_count t _ _ T1), (tagged_count t _ _ T2), (tagged_count t _ _ T3),
    (tagged_count t _ _ T4), (tagged_count t _ _ T5), (tagged_count t _ _ T6), (tagged_count t _ _ T7),
    (tagged_count t _ _ T8), (tagged_count t _ _ T9), (tagged_count t _ _ T10), (tagged_count t _ _ T11).
  do 12 (destruct t as [|t]; [cbn [Nat.eqb]; lia|]). lia.
Qed.

(* ====================================================================================== *)
(* O2. the import section comes before the sections that define tables / memories / globals *)
(* ====================================================================================== *)
Lemma tagged_no_def S k l : tagged k l -> k < 3 -> Forall (fun sec => defines S sec = false) l.
Proof.
  unfold tagged. intros T Hk. eapply Forall_impl; [|exact T]. cbn beta. intros s Hs.
  destruct s; cbn [sec_tag] in Hs; destruct S; cbn [defines]; try reflexivity; injection Hs; intros; lia.
Qed.
Lemma tagged_no_imp k l : tagged k l -> k <> 1 -> Forall (fun sec => imports_of sec = []) l.
Proof.
  unfold tagged. intros T Hk. eapply Forall_impl; [|exact T]. cbn beta. intros s Hs.
  destruct s; cbn [sec_tag] in Hs; cbn [imports_of]; try reflexivity. injection Hs; intros; lia.
Qed.

Theorem emit_imports_then_defs : forall m ilen e, emitM m ilen [] = Ok e -> forall S, tmg S -> imports_then_defs S (em_secs e).
Proof.
  intros m ilen e He S HS. emitM_parts2 He.
  pose proof (emit_types_tag _ _ _ _ Ety) as T0. pose proof (emit_imports_tag _ _ _ _ Eim) as T1.
  pose proof (emit_func_section_tag _ _ _ _ Efn) as T2. pose proof (emit_tables_tag m x3) as T3.
  pose proof (emit_memories_tag m x4) as T4.
  pose proof (emit_globals_tag _ _ _ _ Egl) as T5. pose proof (emit_exports_tag _ _ _ Eex) as T6.
  pose proof (emit_start_tag _ _ _ Est) as T7. pose proof (emit_elements_tag _ _ _ _ Eel) as T8.
  pose proof (emit_data_count_tag _ _ _ _ Edc) as T9. pose proof (emit_code_tag _ _ _ _ _ _ Eco) as T10.
  pose proof (emit_data_tag _ _ _ Eda) as T11.
  exists (s_ty ++ s_im). eexists. split; [rewrite Esecs, <- app_assoc; reflexivity|]. split.
  - apply Forall_app. split; eapply tagged_no_def; eauto.
  - repeat (apply Forall_app; split); try (eapply tagged_no_imp; [eassumption|lia]).
    apply Forall_forall. intros s Hs. destruct (Erest s Hs) as [H|[]]. destruct s; try discriminate. reflexivity.
Qed.

(* ====================================================================================== *)
(* O3. second round trip: rho is the identity on tables, memories, globals, segments        *)
(* ====================================================================================== *)
Theorem tmg_identity : forall cf ver w ilen s1 e1 s2 e2, two_trips cf ver w ilen s1 e1 s2 e2 ->
  forall S, tmg S -> rho_id s2 e2 S.
Proof.
  intros cf ver w ilen s1 e1 s2 e2 (P1 & E1 & P2 & E2) S HS i Hi.
  apply (rho_tmg_identity_stream _ _ _ _ _ _ _ S P2 E2 HS); [|exact Hi].
  apply (emit_imports_then_defs _ _ _ E1 S HS).
Qed.

(* element and data segments: on ANY round trip *)
Theorem seg_identity_trip : forall cf ver w s ilen dw e, parseM cf ver w = POk s -> emitM (ps_m s) ilen dw = Ok e ->
  rho_id s e S_elem /\ rho_id s e S_data.
Proof.
  intros cf ver w s ilen dw e HP HE. split; intros i Hi.
  - apply (rho_elem_id _ _ _ _ _ _ _ HP HE). exact Hi.
  - apply (rho_data_id _ _ _ _ _ _ _ HP HE). exact Hi.
Qed.
Theorem seg_identity : forall cf ver w ilen s1 e1 s2 e2, two_trips cf ver w ilen s1 e1 s2 e2 ->
  rho_id s2 e2 S_elem /\ rho_id s2 e2 S_data.
Proof. intros cf ver w ilen s1 e1 s2 e2 (P1 & E1 & P2 & E2). eapply seg_identity_trip; eauto. Qed.

(* ====================================================================================== *)
(* F1. tables and memories: the payload of ANY round trip is the input payload              *)
(* ====================================================================================== *)
Lemma tagged_payload_nil {B} (f : wsec -> list B) k l :
  tagged k l -> (forall s, sec_tag s = Some k -> f s = []) -> flat_map f l = [].
Proof.
  unfold tagged. intros T Hf. apply flat_map_nil. rewrite Forall_forall in T. intros s Hs. apply Hf, T, Hs.
Qed.
Lemma untagged_payload_nil {B} (f : wsec -> list B) l :
  (forall s, In s l -> sec_tag s = None) -> (forall s, sec_tag s = None -> f s = []) -> flat_map f l = [].
Proof. intros T Hf. apply flat_map_nil. intros s Hs. apply Hf, T, Hs. Qed.

(* the payload of kind k of an emitted stream is the payload of the k-th piece *)
Ltac payload_piece f :=
  repeat match goal with
         | T : tagged ?k ?l |- context [flat_map f ?l] =>
             rewrite (tagged_payload_nil f k l T) by (intros [] Hs; try reflexivity; discriminate Hs)
         end.

Lemma emitted_tables m ilen e : emitM m ilen [] = Ok e ->
  flat_map tables_of (em_secs e) = map (fun p => gen_emit_table_local (snd p)) (local_tables m).
Proof.
  intros He. emitM_parts2 He.
  pose proof (emit_types_tag _ _ _ _ Ety) as T0. pose proof (emit_imports_tag _ _ _ _ Eim) as T1.
  pose proof (emit_func_section_tag _ _ _ _ Efn) as T2.
  pose proof (emit_memories_tag m x4) as T4.
  pose proof (emit_globals_tag _ _ _ _ Egl) as T5. pose proof (emit_exports_tag _ _ _ Eex) as T6.
  pose proof (emit_start_tag _ _ _ Est) as T7. pose proof (emit_elements_tag _ _ _ _ Eel) as T8.
  pose proof (emit_data_count_tag _ _ _ _ Edc) as T9. pose proof (emit_code_tag _ _ _ _ _ _ Eco) as T10.
  pose proof (emit_data_tag _ _ _ Eda) as T11.
  assert (R : flat_map tables_of rest = []).
  { apply untagged_payload_nil; [intros s Hs; destruct (Erest s Hs) as [H|[]]; exact H|intros [] Hs; try reflexivity; discriminate Hs]. }
  rewrite Esecs, !flat_map_app, R. payload_piece tables_of. cbn [app]. rewrite !app_nil_r.
  rewrite emit_tables_entries. destruct (local_tables m); [reflexivity|]. cbn [flat_map tables_of]. apply app_nil_r.
Qed.
Lemma emitted_mems m ilen e : emitM m ilen [] = Ok e ->
  flat_map mems_of (em_secs e) = map (fun p => gen_emit_memory_local (snd p)) (local_memories m).
Proof.
  intros He. emitM_parts2 He.
  pose proof (emit_types_tag _ _ _ _ Ety) as T0. pose proof (emit_imports_tag _ _ _ _ Eim) as T1.
  pose proof (emit_func_section_tag _ _ _ _ Efn) as T2. pose proof (emit_tables_tag m x3) as T3.
  pose proof (emit_globals_tag _ _ _ _ Egl) as T5. pose proof (emit_exports_tag _ _ _ Eex) as T6.
  pose proof (emit_start_tag _ _ _ Est) as T7. pose proof (emit_elements_tag _ _ _ _ Eel) as T8.
  pose proof (emit_data_count_tag _ _ _ _ Edc) as T9. pose proof (emit_code_tag _ _ _ _ _ _ Eco) as T10.
  pose proof (emit_data_tag _ _ _ Eda) as T11.
  assert (R : flat_map mems_of rest = []).
  { apply untagged_payload_nil; [intros s Hs; destruct (Erest s Hs) as [H|[]]; exact H|intros [] Hs; try reflexivity; discriminate Hs]. }
  rewrite Esecs, !flat_map_app, R. payload_piece mems_of. cbn [app]. rewrite !app_nil_r.
  rewrite emit_memories_entries. destruct (local_memories m); [reflexivity|]. cbn [flat_map mems_of]. apply app_nil_r.
Qed.

Theorem tables_roundtrip_payload : forall cf ver w s ilen e, parseM cf ver w = POk s -> emitM (ps_m s) ilen [] = Ok e ->
  flat_map tables_of (em_secs e) = flat_map tables_of w.
Proof.
  intros cf ver w s ilen e Hp He. rewrite (emitted_tables _ _ _ He).
  pose proof (parseM_ids _ _ _ _ Hp) as Hid. destruct (parseM_tables _ _ _ _ Hp) as [HT _].
  assert (D : dead (m_tables (ps_m s)) = []) by (unfold ids_consistent in Hid; tauto).
  rewrite (local_tables_core _ D), HT. apply local_sec_tables.
Qed.
Theorem mems_roundtrip_payload : forall cf ver w s ilen e, parseM cf ver w = POk s -> emitM (ps_m s) ilen [] = Ok e ->
  flat_map mems_of (em_secs e) = flat_map mems_of w.
Proof.
  intros cf ver w s ilen e Hp He. rewrite (emitted_mems _ _ _ He).
  pose proof (parseM_ids _ _ _ _ Hp) as Hid. destruct (parseM_tables _ _ _ _ Hp) as [_ HT].
  assert (D : dead (m_memories (ps_m s)) = []) by (unfold ids_consistent in Hid; tauto).
  rewrite (local_memories_core _ D), HT. apply local_sec_mems.
Qed.

Theorem fix_tables : forall cf ver w ilen s1 e1 s2 e2, two_trips cf ver w ilen s1 e1 s2 e2 ->
  flat_map tables_of (em_secs e2) = flat_map tables_of (em_secs e1).
Proof. intros cf ver w ilen s1 e1 s2 e2 (P1 & E1 & P2 & E2). eapply tables_roundtrip_payload; eauto. Qed.
Theorem fix_mems : forall cf ver w ilen s1 e1 s2 e2, two_trips cf ver w ilen s1 e1 s2 e2 ->
  flat_map mems_of (em_secs e2) = flat_map mems_of (em_secs e1).
Proof. intros cf ver w ilen s1 e1 s2 e2 (P1 & E1 & P2 & E2). eapply mems_roundtrip_payload; eauto. Qed.

(* ====================================================================================== *)
(* F2. globals                                                                             *)
(* ====================================================================================== *)
Lemma emitted_globals_piece m ilen e : emitM m ilen [] = Ok e ->
  exists x5 s_gl x6, emit_globals m x5 = Ok (s_gl, x6) /\ flat_map globals_of (em_secs e) = flat_map globals_of s_gl.
Proof.
  intros He. emitM_parts2 He.
  pose proof (emit_types_tag _ _ _ _ Ety) as T0. pose proof (emit_imports_tag _ _ _ _ Eim) as T1.
  pose proof (emit_func_section_tag _ _ _ _ Efn) as T2. pose proof (emit_tables_tag m x3) as T3.
  pose proof (emit_memories_tag m x4) as T4. pose proof (emit_exports_tag _ _ _ Eex) as T6.
  pose proof (emit_start_tag _ _ _ Est) as T7. pose proof (emit_elements_tag _ _ _ _ Eel) as T8.
  pose proof (emit_data_count_tag _ _ _ _ Edc) as T9. pose proof (emit_code_tag _ _ _ _ _ _ Eco) as T10.
  pose proof (emit_data_tag _ _ _ Eda) as T11.
  assert (R : flat_map globals_of rest = []).
  { apply untagged_payload_nil; [intros s Hs; destruct (Erest s Hs) as [H|[]]; exact H|intros [] Hs; try reflexivity; discriminate Hs]. }
  exists x5, s_gl, x6. split; [exact Egl|].
  rewrite Esecs, !flat_map_app, R. payload_piece globals_of. cbn [app]. rewrite !app_nil_r. reflexivity.
Qed.

(* single round trip, modulo the renumbering: also when there is no global section at all *)
Theorem globals_roundtrip_payload : forall cf ver w s ilen e, parseM cf ver w = POk s -> emitM (ps_m s) ilen [] = Ok e ->
  Forall2 (global_rt e) (flat_map globals_of w) (flat_map globals_of (em_secs e)).
Proof.
  intros cf ver w s ilen e Hp He. destruct (flat_map globals_of w) as [|g0 gr] eqn:Ew.
  - destruct (emitted_globals_piece _ _ _ He) as (x5 & s_gl & x6 & Egl & ->).
    destruct (parseM_GES _ _ _ _ Hp) as (HG & _ & _). pose proof (parseM_ids _ _ _ _ Hp) as Hid.
    assert (D : dead (m_globals (ps_m s)) = []) by (unfold ids_consistent in Hid; tauto).
    pose proof (local_globals_core _ D) as L. rewrite HG, sec_globals_of, Ew in L. cbn [map] in L.
    rewrite emit_globals_unfold in Egl. destruct (local_globals (ps_m s)); [|discriminate L].
    inversion Egl; subst. constructor.
  - rewrite <- Ew. assert (Hne : flat_map globals_of w <> []) by (rewrite Ew; discriminate).
    destruct (structure_globals_gen _ _ _ _ _ _ _ Hp He Hne) as (gs & Hin & F).
    assert (E : flat_map globals_of (em_secs e) = gs).
    { apply (once_flat_map globals_of 5) with (sec := S_Globals gs);
        [|apply stream_wf_once; [exact (emit_stream_wf _ _ _ He)|lia]|exact Hin|reflexivity].
      intros [] Hs; try reflexivity. discriminate. }
    rewrite E. exact F.
Qed.

(* an emitted initialiser is never the "other constant expression" placeholder *)
Lemma emit_const_not_other x c wc : emit_const x c = Ok wc -> wc <> WC_Other.
Proof.
  destruct c as [v|g|t|f]; cbn [emit_const].
  - destruct v; intros H; inversion H; discriminate.
  - destruct (get_idx x S_global g); cbn [rmap]; intros H; inversion H; discriminate.
  - intros H; inversion H; discriminate.
  - destruct (get_idx x S_func f); cbn [rmap]; intros H; inversion H; discriminate.
Qed.
Lemma emitted_globals_not_other m ilen e : emitM m ilen [] = Ok e ->
  Forall (fun g => snd g <> WC_Other) (flat_map globals_of (em_secs e)).
Proof.
  intros He. destruct (emitted_globals_piece _ _ _ He) as (x5 & s_gl & x6 & Egl & ->).
  rewrite emit_globals_unfold in Egl. destruct (local_globals m) as [|p0 ps] eqn:El.
  - inversion Egl; subst. constructor.
  - rewrite <- El in Egl. rinv Egl as r Er. inversion Egl; subst; clear Egl. cbn [flat_map globals_of]. rewrite app_nil_r.
    apply globals_go_entries' in Er. destruct Er as [_ F]. clear El.
    induction F as [|t g l gs [_ Hg] _ IH]; constructor; [|exact IH]. eapply emit_const_not_other; eauto.
Qed.

(* where rho is the identity, the emit-time map sends an index to itself *)
Lemma get_idx_rho_id cf ver w s ilen dw e S i j : parseM cf ver w = POk s -> emitM (ps_m s) ilen dw = Ok e ->
  S <> S_type -> S <> S_local -> rho_id s e S -> get_idx (em_x2i e) S i = Ok j -> j = i.
Proof.
  intros HP HE HS HL Hid Hg.
  assert (Hin : In i (emitted_ids e S)) by (unfold emitted_ids; apply lookup_total_iff; exists j; exact Hg).
  apply (emitted_full _ _ _ _ _ _ _ HP HE S i HS HL) in Hin. unfold n_in in Hin.
  pose proof (Hid i Hin) as Hr. rewrite (rho_entity_conv s e S i (parseM_ids _ _ _ _ HP) HS HL Hin) in Hr. congruence.
Qed.
Lemma ren_const_id cf ver w s ilen dw e c wc : parseM cf ver w = POk s -> emitM (ps_m s) ilen dw = Ok e ->
  rho_id s e S_global -> rho_id s e S_func -> c <> WC_Other -> ren_const (em_x2i e) c wc -> wc = c.
Proof.
  intros HP HE Ig If Hc H. destruct c; cbn [ren_const] in H; try exact H; try congruence.
  - destruct H as (j & Hj & ->). f_equal. eapply get_idx_rho_id with (S := S_global); eauto; discriminate.
  - destruct H as (j & Hj & ->). f_equal. eapply get_idx_rho_id with (S := S_func); eauto; discriminate.
Qed.

(* single round trip: literal equality as soon as rho is the identity on globals and functions and no
   input initialiser is the placeholder *)
Theorem globals_roundtrip_literal : forall cf ver w s ilen e, parseM cf ver w = POk s -> emitM (ps_m s) ilen [] = Ok e ->
  rho_id s e S_global -> rho_id s e S_func -> Forall (fun g => snd g <> WC_Other) (flat_map globals_of w) ->
  flat_map globals_of (em_secs e) = flat_map globals_of w.
Proof.
  intros cf ver w s ilen e HP HE Ig If Hno. pose proof (globals_roundtrip_payload _ _ _ _ _ _ HP HE) as F.
  induction F as [|wi wo l l' [H1 H2] _ IH]; [reflexivity|]. inversion Hno; subst. f_equal; [|apply IH; assumption].
  destruct wi as [a c], wo as [a' c']. cbn [fst snd] in *. subst a'. f_equal.
  eapply ren_const_id; eauto.
Qed.

Theorem fix_globals : forall cf ver w ilen s1 e1 s2 e2, two_trips cf ver w ilen s1 e1 s2 e2 ->
  rho_id s2 e2 S_func -> flat_map globals_of (em_secs e2) = flat_map globals_of (em_secs e1).
Proof.
  intros cf ver w ilen s1 e1 s2 e2 T If. pose proof (tmg_identity _ _ _ _ _ _ _ _ T S_global) as Ig.
  destruct T as (P1 & E1 & P2 & E2).
  apply (globals_roundtrip_literal _ _ _ _ _ _ P2 E2); [apply Ig; right; right; reflexivity|exact If|].
  apply (emitted_globals_not_other _ _ _ E1).
Qed.

Print Assumptions emit_stream_wf.
Print Assumptions emit_imports_then_defs.
Print Assumptions tmg_identity.
Print Assumptions seg_identity.
Print Assumptions tables_roundtrip_payload.
Print Assumptions mems_roundtrip_payload.
Print Assumptions fix_tables.
Print Assumptions fix_mems.
Print Assumptions globals_roundtrip_payload.
Print Assumptions globals_roundtrip_literal.
Print Assumptions fix_globals.
