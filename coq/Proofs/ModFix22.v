(* Towards totality of the second trip: the emitted body is [ParseTotal.body_valid]. *)
From Coq Require Import List NArith Bool Lia Setoid. Import ListNotations.
From WV Require Import Gen.Ops Model.Common Model.IR Model.ModuleM Model.ParseFn Model.ParseSpec Model.EmitFn
  Model.BodySpec Model.Sem Model.EmitSpec Model.Traversal.
From WV Require Import Proofs.ParseFn Proofs.Codec Proofs.Body Proofs.Sem Proofs.Escalation Proofs.Fixpoint
  Proofs.EmitFn Proofs.Traversal Proofs.ParseTotal Proofs.ModFix10 Proofs.ModFix14.
From WV Require Import Model.ParseM Model.EmitM Proofs.Structure2 Proofs.Totality Proofs.ModFix Proofs.ModFix12 Proofs.ModFix15 Proofs.IndexMaps Proofs.ParsedWf Proofs.ModFix3.
Local Open Scope nat_scope.

(* what body validity needs of one instruction *)
Definition sok (nt : nat) (w : wins) : Prop :=
  match w with
  | WOp o => forall f, decode_plain f o <> None
  | WBlock bt | WLoop bt | WIf bt => sbt_ok nt bt
  | _ => True
  end.
Definition sokp (nt : nat) (p : wins * N) : Prop := sok nt (fst p).

(* ------------------------------------------------------------------ swf is invariant under re-tagging *)
Definition SWt (nt : nat) (t : rt) : Prop := forall k ls, swf nt k (fst (reloc_t t ls)) <-> swf nt k t.
Definition SWl (nt : nat) (l : list rt) : Prop := forall k ls, swfl nt k (fst (reloc_l l ls)) <-> swfl nt k l.
Lemma SWl_of_Forall nt l : Forall (SWt nt) l -> SWl nt l.
Proof.
  induction 1 as [|t l Ht Hl IH]; intros k ls; [reflexivity|].
  cbn [reloc_l fst swfl]. rewrite (Ht k ls), (IH k (snd (reloc_t t ls))). reflexivity.
Qed.
Lemma SWt_all nt : forall t, SWt nt t.
Proof.
  induction t as [o l|l|d l|d l|ds d l|bt body l e HF|bt body l e HF|bt th el l e HFt HFe] using rt_ind';
    intros k ls.
  - reflexivity.
  - reflexivity.
  - reflexivity.
  - reflexivity.
  - reflexivity.
  - rewrite reloc_block. cbn [fst]. rewrite !swf_block. rewrite (SWl_of_Forall _ _ HF (S k) (tl ls)). reflexivity.
  - rewrite reloc_loop. cbn [fst]. rewrite !swf_loop. rewrite (SWl_of_Forall _ _ HF (S k) (tl ls)). reflexivity.
  - destruct el as [[le eb]|].
    + rewrite reloc_if_some. cbn [fst]. rewrite !swf_if. cbn [optP snd] in HFe.
      rewrite (SWl_of_Forall _ _ HFt (S k) (tl ls)), (SWl_of_Forall _ _ HFe (S k) (tl (snd (reloc_l th (tl ls))))). reflexivity.
    + rewrite reloc_if_none. cbn [fst]. rewrite !swf_if. rewrite (SWl_of_Forall _ _ HFt (S k) (tl ls)). reflexivity.
Qed.
Theorem swfl_reloc : forall nt k L locs, swfl nt k (reloc L locs) <-> swfl nt k L.
Proof. intros nt k L locs. apply SWl_of_Forall, Forall_forall. intros t _. apply SWt_all. Qed.

(* ------------------------------------------------------------------ the renamed tree is stream-valid *)
Section SwfRen.
  Variable cx : pctx.
  Variable ecx : ectx.
  Variable nt : nat.
  Definition St (t : rt) : Prop := forall k, wf cx k t -> Forall (sokp nt) (flat (ren_t cx ecx t)) ->
    swf nt k (ren_t cx ecx t).
  Definition Sl (l : list rt) : Prop := forall k, wfl cx k l -> Forall (sokp nt) (flat_list (map (ren_t cx ecx) l)) ->
    swfl nt k (map (ren_t cx ecx) l).
  Lemma Sl_of_Forall l : Forall St l -> Sl l.
  Proof.
    induction 1 as [|t l Ht Hl IH]; intros k Hw Hf; [exact I|].
    destruct Hw as [Hw1 Hw2]. cbn [map] in *. rewrite flat_list_cons in Hf. apply Forall_app in Hf.
    destruct Hf as [Hf1 Hf2]. split; [apply (Ht k Hw1 Hf1)|apply (IH k Hw2 Hf2)].
  Qed.
  Lemma St_all : forall t, St t.
  Proof.
    induction t as [o l|l|d l|d l|ds d l|bt body l e HF|bt body l e HF|bt th el l e HFt HFe] using rt_ind';
      intros k Hw Hf.
    - cbn [ren_t] in *. unfold ren_leaf in *. destruct (nf_op cx ecx o) as [w| | | | | | | | |] eqn:E; try exact I.
      cbn [flat] in Hf. apply Forall_inv in Hf. exact Hf.
    - exact I.
    - exact Hw.
    - exact Hw.
    - exact Hw.
    - cbn [ren_t] in *. rewrite wf_block in Hw. rewrite swf_block. cbn [flat] in Hf. fold (flat_list (map (ren_t cx ecx) body)) in Hf.
      apply Forall_cons_iff in Hf. destruct Hf as [Hb Hf]. apply Forall_app in Hf. destruct Hf as [Hf _].
      split; [exact Hb|apply (Sl_of_Forall _ HF (S k) (proj2 Hw) Hf)].
    - cbn [ren_t] in *. rewrite wf_loop in Hw. rewrite swf_loop. cbn [flat] in Hf. fold (flat_list (map (ren_t cx ecx) body)) in Hf.
      apply Forall_cons_iff in Hf. destruct Hf as [Hb Hf]. apply Forall_app in Hf. destruct Hf as [Hf _].
      split; [exact Hb|apply (Sl_of_Forall _ HF (S k) (proj2 Hw) Hf)].
    - rewrite wf_if in Hw. destruct Hw as (_ & Hw1 & Hw2). destruct el as [[le eb]|].
      + cbn [ren_t] in *. rewrite swf_if. cbn [optP snd] in HFe. cbn [flat] in Hf.
        fold (flat_list (map (ren_t cx ecx) th)) in Hf. fold (flat_list (map (ren_t cx ecx) eb)) in Hf.
        apply Forall_cons_iff in Hf. destruct Hf as [Hb Hf]. apply Forall_app in Hf. destruct Hf as [Hf1 Hf].
        apply Forall_cons_iff in Hf. destruct Hf as [_ Hf]. apply Forall_app in Hf. destruct Hf as [Hf2 _].
        split; [exact Hb|]. split; [apply (Sl_of_Forall _ HFt (S k) Hw1 Hf1)|apply (Sl_of_Forall _ HFe (S k) Hw2 Hf2)].
      + cbn [ren_t] in *. rewrite swf_if. cbn [flat] in Hf.
        fold (flat_list (map (ren_t cx ecx) th)) in Hf.
        apply Forall_cons_iff in Hf. destruct Hf as [Hb Hf]. apply Forall_app in Hf. destruct Hf as [Hf1 _].
        split; [exact Hb|]. split; [apply (Sl_of_Forall _ HFt (S k) Hw1 Hf1)|exact I].
  Qed.
  Theorem swfl_ren : forall k l, wfl cx k l -> Forall (sokp nt) (flat_list (map (ren_t cx ecx) l)) ->
    swfl nt k (map (ren_t cx ecx) l).
  Proof. intros k l. apply Sl_of_Forall, Forall_forall. intros t _. apply St_all. Qed.
End SwfRen.

(* block types of the emitted stream are declared *)
Definition bts_below (nt : nat) (w : wins) : Prop :=
  match w with WBlock bt | WLoop bt | WIf bt => sbt_ok nt bt | _ => True end.

(* Z1 *)
Theorem emitted_tree_swfl : forall cx ecx ety rs l eloc p0 ar1 st1 fuel1 nt,
  wfl cx 1 l -> parse_body cx ety rs (flat_list l ++ [(WEnd, eloc)]) = Ok ar1 ->
  emit_body ecx fuel1 ar1 0 p0 = Ok st1 ->
  Forall (bts_below nt) (out st1) ->
  swfl nt 1 (emitted_tree cx ecx l (map snd (imap st1))).
Proof.
  intros cx ecx ety rs l eloc p0 ar1 st1 fuel1 nt Hw Hp He HB.
  pose proof (emitted_ops_plain _ _ _ _ _ _ _ _ _ _ Hw Hp He) as HP.
  assert (HS : Forall (sok nt) (out st1)).
  { rewrite Forall_forall in *. intros w Hin. specialize (HB w Hin). specialize (HP w Hin).
    destruct w; cbn [sok bts_below] in *; auto. apply HP. }
  destruct (first_trip_facts _ _ _ _ _ _ _ _ _ _ Hw (enc_ok_all cx ecx) Hp He) as [Ho _].
  rewrite nf_body_ops, <- flat_ren in Ho. rewrite Ho in HS. apply Forall_app in HS. destruct HS as [HS _].
  unfold emitted_tree. apply swfl_reloc. apply swfl_ren.
  - apply wfl_nf_rt. exact Hw.
  - unfold sokp. apply (proj1 (Forall_map fst (sok nt) _)). exact HS.
Qed.

Theorem emitted_body_valid : forall cx ecx ety rs l eloc p0 ar1 st1 fuel1 nt decls,
  wfl cx 1 l -> parse_body cx ety rs (flat_list l ++ [(WEnd, eloc)]) = Ok ar1 ->
  emit_body ecx fuel1 ar1 0 p0 = Ok st1 ->
  Forall (bts_below nt) (out st1) ->
  body_valid nt {| wb_locals := decls; wb_ops := combine (out st1) (map snd (imap st1)) |}.
Proof.
  intros cx ecx ety rs l eloc p0 ar1 st1 fuel1 nt decls Hw Hp He HB.
  destruct (emitted_ops_structured _ _ _ _ _ _ _ _ _ _ Hw (enc_ok_all _ _) Hp He) as (eloc1 & Hops & _).
  exists (emitted_tree cx ecx l (map snd (imap st1))), eloc1. split; [exact Hops|].
  eapply emitted_tree_swfl; eassumption.
Qed.

(* the premise from X3: it is enough that every emitted type index of a Multi block type is in range *)
Lemma bts_below_of_shape cx ecx nt w : bt_shape_w cx ecx w ->
  (forall ty ps' rs', nth_N (px_types cx) ty = Some (ps', rs', false) -> existing cx ps' rs' = Some (ST_Multi ty) ->
     N.to_nat (ex_id2i ecx S_type ty) < nt) ->
  bts_below nt w.
Proof.
  intros Hs Hb. destruct w; cbn [bts_below bt_shape_w] in *; try exact I;
    (destruct Hs as [->|[(t & ->)|(ty & ps' & rs' & -> & Hn & He & _)]]; cbn [sbt_ok]; [exact I|exact I|eapply Hb; eassumption]).
Qed.

Corollary emitted_body_valid_types : forall cx ecx ety rs l eloc p0 ar1 st1 fuel1 nt decls,
  wfl cx 1 l -> parse_body cx ety rs (flat_list l ++ [(WEnd, eloc)]) = Ok ar1 ->
  emit_body ecx fuel1 ar1 0 p0 = Ok st1 ->
  (forall ty ps' rs', nth_N (px_types cx) ty = Some (ps', rs', false) -> existing cx ps' rs' = Some (ST_Multi ty) ->
     N.to_nat (ex_id2i ecx S_type ty) < nt) ->
  body_valid nt {| wb_locals := decls; wb_ops := combine (out st1) (map snd (imap st1)) |}.
Proof.
  intros cx ecx ety rs l eloc p0 ar1 st1 fuel1 nt decls Hw Hp He Hb.
  eapply emitted_body_valid; try eassumption.
  eapply Forall_impl; [|exact (emitted_bts _ _ _ _ _ _ _ _ _ _ Hw Hp He)].
  intros w Hs. eapply bts_below_of_shape; eassumption.
Qed.

Print Assumptions emitted_tree_swfl.
Print Assumptions emitted_body_valid.
Print Assumptions emitted_body_valid_types.

(* ================================================================== Z2 (conditional on the type-index bound) *)
(* every type index the first emit writes for a non-entry type found as itself is below [nt] *)
Definition type_idx_bound (s1 : pst) (e1 : emitted) (ilen : wins -> N) (nt : nat) : Prop :=
  forall id lmap ty ps' rs',
    nth_N (px_types (cx_of s1 id)) ty = Some (ps', rs', false) ->
    existing (cx_of s1 id) ps' rs' = Some (ST_Multi ty) ->
    N.to_nat (ex_id2i (ecx_of e1 lmap ilen) S_type ty) < nt.

Lemma Forall2_In_r {A B} (R : A -> B -> Prop) l1 l2 : Forall2 R l1 l2 ->
  forall b, In b l2 -> exists a, In a l1 /\ R a b.
Proof.
  induction 1 as [|a b l1 l2 Hab _ IH]; intros b0 Hin; [elim Hin|].
  destruct Hin as [<-|Hin]; [exists a; split; [left; reflexivity|exact Hab]|].
  destruct (IH _ Hin) as (a' & Ha & Hr). exists a'. split; [right; exact Ha|exact Hr].
Qed.

Theorem emitted_bodies_valid_cond : forall cf ver w s1 ilen e1 fs nt,
  valid_stream w -> parseM cf ver w = POk s1 -> emitM (ps_m s1) ilen [] = Ok e1 ->
  used_local_functions (ps_m s1) = Ok fs ->
  type_idx_bound s1 e1 ilen nt ->
  Forall (body_valid nt) (flat_map code_of (em_secs e1)).
Proof.
  intros cf ver w s1 ilen e1 fs nt V P1 E1 Hfs Hty.
  destruct (emit_code_payload _ _ _ _ E1 Hfs) as (Hco & F & _ & _).
  rewrite Hco. apply Forall_map. apply Forall_forall. intros ef Hin.
  destruct (Forall2_In_r _ _ _ F ef Hin) as ([id lf] & Hp & Hemit). cbn [fst snd] in Hemit.
  destruct (ulf_in _ _ _ _ Hfs Hp) as (f1 & Hinf & Hk). apply aiter_aget in Hinf.
  destruct (first_trip_function cf ver w s1 ilen e1 id f1 lf ef V P1 Hinf Hk Hemit)
    as (t & ety & l & eloc & evs & decls & lmap & st & _ & Hw & Hpb & _ & _ & _ & _ & Heb & Hbody & _).
  rewrite Hbody.
  eapply emitted_body_valid_types; try eassumption.
  intros ty ps' rs' Hn He. eapply Hty; eassumption.
Qed.

Print Assumptions emitted_bodies_valid_cond.

(* ================================================================== Z2: the type-index bound *)
Lemma In_combine_l {A B} (a : A) : forall (l : list A) (js : list B), In a l -> length js = length l ->
  exists k, In (a, k) (combine l js).
Proof.
  induction l as [|x l IH]; intros js Hin Hl; [elim Hin|].
  destruct js as [|j js]; [discriminate Hl|]. cbn [combine]. destruct Hin as [->|Hin].
  - exists j. left. reflexivity.
  - destruct (IH js Hin) as [k Hk]; [cbn in Hl; lia|]. exists k. right. exact Hk.
Qed.
Lemma find_number_bound ids id : In id ids ->
  exists p, find (fun p => N.eqb (fst p) id) (number ids) = Some p /\ N.to_nat (snd p) < length ids.
Proof.
  intros Hin. destruct (find (fun p => N.eqb (fst p) id) (number ids)) as [p|] eqn:E.
  - exists p. split; [reflexivity|]. apply find_some in E. destruct E as [Hp _].
    unfold number in Hp. destruct p as [a b]. apply in_combine_r in Hp. apply WV.Proofs.Totality.iota_In in Hp. exact Hp.
  - exfalso. destruct (In_combine_l id ids (iota (length ids)) Hin (iota_length _)) as [k Hk].
    pose proof (find_none _ _ E _ Hk) as Hn. cbn [fst] in Hn. rewrite N.eqb_refl in Hn. discriminate Hn.
Qed.

Theorem type_idx_bound_holds : forall cf ver w s1 ilen e1,
  parseM cf ver w = POk s1 -> emitM (ps_m s1) ilen [] = Ok e1 ->
  type_idx_bound s1 e1 ilen (length (flat_map types_of (em_secs e1))).
Proof.
  intros cf ver w s1 ilen e1 P1 E1 id lmap ty ps' rs' Hn _.
  cbn [cx_of px_types] in Hn. unfold types_list, nth_N in Hn. rewrite nth_error_map in Hn.
  destruct (nth_error (WV.Model.Arena.items (WV.Model.Arena.arena (m_types (ps_m s1)))) (N.to_nat ty)) as [t|] eqn:Et; [|discriminate Hn].
  cbn [option_map] in Hn. injection Hn as _ _ Hent.
  assert (G : types_get (ps_m s1) ty = Some t).
  { unfold types_get. rewrite aset_index_nodead; [exact Et|]. apply (parseM_types_wf _ _ _ _ P1). }
  pose proof (WV.Proofs.Totality.emitted_types_In _ _ _ G Hent) as Hi.
  destruct (emitM_x2i _ _ _ _ E1) as (fs & _ & Xt & _).
  destruct (find_number_bound _ _ Hi) as (p & Hf & Hb).
  cbn [ecx_of ex_id2i]. unfold id2i_fun. cbn [space_map]. rewrite Xt, Hf.
  rewrite (out_types_keys _ _ _ E1), !map_length in *. exact Hb.
Qed.

(* Z2 *)
Theorem emitted_bodies_valid : forall cf ver w s1 ilen e1,
  valid_stream w -> parseM cf ver w = POk s1 -> emitM (ps_m s1) ilen [] = Ok e1 ->
  Forall (body_valid (length (flat_map types_of (em_secs e1)))) (flat_map code_of (em_secs e1)).
Proof.
  intros cf ver w s1 ilen e1 V P1 E1.
  destruct (emitM_x2i _ _ _ _ E1) as (fs & Hfs & _).
  eapply emitted_bodies_valid_cond; try eassumption. eapply type_idx_bound_holds; eassumption.
Qed.

Print Assumptions type_idx_bound_holds.
Print Assumptions emitted_bodies_valid.

(* ================================================================== the premise of ModFix16.second_parse_total *)
Lemma no_types_nil tail : (forall ts, ~ In (S_Types ts) tail) -> flat_map types_of tail = [].
Proof.
  induction tail as [|s tail IH]; intros H; [reflexivity|]. cbn [flat_map].
  rewrite IH by (intros ts Hin; apply (H ts); right; exact Hin).
  destruct s; try reflexivity. exfalso. eapply H. left. reflexivity.
Qed.

Theorem emitted_bodies_valid_sections : forall cf ver w s1 ilen e1,
  valid_stream w -> parseM cf ver w = POk s1 -> emitM (ps_m s1) ilen [] = Ok e1 ->
  forall pre bs post, em_secs e1 = pre ++ S_Code bs :: post ->
  Forall (body_valid (length (flat_map types_of pre))) bs.
Proof.
  intros cf ver w s1 ilen e1 V P1 E1 pre bs post Es.
  pose proof (emitted_bodies_valid cf ver w s1 ilen e1 V P1 E1) as HB.
  assert (Hpost : flat_map types_of post = []).
  { destruct (emitted_types_front _ _ _ E1) as (tail & NT & [Et|Et]); rewrite Es in Et.
    - apply no_types_nil. intros ts Hin. apply (NT ts). rewrite <- Et. apply in_or_app. right. right. exact Hin.
    - destruct pre as [|p pre]; [discriminate Et|]. cbn [app] in Et. injection Et as _ Et.
      apply no_types_nil. intros ts Hin. apply (NT ts). rewrite <- Et. apply in_or_app. right. right. exact Hin. }
  rewrite Es in HB. rewrite !flat_map_app in HB. cbn [flat_map] in HB. rewrite Hpost in HB.
  change (types_of (S_Code bs)) with (@nil (list valty * list valty)) in HB || cbn [types_of] in HB.
  rewrite ?app_nil_r in HB. cbn [code_of] in HB.
  apply Forall_app in HB. destruct HB as [_ HB]. apply Forall_app in HB. destruct HB as [HB _]. exact HB.
Qed.

Print Assumptions emitted_bodies_valid_sections.
