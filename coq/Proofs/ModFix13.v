(* C08, module level fixpoint, part 13: the second parse sees exactly as many entities per index space
   as the first module had (n_in s2 S = n_in s1 S), hence ModFix7.counts_kept. *)
From Coq Require Import List NArith ZArith Bool Arith Lia Sorting.Sorted Sorting.Permutation.
Import ListNotations.
From WV Require Import Gen.Ops Model.Common Model.IR Model.Arena Model.Traversal Model.EmitFn Model.Locals
                       Model.ParseFn Model.ModuleM Model.ParseM Model.EmitM Gen.Attrs.
From WV Require Import Proofs.Arena Proofs.Order Proofs.SortKeys Proofs.IndexMaps Proofs.CustomsCfg Proofs.Structure Proofs.Structure2
                       Proofs.Renumbering Proofs.Names Proofs.Totality Proofs.Escalation Proofs.ModFix
                       Proofs.ModFix4 Proofs.ModFix5 Proofs.ModFix6 Proofs.ModFix7.
Local Open Scope nat_scope.

(* ====================================================================================== *)
(* functions                                                                               *)
(* ====================================================================================== *)
Lemma k13_n_func cf ver w s : parseM cf ver w = POk s -> n_in s S_func = length (flat_map sec_ftys w).
Proof.
  intros HP. rewrite (n_in_arena _ _ _ _ HP) by discriminate. cbn [arena_len].
  destruct (parseM_sigs _ _ _ _ HP) as [_ HF]. unfold FInv in HF. apply Forall2_length in HF.
  unfold K_fty in HF. rewrite map_length in HF. lia.
Qed.

Theorem n_in_kept_func : forall cf ver w ilen s1 e1 s2 e2, two_trips cf ver w ilen s1 e1 s2 e2 ->
  n_in s2 S_func = n_in s1 S_func.
Proof.
  intros cf ver w ilen s1 e1 s2 e2 (P1 & E1 & P2 & E2).
  rewrite (k13_n_func _ _ _ _ P2). fold (out_ftys e1). rewrite (fn_out_ftys_length _ _ _ E1).
  apply (emitted_count _ _ _ _ _ _ _ P1 E1); discriminate.
Qed.

(* ====================================================================================== *)
(* element segments                                                                        *)
(* ====================================================================================== *)
Lemma k13_n_elem cf ver w s : parseM cf ver w = POk s -> n_in s S_elem = length (flat_map elems_of w).
Proof.
  intros HP. rewrite (n_in_arena _ _ _ _ HP) by discriminate. cbn [arena_len].
  pose proof (parseM_elems _ _ _ _ HP) as HK. unfold K_elems in HK.
  apply (f_equal (@length _)) in HK. rewrite !map_length in HK. exact HK.
Qed.

Lemma k13_elems_len cf ver w s ilen e : parseM cf ver w = POk s -> emitM (ps_m s) ilen [] = Ok e ->
  length (flat_map elems_of (em_secs e)) = length (flat_map elems_of w).
Proof.
  intros HP HE. destruct (flat_map elems_of w) as [|x0 r0] eqn:Ew.
  - rewrite (sg_elems_empty _ _ _ _ _ _ HP HE Ew). reflexivity.
  - destruct (structure_elems_gen _ _ _ _ _ _ _ HP HE) as (es & Hin & F); [rewrite Ew; discriminate|].
    rewrite Ew in F. apply Forall2_length in F.
    rewrite (sg_once_payload elems_of 8 _ (S_Elems es)); [cbn [elems_of]; lia|exact (sg_stream_wf _ _ _ HE)|lia| |exact Hin|reflexivity].
    intros [] Hs; try reflexivity. discriminate.
Qed.

Theorem n_in_kept_elem : forall cf ver w ilen s1 e1 s2 e2, two_trips cf ver w ilen s1 e1 s2 e2 ->
  n_in s2 S_elem = n_in s1 S_elem.
Proof.
  intros cf ver w ilen s1 e1 s2 e2 (P1 & E1 & P2 & E2).
  rewrite (k13_n_elem _ _ _ _ P2), (k13_n_elem _ _ _ _ P1). apply (k13_elems_len _ _ _ _ _ _ P1 E1).
Qed.

(* ====================================================================================== *)
(* data segments                                                                           *)
(* ====================================================================================== *)
Lemma k13_n_data cf ver w s : parseM cf ver w = POk s -> n_in s S_data = length (aiter (m_data (ps_m s))).
Proof.
  intros HP. rewrite (n_in_arena _ _ _ _ HP) by discriminate. cbn [arena_len].
  pose proof (parseM_ids _ _ _ _ HP) as Hid.
  assert (D : dead (m_data (ps_m s)) = []) by (unfold ids_consistent in Hid; tauto).
  rewrite <- (aiter_nodead_snd _ D), map_length. reflexivity.
Qed.

Theorem n_in_kept_data : forall cf ver w ilen s1 e1 s2 e2, two_trips cf ver w ilen s1 e1 s2 e2 ->
  n_in s2 S_data = n_in s1 S_data.
Proof.
  intros cf ver w ilen s1 e1 s2 e2 (P1 & E1 & P2 & E2).
  rewrite (k13_n_data _ _ _ _ P1).
  pose proof (sg_stream_wf _ _ _ E1) as W1.
  destruct (aiter (m_data (ps_m s1))) as [|p0 ps] eqn:Ha.
  - pose proof (sg_nodata_out _ _ _ E1 Ha) as N1. pose proof (sg_nodata_in _ _ _ _ P2 N1) as Ha2.
    rewrite (k13_n_data _ _ _ _ P2), Ha2. reflexivity.
  - destruct (sg_data_out _ _ _ E1) as (ds1 & Hin1 & Hne1 & F1 & Hdc1 & _); [rewrite Ha; discriminate|].
    rewrite Ha in F1. apply Forall2_length in F1.
    pose proof (parseM_data_wf _ _ _ _ _ P2 W1 Hin1 Hdc1) as HK. unfold K_data in HK.
    apply (f_equal (@length _)) in HK. rewrite !map_length in HK.
    rewrite (n_in_arena _ _ _ _ P2) by discriminate. cbn [arena_len]. lia.
Qed.

(* ====================================================================================== *)
(* imports of one round trip: same kinds, position by position                             *)
(* ====================================================================================== *)
Lemma k13_imports_rt cf ver w s ilen e : parseM cf ver w = POk s -> emitM (ps_m s) ilen [] = Ok e ->
  Forall2 (import_rt s e) (flat_map imports_of w) (flat_map imports_of (em_secs e)).
Proof.
  intros P1 E1.
  destruct (fn_sections _ _ _ E1) as (s_ty & x1 & s_im & x2 & s_fn & x3 & Ety & Eim & Efn & HI & _ & TI & _).
  destruct (flat_map imports_of w) as [|i0 r0] eqn:EI.
  - pose proof (parseM_imports _ _ _ _ P1) as FI. rewrite EI in FI. apply Forall2_length in FI. cbn [length] in FI.
    pose proof (parseM_ids _ _ _ _ P1) as Hid.
    assert (D : dead (m_imports (ps_m s)) = []) by (unfold ids_consistent in Hid; tauto).
    rewrite HI. unfold emit_imports in Eim. rewrite (aiter_nodead_snd _ D) in Eim.
    destruct (items (m_imports (ps_m s))); [|discriminate]. inversion Eim; subst. constructor.
  - assert (Hne : flat_map imports_of w <> []) by (rewrite EI; discriminate).
    destruct (structure_imports_gen _ _ _ _ _ _ _ P1 E1 Hne) as (ws & Hin & F).
    rewrite EI in F.
    apply TI in Hin; [|reflexivity]. rewrite HI.
    destruct (fn_emit_imports_shape _ _ _ _ Eim) as [->|[ws' ->]]; [destruct Hin|].
    destruct Hin as [Hin|[]]. inversion Hin; subst. cbn [flat_map imports_of]. rewrite app_nil_r. exact F.
Qed.

Lemma k13_imp_lens s e : forall l l', Forall2 (import_rt s e) l l' ->
  length (imp_tables_w l') = length (imp_tables_w l) /\ length (imp_mems_w l') = length (imp_mems_w l) /\
  length (imp_globals_w l') = length (imp_globals_w l).
Proof.
  induction 1 as [|a b l l' R F IH]; [repeat split; reflexivity|].
  destruct IH as (I1 & I2 & I3). destruct R as (_ & _ & R).
  unfold imp_tables_w, imp_mems_w, imp_globals_w in *. cbn [flat_map]. rewrite !app_length, I1, I2, I3.
  destruct (wi_kind a) as [t|t|t|t].
  - destruct R as (ti & _ & ->). repeat split; reflexivity.
  - rewrite R. repeat split; reflexivity.
  - rewrite R. repeat split; reflexivity.
  - rewrite R. repeat split; reflexivity.
Qed.

Lemma k13_sec_tables_len : forall w,
  length (flat_map sec_tables w) = length (imp_tables_w (flat_map imports_of w)) + length (flat_map tables_of w).
Proof.
  induction w as [|sec w IH]; [reflexivity|]. cbn [flat_map].
  assert (A : forall a b, imp_tables_w (a ++ b) = imp_tables_w a ++ imp_tables_w b) by (intros; apply flat_map_app).
  rewrite A, !app_length, IH.
  destruct sec; cbn [sec_tables imports_of tables_of length]; rewrite ?map_length; try (change (imp_tables_w []) with (@nil wtable); cbn [length]); lia.
Qed.
Lemma k13_sec_mems_len : forall w,
  length (flat_map sec_mems w) = length (imp_mems_w (flat_map imports_of w)) + length (flat_map mems_of w).
Proof.
  induction w as [|sec w IH]; [reflexivity|]. cbn [flat_map].
  assert (A : forall a b, imp_mems_w (a ++ b) = imp_mems_w a ++ imp_mems_w b) by (intros; apply flat_map_app).
  rewrite A, !app_length, IH.
  destruct sec; cbn [sec_mems imports_of mems_of length]; rewrite ?map_length; try (change (imp_mems_w []) with (@nil wmem); cbn [length]); lia.
Qed.
Lemma k13_sec_globals_len : forall w,
  length (flat_map sec_globals w) = length (imp_globals_w (flat_map imports_of w)) + length (flat_map globals_of w).
Proof.
  induction w as [|sec w IH]; [reflexivity|]. cbn [flat_map].
  assert (A : forall a b, imp_globals_w (a ++ b) = imp_globals_w a ++ imp_globals_w b) by (intros; apply flat_map_app).
  rewrite A, !app_length, IH.
  destruct sec; cbn [sec_globals imports_of globals_of length]; rewrite ?map_length; try (change (imp_globals_w []) with (@nil wglobalty); cbn [length]); lia.
Qed.

Theorem n_in_kept_table : forall cf ver w ilen s1 e1 s2 e2, two_trips cf ver w ilen s1 e1 s2 e2 ->
  n_in s2 S_table = n_in s1 S_table.
Proof.
  intros cf ver w ilen s1 e1 s2 e2 (P1 & E1 & P2 & E2).
  destruct (n_in_stream _ _ _ _ P1) as (-> & _). destruct (n_in_stream _ _ _ _ P2) as (-> & _).
  rewrite !k13_sec_tables_len, (tables_roundtrip_payload _ _ _ _ _ _ P1 E1).
  destruct (k13_imp_lens _ _ _ _ (k13_imports_rt _ _ _ _ _ _ P1 E1)) as (-> & _). reflexivity.
Qed.
Theorem n_in_kept_memory : forall cf ver w ilen s1 e1 s2 e2, two_trips cf ver w ilen s1 e1 s2 e2 ->
  n_in s2 S_memory = n_in s1 S_memory.
Proof.
  intros cf ver w ilen s1 e1 s2 e2 (P1 & E1 & P2 & E2).
  destruct (n_in_stream _ _ _ _ P1) as (_ & -> & _). destruct (n_in_stream _ _ _ _ P2) as (_ & -> & _).
  rewrite !k13_sec_mems_len, (mems_roundtrip_payload _ _ _ _ _ _ P1 E1).
  destruct (k13_imp_lens _ _ _ _ (k13_imports_rt _ _ _ _ _ _ P1 E1)) as (_ & -> & _). reflexivity.
Qed.
Theorem n_in_kept_global : forall cf ver w ilen s1 e1 s2 e2, two_trips cf ver w ilen s1 e1 s2 e2 ->
  n_in s2 S_global = n_in s1 S_global.
Proof.
  intros cf ver w ilen s1 e1 s2 e2 (P1 & E1 & P2 & E2).
  destruct (n_in_stream _ _ _ _ P1) as (_ & _ & -> & _). destruct (n_in_stream _ _ _ _ P2) as (_ & _ & -> & _).
  rewrite !k13_sec_globals_len.
  pose proof (globals_roundtrip_payload _ _ _ _ _ _ P1 E1) as G. apply Forall2_length in G. rewrite <- G.
  destruct (k13_imp_lens _ _ _ _ (k13_imports_rt _ _ _ _ _ _ P1 E1)) as (_ & _ & ->). reflexivity.
Qed.

(* ====================================================================================== *)
(* K1 (general) and K2                                                                     *)
(* ====================================================================================== *)
Theorem n_in_kept : forall cf ver w ilen s1 e1 s2 e2, two_trips cf ver w ilen s1 e1 s2 e2 ->
  forall S, S <> S_type -> S <> S_local -> n_in s2 S = n_in s1 S.
Proof.
  intros cf ver w ilen s1 e1 s2 e2 TT S HT HL. destruct S; try congruence;
    first [ eapply n_in_kept_func; eassumption | eapply n_in_kept_table; eassumption | eapply n_in_kept_memory; eassumption
          | eapply n_in_kept_global; eassumption | eapply n_in_kept_elem; eassumption | eapply n_in_kept_data; eassumption ].
Qed.

Theorem counts_kept_holds : forall cf ver w ilen s1 e1 s2 e2, two_trips cf ver w ilen s1 e1 s2 e2 ->
  counts_kept e1 s2.
Proof.
  intros cf ver w ilen s1 e1 s2 e2 TT. eapply counts_kept_of_n_in; [exact TT|].
  intros S HT HL. rewrite (n_in_kept _ _ _ _ _ _ _ _ TT S HT HL). lia.
Qed.

Print Assumptions n_in_kept_func.
Print Assumptions n_in_kept_table.
Print Assumptions n_in_kept_memory.
Print Assumptions n_in_kept_global.
Print Assumptions n_in_kept_elem.
Print Assumptions n_in_kept_data.
Print Assumptions n_in_kept.
Print Assumptions counts_kept_holds.
