(* C02, validity of the emitted body: the tree-level normal form [nf_rt_list] of the round trip (Model/Sem.v)
   preserves the abstract declarative stack typing of Model/Typing.v.
     [ht]  declarative typing of a whole body;   [hl]  the same, looking only at the code the round trip keeps.
   Main results:  ht_hl, hl_nf, nf_hl, nf_typing_iff, nf_preserves_typing, nf_preserves_typing_renamed, and a
   concrete example (section 7) with dead code that [ht] rejects. *)
From Coq Require Import List NArith ZArith Bool Lia. Import ListNotations.
From WV Require Import Gen.Ops Model.Common Model.IR Model.ParseFn Model.ParseSpec Model.EmitFn
  Model.BodySpec Model.Sem Model.Typing.
From WV Require Import Proofs.ParseFn Proofs.Sem.
Local Open Scope nat_scope.

Scheme ht_mut := Minimality for ht Sort Prop
  with ht1_mut := Minimality for ht1 Sort Prop.
Combined Scheme ht_ht1_ind from ht_mut, ht1_mut.
Scheme hl_mut := Minimality for hl Sort Prop
  with hl1_mut := Minimality for hl1 Sort Prop.
Combined Scheme hl_hl1_ind from hl_mut, hl1_mut.

(* ================================================================== 0. the flag of [nf_rt] *)
Lemma nf_rt_snd u t : snd (nf_rt u t) = u || never_falls t.
Proof.
  destruct t as [o l|l|d l|d l|ds d l|bt body l e|bt body l e|bt th [[le eb]|] l e];
    first [ rewrite nf_rt_block | rewrite nf_rt_loop | rewrite nf_rt_if_some | rewrite nf_rt_if_none | idtac ];
    cbn [nf_rt snd never_falls]; rewrite ?orb_false_r, ?orb_true_r; reflexivity.
Qed.

Lemma nf_rt_list_cons_live t l :
  fst (nf_rt_list false (t :: l)) = fst (nf_rt false t) ++ fst (nf_rt_list (never_falls t) l).
Proof. rewrite nf_rt_list_cons, nf_rt_snd. reflexivity. Qed.

Lemma nf_rt_list_cons_cut t l : never_falls t = true ->
  fst (nf_rt_list false (t :: l)) = fst (nf_rt false t).
Proof. intros H. rewrite nf_rt_list_cons_live, H, nf_rt_list_dead. cbn [fst]. apply app_nil_r. Qed.

Lemma nf_rt_plain o l : fst (nf_rt false (RPlain o l)) = [RPlain o l].
Proof. reflexivity. Qed.

Ltac nofalls := let X := fresh in intros X; cbn [never_falls] in X; discriminate X.

Section TypingNf.
  Variable T : Type.
  Variable t_i32 : T.
  Variable optype : wins -> list T -> list T -> Prop.
  Variable opdead : wins -> list T -> Prop.
  Variable params results : blockty -> list T.

  Notation ht := (ht T t_i32 optype opdead params results).
  Notation ht1 := (ht1 T t_i32 optype opdead params results).
  Notation hl := (hl T t_i32 optype opdead params results).
  Notation hl1 := (hl1 T t_i32 optype opdead params results).

  (* ================================================================ 1. ht -> hl *)
  Lemma ht_hl_both :
    (forall L l a b, ht L l a b -> hl L l a b) /\ (forall L t a b, ht1 L t a b -> hl1 L t a b).
  Proof.
    apply ht_ht1_ind; intros; try (econstructor; eassumption).
    destruct (never_falls t) eqn:E.
    - eapply HL_cut; eassumption.
    - eapply HL_cons; eassumption.
  Qed.
  Theorem ht_hl L l a b : ht L l a b -> hl L l a b.
  Proof. apply ht_hl_both. Qed.
  Lemma ht1_hl1 L t a b : ht1 L t a b -> hl1 L t a b.
  Proof. apply ht_hl_both. Qed.

  (* ================================================================ basic facts about ht *)
  Lemma ht_nil_inv L a b : ht L [] a b -> a = b.
  Proof. intros H. inversion H. reflexivity. Qed.
  Lemma ht_single L t a b : ht1 L t a b -> ht L [t] a b.
  Proof. intros H. eapply HT_cons; [exact H|apply HT_nil]. Qed.
  Lemma ht_single_inv L t a b : ht L [t] a b -> ht1 L t a b.
  Proof.
    intros H. inversion H as [|L0 t0 l0 a0 b0 c0 H1 H2]; subst.
    apply ht_nil_inv in H2. subst. exact H1.
  Qed.

  Lemma ht_app L l1 : forall l2 a b c, ht L l1 a b -> ht L l2 b c -> ht L (l1 ++ l2) a c.
  Proof.
    induction l1 as [|t l1 IH]; intros l2 a b c H1 H2.
    - apply ht_nil_inv in H1. subst. exact H2.
    - inversion H1 as [|L0 t0 l0 a0 b0 c0 Ht Hl]; subst. cbn [app].
      eapply HT_cons; [exact Ht|]. eapply IH; eassumption.
  Qed.
  Lemma ht_app_inv L l1 : forall l2 a c, ht L (l1 ++ l2) a c -> exists b, ht L l1 a b /\ ht L l2 b c.
  Proof.
    induction l1 as [|t l1 IH]; intros l2 a c H.
    - exists a. split; [apply HT_nil|exact H].
    - cbn [app] in H. inversion H as [|L0 t0 l0 a0 b0 c0 Ht Hl]; subst.
      destruct (IH _ _ _ Hl) as (b & Ha & Hb). exists b. split; [|exact Hb].
      eapply HT_cons; eassumption.
  Qed.

  (* ================================================================ frame rule *)
  Lemma ht_frame_both :
    (forall L l a b, ht L l a b -> forall f, ht L l (f ++ a) (f ++ b)) /\
    (forall L t a b, ht1 L t a b -> forall f, ht1 L t (f ++ a) (f ++ b)).
  Proof.
    apply ht_ht1_ind; intros; try (econstructor; eauto; fail);
      match goal with |- context [?g ++ ?f ++ _] => rewrite !(app_assoc g f); econstructor; eauto; fail end.
  Qed.
  Lemma ht_frame L l a b f : ht L l a b -> ht L l (f ++ a) (f ++ b).
  Proof. intros H. now apply ht_frame_both. Qed.
  Lemma hl_frame_both :
    (forall L l a b, hl L l a b -> forall f, hl L l (f ++ a) (f ++ b)) /\
    (forall L t a b, hl1 L t a b -> forall f, hl1 L t (f ++ a) (f ++ b)).
  Proof.
    apply hl_hl1_ind; intros; try (econstructor; eauto; fail);
      match goal with |- context [?g ++ ?f ++ _] => rewrite !(app_assoc g f); econstructor; eauto; fail end.
  Qed.
  Lemma hl_frame L l a b f : hl L l a b -> hl L l (f ++ a) (f ++ b).
  Proof. intros H. now apply hl_frame_both. Qed.
  (* ================================================================ 2. hl -> ht of the normal form *)
  Lemma hl_nf_both :
    (forall L l a b, hl L l a b -> ht L (fst (nf_rt_list false l)) a b) /\
    (forall L t a b, hl1 L t a b ->
       ht L (fst (nf_rt false t)) a b /\ (never_falls t = true -> forall c, ht L (fst (nf_rt false t)) a c)).
  Proof.
    apply hl_hl1_ind.
    - (* nil *) intros L a. apply HT_nil.
    - (* cons *) intros L t l a b c E _ [IH1 _] _ IH2.
      rewrite nf_rt_list_cons_live, E. eapply ht_app; eassumption.
    - (* cut *) intros L t l a b c E _ [_ IH1].
      rewrite nf_rt_list_cons_cut by exact E. apply IH1, E.
    - (* plain *) intros L o loc f i r E Ho. rewrite nf_rt_plain. split.
      + apply ht_single, HT_plain; assumption.
      + intros E'. cbn [never_falls] in E'. congruence.
    - (* dead *) intros L o loc f i b E Ho. rewrite nf_rt_plain.
      split; [|intros _ c]; apply ht_single, HT_dead; assumption.
    - (* nop *) intros L loc a. split; [apply HT_nil|nofalls].
    - (* br *) intros L d loc f ts b E.
      split; [|intros _ c]; apply ht_single, HT_br; assumption.
    - (* br_if *) intros L d loc f ts E.
      split; [|nofalls]. apply ht_single, HT_br_if; assumption.
    - (* br_table *) intros L ds d loc f ts b E EF.
      split; [|intros _ c]; apply ht_single, HT_br_table; assumption.
    - (* block *) intros L bt body loc lend f _ IH. rewrite nf_rt_block. cbn [keepr fst].
      split; [|nofalls]. apply ht_single, HT_block, IH.
    - (* loop *) intros L bt body loc lend f _ IH. rewrite nf_rt_loop. cbn [keepr fst].
      split; [|nofalls]. apply ht_single, HT_loop, IH.
    - (* if/else *) intros L bt th le el loc lend f _ IH1 _ IH2. rewrite nf_rt_if_some. cbn [keepr fst].
      split; [|nofalls]. apply ht_single, HT_if_else; assumption.
    - (* if *) intros L bt th loc lend f _ IH1 E. rewrite nf_rt_if_none. cbn [keepr fst].
      split; [|nofalls]. apply ht_single, HT_if_else; [exact IH1|]. rewrite E. apply HT_nil.
  Qed.
  Theorem hl_nf L l a b : hl L l a b -> ht L (fst (nf_rt_list false l)) a b.
  Proof. apply hl_nf_both. Qed.
  (* the kept image of an instruction that never falls through is stack-polymorphic in its result *)
  Lemma hl1_nf_poly L t a b : never_falls t = true -> hl1 L t a b -> forall c, ht L (fst (nf_rt false t)) a c.
  Proof. intros E H. apply (proj2 hl_nf_both) in H. destruct H as [_ H]. exact (H E). Qed.

  (* ================================================================ 3. the converse *)
  Definition nfQ (t : rt) : Prop := forall L a b, ht L (fst (nf_rt false t)) a b -> hl1 L t a b.

  Lemma nf_hl_list l : Forall nfQ l -> forall L a b, ht L (fst (nf_rt_list false l)) a b -> hl L l a b.
  Proof.
    induction 1 as [|t l Ht Hl IH]; intros L a b H.
    - cbn [nf_rt_list fst] in H. apply ht_nil_inv in H. subst. apply HL_nil.
    - rewrite nf_rt_list_cons_live in H. destruct (never_falls t) eqn:E.
      + rewrite nf_rt_list_dead in H. cbn [fst] in H. rewrite app_nil_r in H.
        eapply HL_cut; [exact E|]. apply Ht, H.
      + apply ht_app_inv in H. destruct H as (m & H1 & H2).
        eapply HL_cons; [exact E| |]; [apply Ht, H1|apply IH, H2].
  Qed.

  Lemma nf_hl1 t : nfQ t.
  Proof.
    induction t as [o l|l|d l|d l|ds d l|bt body l e HF|bt body l e HF|bt th el l e HFt HFe] using rt_ind';
      intros L a b H.
    - rewrite nf_rt_plain in H. apply ht_single_inv in H. inversion H; subst.
      + apply HL_plain; assumption.
      + apply HL_dead; assumption.
    - cbn [nf_rt fst] in H. apply ht_nil_inv in H. subst. apply HL_nop.
    - cbn [nf_rt fst] in H. apply ht_single_inv in H. inversion H; subst. apply HL_br; assumption.
    - cbn [nf_rt fst] in H. apply ht_single_inv in H. inversion H; subst. apply HL_br_if; assumption.
    - cbn [nf_rt fst] in H. apply ht_single_inv in H. inversion H; subst. apply HL_br_table; assumption.
    - rewrite nf_rt_block in H. cbn [keepr fst] in H. apply ht_single_inv in H. inversion H; subst.
      apply HL_block, nf_hl_list; assumption.
    - rewrite nf_rt_loop in H. cbn [keepr fst] in H. apply ht_single_inv in H. inversion H; subst.
      apply HL_loop, nf_hl_list; assumption.
    - destruct el as [[le eb]|].
      + rewrite nf_rt_if_some in H. cbn [keepr fst] in H. apply ht_single_inv in H. inversion H; subst.
        apply HL_if_else; apply nf_hl_list; assumption.
      + rewrite nf_rt_if_none in H. cbn [keepr fst] in H. apply ht_single_inv in H. inversion H; subst.
        apply HL_if; [apply nf_hl_list; assumption|].
        match goal with He : ht _ [] (params bt) (results bt) |- _ => exact (ht_nil_inv _ _ _ He) end.
  Qed.

  Theorem nf_hl L l a b : ht L (fst (nf_rt_list false l)) a b -> hl L l a b.
  Proof. apply nf_hl_list. apply Forall_forall. intros t _. apply nf_hl1. Qed.

  (* ================================================================ 4/5. corollaries *)
  Theorem nf_typing_iff L l a b : hl L l a b <-> ht L (fst (nf_rt_list false l)) a b.
  Proof. split; [apply hl_nf|apply nf_hl]. Qed.
  Theorem nf_preserves_typing L l a b : ht L l a b -> ht L (fst (nf_rt_list false l)) a b.
  Proof. intros H. apply hl_nf, ht_hl, H. Qed.
End TypingNf.

(* ================================================================== 6. monotonicity in the parameters; renamed operators *)
Section Mono.
  Variable T : Type.
  Variable t_i32 : T.
  Variable optype1 optype2 : wins -> list T -> list T -> Prop.
  Variable opdead1 opdead2 : wins -> list T -> Prop.
  Variable params1 params2 results1 results2 : blockty -> list T.
  Hypothesis Hop : forall o i r, optype1 (WOp o) i r -> optype2 (WOp o) i r.
  Hypothesis Hdead : forall o i, opdead1 (WOp o) i -> opdead2 (WOp o) i.
  Hypothesis Hp : forall bt, params2 bt = params1 bt.
  Hypothesis Hr : forall bt, results2 bt = results1 bt.

  Lemma ht_mono_both :
    (forall L l a b, ht T t_i32 optype1 opdead1 params1 results1 L l a b ->
                     ht T t_i32 optype2 opdead2 params2 results2 L l a b) /\
    (forall L t a b, ht1 T t_i32 optype1 opdead1 params1 results1 L t a b ->
                     ht1 T t_i32 optype2 opdead2 params2 results2 L t a b).
  Proof.
    apply ht_ht1_ind; intros; rewrite <- ?Hp, <- ?Hr in *; try (econstructor; eauto; fail).
  Qed.
  Lemma ht_mono L l a b :
    ht T t_i32 optype1 opdead1 params1 results1 L l a b -> ht T t_i32 optype2 opdead2 params2 results2 L l a b.
  Proof. apply ht_mono_both. Qed.
End Mono.

(* [ht] is invariant under pointwise-equivalent parameters *)
Lemma ht_ext T t_i32 optype1 optype2 opdead1 opdead2 params1 params2 results1 results2 :
  (forall o i r, optype2 (WOp o) i r <-> optype1 (WOp o) i r) ->
  (forall o i, opdead2 (WOp o) i <-> opdead1 (WOp o) i) ->
  (forall bt, params2 bt = params1 bt) -> (forall bt, results2 bt = results1 bt) ->
  forall L l a b,
    ht T t_i32 optype1 opdead1 params1 results1 L l a b <-> ht T t_i32 optype2 opdead2 params2 results2 L l a b.
Proof.
  intros Hop Hdead Hp Hr L l a b. split; apply ht_mono; intros; try apply Hop; try apply Hdead; auto.
Qed.

Section Renamed.
  Variable T : Type.
  Variable t_i32 : T.
  Variable optype : wins -> list T -> list T -> Prop.
  Variable opdead : wins -> list T -> Prop.
  Variable params results : blockty -> list T.
  Variable cx : pctx.
  Variable ecx : ectx.
  (* typing of the OUTPUT module's operators and block types *)
  Variable optype' : wins -> list T -> list T -> Prop.
  Variable opdead' : wins -> list T -> Prop.
  Variable params' results' : blockty -> list T.

  Definition ren (w : wins) : wins := match w with WOp o => nf_op cx ecx o | w => w end.

  Hypothesis H_op : forall o i r, optype' (nf_op cx ecx o) i r <-> optype (WOp o) i r.
  Hypothesis H_dead : forall o i, opdead' (nf_op cx ecx o) i <-> opdead (WOp o) i.
  Hypothesis H_params : forall bt, params' (nf_bt cx ecx bt) = params bt.
  Hypothesis H_results : forall bt, results' (nf_bt cx ecx bt) = results bt.

  Notation ht_out := (ht T t_i32 (fun w => optype' (ren w)) (fun w => opdead' (ren w))
                         (fun bt => params' (nf_bt cx ecx bt)) (fun bt => results' (nf_bt cx ecx bt))).

  Lemma ht_renamed_iff L l a b : ht T t_i32 optype opdead params results L l a b <-> ht_out L l a b.
  Proof.
    apply ht_ext.
    - intros o i r. cbn [ren]. apply H_op.
    - intros o i. cbn [ren]. apply H_dead.
    - exact H_params.
    - exact H_results.
  Qed.

  Theorem nf_preserves_typing_renamed L l a b :
    ht T t_i32 optype opdead params results L l a b -> ht_out L (fst (nf_rt_list false l)) a b.
  Proof. intros H. apply ht_renamed_iff, nf_preserves_typing, H. Qed.

  (* the emitted body is typeable in the output module EXACTLY WHEN the kept part of the input is typeable *)
  Theorem nf_typing_iff_renamed L l a b :
    hl T t_i32 optype opdead params results L l a b <-> ht_out L (fst (nf_rt_list false l)) a b.
  Proof. rewrite <- ht_renamed_iff. apply nf_typing_iff. Qed.
End Renamed.

(* ================================================================== 7. non-vacuity: a concrete instance *)
Module Example.
  (* two value types: [true] plays i32, [false] another one *)
  Definition ex_optype (w : wins) (i r : list bool) : Prop :=
    match w with
    | WOp W_Drop => exists t, i = [t] /\ r = []
    | WOp (W_I32Const _) => i = [] /\ r = [true]
    | _ => False
    end.
  Definition ex_opdead (w : wins) (i : list bool) : Prop :=
    match w with
    | WOp W_Unreachable => i = []
    | WOp W_Return => i = []
    | _ => False
    end.
  Definition ex_params (bt : blockty) : list bool := [].
  Definition ex_results (bt : blockty) : list bool := match bt with BT_Val _ => [true] | _ => [] end.

  Notation eht := (ht bool true ex_optype ex_opdead ex_params ex_results).
  Notation eht1 := (ht1 bool true ex_optype ex_opdead ex_params ex_results).
  Notation ehl := (hl bool true ex_optype ex_opdead ex_params ex_results).
  Notation ehl1 := (hl1 bool true ex_optype ex_opdead ex_params ex_results).

  (* nop; i32.const 1; if (nop) end [no else]; block br 0; i32.const 0 end; unreachable; i32.const 0
     - the code after `br 0` and after `unreachable` leaves a value too many: not typeable declaratively *)
  Definition ex_live : list rt :=
    [ RNop 0; RPlain (W_I32Const 1) 1; RIf BT_Empty [RNop 2] None 3 4;
      RBlock BT_Empty [RBr 0 5; RPlain (W_I32Const 0) 6] 7 8 ].
  Definition ex_tail : list rt := [ RPlain W_Unreachable 9; RPlain (W_I32Const 0) 10 ].
  Definition ex_body : list rt := ex_live ++ ex_tail.

  Lemma ex_nf :
    fst (nf_rt_list false ex_body) =
    [ RPlain (W_I32Const 1) 1; RIf BT_Empty [] (Some (default_loc, [])) 3 4;
      RBlock BT_Empty [RBr 0 5] 7 8; RPlain W_Unreachable 9 ].
  Proof. vm_compute. reflexivity. Qed.

  Lemma ex_hl : ehl [] ex_body [] [].
  Proof.
    unfold ex_body, ex_live, ex_tail. cbn [app].
    (* nop *)
    apply (HL_cons bool true ex_optype ex_opdead ex_params ex_results [] (RNop 0) _ [] [] []); [reflexivity|apply HL_nop|].
    (* i32.const 1 *)
    apply (HL_cons bool true ex_optype ex_opdead ex_params ex_results [] (RPlain (W_I32Const 1) 1) _ [] [true] []); [reflexivity| |].
    { apply (HL_plain bool true ex_optype ex_opdead ex_params ex_results [] (W_I32Const 1) 1 [] [] [true]); [reflexivity|]. split; reflexivity. }
    (* if without else *)
    apply (HL_cons bool true ex_optype ex_opdead ex_params ex_results [] (RIf BT_Empty [RNop 2] None 3 4) _ [true] [] []); [reflexivity| |].
    { apply (HL_if bool true ex_optype ex_opdead ex_params ex_results [] BT_Empty [RNop 2] 3 4 []); [|reflexivity].
      apply (HL_cons bool true ex_optype ex_opdead ex_params ex_results _ (RNop 2) [] [] [] []); [reflexivity|apply HL_nop|apply HL_nil]. }
    (* block br 0; <dead> end *)
    apply (HL_cons bool true ex_optype ex_opdead ex_params ex_results [] (RBlock BT_Empty [RBr 0 5; RPlain (W_I32Const 0) 6] 7 8) _ [] [] []);
      [reflexivity| |].
    { apply (HL_block bool true ex_optype ex_opdead ex_params ex_results [] BT_Empty _ 7 8 []).
      apply (HL_cut bool true ex_optype ex_opdead ex_params ex_results _ (RBr 0 5) _ [] [] []); [reflexivity|].
      apply (HL_br bool true ex_optype ex_opdead ex_params ex_results _ 0%N 5%N [] [] []). reflexivity. }
    (* unreachable; <dead> *)
    apply (HL_cut bool true ex_optype ex_opdead ex_params ex_results [] (RPlain W_Unreachable 9) _ [] [] []); [reflexivity|].
    apply (HL_dead bool true ex_optype ex_opdead ex_params ex_results [] W_Unreachable 9%N [] [] []); reflexivity.
  Qed.

  (* what the round trip emits is typeable *)
  Lemma ex_nf_ht : eht [] (fst (nf_rt_list false ex_body)) [] [].
  Proof. apply hl_nf, ex_hl. Qed.
  Lemma ex_nf_ht_explicit :
    eht [] [ RPlain (W_I32Const 1) 1; RIf BT_Empty [] (Some (default_loc, [])) 3 4;
             RBlock BT_Empty [RBr 0 5] 7 8; RPlain W_Unreachable 9 ] [] [].
  Proof. rewrite <- ex_nf. apply ex_nf_ht. Qed.

  (* ... although the input is not (declaratively) typeable: [hl] is strictly weaker than [ht] *)
  Lemma ex_tail_not_ht L a : ~ eht L ex_tail a [].
  Proof.
    unfold ex_tail. intros H.
    inversion H as [|L0 t0 l0 a0 b0 c0 H1 H2]; subst. clear H H1.
    apply ht_single_inv in H2.
    inversion H2 as [L0 o loc f i r Hm Ho E1 E2 E3 | L0 o loc f i b Hm Ho E1 E2 E3 | | | | | | | | ].
    - cbn [ex_optype] in Ho. destruct Ho as [_ Hr]. subst r.
      destruct f; discriminate.
    - vm_compute in Hm. discriminate Hm.
  Qed.
  Lemma ex_not_ht : ~ eht [] ex_body [] [].
  Proof.
    unfold ex_body. intros H. apply ht_app_inv in H. destruct H as (m & _ & H).
    exact (ex_tail_not_ht _ _ H).
  Qed.
End Example.

Print Assumptions ht_hl.
Print Assumptions hl_nf.
Print Assumptions nf_hl.
Print Assumptions nf_typing_iff.
Print Assumptions nf_preserves_typing.
Print Assumptions nf_preserves_typing_renamed.
Print Assumptions nf_typing_iff_renamed.
Print Assumptions ht_ext.
Print Assumptions ht_frame.
Print Assumptions hl_frame.
Print Assumptions ht_app.
Print Assumptions Example.ex_nf_ht_explicit.
Print Assumptions Example.ex_not_ht.
