(* C14: the switches of ModuleConfig are independent of each other and of the order in which they are set. *)
From Coq Require Import List Bool String. Import ListNotations.
From WV Require Import Model.Config Gen.ConfigEmit.

(* ---- the source the model was written against (regenerated on every run) *)
Open Scope string_scope.
Definition expected_config_setters : list (string * list (string * string)) :=
  [("generate_dwarf", [("generate_dwarf", "generate"); ("preserve_code_transform", "generate||self.preserve_code_transform")]);
   ("generate_name_section", [("skip_name_section", "!generate")]);
   ("generate_synthetic_names_for_anonymous_items", [("generate_synthetic_names_for_anonymous_items", "generate")]);
   ("strict_validate", [("skip_strict_validate", "!strict")]);
   ("generate_producers_section", [("skip_producers_section", "!generate")]);
   ("only_stable_features", [("only_stable_features", "only")]);
   ("on_parse", [("on_parse", "Some(Box::new(f)as_)")]);
   ("on_instr_loc", [("on_instr_loc", "Some(Box::new(f)as_)")]);
   ("preserve_code_transform", [("preserve_code_transform", "preserve")])].
(* Module::emit_wasm: section order, the three switches, the custom-section loop (Model/EmitM.v [emitM] follows it) *)
Definition expected_emit_wasm_skeleton : list (string * string) :=
  [("", "take(&mutself.customs)"); ("", "types.emit"); ("", "imports.emit"); ("", "funcs.emit_func_section"); ("", "tables.emit"); ("", "memories.emit"); ("", "globals.emit"); ("", "exports.emit"); ("if letSome(start)=self.start", "section(StartSection)"); ("", "elements.emit"); ("", "data.emit_data_count"); ("", "funcs.emit"); ("", "data.emit"); ("if !self.config.skip_name_section", "emit_name_section"); ("if !self.config.skip_producers_section", "producers.emit"); ("if self.config.generate_dwarf", "debug.emit"); ("", "take(cx.indices)"); ("for (_id,section)incustoms.iter_mut() > if section.name().starts_with('.debug')", "continue"); ("for (_id,section)incustoms.iter_mut() > if self.config.preserve_code_transform", "section.apply_code_transform"); ("for (_id,section)incustoms.iter_mut()", "section(CustomSection)"); ("", "self.customs=customs")].
Theorem config_source_pinned : config_setters = expected_config_setters /\ emit_wasm_skeleton = expected_emit_wasm_skeleton.
Proof. split; reflexivity. Qed.
Lemma emit_wasm_skeleton_pinned : emit_wasm_skeleton = expected_emit_wasm_skeleton.
Proof. reflexivity. Qed.
Close Scope string_scope.

(* ---- which calls can influence which switch *)
Definition own_dwarf (s : setter) := match s with SDwarf _ => true | _ => false end.
Definition own_names (s : setter) := match s with SNames _ => true | _ => false end.
Definition own_synth (s : setter) := match s with SSynth _ => true | _ => false end.
Definition own_strict (s : setter) := match s with SStrict _ => true | _ => false end.
Definition own_prod (s : setter) := match s with SProducers _ => true | _ => false end.
Definition own_stable (s : setter) := match s with SStable _ => true | _ => false end.
Definition own_preserve (s : setter) := match s with SPreserve _ | SDwarf _ => true | _ => false end.

Section field.
Variable get : mcfg -> bool.
Variable own : setter -> bool.
Hypothesis others_keep : forall c s, own s = false -> get (apply_setter c s) = get c.
Hypothesis own_depends_on_field_only : forall c c' s, own s = true -> get c = get c' -> get (apply_setter c s) = get (apply_setter c' s).

Lemma run_field_filter_gen : forall l c c', get c = get c' -> get (run_setters c l) = get (run_setters c' (filter own l)).
Proof.
  induction l as [|s l IH]; intros c c' H; cbn [run_setters fold_left filter]; [exact H|].
  destruct (own s) eqn:E; cbn [fold_left].
  - apply IH. apply own_depends_on_field_only; assumption.
  - apply IH. rewrite others_keep by exact E. exact H.
Qed.
Lemma run_field_filter : forall l c, get (run_setters c l) = get (run_setters c (filter own l)).
Proof. intros; apply run_field_filter_gen; reflexivity. Qed.
End field.

Ltac field_tac := first [ intros c s H; destruct s; cbn in H |- *; (discriminate || reflexivity)
                        | intros c c' s H E; destruct s; cbn in H, E |- *; try discriminate; try reflexivity; try (rewrite E; reflexivity) ].

(* the final value of a switch depends only on the calls of its own setter (for preserve_code_transform: also generate_dwarf) *)
Theorem switch_names_independent : forall l c, c_skip_names (run_setters c l) = c_skip_names (run_setters c (filter own_names l)).
Proof. apply run_field_filter; field_tac. Qed.
Theorem switch_producers_independent : forall l c, c_skip_prod (run_setters c l) = c_skip_prod (run_setters c (filter own_prod l)).
Proof. apply run_field_filter; field_tac. Qed.
Theorem switch_synth_independent : forall l c, c_synth (run_setters c l) = c_synth (run_setters c (filter own_synth l)).
Proof. apply run_field_filter; field_tac. Qed.
Theorem switch_strict_independent : forall l c, c_skip_strict (run_setters c l) = c_skip_strict (run_setters c (filter own_strict l)).
Proof. apply run_field_filter; field_tac. Qed.
Theorem switch_stable_independent : forall l c, c_stable (run_setters c l) = c_stable (run_setters c (filter own_stable l)).
Proof. apply run_field_filter; field_tac. Qed.
Theorem switch_dwarf_independent : forall l c, c_dwarf (run_setters c l) = c_dwarf (run_setters c (filter own_dwarf l)).
Proof. apply run_field_filter; field_tac. Qed.
Theorem switch_preserve_independent : forall l c, c_preserve (run_setters c l) = c_preserve (run_setters c (filter own_preserve l)).
Proof. apply run_field_filter; field_tac. Qed.

(* the last call of a setter decides: name section off iff the last generate_name_section call said false, etc. *)
Fixpoint last_arg (own : setter -> option bool) (l : list setter) (d : bool) : bool :=
  match l with [] => d | s :: r => last_arg own r (match own s with Some b => b | None => d end) end.
Definition arg_names s := match s with SNames b => Some (negb b) | _ => None end.
Definition arg_prod s := match s with SProducers b => Some (negb b) | _ => None end.
Definition arg_dwarf s := match s with SDwarf b => Some b | _ => None end.
Theorem switch_names_last_call : forall l c, c_skip_names (run_setters c l) = last_arg arg_names l (c_skip_names c).
Proof. induction l as [|s l IH]; intro c; cbn [run_setters fold_left last_arg]; [reflexivity|]. fold (run_setters (apply_setter c s) l). rewrite IH. destruct s; reflexivity. Qed.
Theorem switch_producers_last_call : forall l c, c_skip_prod (run_setters c l) = last_arg arg_prod l (c_skip_prod c).
Proof. induction l as [|s l IH]; intro c; cbn [run_setters fold_left last_arg]; [reflexivity|]. fold (run_setters (apply_setter c s) l). rewrite IH. destruct s; reflexivity. Qed.
Theorem switch_dwarf_last_call : forall l c, c_dwarf (run_setters c l) = last_arg arg_dwarf l (c_dwarf c).
Proof. induction l as [|s l IH]; intro c; cbn [run_setters fold_left last_arg]; [reflexivity|]. fold (run_setters (apply_setter c s) l). rewrite IH. destruct s; reflexivity. Qed.
(* DWARF generation needs the code transform: whenever generate_dwarf ends up on and preserve_code_transform was not
   switched off afterwards, the code transform is preserved *)
Theorem dwarf_implies_preserve : forall l c, c_dwarf (apply_setter (run_setters c l) (SDwarf true)) = true /\ c_preserve (apply_setter (run_setters c l) (SDwarf true)) = true.
Proof. intros; split; reflexivity. Qed.
(* Clone keeps every switch and drops the callbacks *)
Theorem clone_keeps_switches : forall c, firstn 7 (cfg_bits (apply_setter c SClone)) = firstn 7 (cfg_bits c) /\ c_on_parse (apply_setter c SClone) = false /\ c_on_instr_loc (apply_setter c SClone) = false.
Proof. intro c; repeat split; reflexivity. Qed.
Example config_example : cfg_bits (run_setters cfg0 [SNames false; SSynth true; SDwarf true; SPreserve false; SClone]) = [true; true; false; false; false; true; false; false; false].
Proof. reflexivity. Qed.
Print Assumptions switch_names_independent.
Print Assumptions switch_preserve_independent.
Print Assumptions config_source_pinned.
